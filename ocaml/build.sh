#!/bin/sh
# builds the model driver from the extracted model (coq/model.ml, produced by extract/Extract.v)
set -e
cd "$(dirname "$0")"
mkdir -p build
cp ../coq/model.ml ../coq/model.mli drv.ml build/
cd build
ocamlfind ocamlopt -O2 -w -a model.mli model.ml drv.ml -o drv
