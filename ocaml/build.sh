#!/bin/sh
# builds the model driver from the extracted model (coq/model.ml, produced by extract/Extract.v).
# The binary is replaced atomically, and only when its inputs changed, so that checks running in
# parallel never see a half-written driver.
set -e
cd "$(dirname "$0")"
mkdir -p build
sig=$(cat ../coq/model.ml ../coq/model.mli drv.ml | sha256sum | cut -d' ' -f1)
if [ -x build/drv ] && [ "$(cat build/drv.sig 2>/dev/null)" = "$sig" ]; then exit 0; fi
tmp=$(mktemp -d build/tmp.XXXXXX)
cp ../coq/model.ml ../coq/model.mli drv.ml "$tmp"/
(cd "$tmp" && ocamlfind ocamlopt -O2 -w -a model.mli model.ml drv.ml -o drv)
mv -f "$tmp/drv" build/drv
echo "$sig" > build/drv.sig
rm -rf "$tmp"
