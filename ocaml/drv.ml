(* Driver around the extracted model (Model) and the extracted checkers (Model too).
   Reads case files, runs the model, prints traces in the common text format, generates schedules,
   enumerates interleavings of tiny cases, and evaluates the checkers on traces read back (from the
   model or from the instrumented crate).  Not verified: part of the trusted base of the
   correspondence check (see DESIGN.md section 5). *)
open Model

(* ---------- conversions ---------- *)
let rec nat_of_int n = if n <= 0 then O else S (nat_of_int (n - 1))
let rec int_of_nat = function O -> 0 | S n -> 1 + int_of_nat n

(* N <-> unsigned 64-bit (values are reduced mod 2^64, which is what the crate's usize does) *)
let rec pos_to_i64 = function
  | XH -> 1L
  | XO p -> Int64.shift_left (pos_to_i64 p) 1
  | XI p -> Int64.logor (Int64.shift_left (pos_to_i64 p) 1) 1L
let n_to_i64 = function N0 -> 0L | Npos p -> pos_to_i64 p
let rec pos_of_i64 (x : int64) : positive =
  (* x <> 0, treated as unsigned *)
  if x = 1L then XH
  else
    let h = Int64.shift_right_logical x 1 in
    if Int64.logand x 1L = 0L then XO (pos_of_i64 h) else XI (pos_of_i64 h)
let n_of_i64 x = if x = 0L then N0 else Npos (pos_of_i64 x)
let n_of_int i = n_of_i64 (Int64.of_int i)
let n_to_int x = Int64.to_int (n_to_i64 x)
let n_str x = Printf.sprintf "%Lu" (n_to_i64 x)
let n_parse s = n_of_i64 (Int64.of_string ("0u" ^ s))
let on_str = function None -> "-" | Some x -> n_str x
let on_parse s = if s = "-" then None else Some (n_parse s)

(* ---------- tokens ---------- *)
let split c s = String.split_on_char c s
let fail fmt = Printf.ksprintf failwith fmt

let kind_str = function KSlice -> "slice" | KVec -> "vec" | KArray -> "array" | KRange -> "range" | KIter -> "iter"
let kind_parse = function "slice" -> KSlice | "vec" -> KVec | "array" -> KArray | "range" -> KRange | "iter" -> KIter | s -> fail "kind %s" s
let adaptor_parse = function "none" -> ANone | "cloned" -> ACloned | "copied" -> ACopied | s -> fail "adaptor %s" s
let hint_parse = function "exact" -> HExact | "inexact" -> HInexact | "none" -> HNone | s -> fail "hint %s" s
let mode_parse = function "checked" -> Checked | "wrapping" -> Wrapping | s -> fail "mode %s" s
let nvar_str = function NIdVal -> "idval" | NVal -> "val" | NValues -> "values" | NIdsValues -> "idsvalues"
let nvar_parse = function "idval" -> NIdVal | "val" -> NVal | "values" -> NValues | "idsvalues" -> NIdsValues | s -> fail "nvar %s" s
let loopk_str = function LForEach -> "foreach" | LEnum -> "enum" | LFold -> "fold"
let loopk_parse = function "foreach" -> LForEach | "enum" -> LEnum | "fold" -> LFold | s -> fail "loopk %s" s
let pk_str = function PkOverflow -> "overflow" | PkAssert -> "assert" | PkChunkZero -> "chunkzero" | PkSource -> "source" | PkUser -> "user" | PkIndex -> "index"
let pk_parse = function "overflow" -> PkOverflow | "assert" -> PkAssert | "chunkzero" -> PkChunkZero | "source" -> PkSource | "user" -> PkUser | "index" -> PkIndex | s -> fail "pk %s" s

let op_str = function
  | Next v -> "next:" ^ nvar_str v
  | Chunk (n, k) -> Printf.sprintf "chunk:%s:%s" (n_str n) (n_str k)
  | BufNew c -> "bufnew:" ^ n_str c
  | BufNext k -> "bufnext:" ^ n_str k
  | BufDrop -> "bufdrop"
  | Loop (l, c, cr) -> Printf.sprintf "loop:%s:%s:%s" (loopk_str l) (n_str c) (on_str cr)
  | Skip -> "skip"
  | TryLen -> "len"
  | HasMore -> "more"
let op_parse s =
  match split ':' s with
  | ["next"; v] -> Next (nvar_parse v)
  | ["chunk"; n; k] -> Chunk (n_parse n, n_parse k)
  | ["bufnew"; c] -> BufNew (n_parse c)
  | ["bufnext"; k] -> BufNext (n_parse k)
  | ["bufdrop"] -> BufDrop
  | ["loop"; l; c; cr] -> Loop (loopk_parse l, n_parse c, on_parse cr)
  | ["skip"] -> Skip
  | ["len"] -> TryLen
  | ["more"] -> HasMore
  | _ -> fail "op %s" s
let final_str = function FDrop -> "drop" | FIntoSeq k -> "seq:" ^ n_str k
let final_parse s = match split ':' s with ["drop"] -> Some FDrop | ["seq"; k] -> Some (FIntoSeq (n_parse k)) | ["none"] -> None | _ -> fail "final %s" s

let run_str r = Printf.sprintf "%s/%s/%s" (on_str r.r_idx) (n_str r.r_val) (n_str r.r_cnt)
let run_parse s = match split '/' s with [i; v; c] -> { r_idx = on_parse i; r_val = n_parse v; r_cnt = n_parse c } | _ -> fail "run %s" s
let runs_str = function [] -> "-" | rs -> String.concat "," (List.map run_str rs)
let runs_parse s = if s = "-" then [] else List.map run_parse (split ',' s)
let drops_str = function [] -> "-" | ds -> String.concat "," (List.map (fun d -> n_str d.d_lo ^ "/" ^ n_str d.d_cnt) ds)
let drops_parse s = if s = "-" then [] else List.map (fun x -> match split '/' x with [a; b] -> { d_lo = n_parse a; d_cnt = n_parse b } | _ -> fail "drops %s" s) (split ',' s)

let res_str = function
  | RNone -> "none"
  | ROne r -> "one:" ^ run_str r
  | RChunk (b, rs, a0, tk, a1) -> Printf.sprintf "chunk:%s:%s:%s:%s:%s" (n_str b) (runs_str rs) (n_str a0) (n_str tk) (n_str a1)
  | RLoop rs -> "loop:" ^ runs_str (merge_runs rs)
  | RLen o -> "len:" ^ on_str o
  | RMore (HYes n) -> "more:yes:" ^ n_str n
  | RMore HMaybe -> "more:maybe"
  | RMore HNo -> "more:no"
  | RUnit -> "unit"
  | RSeq (rs, tk) -> Printf.sprintf "seq:%s:%s" (runs_str rs) (n_str tk)
  | RPanic (k, rs) -> Printf.sprintf "panic:%s:%s" (pk_str k) (runs_str (merge_runs rs))
let res_parse s =
  match split ':' s with
  | ["none"] -> RNone
  | ["one"; r] -> ROne (run_parse r)
  | ["chunk"; b; rs; a0; tk; a1] -> RChunk (n_parse b, runs_parse rs, n_parse a0, n_parse tk, n_parse a1)
  | ["loop"; rs] -> RLoop (runs_parse rs)
  | ["len"; o] -> RLen (on_parse o)
  | ["more"; "yes"; n] -> RMore (HYes (n_parse n))
  | ["more"; "maybe"] -> RMore HMaybe
  | ["more"; "no"] -> RMore HNo
  | ["unit"] -> RUnit
  | ["seq"; rs; tk] -> RSeq (runs_parse rs, n_parse tk)
  | ["panic"; k; rs] -> RPanic (pk_parse k, runs_parse rs)
  | _ -> fail "res %s" s

let site_str = function SC -> "C" | SY -> "Y" | SF -> "F"
let site_parse = function "C" -> SC | "Y" -> SY | "F" -> SF | s -> fail "site %s" s
let ak_str = function ALoad -> "load" | AStore -> "store" | AAdd -> "add"
let ak_parse = function "load" -> ALoad | "store" -> AStore | "add" -> AAdd | s -> fail "akind %s" s

let ord_str = function ORelaxed -> "Relaxed" | OAcquire -> "Acquire" | ORelease -> "Release" | OAcqRel -> "AcqRel" | OSeqCst -> "SeqCst"
let ord_parse = function "Relaxed" -> ORelaxed | "Acquire" -> OAcquire | "Release" -> ORelease | "AcqRel" -> OAcqRel | "SeqCst" -> OSeqCst | s -> fail "ordering %s" s

let label_str = function
  | LCall t -> Printf.sprintf "L %d call" (int_of_nat t)
  | LAtom (t, s, k, a, r, o) -> Printf.sprintf "L %d atom %s %s %s %s %s" (int_of_nat t) (site_str s) (ak_str k) (n_str a) (n_str r) (ord_str o)
  | LSrc (t, r) -> Printf.sprintf "L %d src %s" (int_of_nat t) (on_str r)
  | LSrcPanic t -> Printf.sprintf "L %d srcpanic" (int_of_nat t)
let event_str = function
  | ECall (t, o) -> Printf.sprintf "E %d call %s" (int_of_nat t) (op_str o)
  | ERet (t, r, d) -> Printf.sprintf "E %d ret %s | %s" (int_of_nat t) (res_str r) (drops_str d)
  | EFinal (f, r, d) -> Printf.sprintf "E final %s %s | %s" (final_str f) (res_str r) (drops_str d)

(* ---------- cases ---------- *)
type case = {
  id : string;
  env : env;
  nthreads : int;
  progs : op list array;
  final : final option;
  mutable sched : int list option;     (* None: to be generated *)
  seed : int;
  gen : string;                        (* schedule strategy when sched is None: random | rr | pct *)
  mutable c0 : n option;         (* a clone: the position counter it starts with (C19) *)
}

let kv s = match String.index_opt s '=' with
  | Some i -> (String.sub s 0 i, String.sub s (i + 1) (String.length s - i - 1))
  | None -> fail "kv %s" s

let parse_env toks =
  let tbl = Hashtbl.create 16 in
  List.iter (fun t -> let (k, v) = kv t in Hashtbl.replace tbl k v) toks;
  let g k = try Hashtbl.find tbl k with Not_found -> fail "env key %s missing" k in
  { e_kind = kind_parse (g "kind"); e_adaptor = adaptor_parse (g "adaptor"); e_len = n_parse (g "len");
    e_start = n_parse (g "start"); e_end = n_parse (g "end"); e_hint = hint_parse (g "hint");
    e_owning = (g "owning" = "1"); e_mode = mode_parse (g "mode"); e_crash = on_parse (g "crash");
    (* optional key gap=<k>: the k-th call (0-based) of the wrapped next() answers None although elements
       may remain (a wrapped iterator that is not fused); absent or "-": a fused iterator *)
    e_gap = (match (try on_parse (Hashtbl.find tbl "gap") with Not_found -> None) with
             | Some gk -> (fun k -> N.eqb k gk)
             | None -> (fun _ -> false)) }

let words s = List.filter (fun x -> x <> "") (split ' ' s)

let read_cases ic : case list =
  let cases = ref [] in
  let cur = ref None in
  (try
     while true do
       let line = input_line ic in
       match words line with
       | [] -> ()
       | "case" :: id :: _ ->
           cur := Some { id; env = Obj.magic 0; nthreads = 0; progs = [||]; final = None; sched = None; seed = 0; gen = "random"; c0 = None }
       | "env" :: toks -> (match !cur with Some c -> cur := Some { c with env = parse_env toks } | None -> ())
       | ["threads"; n] -> (match !cur with Some c -> let n = int_of_string n in cur := Some { c with nthreads = n; progs = Array.make n [] } | None -> ())
       | "prog" :: t :: ops -> (match !cur with Some c -> c.progs.(int_of_string t) <- List.map op_parse ops | None -> ())
       | ["final"; f] -> (match !cur with Some c -> cur := Some { c with final = final_parse f } | None -> ())
       | ["seed"; s] -> (match !cur with Some c -> cur := Some { c with seed = int_of_string s } | None -> ())
       | ["gen"; g] -> (match !cur with Some c -> cur := Some { c with gen = g } | None -> ())
       | ["c0"; k] -> (match !cur with Some c -> c.c0 <- Some (n_parse k) | None -> ())
       | ["gap"; g] ->
           (* a case line "gap <k>" (after the env line): the same as the env key gap=<k> *)
           (match !cur, on_parse g with
            | Some c, Some gk -> cur := Some { c with env = { c.env with e_gap = (fun k -> N.eqb k gk) } }
            | _, _ -> ())
       | ["sched"; s] ->
           (match !cur with
            | Some c -> c.sched <- (if s = "-" then None else if s = "." then Some [] else Some (List.map int_of_string (split ',' s)))
            | None -> ())
       | ["end"] -> (match !cur with Some c -> cases := c :: !cases; cur := None | None -> ())
       | _ -> ()   (* trace lines etc. are ignored here *)
     done
   with End_of_file -> ());
  List.rev !cases

let init_case (c : case) : cfg =
  let i = init (fun t -> let k = int_of_nat t in if k < c.nthreads then c.progs.(k) else []) in
  match c.c0 with
  | None -> i
  | Some k -> { i with c_sh = { i.c_sh with s_c = k } }

let progs_fun (c : case) : tid -> op list =
  let a = c.progs in
  let n = Array.length a in
  fun t -> let i = int_of_nat t in if i < n then a.(i) else []

(* ---------- running ---------- *)
let tids = Array.init 64 nat_of_int

let thread_done (cfg : cfg) (t : int) =
  let ts = cfg.c_pool tids.(t) in
  (match ts.t_pc with PIdle -> true | _ -> false) && ts.t_todo = []

let all_done (c : case) cfg =
  let r = ref true in
  for t = 0 to c.nthreads - 1 do if not (thread_done cfg t) then r := false done;
  !r

(* prints what one step added *)
let print_delta oc (before : cfg) (after : cfg) =
  let rec take_new l old acc = if l == old then acc else match l with [] -> acc | x :: tl -> take_new tl old (x :: acc) in
  List.iter (fun l -> output_string oc (label_str l); output_char oc '\n') (take_new after.c_labels before.c_labels []);
  List.iter (fun e -> output_string oc (event_str e); output_char oc '\n') (take_new after.c_trace before.c_trace [])

(* splitmix64 *)
let sm_state = ref 0L
let sm_next () =
  sm_state := Int64.add !sm_state 0x9E3779B97F4A7C15L;
  let z = !sm_state in
  let z = Int64.mul (Int64.logxor z (Int64.shift_right_logical z 30)) 0xBF58476D1CE4E5B9L in
  let z = Int64.mul (Int64.logxor z (Int64.shift_right_logical z 27)) 0x94D049BB133111EBL in
  Int64.logxor z (Int64.shift_right_logical z 31)
let rnd n = if n <= 0 then 0 else Int64.to_int (Int64.unsigned_rem (sm_next ()) (Int64.of_int n))

let max_steps = 20000

(* a thread is spinning fruitlessly if it is in the waiting loop of the ticket protocol *)
let is_waiting (cfg : cfg) t =
  match (cfg.c_pool tids.(t)).t_pc with PChkF (_, _) | PLdY (_, _) -> true | _ -> false

(* generate a complete schedule by running the model *)
let gen_sched (c : case) : int list =
  sm_state := Int64.of_int (c.seed * 7919 + 13);
  let cfg = ref (init_case c) in
  let sched = ref [] in
  let steps = ref 0 in
  let last = ref (-1) in
  (* pct: random priorities, a few priority change points *)
  let prio = Array.init c.nthreads (fun _ -> rnd 1000) in
  let rr = ref 0 in
  while not (all_done c !cfg) && !steps < max_steps do
    let enabled = List.filter (fun t -> not (thread_done !cfg t)) (List.init c.nthreads (fun i -> i)) in
    (* prefer threads that are not waiting, so that spinning does not eat the step budget *)
    let nonwait = List.filter (fun t -> not (is_waiting !cfg t)) enabled in
    let pick_from l = List.nth l (rnd (List.length l)) in
    let t =
      match c.gen with
      | "rr" ->
          let rec nxt k = let t = (!rr + k) mod c.nthreads in if List.mem t enabled then t else nxt (k + 1) in
          let t = nxt 0 in rr := t + 1; t
      | "pct" ->
          if rnd 12 = 0 then (let i = rnd c.nthreads in prio.(i) <- rnd 1000);
          let pool = if nonwait <> [] && rnd 4 <> 0 then nonwait else enabled in
          List.fold_left (fun b t -> if prio.(t) > prio.(b) then t else b) (List.hd pool) pool
      | "solo" ->
          (* run threads to completion one after the other, in a random order of threads *)
          if !last >= 0 && List.mem !last enabled && not (is_waiting !cfg !last) then !last
          else if nonwait <> [] then pick_from nonwait else pick_from enabled
      | _ ->
          if !last >= 0 && List.mem !last enabled && rnd 3 = 0 then !last
          else if nonwait <> [] && rnd 5 <> 0 then pick_from nonwait
          else pick_from enabled
    in
    last := t;
    cfg := step c.env !cfg tids.(t);
    sched := t :: !sched;
    incr steps
  done;
  List.rev !sched

let run_case oc (c : case) =
  let sched = match c.sched with Some s -> s | None -> let s = gen_sched c in c.sched <- Some s; s in
  Printf.fprintf oc "case %s\n" c.id;
  Printf.fprintf oc "sched %s\n" (if sched = [] then "." else String.concat "," (List.map string_of_int sched));
  let cfg = ref (init_case c) in
  List.iter (fun t ->
      let before = !cfg in
      cfg := step c.env before tids.(t);
      print_delta oc before !cfg) sched;
  let complete = all_done c !cfg in
  Printf.fprintf oc "complete %d\n" (if complete then 1 else 0);
  (match c.final with
   | Some f when complete ->
       let before = !cfg in
       cfg := final_step c.env before tids.(c.nthreads) f;
       print_delta oc before !cfg
   | _ -> ());
  Printf.fprintf oc "end\n";
  !cfg

(* ---------- exhaustive enumeration of interleavings (tiny cases) ---------- *)
(* Stateless DFS.  A thread that completed a fruitless round of the waiting loop is parked until the
   shared state changes (it would read the same values again). *)
let dfs_case oc (c : case) (limit : int) =
  let count = ref 0 in
  let n = c.nthreads in
  (* rstart: shared state at the F load that started the current round of the waiting loop of a thread *)
  let rec go (cfg : cfg) (sched_rev : int list) (parked : (int * shared) list) (rstart : (int * shared) list) =
    if !count >= limit then ()
    else if all_done c cfg then begin
      incr count;
      Printf.fprintf oc "case %s#%d\nsched %s\nend\n" c.id !count
        (if sched_rev = [] then "." else String.concat "," (List.rev_map string_of_int sched_rev))
    end else begin
      let any = ref false in
      for t = 0 to n - 1 do
        if not (thread_done cfg t) then begin
          let is_parked = List.exists (fun (u, sh) -> u = t && sh = cfg.c_sh) parked in
          if not is_parked then begin
            any := true;
            let cfg' = step c.env cfg tids.(t) in
            let others l = List.filter (fun (u, _) -> u <> t) l in
            let rstart' =
              match (cfg.c_pool tids.(t)).t_pc with
              | PChkF (_, _) -> (t, cfg.c_sh) :: others rstart
              | _ -> rstart
            in
            (* fruitless round: the thread was at PLdY, is back at PChkF, and the shared state has not
               changed since the F load that started the round: it would read the same values again *)
            let parked' =
              match (cfg.c_pool tids.(t)).t_pc, (cfg'.c_pool tids.(t)).t_pc with
              | PLdY (_, _), PChkF (_, _) when List.exists (fun (u, sh) -> u = t && sh = cfg'.c_sh) rstart ->
                  (t, cfg'.c_sh) :: others parked
              | _ -> if cfg'.c_sh = cfg.c_sh then parked else []
            in
            go cfg' (t :: sched_rev) parked' rstart'
          end
        end
      done;
      if not !any then begin
        (* every unfinished thread is parked: a deadlock of the waiting protocol *)
        incr count;
        Printf.fprintf oc "case %s#%d\nsched %s\ndeadlock 1\nend\n" c.id !count
          (String.concat "," (List.rev_map string_of_int sched_rev))
      end
    end
  in
  go (init_case c) [] [] [];
  !count

(* ---------- reading traces back ---------- *)
type trace = { tid_ : string; labels : label list; events : event list; flags : string list }   (* chronological *)

let label_parse (w : string list) : label =
  match w with
  | [t; "call"] -> LCall (nat_of_int (int_of_string t))
  | [t; "atom"; s; k; a; r; o] -> LAtom (nat_of_int (int_of_string t), site_parse s, ak_parse k, n_parse a, n_parse r, ord_parse o)
  | [t; "atom"; s; k; a; r] -> LAtom (nat_of_int (int_of_string t), site_parse s, ak_parse k, n_parse a, n_parse r, OSeqCst)
  | [t; "src"; r] -> LSrc (nat_of_int (int_of_string t), on_parse r)
  | [t; "srcpanic"] -> LSrcPanic (nat_of_int (int_of_string t))
  | [t; "srchint"] -> LSrc (nat_of_int (int_of_string t), None)   (* another use of the wrapped iterator: judged like a call of next *)
  | _ -> fail "label %s" (String.concat " " w)

let read_traces ic : trace list =
  let out = ref [] in
  let cur = ref None in
  (try
     while true do
       let line = input_line ic in
       match words line with
       | "case" :: id :: _ -> cur := Some { tid_ = id; labels = []; events = []; flags = [] }
       | "L" :: rest ->
           (* an atomic operation the model does not have (fetch_sub, compare_exchange, ...) cannot be a label: it is
              flagged and left out, the events are still judged *)
           (match !cur with
            | Some c -> (try cur := Some { c with labels = label_parse rest :: c.labels }
                         with Failure _ -> cur := Some { c with flags = ("unparsed-label:" ^ String.concat "_" rest) :: c.flags })
            | None -> ())
       | ["E"; t; "call"; o] -> (match !cur with Some c -> cur := Some { c with events = ECall (nat_of_int (int_of_string t), op_parse o) :: c.events } | None -> ())
       | ["E"; t; "ret"; "hang"; "|"; _] -> (match !cur with Some c -> cur := Some { c with flags = ("hang:" ^ t) :: c.flags } | None -> ())
       | ["E"; t; "ret"; r; "|"; d] ->
           (match !cur with
            | Some c ->
                (try cur := Some { c with events = ERet (nat_of_int (int_of_string t), res_parse r, drops_parse d) :: c.events }
                 with Failure m -> cur := Some { c with flags = ("unparsed:" ^ r) :: c.flags })
            | None -> ())
       | ["E"; "final"; f; r; "|"; d] ->
           (match !cur, final_parse f with
            | Some c, Some ff ->
                (try cur := Some { c with events = EFinal (ff, res_parse r, drops_parse d) :: c.events }
                 with Failure m -> cur := Some { c with flags = ("unparsed-final:" ^ r) :: c.flags })
            | _ -> ())
       | ["E"; t; "leftover"; d] -> (match !cur with Some c -> cur := Some { c with flags = ("leftover:" ^ t ^ ":" ^ d) :: c.flags } | None -> ())
       | ["complete"; "0"] -> (match !cur with Some c -> cur := Some { c with flags = "incomplete" :: c.flags } | None -> ())
       | ["deadlock"; _] -> (match !cur with Some c -> cur := Some { c with flags = "deadlock" :: c.flags } | None -> ())
       | ["end"] -> (match !cur with Some c -> out := c :: !out; cur := None | None -> ())
       | _ -> ()
     done
   with End_of_file -> ());
  List.rev !out

(* evaluates the extracted checkers on traces; labels/events are kept latest first, as the machine does *)
let chk_traces (cases : case list) (traces : trace list) (props : int list) =
  let tbl = Hashtbl.create 1024 in
  List.iter (fun c -> Hashtbl.replace tbl c.id c) cases;
  List.iter (fun tr ->
      (* a trace id may carry a #k suffix (enumerated schedules of one case) *)
      let base = match String.index_opt tr.tid_ '#' with Some i -> String.sub tr.tid_ 0 i | None -> tr.tid_ in
      match (match Hashtbl.find_opt tbl tr.tid_ with Some c -> Some c | None -> Hashtbl.find_opt tbl base) with
      | None -> Printf.printf "chk %s - nocase\n" tr.tid_
      | Some c ->
          List.iter (fun f -> Printf.printf "flag %s %s\n" tr.tid_ f) tr.flags;
          List.iter (fun p ->
              let ok = check_prop (n_of_int p) c.env tr.events tr.labels in
              Printf.printf "chk %s %d %s\n" tr.tid_ p (if ok then "ok" else "FAIL")) props)
    traces

(* ---------- main ---------- *)
let () =
  let mode = if Array.length Sys.argv > 1 then Sys.argv.(1) else "run" in
  match mode with
  | "run" ->
      (* drv run < cases > traces   : generate schedules where missing, run the model, print traces *)
      let cases = read_cases stdin in
      List.iter (fun c -> ignore (run_case stdout c)) cases
  | "dfs" ->
      (* drv dfs <limit> < cases > schedules *)
      let limit = int_of_string Sys.argv.(2) in
      let cases = read_cases stdin in
      List.iter (fun c -> let k = dfs_case stdout c limit in Printf.eprintf "%s: %d schedules\n" c.id k) cases
  | "chk" ->
      (* drv chk <cases-file> <props comma separated> < traces *)
      let cases = let ic = open_in Sys.argv.(2) in let c = read_cases ic in close_in ic; c in
      let props = List.map int_of_string (split ',' Sys.argv.(3)) in
      chk_traces cases (read_traces stdin) props
  | _ -> prerr_endline "usage: drv run|dfs|chk"; exit 2
