(** Extraction of the executable model and of the property checkers to OCaml.
    Only [ExtrOcamlBasic] is used: bool, option, unit, list, prod, sumbool map to the OCaml types of
    the same name; [N], [positive], [nat] stay the extracted inductives.  No [Extract Constant]. *)
From Coq Require Import Extraction ExtrOcamlBasic.
From OCI Require Import Machine Checkers.
Extraction Language OCaml.
Extraction "model.ml" init step exec final_step W UMAX check_prop merge_runs.
