(** * Generic lemmas: thread pools as functions, finite sums and gatherings over a fixed list of
      threads, interval lists up to permutation. *)
From Coq Require Import Lia Permutation ZArith.
From OCI Require Import Machine Checkers.
Open Scope N_scope.

(** ** pools *)

Lemma upd_same {A} (f : tid -> A) t x : upd f t x t = x.
Proof. unfold upd. now rewrite Nat.eqb_refl. Qed.

Lemma upd_other {A} (f : tid -> A) t x u : u <> t -> upd f t x u = f u.
Proof. unfold upd. intros H. destruct (Nat.eqb_spec u t); congruence. Qed.

Ltac upd_simpl :=
  repeat match goal with
  | |- context [upd _ ?t _ ?t] => rewrite upd_same
  | H : context [upd _ ?t _ ?t] |- _ => rewrite upd_same in H
  | Hn : ?u <> ?t |- context [upd _ ?t _ ?u] => rewrite (upd_other _ t _ u Hn)
  | Hn : ?u <> ?t, H : context [upd _ ?t _ ?u] |- _ => rewrite (upd_other _ t _ u Hn) in H
  end.

(** ** sums over a list of threads *)

Fixpoint sumZ (f : tid -> Z) (L : list tid) : Z :=
  match L with [] => 0%Z | t :: tl => (f t + sumZ f tl)%Z end.

Lemma sumZ_ext f g L : (forall t, In t L -> f t = g t) -> sumZ f L = sumZ g L.
Proof.
  induction L as [|a L IH]; cbn [sumZ]; intros H; [reflexivity|].
  rewrite (H a) by (left; reflexivity). rewrite IH; [reflexivity|]. intros t Ht. apply H. right. exact Ht.
Qed.

Lemma sumZ_upd_notin (f : tid -> Z) L t x : ~ In t L -> sumZ (upd f t x) L = sumZ f L.
Proof.
  intros H. apply sumZ_ext. intros u Hu. apply upd_other. intros ->. contradiction.
Qed.

Lemma sumZ_upd (f : tid -> Z) L t x : NoDup L -> In t L ->
  sumZ (upd f t x) L = (sumZ f L - f t + x)%Z.
Proof.
  induction L as [|a L IH]; intros ND Hin; [contradiction|].
  inversion ND as [|? ? Hna ND']; subst. cbn [sumZ].
  destruct Hin as [->|Hin].
  - rewrite upd_same. rewrite sumZ_upd_notin by assumption. lia.
  - assert (a <> t) by (intros ->; contradiction).
    rewrite upd_other by assumption. rewrite IH by assumption. lia.
Qed.

Lemma sumZ_nonneg f L : (forall t, In t L -> (0 <= f t)%Z) -> (0 <= sumZ f L)%Z.
Proof.
  induction L as [|a L IH]; cbn [sumZ]; intros H; [lia|].
  pose proof (H a (or_introl eq_refl)). assert (0 <= sumZ f L)%Z by (apply IH; intros; apply H; right; assumption). lia.
Qed.

Lemma sumZ_zero f L : (forall t, In t L -> (0 <= f t)%Z) -> sumZ f L = 0%Z -> forall t, In t L -> f t = 0%Z.
Proof.
  induction L as [|a L IH]; cbn [sumZ]; intros H E t Ht; [contradiction|].
  pose proof (H a (or_introl eq_refl)).
  assert (0 <= sumZ f L)%Z by (apply sumZ_nonneg; intros; apply H; right; assumption).
  destruct Ht as [->|Ht]; [lia|]. apply IH; try assumption; [intros; apply H; right; assumption|lia].
Qed.

(** ** gathering lists over a list of threads *)

Definition gather {A} (f : tid -> list A) (L : list tid) : list A := flat_map f L.

Lemma gather_ext {A} (f g : tid -> list A) L : (forall t, In t L -> f t = g t) -> gather f L = gather g L.
Proof.
  unfold gather. induction L as [|a L IH]; cbn [flat_map]; intros H; [reflexivity|].
  rewrite (H a) by (left; reflexivity). rewrite IH; [reflexivity|]. intros t Ht. apply H. right. exact Ht.
Qed.

Lemma gather_upd_notin {A} (f : tid -> list A) L t x : ~ In t L -> gather (upd f t x) L = gather f L.
Proof. intros H. apply gather_ext. intros u Hu. apply upd_other. intros ->. contradiction. Qed.

(** replacing the list of thread [t] by [x]: up to permutation, remove the old one and add the new one *)
Lemma gather_upd {A} (f : tid -> list A) L t x : NoDup L -> In t L ->
  exists rest, Permutation (gather f L) (f t ++ rest) /\ Permutation (gather (upd f t x) L) (x ++ rest).
Proof.
  induction L as [|a L IH]; intros ND Hin; [contradiction|].
  inversion ND as [|? ? Hna ND']; subst. unfold gather. cbn [flat_map]. fold (gather f L). fold (gather (upd f t x) L).
  destruct Hin as [->|Hin].
  - exists (gather f L). rewrite upd_same. rewrite gather_upd_notin by assumption. split; apply Permutation_refl.
  - assert (a <> t) by (intros ->; contradiction).
    rewrite upd_other by assumption.
    destruct (IH ND' Hin) as (rest & P1 & P2).
    exists (f a ++ rest). split.
    + rewrite P1. rewrite !app_assoc. apply Permutation_app_tail. apply Permutation_app_comm.
    + rewrite P2. rewrite !app_assoc. apply Permutation_app_tail. apply Permutation_app_comm.
Qed.

Lemma gather_nil {A} (f : tid -> list A) L : (forall t, In t L -> f t = []) -> gather f L = [].
Proof.
  unfold gather. induction L as [|a L IH]; cbn [flat_map]; intros H; [reflexivity|].
  rewrite (H a) by (left; reflexivity). rewrite IH; [reflexivity|]. intros; apply H; right; assumption.
Qed.

Lemma gather_in {A} (f : tid -> list A) L x : In x (gather f L) <-> exists t, In t L /\ In x (f t).
Proof. unfold gather. apply in_flat_map. Qed.

(** ** interval lists *)

Lemma iv_disj_sym a b : iv_disj a b = iv_disj b a.
Proof.
  unfold iv_disj. destruct (snd a =? 0), (snd b =? 0), (iv_hi a <=? fst b), (iv_hi b <=? fst a); reflexivity.
Qed.

Lemma disj_from_app a l1 l2 : disj_from a (l1 ++ l2) = disj_from a l1 && disj_from a l2.
Proof. induction l1 as [|b l1 IH]; cbn [app disj_from]; [reflexivity|]. rewrite IH. now rewrite andb_assoc. Qed.

Lemma disj_from_forall a l : disj_from a l = true <-> forall b, In b l -> iv_disj a b = true.
Proof.
  induction l as [|c l IH]; cbn [disj_from].
  - split; [intros _ b []|reflexivity].
  - rewrite andb_true_iff, IH. split.
    + intros [H1 H2] b [<-|Hb]; [assumption|apply H2; assumption].
    + intros H. split; [apply H; left; reflexivity|intros b Hb; apply H; right; assumption].
Qed.

Lemma disj_from_perm a l1 l2 : Permutation l1 l2 -> disj_from a l1 = disj_from a l2.
Proof.
  intros P. destruct (disj_from a l1) eqn:E1, (disj_from a l2) eqn:E2; try reflexivity.
  - rewrite disj_from_forall in E1. assert (disj_from a l2 = true) as X; [|congruence].
    apply disj_from_forall. intros b Hb. apply E1. apply Permutation_in with l2; [apply Permutation_sym; assumption|assumption].
  - rewrite disj_from_forall in E2. assert (disj_from a l1 = true) as X; [|congruence].
    apply disj_from_forall. intros b Hb. apply E2. apply Permutation_in with l1; assumption.
Qed.

(** pairwise disjointness, as a statement about all pairs at different places *)
Lemma pairwise_disj_cons a l : pairwise_disj (a :: l) = disj_from a l && pairwise_disj l.
Proof. reflexivity. Qed.

Lemma pairwise_disj_app l1 l2 :
  pairwise_disj (l1 ++ l2) = pairwise_disj l1 && pairwise_disj l2 && forallb (fun a => disj_from a l2) l1.
Proof.
  induction l1 as [|a l1 IH]; cbn [app pairwise_disj forallb].
  - now rewrite andb_true_r.
  - rewrite IH, disj_from_app.
    destruct (disj_from a l1), (disj_from a l2), (pairwise_disj l1), (pairwise_disj l2), (forallb (fun a0 => disj_from a0 l2) l1); reflexivity.
Qed.

Lemma pairwise_disj_perm l1 l2 : Permutation l1 l2 -> pairwise_disj l1 = pairwise_disj l2.
Proof.
  induction 1 as [|x l l' P IH|x y l|l l' l'' P1 IH1 P2 IH2].
  - reflexivity.
  - cbn [pairwise_disj]. rewrite IH. rewrite (disj_from_perm x l l' P). reflexivity.
  - cbn [pairwise_disj disj_from]. rewrite (iv_disj_sym y x).
    destruct (iv_disj x y), (disj_from y l), (disj_from x l), (pairwise_disj l); reflexivity.
  - congruence.
Qed.

Lemma iv_total_app l1 l2 : iv_total (l1 ++ l2) = iv_total l1 + iv_total l2.
Proof. induction l1 as [|a l1 IH]; cbn [app iv_total]; [reflexivity|]. rewrite IH. lia. Qed.

Lemma iv_total_perm l1 l2 : Permutation l1 l2 -> iv_total l1 = iv_total l2.
Proof.
  induction 1 as [|x l l' P IH|x y l|l l' l'' P1 IH1 P2 IH2]; cbn [iv_total]; try lia.
Qed.

Lemma iv_maxhi_app l1 l2 : iv_maxhi (l1 ++ l2) = N.max (iv_maxhi l1) (iv_maxhi l2).
Proof.
  induction l1 as [|a l1 IH]; cbn [app iv_maxhi]; [lia|]. rewrite IH. destruct (snd a =? 0); lia.
Qed.

Lemma iv_maxhi_perm l1 l2 : Permutation l1 l2 -> iv_maxhi l1 = iv_maxhi l2.
Proof.
  induction 1 as [|x l l' P IH|x y l|l l' l'' P1 IH1 P2 IH2]; cbn [iv_maxhi]; try lia.
  - rewrite IH. reflexivity.
  - destruct (snd x =? 0), (snd y =? 0); lia.
Qed.

Lemma iv_within_app n l1 l2 : iv_within n (l1 ++ l2) = iv_within n l1 && iv_within n l2.
Proof. unfold iv_within. apply forallb_app. Qed.

Lemma iv_within_perm n l1 l2 : Permutation l1 l2 -> iv_within n l1 = iv_within n l2.
Proof.
  unfold iv_within.
  induction 1 as [|x l l' P IH|x y l|l l' l'' P1 IH1 P2 IH2]; cbn [forallb]; try congruence.
  destruct ((snd y =? 0) || (iv_hi y <=? n)), ((snd x =? 0) || (iv_hi x <=? n)); reflexivity.
Qed.

Lemma iv_within_mono n m l : n <= m -> iv_within n l = true -> iv_within m l = true.
Proof.
  unfold iv_within. intros Hnm. rewrite !forallb_forall. intros H a Ha. specialize (H a Ha).
  rewrite orb_true_iff in *. destruct H as [H|H]; [left; assumption|right].
  apply N.leb_le in H. apply N.leb_le. lia.
Qed.

Lemma iv_within_maxhi n l : iv_within n l = true <-> iv_maxhi l <= n.
Proof.
  unfold iv_within. induction l as [|a l IH]; cbn [forallb iv_maxhi].
  - split; [lia|reflexivity].
  - rewrite andb_true_iff, IH. destruct (N.eqb_spec (snd a) 0) as [E|E]; cbn [orb].
    + split; [intros [_ H]; assumption|intros H; split; [reflexivity|assumption]].
    + rewrite N.leb_le. split; [intros [H1 H2]; lia|intros H; split; lia].
Qed.

(** an interval that starts at or above [n] is disjoint from everything inside [0, n) *)
Lemma disj_from_above n a l : iv_within n l = true -> n <= fst a -> disj_from a l = true.
Proof.
  intros Hw Ha. apply disj_from_forall. intros b Hb.
  unfold iv_within in Hw. rewrite forallb_forall in Hw. specialize (Hw b Hb).
  unfold iv_disj. rewrite orb_true_iff in Hw. destruct Hw as [Hw|Hw].
  - rewrite Hw. now rewrite orb_true_r.
  - apply N.leb_le in Hw. assert (iv_hi b <=? fst a = true) as -> by (apply N.leb_le; lia).
    now rewrite !orb_true_r.
Qed.

Lemma all_above_app f l1 l2 : all_above f (l1 ++ l2) = all_above f l1 && all_above f l2.
Proof. unfold all_above. apply forallb_app. Qed.

Lemma all_above_mono f g l : g <= f -> all_above f l = true -> all_above g l = true.
Proof.
  unfold all_above. intros Hfg. rewrite !forallb_forall. intros H a Ha. specialize (H a Ha).
  rewrite orb_true_iff in *. destruct H as [H|H]; [left; assumption|right].
  apply N.leb_le in H. apply N.leb_le. lia.
Qed.

(** ** the tiling of a prefix of the source by a multiset of intervals *)

Record tiling (clean : bool) (n : N) (h : list iv) : Prop := {
  tl_disj   : pairwise_disj h = true;
  tl_within : iv_within n h = true;
  tl_total  : clean = true -> iv_total h = n;
  tl_maxhi  : clean = true -> iv_maxhi h = n
}.

Lemma tiling_perm cl n h h' : Permutation h h' -> tiling cl n h -> tiling cl n h'.
Proof.
  intros P [H1 H2 H3 H4]. split.
  - rewrite <- (pairwise_disj_perm _ _ P). assumption.
  - rewrite <- (iv_within_perm _ _ _ P). assumption.
  - intros C. rewrite <- (iv_total_perm _ _ P). auto.
  - intros C. rewrite <- (iv_maxhi_perm _ _ P). auto.
Qed.

(** a new interval that starts exactly at the frontier extends the tiling *)
Lemma tiling_extend cl n h cnt : tiling cl n h -> tiling cl (n + cnt) ((n, cnt) :: h).
Proof.
  intros [H1 H2 H3 H4]. split.
  - cbn [pairwise_disj]. rewrite H1, andb_true_r. apply disj_from_above with n; [assumption|cbn; lia].
  - unfold iv_within in *. cbn [forallb]. rewrite andb_true_iff. split.
    + unfold iv_hi; cbn [fst snd]. destruct (N.eqb_spec cnt 0); cbn [orb]; [reflexivity|]. apply N.leb_le. lia.
    + fold (iv_within (n + cnt) h). apply iv_within_mono with n; [lia|assumption].
  - intros C. cbn [iv_total snd]. rewrite (H3 C). lia.
  - intros C. cbn [iv_maxhi]. unfold iv_hi; cbn [fst snd]. rewrite (H4 C).
    destruct (N.eqb_spec cnt 0); lia.
Qed.

(** the frontier can jump (skip_to_end) once the history is not clean any more *)
Lemma tiling_jump n m h : n <= m -> tiling false n h -> tiling false m h.
Proof.
  intros Hnm [H1 H2 _ _]. split; try discriminate; [assumption|].
  apply iv_within_mono with n; assumption.
Qed.

Lemma tiling_unclean cl n h : tiling cl n h -> tiling false n h.
Proof. intros [H1 H2 _ _]. split; try discriminate; assumption. Qed.

Lemma tiling_empty cl : tiling cl 0 [].
Proof. split; reflexivity. Qed.

(** ** increasing lists of intervals *)

Lemma all_above_forall f l : all_above f l = true <-> forall a, In a l -> snd a = 0 \/ f <= fst a.
Proof.
  unfold all_above. rewrite forallb_forall. split; intros H a Ha; specialize (H a Ha).
  - rewrite orb_true_iff in H. destruct H as [H|H]; [left; apply N.eqb_eq; exact H|right; apply N.leb_le; exact H].
  - rewrite orb_true_iff. destruct H as [H|H]; [left; apply N.eqb_eq; exact H|right; apply N.leb_le; exact H].
Qed.

Lemma all_above_perm f l1 l2 : Permutation l1 l2 -> all_above f l1 = all_above f l2.
Proof.
  unfold all_above.
  induction 1 as [|x l l' P IH|x y l|l l' l'' P1 IH1 P2 IH2]; cbn [forallb]; try congruence.
  destruct ((snd y =? 0) || (f <=? fst y)), ((snd x =? 0) || (f <=? fst x)); reflexivity.
Qed.

Lemma all_above_rev f l : all_above f (rev l) = all_above f l.
Proof. apply all_above_perm. apply Permutation_sym, Permutation_rev. Qed.

(** appending an interval that lies above everything before it *)
Lemma increasing_snoc l a : increasing l = true -> iv_maxhi l <= fst a -> increasing (l ++ [a]) = true.
Proof.
  induction l as [|b l IH]; cbn [app increasing iv_maxhi]; intros H Hm.
  - reflexivity.
  - apply andb_true_iff in H. destruct H as [H1 H2]. apply andb_true_iff. split.
    + rewrite all_above_app, H1. cbn [andb]. apply all_above_forall. intros x [<-|[]]. right.
      destruct (N.eqb_spec (snd b) 0); lia.
    + apply IH; [assumption|]. destruct (snd b =? 0); lia.
Qed.

Lemma increasing_single a : increasing [a] = true.
Proof. reflexivity. Qed.

(** two consecutive intervals are increasing *)
Lemma increasing_split b took cnt :
  took <= cnt -> increasing ((if took =? 0 then [] else [(b, took)]) ++ [(b + took, cnt - took)]) = true.
Proof.
  intros H. destruct (N.eqb_spec took 0); cbn [app increasing all_above forallb fst snd iv_hi]; [reflexivity|].
  destruct (N.eqb_spec took 0); [contradiction|]. unfold iv_hi. cbn [fst snd].
  assert (b + took <=? b + took = true) as -> by (apply N.leb_le; lia). rewrite orb_true_r. reflexivity.
Qed.

Lemma all_above_split f b took cnt :
  f <= b -> all_above f ((if took =? 0 then [] else [(b, took)]) ++ [(b + took, cnt - took)]) = true.
Proof.
  intros H. apply all_above_forall. intros a Ha. right.
  destruct (N.eqb_spec took 0); cbn [app] in Ha.
  - destruct Ha as [<-|[]]. cbn [fst]. lia.
  - destruct Ha as [<-|[<-|[]]]; cbn [fst]; lia.
Qed.

Lemma iv_total_split b took cnt :
  took <= cnt -> iv_total ((if took =? 0 then [] else [(b, took)]) ++ [(b + took, cnt - took)]) = cnt.
Proof. intros H. destruct (N.eqb_spec took 0); cbn [app iv_total snd]; lia. Qed.

Lemma in_within n l a : iv_within n l = true -> In a l -> snd a = 0 \/ iv_hi a <= n.
Proof.
  unfold iv_within. rewrite forallb_forall. intros H Ha. specialize (H a Ha).
  rewrite orb_true_iff in H. destruct H as [H|H]; [left; apply N.eqb_eq; exact H|right; apply N.leb_le; exact H].
Qed.

Lemma tiling_extend_split cl n h cnt took :
  took <= cnt -> tiling cl n h ->
  tiling cl (n + cnt) (((if took =? 0 then [] else [(n, took)]) ++ [(n + took, cnt - took)]) ++ h).
Proof.
  intros Ht T. destruct (N.eqb_spec took 0) as [->|Hz].
  - cbn [app]. rewrite N.add_0_r, N.sub_0_r. apply tiling_extend. exact T.
  - cbn [app]. replace (n + cnt) with ((n + took) + (cnt - took)) by lia.
    eapply tiling_perm; [apply perm_swap|].
    apply tiling_extend with (n := n + took).
    apply tiling_extend. exact T.
Qed.


(** the ledger split of a chunk: what the caller took, and what was destroyed when it dropped the rest *)
Definition led_split (b took cnt : N) : list iv :=
  (if took =? 0 then [] else [(b, took)]) ++ (if 0 <? cnt - took then [(b + took, cnt - took)] else []).

Lemma tiling_extend_led n h cnt took :
  took <= cnt -> tiling true n h -> tiling true (n + cnt) (led_split n took cnt ++ h).
Proof.
  intros Ht T. unfold led_split. destruct (N.ltb_spec 0 (cnt - took)) as [Hp|Hp].
  - apply tiling_extend_split; assumption.
  - assert (took = cnt) as -> by lia. destruct (N.eqb_spec cnt 0) as [->|Hz]; cbn [app].
    + rewrite N.add_0_r. exact T.
    + apply tiling_extend. exact T.
Qed.


(** ** sub-intervals, splitting and growing an interval of a tiling *)

Lemma iv_disj_sub a a' b : fst a <= fst a' -> iv_hi a' <= iv_hi a -> iv_disj a b = true -> iv_disj a' b = true.
Proof.
  unfold iv_disj, iv_hi. intros H1 H2 H.
  destruct (N.eqb_spec (snd a') 0); [reflexivity|]. cbn [orb].
  destruct (N.eqb_spec (snd b) 0); [reflexivity|]. cbn [orb].
  destruct (N.eqb_spec (snd a) 0) as [E|E]; [unfold iv_hi in *; lia|]. cbn [orb] in H.
  apply orb_true_iff in H. apply orb_true_iff. destruct H as [H|H]; apply N.leb_le in H; [left|right]; apply N.leb_le; lia.
Qed.

Lemma disj_from_sub a a' l : fst a <= fst a' -> iv_hi a' <= iv_hi a -> disj_from a l = true -> disj_from a' l = true.
Proof.
  intros H1 H2. rewrite !disj_from_forall. intros H b Hb. eapply iv_disj_sub; eauto.
Qed.

Lemma tiling_split cl n a x y h :
  tiling cl n ((a, x + y) :: h) -> tiling cl n ((a, x) :: (a + x, y) :: h).
Proof.
  intros [H1 H2 H3 H4]. cbn [pairwise_disj] in H1. apply andb_true_iff in H1. destruct H1 as [Hd Hp].
  split.
  - cbn [pairwise_disj disj_from]. rewrite Hp, andb_true_r.
    assert (disj_from (a, x) h = true) as -> by (eapply disj_from_sub; [| |exact Hd]; unfold iv_hi; cbn [fst snd]; lia).
    assert (disj_from (a + x, y) h = true) as -> by (eapply disj_from_sub; [| |exact Hd]; unfold iv_hi; cbn [fst snd]; lia).
    rewrite !andb_true_r. unfold iv_disj, iv_hi. cbn [fst snd].
    assert (a + x <=? a + x = true) as -> by (apply N.leb_le; lia). rewrite !orb_true_r. reflexivity.
  - unfold iv_within in *. cbn [forallb] in *. apply andb_true_iff in H2. destruct H2 as [Ha Hh]. rewrite Hh, andb_true_r.
    unfold iv_hi in *. cbn [fst snd] in *.
    apply orb_true_iff in Ha. apply andb_true_iff. split; apply orb_true_iff.
    + destruct (N.eqb_spec x 0); [left; reflexivity|right]. destruct Ha as [Ha|Ha]; [apply N.eqb_eq in Ha; lia|apply N.leb_le in Ha; apply N.leb_le; lia].
    + destruct (N.eqb_spec y 0); [left; reflexivity|right]. destruct Ha as [Ha|Ha]; [apply N.eqb_eq in Ha; lia|apply N.leb_le in Ha; apply N.leb_le; lia].
  - intros C. specialize (H3 C). cbn [iv_total snd] in *. lia.
  - intros C. specialize (H4 C). cbn [iv_maxhi] in *. unfold iv_hi in *. cbn [fst snd] in *.
    destruct (N.eqb_spec (x + y) 0), (N.eqb_spec x 0), (N.eqb_spec y 0); lia.
Qed.

(** the interval at the top of the tiling grows by the next position *)
Lemma tiling_grow cl n lo k h :
  tiling cl n ((lo, k) :: h) -> lo + k = n -> 1 <= k -> tiling cl (n + 1) ((lo, k + 1) :: h).
Proof.
  intros T E Hk. pose proof (tiling_extend _ _ _ 1 T) as T'.
  (* (n,1) :: (lo,k) :: h  is the split of (lo, k+1) :: h *)
  destruct T' as [H1 H2 H3 H4]. cbn [pairwise_disj disj_from] in H1.
  apply andb_true_iff in H1. destruct H1 as [Hd Hp]. apply andb_true_iff in Hd. destruct Hd as [_ Hdn].
  apply andb_true_iff in Hp. destruct Hp as [Hdl Hph].
  split.
  - cbn [pairwise_disj]. rewrite Hph, andb_true_r.
    apply disj_from_forall. intros b Hb.
    rewrite disj_from_forall in Hdn, Hdl. specialize (Hdn b Hb). specialize (Hdl b Hb).
    unfold iv_disj, iv_hi in *. cbn [fst snd] in *.
    destruct (N.eqb_spec (k + 1) 0); [lia|]. destruct (N.eqb_spec k 0); [lia|]. destruct (N.eqb_spec 1 0); [lia|].
    cbn [orb] in *. destruct (N.eqb_spec (snd b) 0); [reflexivity|]. cbn [orb] in *.
    apply orb_true_iff in Hdn, Hdl. apply orb_true_iff.
    destruct Hdl as [Hl|Hl]; apply N.leb_le in Hl.
    + destruct Hdn as [Hn|Hn]; apply N.leb_le in Hn; [left; apply N.leb_le; lia|lia].
    + right. apply N.leb_le. lia.
  - unfold iv_within in *. cbn [forallb] in *. apply andb_true_iff in H2. destruct H2 as [_ H2].
    apply andb_true_iff in H2. destruct H2 as [_ H2]. rewrite H2, andb_true_r.
    unfold iv_hi. cbn [fst snd]. apply orb_true_iff. right. apply N.leb_le. lia.
  - intros C. specialize (H3 C). cbn [iv_total snd] in *. lia.
  - intros C. specialize (H4 C). cbn [iv_maxhi] in *. unfold iv_hi in *. cbn [fst snd] in *.
    destruct (N.eqb_spec (k + 1) 0); [lia|]. destruct (N.eqb_spec k 0); [lia|]. destruct (N.eqb_spec 1 0); lia.
Qed.

(** everything else lies below the interval at the top of the tiling *)
Lemma below_top cl n lo k h :
  tiling cl n ((lo, k) :: h) -> lo + k = n -> 1 <= k -> iv_maxhi h <= lo.
Proof.
  intros [H1 H2 _ _] E Hk. cbn [pairwise_disj] in H1. apply andb_true_iff in H1. destruct H1 as [Hd _].
  unfold iv_within in H2. cbn [forallb] in H2. apply andb_true_iff in H2. destruct H2 as [_ Hw].
  apply iv_within_maxhi. unfold iv_within. rewrite forallb_forall in *. intros b Hb.
  rewrite disj_from_forall in Hd. specialize (Hd b Hb). specialize (Hw b Hb).
  unfold iv_disj, iv_hi in *. cbn [fst snd] in *.
  destruct (N.eqb_spec (snd b) 0); [reflexivity|]. cbn [orb] in *.
  destruct (N.eqb_spec k 0); [lia|]. cbn [orb] in Hd.
  apply N.leb_le in Hw. apply orb_true_iff in Hd. apply N.leb_le.
  destruct Hd as [Hd|Hd]; apply N.leb_le in Hd; lia.
Qed.

(** removing an interval from a tiling that is not required to be exact *)
Lemma tiling_drop_head n a h : tiling false n (a :: h) -> tiling false n h.
Proof.
  intros [H1 H2 _ _]. cbn [pairwise_disj] in H1. apply andb_true_iff in H1. destruct H1 as [_ H1].
  unfold iv_within in H2. cbn [forallb] in H2. apply andb_true_iff in H2. destruct H2 as [_ H2].
  split; try discriminate; assumption.
Qed.

(** an empty interval does not matter *)
Lemma tiling_empty_iv cl n a h : snd a = 0 -> (tiling cl n (a :: h) <-> tiling cl n h).
Proof.
  intros Hz. split; intros [H1 H2 H3 H4]; split.
  - cbn [pairwise_disj] in H1. apply andb_true_iff in H1. apply H1.
  - unfold iv_within in *. cbn [forallb] in H2. apply andb_true_iff in H2. apply H2.
  - intros C. specialize (H3 C). cbn [iv_total] in H3. lia.
  - intros C. specialize (H4 C). cbn [iv_maxhi] in H4. rewrite Hz in H4. cbn [N.eqb] in H4. exact H4.
  - cbn [pairwise_disj]. rewrite H1, andb_true_r. apply disj_from_forall. intros b _. unfold iv_disj. rewrite Hz. reflexivity.
  - unfold iv_within in *. cbn [forallb]. rewrite H2, andb_true_r. rewrite Hz. reflexivity.
  - intros C. cbn [iv_total]. rewrite (H3 C). lia.
  - intros C. cbn [iv_maxhi]. rewrite Hz. cbn [N.eqb]. auto.
Qed.

(** the interval at the top of the tiling grows by the next position (also from empty) *)
Lemma tiling_grow0 cl n lo k h :
  tiling cl n ((lo, k) :: h) -> lo + k = n -> tiling cl (n + 1) ((lo, k + 1) :: h).
Proof.
  intros T E. destruct (N.eq_dec k 0) as [->|Hk].
  - apply (tiling_empty_iv cl n (lo, 0) h eq_refl) in T. replace lo with n by lia. cbn [N.add].
    apply tiling_extend. exact T.
  - apply tiling_grow; [assumption|assumption|lia].
Qed.

(** an interval of the tiling is replaced by the two pieces a chunk result reports *)
Lemma tiling_split_form cl n b k took rest :
  took <= k -> tiling cl n ((b, k) :: rest) ->
  tiling cl n (((if took =? 0 then [] else [(b, took)]) ++ [(b + took, k - took)]) ++ rest).
Proof.
  intros Ht T. replace k with (took + (k - took)) in T by lia. apply tiling_split in T.
  destruct (N.eqb_spec took 0) as [->|Hz].
  - cbn [app]. apply (proj1 (tiling_empty_iv cl n (b, 0) _ eq_refl)) in T. exact T.
  - cbn [app]. exact T.
Qed.

(** ** runs: a delivered index (or, without one, the position of the value) is a position of the source *)

Lemma pos_of_val_of e b : pos_of e (val_of e b) = b.
Proof. unfold pos_of, val_of. destruct (e_kind e); lia. Qed.

Lemma run_idx_ok_intro e r :
  (r_cnt r <> 0 ->
   exists b, r_val r = val_of e b /\ b + r_cnt r <= e_len e /\ match r_idx r with Some i => i = b | None => True end) ->
  run_idx_ok e r = true.
Proof.
  intros H. unfold run_idx_ok. destruct (N.eqb_spec (r_cnt r) 0) as [Hz|Hz]; [reflexivity|]. cbn [orb]. cbv zeta.
  destruct (H Hz) as (b & Hv & Hb & Hi).
  assert (match r_idx r with Some i => i | None => pos_of e (r_val r) end = b) as ->.
  { destruct (r_idx r) as [i|]; [exact Hi|]. rewrite Hv. apply pos_of_val_of. }
  apply andb_true_iff. split; [apply N.eqb_eq; exact Hv|apply N.leb_le; exact Hb].
Qed.

Lemma run_idx_ok_elim e r : run_idx_ok e r = true -> r_cnt r <> 0 ->
  exists b, r_val r = val_of e b /\ b + r_cnt r <= e_len e /\ match r_idx r with Some i => i = b | None => True end.
Proof.
  unfold run_idx_ok. intros H Hz. destruct (N.eqb_spec (r_cnt r) 0) as [Hz'|_]; [contradiction|]. cbn [orb] in H. cbv zeta in H.
  apply andb_true_iff in H. destruct H as [Hv Hb]. apply N.eqb_eq in Hv. apply N.leb_le in Hb.
  exists (match r_idx r with Some i => i | None => pos_of e (r_val r) end). split; [exact Hv|]. split; [exact Hb|].
  destruct (r_idx r); [reflexivity|exact I].
Qed.

(** the run [b, b + c) of the source, with or without its index *)
Lemma run_idx_ok_at e oi b c :
  match oi with Some i => i = b | None => True end -> (c <> 0 -> b + c <= e_len e) ->
  run_idx_ok e (mk_run oi (val_of e b) c) = true.
Proof.
  intros Hi Hb. apply run_idx_ok_intro. cbn [mk_run r_cnt r_val r_idx]. intros Hz. exists b. split; [reflexivity|]. split; [apply Hb; exact Hz|exact Hi].
Qed.

Lemma run_idx_ok_strip e r : run_idx_ok e r = true -> run_idx_ok e (strip_idx r) = true.
Proof.
  intros H. apply run_idx_ok_intro. cbn [strip_idx mk_run r_cnt r_val r_idx]. intros Hz.
  destruct (run_idx_ok_elim e r H Hz) as (b & Hv & Hb & _). exists b. split; [exact Hv|]. split; [exact Hb|exact I].
Qed.

(** a shorter run from the same start *)
Lemma run_idx_ok_shorter e r k : run_idx_ok e r = true -> k <= r_cnt r ->
  run_idx_ok e (mk_run (r_idx r) (r_val r) k) = true.
Proof.
  intros H Hk. apply run_idx_ok_intro. cbn [mk_run r_cnt r_val r_idx]. intros Hz.
  destruct (run_idx_ok_elim e r H) as (b & Hv & Hb & Hi); [lia|]. exists b. split; [exact Hv|]. split; [lia|exact Hi].
Qed.

(** the first [k] elements of runs that are positions of the source *)
Lemma runs_take_idx_ok e k rs : forallb (run_idx_ok e) rs = true -> forallb (run_idx_ok e) (runs_take k rs) = true.
Proof.
  revert k. induction rs as [|r rs IH]; intros k H; cbn [runs_take]; [reflexivity|].
  cbn [forallb] in H. apply andb_true_iff in H. destruct H as [Hr Hrs].
  destruct (k =? 0); [reflexivity|]. destruct (N.leb_spec (r_cnt r) k) as [Hle|Hlt]; cbn [forallb].
  - rewrite Hr, (IH _ Hrs). reflexivity.
  - rewrite (run_idx_ok_shorter e r k Hr) by lia. reflexivity.
Qed.

(** the single run [b, b + c) with its index *)
Lemma idx_ok_one e b c : (c <> 0 -> b + c <= e_len e) -> forallb (run_idx_ok e) [mk_run (Some b) (val_of e b) c] = true.
Proof. intros H. cbn [forallb]. rewrite run_idx_ok_at; [reflexivity|reflexivity|exact H]. Qed.
