(** * C12, last clause: combining the per-thread results of fold with an associative and commutative
      operation and its neutral element gives the sequential fold of the source.

    The per-thread results are folds over what each thread was handed; together these deliveries tile the
    source (C01); so the positions handed out are a permutation of [0, len), and a fold with a commutative
    monoid does not see the difference. *)
From Coq Require Import Lia ZArith List Permutation.
From OCI Require Import Machine Checkers.
From OCI.proofs Require Import Base Trace ArithOk InvKnown ChkKnown IterBase ChkIter ChkAll.
Import ListNotations.
Open Scope N_scope.

(** the positions of an interval, of a list of intervals *)
Definition iv_positions (a : iv) : list N := map (fun k => fst a + N.of_nat k) (seq 0 (N.to_nat (snd a))).
Definition positions_of (l : list iv) : list N := flat_map iv_positions l.
Definition source_positions (len : N) : list N := iv_positions (0, len).

Lemma in_iv_positions a p : In p (iv_positions a) <-> fst a <= p < fst a + snd a.
Proof.
  unfold iv_positions. rewrite in_map_iff. split.
  - intros (k & <- & Hk). apply in_seq in Hk. lia.
  - intros H. exists (N.to_nat (p - fst a)). split; [lia|]. apply in_seq. lia.
Qed.

Lemma nodup_iv_positions a : NoDup (iv_positions a).
Proof.
  unfold iv_positions. apply FinFun.Injective_map_NoDup; [|apply seq_NoDup].
  intros x y H. lia.
Qed.

Lemma length_iv_positions a : length (iv_positions a) = N.to_nat (snd a).
Proof. unfold iv_positions. rewrite map_length, seq_length. reflexivity. Qed.

Lemma length_positions_of l : length (positions_of l) = N.to_nat (iv_total l).
Proof.
  induction l as [|a l IH]; [reflexivity|]. unfold positions_of in *. cbn [flat_map iv_total].
  rewrite app_length, length_iv_positions, IH. lia.
Qed.

Lemma in_positions_of l p : In p (positions_of l) <-> exists a, In a l /\ fst a <= p < fst a + snd a.
Proof.
  unfold positions_of. rewrite in_flat_map. split; intros (a & Ha & H); exists a; (split; [exact Ha|]); apply in_iv_positions; exact H.
Qed.

Lemma nodup_app {A} (a b : list A) : NoDup a -> NoDup b -> (forall x, In x a -> In x b -> False) -> NoDup (a ++ b).
Proof.
  induction a as [|x a IH]; intros Ha Hb Hd; [exact Hb|]. cbn [app]. inversion Ha as [|? ? Hx Ha']; subst.
  constructor.
  - intros Hin. apply in_app_or in Hin. destruct Hin as [Hin|Hin]; [contradiction|]. apply (Hd x); [left; reflexivity|exact Hin].
  - apply IH; try assumption. intros y Hy1 Hy2. apply (Hd y); [right; exact Hy1|exact Hy2].
Qed.

Lemma nodup_positions_of l : pairwise_disj l = true -> NoDup (positions_of l).
Proof.
  induction l as [|a l IH]; intros H; [constructor|].
  cbn [pairwise_disj] in H. apply andb_true_iff in H. destruct H as [Hd Hp].
  unfold positions_of. cbn [flat_map]. fold (positions_of l).
  apply nodup_app; [apply nodup_iv_positions|apply IH; exact Hp|].
  intros p Hp1 Hp2. apply in_iv_positions in Hp1. apply in_positions_of in Hp2. destruct Hp2 as (b & Hb & Hpb).
  rewrite disj_from_forall in Hd. specialize (Hd b Hb). unfold iv_disj, iv_hi in Hd.
  repeat (apply orb_true_iff in Hd; destruct Hd as [Hd|Hd]); try (apply N.eqb_eq in Hd); try (apply N.leb_le in Hd); lia.
Qed.

(** intervals that tile [0, len): their positions are the positions of the source, in some order *)
Lemma tiles_permutation len l : tiles len l = true -> Permutation (positions_of l) (source_positions len).
Proof.
  unfold tiles. intros H. apply andb_true_iff in H. destruct H as [H Ht]. apply andb_true_iff in H. destruct H as [Hd Hw].
  apply N.eqb_eq in Ht.
  apply NoDup_Permutation_bis.
  - apply nodup_positions_of. exact Hd.
  - rewrite length_positions_of. unfold source_positions. rewrite length_iv_positions. cbn [snd]. lia.
  - intros p Hp. apply in_positions_of in Hp. destruct Hp as (a & Ha & Hpa).
    unfold source_positions. apply in_iv_positions. cbn [fst snd].
    unfold iv_within in Hw. rewrite forallb_forall in Hw. specialize (Hw a Ha). unfold iv_hi in Hw.
    apply orb_true_iff in Hw. destruct Hw as [Hw|Hw]; [apply N.eqb_eq in Hw|apply N.leb_le in Hw]; lia.
Qed.

(** ** folds with a commutative monoid *)

Section Monoid.

Variable M : Type.
Variable op : M -> M -> M.
Variable unit_ : M.
Hypothesis op_assoc : forall a b c, op a (op b c) = op (op a b) c.
Hypothesis op_comm : forall a b, op a b = op b a.
Hypothesis op_unit : forall a, op unit_ a = a.

Definition mfold (l : list M) : M := fold_right op unit_ l.

Lemma mfold_app a b : mfold (a ++ b) = op (mfold a) (mfold b).
Proof.
  induction a as [|x a IH]; cbn [app mfold fold_right]; [symmetry; apply op_unit|].
  fold (mfold (a ++ b)). fold (mfold a). rewrite IH. apply op_assoc.
Qed.

Lemma mfold_perm a b : Permutation a b -> mfold a = mfold b.
Proof.
  induction 1 as [|x a b _ IH|x y a|a b c _ IH1 _ IH2]; cbn [mfold fold_right] in *.
  - reflexivity.
  - f_equal. exact IH.
  - rewrite !op_assoc. f_equal. apply op_comm.
  - congruence.
Qed.

(** combining the results of the parts is the fold of everything *)
Lemma mfold_concat (parts : list (list M)) : mfold (map mfold parts) = mfold (concat parts).
Proof.
  induction parts as [|p parts IH]; [reflexivity|]. cbn [map concat mfold fold_right].
  fold (mfold (map mfold parts)). rewrite IH. symmetry. apply mfold_app.
Qed.

End Monoid.

(** the return events a step appends are returns of the stepping thread *)
Lemma step_ret_owner e c t u r d :
  In (ERet u r d) (c_trace (step e c t)) -> In (ERet u r d) (c_trace c) \/ u = t.
Proof.
  unfold step.
  repeat first
    [ solve [intros H; left; exact H]
    | progress unfold finish, call, ret_ev
    | match goal with |- context [match ?x with _ => _ end] => destruct x eqn:? end ];
  cbn [commit c_trace app In]; intros H;
  repeat match goal with H : _ \/ _ |- _ => destruct H as [H|H] end;
  try discriminate H; try (left; exact H); try contradiction;
  try (injection H as <- _ _; right; reflexivity).
Qed.

(** ** the deliveries of a run, split by thread *)

Lemma cov_split e L tr : NoDup L ->
  (forall u r d, In (ERet u r d) tr -> In u L) ->
  Permutation (cov e tr) (gather (fun t => cov_of e t tr) L).
Proof.
  intros ND. induction tr as [|ev tr IH]; intros Hin.
  - cbn [cov cov_of]. rewrite gather_nil by reflexivity. constructor.
  - assert (Htl : forall u r d, In (ERet u r d) tr -> In u L) by (intros u r d H; apply (Hin u r d); right; exact H).
    specialize (IH Htl).
    destruct ev as [u o|u r d|f r d]; cbn [cov cov_of]; try exact IH.
    pose proof (Hin u r d (or_introl eq_refl)) as HuL.
    destruct (gather_upd (fun t => cov_of e t tr) L u (res_cover e r ++ cov_of e u tr) ND HuL) as (rest & P1 & P2).
    rewrite (gather_ext (fun t => (if Nat.eqb u t then res_cover e r else []) ++ cov_of e t tr)
                        (upd (fun t => cov_of e t tr) u (res_cover e r ++ cov_of e u tr)) L).
    + rewrite P2, <- app_assoc. apply Permutation_app_head. rewrite IH. exact P1.
    + intros t' _. unfold upd. rewrite (Nat.eqb_sym u t'). destruct (Nat.eqb t' u) eqn:E; [apply Nat.eqb_eq in E; subst t'; reflexivity|reflexivity].
Qed.

Lemma positions_of_app a b : positions_of (a ++ b) = positions_of a ++ positions_of b.
Proof. unfold positions_of. apply flat_map_app. Qed.

Lemma positions_of_perm a b : Permutation a b -> Permutation (positions_of a) (positions_of b).
Proof.
  induction 1 as [|x a b _ IH|x y a|a b c _ IH1 _ IH2]; unfold positions_of in *; cbn [flat_map].
  - constructor.
  - apply Permutation_app_head. exact IH.
  - rewrite !app_assoc. apply Permutation_app_tail. apply Permutation_app_comm.
  - etransitivity; eassumption.
Qed.

Lemma positions_of_gather (f : tid -> list iv) L :
  positions_of (gather f L) = concat (map (fun t => positions_of (f t)) L).
Proof.
  unfold gather. induction L as [|a L IH]; [reflexivity|]. cbn [flat_map map concat].
  rewrite positions_of_app, IH. reflexivity.
Qed.

(** ** the theorem: on a complete run (the end has been reported, nothing is pending, nobody skipped or
    panicked), whatever mix of loops and direct pulls delivered the elements, folding what each thread was
    handed and combining the per-thread results is the sequential fold of the source *)
Theorem fold_combination : forall e, src_env e -> fused e -> forall progs, wf_progs progs -> forall sched,
  nowrap (c_labels (exec e (init progs) sched)) ->
  let tr := c_trace (exec e (init progs) sched) in
  let L := nodup Nat.eq_dec sched in
  has_skip tr || has_panic tr = false ->
  end_reported tr = true -> n_pending tr = 0%Z ->
  forall (M : Type) (op : M -> M -> M) (unit_ : M) (f : N -> M),
  (forall a b c, op a (op b c) = op (op a b) c) -> (forall a b, op a b = op b a) -> (forall a, op unit_ a = a) ->
  mfold M op unit_ (map (fun t => mfold M op unit_ (map f (positions_of (cov_of e t tr)))) L) =
  mfold M op unit_ (map f (source_positions (e_len e))).
Proof.
  intros e He Hfu progs Hp sched Hnw tr L Hclean Hend Hq M op unit_ f Ha Hc Hu.
  pose proof (all_C01 e He Hfu progs Hp sched Hnw) as H1. fold tr in H1.
  cbn [check_prop] in H1. rewrite Hclean in H1. apply andb_true_iff in H1. destruct H1 as [_ Hnl].
  unfold chk_C01_noloss in Hnl. rewrite Hend, Hq in Hnl. cbn [Z.eqb andb] in Hnl.
  pose proof (tiles_permutation _ _ Hnl) as Pt.
  assert (Hret : forall u r d, In (ERet u r d) tr -> In u L).
  { intros u r d Hin. apply nodup_In. subst tr. clear - Hin.
    induction sched as [|t sched IH] using rev_ind; [contradiction|].
    rewrite exec_snoc in Hin. apply step_ret_owner in Hin. apply in_or_app.
    destruct Hin as [Hin| ->]; [left; apply IH; exact Hin|right; left; reflexivity]. }
  pose proof (cov_split e L tr (NoDup_nodup _ _) Hret) as Ps.
  pose proof (positions_of_perm _ _ Ps) as Pp. rewrite positions_of_gather in Pp.
  set (pp := map (fun t => positions_of (cov_of e t tr)) L) in *.
  assert (E1 : map (fun t => mfold M op unit_ (map f (positions_of (cov_of e t tr)))) L = map (mfold M op unit_) (map (map f) pp))
    by (unfold pp; rewrite !map_map; reflexivity).
  rewrite E1, (mfold_concat M op unit_ Ha Hu), <- concat_map.
  apply (mfold_perm M op unit_ Ha Hc). apply Permutation_map.
  etransitivity; [symmetry; exact Pp|exact Pt].
Qed.
