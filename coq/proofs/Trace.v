(** * Lemmas about traces: pending calls, suffixes, monotone flags. *)
From Coq Require Import Lia ZArith.
From OCI Require Import Machine Checkers.
From OCI.proofs Require Import Base.
Open Scope N_scope.

(** the pending call of thread [t]: its operation and the trace before the call; [None] when the
    latest event of [t] is a return (or [t] has no event) *)
Fixpoint pend_call (t : tid) (tr : list event) : option (op * list event) :=
  match tr with
  | [] => None
  | ECall u o :: tl => if Nat.eqb u t then Some (o, tl) else pend_call t tl
  | ERet u _ _ :: tl => if Nat.eqb u t then None else pend_call t tl
  | EFinal _ _ _ :: tl => pend_call t tl
  end.

Lemma pend_split t tr x : pend_call t tr = Some x -> split_call t tr = Some x.
Proof.
  induction tr as [|ev tr IH]; cbn [pend_call split_call]; [discriminate|].
  destruct ev as [u o|u r d|f r d].
  - destruct (Nat.eqb u t); [auto|exact IH].
  - destruct (Nat.eqb u t); [discriminate|exact IH].
  - exact IH.
Qed.

(** [s] is a suffix of [tr]: an older state of the trace *)
Definition suffix (s tr : list event) : Prop := exists p, tr = p ++ s.

Lemma suffix_refl tr : suffix tr tr. Proof. exists []. reflexivity. Qed.
Lemma suffix_cons ev s tr : suffix s tr -> suffix s (ev :: tr).
Proof. intros [p ->]. exists (ev :: p). reflexivity. Qed.
Lemma suffix_app p s tr : suffix s tr -> suffix s (p ++ tr).
Proof. intros [p' ->]. exists (p ++ p'). now rewrite app_assoc. Qed.
Lemma suffix_trans a b c : suffix a b -> suffix b c -> suffix a c.
Proof. intros [p ->] [p' ->]. exists (p' ++ p). now rewrite app_assoc. Qed.

Lemma pend_suffix t tr o older : pend_call t tr = Some (o, older) -> suffix older tr.
Proof.
  induction tr as [|ev tr IH]; cbn [pend_call]; [discriminate|].
  destruct ev as [u o'|u r d|f r d].
  - destruct (Nat.eqb u t).
    + intros E. injection E as <- <-. apply suffix_cons, suffix_refl.
    + intros E. apply suffix_cons, IH, E.
  - destruct (Nat.eqb u t); [discriminate|]. intros E. apply suffix_cons, IH, E.
  - intros E. apply suffix_cons, IH, E.
Qed.

(** events of another thread do not change the pending call *)
Lemma pend_call_other_call t u o tr : u <> t -> pend_call t (ECall u o :: tr) = pend_call t tr.
Proof. intros H. cbn [pend_call]. destruct (Nat.eqb_spec u t); [contradiction|reflexivity]. Qed.
Lemma pend_call_other_ret t u r d tr : u <> t -> pend_call t (ERet u r d :: tr) = pend_call t tr.
Proof. intros H. cbn [pend_call]. destruct (Nat.eqb_spec u t); [contradiction|reflexivity]. Qed.
Lemma pend_call_self_call t o tr : pend_call t (ECall t o :: tr) = Some (o, tr).
Proof. cbn [pend_call]. now rewrite Nat.eqb_refl. Qed.
Lemma pend_call_self_ret t r d tr : pend_call t (ERet t r d :: tr) = None.
Proof. cbn [pend_call]. now rewrite Nat.eqb_refl. Qed.

(** ** monotone flags *)

Lemma cov_app e p tr : cov e (p ++ tr) = cov e p ++ cov e tr.
Proof.
  induction p as [|ev p IH]; cbn [app cov]; [reflexivity|].
  destruct ev; try exact IH. rewrite IH. now rewrite app_assoc.
Qed.

Lemma cov_suffix_maxhi e s tr : suffix s tr -> iv_maxhi (cov e s) <= iv_maxhi (cov e tr).
Proof. intros [p ->]. rewrite cov_app, iv_maxhi_app. lia. Qed.

Lemma end_reported_cons ev tr : end_reported tr = true -> end_reported (ev :: tr) = true.
Proof. intros H. destruct ev; cbn [end_reported]; try assumption. rewrite H. now rewrite orb_true_r. Qed.

Lemma end_reported_suffix s tr : suffix s tr -> end_reported s = true -> end_reported tr = true.
Proof. intros [p ->] H. induction p as [|ev p IH]; [assumption|]. apply end_reported_cons, IH. Qed.

Lemma skip_returned_cons ev tr : skip_returned tr = true -> skip_returned (ev :: tr) = true.
Proof.
  intros H. destruct ev as [u o|u r d|f r d]; cbn [skip_returned]; try assumption.
  destruct (split_call u tr) as [[[] ?]|]; try assumption; reflexivity.
Qed.

Lemma skip_returned_suffix s tr : suffix s tr -> skip_returned s = true -> skip_returned tr = true.
Proof. intros [p ->] H. induction p as [|ev p IH]; [assumption|]. apply skip_returned_cons, IH. Qed.

Lemma has_skip_cons ev tr : has_skip tr = true -> has_skip (ev :: tr) = true.
Proof. intros H. destruct ev as [u o|u r d|f r d]; cbn [has_skip]; try assumption. destruct o; assumption || reflexivity. Qed.

Lemma has_panic_cons ev tr : has_panic tr = true -> has_panic (ev :: tr) = true.
Proof. intros H. destruct ev; cbn [has_panic]; try assumption; rewrite H; now rewrite orb_true_r. Qed.

(** a history is clean when it contains neither a skip nor a panic *)
Definition clean (tr : list event) : bool := negb (has_skip tr || has_panic tr).

Lemma clean_cons ev tr : clean (ev :: tr) = true -> clean tr = true.
Proof.
  unfold clean. rewrite !negb_true_iff, !orb_false_iff. intros [H1 H2]. split.
  - destruct (has_skip tr) eqn:E; [|reflexivity]. rewrite (has_skip_cons ev tr E) in H1. discriminate.
  - destruct (has_panic tr) eqn:E; [|reflexivity]. rewrite (has_panic_cons ev tr E) in H2. discriminate.
Qed.

Lemma clean_call u o tr : clean (ECall u o :: tr) = match o with Skip => false | _ => clean tr end.
Proof. unfold clean. cbn [has_skip has_panic]. destruct o; reflexivity. Qed.

Lemma clean_ret u r d tr : clean (ERet u r d :: tr) = negb (is_panic r) && clean tr.
Proof.
  unfold clean. cbn [has_skip has_panic].
  destruct (is_panic r), (has_skip tr), (has_panic tr); reflexivity.
Qed.

(** ** pending calls and the counter of pending calls *)
Lemma n_pending_call u o tr : n_pending (ECall u o :: tr) = (n_pending tr + 1)%Z.
Proof. reflexivity. Qed.
Lemma n_pending_ret u r d tr : n_pending (ERet u r d :: tr) = (n_pending tr - 1)%Z.
Proof. reflexivity. Qed.

(** ** per-event checkers *)

Lemma all_rets_ret P t r d tr : all_rets P (ERet t r d :: tr) = P t r d tr && all_rets P tr.
Proof. reflexivity. Qed.
Lemma all_rets_call P t o tr : all_rets P (ECall t o :: tr) = all_rets P tr.
Proof. reflexivity. Qed.

Lemma all_rets_and P Q tr :
  all_rets (fun t r d tl => P t r d tl && Q t r d tl) tr = all_rets P tr && all_rets Q tr.
Proof.
  induction tr as [|ev tr IH]; [reflexivity|]. destruct ev; cbn [all_rets]; try exact IH.
  rewrite IH. destruct (P t r d tr), (Q t r d tr), (all_rets P tr), (all_rets Q tr); reflexivity.
Qed.

Lemma all_rets_impl (P Q : tid -> res -> list drops -> list event -> bool) tr :
  (forall t r d tl, P t r d tl = true -> Q t r d tl = true) -> all_rets P tr = true -> all_rets Q tr = true.
Proof.
  intros H. induction tr as [|ev tr IH]; [reflexivity|]. destruct ev; cbn [all_rets]; try exact IH.
  rewrite !andb_true_iff. intros [H1 H2]. split; [apply H; exact H1|apply IH; exact H2].
Qed.

(** ** the buffered iterator a thread holds *)

Lemma buf_size_other_call t u o tr : u <> t -> buf_size t (ECall u o :: tr) = buf_size t tr.
Proof.
  intros H. cbn [buf_size]. destruct o; try reflexivity.
  destruct (Nat.eqb_spec u t); [contradiction|reflexivity].
Qed.
Lemma buf_size_ret t u r d tr : buf_size t (ERet u r d :: tr) = buf_size t tr.
Proof. reflexivity. Qed.
Lemma buf_size_call_nonbuf t o tr : (forall c, o <> BufNew c) -> buf_size t (ECall t o :: tr) = buf_size t tr.
Proof. intros H. cbn [buf_size]. destruct o; try reflexivity. contradiction (H c); reflexivity. Qed.

Lemma buf_size_pend t tr o older :
  pend_call t tr = Some (o, older) -> (forall c, o <> BufNew c) -> buf_size t tr = buf_size t older.
Proof.
  induction tr as [|ev tr IH]; cbn [pend_call]; [discriminate|].
  destruct ev as [u o'|u r d|f r d].
  - destruct (Nat.eqb_spec u t) as [->|Hn].
    + intros E Hb. injection E as <- <-. apply buf_size_call_nonbuf. exact Hb.
    + intros E Hb. rewrite buf_size_other_call by assumption. apply IH; assumption.
  - destruct (Nat.eqb u t); [discriminate|]. intros E Hb. cbn [buf_size]. apply IH; assumption.
  - intros E Hb. cbn [buf_size]. apply IH; assumption.
Qed.

(** ** deliveries of one thread *)

Lemma cov_of_pend e t tr o older : pend_call t tr = Some (o, older) -> cov_of e t tr = cov_of e t older.
Proof.
  induction tr as [|ev tr IH]; cbn [pend_call]; [discriminate|].
  destruct ev as [u o'|u r d|f r d]; cbn [cov_of].
  - destruct (Nat.eqb u t); [intros E; injection E as <- <-; reflexivity|exact IH].
  - destruct (Nat.eqb u t); [discriminate|]. intros E. cbn [app]. apply IH. exact E.
  - exact IH.
Qed.

Lemma cov_of_maxhi e t tr : iv_maxhi (cov_of e t tr) <= iv_maxhi (cov e tr).
Proof.
  induction tr as [|ev tr IH]; cbn [cov_of cov]; [lia|].
  destruct ev as [u o'|u r d|f r d]; try exact IH.
  rewrite !iv_maxhi_app. destruct (Nat.eqb u t); cbn [iv_maxhi]; lia.
Qed.

(** ** the iteration has been stopped: an end report, a returned skip_to_end, or a reported length of zero *)

Definition zero_reported (tr : list event) : bool :=
  match min_reported tr with Some 0 => true | _ => false end.

Definition stopped (tr : list event) : bool := end_reported tr || skip_returned tr || zero_reported tr.

Lemma zero_reported_cons ev tr : zero_reported tr = true -> zero_reported (ev :: tr) = true.
Proof.
  unfold zero_reported. destruct ev as [u o|u r d|f r d]; cbn [min_reported]; try (intros H; exact H).
  destruct (min_reported tr) as [[|p]|]; try discriminate. intros _.
  destruct (len_answer r) as [[n|]|]; try reflexivity. replace (N.min n 0) with 0 by lia. reflexivity.
Qed.

Lemma stopped_cons ev tr : stopped tr = true -> stopped (ev :: tr) = true.
Proof.
  unfold stopped. rewrite !orb_true_iff. intros [[H|H]|H].
  - left; left. apply end_reported_cons; assumption.
  - left; right. apply skip_returned_cons; assumption.
  - right. apply zero_reported_cons; assumption.
Qed.

Lemma stopped_suffix s tr : suffix s tr -> stopped s = true -> stopped tr = true.
Proof. intros [p ->] H. induction p as [|ev p IH]; [assumption|]. apply stopped_cons, IH. Qed.

(** ** reported lengths *)

Lemma min_reported_cons ev tr m :
  min_reported tr = Some m -> exists m', min_reported (ev :: tr) = Some m' /\ m' <= m.
Proof.
  intros H. destruct ev as [u o|u r d|f r d]; cbn [min_reported]; try (exists m; split; [exact H|lia]).
  rewrite H. destruct (len_answer r) as [[n|]|].
  - exists (N.min n m). split; [reflexivity|lia].
  - exists m. split; [reflexivity|lia].
  - exists m. split; [reflexivity|lia].
Qed.

Lemma min_reported_suffix s tr m :
  suffix s tr -> min_reported s = Some m -> exists m', min_reported tr = Some m' /\ m' <= m.
Proof.
  intros [p ->]. induction p as [|ev p IH]; intros H.
  - exists m. split; [exact H|lia].
  - destruct (IH H) as (m1 & H1 & L1). cbn [app].
    destruct (min_reported_cons ev _ _ H1) as (m2 & H2 & L2). exists m2. split; [exact H2|lia].
Qed.

Lemma min_reported_ret_none t r d tr : len_answer r = None -> min_reported (ERet t r d :: tr) = min_reported tr.
Proof. intros H. cbn [min_reported]. rewrite H. reflexivity. Qed.

Lemma zero_reported_ret_none t r d tr : len_answer r = None -> zero_reported (ERet t r d :: tr) = zero_reported tr.
Proof. intros H. unfold zero_reported. rewrite min_reported_ret_none by assumption. reflexivity. Qed.

(** ** skips *)

Lemma skip_returned_has_skip tr : skip_returned tr = true -> has_skip tr = true.
Proof.
  induction tr as [|ev tr IH]; cbn [skip_returned has_skip]; [discriminate|].
  destruct ev as [u o|u r d|f r d]; cbn [skip_returned has_skip].
  - intros H. destruct o; auto.
  - destruct (split_call u tr) as [[o older]|] eqn:E; [|exact IH].
    destruct o; try exact IH. intros _.
    clear IH. induction tr as [|ev tr IH]; cbn [split_call] in E; [discriminate|].
    destruct ev as [v o'|v r' d'|f' r' d']; cbn [has_skip].
    + destruct (Nat.eqb v u).
      * injection E as -> _. reflexivity.
      * destruct o'; auto.
    + auto.
    + auto.
  - exact IH.
Qed.

Lemma end_strong_end tr : end_reported_strong tr = true -> end_reported tr = true.
Proof.
  induction tr as [|ev tr IH]; cbn [end_reported_strong end_reported]; [discriminate|].
  destruct ev as [u o|u r d|f r d]; try exact IH.
  destruct (split_call u tr) as [[o older]|] eqn:E.
  - destruct r; try (intros H; rewrite (IH H); apply orb_true_r).
    + destruct o; try (intros H; rewrite (IH H); apply orb_true_r).
      * intros _. reflexivity.
      * cbn [is_end can_end andb]. intros H. apply orb_true_iff in H. destruct H as [H|H]; [rewrite H; reflexivity|rewrite (IH H); apply orb_true_r].
    + destruct o; try (intros H; rewrite (IH H); apply orb_true_r).
      cbn [is_end can_end is_pull andb orb]. intros _. reflexivity.
  - destruct r; intros H; rewrite (IH H); apply orb_true_r.
Qed.
