(** * Lemmas about traces: pending calls, suffixes, monotone flags. *)
From Coq Require Import Lia ZArith.
From OCI Require Import Machine Checkers.
From OCI.proofs Require Import Base.
Open Scope N_scope.

(** the pending call of thread [t]: its operation and the trace before the call; [None] when the
    latest event of [t] is a return (or [t] has no event) *)
Fixpoint pend_call (t : tid) (tr : list event) : option (op * list event) :=
  match tr with
  | [] => None
  | ECall u o :: tl => if Nat.eqb u t then Some (o, tl) else pend_call t tl
  | ERet u _ _ :: tl => if Nat.eqb u t then None else pend_call t tl
  | EFinal _ _ _ :: tl => pend_call t tl
  end.

Lemma pend_split t tr x : pend_call t tr = Some x -> split_call t tr = Some x.
Proof.
  induction tr as [|ev tr IH]; cbn [pend_call split_call]; [discriminate|].
  destruct ev as [u o|u r d|f r d].
  - destruct (Nat.eqb u t); [auto|exact IH].
  - destruct (Nat.eqb u t); [discriminate|exact IH].
  - exact IH.
Qed.

(** [s] is a suffix of [tr]: an older state of the trace *)
Definition suffix (s tr : list event) : Prop := exists p, tr = p ++ s.

Lemma suffix_refl tr : suffix tr tr. Proof. exists []. reflexivity. Qed.
Lemma suffix_cons ev s tr : suffix s tr -> suffix s (ev :: tr).
Proof. intros [p ->]. exists (ev :: p). reflexivity. Qed.
Lemma suffix_app p s tr : suffix s tr -> suffix s (p ++ tr).
Proof. intros [p' ->]. exists (p ++ p'). now rewrite app_assoc. Qed.
Lemma suffix_trans a b c : suffix a b -> suffix b c -> suffix a c.
Proof. intros [p ->] [p' ->]. exists (p' ++ p). now rewrite app_assoc. Qed.

Lemma pend_suffix t tr o older : pend_call t tr = Some (o, older) -> suffix older tr.
Proof.
  induction tr as [|ev tr IH]; cbn [pend_call]; [discriminate|].
  destruct ev as [u o'|u r d|f r d].
  - destruct (Nat.eqb u t).
    + intros E. injection E as <- <-. apply suffix_cons, suffix_refl.
    + intros E. apply suffix_cons, IH, E.
  - destruct (Nat.eqb u t); [discriminate|]. intros E. apply suffix_cons, IH, E.
  - intros E. apply suffix_cons, IH, E.
Qed.

(** events of another thread do not change the pending call *)
Lemma pend_call_other_call t u o tr : u <> t -> pend_call t (ECall u o :: tr) = pend_call t tr.
Proof. intros H. cbn [pend_call]. destruct (Nat.eqb_spec u t); [contradiction|reflexivity]. Qed.
Lemma pend_call_other_ret t u r d tr : u <> t -> pend_call t (ERet u r d :: tr) = pend_call t tr.
Proof. intros H. cbn [pend_call]. destruct (Nat.eqb_spec u t); [contradiction|reflexivity]. Qed.
Lemma pend_call_self_call t o tr : pend_call t (ECall t o :: tr) = Some (o, tr).
Proof. cbn [pend_call]. now rewrite Nat.eqb_refl. Qed.
Lemma pend_call_self_ret t r d tr : pend_call t (ERet t r d :: tr) = None.
Proof. cbn [pend_call]. now rewrite Nat.eqb_refl. Qed.

(** ** monotone flags *)

Lemma cov_app e p tr : cov e (p ++ tr) = cov e p ++ cov e tr.
Proof.
  induction p as [|ev p IH]; cbn [app cov]; [reflexivity|].
  destruct ev; try exact IH. rewrite IH. now rewrite app_assoc.
Qed.

Lemma cov_suffix_maxhi e s tr : suffix s tr -> iv_maxhi (cov e s) <= iv_maxhi (cov e tr).
Proof. intros [p ->]. rewrite cov_app, iv_maxhi_app. lia. Qed.

Lemma end_reported_cons ev tr : end_reported tr = true -> end_reported (ev :: tr) = true.
Proof. intros H. destruct ev; cbn [end_reported]; try assumption. rewrite H. now rewrite orb_true_r. Qed.

Lemma end_reported_suffix s tr : suffix s tr -> end_reported s = true -> end_reported tr = true.
Proof. intros [p ->] H. induction p as [|ev p IH]; [assumption|]. apply end_reported_cons, IH. Qed.

Lemma skip_returned_cons ev tr : skip_returned tr = true -> skip_returned (ev :: tr) = true.
Proof.
  intros H. destruct ev as [u o|u r d|f r d]; cbn [skip_returned]; try assumption.
  destruct (split_call u tr) as [[[] ?]|]; try assumption; reflexivity.
Qed.

Lemma skip_returned_suffix s tr : suffix s tr -> skip_returned s = true -> skip_returned tr = true.
Proof. intros [p ->] H. induction p as [|ev p IH]; [assumption|]. apply skip_returned_cons, IH. Qed.

Lemma has_skip_cons ev tr : has_skip tr = true -> has_skip (ev :: tr) = true.
Proof. intros H. destruct ev as [u o|u r d|f r d]; cbn [has_skip]; try assumption. destruct o; assumption || reflexivity. Qed.

Lemma has_panic_cons ev tr : has_panic tr = true -> has_panic (ev :: tr) = true.
Proof. intros H. destruct ev; cbn [has_panic]; try assumption; rewrite H; now rewrite orb_true_r. Qed.

(** a history is clean when it contains neither a skip nor a panic *)
Definition clean (tr : list event) : bool := negb (has_skip tr || has_panic tr).

Lemma clean_cons ev tr : clean (ev :: tr) = true -> clean tr = true.
Proof.
  unfold clean. rewrite !negb_true_iff, !orb_false_iff. intros [H1 H2]. split.
  - destruct (has_skip tr) eqn:E; [|reflexivity]. rewrite (has_skip_cons ev tr E) in H1. discriminate.
  - destruct (has_panic tr) eqn:E; [|reflexivity]. rewrite (has_panic_cons ev tr E) in H2. discriminate.
Qed.

Lemma clean_call u o tr : clean (ECall u o :: tr) = match o with Skip => false | _ => clean tr end.
Proof. unfold clean. cbn [has_skip has_panic]. destruct o; reflexivity. Qed.

Lemma clean_ret u r d tr : clean (ERet u r d :: tr) = negb (is_panic r) && clean tr.
Proof.
  unfold clean. cbn [has_skip has_panic].
  destruct (is_panic r), (has_skip tr), (has_panic tr); reflexivity.
Qed.

(** ** pending calls and the counter of pending calls *)
Lemma n_pending_call u o tr : n_pending (ECall u o :: tr) = (n_pending tr + 1)%Z.
Proof. reflexivity. Qed.
Lemma n_pending_ret u r d tr : n_pending (ERet u r d :: tr) = (n_pending tr - 1)%Z.
Proof. reflexivity. Qed.

(** ** per-event checkers *)

Lemma all_rets_ret P t r d tr : all_rets P (ERet t r d :: tr) = P t r d tr && all_rets P tr.
Proof. reflexivity. Qed.
Lemma all_rets_call P t o tr : all_rets P (ECall t o :: tr) = all_rets P tr.
Proof. reflexivity. Qed.

Lemma all_rets_and P Q tr :
  all_rets (fun t r d tl => P t r d tl && Q t r d tl) tr = all_rets P tr && all_rets Q tr.
Proof.
  induction tr as [|ev tr IH]; [reflexivity|]. destruct ev; cbn [all_rets]; try exact IH.
  rewrite IH. destruct (P t r d tr), (Q t r d tr), (all_rets P tr), (all_rets Q tr); reflexivity.
Qed.

Lemma all_rets_impl (P Q : tid -> res -> list drops -> list event -> bool) tr :
  (forall t r d tl, P t r d tl = true -> Q t r d tl = true) -> all_rets P tr = true -> all_rets Q tr = true.
Proof.
  intros H. induction tr as [|ev tr IH]; [reflexivity|]. destruct ev; cbn [all_rets]; try exact IH.
  rewrite !andb_true_iff. intros [H1 H2]. split; [apply H; exact H1|apply IH; exact H2].
Qed.

(** ** the buffered iterator a thread holds *)

Lemma buf_size_other_call t u o tr : u <> t -> buf_size t (ECall u o :: tr) = buf_size t tr.
Proof.
  intros H. cbn [buf_size]. destruct o; try reflexivity.
  destruct (Nat.eqb_spec u t); [contradiction|reflexivity].
Qed.
Lemma buf_size_ret t u r d tr : buf_size t (ERet u r d :: tr) = buf_size t tr.
Proof. reflexivity. Qed.
Lemma buf_size_call_nonbuf t o tr : (forall c, o <> BufNew c) -> buf_size t (ECall t o :: tr) = buf_size t tr.
Proof. intros H. cbn [buf_size]. destruct o; try reflexivity. contradiction (H c); reflexivity. Qed.

Lemma buf_size_pend t tr o older :
  pend_call t tr = Some (o, older) -> (forall c, o <> BufNew c) -> buf_size t tr = buf_size t older.
Proof.
  induction tr as [|ev tr IH]; cbn [pend_call]; [discriminate|].
  destruct ev as [u o'|u r d|f r d].
  - destruct (Nat.eqb_spec u t) as [->|Hn].
    + intros E Hb. injection E as <- <-. apply buf_size_call_nonbuf. exact Hb.
    + intros E Hb. rewrite buf_size_other_call by assumption. apply IH; assumption.
  - destruct (Nat.eqb u t); [discriminate|]. intros E Hb. cbn [buf_size]. apply IH; assumption.
  - intros E Hb. cbn [buf_size]. apply IH; assumption.
Qed.

(** ** deliveries of one thread *)

Lemma cov_of_pend e t tr o older : pend_call t tr = Some (o, older) -> cov_of e t tr = cov_of e t older.
Proof.
  induction tr as [|ev tr IH]; cbn [pend_call]; [discriminate|].
  destruct ev as [u o'|u r d|f r d]; cbn [cov_of].
  - destruct (Nat.eqb u t); [intros E; injection E as <- <-; reflexivity|exact IH].
  - destruct (Nat.eqb u t); [discriminate|]. intros E. cbn [app]. apply IH. exact E.
  - exact IH.
Qed.

Lemma cov_of_maxhi e t tr : iv_maxhi (cov_of e t tr) <= iv_maxhi (cov e tr).
Proof.
  induction tr as [|ev tr IH]; cbn [cov_of cov]; [lia|].
  destruct ev as [u o'|u r d|f r d]; try exact IH.
  rewrite !iv_maxhi_app. destruct (Nat.eqb u t); cbn [iv_maxhi]; lia.
Qed.

(** ** the iteration has been stopped: an end report, a returned skip_to_end, or a reported length of zero *)

Definition zero_reported (tr : list event) : bool :=
  match min_reported tr with Some 0 => true | _ => false end.

Definition stopped (tr : list event) : bool := end_reported tr || skip_returned tr || zero_reported tr.

Lemma zero_reported_cons ev tr : zero_reported tr = true -> zero_reported (ev :: tr) = true.
Proof.
  unfold zero_reported. destruct ev as [u o|u r d|f r d]; cbn [min_reported]; try (intros H; exact H).
  destruct (min_reported tr) as [[|p]|]; try discriminate. intros _.
  destruct (len_answer r) as [[n|]|]; try reflexivity. replace (N.min n 0) with 0 by lia. reflexivity.
Qed.

Lemma stopped_cons ev tr : stopped tr = true -> stopped (ev :: tr) = true.
Proof.
  unfold stopped. rewrite !orb_true_iff. intros [[H|H]|H].
  - left; left. apply end_reported_cons; assumption.
  - left; right. apply skip_returned_cons; assumption.
  - right. apply zero_reported_cons; assumption.
Qed.

Lemma stopped_suffix s tr : suffix s tr -> stopped s = true -> stopped tr = true.
Proof. intros [p ->] H. induction p as [|ev p IH]; [assumption|]. apply stopped_cons, IH. Qed.

(** ** reported lengths *)

Lemma min_reported_cons ev tr m :
  min_reported tr = Some m -> exists m', min_reported (ev :: tr) = Some m' /\ m' <= m.
Proof.
  intros H. destruct ev as [u o|u r d|f r d]; cbn [min_reported]; try (exists m; split; [exact H|lia]).
  rewrite H. destruct (len_answer r) as [[n|]|].
  - exists (N.min n m). split; [reflexivity|lia].
  - exists m. split; [reflexivity|lia].
  - exists m. split; [reflexivity|lia].
Qed.

Lemma min_reported_suffix s tr m :
  suffix s tr -> min_reported s = Some m -> exists m', min_reported tr = Some m' /\ m' <= m.
Proof.
  intros [p ->]. induction p as [|ev p IH]; intros H.
  - exists m. split; [exact H|lia].
  - destruct (IH H) as (m1 & H1 & L1). cbn [app].
    destruct (min_reported_cons ev _ _ H1) as (m2 & H2 & L2). exists m2. split; [exact H2|lia].
Qed.

Lemma min_reported_ret_none t r d tr : len_answer r = None -> min_reported (ERet t r d :: tr) = min_reported tr.
Proof. intros H. cbn [min_reported]. rewrite H. reflexivity. Qed.

Lemma zero_reported_ret_none t r d tr : len_answer r = None -> zero_reported (ERet t r d :: tr) = zero_reported tr.
Proof. intros H. unfold zero_reported. rewrite min_reported_ret_none by assumption. reflexivity. Qed.

(** ** skips *)

Lemma skip_returned_has_skip tr : skip_returned tr = true -> has_skip tr = true.
Proof.
  induction tr as [|ev tr IH]; cbn [skip_returned has_skip]; [discriminate|].
  destruct ev as [u o|u r d|f r d]; cbn [skip_returned has_skip].
  - intros H. destruct o; auto.
  - destruct (split_call u tr) as [[o older]|] eqn:E; [|exact IH].
    destruct o; try exact IH. intros _.
    clear IH. induction tr as [|ev tr IH]; cbn [split_call] in E; [discriminate|].
    destruct ev as [v o'|v r' d'|f' r' d']; cbn [has_skip].
    + destruct (Nat.eqb v u).
      * injection E as -> _. reflexivity.
      * destruct o'; auto.
    + auto.
    + auto.
  - exact IH.
Qed.

Lemma end_strong_end tr : end_reported_strong tr = true -> end_reported tr = true.
Proof.
  induction tr as [|ev tr IH]; cbn [end_reported_strong end_reported]; [discriminate|].
  destruct ev as [u o|u r d|f r d]; try exact IH.
  destruct (split_call u tr) as [[o older]|] eqn:E.
  - destruct r; try (intros H; rewrite (IH H); apply orb_true_r).
    + destruct o; try (intros H; rewrite (IH H); apply orb_true_r).
      * intros _. reflexivity.
      * cbn [is_end can_end andb]. intros H. apply orb_true_iff in H. destruct H as [H|H]; [rewrite H; reflexivity|rewrite (IH H); apply orb_true_r].
    + destruct o; try (intros H; rewrite (IH H); apply orb_true_r).
      cbn [is_end can_end is_pull andb orb]. intros _. reflexivity.
  - destruct r; intros H; rewrite (IH H); apply orb_true_r.
Qed.

(** [has_more] never answers [Yes(0)] in the model *)
Lemma yes_zero_nolen r : len_answer r = None -> yes_zero r = false.
Proof. destruct r as [| | | |o|h| | |]; try reflexivity; destruct h; discriminate. Qed.

Lemma yes_zero_len_res hm o : yes_zero (len_res hm o) = false.
Proof. destruct hm; [|reflexivity]. destruct o as [[|p]|]; reflexivity. Qed.

(** a loop returns with the panic of its closure only when the closure was told to panic *)
Lemma loop_panic_user l crash done rs cnt inv used acc :
  loop_invoke l crash done rs cnt = (inv, Some used) -> loop_panic_ok crash (RPanic PkUser acc) = true.
Proof. unfold loop_invoke. destruct crash as [k|]; [intros _; reflexivity|intros H; discriminate H]. Qed.

(** ** a call returns with the panic of the wrapped iterator only when there is a wrapped iterator and it
       was told to panic: on every run of the model, whatever the environment, the programs, the schedule *)

Lemma all_rets_mono (P Q : tid -> res -> list drops -> list event -> bool) tr :
  (forall t r d tl, P t r d tl = true -> Q t r d tl = true) -> all_rets P tr = true -> all_rets Q tr = true.
Proof.
  intros HPQ. induction tr as [|ev tr IH]; [reflexivity|].
  destruct ev as [u o|u r d|f r d]; cbn [all_rets]; try exact IH.
  intros H. apply andb_true_iff in H. destruct H as [H1 H2]. rewrite (HPQ _ _ _ _ H1), (IH H2). reflexivity.
Qed.

Lemma add_u_panic m a b k : add_u m a b = Panic k -> k = PkOverflow.
Proof. unfold add_u. destruct (a + b <? W); [discriminate|]. destruct m; [|discriminate]. intros H. injection H as <-. reflexivity. Qed.

Lemma sub_u_panic m a b k : sub_u m a b = Panic k -> k = PkOverflow.
Proof. unfold sub_u. destruct (b <=? a); [discriminate|]. destruct m; [|discriminate]. intros H. injection H as <-. reflexivity. Qed.

Ltac panic_cases :=
  repeat match goal with
  | |- context [add_u ?m ?a ?b] =>
      let E := fresh "E" in destruct (add_u m a b) eqn:E; [|apply add_u_panic in E]; cbn [bind]
  | |- context [sub_u ?m ?a ?b] =>
      let E := fresh "E" in destruct (sub_u m a b) eqn:E; [|apply sub_u_panic in E]; cbn [bind]
  | |- context [if ?c then _ else _] => destruct c
  end;
  let H := fresh "H" in intros H; try discriminate H; injection H as <-; assumption.

Lemma k_get_panic e b k : k_get e b = Panic k -> k = PkOverflow.
Proof. unfold k_get. destruct (e_kind e); panic_cases. Qed.

Lemma k_fetch_n_panic e n b k : k_fetch_n e n b = Panic k -> k = PkOverflow.
Proof. unfold k_fetch_n. destruct (e_kind e); panic_cases. Qed.

Lemma k_buf_pull_panic e c b k : k_buf_pull e c b = Panic k -> k = PkOverflow.
Proof. unfold k_buf_pull. destruct (e_kind e); panic_cases. Qed.

Lemma k_pull_panic e q b k : k_pull e q b = Panic k -> k = PkOverflow.
Proof.
  unfold k_pull. destruct (q_mode q); [apply k_get_panic|apply k_fetch_n_panic|apply k_buf_pull_panic].
Qed.

Section SrcPanic.

Variable e : env.

Definition res_src_ok (r : res) : bool :=
  match r with RPanic PkSource _ => src_may_panic e | _ => true end.

(** the program counters of the wrapper over an iterator are reached for that kind only, the unwinding one
    only when the wrapped iterator was told to panic *)
Definition pc_src_ok (p : pc) : Prop :=
  match p with
  | PUnw _ _ _ => src_may_panic e = true
  | PChkF _ _ | PLdY _ _ | PChkT _ _ | PSrc _ _ _ | PSetF _ _ _ | PPub _ _ _ => e_kind e = KIter
  | _ => True
  end.

Definition SInv (c : cfg) : Prop :=
  (forall t, pc_src_ok (t_pc (c_pool c t))) /\ all_rets (fun _ r _ _ => res_src_ok r) (c_trace c) = true.

Lemma res_src_ok_other k rs : k <> PkSource -> res_src_ok (RPanic k rs) = true.
Proof. intros H. destruct k; try reflexivity. contradiction H; reflexivity. Qed.

Lemma sinv_commit c t sh ts l evs :
  SInv c -> pc_src_ok (t_pc ts) ->
  (forall u r d, In (ERet u r d) evs -> res_src_ok r = true) ->
  SInv (commit c t sh ts l evs).
Proof.
  intros [Hpcs Hevs] Hts Hnew. split.
  - intros u. cbn [commit c_pool]. unfold upd. destruct (Nat.eqb u t); [exact Hts|apply Hpcs].
  - cbn [commit c_trace]. induction evs as [|ev evs IH]; [exact Hevs|].
    cbn [app]. destruct ev as [u o|u r d|f r d]; cbn [all_rets].
    + apply IH. intros u' r d Hin. apply (Hnew u' r d). right. exact Hin.
    + rewrite (Hnew u r d (or_introl eq_refl)). cbn [andb]. apply IH. intros u' r' d' Hin. apply (Hnew u' r' d'). right. exact Hin.
    + apply IH. intros u' r' d' Hin. apply (Hnew u' r' d'). right. exact Hin.
Qed.

Lemma sinv_silent c t sh p l :
  SInv c -> pc_src_ok p -> SInv (commit c t sh (set_pc (c_pool c t) p) l []).
Proof. intros I Hp. apply sinv_commit; [exact I|exact Hp|intros u r d []]. Qed.

Lemma sinv_ret c t sh ts l r d :
  SInv c -> pc_src_ok (t_pc ts) -> res_src_ok r = true -> SInv (commit c t sh ts l [ERet t r d]).
Proof.
  intros I Hp Hr. apply sinv_commit; [exact I|exact Hp|].
  intros u r' d' [H|[]]. injection H as _ <- _. exact Hr.
Qed.

Lemma deliver_src ts q pr ts' o :
  deliver e ts q pr = (ts', o) -> (forall k, pr = Panic k -> k <> PkSource) ->
  pc_src_ok (t_pc ts') /\ match o with Some (r, _) => res_src_ok r = true | None => True end.
Proof.
  intros E Hk. unfold deliver in E. destruct (q_ctx q) as [|lk cr].
  - destruct pr as [[|b rs cnt]|k].
    + injection E as <- <-. split; [exact I|reflexivity].
    + destruct (deliver_top e ts q b rs cnt) as [ts2 [r d]] eqn:Et. injection E as <- <-.
      unfold deliver_top in Et. destruct (q_mode q) as [v|k0|k0].
      * injection Et as <- <- _. split; [exact I|]. unfold one_res. destruct (if reports_idx v then rs else map strip_idx rs); reflexivity.
      * injection Et as <- <- _. split; [exact I|reflexivity].
      * destruct (e_kind e), (t_buf ts) as [bf|]; try (injection Et as <- <- _; split; [exact I|reflexivity]).
        destruct (write_slots (bf_slots bf) (runs_vals rs)) as [sl stale]. injection Et as <- <- _. split; [exact I|reflexivity].
    + injection E as <- <-. split; [exact I|]. apply res_src_ok_other. apply Hk. reflexivity.
  - destruct pr as [[|b rs cnt]|k].
    + injection E as <- <-. split; [exact I|reflexivity].
    + unfold deliver_loop in E. destruct (loop_invoke lk cr (total_cnt (t_acc ts)) rs cnt) as [inv [used|]];
        injection E as <- <-; (split; [exact I|reflexivity]).
    + injection E as <- <-. split; [exact I|]. apply res_src_ok_other. apply Hk. reflexivity.
Qed.

Lemma sinv_finish c t sh l q pr :
  SInv c -> (forall k, pr = Panic k -> k <> PkSource) -> SInv (finish e c t sh (c_pool c t) l q pr).
Proof.
  intros I Hk. unfold finish. destruct (deliver e (c_pool c t) q pr) as [ts' o] eqn:E.
  destruct (deliver_src _ _ _ _ _ E Hk) as [Hp Ho].
  apply sinv_commit; [exact I|exact Hp|].
  intros u r d Hin. destruct o as [[r0 d0]|]; cbn [ret_ev] in Hin; [|destruct Hin].
  destruct Hin as [H|[]]. injection H as _ <- _. exact Ho.
Qed.

Lemma ok_not_panic {A} (a : A) : forall k, Ok a = Panic k -> k <> PkSource.
Proof. intros k H. discriminate H. Qed.

Lemma overflow_not_source : PkOverflow <> PkSource. Proof. discriminate. Qed.

Lemma len_res_src_ok hm o : res_src_ok (len_res hm o) = true.
Proof. destruct hm; reflexivity. Qed.

Lemma sinv_step c t : SInv c -> SInv (step e c t).
Proof.
  intros Hs. pose proof (proj1 Hs t) as Hpc. unfold step.
  destruct (t_pc (c_pool c t)) as [|q|q b|q b|q b|q b got|q b got|q b got|q b got| |hm|hm] eqn:Epc; cbn [pc_src_ok] in Hpc.
  - (* call point *)
    destruct (t_todo (c_pool c t)) as [|o rest]; [exact Hs|].
    unfold call. destruct (call_res e (c_pool c t) o) as [p|bf r d] eqn:Ec.
    + apply sinv_commit; [exact Hs| |].
      * cbn [t_pc]. unfold call_res in Ec.
        destruct o as [v|n k|n|k| |lk n cr| | |]; try discriminate Ec; try (injection Ec as <-; exact I).
        -- destruct (e_kind e); [| | | |destruct (n =? 0); [discriminate Ec|]]; injection Ec as <-; exact I.
        -- destruct (n =? 0); discriminate Ec.
        -- destruct (t_buf (c_pool c t)); [|discriminate Ec]. injection Ec as <-. exact I.
        -- destruct (n =? 0); [discriminate Ec|]. destruct (n =? 1); injection Ec as <-; exact I.
      * intros u r d [H|[]]. discriminate H.
    + apply sinv_commit; [exact Hs|exact I|].
      intros u r' d' [H|[H|[]]]; [|discriminate H]. injection H as _ <- _.
      unfold call_res in Ec.
      destruct o as [v|n k|n|k| |lk n cr| | |]; try discriminate Ec.
      * destruct (e_kind e); try discriminate Ec. destruct (n =? 0); [|discriminate Ec]. injection Ec as _ <- _. reflexivity.
      * destruct (n =? 0); injection Ec as _ <- _; reflexivity.
      * destruct (t_buf (c_pool c t)); [discriminate Ec|]. injection Ec as _ <- _. reflexivity.
      * injection Ec as _ <- _. reflexivity.
      * destruct (n =? 0); [|destruct (n =? 1); discriminate Ec]. injection Ec as _ <- _. reflexivity.
  - (* the reservation *)
    destruct (e_kind e) eqn:Ek; try (apply sinv_finish; [exact Hs|]; intros pk Hpk; rewrite (k_pull_panic _ _ _ _ Hpk); discriminate).
    apply sinv_silent; [exact Hs|exact Ek].
  - destruct (s_f (c_sh c)); [apply sinv_finish; [exact Hs|apply ok_not_panic]|apply sinv_silent; [exact Hs|exact Hpc]].
  - destruct (b =? s_y (c_sh c)); [apply sinv_silent; [exact Hs|exact Hpc]|].
    destruct (b <? s_y (c_sh c)); [apply sinv_finish; [exact Hs|apply ok_not_panic]|apply sinv_silent; [exact Hs|exact Hpc]].
  - destruct (s_f (c_sh c)); [apply sinv_finish; [exact Hs|apply ok_not_panic]|apply sinv_silent; [exact Hs|exact Hpc]].
  - (* a call of the wrapped iterator *)
    destruct (crashes_now e (c_sh c)) eqn:Ecr.
    + apply sinv_silent; [exact Hs|]. cbn [pc_src_ok]. unfold src_may_panic. rewrite Hpc.
      unfold crashes_now in Ecr. destruct (e_crash e); [reflexivity|discriminate Ecr].
    + destruct (q_mode q); destruct (src_next e (c_sh c)) as [xv|];
        try (apply sinv_silent; [exact Hs|exact Hpc]);
        (destruct (N.of_nat (length (xv :: got)) =? q_n q); apply sinv_silent; [exact Hs|exact Hpc|exact Hs|exact Hpc]).
  - destruct (q_mode q); [apply sinv_finish; [exact Hs|apply ok_not_panic]|apply sinv_silent; [exact Hs|exact Hpc]..].
  - destruct (q_mode q); [apply sinv_finish; [exact Hs|apply ok_not_panic]| |];
      (destruct (s_y (c_sh c) =? b);
       [destruct (rev got); apply sinv_finish; try exact Hs; apply ok_not_panic
       |apply sinv_finish; [exact Hs|]; intros pk Hpk; injection Hpk as <-; discriminate]).
  - (* unwinding *)
    destruct (q_ctx q), (q_mode q), (e_kind e), (t_buf (c_pool c t)) as [bf|];
      try (apply sinv_ret; [exact Hs|exact I|exact Hpc]).
    destruct (write_slots (bf_slots bf) (rev got)) as [sl stale]. apply sinv_ret; [exact Hs|exact I|exact Hpc].
  - (* skip_to_end *)
    destruct (e_kind e); try (apply sinv_ret; [exact Hs|exact I|reflexivity]);
      (destruct (k_fetch_n e (e_len e) (s_c (c_sh c))) as [[|b0 rs cnt]|k] eqn:Ef;
       [apply sinv_ret; [exact Hs|exact I|reflexivity]..|]);
      (apply sinv_ret; [exact Hs|exact I|]; rewrite (k_fetch_n_panic _ _ _ _ Ef); reflexivity).
  - destruct (e_kind e); try (apply sinv_ret; [exact Hs|exact I|apply len_res_src_ok]).
    destruct (s_f (c_sh c)); [apply sinv_ret; [exact Hs|exact I|apply len_res_src_ok]|].
    destruct (e_hint e); [apply sinv_silent; [exact Hs|exact I]|apply sinv_ret; [exact Hs|exact I|apply len_res_src_ok]..].
  - apply sinv_ret; [exact Hs|exact I|apply len_res_src_ok].
Qed.

Lemma sinv_exec sched : forall c, SInv c -> SInv (exec e c sched).
Proof.
  unfold exec. induction sched as [|t sched IH]; intros c I; [exact I|].
  cbn [fold_left]. apply IH. apply sinv_step. exact I.
Qed.

Theorem src_panic_ok progs sched : chk_C12_src e (c_trace (exec e (init progs) sched)) = true.
Proof.
  assert (I0 : SInv (init progs)) by (split; [intros t; exact I|reflexivity]).
  destruct (sinv_exec sched _ I0) as [_ H]. unfold chk_C12_src.
  revert H. apply all_rets_mono. intros t r d tl H. unfold ev_C12_src.
  destruct (split_call t tl) as [[o older]|]; [|reflexivity].
  destruct o; try reflexivity. destruct r as [| | | | | | | |k rs]; try reflexivity.
  destruct k; try reflexivity. exact H.
Qed.

End SrcPanic.
