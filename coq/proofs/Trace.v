(** * Lemmas about traces: pending calls, suffixes, monotone flags. *)
From Coq Require Import Lia ZArith.
From OCI Require Import Machine Checkers.
From OCI.proofs Require Import Base.
Open Scope N_scope.

(** the pending call of thread [t]: its operation and the trace before the call; [None] when the
    latest event of [t] is a return (or [t] has no event) *)
Fixpoint pend_call (t : tid) (tr : list event) : option (op * list event) :=
  match tr with
  | [] => None
  | ECall u o :: tl => if Nat.eqb u t then Some (o, tl) else pend_call t tl
  | ERet u _ _ :: tl => if Nat.eqb u t then None else pend_call t tl
  | EFinal _ _ _ :: tl => pend_call t tl
  end.

Lemma pend_split t tr x : pend_call t tr = Some x -> split_call t tr = Some x.
Proof.
  induction tr as [|ev tr IH]; cbn [pend_call split_call]; [discriminate|].
  destruct ev as [u o|u r d|f r d].
  - destruct (Nat.eqb u t); [auto|exact IH].
  - destruct (Nat.eqb u t); [discriminate|exact IH].
  - exact IH.
Qed.

(** [s] is a suffix of [tr]: an older state of the trace *)
Definition suffix (s tr : list event) : Prop := exists p, tr = p ++ s.

Lemma suffix_refl tr : suffix tr tr. Proof. exists []. reflexivity. Qed.
Lemma suffix_cons ev s tr : suffix s tr -> suffix s (ev :: tr).
Proof. intros [p ->]. exists (ev :: p). reflexivity. Qed.
Lemma suffix_app p s tr : suffix s tr -> suffix s (p ++ tr).
Proof. intros [p' ->]. exists (p ++ p'). now rewrite app_assoc. Qed.
Lemma suffix_trans a b c : suffix a b -> suffix b c -> suffix a c.
Proof. intros [p ->] [p' ->]. exists (p' ++ p). now rewrite app_assoc. Qed.

Lemma pend_suffix t tr o older : pend_call t tr = Some (o, older) -> suffix older tr.
Proof.
  induction tr as [|ev tr IH]; cbn [pend_call]; [discriminate|].
  destruct ev as [u o'|u r d|f r d].
  - destruct (Nat.eqb u t).
    + intros E. injection E as <- <-. apply suffix_cons, suffix_refl.
    + intros E. apply suffix_cons, IH, E.
  - destruct (Nat.eqb u t); [discriminate|]. intros E. apply suffix_cons, IH, E.
  - intros E. apply suffix_cons, IH, E.
Qed.

(** events of another thread do not change the pending call *)
Lemma pend_call_other_call t u o tr : u <> t -> pend_call t (ECall u o :: tr) = pend_call t tr.
Proof. intros H. cbn [pend_call]. destruct (Nat.eqb_spec u t); [contradiction|reflexivity]. Qed.
Lemma pend_call_other_ret t u r d tr : u <> t -> pend_call t (ERet u r d :: tr) = pend_call t tr.
Proof. intros H. cbn [pend_call]. destruct (Nat.eqb_spec u t); [contradiction|reflexivity]. Qed.
Lemma pend_call_self_call t o tr : pend_call t (ECall t o :: tr) = Some (o, tr).
Proof. cbn [pend_call]. now rewrite Nat.eqb_refl. Qed.
Lemma pend_call_self_ret t r d tr : pend_call t (ERet t r d :: tr) = None.
Proof. cbn [pend_call]. now rewrite Nat.eqb_refl. Qed.

(** ** monotone flags *)

Lemma cov_app e p tr : cov e (p ++ tr) = cov e p ++ cov e tr.
Proof.
  induction p as [|ev p IH]; cbn [app cov]; [reflexivity|].
  destruct ev; try exact IH. rewrite IH. now rewrite app_assoc.
Qed.

Lemma cov_suffix_maxhi e s tr : suffix s tr -> iv_maxhi (cov e s) <= iv_maxhi (cov e tr).
Proof. intros [p ->]. rewrite cov_app, iv_maxhi_app. lia. Qed.

Lemma end_reported_cons ev tr : end_reported tr = true -> end_reported (ev :: tr) = true.
Proof. intros H. destruct ev; cbn [end_reported]; try assumption. rewrite H. now rewrite orb_true_r. Qed.

Lemma end_reported_suffix s tr : suffix s tr -> end_reported s = true -> end_reported tr = true.
Proof. intros [p ->] H. induction p as [|ev p IH]; [assumption|]. apply end_reported_cons, IH. Qed.

Lemma skip_returned_cons ev tr : skip_returned tr = true -> skip_returned (ev :: tr) = true.
Proof.
  intros H. destruct ev as [u o|u r d|f r d]; cbn [skip_returned]; try assumption.
  destruct (split_call u tr) as [[[] ?]|]; try assumption; reflexivity.
Qed.

Lemma skip_returned_suffix s tr : suffix s tr -> skip_returned s = true -> skip_returned tr = true.
Proof. intros [p ->] H. induction p as [|ev p IH]; [assumption|]. apply skip_returned_cons, IH. Qed.

Lemma has_skip_cons ev tr : has_skip tr = true -> has_skip (ev :: tr) = true.
Proof. intros H. destruct ev as [u o|u r d|f r d]; cbn [has_skip]; try assumption. destruct o; assumption || reflexivity. Qed.

Lemma has_panic_cons ev tr : has_panic tr = true -> has_panic (ev :: tr) = true.
Proof. intros H. destruct ev; cbn [has_panic]; try assumption; rewrite H; now rewrite orb_true_r. Qed.

(** a history is clean when it contains neither a skip nor a panic *)
Definition clean (tr : list event) : bool := negb (has_skip tr || has_panic tr).

Lemma clean_cons ev tr : clean (ev :: tr) = true -> clean tr = true.
Proof.
  unfold clean. rewrite !negb_true_iff, !orb_false_iff. intros [H1 H2]. split.
  - destruct (has_skip tr) eqn:E; [|reflexivity]. rewrite (has_skip_cons ev tr E) in H1. discriminate.
  - destruct (has_panic tr) eqn:E; [|reflexivity]. rewrite (has_panic_cons ev tr E) in H2. discriminate.
Qed.

Lemma clean_call u o tr : clean (ECall u o :: tr) = match o with Skip => false | _ => clean tr end.
Proof. unfold clean. cbn [has_skip has_panic]. destruct o; reflexivity. Qed.

Lemma clean_ret u r d tr : clean (ERet u r d :: tr) = negb (is_panic r) && clean tr.
Proof.
  unfold clean. cbn [has_skip has_panic].
  destruct (is_panic r), (has_skip tr), (has_panic tr); reflexivity.
Qed.

(** ** pending calls and the counter of pending calls *)
Lemma n_pending_call u o tr : n_pending (ECall u o :: tr) = (n_pending tr + 1)%Z.
Proof. reflexivity. Qed.
Lemma n_pending_ret u r d tr : n_pending (ERet u r d :: tr) = (n_pending tr - 1)%Z.
Proof. reflexivity. Qed.
