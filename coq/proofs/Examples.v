(** * Non-vacuity: concrete contended runs that meet the hypotheses of the safety theorems (the premises
      [src_env], [wf_progs], [nowrap] are satisfiable together with real contention, a partial chunk, a
      skip, a loop and an end report). *)
From Coq Require Import Lia ZArith List.
From OCI Require Import Machine Checkers.
From OCI.proofs Require Import Base Trace ArithOk InvKnown ChkKnown IterBase ChkIter ChkAll IterFair GapFree.
Import ListNotations.
Open Scope N_scope.

Definition ex_progs : tid -> list op := fun t =>
  match t with
  | 0%nat => [Next NIdVal; Chunk 3 1; Loop LEnum 2 None]
  | 1%nat => [BufNew 2; BufNext 1; BufNext 2; BufDrop; TryLen]
  | 2%nat => [Next NVal; Skip; Next NVal; HasMore]
  | _ => []
  end.

Definition ex_sched : list tid := [0; 1; 2; 0; 1; 2; 1; 0; 0; 2; 1; 2; 0; 1; 1; 2; 0; 0; 1; 2; 2; 1; 0; 1; 2; 0; 1; 0; 2; 1; 0; 0; 1; 1; 2; 2; 0; 1; 2; 0]%nat.

Definition ex_env (k : kind) (own : bool) : env :=
  {| e_kind := k; e_adaptor := ANone; e_len := 7; e_start := 10; e_end := 17; e_hint := HExact;
     e_owning := own; e_mode := Checked; e_crash := None; e_gap := fun _ => false |}.

Lemma ex_wf_progs : wf_progs ex_progs.
Proof. intros t. destruct t as [|[|[|t]]]; repeat constructor; cbn; rewrite ?W_val; lia. Qed.

Example known_hypotheses_hold :
  forall k own, In (k, own) [(KSlice, false); (KVec, true); (KArray, true); (KRange, false)] ->
  known_env (ex_env k own) /\ wf_progs ex_progs /\
  nowrap (c_labels (exec (ex_env k own) (init ex_progs) ex_sched)) /\
  has_skip (c_trace (exec (ex_env k own) (init ex_progs) ex_sched)) = true /\
  (1 < n_pending (firstn 4 (rev (c_trace (exec (ex_env k own) (init ex_progs) ex_sched)))))%Z.
Proof.
  intros k own Hin. cbn [In] in Hin.
  repeat (destruct Hin as [Hin|Hin]; [injection Hin as <- <-|]); try contradiction;
    (split; [split; [unfold wf_env; cbn; rewrite W_val; lia|split; reflexivity]|]);
    (split; [exact ex_wf_progs|]); (split; [apply nowrapb_ok; vm_compute; reflexivity|]); split; vm_compute; reflexivity.
Qed.

Example iter_hypotheses_hold :
  iter_env (ex_env KIter true) /\ wf_progs ex_progs /\
  nowrap (c_labels (exec (ex_env KIter true) (init ex_progs) ex_sched)) /\
  has_skip (c_trace (exec (ex_env KIter true) (init ex_progs) ex_sched)) = true.
Proof.
  split; [split; [unfold wf_env; cbn; rewrite W_val; lia|reflexivity]|].
  split; [exact ex_wf_progs|]. split; [apply nowrapb_ok; vm_compute; reflexivity|vm_compute; reflexivity].
Qed.

(** ** a wrapped iterator that is not fused

    Four elements; the second call of the wrapped next() answers None although three elements remain.
    Thread 0 pulls a chunk of two: it takes position 0, meets the None, raises the completed flag and
    publishes its whole reservation.  Thread 1 (a buffered iterator of size two) had tested the flag before
    it was raised: when its turn comes it still enters the critical section and takes positions 1 and 2
    under the index 2 of its ticket.  Both threads then pull once more and are told the end: the end is
    reported although the wrapped iterator has yielded only three of its four elements. *)
Definition gap_env : env :=
  {| e_kind := KIter; e_adaptor := ANone; e_len := 4; e_start := 0; e_end := 0; e_hint := HInexact;
     e_owning := true; e_mode := Checked; e_crash := None; e_gap := fun k => N.eqb k 1 |}.

Definition gap_progs : tid -> list op := fun t =>
  match t with
  | 0%nat => [Chunk 2 2; Next NVal]
  | 1%nat => [BufNew 2; BufNext 1; Next NIdVal]
  | _ => []
  end.

Definition gap_sched : list tid := [0; 0; 0; 0; 0; 0; 1; 1; 1; 1; 0; 0; 1; 1; 1; 1; 0; 0; 0; 1; 1; 1]%nat.

Lemma gap_wf_progs : wf_progs gap_progs.
Proof. intros t. destruct t as [|[|t]]; repeat constructor; cbn; rewrite ?W_val; lia. Qed.

Example gap_hypotheses_hold :
  let c := exec gap_env (init gap_progs) gap_sched in
  iter_env gap_env /\ ~ fused gap_env /\ wf_progs gap_progs /\ nowrap (c_labels c) /\
  (* the end has been reported, nothing is pending, and the wrapped iterator has not been exhausted *)
  end_reported (c_trace c) = true /\ n_pending (c_trace c) = 0%Z /\ s_cur (c_sh c) = 3 /\ e_len gap_env = 4 /\
  (* thread 1 was handed position 1 under index 2 *)
  In (ERet 1%nat (RChunk 2 [mk_run (Some 2) 1 1] 2 1 1) []) (c_trace c) /\
  (* the end is permanent; index fidelity and the no-loss half of exactly-once do not survive the gap *)
  chk_C05 gap_env (c_trace c) = true /\ chk_C08 gap_env (c_trace c) = true /\
  chk_C02 gap_env (c_trace c) = false /\ chk_C01_noloss gap_env (c_trace c) = false.
Proof.
  cbv zeta.
  split; [split; [unfold wf_env; cbn; rewrite W_val; lia|reflexivity]|].
  split; [intros H; specialize (H 1); discriminate H|].
  split; [exact gap_wf_progs|]. split; [apply nowrapb_ok; vm_compute; reflexivity|].
  split; [vm_compute; reflexivity|]. split; [vm_compute; reflexivity|]. split; [vm_compute; reflexivity|].
  split; [vm_compute; reflexivity|]. split; [vm_compute; auto 10|].
  split; [vm_compute; reflexivity|]. split; [vm_compute; reflexivity|]. split; vm_compute; reflexivity.
Qed.

(** the hypothesis of the "until the first premature None" theorems is satisfiable by an iterator that is
    not fused: after the first five steps of the run above the wrapped next() has been called once and has
    yielded position 0; the sixth step is the call that answers None although three elements remain *)
Example gap_free_prefix :
  gap_free gap_env (s_calls (c_sh (exec gap_env (init gap_progs) (firstn 5 gap_sched)))) /\
  s_cur (c_sh (exec gap_env (init gap_progs) (firstn 5 gap_sched))) = 1 /\
  ~ gap_free gap_env (s_calls (c_sh (exec gap_env (init gap_progs) (firstn 6 gap_sched)))).
Proof.
  split; [|split].
  - intros k Hk. assert (Hc : s_calls (c_sh (exec gap_env (init gap_progs) (firstn 5 gap_sched))) = 1) by (vm_compute; reflexivity).
    rewrite Hc in Hk. assert (k = 0) as -> by lia. reflexivity.
  - vm_compute. reflexivity.
  - intros H. assert (Hc : s_calls (c_sh (exec gap_env (init gap_progs) (firstn 6 gap_sched))) = 2) by (vm_compute; reflexivity).
    rewrite Hc in H. specialize (H 1 ltac:(lia)). discriminate H.
Qed.

(** the checker of the no-duplicate half of C01 accounts for the elements of a chunk that the caller did
    not take by the INDEX of the chunk, and for the elements that were taken by their VALUE: once a gap
    has made the two differ, it objects to a run on which no element is delivered twice (thread 1 leaves
    positions 2 and 3 in its chunk of index 3, thread 2 is handed position 4 under index 5) -- while no
    position is moved out or destroyed twice (C08) *)
Definition gap2_env : env :=
  {| e_kind := KIter; e_adaptor := ANone; e_len := 6; e_start := 0; e_end := 0; e_hint := HInexact;
     e_owning := true; e_mode := Checked; e_crash := None; e_gap := fun k => N.eqb k 2 |}.

Definition gap2_progs : tid -> list op := fun t =>
  match t with 0%nat => [Chunk 3 3] | 1%nat => [Chunk 2 0] | 2%nat => [Next NVal] | _ => [] end.

Definition gap2_sched : list tid :=
  [0; 0; 1; 1; 2; 2; 0; 0; 1; 2; 1; 2; 0; 0; 0; 1; 2; 0; 0; 1; 1; 1; 1; 2; 2; 2]%nat.

Example gap_breaks_the_mixed_accounting :
  let c := exec gap2_env (init gap2_progs) gap2_sched in
  iter_env gap2_env /\ nowrap (c_labels c) /\
  rev (c_trace c) =
    [ECall 0%nat (Chunk 3 3); ECall 1%nat (Chunk 2 0); ECall 2%nat (Next NVal);
     ERet 0%nat (RChunk 0 [mk_run (Some 0) 0 2] 2 2 0) [];
     ERet 1%nat (RChunk 3 [] 2 0 2) [{| d_lo := 2; d_cnt := 2 |}];
     ERet 2%nat (ROne (mk_run None 4 1)) []] /\
  chk_C01_nodup gap2_env (c_trace c) = false /\ chk_C03 gap2_env (c_trace c) = false /\
  pairwise_disj (taken_all gap2_env (c_trace c) ++ dropped_all (c_trace c)) = true /\
  chk_C05 gap2_env (c_trace c) = true /\ chk_C07 (c_labels c) = true /\ chk_C08 gap2_env (c_trace c) = true.
Proof.
  cbv zeta.
  split; [split; [unfold wf_env; cbn; rewrite W_val; lia|reflexivity]|].
  split; [apply nowrapb_ok; vm_compute; reflexivity|].
  split; [vm_compute; reflexivity|]. split; [vm_compute; reflexivity|]. split; [vm_compute; reflexivity|].
  split; [vm_compute; reflexivity|]. split; [vm_compute; reflexivity|]. split; vm_compute; reflexivity.
Qed.
