(** * Non-vacuity: concrete contended runs that meet the hypotheses of the safety theorems (the premises
      [src_env], [wf_progs], [nowrap] are satisfiable together with real contention, a partial chunk, a
      skip, a loop and an end report). *)
From Coq Require Import Lia ZArith List.
From OCI Require Import Machine Checkers.
From OCI.proofs Require Import Base Trace ArithOk InvKnown ChkKnown IterBase ChkIter ChkAll IterFair.
Import ListNotations.
Open Scope N_scope.

Definition ex_progs : tid -> list op := fun t =>
  match t with
  | 0%nat => [Next NIdVal; Chunk 3 1; Loop LEnum 2 None]
  | 1%nat => [BufNew 2; BufNext 1; BufNext 2; BufDrop; TryLen]
  | 2%nat => [Next NVal; Skip; Next NVal; HasMore]
  | _ => []
  end.

Definition ex_sched : list tid := [0; 1; 2; 0; 1; 2; 1; 0; 0; 2; 1; 2; 0; 1; 1; 2; 0; 0; 1; 2; 2; 1; 0; 1; 2; 0; 1; 0; 2; 1; 0; 0; 1; 1; 2; 2; 0; 1; 2; 0]%nat.

Definition ex_env (k : kind) (own : bool) : env :=
  {| e_kind := k; e_adaptor := ANone; e_len := 7; e_start := 10; e_end := 17; e_hint := HExact;
     e_owning := own; e_mode := Checked; e_crash := None |}.

Lemma ex_wf_progs : wf_progs ex_progs.
Proof. intros t. destruct t as [|[|[|t]]]; repeat constructor; cbn; rewrite ?W_val; lia. Qed.

Example known_hypotheses_hold :
  forall k own, In (k, own) [(KSlice, false); (KVec, true); (KArray, true); (KRange, false)] ->
  known_env (ex_env k own) /\ wf_progs ex_progs /\
  nowrap (c_labels (exec (ex_env k own) (init ex_progs) ex_sched)) /\
  has_skip (c_trace (exec (ex_env k own) (init ex_progs) ex_sched)) = true /\
  (1 < n_pending (firstn 4 (rev (c_trace (exec (ex_env k own) (init ex_progs) ex_sched)))))%Z.
Proof.
  intros k own Hin. cbn [In] in Hin.
  repeat (destruct Hin as [Hin|Hin]; [injection Hin as <- <-|]); try contradiction;
    (split; [split; [unfold wf_env; cbn; rewrite W_val; lia|split; reflexivity]|]);
    (split; [exact ex_wf_progs|]); (split; [apply nowrapb_ok; vm_compute; reflexivity|]); split; vm_compute; reflexivity.
Qed.

Example iter_hypotheses_hold :
  iter_env (ex_env KIter true) /\ wf_progs ex_progs /\
  nowrap (c_labels (exec (ex_env KIter true) (init ex_progs) ex_sched)) /\
  has_skip (c_trace (exec (ex_env KIter true) (init ex_progs) ex_sched)) = true.
Proof.
  split; [split; [unfold wf_env; cbn; rewrite W_val; lia|reflexivity]|].
  split; [exact ex_wf_progs|]. split; [apply nowrapb_ok; vm_compute; reflexivity|vm_compute; reflexivity].
Qed.
