(** * Non-vacuity: concrete contended runs that meet the hypotheses of the safety theorems (the premises
      [src_env], [wf_progs], [nowrap] are satisfiable together with real contention, a partial chunk, a
      skip, a loop and an end report). *)
From Coq Require Import Lia ZArith List.
From OCI Require Import Machine Checkers.
From OCI.proofs Require Import Base Trace ArithOk InvKnown ChkKnown IterBase ChkIter ChkAll IterFair GapFree AfterNone RunC16 Sequential.
Import ListNotations.
Open Scope N_scope.

Definition ex_progs : tid -> list op := fun t =>
  match t with
  | 0%nat => [Next NIdVal; Chunk 3 1; Loop LEnum 2 None]
  | 1%nat => [BufNew 2; BufNext 1; BufNext 2; BufDrop; TryLen]
  | 2%nat => [Next NVal; Skip; Next NVal; HasMore]
  | _ => []
  end.

Definition ex_sched : list tid := [0; 1; 2; 0; 1; 2; 1; 0; 0; 2; 1; 2; 0; 1; 1; 2; 0; 0; 1; 2; 2; 1; 0; 1; 2; 0; 1; 0; 2; 1; 0; 0; 1; 1; 2; 2; 0; 1; 2; 0]%nat.

Definition ex_env (k : kind) (own : bool) : env :=
  {| e_kind := k; e_adaptor := ANone; e_len := 7; e_start := 10; e_end := 17; e_hint := HExact;
     e_owning := own; e_mode := Checked; e_crash := None; e_gap := fun _ => false |}.

Lemma ex_wf_progs : wf_progs ex_progs.
Proof. intros t. destruct t as [|[|[|t]]]; repeat constructor; cbn; rewrite ?W_val; lia. Qed.

Example known_hypotheses_hold :
  forall k own, In (k, own) [(KSlice, false); (KVec, true); (KArray, true); (KRange, false)] ->
  known_env (ex_env k own) /\ wf_progs ex_progs /\
  nowrap (c_labels (exec (ex_env k own) (init ex_progs) ex_sched)) /\
  has_skip (c_trace (exec (ex_env k own) (init ex_progs) ex_sched)) = true /\
  (1 < n_pending (firstn 4 (rev (c_trace (exec (ex_env k own) (init ex_progs) ex_sched)))))%Z.
Proof.
  intros k own Hin. cbn [In] in Hin.
  repeat (destruct Hin as [Hin|Hin]; [injection Hin as <- <-|]); try contradiction;
    (split; [split; [unfold wf_env; cbn; rewrite W_val; lia|split; reflexivity]|]);
    (split; [exact ex_wf_progs|]); (split; [apply nowrapb_ok; vm_compute; reflexivity|]); split; vm_compute; reflexivity.
Qed.

Example iter_hypotheses_hold :
  iter_env (ex_env KIter true) /\ wf_progs ex_progs /\
  nowrap (c_labels (exec (ex_env KIter true) (init ex_progs) ex_sched)) /\
  has_skip (c_trace (exec (ex_env KIter true) (init ex_progs) ex_sched)) = true.
Proof.
  split; [split; [unfold wf_env; cbn; rewrite W_val; lia|reflexivity]|].
  split; [exact ex_wf_progs|]. split; [apply nowrapb_ok; vm_compute; reflexivity|vm_compute; reflexivity].
Qed.

(** ** a wrapped iterator that is not fused

    Four elements; the second call of the wrapped next() answers None although three elements remain.
    Thread 0 pulls a chunk of two: it takes position 0 and meets the None.  Thread 1 (a buffered iterator
    of size two) reserves the next ticket and tests the completed flag BEFORE thread 0 raises it.  Thread 0
    then raises the flag and publishes its whole reservation: the yielded counter now equals the ticket of
    thread 1.  Thread 1 loads the yielded counter, finds that it is its turn -- and looks at the completed
    flag once more (the repair): the flag is up, so it reports the end without touching the wrapped
    iterator.  (Before the repair it entered the critical section and was handed positions 1 and 2 under
    the index 2 of its ticket.)  Both threads then pull once more and are told the end: the end is
    reported although the wrapped iterator has yielded only one of its four elements. *)
Definition gap_env : env :=
  {| e_kind := KIter; e_adaptor := ANone; e_len := 4; e_start := 0; e_end := 0; e_hint := HInexact;
     e_owning := true; e_mode := Checked; e_crash := None; e_gap := fun k => N.eqb k 1 |}.

Definition gap_progs : tid -> list op := fun t =>
  match t with
  | 0%nat => [Chunk 2 2; Next NVal]
  | 1%nat => [BufNew 2; BufNext 1; Next NIdVal]
  | _ => []
  end.

Definition gap_sched : list tid := [0; 0; 0; 0; 0; 0; 0; 1; 1; 1; 1; 0; 0; 1; 1; 0; 0; 0; 1; 1; 1]%nat.

Lemma gap_wf_progs : wf_progs gap_progs.
Proof. intros t. destruct t as [|[|t]]; repeat constructor; cbn; rewrite ?W_val; lia. Qed.

Example gap_hypotheses_hold :
  let c := exec gap_env (init gap_progs) gap_sched in
  iter_env gap_env /\ ~ fused gap_env /\ wf_progs gap_progs /\ nowrap (c_labels c) /\
  (* the end has been reported, nothing is pending, and the wrapped iterator has not been exhausted *)
  end_reported (c_trace c) = true /\ n_pending (c_trace c) = 0%Z /\ s_cur (c_sh c) = 1 /\ e_len gap_env = 4 /\
  (* the whole history: thread 0 is handed position 0 in a chunk that is short in the middle of the
     source; thread 1, whose ticket came up after the None, is told the end *)
  rev (c_trace c) =
    [ECall 0%nat (Chunk 2 2); ECall 1%nat (BufNew 2); ERet 1%nat RUnit []; ECall 1%nat (BufNext 1);
     ERet 0%nat (RChunk 0 [mk_run (Some 0) 0 1] 1 1 0) []; ERet 1%nat RNone [];
     ECall 0%nat (Next NVal); ERet 0%nat RNone []; ECall 1%nat (Next NIdVal); ERet 1%nat RNone []] /\
  (* the wrapped next() was called twice, by thread 0 only: nobody called it after it answered None *)
  filter (fun l => match l with LSrc _ _ | LSrcPanic _ => true | _ => false end) (rev (c_labels c)) =
    [LSrc 0%nat (Some 0); LSrc 0%nat None] /\
  (* the end is permanent, index fidelity holds (nothing is delivered after the None); the no-loss half of
     exactly-once and the "short only at the end" clause of the chunk contract do not survive the gap *)
  chk_C05 gap_env (c_trace c) = true /\ chk_C08 gap_env (c_trace c) = true /\
  chk_C02 gap_env (c_trace c) = true /\ chk_C01_nodup gap_env (c_trace c) = true /\ chk_C07 (c_labels c) = true /\
  chk_C01_noloss gap_env (c_trace c) = false /\ chk_C03 gap_env (c_trace c) = false.
Proof.
  cbv zeta.
  split; [split; [unfold wf_env; cbn; rewrite W_val; lia|reflexivity]|].
  split; [intros H; specialize (H 1); discriminate H|].
  split; [exact gap_wf_progs|]. split; [apply nowrapb_ok; vm_compute; reflexivity|].
  split; [vm_compute; reflexivity|]. split; [vm_compute; reflexivity|]. split; [vm_compute; reflexivity|].
  split; [vm_compute; reflexivity|]. split; [vm_compute; reflexivity|]. split; [vm_compute; reflexivity|].
  split; [vm_compute; reflexivity|]. split; [vm_compute; reflexivity|]. split; [vm_compute; reflexivity|].
  split; [vm_compute; reflexivity|]. split; [vm_compute; reflexivity|]. split; vm_compute; reflexivity.
Qed.

(** a thread leaves through the second look at the completed flag: after fourteen steps of the run above
    thread 1 has found its ticket equal to the yielded counter while the completed flag is up; its next
    step loads the flag (Relaxed), reports the end, and touches neither the wrapped iterator nor the
    counters *)
Example leaves_at_its_turn :
  let c14 := exec gap_env (init gap_progs) (firstn 14 gap_sched) in
  let c15 := exec gap_env (init gap_progs) (firstn 15 gap_sched) in
  t_pc (c_pool c14 1%nat) = PChkT {| q_n := 2; q_mode := MBuf 1; q_ctx := CTop |} 2 /\
  s_f (c_sh c14) = true /\ s_y (c_sh c14) = 2 /\
  hd_error (c_labels c14) = Some (LAtom 1%nat SY ALoad 0 2 ord_yielded_read_progress) /\
  c_sh c15 = c_sh c14 /\ t_pc (c_pool c15 1%nat) = PIdle /\
  c_labels c15 = LAtom 1%nat SF ALoad 0 1 ord_completed_load_progress_turn :: c_labels c14 /\
  c_trace c15 = ERet 1%nat RNone [] :: c_trace c14.
Proof.
  cbv zeta. split; [vm_compute; reflexivity|]. split; [vm_compute; reflexivity|]. split; [vm_compute; reflexivity|].
  split; [vm_compute; reflexivity|]. split; [vm_compute; reflexivity|]. split; [vm_compute; reflexivity|].
  split; vm_compute; reflexivity.
Qed.

(** the hypothesis of the "until the first premature None" theorems is satisfiable by an iterator that is
    not fused: after the first six steps of the run above the wrapped next() has been called once and has
    yielded position 0; the seventh step is the call that answers None although three elements remain *)
Example gap_free_prefix :
  gap_free gap_env (s_calls (c_sh (exec gap_env (init gap_progs) (firstn 6 gap_sched)))) /\
  s_cur (c_sh (exec gap_env (init gap_progs) (firstn 6 gap_sched))) = 1 /\
  ~ gap_free gap_env (s_calls (c_sh (exec gap_env (init gap_progs) (firstn 7 gap_sched)))).
Proof.
  split; [|split].
  - intros k Hk. assert (Hc : s_calls (c_sh (exec gap_env (init gap_progs) (firstn 6 gap_sched))) = 1) by (vm_compute; reflexivity).
    rewrite Hc in Hk. assert (k = 0) as -> by lia. reflexivity.
  - vm_compute. reflexivity.
  - intros H. assert (Hc : s_calls (c_sh (exec gap_env (init gap_progs) (firstn 7 gap_sched))) = 2) by (vm_compute; reflexivity).
    rewrite Hc in H. specialize (H 1 ltac:(lia)). discriminate H.
Qed.

(** before the repair, the run below handed position 4 to thread 2 under index 5 and left positions 2 and 3
    in a chunk of index 3 of thread 1: the checker of the no-duplicate half of C01 (which accounts for the
    elements left in a chunk by the INDEX of the chunk and for the others by their VALUE) objected to it.
    With the repair the two threads whose tickets come up after the None are told the end: indices and
    positions never differ, and the checker no longer objects.  What remains of the gap: the chunk of
    thread 0 is short in the middle of the source (C03 judged with the length of the source), and the end
    is reported while elements remain *)
Definition gap2_env : env :=
  {| e_kind := KIter; e_adaptor := ANone; e_len := 6; e_start := 0; e_end := 0; e_hint := HInexact;
     e_owning := true; e_mode := Checked; e_crash := None; e_gap := fun k => N.eqb k 2 |}.

Definition gap2_progs : tid -> list op := fun t =>
  match t with 0%nat => [Chunk 3 3] | 1%nat => [Chunk 2 0] | 2%nat => [Next NVal] | _ => [] end.

Definition gap2_sched : list tid :=
  [0; 0; 1; 1; 2; 2; 0; 0; 1; 2; 1; 2; 0; 0; 0; 0; 1; 2; 0; 0; 1; 1; 2; 2]%nat.

Example gap_mixed_accounting_repaired :
  let c := exec gap2_env (init gap2_progs) gap2_sched in
  iter_env gap2_env /\ nowrap (c_labels c) /\
  rev (c_trace c) =
    [ECall 0%nat (Chunk 3 3); ECall 1%nat (Chunk 2 0); ECall 2%nat (Next NVal);
     ERet 0%nat (RChunk 0 [mk_run (Some 0) 0 2] 2 2 0) [];
     ERet 1%nat RNone [];
     ERet 2%nat RNone []] /\
  chk_C01_nodup gap2_env (c_trace c) = true /\ chk_C02 gap2_env (c_trace c) = true /\
  chk_C03 gap2_env (c_trace c) = false /\ chk_C01_noloss gap2_env (c_trace c) = false /\
  pairwise_disj (taken_all gap2_env (c_trace c) ++ dropped_all (c_trace c)) = true /\
  chk_C05 gap2_env (c_trace c) = true /\ chk_C07 (c_labels c) = true /\ chk_C08 gap2_env (c_trace c) = true.
Proof.
  cbv zeta.
  split; [split; [unfold wf_env; cbn; rewrite W_val; lia|reflexivity]|].
  split; [apply nowrapb_ok; vm_compute; reflexivity|].
  split; [vm_compute; reflexivity|]. split; [vm_compute; reflexivity|]. split; [vm_compute; reflexivity|].
  split; [vm_compute; reflexivity|]. split; [vm_compute; reflexivity|]. split; [vm_compute; reflexivity|].
  split; [vm_compute; reflexivity|]. split; vm_compute; reflexivity.
Qed.

(** the two runs above, judged against the fused iterator that ends where the first None was answered
    ([AfterNone.cut]): the hypotheses of the "any iterator" theorems are satisfiable by iterators that are
    not fused, the whole of C01, C03 and C12 holds with the length of the source replaced by the number of
    elements yielded before the first None, the run of the cut environment is the very same run, and the
    wrapped next() is never called after it has answered None *)
Example gap_judged_against_the_cut :
  let c := exec gap_env (init gap_progs) gap_sched in
  let c2 := exec gap2_env (init gap2_progs) gap2_sched in
  first_gap gap_env 1 /\ e_len (cut gap_env 1) = 1 /\
  first_gap gap2_env 2 /\ e_len (cut gap2_env 2) = 2 /\
  check_prop 1 (cut gap_env 1) (c_trace c) (c_labels c) = true /\
  check_prop 3 (cut gap_env 1) (c_trace c) (c_labels c) = true /\
  check_prop 12 (cut gap_env 1) (c_trace c) (c_labels c) = true /\
  check_prop 1 (cut gap2_env 2) (c_trace c2) (c_labels c2) = true /\
  check_prop 3 (cut gap2_env 2) (c_trace c2) (c_labels c2) = true /\
  c_trace (exec (cut gap_env 1) (init gap_progs) gap_sched) = c_trace c /\
  c_labels (exec (cut gap_env 1) (init gap_progs) gap_sched) = c_labels c /\
  c_sh (exec (cut gap_env 1) (init gap_progs) gap_sched) = c_sh c /\
  no_src_after_none (c_labels c) = true /\ no_src_after_none (c_labels c2) = true /\
  existsb is_none (c_labels c) = true /\ existsb is_none (c_labels c2) = true.
Proof.
  cbv zeta.
  split; [split; [intros k Hk; assert (k = 0) as -> by lia; reflexivity|reflexivity]|].
  split; [reflexivity|].
  split; [split; [intros k Hk; assert (k = 0 \/ k = 1) as [-> | ->] by lia; reflexivity|reflexivity]|].
  split; [reflexivity|].
  split; [vm_compute; reflexivity|]. split; [vm_compute; reflexivity|]. split; [vm_compute; reflexivity|].
  split; [vm_compute; reflexivity|]. split; [vm_compute; reflexivity|]. split; [vm_compute; reflexivity|].
  split; [vm_compute; reflexivity|]. split; [vm_compute; reflexivity|]. split; [vm_compute; reflexivity|].
  split; [vm_compute; reflexivity|]. split; vm_compute; reflexivity.
Qed.

(** ** a single thread (C04, the sequential corollary)

    One thread over a source of seven elements: a single pull, a chunk of three of which it takes one, a
    buffered iterator of size two of which it takes one element, a length query, an enumerated loop with
    chunk size two, and a pull that is told the end.  The hypotheses of
    [C04.c04_single_thread_is_sequential_programs] hold for the five kinds; the return events deliver
    [0,1), [1,2) and [2,4) (the chunk: taken and not taken), [4,5) and [5,6) (the buffered chunk), [6,7) (the
    loop): the positions 0 .. 6 in this order.  After 14 steps of the wrapped iterator's run the thread is
    inside its chunk pull (it has called the wrapped next() twice): the statement is about every such state *)
Definition solo_progs : tid -> list op := fun t =>
  match t with
  | 0%nat => [Next NIdVal; Chunk 3 1; BufNew 2; BufNext 1; TryLen; Loop LEnum 2 None; Next NVal]
  | _ => [Next NVal]
  end.

Lemma solo_wf_progs : wf_progs solo_progs.
Proof. intros t. destruct t as [|t]; repeat constructor; cbn; rewrite ?W_val; lia. Qed.

Lemma solo_plain_progs : plain_progs solo_progs.
Proof. intros t. destruct t as [|t]; split; repeat constructor. Qed.

Lemma solo_op_nz : forall t, Forall op_nz (solo_progs t).
Proof. intros t. destruct t as [|t]; repeat constructor; cbn; discriminate. Qed.

Example single_thread_is_sequential :
  forall k own, In (k, own) [(KSlice, false); (KVec, true); (KArray, true); (KRange, false); (KIter, true)] ->
  let e := ex_env k own in
  let c := exec e (init solo_progs) (repeat 0%nat 60) in
  src_env e /\ e_crash e = None /\ wf_progs solo_progs /\ plain_progs solo_progs /\
  (forall t, Forall op_nz (solo_progs t)) /\ nowrap (c_labels c) /\
  end_reported (c_trace c) = true /\ n_pending (c_trace c) = 0%Z /\
  cov_in_order e (c_trace c) = [(0, 1); (1, 1); (2, 2); (4, 1); (5, 1); (6, 1)] /\
  positions (cov_in_order e (c_trace c)) = [0; 1; 2; 3; 4; 5; 6].
Proof.
  intros k own Hin. cbn [In] in Hin. cbv zeta.
  assert (Hsrc : src_env (ex_env k own)).
  { repeat (destruct Hin as [Hin|Hin]; [injection Hin as <- <-|]); try contradiction;
      try (left; split; [unfold wf_env; cbn; rewrite W_val; lia|split; reflexivity]).
    right. split; [unfold wf_env; cbn; rewrite W_val; lia|reflexivity]. }
  split; [exact Hsrc|]. split; [reflexivity|]. split; [exact solo_wf_progs|]. split; [exact solo_plain_progs|].
  split; [exact solo_op_nz|].
  repeat (destruct Hin as [Hin|Hin]; [injection Hin as <- <-|]); try contradiction;
    (split; [apply nowrapb_ok; vm_compute; reflexivity|]);
    (split; [vm_compute; reflexivity|]); (split; [vm_compute; reflexivity|]); split; vm_compute; reflexivity.
Qed.

Example single_thread_inside_an_operation :
  let e := ex_env KIter true in
  let c := exec e (init solo_progs) (repeat 0%nat 14) in
  n_pending (c_trace c) = 1%Z /\
  t_pc (c_pool c 0%nat) = PSrc {| q_n := 3; q_mode := MChunk 1; q_ctx := CTop |} 1 [2; 1] /\
  nowrap (c_labels c) /\ has_panic (c_trace c) = false /\
  cov_in_order e (c_trace c) = [(0, 1)] /\
  adjacent_from 0 (cov_in_order e (c_trace c)) = true.
Proof.
  cbv zeta. split; [vm_compute; reflexivity|]. split; [vm_compute; reflexivity|].
  split; [apply nowrapb_ok; vm_compute; reflexivity|]. split; [vm_compute; reflexivity|].
  split; vm_compute; reflexivity.
Qed.
