(** * The checkers on every trace of every source kind. *)
From Coq Require Import ZArith.
From OCI Require Import Machine Checkers.
From OCI.proofs Require Import ArithOk Trace InvKnown ChkKnown IterBase ChkIter.
Open Scope N_scope.

(** every source kind of the crate: slice, vector, array, range (also under cloned() / copied()), and
    the wrapper over an arbitrary iterator *)
Definition src_env (e : env) : Prop := known_env e \/ iter_env e.

Section All.
Variable e : env.
Hypothesis Hsrc : src_env e.
Hypothesis Hfu : fused e.
Variable progs : tid -> list op.
Hypothesis Hp : wf_progs progs.
Variable sched : list tid.
Hypothesis Hnw : nowrap (c_labels (exec e (init progs) sched)).

Let tr := c_trace (exec e (init progs) sched).
Let ls := c_labels (exec e (init progs) sched).

Theorem all_C01 : check_prop 1 e tr ls = true.
Proof. destruct Hsrc as [H|H]; [apply known_C01|apply iter_C01]; assumption. Qed.
(** no position is delivered twice, whatever panics *)
Theorem all_nodup : chk_C01_nodup e tr = true.
Proof. destruct Hsrc as [H|H]; [apply known_nodup|apply iter_nodup]; assumption. Qed.
Theorem all_C02 : chk_C02 e tr = true.
Proof. destruct Hsrc as [H|H]; [apply known_C02|apply iter_C02]; assumption. Qed.
Theorem all_C03 : chk_C03 e tr = true.
Proof. destruct Hsrc as [H|H]; [apply known_C03|apply iter_C03]; assumption. Qed.
Theorem all_C04 : check_prop 4 e tr ls = true.
Proof. destruct Hsrc as [H|H]; [apply known_C04|apply iter_C04]; assumption. Qed.
Theorem all_C05 : chk_C05 e tr = true.
Proof. destruct Hsrc as [H|H]; [apply known_C05|apply iter_C05]; assumption. Qed.
Theorem all_C06 : check_prop 6 e tr ls = true.
Proof. destruct Hsrc as [H|H]; [apply known_C06|apply iter_C06]; assumption. Qed.
Theorem all_C12 : check_prop 12 e tr ls = true.
Proof. destruct Hsrc as [H|H]; [apply known_C12|apply iter_C12]; assumption. Qed.

End All.
