(** * C07 (b) for the wrapper over an arbitrary iterator: kept in its own file so that only C07 depends on
      the memory orderings extracted from the source ([gen/Orderings.v]) *)
From Coq Require Import Lia ZArith Permutation.
From OCI Require Import Machine Checkers.
From OCI.proofs Require Import Base Trace ArithOk InvKnown ChkKnown IterBase IterProt InvIterA InvIterH ChkIter.
Open Scope N_scope.

(** every use of the wrapped iterator happens-after the previous one, for the orderings the source declares *)
Theorem iter_C07_hb : forall e, iter_env e -> forall progs, wf_progs progs -> forall sched,
  nowrap (c_labels (exec e (init progs) sched)) ->
  chk_C07_hb (c_labels (exec e (init progs) sched)) = true.
Proof.
  intros e (He & Hk) progs Hp sched Hnw. unfold chk_C07_hb. apply h_fine.
  apply (iH_exec e Hk (nodup Nat.eq_dec sched)); try assumption.
  - apply NoDup_nodup.
  - apply Forall_forall. intros t Ht. apply nodup_In. exact Ht.
Qed.
