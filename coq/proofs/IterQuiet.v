(** * The wrapper over an arbitrary iterator at quiescent points: into_seq_iter (C10). *)
From Coq Require Import Lia ZArith Permutation.
From OCI Require Import Machine Checkers.
From OCI.proofs Require Import Base Trace ArithOk InvKnown ChkKnown IterBase IterProt InvIterA InvIterB ChkIter.
Open Scope N_scope.

(** at a quiescent point without panics, as many elements have been delivered as the wrapped iterator has
    yielded -- every wrapped iterator, fused or not (when it is fused they are the positions [0, cursor)) *)
Lemma iter_quiescent_total e L c : IInvA e L c -> n_pending (c_trace c) = 0%Z -> has_panic (c_trace c) = false ->
  iv_total (cov e (c_trace c)) = s_cur (c_sh c).
Proof.
  intros A Hq Hnp. pose proof (a_cnt e L c A) as T. rewrite (iter_quiescent_helds e L c A Hq), app_nil_r in T.
  apply T. unfold npanic. rewrite Hnp. reflexivity.
Qed.

Theorem iter_C10_final : forall e, iter_env e -> forall progs, wf_progs progs -> forall sched,
  nowrap (c_labels (exec e (init progs) sched)) ->
  forall t k, n_pending (c_trace (exec e (init progs) sched)) = 0%Z ->
  chk_C10 e (c_trace (final_step e (exec e (init progs) sched) t (FIntoSeq k))) = true.
Proof.
  intros e Hie progs Hp sched Hnw t k Hq.
  destruct (iter_inv e Hie progs Hp sched Hnw) as [A _].
  destruct Hie as (He & Hk).
  set (c := exec e (init progs) sched) in *.
  pose proof (p_cur _ _ _ _ _ (a_prot e _ c A)) as Hcur.
  unfold final_step. rewrite Hk. unfold seq_res. cbn [c_trace].
  rewrite N.min_l by exact Hcur.
  cbn [chk_C10]. destruct (has_panic (c_trace c)) eqn:Hnp; [reflexivity|].
  rewrite (iter_quiescent_total e _ c A Hq Hnp).
  assert (Hv : forall m, val_of e m = m) by (intros m; unfold val_of; rewrite Hk; reflexivity).
  assert (Hpv : forall m, pos_of e m = m) by (intros m; unfold pos_of; rewrite Hk; reflexivity).
  set (m := s_cur (c_sh c)) in *.
  destruct (has_skip (c_trace c)).
  - unfold nz_run. destruct (N.eqb_spec (N.min k (e_len e - m)) 0) as [Hz|Hz]; [reflexivity|].
    unfold mk_run. cbn [r_cnt r_val]. rewrite N.eqb_refl, Hpv, Hv. cbn [andb].
    rewrite N.leb_refl. cbn [andb].
    destruct (N.ltb_spec (N.min k (e_len e - m)) k); [apply N.eqb_eq; lia|apply N.leb_le; lia].
  - rewrite N.eqb_refl. cbn [andb]. unfold nz_run. destruct (N.eqb_spec (N.min k (e_len e - m)) 0) as [Hz|Hz]; [reflexivity|].
    unfold mk_run. cbn [r_cnt r_val]. rewrite !N.eqb_refl. reflexivity.
Qed.

(** nothing is lost and nothing is invented: at every quiescent point of a run without panics the number
    of elements delivered is the number of elements the wrapped iterator has yielded -- every wrapped
    iterator, fused or not *)
Theorem iter_delivered_count : forall e, iter_env e -> forall progs, wf_progs progs -> forall sched,
  nowrap (c_labels (exec e (init progs) sched)) ->
  n_pending (c_trace (exec e (init progs) sched)) = 0%Z ->
  has_panic (c_trace (exec e (init progs) sched)) = false ->
  iv_total (cov e (c_trace (exec e (init progs) sched))) = s_cur (c_sh (exec e (init progs) sched)).
Proof.
  intros e Hie progs Hp sched Hnw Hq Hnp.
  destruct (iter_inv e Hie progs Hp sched Hnw) as [A _].
  apply (iter_quiescent_total e _ _ A Hq Hnp).
Qed.
Print Assumptions iter_delivered_count.
