(** * C19: several iterators over one collection.

    The state of a family of iterators is the list of their configurations; a step is a step of one thread
    on one iterator, or the creation of a clone, which copies the position counter of its original
    ([Clone] of [ConIterOfSlice] / [ConIterOfRange]: the collection is shared, the counter is copied).
    Non-interference: in any interleaved history, the configuration of each iterator is the one it reaches
    ALONE, from the state it was created in, under the steps of the history that were taken on it.  What
    ties the crate to this model is the correspondence check, which projects the crate's multi-iterator
    histories onto single iterators and replays each projection on the single-iterator model. *)
From Coq Require Import Lia ZArith List.
From OCI Require Import Machine Checkers.
From OCI.proofs Require Import Base Trace ArithOk InvKnown ChkKnown Adaptor Progress.
Import ListNotations.
Open Scope N_scope.

Inductive mop :=
| MStep (j : nat) (t : tid)                      (* thread t takes a step on iterator j *)
| MClone (j : nat) (progs : tid -> list op).     (* iterator j is cloned; the clone gets the next index *)

(** the clone: same collection, a copy of the position counter, nothing in flight *)
Definition clone_of (c : cfg) (progs : tid -> list op) : cfg :=
  {| c_sh := {| s_c := s_c (c_sh c); s_y := 0; s_f := false; s_cur := 0; s_calls := 0 |};
     c_pool := fun t => init_ts (progs t); c_trace := []; c_labels := [] |}.

Fixpoint upd_nth (j : nat) (f : cfg -> cfg) (m : list cfg) : list cfg :=
  match m, j with
  | [], _ => []
  | c :: tl, O => f c :: tl
  | c :: tl, S j' => c :: upd_nth j' f tl
  end.

Definition mstep (e : env) (m : list cfg) (o : mop) : list cfg :=
  match o with
  | MStep j t => upd_nth j (fun c => step e c t) m
  | MClone j progs => match nth_error m j with Some c => m ++ [clone_of c progs] | None => m end
  end.

Definition mexec (e : env) (m : list cfg) (ops : list mop) : list cfg := fold_left (mstep e) ops m.

(** the steps of a history that were taken on iterator [i] *)
Fixpoint proj (i : nat) (ops : list mop) : list tid :=
  match ops with
  | [] => []
  | MStep j t :: tl => if Nat.eqb j i then t :: proj i tl else proj i tl
  | MClone _ _ :: tl => proj i tl
  end.

Lemma upd_nth_length j f m : length (upd_nth j f m) = length m.
Proof. revert j. induction m as [|c tl IH]; intros [|j]; cbn [upd_nth length]; auto. Qed.

Lemma nth_upd_nth j f m i : nth_error (upd_nth j f m) i =
  if Nat.eqb j i then option_map f (nth_error m i) else nth_error m i.
Proof.
  revert j i. induction m as [|c tl IH]; intros j i.
  - destruct j as [|j], i as [|i]; cbn [upd_nth nth_error Nat.eqb option_map]; try reflexivity; destruct (Nat.eqb j i); reflexivity.
  - destruct j as [|j], i as [|i]; cbn [upd_nth nth_error Nat.eqb option_map]; try reflexivity. apply IH.
Qed.

Lemma mstep_length_ge e m o : (length m <= length (mstep e m o))%nat.
Proof.
  destruct o as [j t|j progs]; cbn [mstep].
  - rewrite upd_nth_length. lia.
  - destruct (nth_error m j); [rewrite app_length; cbn; lia|lia].
Qed.

(** an iterator that exists keeps its index, and only the steps taken on it change it *)
Lemma mstep_nth e m o i c : nth_error m i = Some c ->
  nth_error (mstep e m o) i = Some (match o with MStep j t => if Nat.eqb j i then step e c t else c | MClone _ _ => c end).
Proof.
  intros H. destruct o as [j t|j progs]; cbn [mstep].
  - rewrite nth_upd_nth, H. destruct (Nat.eqb j i); reflexivity.
  - destruct (nth_error m j); [|exact H]. rewrite nth_error_app1; [exact H|]. apply nth_error_Some. congruence.
Qed.

(** non-interference: iterator [i] of the family, after any history, is where it gets ALONE under the
    steps that were taken on it *)
Theorem non_interference e : forall ops m i c,
  nth_error m i = Some c ->
  nth_error (mexec e m ops) i = Some (exec e c (proj i ops)).
Proof.
  induction ops as [|o ops IH]; intros m i c H; [exact H|].
  cbn [mexec fold_left]. fold (mexec e (mstep e m o) ops).
  rewrite (IH _ i _ (mstep_nth e m o i c H)).
  destruct o as [j t|j progs]; cbn [proj]; [|reflexivity].
  destruct (Nat.eqb j i); reflexivity.
Qed.

(** a clone starts at the current position of its original, with nothing delivered, and from then on is an
    iterator of the family like any other *)
Theorem clone_starts_at_current e m j progs c :
  nth_error m j = Some c ->
  nth_error (mstep e m (MClone j progs)) (length m) = Some (clone_of c progs) /\
  s_c (c_sh (clone_of c progs)) = s_c (c_sh c) /\ c_trace (clone_of c progs) = [].
Proof.
  intros H. cbn [mstep]. rewrite H. rewrite nth_error_app2 by lia. rewrite Nat.sub_diag. auto.
Qed.

(** the collection under reference-yielding iterators (slices, ranges; con_iter() of a vector or an array)
    is never touched: no element is destroyed by any operation of any history on any iterator of the
    family that was created fresh *)
Theorem family_leaves_source_intact : forall e, known_env e -> e_owning e = false ->
  forall progs, wf_progs progs -> forall ops m i,
  nth_error m i = Some (init progs) ->
  nowrap (c_labels (exec e (init progs) (proj i ops))) ->
  exists c, nth_error (mexec e m ops) i = Some c /\ iv_total (dropped_all (c_trace c)) = 0.
Proof.
  intros e He Hown progs Hp ops m i H Hnw.
  exists (exec e (init progs) (proj i ops)). split; [apply non_interference; exact H|].
  apply (source_untouched e He Hown progs Hp (proj i ops) Hnw).
Qed.
