(** * C09 (c): the wrapper over an arbitrary iterator terminates under every fair schedule.

    A potential [phi] that no step increases, that every step other than a turn of the waiting loop
    decreases, and a proof that in every stretch of a schedule in which each thread takes two steps some
    step is not a turn of the waiting loop (because the ticket at the yielded counter is alive, or the
    completed flag is up).  Crash points of the wrapped iterator and of the closures are part of the
    environment and of the programs: the theorem covers the runs in which a pull panics (C18). *)
From Coq Require Import Lia ZArith Permutation.
From OCI Require Import Machine Checkers.
From OCI.proofs Require Import Base Trace ArithOk InvKnown IterBase IterProt InvIterA Progress.
Open Scope N_scope.

(** ** the potential *)

(** a loop that has taken an element will pull once more: the pull is paid for by the element *)
Definition credit (q : req) (g : list N) : Z :=
  match q_ctx q, g with CLoop _ _, _ :: _ => 9%Z | _, _ => 0%Z end.
Definition credit_pub (q : req) (g : list N) : Z :=
  match q_ctx q with CLoop _ _ => if single q then 9%Z else credit q g | CTop => 0%Z end.

Definition wpc (p : pc) : Z :=
  match p with
  | PIdle => 0
  | PRes _ => 8
  | PChkF _ _ | PLdY _ _ => 7
  | PChkT _ _ => 6
  | PSrc q _ g => 5 + credit q g
  | PSetF q _ g => 4 + credit q g
  | PPub q _ g => 3 + credit_pub q g
  | PUnw _ _ _ => 1
  | PSkip => 1
  | PLen _ => 2
  | PLen2 _ => 1
  end%Z.

Definition wts (ts : tstate) : Z := (9 * Z.of_nat (length (t_todo ts)) + wpc (t_pc ts))%Z.
Definition wsrc (e : env) (sh : shared) : Z := (10 * Z.of_N (e_len e - s_cur sh))%Z.

(** a turn of the waiting loop *)
Definition flip (p : pc) : pc :=
  match p with PChkF q b => PLdY q b | PLdY q b => PChkF q b | _ => p end.

(** the next step of a thread in state [ts] changes nothing but its own place in the waiting loop *)
Definition is_neutral (sh : shared) (ts : tstate) : bool :=
  match t_pc ts with
  | PIdle => match t_todo ts with [] => true | _ => false end
  | PChkF _ _ => negb (s_f sh)
  | PLdY _ b => negb (b =? s_y sh) && negb (b <? s_y sh)
  | _ => false
  end.

Lemma credit_nonneg q g : (0 <= credit q g <= 9)%Z.
Proof. unfold credit. destruct (q_ctx q), g; lia. Qed.
Lemma credit_pub_nonneg q g : (0 <= credit_pub q g <= 9)%Z.
Proof. unfold credit_pub. destruct (q_ctx q); [lia|]. destruct (single q); [lia|apply credit_nonneg]. Qed.
Lemma credit_pub_ge q g : (credit q g <= credit_pub q g)%Z.
Proof. unfold credit_pub, credit. destruct (q_ctx q); [lia|]. destruct (single q), g; lia. Qed.

(** finishing a pull: the thread is idle again, or its loop goes on with its next pull -- which happens
    only when the pull delivered something *)
Lemma deliver_w e ts q pr ts' o :
  deliver e ts q pr = (ts', o) ->
  t_todo ts' = t_todo ts /\
  (t_pc ts' = PIdle \/
   (t_pc ts' = PRes q /\ exists l cr b rs cnt, q_ctx q = CLoop l cr /\ pr = Ok (PRGot b rs cnt))).
Proof.
  unfold deliver. intros E. destruct (q_ctx q) as [|l cr] eqn:Ectx.
  - destruct pr as [[|b rs cnt]|k]; try (injection E as <- <-; cbn [set_pc t_todo t_pc]; auto).
    unfold deliver_top in E. destruct (q_mode q); try (injection E as <- <-; cbn [set_pc t_todo t_pc]; auto).
    destruct (e_kind e), (t_buf ts); try (injection E as <- <-; cbn [set_pc t_todo t_pc]; auto).
    destruct (write_slots (bf_slots b0) (runs_vals rs)). injection E as <- <-. cbn [t_todo t_pc]. auto.
  - destruct pr as [[|b rs cnt]|k]; try (injection E as <- <-; cbn [t_todo t_pc]; auto).
    unfold deliver_loop in E. destruct (loop_invoke l cr (total_cnt (t_acc ts)) rs cnt) as [inv [used|]];
      injection E as <- <-; cbn [t_todo t_pc]; [auto|]. split; [reflexivity|]. right. split; [reflexivity|]. eauto 10.
Qed.

Section Fair.

Variable e : env.
Hypothesis Hk : e_kind e = KIter.

(** what one step does to the stepping thread's share of the potential *)
Definition local_ok (c : cfg) (t : tid) (sh' : shared) (ts' : tstate) : Prop :=
  if is_neutral (c_sh c) (c_pool c t)
  then sh' = c_sh c /\ t_pc ts' = flip (t_pc (c_pool c t)) /\ t_todo ts' = t_todo (c_pool c t)
  else (wts ts' + wsrc e sh' < wts (c_pool c t) + wsrc e (c_sh c))%Z.

Lemma finish_local c t sh' l q pr :
  (forall ts' o, deliver e (c_pool c t) q pr = (ts', o) ->
     (9 * Z.of_nat (length (t_todo ts')) + wpc (t_pc ts') + wsrc e sh' < wts (c_pool c t) + wsrc e (c_sh c))%Z) ->
  is_neutral (c_sh c) (c_pool c t) = false ->
  exists sh2 ts2 l2 evs2, finish e c t sh' (c_pool c t) l q pr = commit c t sh2 ts2 l2 evs2 /\ local_ok c t sh2 ts2.
Proof.
  intros H Hn. unfold finish. destruct (deliver e (c_pool c t) q pr) as [ts' o] eqn:E.
  exists sh', ts', l, (ret_ev t o). split; [reflexivity|]. unfold local_ok. rewrite Hn. apply (H ts' o eq_refl).
Qed.

Lemma step_local c t :
  (step e c t = c /\ is_neutral (c_sh c) (c_pool c t) = true /\ t_pc (c_pool c t) = PIdle) \/
  exists sh' ts' l evs, step e c t = commit c t sh' ts' l evs /\ local_ok c t sh' ts'.
Proof.
  destruct (t_pc (c_pool c t)) as [|q|q b|q b|q b|q b got|q b got|q b got|q b got| |hm|hm] eqn:Hpc.
  - (* idle *)
    destruct (t_todo (c_pool c t)) as [|o rest] eqn:Htodo.
    + left. rewrite (istep_idle_nil e c t) by assumption. unfold is_neutral. rewrite Hpc, Htodo. auto.
    + right. rewrite (istep_idle_call e c t o rest) by assumption. unfold call.
      assert (Hn : is_neutral (c_sh c) (c_pool c t) = false) by (unfold is_neutral; rewrite Hpc, Htodo; reflexivity).
      destruct (call_res e (c_pool c t) o) as [p|bf r d] eqn:E.
      * eexists _, _, _, _. split; [reflexivity|]. unfold local_ok. rewrite Hn. unfold wts. cbn [t_todo t_pc]. rewrite Hpc, Htodo. cbn [length wpc].
        assert (wpc p <= 8)%Z.
        { unfold call_res in E. destruct o; try (injection E as <-; cbn [wpc]; lia).
          - destruct (e_kind e); [..|destruct (n =? 0); [discriminate|]]; injection E as <-; cbn [wpc]; lia.
          - destruct (c0 =? 0); discriminate.
          - destruct (t_buf (c_pool c t)); [|discriminate]. injection E as <-. cbn [wpc]. lia.
          - discriminate.
          - destruct (c0 =? 0); [discriminate|]. destruct (c0 =? 1); injection E as <-; cbn [wpc]; lia. }
        lia.
      * eexists _, _, _, _. split; [reflexivity|]. unfold local_ok. rewrite Hn. unfold wts. cbn [t_todo t_pc]. rewrite Hpc, Htodo. cbn [length wpc]. lia.
  - (* reservation *)
    right. rewrite (istep_res e Hk c t q Hpc). eexists _, _, _, _. split; [reflexivity|].
    unfold local_ok, is_neutral. rewrite Hpc. unfold wts. cbn [set_pc t_todo t_pc wpc with_c s_cur]. rewrite Hpc. cbn [wpc].
    unfold wsrc. cbn [with_c s_cur]. lia.
  - (* completed flag *)
    right. rewrite (istep_chkf e c t q b Hpc). destruct (s_f (c_sh c)) eqn:Ef.
    + apply finish_local; [|unfold is_neutral; rewrite Hpc, Ef; reflexivity].
      intros ts' o E. destruct (deliver_w _ _ _ _ _ _ E) as (Et & [Ep|(Ep & l0 & cr & b0 & rs & cnt & _ & Epr)]); [|discriminate].
      rewrite Et, Ep. unfold wts. rewrite Hpc. cbn [wpc]. lia.
    + eexists _, _, _, _. split; [reflexivity|]. unfold local_ok, is_neutral. rewrite Hpc, Ef. cbn [negb set_pc t_pc t_todo flip]. auto.
  - (* yielded counter *)
    right. rewrite (istep_ldy e c t q b Hpc). destruct (b =? s_y (c_sh c)) eqn:E1.
    + eexists _, _, _, _. split; [reflexivity|]. unfold local_ok, is_neutral. rewrite Hpc, E1. cbn [negb andb].
      unfold wts. cbn [set_pc t_todo t_pc]. rewrite Hpc. cbn [wpc]. lia.
    + destruct (b <? s_y (c_sh c)) eqn:E2.
      * apply finish_local; [|unfold is_neutral; rewrite Hpc, E1, E2; reflexivity].
        intros ts' o E. destruct (deliver_w _ _ _ _ _ _ E) as (Et & [Ep|(Ep & l0 & cr & b0 & rs & cnt & _ & Epr)]); [|discriminate].
        rewrite Et, Ep. unfold wts. rewrite Hpc. cbn [wpc]. lia.
      * eexists _, _, _, _. split; [reflexivity|]. unfold local_ok, is_neutral. rewrite Hpc, E1, E2. cbn [negb andb set_pc t_pc t_todo flip]. auto.
  - (* its turn: the completed flag once more *)
    right. rewrite (istep_chkt e c t q b Hpc).
    assert (Hn : is_neutral (c_sh c) (c_pool c t) = false) by (unfold is_neutral; rewrite Hpc; reflexivity).
    destruct (s_f (c_sh c)) eqn:Ef.
    + apply finish_local; [|exact Hn].
      intros ts' o E. destruct (deliver_w _ _ _ _ _ _ E) as (Et & [Ep|(Ep & l0 & cr & b0 & rs & cnt & _ & Epr)]); [|discriminate].
      rewrite Et, Ep. unfold wts. rewrite Hpc. cbn [wpc]. lia.
    + eexists _, _, _, _. split; [reflexivity|]. unfold local_ok. rewrite Hn.
      unfold wts. cbn [set_pc t_todo t_pc]. rewrite Hpc. cbn [wpc]. unfold credit. destruct (q_ctx q); lia.
  - (* one call of the wrapped iterator *)
    right.
    assert (Hn : is_neutral (c_sh c) (c_pool c t) = false) by (unfold is_neutral; rewrite Hpc; reflexivity).
    assert (Hgo : forall sh' p' l, (wpc p' + wsrc e sh' < wpc (PSrc q b got) + wsrc e (c_sh c))%Z ->
              exists sh2 ts2 l2 evs2, commit c t sh' (set_pc (c_pool c t) p') l [] = commit c t sh2 ts2 l2 evs2 /\ local_ok c t sh2 ts2).
    { intros sh' p' l H. eexists _, _, _, _. split; [reflexivity|]. unfold local_ok. rewrite Hn. unfold wts. cbn [set_pc t_todo t_pc]. rewrite Hpc. lia. }
    unfold step. rewrite Hpc.
    pose proof (credit_nonneg q got) as Hc0.
    destruct (crashes_now e (c_sh c)).
    { apply Hgo. unfold wsrc. cbn [wpc with_src s_cur]. lia. }
    destruct (src_next_cases e (c_sh c)) as [[Es Ecur]|[Es _]]; rewrite Es.
    + assert (Hs : forall calls, (wsrc e (with_src (c_sh c) (s_cur (c_sh c) + 1) calls) = wsrc e (c_sh c) - 10)%Z).
      { intros calls. unfold wsrc. cbn [with_src s_cur]. lia. }
      pose proof (credit_nonneg q (s_cur (c_sh c) :: got)) as Hc1.
      pose proof (credit_pub_nonneg q (s_cur (c_sh c) :: got)) as Hc2.
      pose proof (credit_pub_nonneg q [s_cur (c_sh c)]) as Hc3.
      destruct (q_mode q).
      * apply Hgo. rewrite Hs. cbn [wpc]. lia.
      * destruct (N.of_nat (length (s_cur (c_sh c) :: got)) =? q_n q); apply Hgo; rewrite Hs; cbn [wpc]; lia.
      * destruct (N.of_nat (length (s_cur (c_sh c) :: got)) =? q_n q); apply Hgo; rewrite Hs; cbn [wpc]; lia.
    + assert (Hs : forall calls, (wsrc e (with_src (c_sh c) (s_cur (c_sh c)) calls) = wsrc e (c_sh c))%Z) by (intros; reflexivity).
      pose proof (credit_nonneg q []) as Hc1.
      destruct (q_mode q) eqn:Em.
      * apply Hgo. rewrite Hs. cbn [wpc]. unfold credit in *. destruct (q_ctx q); lia.
      * apply Hgo. rewrite Hs. cbn [wpc]. lia.
      * apply Hgo. rewrite Hs. cbn [wpc]. lia.
  - (* raising the completed flag after the end of the source *)
    right.
    assert (Hn : is_neutral (c_sh c) (c_pool c t) = false) by (unfold is_neutral; rewrite Hpc; reflexivity).
    rewrite (istep_setf e c t q b got Hpc).
    pose proof (credit_nonneg q got) as Hc0. pose proof (credit_pub_ge q got) as Hc1. pose proof (credit_pub_nonneg q got) as Hc2.
    assert (Hs : wsrc e (with_f (c_sh c) true) = wsrc e (c_sh c)) by reflexivity.
    destruct (q_mode q) eqn:Em.
    + apply finish_local; [|exact Hn].
      intros ts' o E. destruct (deliver_w _ _ _ _ _ _ E) as (Et & [Ep|(Ep & l0 & cr & b0 & rs & cnt & _ & Epr)]); [|discriminate].
      rewrite Et, Ep, Hs. unfold wts. rewrite Hpc. cbn [wpc]. lia.
    + eexists _, _, _, _. split; [reflexivity|]. unfold local_ok. rewrite Hn, Hs. unfold wts. cbn [set_pc t_todo t_pc]. rewrite Hpc. cbn [wpc].
      unfold credit_pub, single. rewrite Em. destruct (q_ctx q); lia.
    + eexists _, _, _, _. split; [reflexivity|]. unfold local_ok. rewrite Hn, Hs. unfold wts. cbn [set_pc t_todo t_pc]. rewrite Hpc. cbn [wpc].
      unfold credit_pub, single. rewrite Em. destruct (q_ctx q); lia.
  - (* publishing *)
    right.
    assert (Hn : is_neutral (c_sh c) (c_pool c t) = false) by (unfold is_neutral; rewrite Hpc; reflexivity).
    unfold step. rewrite Hpc.
    pose proof (credit_pub_nonneg q got) as Hc2.
    assert (Hs : forall v, wsrc e (with_y (c_sh c) v) = wsrc e (c_sh c)) by reflexivity.
    assert (Hend : forall l pr, (forall b0 rs cnt, pr <> Ok (PRGot b0 rs cnt)) ->
              exists sh2 ts2 l2 evs2, finish e c t (with_y (c_sh c) (wadd (s_y (c_sh c)) (pub_incr q))) (c_pool c t) l q pr = commit c t sh2 ts2 l2 evs2 /\ local_ok c t sh2 ts2).
    { intros l pr Hpr. apply finish_local; [|exact Hn].
      intros ts' o E. destruct (deliver_w _ _ _ _ _ _ E) as (Et & [Ep|(Ep & l0 & cr & b0 & rs & cnt & _ & Epr)]); [|exfalso; eapply Hpr; exact Epr].
      rewrite Et, Ep, Hs. unfold wts. rewrite Hpc. cbn [wpc]. lia. }
    assert (Hgot : forall l pr, (9 <= credit_pub q got \/ q_ctx q = CTop)%Z ->
              exists sh2 ts2 l2 evs2, finish e c t (with_y (c_sh c) (wadd (s_y (c_sh c)) (pub_incr q))) (c_pool c t) l q pr = commit c t sh2 ts2 l2 evs2 /\ local_ok c t sh2 ts2).
    { intros l pr Hcr. apply finish_local; [|exact Hn].
      intros ts' o E. destruct (deliver_w _ _ _ _ _ _ E) as (Et & [Ep|(Ep & l0 & cr & b0 & rs & cnt & Ectx & Epr)]).
      - rewrite Et, Ep, Hs. unfold wts. rewrite Hpc. cbn [wpc]. lia.
      - rewrite Et, Ep, Hs. unfold wts. rewrite Hpc. cbn [wpc]. destruct Hcr as [Hcr|Hcr]; [lia|congruence]. }
    destruct (q_mode q) eqn:Em.
    + apply Hgot. unfold credit_pub, single. rewrite Em. destruct (q_ctx q); [right; reflexivity|left; lia].
    + destruct (s_y (c_sh c) =? b); [|apply Hend; discriminate].
      destruct (rev got) as [|v vs] eqn:Er; [apply Hend; discriminate|].
      apply Hgot. destruct got as [|g0 got']; [discriminate Er|].
      unfold credit_pub, single, credit. rewrite Em. destruct (q_ctx q); [right; reflexivity|left; lia].
    + destruct (s_y (c_sh c) =? b); [|apply Hend; discriminate].
      destruct (rev got) as [|v vs] eqn:Er; [apply Hend; discriminate|].
      apply Hgot. destruct got as [|g0 got']; [discriminate Er|].
      unfold credit_pub, single, credit. rewrite Em. destruct (q_ctx q); [right; reflexivity|left; lia].
  - (* unwinding *)
    right.
    assert (Hn : is_neutral (c_sh c) (c_pool c t) = false) by (unfold is_neutral; rewrite Hpc; reflexivity).
    unfold step. rewrite Hpc.
    assert (Hg : forall ts' evs, t_pc ts' = PIdle -> t_todo ts' = t_todo (c_pool c t) ->
               exists sh2 ts2 l2 evs2, commit c t (with_f (c_sh c) true) ts' (LAtom t SF AStore 1 0 ord_completed_store_unwind) evs = commit c t sh2 ts2 l2 evs2 /\ local_ok c t sh2 ts2).
    { intros ts' evs Hp' Ht'. eexists _, _, _, _. split; [reflexivity|]. unfold local_ok. rewrite Hn. unfold wts. rewrite Hp', Ht', Hpc. cbn [wpc].
      change (wsrc e (with_f (c_sh c) true)) with (wsrc e (c_sh c)). lia. }
    destruct (q_ctx q); [|apply Hg; reflexivity].
    destruct (q_mode q); try (apply Hg; reflexivity).
    rewrite Hk. destruct (t_buf (c_pool c t)) as [bf|]; [|apply Hg; reflexivity].
    destruct (write_slots (bf_slots bf) (rev got)). apply Hg; reflexivity.
  - (* skip_to_end *)
    right. rewrite (istep_skip e Hk c t Hpc). eexists _, _, _, _. split; [reflexivity|].
    unfold local_ok, is_neutral. rewrite Hpc. unfold wts. cbn [set_pc t_todo t_pc]. rewrite Hpc. cbn [wpc].
    change (wsrc e (with_f (c_sh c) true)) with (wsrc e (c_sh c)). lia.
  - (* length queries *)
    right. rewrite (istep_len e Hk c t hm Hpc).
    assert (Hg : forall p' l evs, (wpc p' < 2)%Z ->
               exists sh2 ts2 l2 evs2, commit c t (c_sh c) (set_pc (c_pool c t) p') l evs = commit c t sh2 ts2 l2 evs2 /\ local_ok c t sh2 ts2).
    { intros p' l evs Hp'. eexists _, _, _, _. split; [reflexivity|]. unfold local_ok, is_neutral. rewrite Hpc. unfold wts. cbn [set_pc t_todo t_pc]. rewrite Hpc. cbn [wpc]. lia. }
    destruct (s_f (c_sh c)); [apply Hg; cbn [wpc]; lia|]. destruct (e_hint e); apply Hg; cbn [wpc]; lia.
  - right. rewrite (istep_len2 e c t hm Hpc). eexists _, _, _, _. split; [reflexivity|].
    unfold local_ok, is_neutral. rewrite Hpc. unfold wts. cbn [set_pc t_todo t_pc]. rewrite Hpc. cbn [wpc]. lia.
Qed.


(** ** the potential of a configuration; no step increases it *)

Variable L : list tid.
Hypothesis NDL : NoDup L.

Definition phi (c : cfg) : Z := (sumZ (fun t => wts (c_pool c t)) L + wsrc e (c_sh c))%Z.

Lemma phi_commit c t sh' ts' l evs : In t L ->
  phi (commit c t sh' ts' l evs) = (phi c - wts (c_pool c t) + wts ts' - wsrc e (c_sh c) + wsrc e sh')%Z.
Proof.
  intros Hin. unfold phi. cbn [commit c_pool c_sh].
  rewrite (sumZ_ext (fun u => wts (upd (c_pool c) t ts' u)) (upd (fun u => wts (c_pool c u)) t (wts ts')) L).
  - rewrite sumZ_upd by assumption. lia.
  - intros u _. unfold upd. destruct (Nat.eqb u t); reflexivity.
Qed.

Lemma wpc_flip p : wpc (flip p) = wpc p.
Proof. destruct p; reflexivity. Qed.

Definition neutral_pc (sh : shared) (p : pc) (todo : list op) : bool :=
  is_neutral sh {| t_pc := p; t_todo := todo; t_buf := None; t_acc := [] |}.

Lemma is_neutral_pc sh ts : is_neutral sh ts = neutral_pc sh (t_pc ts) (t_todo ts).
Proof. reflexivity. Qed.

(** a neutral step: shared state untouched, the thread turns once in its waiting loop *)
Lemma step_neutral c t : In t L -> is_neutral (c_sh c) (c_pool c t) = true ->
  phi (step e c t) = phi c /\ c_sh (step e c t) = c_sh c /\ t_pc (c_pool (step e c t) t) = flip (t_pc (c_pool c t)) /\ t_todo (c_pool (step e c t) t) = t_todo (c_pool c t).
Proof.
  intros Hin Hn. destruct (step_local c t) as [(-> & _ & Hp)|(sh' & ts' & l & evs & -> & Hl)].
  - rewrite Hp. cbn [flip]. auto.
  - unfold local_ok in Hl. rewrite Hn in Hl. destruct Hl as (-> & Hp & Ht).
    rewrite phi_commit by assumption. cbn [commit c_sh c_pool]. rewrite upd_same.
    unfold wts. rewrite Hp, Ht, wpc_flip. repeat split; lia.
Qed.

Lemma step_decr c t : In t L -> is_neutral (c_sh c) (c_pool c t) = false -> (phi (step e c t) < phi c)%Z.
Proof.
  intros Hin Hn. destruct (step_local c t) as [(_ & Hn' & _)|(sh' & ts' & l & evs & -> & Hl)]; [congruence|].
  unfold local_ok in Hl. rewrite Hn in Hl. rewrite phi_commit by assumption. lia.
Qed.

Lemma step_phi_le c t : In t L -> (phi (step e c t) <= phi c)%Z.
Proof.
  intros Hin. destruct (is_neutral (c_sh c) (c_pool c t)) eqn:Hn.
  - destruct (step_neutral c t Hin Hn) as (-> & _). lia.
  - pose proof (step_decr c t Hin Hn). lia.
Qed.

Lemma exec_phi_le blk : forall c, Forall (fun u => In u L) blk -> (phi (exec e c blk) <= phi c)%Z.
Proof.
  induction blk as [|u r IH]; intros c Hb; [cbn; lia|].
  inversion Hb as [|? ? Hu Hr]; subst. rewrite exec_cons.
  pose proof (IH (step e c u) Hr). pose proof (step_phi_le c u Hu). lia.
Qed.

(** ** a stretch of the schedule in which nothing but turns of the waiting loops happens *)

Fixpoint all_neutral (c : cfg) (blk : list tid) : Prop :=
  match blk with
  | [] => True
  | u :: r => is_neutral (c_sh c) (c_pool c u) = true /\ all_neutral (step e c u) r
  end.

Lemma block_dichotomy blk : forall c, Forall (fun u => In u L) blk ->
  (phi (exec e c blk) < phi c)%Z \/ all_neutral c blk.
Proof.
  induction blk as [|u r IH]; intros c Hb; [right; exact Logic.I|].
  inversion Hb as [|? ? Hu Hr]; subst. rewrite exec_cons. cbn [all_neutral].
  destruct (is_neutral (c_sh c) (c_pool c u)) eqn:Hn.
  - destruct (step_neutral c u Hu Hn) as (Hphi & _).
    destruct (IH (step e c u) Hr) as [H|H]; [left; lia|right; auto].
  - left. pose proof (step_decr c u Hu Hn). pose proof (exec_phi_le r (step e c u) Hr). lia.
Qed.

Lemma all_neutral_one blk : forall c m, Forall (fun u => In u L) blk -> all_neutral c blk -> In m blk ->
  is_neutral (c_sh c) (c_pool c m) = true.
Proof.
  induction blk as [|u r IH]; intros c m Hb Ha Hin; [contradiction|].
  inversion Hb as [|? ? Hu Hr]; subst. destruct Ha as [Hn Ha].
  destruct (Nat.eq_dec u m) as [->|Hne]; [exact Hn|].
  destruct Hin as [->|Hin]; [contradiction|].
  pose proof (IH (step e c u) m Hr Ha Hin) as H.
  destruct (step_neutral c u Hu Hn) as (_ & Hsh & _).
  rewrite Hsh, (step_pool_other e c u m) in H by congruence. exact H.
Qed.

Lemma all_neutral_two blk : forall c m, Forall (fun u => In u L) blk -> all_neutral c blk ->
  (2 <= count_occ Nat.eq_dec blk m)%nat ->
  is_neutral (c_sh c) (c_pool c m) = true /\
  neutral_pc (c_sh c) (flip (t_pc (c_pool c m))) (t_todo (c_pool c m)) = true.
Proof.
  induction blk as [|u r IH]; intros c m Hb Ha Hc; [cbn in Hc; lia|].
  inversion Hb as [|? ? Hu Hr]; subst. destruct Ha as [Hn Ha]. cbn [count_occ] in Hc.
  destruct (step_neutral c u Hu Hn) as (_ & Hsh & Hp & Ht).
  destruct (Nat.eq_dec u m) as [->|Hne].
  - split; [exact Hn|].
    assert (In m r) as Hin by (apply (count_occ_In Nat.eq_dec); lia).
    pose proof (all_neutral_one r (step e c m) m Hr Ha Hin) as H.
    rewrite is_neutral_pc, Hsh, Hp, Ht in H. exact H.
  - pose proof (IH (step e c u) m Hr Ha Hc) as H.
    rewrite Hsh, (step_pool_other e c u m) in H by congruence. exact H.
Qed.

(** ** the tickets cover [yielded, reserved) as long as the completed flag is down *)

Definition covered_by (c : cfg) (p : N) : Prop :=
  exists t b n, ticket (t_pc (c_pool c t)) = Some (b, n) /\ b <= p < b + n.

Definition IInvC (c : cfg) : Prop :=
  s_f (c_sh c) = false -> forall p, s_y (c_sh c) <= p < s_c (c_sh c) -> covered_by c p.

Lemma iC_flag c t sh' ts' l evs : s_f sh' = true -> IInvC (commit c t sh' ts' l evs).
Proof. intros H Hf. cbn [commit c_sh] in Hf. congruence. Qed.

Lemma iC_keep c t sh' ts' l evs :
  IInvC c -> s_c sh' = s_c (c_sh c) -> s_y sh' = s_y (c_sh c) -> (s_f sh' = false -> s_f (c_sh c) = false) ->
  ticket (t_pc ts') = ticket (t_pc (c_pool c t)) ->
  IInvC (commit c t sh' ts' l evs).
Proof.
  intros I Ec Ey Ef Et Hf p Hp. cbn [commit c_sh] in *. rewrite Ec, Ey in Hp.
  destruct (I (Ef Hf) p Hp) as (u & b & n & Tu & Hb). exists u, b, n. split; [|exact Hb].
  cbn [commit c_pool]. destruct (Nat.eq_dec u t) as [->|Hne]; [rewrite upd_same; congruence|rewrite upd_other by assumption; exact Tu].
Qed.

Lemma iC_reserve c t sh' ts' l evs n :
  IInvC c -> ticket (t_pc (c_pool c t)) = None ->
  s_c sh' = s_c (c_sh c) + n -> s_y sh' = s_y (c_sh c) -> (s_f sh' = false -> s_f (c_sh c) = false) ->
  ticket (t_pc ts') = Some (s_c (c_sh c), n) ->
  IInvC (commit c t sh' ts' l evs).
Proof.
  intros I Tn Ec Ey Ef Et Hf p Hp. cbn [commit c_sh] in *. rewrite Ec, Ey in Hp.
  destruct (N.lt_ge_cases p (s_c (c_sh c))) as [Hlt|Hge].
  - destruct (I (Ef Hf) p ltac:(lia)) as (u & b & m & Tu & Hb). exists u, b, m. split; [|exact Hb].
    cbn [commit c_pool]. destruct (Nat.eq_dec u t) as [->|Hne]; [congruence|rewrite upd_other by assumption; exact Tu].
  - exists t, (s_c (c_sh c)), n. cbn [commit c_pool]. rewrite upd_same. split; [exact Et|lia].
Qed.

Lemma iC_publish c t sh' ts' l evs b n :
  IInvC c -> ticket (t_pc (c_pool c t)) = Some (b, n) -> b = s_y (c_sh c) ->
  s_c sh' = s_c (c_sh c) -> s_y sh' = s_y (c_sh c) + n -> (s_f sh' = false -> s_f (c_sh c) = false) ->
  IInvC (commit c t sh' ts' l evs).
Proof.
  intros I Tt Hb Ec Ey Ef Hf p Hp. cbn [commit c_sh] in *. rewrite Ec, Ey in Hp.
  destruct (I (Ef Hf) p ltac:(lia)) as (u & b' & m & Tu & Hb'). exists u, b', m. split; [|exact Hb'].
  cbn [commit c_pool]. destruct (Nat.eq_dec u t) as [->|Hne]; [|rewrite upd_other by assumption; exact Tu].
  rewrite Tt in Tu. injection Tu as <- <-. lia.
Qed.

Lemma finish_form' c t sh l q pr :
  exists ts' evs, finish e c t sh (c_pool c t) l q pr = commit c t sh ts' l evs /\ ticket (t_pc ts') = None.
Proof.
  unfold finish. destruct (deliver e (c_pool c t) q pr) as [ts' o] eqn:E. exists ts', (ret_ev t o). split; [reflexivity|].
  destruct (deliver_w _ _ _ _ _ _ E) as (_ & [->|(-> & _)]); reflexivity.
Qed.

Lemma iC_step c t : IInvA e L c -> IInvC c -> In t L -> istep_nowrap c t -> IInvC (step e c t).
Proof.
  intros A I Hin Hw. unfold istep_nowrap in Hw. pose proof (a_prot e L c A) as P.
  destruct (t_pc (c_pool c t)) as [|q|q b|q b|q b|q b got|q b got|q b got|q b got| |hm|hm] eqn:Hpc.
  - destruct (t_todo (c_pool c t)) as [|o rest] eqn:Htodo.
    + rewrite (istep_idle_nil e c t) by assumption. exact I.
    + rewrite (istep_idle_call e c t o rest) by assumption. unfold call.
      destruct (a_wf e L c A t) as (_ & Hops & Hbuf). rewrite Htodo in Hops. inversion Hops as [|? ? Hwo _]; subst.
      destruct (call_res e (c_pool c t) o) as [p|bf r d] eqn:E.
      * destruct (call_go_iter e Hk _ _ _ E Hwo Hbuf) as (Tp & _).
        apply iC_keep; auto. cbn [t_pc]. rewrite Hpc, Tp. reflexivity.
      * apply iC_keep; auto. cbn [t_pc]. rewrite Hpc. reflexivity.
  - rewrite (istep_res e Hk c t q Hpc).
    apply iC_reserve with (n := pub_incr q); [exact I|rewrite Hpc; reflexivity| |reflexivity|auto|reflexivity].
    cbn [with_c s_c]. unfold wadd. rewrite N.mod_small by exact Hw. reflexivity.
  - rewrite (istep_chkf e c t q b Hpc). destruct (s_f (c_sh c)) eqn:Ef.
    + destruct (finish_form' c t (c_sh c) (LAtom t SF ALoad 0 (bN true) (o_chkf q)) q (Ok PREnd)) as (ts' & evs & -> & _).
      apply iC_flag. exact Ef.
    + apply iC_keep; auto. cbn [set_pc t_pc]. rewrite Hpc. reflexivity.
  - rewrite (istep_ldy e c t q b Hpc).
    destruct (b =? s_y (c_sh c)); [apply iC_keep; auto; cbn [set_pc t_pc]; rewrite Hpc; reflexivity|].
    destruct (b <? s_y (c_sh c)) eqn:E2.
    + exfalso. apply N.ltb_lt in E2.
      assert (Tt : ticket (pcs_of c t) = Some (b, pub_incr q)) by (unfold pcs_of; rewrite Hpc; reflexivity).
      pose proof (p_tk _ _ _ _ _ P t _ _ Tt). lia.
    + apply iC_keep; auto. cbn [set_pc t_pc]. rewrite Hpc. reflexivity.
  - rewrite (istep_chkt e c t q b Hpc). destruct (s_f (c_sh c)) eqn:Ef.
    + destruct (finish_form' c t (c_sh c) (LAtom t SF ALoad 0 (bN true) (o_chkt q)) q (Ok PREnd)) as (ts' & evs & -> & _).
      apply iC_flag. exact Ef.
    + apply iC_keep; auto. cbn [set_pc t_pc]. rewrite Hpc. reflexivity.
  - assert (Hg : forall sh' p' l, s_c sh' = s_c (c_sh c) -> s_y sh' = s_y (c_sh c) -> s_f sh' = s_f (c_sh c) ->
               ticket p' = Some (b, pub_incr q) -> IInvC (commit c t sh' (set_pc (c_pool c t) p') l [])).
    { intros sh' p' l E1 E2 E3 E4. apply iC_keep; auto; [congruence|]. cbn [set_pc t_pc]. rewrite Hpc. exact E4. }
    unfold step. rewrite Hpc.
    destruct (crashes_now e (c_sh c)); [apply Hg; reflexivity|].
    destruct (q_mode q); destruct (src_next e (c_sh c)) as [xv|].
    all: try (apply Hg; reflexivity).
    all: try (destruct (N.of_nat (length (xv :: got)) =? q_n q); apply Hg; reflexivity).
  - rewrite (istep_setf e c t q b got Hpc). destruct (q_mode q).
    + destruct (finish_form' c t (with_f (c_sh c) true) (LAtom t SF AStore 1 0 (o_setf q)) q (Ok PREnd)) as (ts' & evs & -> & _).
      apply iC_flag. reflexivity.
    + apply iC_flag. reflexivity.
    + apply iC_flag. reflexivity.
  - assert (Tt : ticket (pcs_of c t) = Some (b, pub_incr q)) by (unfold pcs_of; rewrite Hpc; reflexivity).
    assert (Ct : in_crit (pcs_of c t) = true) by (unfold pcs_of; rewrite Hpc; reflexivity).
    pose proof (p_crit _ _ _ _ _ P t _ _ Ct Tt) as Hb.
    unfold step. rewrite Hpc.
    assert (Hf : forall pr, IInvC (finish e c t (with_y (c_sh c) (wadd (s_y (c_sh c)) (pub_incr q))) (c_pool c t)
                                          (LAtom t SY AAdd (pub_incr q) (s_y (c_sh c)) (o_pub q)) q pr)).
    { intros pr. destruct (finish_form' c t (with_y (c_sh c) (wadd (s_y (c_sh c)) (pub_incr q)))
                            (LAtom t SY AAdd (pub_incr q) (s_y (c_sh c)) (o_pub q)) q pr) as (ts' & evs & -> & _).
      apply iC_publish with (b := b) (n := pub_incr q);
        [exact I|rewrite Hpc; reflexivity|exact Hb|reflexivity| |auto].
      cbn [with_y s_y]. unfold wadd. rewrite N.mod_small by exact Hw. reflexivity. }
    destruct (q_mode q); [apply Hf| |].
    + destruct (s_y (c_sh c) =? b); [destruct (rev got)|]; apply Hf.
    + destruct (s_y (c_sh c) =? b); [destruct (rev got)|]; apply Hf.
  - unfold step. rewrite Hpc.
    destruct (q_ctx q); [|apply iC_flag; reflexivity].
    destruct (q_mode q); try (apply iC_flag; reflexivity).
    rewrite Hk. destruct (t_buf (c_pool c t)) as [bf|]; [|apply iC_flag; reflexivity].
    destruct (write_slots (bf_slots bf) (rev got)). apply iC_flag; reflexivity.
  - rewrite (istep_skip e Hk c t Hpc). apply iC_flag. reflexivity.
  - rewrite (istep_len e Hk c t hm Hpc).
    assert (Hg : forall p' l evs, ticket p' = None -> IInvC (commit c t (c_sh c) (set_pc (c_pool c t) p') l evs)).
    { intros p' l evs Tp. apply iC_keep; auto. cbn [set_pc t_pc]. rewrite Hpc, Tp. reflexivity. }
    destruct (s_f (c_sh c)); [apply Hg; reflexivity|]. destruct (e_hint e); apply Hg; reflexivity.
  - rewrite (istep_len2 e c t hm Hpc). apply iC_keep; auto. cbn [set_pc t_pc]. rewrite Hpc. reflexivity.
Qed.

Lemma iC_init progs : IInvC (init progs).
Proof. intros _ p Hp. cbn [init c_sh s_y s_c] in Hp. lia. Qed.

End Fair.

(** ** the theorem *)

Section FairMain.

Variable e : env.
Hypothesis Hk : e_kind e = KIter.
Variable L : list tid.
Hypothesis NDL : NoDup L.

Definition done (ts : tstate) : Prop := t_pc ts = PIdle /\ t_todo ts = [].
Definition all_done (c : cfg) : Prop := forall t, In t L -> done (c_pool c t).

Lemma done_dec ts : done ts \/ ~ done ts.
Proof.
  unfold done. destruct (t_pc ts); try (right; intros [H _]; discriminate).
  destruct (t_todo ts); [left; auto|right; intros [_ H]; discriminate].
Qed.

Lemma all_done_dec c : all_done c \/ exists t, In t L /\ ~ done (c_pool c t).
Proof.
  unfold all_done. clear NDL. induction L as [|a l IH].
  - left. intros t [].
  - destruct (done_dec (c_pool c a)) as [Ha|Ha].
    + destruct IH as [IH|(t & Ht & Hn)].
      * left. intros t [<-|Ht]; auto.
      * right. exists t. split; [right; exact Ht|exact Hn].
    + right. exists a. split; [left; reflexivity|exact Ha].
Qed.

Lemma wts_nonneg ts : (0 <= wts ts)%Z.
Proof.
  unfold wts. assert (0 <= wpc (t_pc ts))%Z; [|lia].
  destruct (t_pc ts) as [|q|q b|q b|q b|q b g|q b g|q b g|q b g| |hm|hm]; cbn [wpc]; try lia.
  - pose proof (credit_nonneg q g). lia.
  - pose proof (credit_nonneg q g). lia.
  - pose proof (credit_pub_nonneg q g). lia.
Qed.

Lemma phi_nonneg c : (0 <= phi e L c)%Z.
Proof.
  unfold phi. assert (0 <= sumZ (fun t => wts (c_pool c t)) L)%Z by (apply sumZ_nonneg; intros; apply wts_nonneg).
  unfold wsrc. lia.
Qed.

(** some thread's next step, or the one after it, is not a turn of the waiting loop *)
Lemma mover c t0 :
  IInvA e L c -> IInvC c -> In t0 L -> ~ done (c_pool c t0) ->
  exists m, In m L /\
    (is_neutral (c_sh c) (c_pool c m) = false \/
     neutral_pc (c_sh c) (flip (t_pc (c_pool c m))) (t_todo (c_pool c m)) = false).
Proof.
  intros A I Hin Hnd. pose proof (a_prot e L c A) as P.
  assert (Hspin : forall q b, (t_pc (c_pool c t0) = PChkF q b \/ t_pc (c_pool c t0) = PLdY q b) ->
            exists m, In m L /\ (is_neutral (c_sh c) (c_pool c m) = false \/
                                 neutral_pc (c_sh c) (flip (t_pc (c_pool c m))) (t_todo (c_pool c m)) = false)).
  { intros q b Hpc. destruct (s_f (c_sh c)) eqn:Ef.
    - exists t0. split; [exact Hin|]. unfold is_neutral, neutral_pc, is_neutral. cbn [t_pc t_todo].
      destruct Hpc as [-> | ->]; cbn [flip]; rewrite Ef; auto.
    - assert (Tt : ticket (pcs_of c t0) = Some (b, pub_incr q)) by (unfold pcs_of; destruct Hpc as [-> | ->]; reflexivity).
      pose proof (p_tk _ _ _ _ _ P t0 _ _ Tt) as (H1 & H2 & H3).
      destruct (I Ef (s_y (c_sh c)) ltac:(lia)) as (m & b' & n' & Tm & Hb').
      pose proof (p_tk _ _ _ _ _ P m b' n' Tm) as (H4 & H5 & H6).
      assert (b' = s_y (c_sh c)) by lia. subst b'.
      assert (In m L) as HmL.
      { destruct (in_dec Nat.eq_dec m L) as [Hi|Hni]; [exact Hi|exfalso].
        pose proof (a_out e L c A m Hni) as Hidle. unfold is_idle in Hidle.
        destruct (t_pc (c_pool c m)); try discriminate Hidle. discriminate Tm. }
      exists m. split; [exact HmL|].
      unfold is_neutral, neutral_pc, is_neutral. cbn [t_pc t_todo].
      destruct (t_pc (c_pool c m)) as [|q'|q' b'|q' b'|q' b'|q' b' g|q' b' g|q' b' g|q' b' g| |hm|hm]; cbn [ticket] in Tm; try discriminate Tm;
        injection Tm as -> _; cbn [flip]; rewrite ?N.eqb_refl; cbn [negb andb]; auto. }
  unfold done in Hnd.
  destruct (t_pc (c_pool c t0)) as [|q|q b|q b|q b|q b g|q b g|q b g|q b g| |hm|hm] eqn:Hpc;
    try (exists t0; split; [exact Hin|left; unfold is_neutral; rewrite Hpc; reflexivity]).
  - exists t0. split; [exact Hin|left]. unfold is_neutral. rewrite Hpc.
    destruct (t_todo (c_pool c t0)); [exfalso; apply Hnd; auto|reflexivity].
  - apply (Hspin q b). auto.
  - apply (Hspin q b). auto.
Qed.

(** a stretch of the schedule in which every thread takes two steps lowers the potential, unless every
    thread has finished its program *)
Lemma block_progress c blk :
  IInvA e L c -> IInvC c -> Forall (fun u => In u L) blk ->
  (forall t, In t L -> (2 <= count_occ Nat.eq_dec blk t)%nat) ->
  (phi e L (exec e c blk) < phi e L c)%Z \/ all_done c.
Proof.
  intros A I Hb Hfair.
  destruct (block_dichotomy e Hk L NDL blk c Hb) as [H|Hn]; [left; exact H|].
  destruct (all_done_dec c) as [Hd|(t0 & Ht0 & Hnd)]; [right; exact Hd|exfalso].
  destruct (mover c t0 A I Ht0 Hnd) as (m & Hm & Hmv).
  destruct (all_neutral_two e Hk L NDL blk c m Hb Hn (Hfair m Hm)) as (H1 & H2).
  destruct Hmv as [H|H]; congruence.
Qed.

Lemma all_done_exec blk : forall c, all_done c -> Forall (fun u => In u L) blk -> exec e c blk = c.
Proof.
  induction blk as [|u r IH]; intros c Hd Hb; [reflexivity|].
  inversion Hb as [|? ? Hu Hr]; subst. rewrite exec_cons.
  destruct (Hd u Hu) as (Hp & Ht). rewrite (istep_idle_nil e c u Hp Ht). apply IH; assumption.
Qed.

(** the invariants along any continuation *)
Lemma inv_exec blk : forall c, IInvA e L c -> IInvC c -> Forall (fun u => In u L) blk ->
  nowrap (c_labels (exec e c blk)) -> IInvA e L (exec e c blk) /\ IInvC (exec e c blk).
Proof.
  induction blk as [|u r IH]; intros c A I Hb Hw; [split; assumption|].
  inversion Hb as [|? ? Hu Hr]; subst. rewrite exec_cons in *.
  pose proof (nowrap_exec_prefix e _ _ Hw) as Hw1.
  pose proof (istep_labels e Hk c u Hw1) as Hn.
  apply IH; try assumption.
  - apply (iA_step e Hk L NDL); assumption.
  - apply (iC_step e Hk L); assumption.
Qed.

Lemma rounds blocks : forall c, IInvA e L c -> IInvC c ->
  (forall blk, In blk blocks -> Forall (fun u => In u L) blk /\ forall t, In t L -> (2 <= count_occ Nat.eq_dec blk t)%nat) ->
  nowrap (c_labels (exec e c (concat blocks))) ->
  all_done (exec e c (concat blocks)) \/
  (phi e L (exec e c (concat blocks)) <= phi e L c - Z.of_nat (length blocks))%Z.
Proof.
  induction blocks as [|blk rest IH]; intros c A I Hfair Hw.
  - right. cbn [concat length exec fold_left]. lia.
  - cbn [concat] in *. rewrite exec_app in *.
    destruct (Hfair blk (or_introl eq_refl)) as (Hb & Hf).
    assert (Hrest : forall b, In b rest -> Forall (fun u => In u L) b /\ forall t, In t L -> (2 <= count_occ Nat.eq_dec b t)%nat)
      by (intros b Hb'; apply Hfair; right; exact Hb').
    assert (Hrl : Forall (fun u => In u L) (concat rest)).
    { apply Forall_forall. intros u Hu. apply in_concat in Hu. destruct Hu as (b & Hb1 & Hb2).
      destruct (Hrest b Hb1) as (Hfb & _). rewrite Forall_forall in Hfb. apply Hfb. exact Hb2. }
    pose proof (nowrap_exec_prefix e _ _ Hw) as Hw1.
    destruct (inv_exec blk c A I Hb Hw1) as (A1 & I1).
    destruct (block_progress c blk A I Hb Hf) as [Hlt|Hd].
    + destruct (IH (exec e c blk) A1 I1 Hrest Hw) as [H|H]; [left; exact H|right].
      cbn [length]. lia.
    + left. rewrite (all_done_exec blk c Hd Hb). rewrite (all_done_exec (concat rest) c Hd Hrl). exact Hd.
Qed.

End FairMain.

From OCI.proofs Require Import ChkKnown ChkIter.

(** every call returns under every fair schedule: after [sched], let the schedule go on with any
    sequence of stretches in each of which every thread takes at least two steps; once there have been
    more stretches than the potential of the state reached by [sched], every thread has finished its
    program and no call is pending.  The wrapped iterator may panic at any call ([e_crash]), the
    closures of the loops at any invocation. *)
Theorem iter_fair_termination : forall e, iter_env e -> forall progs, wf_progs progs ->
  forall sched blocks,
  let L := nodup Nat.eq_dec (sched ++ concat blocks) in
  nowrap (c_labels (exec e (init progs) (sched ++ concat blocks))) ->
  (forall blk, In blk blocks -> forall t, In t L -> (2 <= count_occ Nat.eq_dec blk t)%nat) ->
  (phi e L (exec e (init progs) sched) < Z.of_nat (length blocks))%Z ->
  (forall t, In t L -> t_pc (c_pool (exec e (init progs) (sched ++ concat blocks)) t) = PIdle /\
                       t_todo (c_pool (exec e (init progs) (sched ++ concat blocks)) t) = []) /\
  n_pending (c_trace (exec e (init progs) (sched ++ concat blocks))) = 0%Z.
Proof.
  intros e (He & Hk) progs Hp sched blocks L Hw Hfair Hphi.
  assert (NDL : NoDup L) by apply NoDup_nodup.
  assert (HinL : forall u, In u (sched ++ concat blocks) -> In u L) by (intros u Hu; apply nodup_In; exact Hu).
  assert (Hs : Forall (fun u => In u L) sched).
  { apply Forall_forall. intros u Hu. apply HinL. apply in_or_app. left. exact Hu. }
  assert (Hbl : forall blk, In blk blocks -> Forall (fun u => In u L) blk /\ forall t, In t L -> (2 <= count_occ Nat.eq_dec blk t)%nat).
  { intros blk Hb. split; [|apply Hfair; exact Hb]. apply Forall_forall. intros u Hu. apply HinL. apply in_or_app. right.
    apply in_concat. exists blk. auto. }
  rewrite exec_app in *.
  pose proof (nowrap_exec_prefix e _ _ Hw) as Hw1.
  destruct (inv_exec e Hk L NDL sched (init progs) (iA_init e L progs Hp) (iC_init progs) Hs Hw1) as (A & I).
  assert (Hall : all_done L (exec e (exec e (init progs) sched) (concat blocks))).
  { destruct (rounds e Hk L NDL blocks _ A I Hbl Hw) as [H|H]; [exact H|exfalso].
    pose proof (phi_nonneg e L (exec e (exec e (init progs) sched) (concat blocks))) as H0.
    unfold tid in *. lia. }
  split; [exact Hall|].
  assert (Hcl : Forall (fun u => In u L) (concat blocks)).
  { apply Forall_forall. intros u Hu. apply HinL. apply in_or_app. right. exact Hu. }
  destruct (inv_exec e Hk L NDL (concat blocks) _ A I Hcl Hw) as (A2 & _).
  rewrite (a_pend e L _ A2). clear - Hall. unfold all_done, done in Hall.
  induction L as [|a l IH]; [reflexivity|]. cbn [sumZ]. rewrite IH by (intros t Ht; apply Hall; right; exact Ht).
  destruct (Hall a (or_introl eq_refl)) as (Hp & _). unfold pendZ, is_idle. rewrite Hp. reflexivity.
Qed.

(** non-vacuity: a run with a panicking wrapped iterator, a loop and a chunk pull that meets every
    hypothesis of the theorem *)
Definition label_nowrapb (l : label) : bool :=
  match l with LAtom _ _ AAdd n old _ => old + n <? W | _ => true end.
Lemma nowrapb_ok ls : forallb label_nowrapb ls = true -> nowrap ls.
Proof.
  intros H. apply Forall_forall. intros l Hl. rewrite forallb_forall in H. specialize (H l Hl).
  unfold label_nowrapb in H. unfold label_nowrap. destruct l as [| t s k n old o| |]; try exact Logic.I.
  destruct k; try exact Logic.I. apply N.ltb_lt. exact H.
Qed.

Example fair_termination_applies :
  let e := {| e_kind := KIter; e_adaptor := ANone; e_len := 4; e_start := 0; e_end := 0; e_hint := HInexact;
              e_owning := true; e_mode := Wrapping; e_crash := Some 3; e_gap := fun _ => false |} in
  let progs := fun t => match t with 0%nat => [Loop LForEach 2 None] | 1%nat => [Next NVal; Chunk 2 1] | _ => [] end in
  let sched := [0; 1; 0; 1; 1]%nat in
  let blocks := repeat [0; 1; 1; 0]%nat 80 in
  let L := nodup Nat.eq_dec (sched ++ concat blocks) in
  iter_env e /\ wf_progs progs /\
  nowrap (c_labels (exec e (init progs) (sched ++ concat blocks))) /\
  (forall blk, In blk blocks -> forall t, In t L -> (2 <= count_occ Nat.eq_dec blk t)%nat) /\
  (phi e L (exec e (init progs) sched) < Z.of_nat (length blocks))%Z /\
  has_panic (c_trace (exec e (init progs) (sched ++ concat blocks))) = true.
Proof.
  cbv zeta. split; [split; [|reflexivity]; unfold wf_env; cbn; rewrite W_val; lia|].
  split; [intros t; destruct t as [|[|t]]; repeat constructor; cbn; rewrite W_val; lia|].
  split; [apply nowrapb_ok; vm_compute; reflexivity|].
  split.
  - intros blk Hb t Ht. apply repeat_spec in Hb. subst blk.
    vm_compute in Ht. destruct Ht as [<-|[<-|[]]]; vm_compute; lia.
  - split; vm_compute; reflexivity.
Qed.
