(** The recorded history only grows: a step never rewrites or retracts an event or a label that an
    earlier step recorded.  Every theorem of the development that is stated about the trace of [exec]
    for all schedules therefore speaks about every intermediate point of every run as well: the history
    at an earlier point is a suffix (the lists grow at the head) of the history at any later point. *)
From Coq Require Import List ZArith Lia.
From OCI Require Import Machine Checkers.
From OCI.proofs Require Import Progress.
Import ListNotations.

Lemma step_history e c u :
  exists evs ls, c_trace (step e c u) = evs ++ c_trace c /\ c_labels (step e c u) = ls ++ c_labels c.
Proof.
  destruct (step_form e c u) as [->|(sh & ts & l & evs & ->)].
  - exists [], []. split; reflexivity.
  - exists evs, [l]. split; reflexivity.
Qed.

Lemma exec_history e s : forall c,
  exists evs ls, c_trace (exec e c s) = evs ++ c_trace c /\ c_labels (exec e c s) = ls ++ c_labels c.
Proof.
  induction s as [|u s IH]; intros c.
  - exists [], []. split; reflexivity.
  - rewrite exec_cons. destruct (IH (step e c u)) as (evs & ls & Ht & Hl).
    destruct (step_history e c u) as (evs0 & ls0 & Ht0 & Hl0).
    exists (evs ++ evs0), (ls ++ ls0). rewrite Ht, Hl, Ht0, Hl0, <- !app_assoc. split; reflexivity.
Qed.

(** the history after [a ++ b] extends the history after [a] *)
Theorem history_append_only : forall e c a b,
  exists evs ls,
    c_trace (exec e c (a ++ b)) = evs ++ c_trace (exec e c a) /\
    c_labels (exec e c (a ++ b)) = ls ++ c_labels (exec e c a).
Proof. intros e c a b. rewrite exec_app. apply exec_history. Qed.

(** what a thread has been answered is never taken back *)
Theorem answers_are_never_retracted : forall e c a b t,
  (rets t (c_trace (exec e c a)) <= rets t (c_trace (exec e c (a ++ b))))%nat.
Proof. intros e c a b t. rewrite exec_app. apply exec_rets_mono. Qed.
