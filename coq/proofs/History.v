(** The recorded history only grows: a step never rewrites or retracts an event or a label that an
    earlier step recorded.  Every theorem of the development that is stated about the trace of [exec]
    for all schedules therefore speaks about every intermediate point of every run as well: the history
    at an earlier point is a suffix (the lists grow at the head) of the history at any later point. *)
From Coq Require Import List ZArith Lia.
From OCI Require Import Machine Checkers.
From OCI.proofs Require Import Progress.
Import ListNotations.

Lemma step_history e c u :
  exists evs ls, c_trace (step e c u) = evs ++ c_trace c /\ c_labels (step e c u) = ls ++ c_labels c.
Proof.
  destruct (step_form e c u) as [->|(sh & ts & l & evs & ->)].
  - exists [], []. split; reflexivity.
  - exists evs, [l]. split; reflexivity.
Qed.

Lemma exec_history e s : forall c,
  exists evs ls, c_trace (exec e c s) = evs ++ c_trace c /\ c_labels (exec e c s) = ls ++ c_labels c.
Proof.
  induction s as [|u s IH]; intros c.
  - exists [], []. split; reflexivity.
  - rewrite exec_cons. destruct (IH (step e c u)) as (evs & ls & Ht & Hl).
    destruct (step_history e c u) as (evs0 & ls0 & Ht0 & Hl0).
    exists (evs ++ evs0), (ls ++ ls0). rewrite Ht, Hl, Ht0, Hl0, <- !app_assoc. split; reflexivity.
Qed.

(** the history after [a ++ b] extends the history after [a] *)
Theorem history_append_only : forall e c a b,
  exists evs ls,
    c_trace (exec e c (a ++ b)) = evs ++ c_trace (exec e c a) /\
    c_labels (exec e c (a ++ b)) = ls ++ c_labels (exec e c a).
Proof. intros e c a b. rewrite exec_app. apply exec_history. Qed.

(** what a thread has been answered is never taken back *)
Theorem answers_are_never_retracted : forall e c a b t,
  (rets t (c_trace (exec e c a)) <= rets t (c_trace (exec e c (a ++ b))))%nat.
Proof. intros e c a b t. rewrite exec_app. apply exec_rets_mono. Qed.

(** ** granularity: one step of thread [u] records at most one label -- one atomic access or one call of the
    wrapped iterator -- and that label carries [u] *)
Definition lbl_tid (l : label) : tid :=
  match l with LCall t | LAtom t _ _ _ _ _ | LSrc t _ | LSrcPanic t => t end.

Lemma step_one_label e c u :
  c_labels (step e c u) = c_labels c \/
  exists l, c_labels (step e c u) = l :: c_labels c /\ lbl_tid l = u.
Proof.
  unfold step.
  repeat first
    [ solve [left; reflexivity]
    | solve [right; eexists; split; reflexivity]
    | progress unfold finish, call
    | match goal with |- context [match ?x with _ => _ end] => destruct x end ].
Qed.

(** the label stream of a run is at most as long as the schedule, and every label of a run that starts with
    an empty stream belongs to a thread of the schedule *)
Theorem one_access_per_step : forall e s c,
  (length (c_labels (exec e c s)) <= length (c_labels c) + length s)%nat.
Proof.
  intros e s. induction s as [|u s IH]; intros c.
  - cbn [exec fold_left length]. lia.
  - rewrite exec_cons. specialize (IH (step e c u)).
    destruct (step_one_label e c u) as [Heq|(l & Heq & _)]; rewrite Heq in IH; cbn [length] in *; lia.
Qed.

Theorem labels_belong_to_scheduled_threads : forall e s c,
  Forall (fun l => In (lbl_tid l) s) (firstn (length (c_labels (exec e c s)) - length (c_labels c))
                                             (c_labels (exec e c s))).
Proof.
  intros e s. induction s as [|u s IH]; intros c.
  - cbn [exec fold_left]. rewrite Nat.sub_diag. constructor.
  - rewrite exec_cons. specialize (IH (step e c u)).
    destruct (exec_history e s (step e c u)) as (_ & ls & _ & Hl).
    destruct (step_one_label e c u) as [Heq|(l & Heq & Hu)].
    + rewrite Heq in IH. eapply Forall_impl; [|exact IH]. intros a Ha. right. exact Ha.
    + rewrite Hl, Heq in *. rewrite app_length in *. cbn [length] in *.
      replace (length ls + S (length (c_labels c)) - length (c_labels c))%nat with (length (ls ++ [l])) by (rewrite app_length; cbn; lia).
      replace (length ls + S (length (c_labels c)) - S (length (c_labels c)))%nat with (length ls) in IH by lia.
      replace (ls ++ l :: c_labels c) with ((ls ++ [l]) ++ c_labels c) by (rewrite <- app_assoc; reflexivity).
      rewrite firstn_app, Nat.sub_diag, firstn_all, firstn_O, app_nil_r.
      rewrite firstn_app, Nat.sub_diag, firstn_all, firstn_O, app_nil_r in IH.
      apply Forall_app. split.
      * eapply Forall_impl; [|exact IH]. intros a Ha. right. exact Ha.
      * constructor; [left; symmetry; exact Hu|constructor].
Qed.

(** from the initial configuration: the whole label stream *)
Corollary run_labels_belong_to_scheduled_threads : forall e progs sched,
  Forall (fun l => In (lbl_tid l) sched) (c_labels (exec e (init progs) sched)) /\
  (length (c_labels (exec e (init progs) sched)) <= length sched)%nat.
Proof.
  intros e progs sched. split.
  - pose proof (labels_belong_to_scheduled_threads e sched (init progs)) as H.
    cbn [init c_labels length] in H. rewrite Nat.sub_0_r, firstn_all in H. exact H.
  - pose proof (one_access_per_step e sched (init progs)) as H. cbn [init c_labels length] in H. lia.
Qed.

(** the premise-free statements are not vacuous: a run that records one label per step *)
Example history_example :
  let e := {| e_kind := KSlice; e_adaptor := ANone; e_len := 3; e_start := 0; e_end := 0; e_hint := HExact;
              e_owning := false; e_mode := Checked; e_crash := None; e_gap := fun _ => false |} in
  length (c_labels (exec e (init (fun _ => [Next NIdVal])) [0; 1; 0; 1]%nat)) = 4%nat.
Proof. vm_compute. reflexivity. Qed.

(** ** frame: a thread that takes no step keeps its local state (program counter, remaining program, buffer,
    accumulator), whatever the other threads do -- a thread suspended for arbitrarily long resumes exactly
    where it stopped *)
Theorem unscheduled_thread_untouched : forall e s c t,
  ~ In t s -> c_pool (exec e c s) t = c_pool c t.
Proof.
  intros e s. induction s as [|u s IH]; intros c t Hn; [reflexivity|].
  rewrite exec_cons, IH by (intros H; apply Hn; right; exact H).
  apply step_pool_other. intros ->. apply Hn. left. reflexivity.
Qed.

(** ** monotone shared state of the wrapper over an arbitrary iterator: the completed flag is never reset and
    the number of elements the wrapped iterator has yielded never decreases, step by step and hence between
    any two points of any run (no hypotheses: any kind, any configuration) *)
Open Scope N_scope.
Lemma step_flag_mono e c u : s_f (c_sh c) = true -> s_f (c_sh (step e c u)) = true.
Proof.
  intros H. unfold step.
  repeat first
    [ solve [exact H]
    | solve [cbn [commit c_sh s_f]; first [reflexivity | exact H | congruence]]
    | progress unfold finish, call
    | match goal with |- context [match ?x with _ => _ end] => destruct x eqn:? end ].
Qed.

Lemma step_cur_mono e c u : s_cur (c_sh c) <= s_cur (c_sh (step e c u)).
Proof.
  unfold step.
  repeat first
    [ solve [cbn [commit c_sh s_cur with_c with_y with_f with_src ]; lia]
    | progress unfold finish, call
    | match goal with |- context [match ?x with _ => _ end] => destruct x eqn:? end ].
Qed.

Theorem completed_flag_is_permanent : forall e c a b,
  s_f (c_sh (exec e c a)) = true -> s_f (c_sh (exec e c (a ++ b))) = true.
Proof.
  intros e c a b. rewrite exec_app. generalize (exec e c a). clear c a.
  induction b as [|u b IH]; intros c H; [exact H|].
  rewrite exec_cons. apply IH, step_flag_mono, H.
Qed.

Theorem source_cursor_never_rewinds : forall e c a b,
  s_cur (c_sh (exec e c a)) <= s_cur (c_sh (exec e c (a ++ b))).
Proof.
  intros e c a b. rewrite exec_app. generalize (exec e c a). clear c a.
  induction b as [|u b IH]; intros c; [cbn [exec fold_left]; lia|].
  rewrite exec_cons. etransitivity; [apply (step_cur_mono e c u)|apply IH].
Qed.

(** ** stuttering: scheduling threads that have finished their programs changes nothing -- shared state, local
    states, trace and label stream stay what they are (nothing happens behind the callers' backs once every
    call has returned) *)
Theorem finished_threads_do_nothing : forall e s c,
  (forall t, In t s -> t_pc (c_pool c t) = PIdle /\ t_todo (c_pool c t) = []) -> exec e c s = c.
Proof.
  intros e s. induction s as [|u s IH]; intros c H; [reflexivity|].
  rewrite exec_cons.
  assert (Hs : step e c u = c).
  { destruct (H u (or_introl eq_refl)) as [H1 H2]. unfold step. rewrite H1, H2. reflexivity. }
  rewrite Hs. apply IH. intros t Ht. apply H. right. exact Ht.
Qed.

(** ** the wrapped iterator yields at most one element per call of its next(): the count of elements it has
    yielded never exceeds the count of calls made to it, in every reachable state (no hypotheses on the
    environment, the programs or the schedule) *)
Lemma step_cur_le_calls e c u :
  s_cur (c_sh c) <= s_calls (c_sh c) -> s_cur (c_sh (step e c u)) <= s_calls (c_sh (step e c u)).
Proof.
  intros H. unfold step.
  repeat first
    [ solve [cbn [commit c_sh s_cur s_calls with_c with_y with_f with_src]; lia]
    | progress unfold finish, call
    | match goal with |- context [match ?x with _ => _ end] => destruct x eqn:? end ].
Qed.

Theorem yields_at_most_once_per_call : forall e progs sched,
  s_cur (c_sh (exec e (init progs) sched)) <= s_calls (c_sh (exec e (init progs) sched)).
Proof.
  intros e progs sched.
  assert (G : forall s c, s_cur (c_sh c) <= s_calls (c_sh c) ->
                          s_cur (c_sh (exec e c s)) <= s_calls (c_sh (exec e c s))).
  { induction s as [|u s IH]; intros c H; [exact H|]. rewrite exec_cons. apply IH, step_cur_le_calls, H. }
  apply G. cbn [init c_sh s_cur s_calls]. lia.
Qed.

(** ** the ghost counter [s_calls] of the model is the number of source labels of the label stream -- the
    stream that the correspondence check compares with the crate's, call by call *)
Definition lbl_is_src (l : label) : bool := match l with LSrc _ _ | LSrcPanic _ => true | _ => false end.
Fixpoint n_src (ls : list label) : N :=
  match ls with [] => 0 | l :: tl => (if lbl_is_src l then 1 else 0) + n_src tl end.

Lemma step_calls_count e c u :
  s_calls (c_sh c) = n_src (c_labels c) -> s_calls (c_sh (step e c u)) = n_src (c_labels (step e c u)).
Proof.
  intros H. unfold step.
  repeat first
    [ solve [exact H]
    | solve [cbn [commit c_sh c_labels s_calls with_c with_y with_f with_src n_src lbl_is_src]; lia]
    | progress unfold finish, call
    | match goal with |- context [match ?x with _ => _ end] => destruct x eqn:? end ].
Qed.

Theorem calls_are_the_source_labels : forall e progs sched,
  s_calls (c_sh (exec e (init progs) sched)) = n_src (c_labels (exec e (init progs) sched)).
Proof.
  intros e progs sched.
  assert (G : forall s c, s_calls (c_sh c) = n_src (c_labels c) ->
                          s_calls (c_sh (exec e c s)) = n_src (c_labels (exec e c s))).
  { induction s as [|u s IH]; intros c H; [exact H|]. rewrite exec_cons. apply IH, step_calls_count, H. }
  apply G. reflexivity.
Qed.

(** likewise the source cursor [s_cur] is the number of labels at which the wrapped iterator yielded an element *)
Definition lbl_yields (l : label) : bool := match l with LSrc _ (Some _) => true | _ => false end.
Fixpoint n_yield (ls : list label) : N :=
  match ls with [] => 0 | l :: tl => (if lbl_yields l then 1 else 0) + n_yield tl end.

Lemma step_cur_count e c u :
  s_cur (c_sh c) = n_yield (c_labels c) -> s_cur (c_sh (step e c u)) = n_yield (c_labels (step e c u)).
Proof.
  intros H. unfold step.
  repeat first
    [ solve [exact H]
    | solve [cbn [commit c_sh c_labels s_cur with_c with_y with_f with_src n_yield lbl_yields]; lia]
    | progress unfold finish, call
    | match goal with |- context [match ?x with _ => _ end] => destruct x eqn:? end ].
Qed.

Theorem cursor_is_the_yielding_labels : forall e progs sched,
  s_cur (c_sh (exec e (init progs) sched)) = n_yield (c_labels (exec e (init progs) sched)).
Proof.
  intros e progs sched.
  assert (G : forall s c, s_cur (c_sh c) = n_yield (c_labels c) ->
                          s_cur (c_sh (exec e c s)) = n_yield (c_labels (exec e c s))).
  { induction s as [|u s IH]; intros c H; [exact H|]. rewrite exec_cons. apply IH, step_cur_count, H. }
  apply G. reflexivity.
Qed.

(** ** the label stream of a run is a sequentially consistent history of the three atomics: replayed from the
    oldest label on against a memory that starts at (0, 0, false), every load returns the value of the latest
    write to its site, every fetch_add reports the value it found and writes the wrapped sum, and the memory at
    the end is the model's shared state.  [replay] answers [None] as soon as one label disagrees. *)
Definition mem := (N * N * bool)%type.
Definition mem_apply (l : label) (m : mem) : option mem :=
  let '(mc, my, mf) := m in
  match l with
  | LAtom _ SC ALoad _ ret _ => if ret =? mc then Some m else None
  | LAtom _ SC AStore v _ _ => Some (v, my, mf)
  | LAtom _ SC AAdd n old _ => if old =? mc then Some (wadd old n, my, mf) else None
  | LAtom _ SY ALoad _ ret _ => if ret =? my then Some m else None
  | LAtom _ SY AStore v _ _ => Some (mc, v, mf)
  | LAtom _ SY AAdd n old _ => if old =? my then Some (mc, wadd old n, mf) else None
  | LAtom _ SF ALoad _ ret _ => if ret =? bN mf then Some m else None
  | LAtom _ SF AStore v _ _ => Some (mc, my, negb (v =? 0))
  | LAtom _ SF AAdd _ _ _ => None
  | _ => Some m
  end.
Fixpoint replay (ls : list label) : option mem :=
  match ls with
  | [] => Some (0, 0, false)
  | l :: tl => match replay tl with Some m => mem_apply l m | None => None end
  end.
Definition mem_of (sh : shared) : mem := (s_c sh, s_y sh, s_f sh).

Lemma step_replay e c u :
  replay (c_labels c) = Some (mem_of (c_sh c)) ->
  replay (c_labels (step e c u)) = Some (mem_of (c_sh (step e c u))).
Proof.
  intros H. unfold step.
  assert (HH : id (replay (c_labels c) = Some (mem_of (c_sh c)))) by exact H. clear H.
  repeat first
    [ solve [exact HH]
    | solve [ unfold id in HH; cbn [commit c_sh c_labels replay]; rewrite HH;
              cbn [mem_apply mem_of s_c s_y s_f with_c with_y with_f with_src];
              repeat match goal with E : _ = _ |- _ => try rewrite E in *; clear E end;
              rewrite ?N.eqb_refl; reflexivity ]
    | progress unfold finish, call
    | match goal with |- context [match ?x with _ => _ end] => destruct x eqn:? end ].
Qed.

Theorem label_stream_is_sequentially_consistent : forall e progs sched,
  replay (c_labels (exec e (init progs) sched)) = Some (mem_of (c_sh (exec e (init progs) sched))).
Proof.
  intros e progs sched.
  assert (G : forall s c, replay (c_labels c) = Some (mem_of (c_sh c)) ->
                          replay (c_labels (exec e c s)) = Some (mem_of (c_sh (exec e c s)))).
  { induction s as [|u s IH]; intros c H; [exact H|]. rewrite exec_cons. apply IH, step_replay, H. }
  apply G. reflexivity.
Qed.

(** [replay] is not a constant: a stream whose load disagrees with the latest write is rejected *)
Example replay_rejects :
  replay [LAtom 0%nat SC ALoad 0 5 ORelaxed; LAtom 0%nat SC AAdd 1 0 ORelaxed] = None.
Proof. vm_compute. reflexivity. Qed.

(** ** containment: a step of thread [u] records only events of [u] (its call, its return -- in particular its
    panic report); the events recorded during a schedule belong to the threads of the schedule, so whatever
    happens inside the call of one thread, a panic included, is reported to that thread only *)
Definition ev_by (u : tid) (ev : event) : Prop :=
  match ev with ECall t _ | ERet t _ _ => t = u | EFinal _ _ _ => False end.

Lemma ret_ev_by u o : Forall (ev_by u) (ret_ev u o).
Proof. destruct o as [[r d]|]; cbn [ret_ev]; repeat constructor. Qed.

Lemma step_events_by e c u :
  exists evs, c_trace (step e c u) = evs ++ c_trace c /\ Forall (ev_by u) evs.
Proof.
  unfold step.
  repeat first
    [ solve [exists []; split; [reflexivity|constructor]]
    | solve [eexists; split; [cbn [commit c_trace]; reflexivity
                             | first [apply ret_ev_by | repeat constructor]]]
    | progress unfold finish, call
    | match goal with |- context [match ?x with _ => _ end] => destruct x eqn:? end ].
Qed.

Theorem events_belong_to_scheduled_threads : forall e s c,
  exists evs, c_trace (exec e c s) = evs ++ c_trace c /\
              Forall (fun ev => exists u, In u s /\ ev_by u ev) evs.
Proof.
  intros e s. induction s as [|u s IH]; intros c.
  - exists []. split; [reflexivity|constructor].
  - rewrite exec_cons. destruct (IH (step e c u)) as (evs & Ht & Hf).
    destruct (step_events_by e c u) as (evs0 & Ht0 & Hf0).
    exists (evs ++ evs0). split; [rewrite Ht, Ht0, app_assoc; reflexivity|].
    apply Forall_app. split.
    + eapply Forall_impl; [|exact Hf]. intros ev (w & Hw & Hev). exists w. split; [right; exact Hw|exact Hev].
    + eapply Forall_impl; [|exact Hf0]. intros ev Hev. exists u. split; [left; reflexivity|exact Hev].
Qed.

Corollary unscheduled_thread_gets_no_event : forall e s c t, ~ In t s ->
  exists evs, c_trace (exec e c s) = evs ++ c_trace c /\ Forall (fun ev => ~ ev_by t ev) evs.
Proof.
  intros e s c t Hn. destruct (events_belong_to_scheduled_threads e s c) as (evs & Ht & Hf).
  exists evs. split; [exact Ht|]. eapply Forall_impl; [|exact Hf].
  intros ev (u & Hu & Hev) Hb. apply Hn.
  destruct ev; cbn [ev_by] in *; try contradiction; subst; exact Hu.
Qed.
