(** * The hypothesis [nowrap] is necessary: two runs of the model on which a [fetch_add] wraps a counter
      around and a property fails, exactly as it fails on the crate (findings F14 and F16).

    Every safety theorem of the development assumes [nowrap (c_labels ...)]: no [fetch_add] of the run has
    [old + n >= 2^64].  The two runs below meet every other hypothesis of those theorems; the conclusions
    are false on them.  Everything is evaluated by [vm_compute] (the numbers are binary). *)
From Coq Require Import Lia ZArith List.
From OCI Require Import Machine Checkers.
From OCI.proofs Require Import Base Trace ArithOk InvKnown ChkKnown IterBase ChkIter ChkAll IterFair RunC16.
Import ListNotations.
Open Scope N_scope.

(** [nowrap] is decided by [forallb label_nowrapb] (the other direction is [IterFair.nowrapb_ok]) *)
Lemma nowrapb_complete ls : nowrap ls -> forallb label_nowrapb ls = true.
Proof.
  intros H. apply forallb_forall. intros l Hl. unfold nowrap in H. rewrite Forall_forall in H. specialize (H l Hl).
  unfold label_nowrap in H. unfold label_nowrapb. destruct l as [| t s k n old o| |]; try reflexivity.
  destruct k; try reflexivity. apply N.ltb_lt. exact H.
Qed.

Lemma not_nowrap ls : forallb label_nowrapb ls = false -> ~ nowrap ls.
Proof. intros H Hn. rewrite (nowrapb_complete ls Hn) in H. discriminate H. Qed.

(** ** F14: the reserved counter of the wrapper over an arbitrary iterator wraps

    Thread 0: [next(); next_chunk(usize::MAX)].  The single pull leaves the reserved counter at 1; the chunk
    pull adds [usize::MAX] to it: the counter wraps to 0 and thread 0 holds the ticket 1.  Thread 1:
    [next(); next()].  Its first pull reserves the ticket 0, which is already behind the yielded counter
    (it is told the end); its second pull reserves the ticket 1 -- the ticket thread 0 holds.  The yielded
    counter is 1: both threads find their turn, and both are inside the wrapped next() together. *)
Definition f14_env : env :=
  {| e_kind := KIter; e_adaptor := ANone; e_len := 6; e_start := 0; e_end := 6; e_hint := HNone;
     e_owning := false; e_mode := Wrapping; e_crash := None; e_gap := fun _ => false |}.

Definition f14_progs : tid -> list op := fun t =>
  match t with
  | 0%nat => [Next NVal; Chunk 18446744073709551615 1]
  | 1%nat => [Next NVal; Next NVal]
  | _ => []
  end.

(** the schedule of the corpus case f14_reserved_wrap_iter *)
Definition f14_sched : list tid :=
  [0; 0; 0; 0; 0; 0; 0; 0; 0; 1; 1; 1; 1; 1; 1; 1; 1; 1; 0; 0; 0; 0; 1; 1; 1; 1; 0; 0; 0; 0; 0; 0; 0; 0]%nat.

(** its first 21 steps: both threads are about to call the wrapped next() *)
Definition f14_sched_overlap : list tid := firstn 21 f14_sched.

Lemma f14_iter_env : iter_env f14_env.
Proof. split; [unfold wf_env; cbn; rewrite W_val; lia|reflexivity]. Qed.

Lemma f14_wf_progs : wf_progs f14_progs.
Proof. intros t. destruct t as [|[|t]]; repeat constructor; cbn; rewrite ?W_val; lia. Qed.

Lemma f14_plain_progs : plain_progs f14_progs.
Proof. intros t. destruct t as [|[|t]]; split; repeat constructor. Qed.

(** the whole run of the corpus case: the label stream and the history.  Thread 0 is handed position 1 and
    thread 1 position 2 while both are inside; thread 0 then drains the wrapped iterator and fails the
    assertion of its publication (the yielded counter has moved under it) *)
Lemma f14_run :
  let c := exec f14_env (init f14_progs) f14_sched in
  rev (c_labels c) =
    [LCall 0%nat; LAtom 0%nat SC AAdd 1 0 ord_counter_fetch_and_increment;
     LAtom 0%nat SF ALoad 0 0 ord_completed_load_get; LAtom 0%nat SY ALoad 0 0 ord_yielded_read_get;
     LAtom 0%nat SF ALoad 0 0 ord_completed_load_get_turn; LSrc 0%nat (Some 0);
     LAtom 0%nat SY AAdd 1 0 ord_yielded_publish_single;
     LCall 0%nat; LAtom 0%nat SC AAdd 18446744073709551615 1 ord_counter_fetch_and_add;
     LCall 1%nat; LAtom 1%nat SC AAdd 1 0 ord_counter_fetch_and_increment;
     LAtom 1%nat SF ALoad 0 0 ord_completed_load_get; LAtom 1%nat SY ALoad 0 1 ord_yielded_read_get;
     LCall 1%nat; LAtom 1%nat SC AAdd 1 1 ord_counter_fetch_and_increment;
     LAtom 1%nat SF ALoad 0 0 ord_completed_load_get; LAtom 1%nat SY ALoad 0 1 ord_yielded_read_get;
     LAtom 1%nat SF ALoad 0 0 ord_completed_load_get_turn;
     LAtom 0%nat SF ALoad 0 0 ord_completed_load_progress; LAtom 0%nat SY ALoad 0 1 ord_yielded_read_progress;
     LAtom 0%nat SF ALoad 0 0 ord_completed_load_progress_turn;
     LSrc 0%nat (Some 1); LSrc 1%nat (Some 2);
     LAtom 1%nat SY AAdd 1 1 ord_yielded_publish_single;
     LSrc 0%nat (Some 3); LSrc 0%nat (Some 4); LSrc 0%nat (Some 5); LSrc 0%nat None;
     LAtom 0%nat SF AStore 1 0 ord_completed_store_complete;
     LAtom 0%nat SY AAdd 18446744073709551615 2 ord_yielded_publish_chunk] /\
  rev (c_trace c) =
    [ECall 0%nat (Next NVal); ERet 0%nat (ROne (mk_run None 0 1)) [];
     ECall 0%nat (Chunk 18446744073709551615 1);
     ECall 1%nat (Next NVal); ERet 1%nat RNone [];
     ECall 1%nat (Next NVal); ERet 1%nat (ROne (mk_run None 2 1)) [];
     ERet 0%nat (RPanic PkAssert []) []] /\
  chk_C07_mutex (c_labels c) = false.
Proof. cbv zeta. split; [vm_compute; reflexivity|]. split; vm_compute; reflexivity. Qed.

(** the state form, after the first 21 steps: the fetch_add of thread 0's chunk pull wrapped the reserved
    counter ([old + n = 1 + usize::MAX = 2^64]); both threads hold the ticket 1 and are about to call the
    wrapped next(); the scan of the label stream objects *)
Lemma f14_overlap :
  let c := exec f14_env (init f14_progs) f14_sched_overlap in
  In (LAtom 0%nat SC AAdd 18446744073709551615 1 ord_counter_fetch_and_add) (c_labels c) /\
  ~ nowrap (c_labels c) /\
  t_pc (c_pool c 0%nat) = PSrc {| q_n := 18446744073709551615; q_mode := MChunk 1; q_ctx := CTop |} 1 [] /\
  t_pc (c_pool c 1%nat) = PSrc {| q_n := 1; q_mode := MSingle NVal; q_ctx := CTop |} 1 [] /\
  s_c (c_sh c) = 2 /\ s_y (c_sh c) = 1 /\
  chk_C07_mutex (c_labels c) = false.
Proof.
  cbv zeta. split; [vm_compute; tauto|]. split; [apply not_nowrap; vm_compute; reflexivity|].
  split; [vm_compute; reflexivity|]. split; [vm_compute; reflexivity|]. split; [vm_compute; reflexivity|].
  split; vm_compute; reflexivity.
Qed.

(** C07 without [nowrap]: every other hypothesis of [c07_mutual_exclusion] / [c07_label_stream_scan] holds,
    the scan of the label stream answers [false], and two distinct threads are inside their critical
    sections in the same configuration *)
Theorem f14_mutual_exclusion_fails_when_the_reserved_counter_wraps :
  exists e progs sched, iter_env e /\ fused e /\ e_crash e = None /\ wf_progs progs /\ plain_progs progs /\
    ~ nowrap (c_labels (exec e (init progs) sched)) /\
    chk_C07_mutex (c_labels (exec e (init progs) sched)) = false /\
    exists t u, t <> u /\
      in_crit (t_pc (c_pool (exec e (init progs) sched) t)) = true /\
      in_crit (t_pc (c_pool (exec e (init progs) sched) u)) = true.
Proof.
  exists f14_env, f14_progs, f14_sched_overlap.
  destruct f14_overlap as (_ & Hw & H0 & H1 & _ & _ & Hm).
  split; [exact f14_iter_env|]. split; [intros k; reflexivity|]. split; [reflexivity|].
  split; [exact f14_wf_progs|]. split; [exact f14_plain_progs|]. split; [exact Hw|]. split; [exact Hm|].
  exists 0%nat, 1%nat. split; [discriminate|]. rewrite H0, H1. split; reflexivity.
Qed.

(** ** F16: the position counter of a known-size kind wraps

    A source of [usize::MAX] elements (for a range: [0..usize::MAX]); one thread:
    [next_chunk(usize::MAX); next(); next()].  The chunk pull moves the position counter to [usize::MAX]
    (no wrap: [0 + usize::MAX < 2^64]) and delivers the whole source.  The first [next()] reads
    [usize::MAX], reports the end -- and its fetch_and_increment wraps the counter to 0.  The second
    [next()] reads 0 and delivers position 0 a second time, after the end was reported. *)
Definition f16_env (k : kind) : env :=
  {| e_kind := k; e_adaptor := ANone; e_len := 18446744073709551615; e_start := 0; e_end := 18446744073709551615;
     e_hint := HExact; e_owning := match k with KVec | KArray => true | _ => false end;
     e_mode := Wrapping; e_crash := None; e_gap := fun _ => false |}.

Definition f16_progs : tid -> list op := fun t =>
  match t with
  | 0%nat => [Chunk 18446744073709551615 1; Next NIdVal; Next NIdVal]
  | _ => []
  end.

Definition f16_sched : list tid := repeat 0%nat 6.

Lemma f16_known_env k : is_known k = true -> known_env (f16_env k).
Proof.
  intros Hk. split; [|split; [exact Hk|reflexivity]].
  unfold wf_env. destruct k; try discriminate Hk; cbn; rewrite ?W_val; lia.
Qed.

Lemma f16_wf_progs : wf_progs f16_progs.
Proof. intros t. destruct t as [|t]; repeat constructor; cbn; rewrite ?W_val; lia. Qed.

Lemma f16_plain_progs : plain_progs f16_progs.
Proof. intros t. destruct t as [|t]; split; repeat constructor. Qed.

(** the run, for each of the four known-size kinds *)
Lemma f16_run k : is_known k = true ->
  let e := f16_env k in
  let c := exec e (init f16_progs) f16_sched in
  rev (c_labels c) =
    [LCall 0%nat; LAtom 0%nat SC AAdd 18446744073709551615 0 ord_counter_fetch_and_add;
     LCall 0%nat; LAtom 0%nat SC AAdd 1 18446744073709551615 ord_counter_fetch_and_increment;
     LCall 0%nat; LAtom 0%nat SC AAdd 1 0 ord_counter_fetch_and_increment] /\
  rev (c_trace c) =
    [ECall 0%nat (Chunk 18446744073709551615 1);
     ERet 0%nat (RChunk 0 [mk_run (Some 0) 0 1] 18446744073709551615 1 18446744073709551614)
          (if e_owning e then [{| d_lo := 1; d_cnt := 18446744073709551614 |}] else []);
     ECall 0%nat (Next NIdVal); ERet 0%nat RNone [];
     ECall 0%nat (Next NIdVal); ERet 0%nat (ROne (mk_run (Some 0) 0 1)) []] /\
  ~ nowrap (c_labels c) /\
  chk_C01_nodup e (c_trace c) = false /\
  check_prop 4 e (c_trace c) (c_labels c) = false /\
  check_prop 5 e (c_trace c) (c_labels c) = false /\
  check_prop 16 e (c_trace c) (c_labels c) = false /\
  (* nothing panics: what fails in [check_prop 16] is the delivery of a position twice *)
  chk_C16 e (c_trace c) = true.
Proof.
  intros Hk. cbv zeta.
  destruct k; try discriminate Hk;
    (split; [vm_compute; reflexivity|]); (split; [vm_compute; reflexivity|]);
    (split; [apply not_nowrap; vm_compute; reflexivity|]);
    (split; [vm_compute; reflexivity|]); (split; [vm_compute; reflexivity|]);
    (split; [vm_compute; reflexivity|]); split; vm_compute; reflexivity.
Qed.

(** C16 (and C01, C05) without [nowrap]: every other hypothesis of [c16_runs_known_kinds] holds; position
    0 is delivered twice ([chk_C01_nodup], a conjunct of [check_prop 16]) and after the end was reported
    ([check_prop 5]) *)
Theorem f16_exactly_once_and_end_permanence_fail_when_the_position_counter_wraps :
  forall k, is_known k = true ->
  exists e progs sched, e_kind e = k /\ known_env e /\ wf_progs progs /\ plain_progs progs /\
    ~ nowrap (c_labels (exec e (init progs) sched)) /\
    chk_C01_nodup e (c_trace (exec e (init progs) sched)) = false /\
    check_prop 5 e (c_trace (exec e (init progs) sched)) (c_labels (exec e (init progs) sched)) = false /\
    check_prop 16 e (c_trace (exec e (init progs) sched)) (c_labels (exec e (init progs) sched)) = false.
Proof.
  intros k Hk. exists (f16_env k), f16_progs, f16_sched.
  destruct (f16_run k Hk) as (_ & _ & Hw & H1 & _ & H5 & H16 & _).
  split; [reflexivity|]. split; [exact (f16_known_env k Hk)|]. split; [exact f16_wf_progs|].
  split; [exact f16_plain_progs|]. split; [exact Hw|]. split; [exact H1|]. split; [exact H5|exact H16].
Qed.

Theorem f16_refuted :
  exists e progs sched, known_env e /\ wf_progs progs /\ plain_progs progs /\
    ~ nowrap (c_labels (exec e (init progs) sched)) /\
    chk_C01_nodup e (c_trace (exec e (init progs) sched)) = false /\
    check_prop 5 e (c_trace (exec e (init progs) sched)) (c_labels (exec e (init progs) sched)) = false /\
    check_prop 16 e (c_trace (exec e (init progs) sched)) (c_labels (exec e (init progs) sched)) = false.
Proof.
  destruct (f16_exactly_once_and_end_permanence_fail_when_the_position_counter_wraps KRange eq_refl)
    as (e & progs & sched & _ & H). exists e, progs, sched. exact H.
Qed.
