(** * C09: progress.

    (a) Known-size kinds (slice, vector, array, range and their adaptors) are wait-free: a thread inside
    a call returns after at most [budget] of ITS OWN steps, whatever the other threads do or do not do
    in between -- in particular a thread frozen anywhere, for ever, delays nobody.  The budget is 1 for
    every operation but the loops (for_each / enumerate_for_each / fold), whose budget is one pull per
    element still to be handed out plus the pull that sees the end. *)
From Coq Require Import Lia ZArith Permutation.
From OCI Require Import Machine Checkers.
From OCI.proofs Require Import Base Trace ArithOk InvKnown.
Open Scope N_scope.

(** number of calls of thread [t] that have returned *)
Fixpoint rets (t : tid) (tr : list event) : nat :=
  match tr with
  | [] => 0
  | ERet u _ _ :: tl => (if Nat.eqb u t then 1 else 0) + rets t tl
  | _ :: tl => rets t tl
  end.

Lemma rets_app t a b : rets t (a ++ b) = (rets t a + rets t b)%nat.
Proof. induction a as [|ev a IH]; cbn [app rets]; [reflexivity|]. destruct ev; rewrite IH; lia. Qed.

(** ** every step is the identity or one commit by the stepping thread *)
Lemma step_form e c u : step e c u = c \/ exists sh ts l evs, step e c u = commit c u sh ts l evs.
Proof.
  unfold step.
  repeat first
    [ solve [left; reflexivity]
    | solve [right; eexists _, _, _, _; reflexivity]
    | progress unfold finish, call
    | match goal with |- context [match ?x with _ => _ end] => destruct x end ].
Qed.

Lemma step_pool_other e c u t : t <> u -> c_pool (step e c u) t = c_pool c t.
Proof.
  intros Hne. destruct (step_form e c u) as [->|(sh & ts & l & evs & ->)]; [reflexivity|].
  cbn [commit c_pool]. apply upd_other. exact Hne.
Qed.

Lemma step_rets_mono e c u t : (rets t (c_trace c) <= rets t (c_trace (step e c u)))%nat.
Proof.
  destruct (step_form e c u) as [->|(sh & ts & l & evs & ->)]; [lia|].
  cbn [commit c_trace]. rewrite rets_app. lia.
Qed.

Lemma exec_rets_mono e c s t : (rets t (c_trace c) <= rets t (c_trace (exec e c s)))%nat.
Proof.
  revert c. induction s as [|u s IH]; intros c; cbn [exec fold_left]; [lia|].
  etransitivity; [apply (step_rets_mono e c u t)|apply IH].
Qed.

Lemma exec_cons e c u s : exec e c (u :: s) = exec e (step e c u) s.
Proof. reflexivity. Qed.

Section KnownProgress.

Variable e : env.
Hypothesis He : wf_env e.
Hypothesis Hk : is_known (e_kind e) = true.
Hypothesis Hown : e_owning e = match e_kind e with KVec | KArray => true | _ => false end.
Variable L : list tid.
Hypothesis NDL : NoDup L.

(** own steps a thread needs at most before its current call returns *)
Definition budget (c : cfg) (t : tid) : nat :=
  match t_pc (c_pool c t) with
  | PIdle => 0
  | PRes q => match q_ctx q with CTop => 1 | CLoop _ _ => 1 + N.to_nat (e_len e - s_c (c_sh c)) end
  | _ => 1
  end.

Lemma nowrap_exec_prefix c s : nowrap (c_labels (exec e c s)) -> nowrap (c_labels c).
Proof.
  revert c. induction s as [|u s IH]; intros c H; [exact H|].
  rewrite exec_cons in H. apply IH in H. eapply step_labels_suffix. exact H.
Qed.

(** a step of the thread itself: its call returns, or its budget shrinks *)
Lemma own_step c t :
  KInv e L c -> step_nowrap e c t -> t_pc (c_pool c t) <> PIdle ->
  rets t (c_trace (step e c t)) = S (rets t (c_trace c)) \/
  (t_pc (c_pool (step e c t) t) <> PIdle /\ (budget (step e c t) t < budget c t)%nat).
Proof.
  intros I Hw Hpc. unfold step_nowrap in Hw.
  destruct (k_wf e L c I t) as (Hok & _ & _). unfold kpc_ok in Hok.
  destruct (t_pc (c_pool c t)) as [|q|q b|q b|q b|q b got|q b got|q b got|q b got| |hm|hm] eqn:Epc; try contradiction.
  - (* a pull *)
    destruct Hok as (Hq & _).
    rewrite (step_res e Hk Hown c t q Epc). unfold finish.
    rewrite (k_pull_spec e q (s_c (c_sh c)) He Hq).
    unfold deliver, pull_spec, got.
    destruct (q_ctx q) as [|l crash] eqn:Ectx.
    + left. destruct ((s_c (c_sh c) <? e_len e) && (0 <? q_n q)).
      * destruct (deliver_top e (c_pool c t) q _ _ _) as [ts' rd]. cbn [commit c_trace ret_ev rets]. destruct rd. cbn [app rets]. rewrite Nat.eqb_refl. reflexivity.
      * cbn [commit c_trace ret_ev app rets]. rewrite Nat.eqb_refl. reflexivity.
    + destruct ((s_c (c_sh c) <? e_len e) && (0 <? q_n q)) eqn:Eg.
      * apply andb_true_iff in Eg. destruct Eg as [E1 E2]. apply N.ltb_lt in E1. apply N.ltb_lt in E2.
        unfold deliver_loop.
        destruct (loop_invoke l crash _ _ _) as [inv [used|]].
        -- left. cbn [commit c_trace ret_ev app rets]. rewrite Nat.eqb_refl. reflexivity.
        -- right. cbn [commit c_pool c_sh ret_ev]. unfold budget. cbn [commit c_pool c_sh]. rewrite upd_same. cbn [t_pc]. rewrite Epc, Ectx.
           split; [discriminate|]. cbn [with_c s_c].
           assert (1 <= k_incr e q) as Hi.
           { unfold k_incr. destruct (q_mode q); lia. }
           unfold wadd. rewrite N.mod_small by exact Hw. lia.
      * left. cbn [commit c_trace ret_ev app rets]. rewrite Nat.eqb_refl. reflexivity.
  - (* skip_to_end *)
    left. unfold step. rewrite Epc.
    destruct (e_kind e); try discriminate Hk; cbn [commit c_trace app rets]; rewrite ?Nat.eqb_refl; try reflexivity;
      destruct (k_fetch_n e (e_len e) (s_c (c_sh c))) as [[|]|]; cbn [commit c_trace app rets]; rewrite Nat.eqb_refl; reflexivity.
  - (* length queries *)
    left. unfold step. rewrite Epc.
    destruct (e_kind e); try discriminate Hk; cbn [commit c_trace app rets]; rewrite ?Nat.eqb_refl; reflexivity.
Qed.

(** a step of another thread: the budget does not grow *)
Lemma other_step c t u :
  KInv e L c -> step_nowrap e c u -> t <> u ->
  (budget (step e c u) t <= budget c t)%nat.
Proof.
  intros I Hw Hne. unfold budget. rewrite (step_pool_other e c u t Hne).
  destruct (t_pc (c_pool c t)) as [|q| | | | | | | | | |]; try lia.
  destruct (q_ctx q); [lia|].
  assert (e_len e - s_c (c_sh (step e c u)) <= e_len e - s_c (c_sh c)) as Hs; [|lia].
  unfold step_nowrap in Hw.
  destruct (k_wf e L c I u) as (Hok & _ & _). unfold kpc_ok in Hok.
  destruct (t_pc (c_pool c u)) as [|q'|q' b|q' b|q' b|q' b got|q' b got|q' b got|q' b got| |hm|hm] eqn:Epc; try contradiction.
  - destruct (t_todo (c_pool c u)) as [|o rest] eqn:Et.
    + rewrite (step_idle_nil e c u) by assumption. lia.
    + rewrite (step_idle_call e c u o rest) by assumption. unfold call. destruct (call_res e (c_pool c u) o); cbn [commit c_sh]; lia.
  - rewrite (step_res e Hk Hown c u q' Epc). unfold finish. destruct (deliver e _ _ _) as [ts' o]. cbn [commit c_sh with_c s_c].
    unfold wadd. rewrite N.mod_small by exact Hw. lia.
  - unfold step. rewrite Epc.
    destruct (e_kind e); try discriminate Hk; cbn [commit c_sh with_c s_c]; try lia;
      destruct (k_fetch_n e (e_len e) (s_c (c_sh c))) as [[|]|]; cbn [commit c_sh with_c s_c]; unfold wadd;
      rewrite N.min_id, N.mod_small by exact Hw; lia.
  - unfold step. rewrite Epc. destruct (e_kind e); try discriminate Hk; cbn [commit c_sh]; lia.
Qed.

Lemma budget_pos c t : KInv e L c -> t_pc (c_pool c t) <> PIdle -> (1 <= budget c t)%nat.
Proof.
  intros I Hpc. unfold budget. destruct (t_pc (c_pool c t)) as [|q| | | | | | | | | |]; try lia; [contradiction|].
  destruct (q_ctx q); lia.
Qed.

(** wait-freedom: [t] is inside a call; in any continuation in which [t] takes at least [budget] steps
    -- the other threads may take any steps or none -- that call has returned *)
Theorem wait_free : forall s c t,
  KInv e L c -> Forall (fun u => In u L) s ->
  nowrap (c_labels (exec e c s)) ->
  t_pc (c_pool c t) <> PIdle ->
  (budget c t <= count_occ Nat.eq_dec s t)%nat ->
  (rets t (c_trace c) < rets t (c_trace (exec e c s)))%nat.
Proof.
  induction s as [|u s IH]; intros c t I Hs Hnw Hpc Hb.
  - cbn [count_occ] in Hb. pose proof (budget_pos c t I Hpc). lia.
  - rewrite exec_cons in *. inversion Hs as [|? ? Hu Hs']; subst.
    pose proof (nowrap_exec_prefix _ _ Hnw) as Hnw1.
    destruct (step_labels e Hk Hown L c u I Hnw1) as (_ & Hw).
    pose proof (kinv_step e He Hk Hown L NDL c u I Hu Hw) as I'.
    cbn [count_occ] in Hb. destruct (Nat.eq_dec u t) as [->|Hne].
    + destruct (own_step c t I Hw Hpc) as [Hr|(Hpc' & Hlt)].
      * pose proof (exec_rets_mono e (step e c t) s t). lia.
      * pose proof (step_rets_mono e c t t).
        assert (rets t (c_trace (step e c t)) < rets t (c_trace (exec e (step e c t) s)))%nat; [|lia].
        apply IH; try assumption. lia.
    + pose proof (step_rets_mono e c u t).
      assert (rets t (c_trace (step e c u)) < rets t (c_trace (exec e (step e c u) s)))%nat; [|lia].
      apply IH; try assumption.
      * rewrite (step_pool_other e c u t) by congruence. exact Hpc.
      * pose proof (other_step c t u I Hw ltac:(congruence)). lia.
Qed.

End KnownProgress.

(** ** wait-freedom in every reachable state of a known-size kind *)
From OCI.proofs Require Import ChkKnown.

Lemma exec_app e c a b : exec e c (a ++ b) = exec e (exec e c a) b.
Proof. unfold exec. apply fold_left_app. Qed.

Theorem known_wait_free : forall e, known_env e -> forall progs, wf_progs progs ->
  forall sched s t,
  nowrap (c_labels (exec e (init progs) (sched ++ s))) ->
  t_pc (c_pool (exec e (init progs) sched) t) <> PIdle ->
  (budget e (exec e (init progs) sched) t <= count_occ Nat.eq_dec s t)%nat ->
  (rets t (c_trace (exec e (init progs) sched)) < rets t (c_trace (exec e (init progs) (sched ++ s))))%nat.
Proof.
  intros e (He & Hk & Hown) progs Hp sched s t Hnw Hpc Hb.
  set (L := nodup Nat.eq_dec (sched ++ s)).
  assert (NDL : NoDup L) by apply NoDup_nodup.
  assert (HinL : forall u, In u (sched ++ s) -> In u L) by (intros u Hu; apply nodup_In; exact Hu).
  rewrite exec_app in *.
  apply (wait_free e He Hk Hown L NDL); try assumption.
  - apply kinv_exec; try assumption.
    + apply Forall_forall. intros u Hu. apply HinL. apply in_or_app. left. exact Hu.
    + eapply nowrap_exec_prefix. exact Hnw.
  - apply Forall_forall. intros u Hu. apply HinL. apply in_or_app. right. exact Hu.
Qed.

(** non-vacuity: a state in which a loop is running and other threads are inside pulls *)
Example wait_free_applies :
  let e := {| e_kind := KVec; e_adaptor := ANone; e_len := 5; e_start := 0; e_end := 0; e_hint := HExact;
              e_owning := true; e_mode := Wrapping; e_crash := None; e_gap := fun _ => false |} in
  let progs := fun t => match t with 0%nat => [Loop LForEach 2 None] | 1%nat => [Next NVal; Chunk 2 1] | _ => [] end in
  let c := exec e (init progs) [0; 1; 0; 1]%nat in
  t_pc (c_pool c 0%nat) <> PIdle /\ budget e c 0%nat = 3%nat /\ t_pc (c_pool c 1%nat) = PIdle.
Proof. vm_compute. repeat split; discriminate. Qed.
