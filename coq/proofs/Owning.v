(** * Owning and borrowing wrapped iterators run alike: whether the elements have a destructor changes
      nothing in a run except the lists of destroyed elements its events report.  The positions moved
      out to the callers are the same, which transfers the ownership ledger (no position is moved out
      twice) from the owning wrapper to the wrapper over an iterator of references. *)
From Coq Require Import Lia ZArith List.
From OCI Require Import Machine Checkers.
From OCI.proofs Require Import Base Trace ArithOk InvKnown ChkKnown Progress IterBase IterProt InvIterA ChkIter Borrowed Fold IterLedger.
Import ListNotations.
Open Scope N_scope.

Definition with_owning (e : env) (o : bool) : env :=
  {| e_kind := e_kind e; e_adaptor := e_adaptor e; e_len := e_len e; e_start := e_start e; e_end := e_end e;
     e_hint := e_hint e; e_owning := o; e_mode := e_mode e; e_crash := e_crash e; e_gap := e_gap e |}.

(** an event without its list of destroyed elements *)
Definition strip_ev (ev : event) : event :=
  match ev with ERet t r _ => ERet t r [] | EFinal f r _ => EFinal f r [] | x => x end.

(** the same configuration up to the lists of destroyed elements *)
Definition same_mod (c c' : cfg) : Prop :=
  c_sh c = c_sh c' /\ c_pool c = c_pool c' /\ c_labels c = c_labels c' /\ map strip_ev (c_trace c) = map strip_ev (c_trace c').

Lemma same_commit c c' t sh ts l evs evs' :
  same_mod c c' -> map strip_ev evs = map strip_ev evs' ->
  same_mod (commit c t sh ts l evs) (commit c' t sh ts l evs').
Proof.
  intros (H1 & H2 & H3 & H4) He. unfold same_mod, commit. cbn [c_sh c_pool c_labels c_trace].
  rewrite H2, H3, !map_app, H4, He. repeat split; reflexivity.
Qed.

Section Own.

Variable e : env.
Variable o : bool.
Let e' := with_owning e o.

Lemma deliver_owning ts q pr :
  fst (deliver e' ts q pr) = fst (deliver e ts q pr) /\
  option_map fst (snd (deliver e' ts q pr)) = option_map fst (snd (deliver e ts q pr)).
Proof.
  unfold deliver. destruct (q_ctx q) as [|lk cr].
  - destruct pr as [[|b rs cnt]|k]; try (split; reflexivity).
    unfold deliver_top. destruct (q_mode q); try (split; reflexivity).
    change (e_kind e') with (e_kind e). destruct (e_kind e), (t_buf ts); try (split; reflexivity).
    destruct (write_slots (bf_slots b0) (runs_vals rs)). split; reflexivity.
  - destruct pr as [[|b rs cnt]|k]; try (split; reflexivity).
    unfold deliver_loop. destruct (loop_invoke lk cr (total_cnt (t_acc ts)) rs cnt) as [inv [used|]]; split; reflexivity.
Qed.

Lemma same_finish c c' t sh ts l q pr :
  same_mod c c' -> same_mod (finish e c t sh ts l q pr) (finish e' c' t sh ts l q pr).
Proof.
  intros H. unfold finish. destruct (deliver_owning ts q pr) as [E1 E2].
  destruct (deliver e' ts q pr) as [ts1 o1]. destruct (deliver e ts q pr) as [ts2 o2]. cbn [fst snd] in E1, E2. subst ts1.
  apply same_commit; [exact H|].
  destruct o1 as [[r1 d1]|], o2 as [[r2 d2]|]; cbn [option_map fst] in E2; try discriminate; [|reflexivity].
  injection E2 as <-. reflexivity.
Qed.

Lemma call_res_owning ts op0 :
  match call_res e ts op0, call_res e' ts op0 with
  | CGo p, CGo p' => p = p'
  | CRet b r d, CRet b' r' d' => b = b' /\ r = r'
  | _, _ => False
  end.
Proof.
  unfold call_res. change (e_kind e') with (e_kind e). change (empty_slots e') with (empty_slots e).
  destruct op0; try reflexivity; try (split; reflexivity).
  - destruct (e_kind e); try reflexivity. destruct (n =? 0); [split; reflexivity|reflexivity].
  - destruct (c =? 0); split; reflexivity.
  - destruct (t_buf ts); [reflexivity|split; reflexivity].
  - destruct (c =? 0); [split; reflexivity|]. destruct (c =? 1); reflexivity.
Qed.

Lemma step_owning c c' t : same_mod c c' -> same_mod (step e c t) (step e' c' t).
Proof.
  intros H. pose proof H as (H1 & H2 & H3 & H4). unfold step. rewrite <- H1, <- H2.
  change (e_kind e') with (e_kind e).
  change (e_len e') with (e_len e).
  change (e_hint e') with (e_hint e).
  change (k_fetch_n e') with (k_fetch_n e).
  change (k_pull e') with (k_pull e).
  change (k_incr e') with (k_incr e).
  change (k_len e') with (k_len e).
  change (crashes_now e') with (crashes_now e).
  change (src_next e') with (src_next e).
  destruct (t_pc (c_pool c t)) eqn:Hpc.
  - destruct (t_todo (c_pool c t)) as [|o0 l]; [exact H|]. unfold call.
    pose proof (call_res_owning (c_pool c t) o0) as Hc.
    destruct (call_res e (c_pool c t) o0), (call_res e' (c_pool c t) o0); try contradiction.
    + subst. rewrite <- H1. apply same_commit; [assumption|reflexivity].
    + destruct Hc as [-> ->]. rewrite <- H1. apply same_commit; [assumption|reflexivity].
  - repeat first [ assumption | apply same_finish | solve [apply same_commit; [assumption|reflexivity]]
                 | match goal with |- same_mod (match ?x with _ => _ end) _ => destruct x eqn:? end
                 | match goal with |- same_mod (if ?x then _ else _) _ => destruct x eqn:? end ].
  - repeat first [ assumption | apply same_finish | solve [apply same_commit; [assumption|reflexivity]]
                 | match goal with |- same_mod (match ?x with _ => _ end) _ => destruct x eqn:? end
                 | match goal with |- same_mod (if ?x then _ else _) _ => destruct x eqn:? end ].
  - repeat first [ assumption | apply same_finish | solve [apply same_commit; [assumption|reflexivity]]
                 | match goal with |- same_mod (match ?x with _ => _ end) _ => destruct x eqn:? end
                 | match goal with |- same_mod (if ?x then _ else _) _ => destruct x eqn:? end ].
  - repeat first [ assumption | apply same_finish | solve [apply same_commit; [assumption|reflexivity]]
                 | match goal with |- same_mod (match ?x with _ => _ end) _ => destruct x eqn:? end
                 | match goal with |- same_mod (if ?x then _ else _) _ => destruct x eqn:? end ].
  - repeat first [ assumption | apply same_finish | solve [apply same_commit; [assumption|reflexivity]]
                 | match goal with |- same_mod (match ?x with _ => _ end) _ => destruct x eqn:? end
                 | match goal with |- same_mod (if ?x then _ else _) _ => destruct x eqn:? end ].
  - repeat first [ assumption | apply same_finish | solve [apply same_commit; [assumption|reflexivity]]
                 | match goal with |- same_mod (match ?x with _ => _ end) _ => destruct x eqn:? end
                 | match goal with |- same_mod (if ?x then _ else _) _ => destruct x eqn:? end ].
  - repeat first [ assumption | apply same_finish | solve [apply same_commit; [assumption|reflexivity]]
                 | match goal with |- same_mod (match ?x with _ => _ end) _ => destruct x eqn:? end
                 | match goal with |- same_mod (if ?x then _ else _) _ => destruct x eqn:? end ].
  - repeat first [ assumption | apply same_finish | solve [apply same_commit; [assumption|reflexivity]]
                 | match goal with |- same_mod (match ?x with _ => _ end) _ => destruct x eqn:? end
                 | match goal with |- same_mod (if ?x then _ else _) _ => destruct x eqn:? end
                 | match goal with |- same_mod (let '(_, _) := ?x in _) _ => destruct x eqn:? end ].
  - repeat first [ assumption | apply same_finish | solve [apply same_commit; [assumption|reflexivity]]
                 | match goal with |- same_mod (match ?x with _ => _ end) _ => destruct x eqn:? end
                 | match goal with |- same_mod (if ?x then _ else _) _ => destruct x eqn:? end ].
  - repeat first [ assumption | apply same_finish | solve [apply same_commit; [assumption|reflexivity]]
                 | match goal with |- same_mod (match ?x with _ => _ end) _ => destruct x eqn:? end
                 | match goal with |- same_mod (if ?x then _ else _) _ => destruct x eqn:? end ].
  - repeat first [ assumption | apply same_finish | solve [apply same_commit; [assumption|reflexivity]]
                 | match goal with |- same_mod (match ?x with _ => _ end) _ => destruct x eqn:? end
                 | match goal with |- same_mod (if ?x then _ else _) _ => destruct x eqn:? end ].
Qed.

Lemma exec_owning sched : forall c c', same_mod c c' -> same_mod (exec e c sched) (exec e' c' sched).
Proof.
  induction sched as [|t s IH]; intros c c' H; [exact H|]. rewrite !exec_cons. apply IH. apply step_owning. exact H.
Qed.

Lemma res_taken_owning r : res_taken e' r = res_taken e r.
Proof. reflexivity. Qed.

Lemma taken_all_owning tr : taken_all e' tr = taken_all e tr.
Proof.
  induction tr as [|ev tr IH]; [reflexivity|]. destruct ev; cbn [taken_all]; rewrite ?res_taken_owning, IH; reflexivity.
Qed.

Lemma taken_all_strip tr : taken_all e (map strip_ev tr) = taken_all e tr.
Proof.
  induction tr as [|ev tr IH]; [reflexivity|]. destruct ev; cbn [map strip_ev taken_all]; rewrite IH; reflexivity.
Qed.

End Own.

(** ** no position is moved out to two callers: every wrapped iterator, fused or not, owning or not *)

Theorem iter_taken_nodup : forall e, iter_env e -> forall progs, wf_progs progs -> forall sched,
  nowrap (c_labels (exec e (init progs) sched)) ->
  pairwise_disj (taken_all e (c_trace (exec e (init progs) sched))) = true.
Proof.
  intros e (He & Hk) progs Hp sched Hw.
  set (e' := with_owning e true).
  assert (Hs : same_mod (exec e (init progs) sched) (exec e' (init progs) sched)).
  { apply exec_owning. repeat split; reflexivity. }
  destruct Hs as (_ & _ & Hl & Ht).
  assert (Hie' : iter_env e') by (split; [exact He|exact Hk]).
  assert (Hw' : nowrap (c_labels (exec e' (init progs) sched))) by (rewrite <- Hl; exact Hw).
  pose proof (iter_C08_run e' Hie' progs Hp sched Hw') as H8. unfold chk_C08 in H8. cbn [e' with_owning e_owning] in H8.
  apply andb_true_iff in H8. destruct H8 as [H8 _]. apply andb_true_iff in H8. destruct H8 as [H8 _].
  rewrite pairwise_disj_app in H8. apply andb_true_iff in H8. destruct H8 as [H8 _]. apply andb_true_iff in H8. destruct H8 as [H8 _].
  rewrite <- (taken_all_strip e), Ht, (taken_all_strip e), <- (taken_all_owning e true). exact H8.
Qed.

Print Assumptions iter_taken_nodup.
