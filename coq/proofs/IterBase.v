(** * The wrapper over an arbitrary iterator (ConIterOfIter): vocabulary of the ticket protocol and
      the equations of [step]. *)
From Coq Require Import Lia ZArith Permutation.
From OCI Require Import Machine Checkers.
From OCI.proofs Require Import Base Trace ArithOk InvKnown.
Open Scope N_scope.

(** the ticket a thread holds: begin index and size of its reservation *)
Definition ticket (p : pc) : option (N * N) :=
  match p with
  | PChkF q b | PLdY q b | PChkT q b | PSrc q b _ | PSetF q b _ | PPub q b _ | PUnw q b _ => Some (b, pub_incr q)
  | _ => None
  end.

(** the thread is inside its critical section: it has found its ticket at the yielded counter (and is
    about to look at the completed flag once more), it uses, or has just used, the wrapped iterator *)
Definition in_crit (p : pc) : bool :=
  match p with PChkT _ _ | PSrc _ _ _ | PSetF _ _ _ | PPub _ _ _ | PUnw _ _ _ => true | _ => false end.

Definition got_of (p : pc) : list N :=
  match p with PSrc _ _ g | PSetF _ _ g | PPub _ _ g | PUnw _ _ g => g | _ => [] end.

Definition req_of (p : pc) : option req :=
  match p with
  | PRes q | PChkF q _ | PLdY q _ | PChkT q _ | PSrc q _ _ | PSetF q _ _ | PPub q _ _ | PUnw q _ _ => Some q
  | _ => None
  end.

Definition tk_size (p : pc) : Z := match ticket p with Some (_, n) => Z.of_N n | None => 0%Z end.

(** [lo; lo+1; ...] ([k] elements) *)
Fixpoint ascN (lo : N) (k : nat) : list N :=
  match k with O => [] | S k' => lo :: ascN (lo + 1) k' end.

Lemma ascN_length lo k : length (ascN lo k) = k.
Proof. revert lo. induction k as [|k IH]; intros lo; cbn [ascN length]; [reflexivity|]. now rewrite IH. Qed.

Lemma ascN_snoc lo k : ascN lo k ++ [lo + N.of_nat k] = ascN lo (S k).
Proof.
  revert lo. induction k as [|k IH]; intros lo.
  - cbn [ascN app]. rewrite N.add_0_r. reflexivity.
  - change (ascN lo (S k)) with (lo :: ascN (lo + 1) k).
    change (ascN lo (S (S k))) with (lo :: ascN (lo + 1) (S k)). cbn [app]. f_equal.
    rewrite <- IH. f_equal. f_equal. lia.
Qed.

Lemma runs_of_asc i v k : runs_of i (ascN v (S k)) = [mk_run (Some i) v (N.of_nat (S k))].
Proof.
  revert i v. induction k as [|k IH]; intros i v.
  - reflexivity.
  - change (ascN v (S (S k))) with (v :: ascN (v + 1) (S k)). cbn [runs_of]. rewrite IH.
    unfold mk_run at 1. cbn [r_val r_cnt]. rewrite N.eqb_refl. unfold mk_run. f_equal. f_equal.
    cbn [r_cnt]. rewrite !Nat2N.inj_succ. lia.
Qed.

Lemma runs_of_nil i : runs_of i [] = [].
Proof. reflexivity. Qed.

(** what a thread holds that is not yet in the trace: the closure invocations of its running loop and
    the elements it has taken from the wrapped iterator in its current critical section *)
Definition held (e : env) (ts : tstate) : list iv :=
  acc_iv e ts ++
  match t_pc ts with
  | PSrc _ b g | PSetF _ b g | PPub _ b g | PUnw _ b g => [(b, N.of_nat (length g))]
  | PChkT _ b => [(b, 0)]
  | _ => []
  end.

Definition helds (e : env) (L : list tid) (pool : tid -> tstate) : list iv := gather (fun t => held e (pool t)) L.

Lemma helds_upd e L pool t ts' : NoDup L -> In t L ->
  exists rest, Permutation (helds e L pool) (held e (pool t) ++ rest) /\
               Permutation (helds e L (upd pool t ts')) (held e ts' ++ rest).
Proof.
  intros ND Hin. unfold helds.
  destruct (gather_upd (fun u => held e (pool u)) L t (held e ts') ND Hin) as (rest & P1 & P2).
  exists rest. split; [exact P1|].
  rewrite <- P2. erewrite gather_ext; [apply Permutation_refl|].
  intros u _. unfold upd. destruct (Nat.eqb u t); reflexivity.
Qed.

(** the multiset of delivered intervals after a step: [delta] is what the step acquired *)
Lemma hmove_perm e L pool t ts' (base base' newp delta : list iv) :
  NoDup L -> In t L ->
  Permutation (newp ++ held e ts') (delta ++ held e (pool t)) ->
  Permutation base' (newp ++ base) ->
  Permutation (base' ++ helds e L (upd pool t ts')) (delta ++ (base ++ helds e L pool)).
Proof.
  intros ND Hin P Pb. destruct (helds_upd e L pool t ts' ND Hin) as (rest & P1 & P2).
  rewrite P1, P2, Pb.
  transitivity ((newp ++ held e ts') ++ base ++ rest).
  - rewrite <- !app_assoc. apply Permutation_app_head.
    rewrite !app_assoc. apply Permutation_app_tail. apply Permutation_app_comm.
  - rewrite P. rewrite <- !app_assoc. apply Permutation_app_head.
    rewrite !app_assoc. apply Permutation_app_tail. apply Permutation_app_comm.
Qed.

(** a history without a panic *)
Definition npanic (tr : list event) : bool := negb (has_panic tr).

Lemma npanic_cons ev tr : npanic (ev :: tr) = true -> npanic tr = true.
Proof.
  unfold npanic. rewrite !negb_true_iff. intros H.
  destruct (has_panic tr) eqn:E; [|reflexivity]. rewrite (has_panic_cons ev tr E) in H. discriminate.
Qed.

Lemma npanic_call u o tr : npanic (ECall u o :: tr) = npanic tr.
Proof. reflexivity. Qed.

Lemma npanic_ret u r d tr : npanic (ERet u r d :: tr) = negb (is_panic r) && npanic tr.
Proof. unfold npanic. cbn [has_panic]. destruct (is_panic r), (has_panic tr); reflexivity. Qed.

(** one call of the wrapped iterator: it yields the next position, or answers None -- when it is fused,
    only because it is exhausted *)
Lemma src_next_cases e sh :
  (src_next e sh = Some (s_cur sh) /\ s_cur sh < e_len e) \/
  (src_next e sh = None /\ (fused e -> e_len e <= s_cur sh)).
Proof.
  unfold src_next. destruct (e_gap e (s_calls sh)) eqn:Eg.
  - right. split; [reflexivity|]. intros Hfu. rewrite (Hfu (s_calls sh)) in Eg. discriminate.
  - destruct (N.ltb_spec (s_cur sh) (e_len e)) as [H|H]; [left|right]; split; auto.
Qed.

Lemma src_next_fused e sh : fused e ->
  src_next e sh = if s_cur sh <? e_len e then Some (s_cur sh) else None.
Proof. intros Hfu. unfold src_next. rewrite (Hfu (s_calls sh)). reflexivity. Qed.

Section IterEq.

Variable e : env.
Hypothesis Hk : e_kind e = KIter.

Lemma istep_res c t q : t_pc (c_pool c t) = PRes q ->
  step e c t = commit c t (with_c (c_sh c) (wadd (s_c (c_sh c)) (pub_incr q)))
                      (set_pc (c_pool c t) (PChkF q (s_c (c_sh c))))
                      (LAtom t SC AAdd (pub_incr q) (s_c (c_sh c)) (o_res q)) [].
Proof. intros H. unfold step. rewrite H, Hk. reflexivity. Qed.

Lemma istep_chkf c t q b : t_pc (c_pool c t) = PChkF q b ->
  step e c t =
  if s_f (c_sh c) then finish e c t (c_sh c) (c_pool c t) (LAtom t SF ALoad 0 (bN (s_f (c_sh c))) (o_chkf q)) q (Ok PREnd)
  else commit c t (c_sh c) (set_pc (c_pool c t) (PLdY q b)) (LAtom t SF ALoad 0 (bN (s_f (c_sh c))) (o_chkf q)) [].
Proof. intros H. unfold step. rewrite H. reflexivity. Qed.

Lemma istep_ldy c t q b : t_pc (c_pool c t) = PLdY q b ->
  step e c t =
  if b =? s_y (c_sh c) then commit c t (c_sh c) (set_pc (c_pool c t) (PChkT q b)) (LAtom t SY ALoad 0 (s_y (c_sh c)) (o_ldy q)) []
  else if b <? s_y (c_sh c) then finish e c t (c_sh c) (c_pool c t) (LAtom t SY ALoad 0 (s_y (c_sh c)) (o_ldy q)) q (Ok PREnd)
  else commit c t (c_sh c) (set_pc (c_pool c t) (PChkF q b)) (LAtom t SY ALoad 0 (s_y (c_sh c)) (o_ldy q)) [].
Proof. intros H. unfold step. rewrite H. reflexivity. Qed.

Lemma istep_chkt c t q b : t_pc (c_pool c t) = PChkT q b ->
  step e c t =
  if s_f (c_sh c) then finish e c t (c_sh c) (c_pool c t) (LAtom t SF ALoad 0 (bN (s_f (c_sh c))) (o_chkt q)) q (Ok PREnd)
  else commit c t (c_sh c) (set_pc (c_pool c t) (PSrc q b [])) (LAtom t SF ALoad 0 (bN (s_f (c_sh c))) (o_chkt q)) [].
Proof. intros H. unfold step. rewrite H. reflexivity. Qed.

Lemma istep_skip c t : t_pc (c_pool c t) = PSkip ->
  step e c t = commit c t (with_f (c_sh c) true) (set_pc (c_pool c t) PIdle) (LAtom t SF AStore 1 0 ord_completed_store_early_exit) [ERet t RUnit []].
Proof. intros H. unfold step. rewrite H, Hk. reflexivity. Qed.

Lemma istep_setf c t q b g : t_pc (c_pool c t) = PSetF q b g ->
  step e c t =
  match q_mode q with
  | MSingle _ => finish e c t (with_f (c_sh c) true) (c_pool c t) (LAtom t SF AStore 1 0 (o_setf q)) q (Ok PREnd)
  | _ => commit c t (with_f (c_sh c) true) (set_pc (c_pool c t) (PPub q b g)) (LAtom t SF AStore 1 0 (o_setf q)) []
  end.
Proof. intros H. unfold step. rewrite H. reflexivity. Qed.

Lemma istep_len c t hm : t_pc (c_pool c t) = PLen hm ->
  step e c t =
  if s_f (c_sh c) then commit c t (c_sh c) (set_pc (c_pool c t) PIdle) (LAtom t SF ALoad 0 (bN (s_f (c_sh c))) ord_completed_load_try_get_len) [ERet t (len_res hm (Some 0)) []]
  else match e_hint e with
       | HExact => commit c t (c_sh c) (set_pc (c_pool c t) (PLen2 hm)) (LAtom t SF ALoad 0 (bN (s_f (c_sh c))) ord_completed_load_try_get_len) []
       | _ => commit c t (c_sh c) (set_pc (c_pool c t) PIdle) (LAtom t SF ALoad 0 (bN (s_f (c_sh c))) ord_completed_load_try_get_len) [ERet t (len_res hm None) []]
       end.
Proof. intros H. unfold step. rewrite H, Hk. reflexivity. Qed.

Lemma istep_len2 c t hm : t_pc (c_pool c t) = PLen2 hm ->
  step e c t = commit c t (c_sh c) (set_pc (c_pool c t) PIdle) (LAtom t SC ALoad 0 (s_c (c_sh c)) ord_counter_current)
                      [ERet t (len_res hm (Some (k_len e (s_c (c_sh c))))) []].
Proof. intros H. unfold step. rewrite H. reflexivity. Qed.

End IterEq.
