(** * C16 / C17 at the level of whole runs for the wrapper over an arbitrary iterator: when neither the
      wrapped iterator nor a closure is told to panic, no operation panics except [buffered_iter(0)] and
      the loops with chunk size zero, which must; [next_chunk(0)] reports the end and leaves the iterator
      unchanged. *)
From Coq Require Import Lia ZArith.
From OCI Require Import Machine Checkers.
From OCI.proofs Require Import Base Trace ArithOk InvKnown ChkKnown IterBase IterProt InvIterA Progress RunC16 IterFair.
Open Scope N_scope.

Lemma deliver_has_buf e ts q pr ts' o : deliver e ts q pr = (ts', o) -> has_buf ts' = has_buf ts.
Proof.
  unfold deliver. intros E. destruct (q_ctx q) as [|l cr].
  - destruct pr as [[|b rs cnt]|k]; try (injection E as <- _; reflexivity).
    unfold deliver_top in E. destruct (q_mode q); try (injection E as <- _; reflexivity).
    destruct (e_kind e), (t_buf ts) eqn:Eb; try (injection E as <- _; unfold has_buf; cbn [set_pc t_buf]; rewrite ?Eb; reflexivity).
    destruct (write_slots (bf_slots b0) (runs_vals rs)). injection E as <- _. unfold has_buf. cbn [t_buf]. rewrite Eb. reflexivity.
  - destruct pr as [[|b rs cnt]|k]; try (injection E as <- _; reflexivity).
    unfold deliver_loop in E. destruct (loop_invoke l cr (total_cnt (t_acc ts)) rs cnt) as [inv [used|]];
      injection E as <- _; reflexivity.
Qed.

Section IterRun.

Variable e : env.
Hypothesis Hk : e_kind e = KIter.
Hypothesis Hnc : e_crash e = None.
Variable L : list tid.
Hypothesis NDL : NoDup L.

Definition no_unw (c : cfg) : Prop := forall t q b g, t_pc (c_pool c t) <> PUnw q b g.

(** the return of a pending operation that was started through the call point: any result that is not a
    panic is fine *)
Lemma ev_ok ts o p t r d tr older :
  call_res e ts o = CGo p -> pend_call t tr = Some (o, older) -> is_panic r = false -> ev_C16 t r d tr = true.
Proof.
  intros Hc Hp Hr. unfold ev_C16. rewrite (pend_split _ _ _ Hp). unfold call_res in Hc.
  destruct o as [v|n k|c|k| |lk c crash| | |]; try (rewrite Hr; reflexivity).
  - rewrite Hk in Hc. destruct (n =? 0); [discriminate|]. rewrite Hr. reflexivity.
  - destruct (c =? 0); [discriminate|]. rewrite Hr. reflexivity.
  - destruct (c =? 0); [discriminate|]. rewrite Hr. reflexivity.
Qed.

(** a loop that is being served: its closure is not told to panic *)
Lemma loop_plain ts o q l cr : call_res e ts o = CGo (PRes q) -> op_plain o -> q_ctx q = CLoop l cr -> cr = None.
Proof.
  unfold call_res. intros Hc Hp Hq. destruct o as [v|n k|c|k| |lk c crash| | |]; try discriminate Hc; try (injection Hc as <-; discriminate Hq).
  - rewrite Hk in Hc. destruct (n =? 0); [discriminate|]. injection Hc as <-. discriminate Hq.
  - destruct (c =? 0); discriminate.
  - destruct (t_buf ts); [|discriminate]. injection Hc as <-. discriminate Hq.
  - destruct crash; [contradiction|]. destruct (c =? 0); [discriminate|].
    destruct (c =? 1); injection Hc as <-; cbn [q_ctx] in Hq; injection Hq as _ <-; reflexivity.
Qed.

(** finishing a pull whose outcome is not a panic *)
Lemma q_finish c t sh l q pr o older :
  Q c -> pend_call t (c_trace c) = Some (o, older) -> call_res e (c_pool c t) o = CGo (PRes q) ->
  (forall k, pr <> Panic k) ->
  Q (finish e c t sh (c_pool c t) l q pr) /\
  (forall q' b g, t_pc (c_pool (finish e c t sh (c_pool c t) l q pr) t) <> PUnw q' b g).
Proof.
  intros I Hp Hc Hnp. pose proof (q_pend c I t o older Hp) as Hpl.
  unfold finish. destruct (deliver e (c_pool c t) q pr) as [ts' ro] eqn:E.
  pose proof (deliver_todo _ _ _ _ _ _ E) as Ht. pose proof (deliver_has_buf _ _ _ _ _ _ E) as Hb.
  assert (Hpc : t_pc ts' = PIdle \/ t_pc ts' = PRes q).
  { destruct (deliver_w _ _ _ _ _ _ E) as (_ & [H|(H & _)]); auto. }
  split.
  - apply q_commit; try assumption.
    + destruct ro as [[r d]|]; cbn [ret_ev app all_rets]; [|apply (q_evs c I)].
      rewrite (q_evs c I), andb_true_r. apply (ev_ok (c_pool c t) o (PRes q) t r d (c_trace c) older Hc Hp).
      (* the result is not a panic *)
      unfold deliver in E. destruct (q_ctx q) as [|lk cr] eqn:Ectx.
      * destruct pr as [[|b rs cnt]|k]; [injection E as _ <- _; reflexivity| |exfalso; apply (Hnp k); reflexivity].
        unfold deliver_top in E. destruct (q_mode q).
        -- injection E as _ <- _. unfold one_res. destruct (if reports_idx v then rs else map strip_idx rs); reflexivity.
        -- injection E as _ <- _. reflexivity.
        -- destruct (e_kind e), (t_buf (c_pool c t)); try (injection E as _ <- _; reflexivity).
           destruct (write_slots (bf_slots b0) (runs_vals rs)). injection E as _ <- _. reflexivity.
      * pose proof (loop_plain _ _ _ _ _ Hc Hpl Ectx) as ->.
        destruct pr as [[|b rs cnt]|k]; [injection E as _ <- _; reflexivity| |exfalso; apply (Hnp k); reflexivity].
        unfold deliver_loop, loop_invoke in E. discriminate E.
    + destruct ro as [[r d]|]; cbn [ret_ev app finals_no_panic]; apply (q_fin c I).
    + rewrite Ht. apply (q_todo c I).
    + rewrite Ht, Hb. apply (q_buf c I).
    + destruct ro as [[r d]|]; cbn [ret_ev app]; [apply pend_after_ret; exact I|apply (q_pend c I)].
  - intros q' b g. cbn [commit c_pool]. rewrite upd_same. destruct Hpc as [-> | ->]; discriminate.
Qed.

Lemma qi_step c t : IInvA e L c -> Q c -> no_unw c -> In t L -> Q (step e c t) /\ no_unw (step e c t).
Proof.
  intros A I Hu Hin. pose proof (a_prot e L c A) as P.
  pose proof (a_call e L c A t) as Hc. unfold icall_ok, is_idle in Hc.
  (* threads other than t keep their program counter *)
  assert (Hoth : forall c', (forall u, u <> t -> c_pool c' u = c_pool c u) ->
                 (forall q b g, t_pc (c_pool c' t) <> PUnw q b g) -> no_unw c').
  { intros c' H1 H2 u q b g. destruct (Nat.eq_dec u t) as [->|Hn]; [apply H2|rewrite (H1 u Hn); apply Hu]. }
  assert (Hcm : forall sh ts l evs, Q (commit c t sh ts l evs) -> (forall q b g, t_pc ts <> PUnw q b g) ->
                Q (commit c t sh ts l evs) /\ no_unw (commit c t sh ts l evs)).
  { intros sh ts l evs HQ HU. split; [exact HQ|]. apply Hoth; cbn [commit c_pool].
    - intros u Hn. apply upd_other. exact Hn.
    - rewrite upd_same. exact HU. }
  assert (Hfin : forall sh l q pr o older,
            pend_call t (c_trace c) = Some (o, older) -> call_res e (c_pool c t) o = CGo (PRes q) ->
            (forall k, pr <> Panic k) ->
            Q (finish e c t sh (c_pool c t) l q pr) /\ no_unw (finish e c t sh (c_pool c t) l q pr)).
  { intros sh l q pr o older Hp Hcr Hnp. destruct (q_finish c t sh l q pr o older I Hp Hcr Hnp) as [HQ HU].
    split; [exact HQ|]. apply Hoth; [|exact HU]. intros u Hn. unfold finish. destruct (deliver e (c_pool c t) q pr). cbn [commit c_pool]. apply upd_other. exact Hn. }
  (* a step that returns nothing and keeps program, buffer and pending call *)
  assert (Hkeep : forall sh p' l, (forall q b g, p' <> PUnw q b g) -> Q (commit c t sh (set_pc (c_pool c t) p') l []) /\ no_unw (commit c t sh (set_pc (c_pool c t) p') l [])).
  { intros sh p' l Hp'. apply Hcm; [|exact Hp']. apply q_commit; try assumption; cbn [app set_pc t_todo].
    - apply (q_evs c I).
    - apply (q_fin c I).
    - apply (q_todo c I).
    - unfold has_buf. cbn [t_buf]. apply (q_buf c I).
    - apply (q_pend c I). }
  (* a plain return of a pending operation *)
  assert (Hret : forall sh l r, is_panic r = false -> t_pc (c_pool c t) <> PIdle ->
            Q (commit c t sh (set_pc (c_pool c t) PIdle) l [ERet t r []]) /\ no_unw (commit c t sh (set_pc (c_pool c t) PIdle) l [ERet t r []])).
  { intros sh l r Hr Hni. destruct (t_pc (c_pool c t)) eqn:Ep; [contradiction| | | | | | | | | | |];
      destruct Hc as (o & older & Hp & Hcr); (apply Hcm; [|discriminate]); apply q_commit; try assumption; cbn [app set_pc t_todo all_rets finals_no_panic];
      try (rewrite (q_evs c I), andb_true_r; eapply ev_ok; eassumption); try apply (q_fin c I); try apply (q_todo c I);
      try (unfold has_buf; cbn [t_buf]; apply (q_buf c I)); try (apply pend_after_ret; exact I). }
  destruct (t_pc (c_pool c t)) as [|q|q b|q b|q b|q b got|q b got|q b got|q b got| |hm|hm] eqn:Hpc.
  - (* call point *)
    destruct (t_todo (c_pool c t)) as [|o rest] eqn:Htodo.
    + rewrite (istep_idle_nil e c t) by assumption. auto.
    + rewrite (istep_idle_call e c t o rest) by assumption. unfold call.
      pose proof (q_todo c I t) as Hpl. rewrite Htodo in Hpl. inversion Hpl as [|? ? Hpo Hprest]; subst.
      pose proof (q_buf c I t) as Hbd. rewrite Htodo in Hbd.
      destruct (a_wf e L c A t) as (_ & Hops & Hbuf). rewrite Htodo in Hops. inversion Hops as [|? ? Hwo _]; subst.
      destruct (call_res e (c_pool c t) o) as [p|bf r d] eqn:E.
      * destruct (call_go_iter e Hk _ _ _ E Hwo Hbuf) as (_ & Cp & _).
        apply Hcm; [|cbn [t_pc]; intros q b g Ep; rewrite Ep in Cp; discriminate].
        apply q_commit; [exact I|cbn [app all_rets]; apply (q_evs c I)|cbn [app finals_no_panic]; apply (q_fin c I)|exact Hprest| |].
        -- unfold has_buf. cbn [t_buf t_todo]. fold (has_buf (c_pool c t)).
           unfold call_res in E. destruct o; cbn [buf_disc] in Hbd; try exact Hbd.
           ++ destruct (c0 =? 0); discriminate.
           ++ apply andb_true_iff in Hbd. apply Hbd.
           ++ discriminate.
        -- intros u o' older H. cbn [app pend_call] in H. destruct (Nat.eqb t u) eqn:Eu.
           ++ injection H as <- _. exact Hpo.
           ++ eapply (q_pend c I); exact H.
      * assert (Hev : ev_C16 t r d (ECall t o :: c_trace c) = true /\ buf_disc (match bf with Some _ => true | None => false end) rest = true).
        { unfold ev_C16. cbn [split_call]. rewrite Nat.eqb_refl. unfold call_res in E.
          destruct o; cbn [buf_disc] in Hbd; try discriminate E.
          - rewrite Hk in E. destruct (n =? 0) eqn:E0; [|discriminate E]. injection E as <- <- <-. split; [reflexivity|exact Hbd].
          - destruct (c0 =? 0) eqn:E0; injection E as <- <- <-; (split; [reflexivity|exact Hbd]).
          - unfold has_buf in Hbd. destruct (t_buf (c_pool c t)); [discriminate E|]. cbn [andb] in Hbd. discriminate Hbd.
          - injection E as <- <- <-. split; [reflexivity|exact Hbd].
          - destruct (c0 =? 0) eqn:E0; [|destruct (c0 =? 1); discriminate E].
            injection E as <- <- <-. split; [reflexivity|exact Hbd]. }
        destruct Hev as [Hev Hbd'].
        apply Hcm; [|cbn [t_pc]; discriminate].
        apply q_commit; [exact I|cbn [app all_rets]; rewrite Hev; apply (q_evs c I)|cbn [app finals_no_panic]; apply (q_fin c I)|exact Hprest| |].
        -- unfold has_buf. cbn [t_buf t_todo]. exact Hbd'.
        -- intros u o' older H. cbn [app pend_call] in H. destruct (Nat.eqb t u); [discriminate|]. eapply (q_pend c I); exact H.
  - rewrite (istep_res e Hk c t q Hpc). apply Hkeep. discriminate.
  - destruct Hc as (o & older & Hp & Hcr). cbn [entry_of req_of] in Hcr.
    rewrite (istep_chkf e c t q b Hpc). destruct (s_f (c_sh c)); [apply (Hfin _ _ _ _ o older Hp Hcr); discriminate|apply Hkeep; discriminate].
  - destruct Hc as (o & older & Hp & Hcr). cbn [entry_of req_of] in Hcr.
    rewrite (istep_ldy e c t q b Hpc). destruct (b =? s_y (c_sh c)); [apply Hkeep; discriminate|].
    destruct (b <? s_y (c_sh c)); [apply (Hfin _ _ _ _ o older Hp Hcr); discriminate|apply Hkeep; discriminate].
  - destruct Hc as (o & older & Hp & Hcr). cbn [entry_of req_of] in Hcr.
    rewrite (istep_chkt e c t q b Hpc). destruct (s_f (c_sh c)); [apply (Hfin _ _ _ _ o older Hp Hcr); discriminate|apply Hkeep; discriminate].
  - unfold step. rewrite Hpc. unfold crashes_now. rewrite Hnc.
    destruct (q_mode q); destruct (src_next e (c_sh c)) as [xv|].
    all: try (apply Hkeep; discriminate).
    all: try (destruct (N.of_nat (length (xv :: got)) =? q_n q); apply Hkeep; discriminate).
  - destruct Hc as (o & older & Hp & Hcr). cbn [entry_of req_of] in Hcr.
    rewrite (istep_setf e c t q b got Hpc). destruct (q_mode q); [apply (Hfin _ _ _ _ o older Hp Hcr); discriminate|apply Hkeep; discriminate|apply Hkeep; discriminate].
  - destruct Hc as (o & older & Hp & Hcr). cbn [entry_of req_of] in Hcr.
    assert (Tt : ticket (pcs_of c t) = Some (b, pub_incr q)) by (unfold pcs_of; rewrite Hpc; reflexivity).
    assert (Ct : in_crit (pcs_of c t) = true) by (unfold pcs_of; rewrite Hpc; reflexivity).
    pose proof (p_crit _ _ _ _ _ P t _ _ Ct Tt) as Hb.
    unfold step. rewrite Hpc. subst b. rewrite N.eqb_refl.
    destruct (q_mode q); [apply (Hfin _ _ _ _ o older Hp Hcr); discriminate| |];
      (destruct (rev got); apply (Hfin _ _ _ _ o older Hp Hcr); discriminate).
  - exfalso. apply (Hu t q b got Hpc).
  - rewrite (istep_skip e Hk c t Hpc). apply Hret; [reflexivity|discriminate].
  - rewrite (istep_len e Hk c t hm Hpc).
    destruct (s_f (c_sh c)); [apply Hret; [unfold len_res; destruct hm; reflexivity|discriminate]|].
    destruct (e_hint e); [apply Hkeep; discriminate| |]; (apply Hret; [unfold len_res; destruct hm; reflexivity|discriminate]).
  - rewrite (istep_len2 e c t hm Hpc). apply Hret; [unfold len_res; destruct hm; reflexivity|discriminate].
Qed.

Lemma qi_exec progs sched :
  (forall t, Forall wf_op (progs t)) -> plain_progs progs -> Forall (fun t => In t L) sched ->
  nowrap (c_labels (exec e (init progs) sched)) ->
  Q (exec e (init progs) sched) /\ no_unw (exec e (init progs) sched).
Proof.
  intros Hp Hpl. induction sched as [|t sched IH] using rev_ind; intros Hs Hw.
  - split; [apply q_init; exact Hpl|]. intros t q b g. cbn [init c_pool init_ts t_pc]. discriminate.
  - rewrite exec_snoc in *. apply Forall_app in Hs. destruct Hs as [Hs Ht]. inversion Ht as [|? ? Hin _]; subst.
    pose proof (step_labels_suffix e _ _ Hw) as Hw1.
    destruct (IH Hs Hw1) as [HQ HU].
    apply qi_step; try assumption. apply (iA_exec e Hk L NDL); assumption.
Qed.

End IterRun.

From OCI.proofs Require Import ChkIter.


Theorem iter_C16_run : forall e, iter_env e -> e_crash e = None -> forall progs, wf_progs progs -> plain_progs progs -> forall sched,
  nowrap (c_labels (exec e (init progs) sched)) ->
  chk_C16 e (c_trace (exec e (init progs) sched)) = true.
Proof.
  intros e (He & Hk) Hnc progs Hp Hpl sched Hw.
  destruct (qi_exec e Hk Hnc (nodup Nat.eq_dec sched) (NoDup_nodup _ _) progs sched Hp Hpl) as [I _]; try assumption.
  - apply Forall_forall. intros t Ht. apply nodup_In. exact Ht.
  - unfold chk_C16. rewrite (q_evs _ I), (q_fin _ I). reflexivity.
Qed.

Theorem iter_C17_no_panic : forall e, iter_env e -> e_crash e = None -> forall progs, wf_progs progs -> plain_progs progs ->
  (forall t, Forall op_nz (progs t)) -> forall sched,
  nowrap (c_labels (exec e (init progs) sched)) ->
  chk_no_panic (c_trace (exec e (init progs) sched)) = true.
Proof.
  intros e (He & Hk) Hnc progs Hp Hpl Hnz sched Hw.
  destruct (qi_exec e Hk Hnc (nodup Nat.eq_dec sched) (NoDup_nodup _ _) progs sched Hp Hpl) as [I _]; try assumption.
  - apply Forall_forall. intros t Ht. apply nodup_In. exact Ht.
  - unfold chk_no_panic. rewrite (no_panic_from_C16 _ (q_evs _ I) (q_fin _ I)); [reflexivity|].
    intros u o Hin. pose proof (proj1 (exec_calls e progs sched u o) Hin) as Ho.
    pose proof (Hnz u) as F. rewrite Forall_forall in F. apply F. exact Ho.
Qed.

Theorem iter_C16_final : forall e, iter_env e -> e_crash e = None -> forall progs, wf_progs progs -> plain_progs progs -> forall sched,
  nowrap (c_labels (exec e (init progs) sched)) -> forall t f,
  chk_C16 e (c_trace (final_step e (exec e (init progs) sched) t f)) = true.
Proof.
  intros e Hie Hnc progs Hp Hpl sched Hw t f.
  pose proof (iter_C16_run e Hie Hnc progs Hp Hpl sched Hw) as H. unfold chk_C16 in *.
  apply andb_true_iff in H. destruct H as [H1 H2]. destruct Hie as (_ & Hk).
  unfold final_step. rewrite Hk. destruct f as [|k]; [|unfold seq_res]; cbn [c_trace all_rets finals_no_panic is_panic negb andb];
    rewrite H1, H2; reflexivity.
Qed.
