(** * C13: the source of the adaptors is the reviewed forwarding code.

    The model gives cloned() / copied() no behaviour of their own ([proofs/Adaptor.v]).  [gen/Adaptors.v] is
    regenerated from [src/iter/cloned.rs], [src/iter/copied.rs] and the two buffered-chunk adaptors on every run:
    the list of every method they define with its body.  The lemma pins that list to the reviewed one: every method
    forwards to the underlying iterator (or to a method of the adaptor that does) and clones / copies what comes
    back; no other method of the traits is overridden (in particular not [fetch_one]). *)
From Coq Require Import List String.
From OCI.gen Require Import Adaptors.
Import ListNotations.
Open Scope string_scope.

Definition reviewed_adaptor_methods : list (string * string) :=
  [
   ("Cloned::AtomicIter::counter", "self.iter.counter()");
   ("Cloned::AtomicIter::early_exit", "self.iter.early_exit()");
   ("Cloned::AtomicIter::fetch_n", "self.iter.fetch_n(n).map(|x|NextChunk{begin_idx:x.begin_idx,values:x.values.cloned(),})");
   ("Cloned::AtomicIter::get", "self.iter.get(item_idx).cloned()");
   ("Cloned::AtomicIter::progress_and_get_begin_idx", "self.iter.progress_and_get_begin_idx(number_to_fetch)");
   ("Cloned::AtomicIterWithInitialLen::initial_len", "self.iter.initial_len()");
   ("Cloned::ConcurrentIter::buffered_iter", "letbuffered_iter=Self::BufferedIter::new(chunk_size);BufferedIter::new(buffered_iter,self)");
   ("Cloned::ConcurrentIter::into_seq_iter", "self.iter.into_seq_iter().cloned()");
   ("Cloned::ConcurrentIter::next_chunk", "self.fetch_n(chunk_size)");
   ("Cloned::ConcurrentIter::next_id_and_value", "self.fetch_one()");
   ("Cloned::ConcurrentIter::skip_to_end", "self.early_exit()");
   ("Cloned::ConcurrentIter::try_get_len", "self.iter.try_get_len()");
   ("Cloned::inherent::new", "Self{iter,phantom:PhantomData,}");
   ("Cloned::inherent::underlying_iter", "&self.iter");
   ("ClonedBufferedChunk::BufferedChunk::chunk_size", "self.chunk.chunk_size()");
   ("ClonedBufferedChunk::BufferedChunk::new", "Self{chunk:C::new(chunk_size),phantom:PhantomData,}");
   ("ClonedBufferedChunk::BufferedChunk::pull", "self.chunk.pull(iter.underlying_iter(),begin_idx).map(|x|x.cloned())");
   ("Copied::AtomicIter::counter", "self.iter.counter()");
   ("Copied::AtomicIter::early_exit", "self.iter.early_exit()");
   ("Copied::AtomicIter::fetch_n", "self.iter.fetch_n(n).map(|x|NextChunk{begin_idx:x.begin_idx,values:x.values.copied(),})");
   ("Copied::AtomicIter::get", "self.iter.get(item_idx).copied()");
   ("Copied::AtomicIter::progress_and_get_begin_idx", "self.iter.progress_and_get_begin_idx(number_to_fetch)");
   ("Copied::AtomicIterWithInitialLen::initial_len", "self.iter.initial_len()");
   ("Copied::ConcurrentIter::buffered_iter", "letbuffered_iter=Self::BufferedIter::new(chunk_size);BufferedIter::new(buffered_iter,self)");
   ("Copied::ConcurrentIter::into_seq_iter", "self.iter.into_seq_iter().copied()");
   ("Copied::ConcurrentIter::next_chunk", "self.fetch_n(chunk_size)");
   ("Copied::ConcurrentIter::next_id_and_value", "self.fetch_one()");
   ("Copied::ConcurrentIter::skip_to_end", "self.early_exit()");
   ("Copied::ConcurrentIter::try_get_len", "self.iter.try_get_len()");
   ("Copied::inherent::new", "Self{iter,phantom:PhantomData,}");
   ("Copied::inherent::underlying_iter", "&self.iter");
   ("CopiedBufferedChunk::BufferedChunk::chunk_size", "self.chunk.chunk_size()");
   ("CopiedBufferedChunk::BufferedChunk::new", "Self{chunk:C::new(chunk_size),phantom:PhantomData,}");
   ("CopiedBufferedChunk::BufferedChunk::pull", "self.chunk.pull(iter.underlying_iter(),begin_idx).map(|x|x.copied())")
  ].

Lemma adaptors_are_the_reviewed_forwarders : adaptor_methods = reviewed_adaptor_methods.
Proof. reflexivity. Qed.

(** what "forwarding" means for the reviewed list: every body mentions the underlying iterator / chunk, or is one of
    the three trait methods that are defined through a forwarding method of the adaptor itself *)
Fixpoint has_sub (sub s : string) : bool :=
  match s with
  | EmptyString => match sub with EmptyString => true | _ => false end
  | String _ tl => String.prefix sub s || has_sub sub tl
  end.

Definition forwards (m : string * string) : bool :=
  has_sub "self.iter" (snd m) || has_sub "self.chunk" (snd m) ||
  String.eqb (snd m) "self.fetch_one()" || String.eqb (snd m) "self.fetch_n(chunk_size)" || String.eqb (snd m) "self.early_exit()" ||
  has_sub "BufferedIter::new(buffered_iter,self)" (snd m) || has_sub "Self{" (snd m).

Lemma reviewed_methods_forward : forallb forwards reviewed_adaptor_methods = true.
Proof. vm_compute. reflexivity. Qed.

Lemma fetch_one_not_overridden :
  existsb (fun m => has_sub "::fetch_one" (fst m)) reviewed_adaptor_methods = false.
Proof. vm_compute. reflexivity. Qed.
