(** * C04, last sentence: a single-threaded sequence of operations yields exactly what the wrapped
      sequential iterator would yield, in the same order.

    When only one thread ever runs, the trace is an alternation of calls and returns; every point between
    two operations is quiescent.  The prefix clause of C04 (at a quiescent point the delivered positions
    are a gap-free prefix) and its order clause (a pull that starts after another one returned receives
    larger positions; the runs of one result are increasing) then say: the intervals delivered by the
    successive return events, read in the order of the events, are adjacent and start at 0 --
    [0, a1), [a1, a2), ... -- i.e. the positions handed out are 0, 1, 2, ... in this order.  (A chunk
    delivers all its elements when it is returned, taken by the caller or not: [cov].) *)
From Coq Require Import Lia ZArith List.
From OCI Require Import Machine Checkers.
From OCI.proofs Require Import Base Trace ArithOk InvKnown ChkKnown Progress IterBase ChkIter ChkAll AfterNone RunC16 IterRunC16.
Import ListNotations.
Open Scope N_scope.

(** the intervals of [l], in the order of the list, are adjacent and start at [d]: [d, d1), [d1, d2), ...
    (an empty interval -- the untaken rest of a chunk that was taken whole -- is anywhere) *)
Fixpoint adjacent_from (d : N) (l : list iv) : bool :=
  match l with
  | [] => true
  | a :: tl => ((snd a =? 0) || (fst a =? d)) && adjacent_from (d + snd a) tl
  end.

(** the positions of the intervals of [l], one by one, in the order of the list *)
Definition positions (l : list iv) : list N :=
  flat_map (fun a => run_vals (fst a) (N.to_nat (snd a))) l.

(** the deliveries of a trace (latest event first, as the machine accumulates it) in the order in which
    they happened: the intervals of the oldest return event first, those of one event in their order *)
Definition cov_in_order (e : env) (tr : list event) : list iv := cov e (rev tr).

(** ** lists of intervals *)

Lemma adjacent_from_app d l1 l2 :
  adjacent_from d (l1 ++ l2) = adjacent_from d l1 && adjacent_from (d + iv_total l1) l2.
Proof.
  revert d. induction l1 as [|a l1 IH]; intros d; cbn [app adjacent_from iv_total].
  - rewrite N.add_0_r. reflexivity.
  - rewrite IH. rewrite N.add_assoc. rewrite andb_assoc. reflexivity.
Qed.

Lemma run_vals_app v a b : run_vals v (a + b) = run_vals v a ++ run_vals (v + N.of_nat a) b.
Proof.
  revert v. induction a as [|a IH]; intros v.
  - cbn [plus run_vals app N.of_nat]. rewrite N.add_0_r. reflexivity.
  - cbn [plus run_vals app]. rewrite IH. do 3 f_equal. lia.
Qed.

(** adjacent intervals from [d] on hold the positions [d, d + 1, ...], as many as their total size *)
Lemma adjacent_positions l : forall d, adjacent_from d l = true ->
  positions l = run_vals d (N.to_nat (iv_total l)).
Proof.
  induction l as [|a l IH]; intros d H; cbn [adjacent_from positions flat_map iv_total] in *; [reflexivity|].
  apply andb_true_iff in H. destruct H as [Ha Hl]. fold (positions l). rewrite (IH _ Hl).
  rewrite N2Nat.inj_add, run_vals_app, N2Nat.id.
  apply orb_true_iff in Ha. destruct Ha as [Ha|Ha].
  - apply N.eqb_eq in Ha. rewrite Ha. cbn [N.to_nat run_vals app]. rewrite N.add_0_r. reflexivity.
  - apply N.eqb_eq in Ha. rewrite Ha. reflexivity.
Qed.

(** increasing intervals above [d] reach at least [d] plus their total size *)
Lemma increasing_reach l : forall d, increasing l = true -> all_above d l = true ->
  d + iv_total l <= N.max d (iv_maxhi l).
Proof.
  induction l as [|a l IH]; intros d Hi Ha; cbn [increasing all_above forallb iv_total iv_maxhi] in *; [lia|].
  apply andb_true_iff in Hi. destruct Hi as [Hi1 Hi2]. apply andb_true_iff in Ha. destruct Ha as [Ha1 Ha2].
  fold (all_above d l) in Ha2.
  destruct (N.eqb_spec (snd a) 0) as [Hz|Hz].
  - specialize (IH d Hi2 Ha2). lia.
  - cbn [orb] in Ha1. apply N.leb_le in Ha1. specialize (IH (iv_hi a) Hi2 Hi1). unfold iv_hi in *. lia.
Qed.

(** ... and exactly that only when they are adjacent from [d] on *)
Lemma increasing_exact l : forall d, increasing l = true -> all_above d l = true ->
  d + iv_total l = N.max d (iv_maxhi l) -> adjacent_from d l = true.
Proof.
  induction l as [|a l IH]; intros d Hi Ha Hx; cbn [increasing all_above forallb iv_total iv_maxhi adjacent_from] in *; [reflexivity|].
  apply andb_true_iff in Hi. destruct Hi as [Hi1 Hi2]. apply andb_true_iff in Ha. destruct Ha as [Ha1 Ha2].
  fold (all_above d l) in Ha2.
  destruct (N.eqb_spec (snd a) 0) as [Hz|Hz].
  - cbn [orb andb]. rewrite Hz, N.add_0_r. apply IH; try assumption. lia.
  - cbn [orb] in Ha1. apply N.leb_le in Ha1.
    pose proof (increasing_reach l (iv_hi a) Hi2 Hi1) as Hr. unfold iv_hi in *.
    assert (fst a = d) as Hd by lia.
    apply andb_true_iff. split; [apply N.eqb_eq; exact Hd|].
    apply IH; try assumption; [rewrite <- Hd; exact Hi1|lia].
Qed.

Lemma iv_total_cov_rev e tr : iv_total (cov e (rev tr)) = iv_total (cov e tr).
Proof.
  induction tr as [|ev tr IH]; [reflexivity|]. cbn [rev]. rewrite cov_app, iv_total_app, IH.
  destruct ev; cbn [cov]; rewrite ?iv_total_app; cbn [iv_total]; lia.
Qed.

(** ** the trace of a run in which only thread [t0] runs: calls and returns of [t0] alternate *)

Fixpoint solo_tr (t0 : tid) (tr : list event) : bool :=
  match tr with
  | [] => true
  | ECall u _ :: tl => Nat.eqb u t0 && (n_pending tl =? 0)%Z && solo_tr t0 tl
  | ERet u _ _ :: tl => Nat.eqb u t0 && (n_pending tl =? 1)%Z && solo_tr t0 tl
  | EFinal _ _ _ :: _ => false
  end.

Lemma solo_ret t0 u r d tl : solo_tr t0 (ERet u r d :: tl) = true ->
  u = t0 /\ exists o older, tl = ECall t0 o :: older /\ n_pending older = 0%Z /\ solo_tr t0 older = true.
Proof.
  cbn [solo_tr]. intros H. apply andb_true_iff in H. destruct H as [H Hs]. apply andb_true_iff in H. destruct H as [Hu Hn].
  apply Nat.eqb_eq in Hu. apply Z.eqb_eq in Hn. split; [exact Hu|].
  destruct tl as [|[v o|v r' d'|f r' d'] older]; cbn [solo_tr n_pending] in *; try discriminate.
  - apply andb_true_iff in Hs. destruct Hs as [Hs Hs2]. apply andb_true_iff in Hs. destruct Hs as [Hv Hn'].
    apply Nat.eqb_eq in Hv. apply Z.eqb_eq in Hn'. subst v. exists o, older. auto.
  - apply andb_true_iff in Hs. destruct Hs as [Hs Hs2]. apply andb_true_iff in Hs. destruct Hs as [Hv Hn'].
    apply Z.eqb_eq in Hn'. lia.
Qed.

Definition idle_b (ts : tstate) : bool := match t_pc ts with PIdle => true | _ => false end.

(** a finished pull returns and leaves the thread idle, or goes on (a loop) and does not *)
Lemma deliver_top_idle e ts q b rs cnt : idle_b (fst (deliver_top e ts q b rs cnt)) = true.
Proof.
  unfold deliver_top, idle_b. destruct (q_mode q); try reflexivity.
  destruct (e_kind e), (t_buf ts); try reflexivity.
  destruct (write_slots (bf_slots b0) (runs_vals rs)). reflexivity.
Qed.

Lemma deliver_shape e ts q pr ts' o : deliver e ts q pr = (ts', o) ->
  (o = None /\ idle_b ts' = false) \/ (exists r d, o = Some (r, d) /\ idle_b ts' = true).
Proof.
  unfold deliver. intros E. destruct (q_ctx q) as [|l cr].
  - destruct pr as [[|b rs cnt]|k]; try (injection E as <- <-; right; eexists _, _; split; reflexivity).
    pose proof (deliver_top_idle e ts q b rs cnt) as Hi.
    destruct (deliver_top e ts q b rs cnt) as [ts1 [r d]]. injection E as <- <-. right. exists r, d. split; [reflexivity|exact Hi].
  - destruct pr as [[|b rs cnt]|k]; try (injection E as <- <-; right; eexists _, _; split; reflexivity).
    unfold deliver_loop in E. destruct (loop_invoke l cr (total_cnt (t_acc ts)) rs cnt) as [inv [used|]];
      injection E as <- <-; [right; eexists _, _; split; reflexivity|left; split; reflexivity].
Qed.

Lemma call_res_go e ts o p : call_res e ts o = CGo p -> match p with PIdle => False | _ => True end.
Proof.
  unfold call_res. destruct o; try (intros E; injection E as <-; exact I).
  - destruct (e_kind e); try (intros E; injection E as <-; exact I).
    destruct (n =? 0); [discriminate|]. intros E; injection E as <-; exact I.
  - destruct (c =? 0); discriminate.
  - destruct (t_buf ts); [|discriminate]. intros E; injection E as <-; exact I.
  - discriminate.
  - destruct (c =? 0); [discriminate|]. destruct (c =? 1); intros E; injection E as <-; exact I.
Qed.

(** one step of thread [t], whatever the kind and the state: nothing happens to the trace and the thread
    stays as idle as it was; or it was idle and calls; or it was idle, calls and returns at once; or it was
    inside a call and returns *)
Definition solo_shape (t : tid) (c c' : cfg) : Prop :=
  (c_trace c' = c_trace c /\ idle_b (c_pool c' t) = idle_b (c_pool c t)) \/
  (idle_b (c_pool c t) = true /\ idle_b (c_pool c' t) = false /\
   exists o, c_trace c' = ECall t o :: c_trace c) \/
  (idle_b (c_pool c t) = true /\ idle_b (c_pool c' t) = true /\
   exists o r d, c_trace c' = ERet t r d :: ECall t o :: c_trace c) \/
  (idle_b (c_pool c t) = false /\ idle_b (c_pool c' t) = true /\
   exists r d, c_trace c' = ERet t r d :: c_trace c).

Lemma step_solo e c t : solo_shape t c (step e c t).
Proof.
  assert (Hsil : forall sh p l, idle_b (c_pool c t) = false -> match p with PIdle => False | _ => True end ->
            solo_shape t c (commit c t sh (set_pc (c_pool c t) p) l [])).
  { intros sh p l Hi Hp. left. cbn [commit c_trace c_pool app]. rewrite upd_same. split; [reflexivity|].
    rewrite Hi. unfold idle_b. cbn [set_pc t_pc]. destruct p; try reflexivity. contradiction. }
  assert (Hret : forall sh ts' l r d, idle_b (c_pool c t) = false -> idle_b ts' = true ->
            solo_shape t c (commit c t sh ts' l [ERet t r d])).
  { intros sh ts' l r d Hi Hi'. right; right; right. cbn [commit c_trace c_pool app]. rewrite upd_same.
    split; [exact Hi|]. split; [exact Hi'|]. eexists _, _. reflexivity. }
  assert (Hfin : forall sh l q pr, idle_b (c_pool c t) = false ->
            solo_shape t c (finish e c t sh (c_pool c t) l q pr)).
  { intros sh l q pr Hi. unfold finish. destruct (deliver e (c_pool c t) q pr) as [ts' o] eqn:E.
    apply deliver_shape in E. destruct E as [(-> & E)|(r & d & -> & E)]; cbn [ret_ev].
    - left. cbn [commit c_trace c_pool app]. rewrite upd_same. split; [reflexivity|]. rewrite Hi. exact E.
    - apply Hret; assumption. }
  unfold step.
  destruct (t_pc (c_pool c t)) as [|q|q b|q b|q b|q b got|q b got|q b got|q b got| |hm|hm] eqn:Hpc;
    [|assert (Hi : idle_b (c_pool c t) = false) by (unfold idle_b; rewrite Hpc; reflexivity);
      specialize (fun sh p l => Hsil sh p l Hi); specialize (fun sh ts' l r d => Hret sh ts' l r d Hi);
      specialize (fun sh l q pr => Hfin sh l q pr Hi)..].
  - assert (Hi : idle_b (c_pool c t) = true) by (unfold idle_b; rewrite Hpc; reflexivity).
    destruct (t_todo (c_pool c t)) as [|o rest]; [left; split; reflexivity|]. unfold call.
    destruct (call_res e (c_pool c t) o) as [p|bf r d] eqn:Ec.
    + apply call_res_go in Ec. right; left. cbn [commit c_trace c_pool app]. rewrite upd_same.
      split; [exact Hi|]. split; [unfold idle_b; cbn [t_pc]; destruct p; try reflexivity; contradiction|]. eexists. reflexivity.
    + right; right; left. cbn [commit c_trace c_pool app]. rewrite upd_same.
      split; [exact Hi|]. split; [reflexivity|]. eexists _, _, _. reflexivity.
  - destruct (e_kind e); first [apply Hfin|apply Hsil; exact I].
  - destruct (s_f (c_sh c)); first [apply Hfin|apply Hsil; exact I].
  - destruct (b =? s_y (c_sh c)); [apply Hsil; exact I|]. destruct (b <? s_y (c_sh c)); first [apply Hfin|apply Hsil; exact I].
  - destruct (s_f (c_sh c)); first [apply Hfin|apply Hsil; exact I].
  - destruct (crashes_now e (c_sh c)); [apply Hsil; exact I|].
    destruct (q_mode q), (src_next e (c_sh c)); try (apply Hsil; exact I);
      try (destruct (N.of_nat (length (n :: got)) =? q_n q); apply Hsil; exact I);
      try (destruct (N.of_nat (length (n0 :: got)) =? q_n q); apply Hsil; exact I).
  - destruct (q_mode q); first [apply Hfin|apply Hsil; exact I].
  - destruct (q_mode q); try apply Hfin.
    + destruct (s_y (c_sh c) =? b); [destruct (rev got)|]; apply Hfin.
    + destruct (s_y (c_sh c) =? b); [destruct (rev got)|]; apply Hfin.
  - destruct (q_ctx q), (q_mode q), (e_kind e), (t_buf (c_pool c t)); try (apply Hret; reflexivity);
      destruct (write_slots (bf_slots b0) (rev got)); apply Hret; reflexivity.
  - destruct (e_kind e); try (apply Hret; reflexivity);
      destruct (k_fetch_n e (e_len e) (s_c (c_sh c))) as [[|]|]; apply Hret; reflexivity.
  - destruct (e_kind e); try (apply Hret; reflexivity). destruct (s_f (c_sh c)); [apply Hret; reflexivity|].
    destruct (e_hint e); first [apply Hsil; exact I|apply Hret; reflexivity].
  - apply Hret; reflexivity.
Qed.

(** the state of a run in which only [t0] has run *)
Definition Solo (t0 : tid) (c : cfg) : Prop :=
  n_pending (c_trace c) = (if idle_b (c_pool c t0) then 0 else 1)%Z /\ solo_tr t0 (c_trace c) = true.

Lemma solo_init t0 progs : Solo t0 (init progs).
Proof. split; reflexivity. Qed.

Lemma solo_step e t0 c : Solo t0 c -> Solo t0 (step e c t0).
Proof.
  intros (Hn & Hs).
  destruct (step_solo e c t0) as [(Et & Ei)|[(Ei & Ei' & o & Et)|[(Ei & Ei' & o & r & d & Et)|(Ei & Ei' & r & d & Et)]]];
    unfold Solo; rewrite Et.
  - rewrite Ei. split; assumption.
  - rewrite Ei in Hn. rewrite Ei'. cbn [n_pending solo_tr]. rewrite Hn, Hs, Nat.eqb_refl. split; reflexivity.
  - rewrite Ei in Hn. rewrite Ei'. cbn [n_pending solo_tr]. rewrite Hn, Hs, Nat.eqb_refl. split; reflexivity.
  - rewrite Ei in Hn. rewrite Ei'. cbn [n_pending solo_tr]. rewrite Hn, Hs, Nat.eqb_refl. split; reflexivity.
Qed.

Lemma solo_exec e t0 sched : Forall (fun t => t = t0) sched -> forall c, Solo t0 c -> Solo t0 (exec e c sched).
Proof.
  induction 1 as [|t sched -> _ IH]; intros c Hc; [exact Hc|].
  rewrite exec_cons. apply IH. apply solo_step. exact Hc.
Qed.

(** ** from the clauses of C04 to the sequential order *)

(** every return event delivers intervals that are adjacent, and start where the deliveries before it end *)
Fixpoint seq_ok (e : env) (tr : list event) : bool :=
  match tr with
  | [] => true
  | ERet _ r _ :: tl => adjacent_from (iv_total (cov e tl)) (res_cover e r) && seq_ok e tl
  | _ :: tl => seq_ok e tl
  end.

Lemma seq_ok_in_order e tr : seq_ok e tr = true -> adjacent_from 0 (cov_in_order e tr) = true.
Proof.
  unfold cov_in_order. induction tr as [|ev tr IH]; intros H; [reflexivity|].
  cbn [rev]. rewrite cov_app, adjacent_from_app, iv_total_cov_rev, N.add_0_l.
  destruct ev as [u o|u r d|f r d]; cbn [seq_ok cov adjacent_from] in *.
  - rewrite (IH H). reflexivity.
  - apply andb_true_iff in H. destruct H as [H1 H2]. rewrite (IH H2), app_nil_r, H1. reflexivity.
  - rewrite (IH H). reflexivity.
Qed.

Lemma prefix_quiescent e tr : chk_C04_prefix e tr = true -> n_pending tr = 0%Z ->
  iv_total (cov e tr) = iv_maxhi (cov e tr).
Proof.
  destruct tr as [|ev tl]; [reflexivity|]. intros H Hq. cbn [chk_C04_prefix] in H.
  apply andb_true_iff in H. destruct H as [H _]. rewrite Hq in H. cbn [Z.eqb] in H. apply N.eqb_eq. exact H.
Qed.

Lemma prefix_tail e ev tr : chk_C04_prefix e (ev :: tr) = true -> chk_C04_prefix e tr = true.
Proof. cbn [chk_C04_prefix]. intros H. apply andb_true_iff in H. apply H. Qed.

Lemma solo_seq_ok e t0 tr : solo_tr t0 tr = true ->
  chk_C04_order e tr = true -> chk_C04_prefix e tr = true -> seq_ok e tr = true.
Proof.
  induction tr as [|ev tr IH]; intros Hs Ho Hp; [reflexivity|].
  destruct ev as [u o|u r d|f r d].
  - cbn [seq_ok]. cbn [solo_tr] in Hs. apply andb_true_iff in Hs. destruct Hs as [_ Hs].
    unfold chk_C04_order in *. rewrite all_rets_call in Ho. apply IH; [exact Hs|exact Ho|exact (prefix_tail _ _ _ Hp)].
  - pose proof (solo_ret _ _ _ _ _ Hs) as (-> & o & older & -> & Hq & Hso).
    assert (Hs' : solo_tr t0 (ECall t0 o :: older) = true).
    { cbn [solo_tr] in Hs. apply andb_true_iff in Hs. apply Hs. }
    unfold chk_C04_order in *. rewrite all_rets_ret in Ho. apply andb_true_iff in Ho. destruct Ho as [Hev Ho].
    pose proof (IH Hs' Ho (prefix_tail _ _ _ Hp)) as IH'. cbn [seq_ok] in IH' |- *. rewrite IH', andb_true_r.
    unfold ev_C04 in Hev. cbn [split_call] in Hev. rewrite Nat.eqb_refl in Hev.
    apply andb_true_iff in Hev. destruct Hev as [Hev Hab]. apply andb_true_iff in Hev. destruct Hev as [Hinc _].
    assert (Hq' : n_pending (ERet t0 r d :: ECall t0 o :: older) = 0%Z) by (cbn [n_pending]; lia).
    pose proof (prefix_quiescent e _ Hp Hq') as Hnow.
    pose proof (prefix_quiescent e older (prefix_tail _ _ _ (prefix_tail _ _ _ Hp)) Hq) as Hold.
    cbn [cov] in *. rewrite iv_total_app, iv_maxhi_app in Hnow. rewrite <- Hold in Hab.
    apply increasing_exact; [exact Hinc|exact Hab|lia].
  - cbn [solo_tr] in Hs. discriminate Hs.
Qed.

(** ** the theorems *)

Lemma src_C04 e : src_env e -> forall progs, wf_progs progs -> forall sched,
  nowrap (c_labels (exec e (init progs) sched)) ->
  check_prop 4 e (c_trace (exec e (init progs) sched)) (c_labels (exec e (init progs) sched)) = true.
Proof. intros [H|H] progs Hp sched Hw; [apply known_C04|apply iter_C04_any]; assumption. Qed.

(** every source kind (a wrapped iterator fused or not), every program of one thread, every number of its
    steps: as long as nothing has panicked, the delivered intervals, in the order of the return events, are
    adjacent and start at 0 *)
Theorem solo_sequential : forall e, src_env e -> forall progs, wf_progs progs ->
  forall t0 sched, Forall (fun t => t = t0) sched ->
  nowrap (c_labels (exec e (init progs) sched)) ->
  has_panic (c_trace (exec e (init progs) sched)) = false ->
  adjacent_from 0 (cov_in_order e (c_trace (exec e (init progs) sched))) = true.
Proof.
  intros e Hsrc progs Hp t0 sched Hsched Hw Hnp.
  pose proof (src_C04 e Hsrc progs Hp sched Hw) as H4. cbn [check_prop] in H4. rewrite Hnp in H4.
  apply andb_true_iff in H4. destruct H4 as [H4 Hpre]. apply andb_true_iff in H4. destruct H4 as [_ Hord].
  destruct (solo_exec e t0 sched Hsched (init progs) (solo_init t0 progs)) as (_ & Hs).
  apply seq_ok_in_order. apply (solo_seq_ok e t0); assumption.
Qed.

(** the same, position by position: the positions handed out are 0, 1, 2, ..., m - 1 in this order, where m
    is the number of positions delivered *)
Theorem solo_sequential_positions : forall e, src_env e -> forall progs, wf_progs progs ->
  forall t0 sched, Forall (fun t => t = t0) sched ->
  nowrap (c_labels (exec e (init progs) sched)) ->
  has_panic (c_trace (exec e (init progs) sched)) = false ->
  positions (cov_in_order e (c_trace (exec e (init progs) sched))) =
  run_vals 0 (N.to_nat (iv_total (cov e (c_trace (exec e (init progs) sched))))).
Proof.
  intros e Hsrc progs Hp t0 sched Hsched Hw Hnp.
  rewrite (adjacent_positions _ 0 (solo_sequential e Hsrc progs Hp t0 sched Hsched Hw Hnp)).
  unfold cov_in_order. rewrite iv_total_cov_rev. reflexivity.
Qed.

(** no operation of the programs can panic: no closure is told to panic, buffered pulls have a buffered
    iterator, no chunk size of a loop or of a buffered iterator is zero, the wrapped iterator does not panic *)
Lemma src_no_panic e : src_env e -> e_crash e = None -> forall progs, wf_progs progs -> plain_progs progs ->
  (forall t, Forall op_nz (progs t)) -> forall sched,
  nowrap (c_labels (exec e (init progs) sched)) ->
  has_panic (c_trace (exec e (init progs) sched)) = false.
Proof.
  intros [H|H] Hc progs Hp Hpl Hnz sched Hw; apply negb_true_iff;
    [apply known_C17_no_panic|apply iter_C17_no_panic]; assumption.
Qed.

Theorem solo_sequential_progs : forall e, src_env e -> e_crash e = None ->
  forall progs, wf_progs progs -> plain_progs progs -> (forall t, Forall op_nz (progs t)) ->
  forall t0 k,
  nowrap (c_labels (exec e (init progs) (repeat t0 k))) ->
  adjacent_from 0 (cov_in_order e (c_trace (exec e (init progs) (repeat t0 k)))) = true /\
  positions (cov_in_order e (c_trace (exec e (init progs) (repeat t0 k)))) =
  run_vals 0 (N.to_nat (iv_total (cov e (c_trace (exec e (init progs) (repeat t0 k)))))).
Proof.
  intros e Hsrc Hc progs Hp Hpl Hnz t0 k Hw.
  pose proof (src_no_panic e Hsrc Hc progs Hp Hpl Hnz _ Hw) as Hnp.
  assert (Hsched : Forall (fun t => t = t0) (repeat t0 k)).
  { apply Forall_forall. intros t Ht. apply repeat_spec in Ht. exact Ht. }
  split; [apply solo_sequential with (t0 := t0)|apply solo_sequential_positions with (t0 := t0)]; assumption.
Qed.
