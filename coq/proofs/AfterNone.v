(** * Once the wrapped next() has answered None, nobody calls it again.

    The thread that meets None (or a panic of the wrapped iterator) holds the ticket at the yielded counter
    until it publishes; it raises the completed flag BEFORE it publishes.  A thread that finds its ticket at
    the yielded counter afterwards looks at the completed flag once more ([PChkT]) and reports the end.  So
    no call of the wrapped next() follows one that answered None -- whether the None was the end of the
    wrapped iterator or a premature one ([e_gap]).

    Consequence: a run of a wrapped iterator that is not fused is, step for step, the run of the fused
    iterator that ends where the first None was answered ([cut]); what is proved for fused wrapped iterators
    holds for every wrapped iterator, with the length of the source replaced by the number of elements
    yielded before the first None wherever a property mentions it. *)
From Coq Require Import Lia ZArith List.
From OCI Require Import Machine Checkers.
From OCI.proofs Require Import Base Trace ArithOk InvKnown ChkKnown Progress IterBase IterProt InvIterA InvIterH ChkIter ChkAll IterC11 IterQuiet GapFree.
Import ListNotations.
Open Scope N_scope.

(** ** the property, on label streams (latest label first, as the machine accumulates them) *)

(** a call of the wrapped next() *)
Definition is_src (l : label) : bool := match l with LSrc _ _ | LSrcPanic _ => true | _ => false end.
(** a call of the wrapped next() that answered None *)
Definition is_none (l : label) : bool := match l with LSrc _ None => true | _ => false end.
(** a call of the wrapped next() that answered None or panicked *)
Definition is_stop (l : label) : bool := match l with LSrc _ None | LSrcPanic _ => true | _ => false end.

(** no call of the wrapped next() after one that answered None *)
Fixpoint no_src_after_none (ls : list label) : bool :=
  match ls with
  | [] => true
  | l :: tl => (negb (is_src l) || negb (existsb is_none tl)) && no_src_after_none tl
  end.

(** no call of the wrapped next() after one that answered None or panicked *)
Fixpoint no_src_after_stop (ls : list label) : bool :=
  match ls with
  | [] => true
  | l :: tl => (negb (is_src l) || negb (existsb is_stop tl)) && no_src_after_stop tl
  end.

Lemma none_is_stop l : is_none l = true -> is_stop l = true.
Proof. destruct l as [u|u s k a r o|u [p|]|u]; try discriminate; reflexivity. Qed.

Lemma exists_none_stop ls : existsb is_none ls = true -> existsb is_stop ls = true.
Proof.
  induction ls as [|l tl IH]; cbn [existsb]; [discriminate|]. intros H. apply orb_true_iff in H. apply orb_true_iff.
  destruct H as [H|H]; [left; apply none_is_stop; exact H|right; apply IH; exact H].
Qed.

Lemma after_stop_after_none ls : no_src_after_stop ls = true -> no_src_after_none ls = true.
Proof.
  induction ls as [|l tl IH]; [reflexivity|]. cbn [no_src_after_stop no_src_after_none]. intros H.
  apply andb_true_iff in H. destruct H as [H1 H2]. rewrite (IH H2), andb_true_r.
  destruct (is_src l); [|reflexivity]. cbn [negb orb] in *.
  destruct (existsb is_none tl) eqn:E; [|reflexivity]. rewrite (exists_none_stop tl E) in H1. discriminate.
Qed.

(** the thread is about to raise the completed flag: the wrapped next() answered None to it, or panicked *)
Definition closing (p : pc) : bool := match p with PSetF _ _ _ | PUnw _ _ _ => true | _ => false end.

Lemma closing_crit p : closing p = true -> in_crit p = true.
Proof. destruct p; try discriminate; reflexivity. Qed.

(** some call of the wrapped next() has answered None or panicked *)
Definition stopped (c : cfg) : bool := existsb is_stop (c_labels c).

Section Stop.

Variable e : env.
Hypothesis Hk : e_kind e = KIter.
Variable L : list tid.

(** the invariant: after the first None (or panic) nobody is about to call the wrapped next(), and the
    completed flag is up or the thread that met the None is about to raise it (it is still inside the
    critical section); before it, every call has yielded an element and none was a gap *)
Record Stp (c : cfg) : Prop := {
  st_scan : no_src_after_stop (c_labels c) = true;
  st_src  : stopped c = true -> forall t q b g, t_pc (c_pool c t) <> PSrc q b g;
  st_flag : stopped c = true -> s_f (c_sh c) = true \/ exists t, closing (t_pc (c_pool c t)) = true;
  st_cnt  : stopped c = false -> s_calls (c_sh c) = s_cur (c_sh c) /\ gap_free e (s_calls (c_sh c))
}.

(** a step that does not call the wrapped next() *)
Lemma stp_commit c t sh' ts' l evs :
  Stp c -> is_src l = false ->
  (s_f (c_sh c) = true -> s_f sh' = true) ->
  s_calls sh' = s_calls (c_sh c) -> s_cur sh' = s_cur (c_sh c) ->
  (stopped c = true -> forall q b g, t_pc ts' <> PSrc q b g) ->
  (closing (t_pc (c_pool c t)) = true -> s_f sh' = true \/ closing (t_pc ts') = true) ->
  Stp (commit c t sh' ts' l evs).
Proof.
  intros I Hl Sf Ec Eu Hsrc Hcl.
  assert (Hst : stopped (commit c t sh' ts' l evs) = stopped c).
  { unfold stopped. cbn [commit c_labels existsb]. destruct l as [u|u s k a r o|u [p|]|u]; try reflexivity; discriminate Hl. }
  split.
  - cbn [commit c_labels no_src_after_stop]. rewrite Hl. cbn [negb orb andb]. apply (st_scan c I).
  - rewrite Hst. intros H u q b g. cbn [commit c_pool]. destruct (Nat.eq_dec u t) as [->|Hn].
    + rewrite upd_same. apply Hsrc. exact H.
    + rewrite upd_other by assumption. apply (st_src c I H).
  - rewrite Hst. intros H. cbn [commit c_sh c_pool]. destruct (st_flag c I H) as [Hf|(u & Hu)]; [left; apply Sf; exact Hf|].
    destruct (Nat.eq_dec u t) as [->|Hn].
    + destruct (Hcl Hu) as [Hf|Hc]; [left; exact Hf|right; exists t; rewrite upd_same; exact Hc].
    + right. exists u. rewrite upd_other by assumption. exact Hu.
  - rewrite Hst. intros H. cbn [commit c_sh]. rewrite Ec, Eu. apply (st_cnt c I H).
Qed.

Ltac sf := solve [intros H; exact H | intros _; assumption | discriminate | intros _; reflexivity].

Lemma stp_step c t : IInvA e L c -> Stp c -> In t L -> Stp (step e c t).
Proof.
  intros A I Hin.
  assert (Hfin : forall sh' l q pr, is_src l = false -> (s_f (c_sh c) = true -> s_f sh' = true) ->
            s_calls sh' = s_calls (c_sh c) -> s_cur sh' = s_cur (c_sh c) ->
            (closing (t_pc (c_pool c t)) = true -> s_f sh' = true) ->
            Stp (finish e c t sh' (c_pool c t) l q pr)).
  { intros sh' l q pr Hl Sf Ec Eu Hcl.
    destruct (finish_form e Hk c t sh' (c_pool c t) l q pr) as (ts' & evs & -> & Ct' & _).
    apply stp_commit; try assumption.
    - intros _ q0 b0 g0 E. rewrite E in Ct'. discriminate Ct'.
    - intros Hc. left. apply Hcl. exact Hc. }
  assert (Hgo : forall sh' p' l evs, is_src l = false -> (s_f (c_sh c) = true -> s_f sh' = true) ->
            s_calls sh' = s_calls (c_sh c) -> s_cur sh' = s_cur (c_sh c) ->
            (forall q b g, p' <> PSrc q b g) ->
            (closing (t_pc (c_pool c t)) = true -> s_f sh' = true \/ closing p' = true) ->
            Stp (commit c t sh' (set_pc (c_pool c t) p') l evs)).
  { intros sh' p' l evs Hl Sf Ec Eu Hp Hcl. apply stp_commit; try assumption. intros _. exact Hp. }
  destruct (t_pc (c_pool c t)) as [|q|q b|q b|q b|q b got|q b got|q b got|q b got| |hm|hm] eqn:Hpc.
  - (* call point *)
    destruct (t_todo (c_pool c t)) as [|o rest] eqn:Htodo.
    + rewrite (istep_idle_nil e c t) by assumption. exact I.
    + rewrite (istep_idle_call e c t o rest) by assumption. unfold call.
      destruct (a_wf e L c A t) as (_ & Hops & Hbuf). rewrite Htodo in Hops. inversion Hops as [|? ? Hwo _]; subst.
      destruct (call_res e (c_pool c t) o) as [p|bf r d] eqn:E.
      * destruct (call_go_iter e Hk _ _ _ E Hwo Hbuf) as (_ & Cp & _).
        apply stp_commit; [exact I|reflexivity|sf|reflexivity|reflexivity| |rewrite Hpc; discriminate].
        cbn [t_pc]. intros _ q b g Ep. rewrite Ep in Cp. discriminate Cp.
      * apply stp_commit; [exact I|reflexivity|sf|reflexivity|reflexivity| |rewrite Hpc; discriminate].
        cbn [t_pc]. intros _ q b g Ep. discriminate Ep.
  - (* reservation *)
    rewrite (istep_res e Hk c t q Hpc).
    apply Hgo; [reflexivity|sf|reflexivity|reflexivity|discriminate|discriminate].
  - (* completed flag *)
    rewrite (istep_chkf e c t q b Hpc). destruct (s_f (c_sh c)) eqn:Ef.
    + apply Hfin; [reflexivity|sf|reflexivity|reflexivity|discriminate].
    + apply Hgo; [reflexivity|sf|reflexivity|reflexivity|discriminate|discriminate].
  - (* yielded counter *)
    rewrite (istep_ldy e c t q b Hpc). destruct (b =? s_y (c_sh c)).
    + apply Hgo; [reflexivity|sf|reflexivity|reflexivity|discriminate|discriminate].
    + destruct (b <? s_y (c_sh c)).
      * apply Hfin; [reflexivity|sf|reflexivity|reflexivity|discriminate].
      * apply Hgo; [reflexivity|sf|reflexivity|reflexivity|discriminate|discriminate].
  - (* its turn: the completed flag once more -- the only way into [PSrc] *)
    rewrite (istep_chkt e c t q b Hpc). destruct (s_f (c_sh c)) eqn:Ef.
    + apply Hfin; [reflexivity|sf|reflexivity|reflexivity|discriminate].
    + apply stp_commit; [exact I|reflexivity|sf|reflexivity|reflexivity| |rewrite Hpc; discriminate].
      intros Hs. exfalso. destruct (st_flag c I Hs) as [Hf|(u & Hu)]; [congruence|].
      assert (u = t) as ->.
      { apply (mutex e L c A); [apply closing_crit; exact Hu|rewrite Hpc; reflexivity]. }
      rewrite Hpc in Hu. discriminate Hu.
  - (* one call of the wrapped next() *)
    assert (Hns : stopped c = false).
    { destruct (stopped c) eqn:Hs; [|reflexivity]. exfalso. apply (st_src c I Hs t q b got Hpc). }
    destruct (st_cnt c I Hns) as [Hcnt Hgf].
    assert (Hoth : forall u q' b' g', u <> t -> t_pc (c_pool c u) <> PSrc q' b' g').
    { intros u q' b' g' Hne E. apply Hne. apply (mutex e L c A); [rewrite E; reflexivity|rewrite Hpc; reflexivity]. }
    assert (Hstop : forall sh' p' l, is_stop l = true -> closing p' = true ->
              Stp (commit c t sh' (set_pc (c_pool c t) p') l [])).
    { intros sh' p' l Hl Cp.
      assert (Hst : stopped (commit c t sh' (set_pc (c_pool c t) p') l []) = true)
        by (unfold stopped; cbn [commit c_labels existsb]; rewrite Hl; reflexivity).
      split.
      - cbn [commit c_labels no_src_after_stop]. fold (stopped c). rewrite Hns. cbn [negb]. rewrite orb_true_r. cbn [andb]. apply (st_scan c I).
      - intros _ u q' b' g'. cbn [commit c_pool]. destruct (Nat.eq_dec u t) as [->|Hn].
        + rewrite upd_same. cbn [set_pc t_pc]. intros E. rewrite E in Cp. discriminate Cp.
        + rewrite upd_other by assumption. apply Hoth. assumption.
      - intros _. right. exists t. cbn [commit c_pool]. rewrite upd_same. exact Cp.
      - rewrite Hst. discriminate. }
    assert (Hyield : forall p', e_gap e (s_calls (c_sh c)) = false ->
              Stp (commit c t (with_src (c_sh c) (s_cur (c_sh c) + 1) (s_calls (c_sh c) + 1)) (set_pc (c_pool c t) p')
                          (LSrc t (Some (s_cur (c_sh c)))) [])).
    { intros p' Hg0.
      assert (Hst : stopped (commit c t (with_src (c_sh c) (s_cur (c_sh c) + 1) (s_calls (c_sh c) + 1)) (set_pc (c_pool c t) p')
                          (LSrc t (Some (s_cur (c_sh c)))) []) = false)
        by (unfold stopped; cbn [commit c_labels existsb is_stop orb]; exact Hns).
      split.
      - cbn [commit c_labels no_src_after_stop]. fold (stopped c). rewrite Hns. cbn [negb]. rewrite orb_true_r. cbn [andb]. apply (st_scan c I).
      - rewrite Hst. discriminate.
      - rewrite Hst. discriminate.
      - intros _. cbn [commit c_sh with_src s_calls s_cur]. split; [lia|].
        intros k Hlt. destruct (N.eq_dec k (s_calls (c_sh c))) as [->|Hne]; [exact Hg0|apply Hgf; lia]. }
    unfold step. rewrite Hpc.
    destruct (crashes_now e (c_sh c)); [apply Hstop; reflexivity|].
    destruct (src_next e (c_sh c)) as [p|] eqn:Es.
    + assert (p = s_cur (c_sh c) /\ e_gap e (s_calls (c_sh c)) = false) as [-> Eg].
      { unfold src_next in Es. destruct (e_gap e (s_calls (c_sh c))); [discriminate Es|].
        destruct (s_cur (c_sh c) <? e_len e); [injection Es as <-; auto|discriminate Es]. }
      destruct (q_mode q); try (apply Hyield; exact Eg);
        (destruct (N.of_nat (length (s_cur (c_sh c) :: got)) =? q_n q); apply Hyield; exact Eg).
    + destruct (q_mode q); apply Hstop; reflexivity.
  - (* the wrapped next() answered None: raising the completed flag *)
    rewrite (istep_setf e c t q b got Hpc). destruct (q_mode q).
    + apply Hfin; [reflexivity|sf|reflexivity|reflexivity|intros _; reflexivity].
    + apply Hgo; [reflexivity|sf|reflexivity|reflexivity|discriminate|intros _; left; reflexivity].
    + apply Hgo; [reflexivity|sf|reflexivity|reflexivity|discriminate|intros _; left; reflexivity].
  - (* publishing *)
    unfold step. rewrite Hpc.
    assert (Hf : forall pr, Stp (finish e c t (with_y (c_sh c) (wadd (s_y (c_sh c)) (pub_incr q))) (c_pool c t)
                                        (LAtom t SY AAdd (pub_incr q) (s_y (c_sh c)) (o_pub q)) q pr)).
    { intros pr. apply Hfin; [reflexivity|sf|reflexivity|reflexivity|discriminate]. }
    destruct (q_mode q); [apply Hf| |].
    + destruct (s_y (c_sh c) =? b); [destruct (rev got)|]; apply Hf.
    + destruct (s_y (c_sh c) =? b); [destruct (rev got)|]; apply Hf.
  - (* unwinding from a panic of the wrapped iterator *)
    unfold step. rewrite Hpc.
    assert (Hg : forall ts' evs, t_pc ts' = PIdle ->
               Stp (commit c t (with_f (c_sh c) true) ts' (LAtom t SF AStore 1 0 ord_completed_store_unwind) evs)).
    { intros ts' evs Hp'. apply stp_commit; [exact I|reflexivity|sf|reflexivity|reflexivity| |intros _; left; reflexivity].
      intros _ q0 b0 g0 E. rewrite Hp' in E. discriminate E. }
    destruct (q_ctx q); [|apply Hg; reflexivity].
    destruct (q_mode q); try (apply Hg; reflexivity).
    rewrite Hk. destruct (t_buf (c_pool c t)) as [bf|]; [|apply Hg; reflexivity].
    destruct (write_slots (bf_slots bf) (rev got)). apply Hg; reflexivity.
  - (* skip_to_end *)
    rewrite (istep_skip e Hk c t Hpc).
    apply Hgo; [reflexivity|sf|reflexivity|reflexivity|discriminate|discriminate].
  - (* length queries *)
    rewrite (istep_len e Hk c t hm Hpc).
    assert (Hg : forall p' l evs, is_src l = false -> (forall q b g, p' <> PSrc q b g) ->
               Stp (commit c t (c_sh c) (set_pc (c_pool c t) p') l evs)).
    { intros p' l evs Hl Hp. apply Hgo; [exact Hl|sf|reflexivity|reflexivity|exact Hp|discriminate]. }
    destruct (s_f (c_sh c)) eqn:Ef; [apply Hg; [reflexivity|discriminate]|].
    destruct (e_hint e); apply Hg; try reflexivity; discriminate.
  - rewrite (istep_len2 e c t hm Hpc).
    apply Hgo; [reflexivity|sf|reflexivity|reflexivity|discriminate|discriminate].
Qed.

Lemma stp_init progs : Stp (init progs).
Proof.
  split; unfold stopped; cbn [init c_labels c_sh c_pool existsb no_src_after_stop s_calls s_cur]; try discriminate; try reflexivity.
  intros _. split; [reflexivity|]. intros k Hlt. lia.
Qed.

Hypothesis NDL : NoDup L.

Lemma stp_exec progs sched :
  (forall t, Forall wf_op (progs t)) -> Forall (fun t => In t L) sched ->
  nowrap (c_labels (exec e (init progs) sched)) -> Stp (exec e (init progs) sched).
Proof.
  intros Hp. induction sched as [|t sched IH] using rev_ind; intros Hs Hw; [apply stp_init|].
  rewrite exec_snoc in *. apply Forall_app in Hs. destruct Hs as [Hs Ht]. inversion Ht as [|? ? Hin _]; subst.
  pose proof (step_labels_suffix e _ _ Hw) as Hw1.
  apply stp_step; [apply (iA_exec e Hk L NDL); assumption|apply IH; assumption|exact Hin].
Qed.

End Stop.

Lemma stp_run e progs sched : iter_env e -> wf_progs progs ->
  nowrap (c_labels (exec e (init progs) sched)) -> Stp e (exec e (init progs) sched).
Proof.
  intros (He & Hk) Hp Hw.
  apply (stp_exec e Hk (nodup Nat.eq_dec sched) (NoDup_nodup _ _)); try assumption.
  apply Forall_forall. intros t Ht. apply nodup_In. exact Ht.
Qed.

(** ** B1: on every run, no call of the wrapped next() follows one that answered None (or panicked) *)

Theorem iter_no_src_after_stop : forall e, iter_env e -> forall progs, wf_progs progs -> forall sched,
  nowrap (c_labels (exec e (init progs) sched)) ->
  no_src_after_stop (c_labels (exec e (init progs) sched)) = true.
Proof. intros e Hie progs Hp sched Hw. apply (st_scan e _ (stp_run e progs sched Hie Hp Hw)). Qed.

Theorem iter_no_src_after_none : forall e, iter_env e -> forall progs, wf_progs progs -> forall sched,
  nowrap (c_labels (exec e (init progs) sched)) ->
  no_src_after_none (c_labels (exec e (init progs) sched)) = true.
Proof. intros e Hie progs Hp sched Hw. apply after_stop_after_none. apply iter_no_src_after_stop; assumption. Qed.

(** the state form: once some call has answered None, in every later state no thread is about to call the
    wrapped next(), and the completed flag is up or the thread that met the None (it is still inside its
    critical section) is about to raise it *)
Theorem iter_none_is_final : forall e, iter_env e -> forall progs, wf_progs progs -> forall sched,
  nowrap (c_labels (exec e (init progs) sched)) ->
  existsb is_none (c_labels (exec e (init progs) sched)) = true ->
  (forall t q b g, t_pc (c_pool (exec e (init progs) sched) t) <> PSrc q b g) /\
  (s_f (c_sh (exec e (init progs) sched)) = true \/
   exists t, closing (t_pc (c_pool (exec e (init progs) sched) t)) = true).
Proof.
  intros e Hie progs Hp sched Hw Hn. pose proof (stp_run e progs sched Hie Hp Hw) as I.
  assert (Hs : stopped (exec e (init progs) sched) = true) by (apply exists_none_stop; exact Hn).
  split; [apply (st_src e _ I Hs)|apply (st_flag e _ I Hs)].
Qed.

Print Assumptions iter_no_src_after_none.
Print Assumptions iter_none_is_final.

(** ** B2: the run of any wrapped iterator is the run of a fused one

    [cut e g]: the fused wrapped iterator that yields the elements [e] yields before its call number [g]
    (the first call that answers None although elements remain).  The crash point is kept: the calls are
    numbered alike in both runs. *)
Definition cut (e : env) (g : N) : env :=
  {| e_kind := e_kind e; e_adaptor := e_adaptor e; e_len := N.min (e_len e) g; e_start := e_start e; e_end := e_end e;
     e_hint := e_hint e; e_owning := e_owning e; e_mode := e_mode e; e_crash := e_crash e; e_gap := fun _ => false |}.

Lemma cut_fused e g : fused (cut e g).
Proof. intros k. reflexivity. Qed.

Lemma cut_iter_env e g : iter_env e -> iter_env (cut e g).
Proof.
  intros [[Hl Hx] Hk]. split; [|exact Hk]. split; [cbn [cut e_len]; lia|].
  cbn [cut e_kind]. rewrite Hk. exact Logic.I.
Qed.

Lemma cut_len_le e g : e_len (cut e g) <= e_len e.
Proof. cbn [cut e_len]. lia. Qed.

(** call number [g] is the first that answers None although elements may remain *)
Definition first_gap (e : env) (g : N) : Prop := gap_free e g /\ e_gap e g = true.

(** whether there is such a call among the first [n] can be searched for *)
Lemma first_gap_dec e : forall n, gap_free e n \/ exists g, g < n /\ first_gap e g.
Proof.
  induction n as [|n IH] using N.peano_ind.
  - left. intros k Hlt. lia.
  - destruct IH as [H|(g & Hlt & H1)].
    + destruct (e_gap e n) eqn:E.
      * right. exists n. split; [lia|]. split; assumption.
      * left. intros k Hlt. destruct (N.eq_dec k n) as [->|Hne]; [exact E|apply H; lia].
    + right. exists g. split; [lia|exact H1].
Qed.

(** the length queries of a wrapped iterator with an exact size hint report the length the iterator
    announced when the concurrent iterator was created ([e_len]), which [cut] changes: two results of a
    length query are identified *)
Definition blur_res (r : res) : res := match r with RLen _ | RMore _ => RLen None | x => x end.
Definition blur_ev (ev : event) : event := match ev with ERet t r d => ERet t (blur_res r) d | x => x end.

(** the same configuration up to the answers of the length queries *)
Definition sim (c c' : cfg) : Prop :=
  c_sh c = c_sh c' /\ c_pool c = c_pool c' /\ c_labels c = c_labels c' /\
  map blur_ev (c_trace c) = map blur_ev (c_trace c').

Lemma sim_refl c : sim c c.
Proof. repeat split; reflexivity. Qed.

Lemma sim_commit c c' t sh ts l evs evs' :
  sim c c' -> map blur_ev evs = map blur_ev evs' ->
  sim (commit c t sh ts l evs) (commit c' t sh ts l evs').
Proof.
  intros (H1 & H2 & H3 & H4) He. unfold sim, commit. cbn [c_sh c_pool c_labels c_trace].
  rewrite H2, H3, !map_app, H4, He. repeat split; reflexivity.
Qed.

Section Cut.

Variable e : env.
Hypothesis Hk : e_kind e = KIter.
Variable g : N.
Hypothesis Hfg : first_gap e g.
Let e' := cut e g.

Lemma drops_after_cut k rs : drops_after e' k rs = drops_after e k rs.
Proof.
  revert k. induction rs as [|r tl IH]; intros k; cbn [drops_after]; [reflexivity|].
  rewrite !IH. reflexivity.
Qed.

Lemma deliver_cut ts q pr : deliver e' ts q pr = deliver e ts q pr.
Proof.
  unfold deliver, deliver_top, deliver_loop. rewrite ?drops_after_cut.
  destruct (q_ctx q); destruct pr as [[|b rs cnt]|k]; try reflexivity.
  - destruct (q_mode q); rewrite ?drops_after_cut; reflexivity.
  - destruct (loop_invoke l crash (total_cnt (t_acc ts)) rs cnt) as [inv [used|]]; rewrite ?drops_after_cut; reflexivity.
Qed.

Lemma sim_finish c c' t sh ts l q pr :
  sim c c' -> sim (finish e c t sh ts l q pr) (finish e' c' t sh ts l q pr).
Proof.
  intros H. unfold finish. rewrite deliver_cut. destruct (deliver e ts q pr) as [ts' o].
  apply sim_commit; [exact H|reflexivity].
Qed.

(** as long as every call has yielded an element and none was a gap, the wrapped iterators answer alike *)
Lemma src_next_cut sh :
  s_calls sh = s_cur sh -> gap_free e (s_calls sh) -> src_next e' sh = src_next e sh.
Proof.
  intros Hc Hn. destruct Hfg as [Hgf Hg]. unfold src_next. cbn [e' cut e_gap e_len]. rewrite <- Hc.
  assert (Hle : s_calls sh <= g).
  { destruct (N.le_gt_cases (s_calls sh) g) as [H|H]; [exact H|]. rewrite (Hn g H) in Hg. discriminate Hg. }
  destruct (N.eq_dec (s_calls sh) g) as [E|E].
  - rewrite E, Hg. destruct (N.ltb_spec g (N.min (e_len e) g)); [lia|reflexivity].
  - rewrite (Hgf (s_calls sh)) by lia.
    destruct (N.ltb_spec (s_calls sh) (N.min (e_len e) g)), (N.ltb_spec (s_calls sh) (e_len e)); try reflexivity; lia.
Qed.

Ltac same_sim H :=
  repeat first
    [ exact H | apply sim_finish
    | solve [apply sim_commit; [exact H|reflexivity]]
    | match goal with |- sim (match ?x with _ => _ end) _ => destruct x eqn:? end
    | match goal with |- sim (if ?x then _ else _) _ => destruct x eqn:? end
    | match goal with |- sim (let '(_, _) := ?x in _) _ => destruct x eqn:? end ].

(** one step, from the same state (up to the answers of the length queries): the same step *)
Lemma step_cut c c' t :
  sim c c' ->
  (forall q b got, t_pc (c_pool c t) = PSrc q b got ->
     s_calls (c_sh c) = s_cur (c_sh c) /\ gap_free e (s_calls (c_sh c))) ->
  sim (step e c t) (step e' c' t).
Proof.
  intros H Hsrc. pose proof H as (H1 & H2 & H3 & H4). unfold step. rewrite <- H1, <- H2.
  change (e_kind e') with (e_kind e).
  change (e_hint e') with (e_hint e).
  change (crashes_now e') with (crashes_now e).
  rewrite !Hk. cbv beta iota.
  destruct (t_pc (c_pool c t)) as [|q|q b|q b|q b|q b got|q b got|q b got|q b got| |hm|hm] eqn:Hpc.
  - destruct (t_todo (c_pool c t)) as [|o rest]; [exact H|]. unfold call.
    change (call_res e' (c_pool c t) o) with (call_res e (c_pool c t) o).
    destruct (call_res e (c_pool c t) o); rewrite <- H1; apply sim_commit; try exact H; reflexivity.
  - same_sim H.
  - same_sim H.
  - same_sim H.
  - same_sim H.
  - destruct (Hsrc q b got eq_refl) as [Hc Hn]. rewrite (src_next_cut (c_sh c) Hc Hn). same_sim H.
  - same_sim H.
  - same_sim H.
  - change (drops_of_list e') with (drops_of_list e). same_sim H.
  - same_sim H.
  - same_sim H.
  - apply sim_commit; [exact H|]. destruct hm; reflexivity.
Qed.

(** when no length query is about to read the reserved counter (size hints that are not exact: never), the
    very same step *)
Lemma finish_cut c t sh ts l q pr : finish e' c t sh ts l q pr = finish e c t sh ts l q pr.
Proof. unfold finish. rewrite deliver_cut. reflexivity. Qed.

Lemma step_cut_eq c t :
  (forall hm, t_pc (c_pool c t) <> PLen2 hm) ->
  (forall q b got, t_pc (c_pool c t) = PSrc q b got ->
     s_calls (c_sh c) = s_cur (c_sh c) /\ gap_free e (s_calls (c_sh c))) ->
  step e' c t = step e c t.
Proof.
  intros Hl2 Hsrc. unfold step.
  change (e_kind e') with (e_kind e).
  change (e_hint e') with (e_hint e).
  change (crashes_now e') with (crashes_now e).
  rewrite !Hk. cbv beta iota.
  destruct (t_pc (c_pool c t)) as [|q|q b|q b|q b|q b got|q b got|q b got|q b got| |hm|hm] eqn:Hpc.
  6: { destruct (Hsrc q b got eq_refl) as [Hc Hn]. rewrite (src_next_cut (c_sh c) Hc Hn). reflexivity. }
  11: { contradiction (Hl2 hm). reflexivity. }
  all: repeat first
    [ reflexivity
    | rewrite finish_cut
    | rewrite drops_after_cut
    | match goal with |- match ?x with _ => _ end = _ => destruct x end
    | match goal with |- (if ?x then _ else _) = _ => destruct x end ].
Qed.

End Cut.

(** the whole run *)
Lemma exec_cut e g progs sched : iter_env e -> first_gap e g -> wf_progs progs ->
  nowrap (c_labels (exec e (init progs) sched)) ->
  sim (exec e (init progs) sched) (exec (cut e g) (init progs) sched).
Proof.
  intros Hie Hfg Hp. pose proof Hie as [He Hk].
  induction sched as [|t s IH] using rev_ind; intros Hw; [apply sim_refl|].
  rewrite !exec_snoc in *. pose proof (step_labels_suffix e _ _ Hw) as Hw1.
  apply (step_cut e Hk g Hfg); [apply IH; exact Hw1|].
  intros q b got Hpc. pose proof (stp_run e progs s Hie Hp Hw1) as I.
  apply (st_cnt e _ I). destruct (stopped (exec e (init progs) s)) eqn:Hs; [|reflexivity].
  exfalso. apply (st_src e _ I Hs t q b got Hpc).
Qed.

(** a size hint that is not exact: the length queries never read the reserved counter, and the two runs are
    the same run, event for event *)
Lemma exec_cut_eq e g progs sched : iter_env e -> first_gap e g -> e_hint e <> HExact -> wf_progs progs ->
  nowrap (c_labels (exec e (init progs) sched)) ->
  exec (cut e g) (init progs) sched = exec e (init progs) sched.
Proof.
  intros Hie Hfg Hh Hp. pose proof Hie as [He Hk].
  induction sched as [|t s IH] using rev_ind; intros Hw; [reflexivity|].
  rewrite !exec_snoc in *. pose proof (step_labels_suffix e _ _ Hw) as Hw1. rewrite (IH Hw1).
  apply (step_cut_eq e Hk g Hfg).
  - intros hm Hpc.
    assert (HL : Forall (fun u => In u (nodup Nat.eq_dec s)) s) by (apply Forall_forall; intros u Hu; apply nodup_In; exact Hu).
    destruct (iABCD_exec e Hk (or_intror Hh) (nodup Nat.eq_dec s) (NoDup_nodup _ _) progs s Hp HL Hw1) as (_ & _ & _ & D).
    destruct (d_len2 e _ _ D t hm Hpc) as [Hx _]. contradiction.
  - intros q b got Hpc. pose proof (stp_run e progs s Hie Hp Hw1) as I.
    apply (st_cnt e _ I). destruct (stopped (exec e (init progs) s)) eqn:Hs; [|reflexivity].
    exfalso. apply (st_src e _ I Hs t q b got Hpc).
Qed.

(** ** the checkers of C01--C04 do not look at the answers of the length queries *)

Lemma res_cover_blur x r : res_cover x (blur_res r) = res_cover x r.
Proof. destruct r; reflexivity. Qed.
Lemma res_runs_blur r : res_runs (blur_res r) = res_runs r.
Proof. destruct r; reflexivity. Qed.
Lemma is_end_blur r : is_end (blur_res r) = is_end r.
Proof. destruct r; reflexivity. Qed.
Lemma is_panic_blur r : is_panic (blur_res r) = is_panic r.
Proof. destruct r; reflexivity. Qed.
Lemma chunk_ok_blur x n k r : chunk_ok x n k (blur_res r) = chunk_ok x n k r.
Proof. destruct r; reflexivity. Qed.

Lemma cov_blur x tr : cov x (map blur_ev tr) = cov x tr.
Proof. induction tr as [|ev tr IH]; [reflexivity|]. destruct ev; cbn [map blur_ev cov]; rewrite ?res_cover_blur, ?IH; reflexivity. Qed.

Lemma cov_of_blur x t tr : cov_of x t (map blur_ev tr) = cov_of x t tr.
Proof. induction tr as [|ev tr IH]; [reflexivity|]. destruct ev; cbn [map blur_ev cov_of]; rewrite ?res_cover_blur, ?IH; reflexivity. Qed.

Lemma n_pending_blur tr : n_pending (map blur_ev tr) = n_pending tr.
Proof. induction tr as [|ev tr IH]; [reflexivity|]. destruct ev; cbn [map blur_ev n_pending]; rewrite ?IH; reflexivity. Qed.

Lemma has_skip_blur tr : has_skip (map blur_ev tr) = has_skip tr.
Proof. induction tr as [|ev tr IH]; [reflexivity|]. destruct ev as [u o|u r d|f r d]; cbn [map blur_ev has_skip]; try destruct o; rewrite ?IH; reflexivity. Qed.

Lemma has_panic_blur tr : has_panic (map blur_ev tr) = has_panic tr.
Proof. induction tr as [|ev tr IH]; [reflexivity|]. destruct ev; cbn [map blur_ev has_panic]; rewrite ?is_panic_blur, ?IH; reflexivity. Qed.

Lemma split_call_blur t tr :
  split_call t (map blur_ev tr) = match split_call t tr with Some (o, older) => Some (o, map blur_ev older) | None => None end.
Proof.
  induction tr as [|ev tr IH]; [reflexivity|]. destruct ev as [u o|u r d|f r d]; cbn [map blur_ev split_call]; try exact IH.
  destruct (Nat.eqb u t); [reflexivity|exact IH].
Qed.

Lemma buf_size_blur t tr : buf_size t (map blur_ev tr) = buf_size t tr.
Proof.
  induction tr as [|ev tr IH]; [reflexivity|]. destruct ev as [u o|u r d|f r d]; cbn [map blur_ev buf_size]; try exact IH.
  destruct o; try exact IH. rewrite IH. reflexivity.
Qed.

Lemma end_reported_blur tr : end_reported (map blur_ev tr) = end_reported tr.
Proof.
  induction tr as [|ev tr IH]; [reflexivity|]. destruct ev as [u o|u r d|f r d]; cbn [map blur_ev end_reported]; try exact IH.
  rewrite is_end_blur, split_call_blur, IH. destruct (split_call u tr) as [[o older]|]; reflexivity.
Qed.

Lemma all_rets_blur (P : tid -> res -> list drops -> list event -> bool) tr :
  (forall t r d tl, P t (blur_res r) d (map blur_ev tl) = P t r d tl) ->
  all_rets P (map blur_ev tr) = all_rets P tr.
Proof.
  intros H. induction tr as [|ev tr IH]; [reflexivity|]. destruct ev; cbn [map blur_ev all_rets]; rewrite ?H, ?IH; reflexivity.
Qed.

Lemma nodup_blur x tr : chk_C01_nodup x (map blur_ev tr) = chk_C01_nodup x tr.
Proof. unfold chk_C01_nodup. rewrite cov_blur. reflexivity. Qed.

Lemma noloss_blur x tr : chk_C01_noloss x (map blur_ev tr) = chk_C01_noloss x tr.
Proof. unfold chk_C01_noloss. rewrite end_reported_blur, n_pending_blur, cov_blur. reflexivity. Qed.

Lemma C02_blur x tr : chk_C02 x (map blur_ev tr) = chk_C02 x tr.
Proof. unfold chk_C02. apply all_rets_blur. intros t r d tl. unfold ev_C02. rewrite res_runs_blur. reflexivity. Qed.

Lemma C03_blur x tr : chk_C03 x (map blur_ev tr) = chk_C03 x tr.
Proof.
  unfold chk_C03. apply all_rets_blur. intros t r d tl. unfold ev_C03. rewrite split_call_blur.
  destruct (split_call t tl) as [[o older]|]; [|reflexivity].
  destruct o; try reflexivity; rewrite ?buf_size_blur, ?chunk_ok_blur; try reflexivity.
  destruct (buf_size t older); [apply chunk_ok_blur|reflexivity].
Qed.

Lemma C04_order_blur x tr : chk_C04_order x (map blur_ev tr) = chk_C04_order x tr.
Proof.
  unfold chk_C04_order. apply all_rets_blur. intros t r d tl. unfold ev_C04.
  rewrite res_cover_blur, cov_of_blur, split_call_blur.
  destruct (split_call t tl) as [[o older]|]; [rewrite cov_blur|]; reflexivity.
Qed.

Lemma C04_prefix_blur x tr : chk_C04_prefix x (map blur_ev tr) = chk_C04_prefix x tr.
Proof.
  induction tr as [|ev tr IH]; [reflexivity|].
  change (map blur_ev (ev :: tr)) with (blur_ev ev :: map blur_ev tr). cbn [chk_C04_prefix].
  change (blur_ev ev :: map blur_ev tr) with (map blur_ev (ev :: tr)).
  rewrite n_pending_blur, cov_blur, IH. reflexivity.
Qed.

(** ** the checkers that do not mention the length of the source judge a history alike under [e] and [cut e g];
       those that mention it as an upper bound of what is delivered only (no duplicate, index fidelity) hold
       under [e] when they hold under [cut e g], whose source is not longer *)

Lemma cov_cut e g tr : cov (cut e g) tr = cov e tr.
Proof. induction tr as [|ev tr IH]; [reflexivity|]. destruct ev; cbn [cov]; rewrite ?IH; reflexivity. Qed.

Lemma cov_of_cut e g t tr : cov_of (cut e g) t tr = cov_of e t tr.
Proof. induction tr as [|ev tr IH]; [reflexivity|]. destruct ev; cbn [cov_of]; rewrite ?IH; reflexivity. Qed.

(** the two checkers that bound what is delivered by the length of the source: what lies inside the shorter
    source lies inside the longer one *)
Lemma nodup_cut e g tr : chk_C01_nodup (cut e g) tr = true -> chk_C01_nodup e tr = true.
Proof.
  unfold chk_C01_nodup. rewrite cov_cut. intros H. apply andb_true_iff in H. destruct H as [H1 H2].
  rewrite H1. cbn [andb]. apply iv_within_mono with (e_len (cut e g)); [apply cut_len_le|exact H2].
Qed.

Lemma run_idx_ok_cut e g r : run_idx_ok (cut e g) r = true -> run_idx_ok e r = true.
Proof.
  intros H. apply run_idx_ok_intro. intros Hz. destruct (run_idx_ok_elim _ _ H Hz) as (b & Hv & Hb & Hi).
  exists b. split; [exact Hv|]. split; [pose proof (cut_len_le e g); lia|exact Hi].
Qed.

Lemma C02_cut e g tr : chk_C02 (cut e g) tr = true -> chk_C02 e tr = true.
Proof.
  unfold chk_C02. apply all_rets_impl. intros t r d tl. unfold ev_C02. rewrite !forallb_forall.
  intros H x Hx. apply run_idx_ok_cut with g. apply H. exact Hx.
Qed.

Lemma C04_order_cut e g tr : chk_C04_order (cut e g) tr = chk_C04_order e tr.
Proof.
  unfold chk_C04_order. apply all_rets_ext. intros t r d tl. unfold ev_C04. rewrite cov_of_cut.
  destruct (split_call t tl) as [[o older]|]; [rewrite cov_cut|]; reflexivity.
Qed.

Lemma C04_prefix_cut e g tr : chk_C04_prefix (cut e g) tr = chk_C04_prefix e tr.
Proof. induction tr as [|ev tr IH]; [reflexivity|]. cbn [chk_C04_prefix]. rewrite IH, cov_cut. reflexivity. Qed.

Lemma C05_cut e g tr : chk_C05 (cut e g) tr = chk_C05 e tr.
Proof. unfold chk_C05. apply all_rets_ext. intros t r d tl. reflexivity. Qed.

Lemma C12_src_cut e g tr : chk_C12_src (cut e g) tr = chk_C12_src e tr.
Proof. unfold chk_C12_src. apply all_rets_ext. intros t r d tl. reflexivity. Qed.

Lemma C06_stop_cut e g tr : chk_C06_stop (cut e g) tr = chk_C06_stop e tr.
Proof. unfold chk_C06_stop. apply all_rets_ext. intros t r d tl. reflexivity. Qed.

(** ** every property of the fused wrapped iterators, for the wrapped iterator whose first premature None
       is the answer to call number [g]: judged with the length of the source replaced by the number of
       elements yielded before that call *)

Theorem iter_after_first_gap : forall e, iter_env e -> forall g, first_gap e g ->
  forall progs, wf_progs progs -> forall sched,
  nowrap (c_labels (exec e (init progs) sched)) ->
  let tr := c_trace (exec e (init progs) sched) in
  let ls := c_labels (exec e (init progs) sched) in
  check_prop 1 (cut e g) tr ls = true /\ check_prop 2 (cut e g) tr ls = true /\ check_prop 3 (cut e g) tr ls = true /\
  check_prop 4 (cut e g) tr ls = true /\ check_prop 6 (cut e g) tr ls = true /\ check_prop 12 (cut e g) tr ls = true.
Proof.
  intros e Hie g Hfg progs Hp sched Hw tr ls. subst tr ls.
  pose proof (cut_iter_env e g Hie) as Hie'. pose proof (cut_fused e g) as Hfu.
  destruct (exec_cut e g progs sched Hie Hfg Hp Hw) as (_ & _ & Hl & Ht).
  assert (Hw' : nowrap (c_labels (exec (cut e g) (init progs) sched))) by (rewrite <- Hl; exact Hw).
  pose proof (iter_C01 (cut e g) Hie' Hfu progs Hp sched Hw') as H1.
  pose proof (iter_C02 (cut e g) Hie' Hfu progs Hp sched Hw') as H2.
  pose proof (iter_C03 (cut e g) Hie' Hfu progs Hp sched Hw') as H3.
  pose proof (iter_C04 (cut e g) Hie' Hfu progs Hp sched Hw') as H4.
  pose proof (iter_C05 e Hie progs Hp sched Hw) as H5.
  pose proof (iter_C06_stop e Hie progs Hp sched Hw) as H6.
  pose proof (iter_C12_shape e Hie progs Hp sched Hw) as H12.
  pose proof (src_panic_ok e progs sched) as H12s.
  set (tr := c_trace (exec e (init progs) sched)) in *.
  set (tr' := c_trace (exec (cut e g) (init progs) sched)) in *.
  assert (Es : has_skip tr = has_skip tr') by (rewrite <- (has_skip_blur tr), Ht, has_skip_blur; reflexivity).
  assert (Ep : has_panic tr = has_panic tr') by (rewrite <- (has_panic_blur tr), Ht, has_panic_blur; reflexivity).
  assert (E1 : chk_C01_nodup (cut e g) tr = chk_C01_nodup (cut e g) tr') by (rewrite <- (nodup_blur _ tr), Ht, nodup_blur; reflexivity).
  assert (E1' : chk_C01_noloss (cut e g) tr = chk_C01_noloss (cut e g) tr') by (rewrite <- (noloss_blur _ tr), Ht, noloss_blur; reflexivity).
  assert (E2 : chk_C02 (cut e g) tr = chk_C02 (cut e g) tr') by (rewrite <- (C02_blur _ tr), Ht, C02_blur; reflexivity).
  assert (E3 : chk_C03 (cut e g) tr = chk_C03 (cut e g) tr') by (rewrite <- (C03_blur _ tr), Ht, C03_blur; reflexivity).
  assert (E4 : chk_C04_order (cut e g) tr = chk_C04_order (cut e g) tr') by (rewrite <- (C04_order_blur _ tr), Ht, C04_order_blur; reflexivity).
  assert (E4' : chk_C04_prefix (cut e g) tr = chk_C04_prefix (cut e g) tr') by (rewrite <- (C04_prefix_blur _ tr), Ht, C04_prefix_blur; reflexivity).
  cbn [check_prop] in *. unfold chk_C06.
  rewrite C05_cut, C06_stop_cut, C12_src_cut, E1, E1', E2, E3, E4, E4', Es, Ep, H5, H6, H12, H12s.
  apply andb_true_iff in H4. destruct H4 as [H4 H4p]. apply andb_true_iff in H4. destruct H4 as [H4n H4o].
  apply andb_true_iff in H1. destruct H1 as [H1n H1l].
  rewrite H1n, H1l, H2, H3, H4o, H4p. repeat split; reflexivity.
Qed.

Print Assumptions iter_after_first_gap.

(** ** the properties that do not mention the length of the source, or mention it only as an upper bound of
       the positions delivered, hold for every wrapped iterator, as stated

    no position is delivered twice (the checker of C01 itself, with its mixed accounting by indices and
    values: indices and positions never differ, because nothing is delivered after the first None), index
    fidelity (C02), one linearizable cursor (C04), skip_to_end (C06) *)
Theorem iter_any_iterator : forall e, iter_env e -> forall progs, wf_progs progs -> forall sched,
  nowrap (c_labels (exec e (init progs) sched)) ->
  let tr := c_trace (exec e (init progs) sched) in
  let ls := c_labels (exec e (init progs) sched) in
  chk_C01_nodup e tr = true /\ check_prop 2 e tr ls = true /\ check_prop 4 e tr ls = true /\ check_prop 6 e tr ls = true /\
  chk_C12_shape tr && chk_C01_nodup e tr && chk_C02 e tr && chk_C05 e tr = true.
Proof.
  intros e Hie progs Hp sched Hw tr ls.
  pose proof (iter_C05 e Hie progs Hp sched Hw) as H5. pose proof (iter_C12_shape e Hie progs Hp sched Hw) as H12.
  fold tr in H5, H12.
  assert (Hmain : chk_C01_nodup e tr = true /\ check_prop 2 e tr ls = true /\ check_prop 4 e tr ls = true /\ check_prop 6 e tr ls = true).
  { destruct (first_gap_dec e (s_calls (c_sh (exec e (init progs) sched)))) as [Hgf|(g & _ & Hfg)].
    - destruct (iter_until_first_gap e Hie progs Hp sched Hw Hgf) as (H1 & H2 & _ & H4 & H6 & _).
      fold tr ls in H1, H2, H4, H6. cbn [check_prop] in H1. apply andb_true_iff in H1. destruct H1 as [H1 _]. auto.
    - destruct (iter_after_first_gap e Hie g Hfg progs Hp sched Hw) as (H1 & H2 & _ & H4 & H6 & _).
      fold tr ls in H1, H2, H4, H6. cbn [check_prop] in *. unfold chk_C06 in *.
      rewrite ?C04_order_cut, ?C04_prefix_cut, ?C06_stop_cut in *.
      apply andb_true_iff in H1. destruct H1 as [H1 _]. apply nodup_cut in H1. apply C02_cut in H2.
      apply andb_true_iff in H4. destruct H4 as [H4 H4p]. apply andb_true_iff in H4. destruct H4 as [_ H4o].
      apply andb_true_iff in H6. destruct H6 as [H6 H6o]. apply andb_true_iff in H6. destruct H6 as [H6 _].
      apply andb_true_iff in H6. destruct H6 as [H6 _].
      rewrite H1, H2, H4o, H4p, H6. auto. }
  destruct Hmain as (H1 & H2 & H4 & H6). repeat split; try assumption.
  cbn [check_prop] in H2. rewrite H12, H1, H2, H5. reflexivity.
Qed.

Print Assumptions iter_any_iterator.

Theorem iter_nodup_any : forall e, iter_env e -> forall progs, wf_progs progs -> forall sched,
  nowrap (c_labels (exec e (init progs) sched)) ->
  chk_C01_nodup e (c_trace (exec e (init progs) sched)) = true.
Proof. intros e Hie progs Hp sched Hw. destruct (iter_any_iterator e Hie progs Hp sched Hw) as (H & _). exact H. Qed.

Theorem iter_C02_any : forall e, iter_env e -> forall progs, wf_progs progs -> forall sched,
  nowrap (c_labels (exec e (init progs) sched)) ->
  check_prop 2 e (c_trace (exec e (init progs) sched)) (c_labels (exec e (init progs) sched)) = true.
Proof. intros e Hie progs Hp sched Hw. destruct (iter_any_iterator e Hie progs Hp sched Hw) as (_ & H & _). exact H. Qed.

Theorem iter_C04_any : forall e, iter_env e -> forall progs, wf_progs progs -> forall sched,
  nowrap (c_labels (exec e (init progs) sched)) ->
  check_prop 4 e (c_trace (exec e (init progs) sched)) (c_labels (exec e (init progs) sched)) = true.
Proof. intros e Hie progs Hp sched Hw. destruct (iter_any_iterator e Hie progs Hp sched Hw) as (_ & _ & H & _). exact H. Qed.

Theorem iter_C06_any : forall e, iter_env e -> forall progs, wf_progs progs -> forall sched,
  nowrap (c_labels (exec e (init progs) sched)) ->
  check_prop 6 e (c_trace (exec e (init progs) sched)) (c_labels (exec e (init progs) sched)) = true.
Proof. intros e Hie progs Hp sched Hw. destruct (iter_any_iterator e Hie progs Hp sched Hw) as (_ & _ & _ & H & _). exact H. Qed.

Theorem iter_C12_any : forall e, iter_env e -> forall progs, wf_progs progs -> forall sched,
  nowrap (c_labels (exec e (init progs) sched)) ->
  chk_C12_shape (c_trace (exec e (init progs) sched)) && chk_C01_nodup e (c_trace (exec e (init progs) sched))
  && chk_C02 e (c_trace (exec e (init progs) sched)) && chk_C05 e (c_trace (exec e (init progs) sched)) = true.
Proof. intros e Hie progs Hp sched Hw. destruct (iter_any_iterator e Hie progs Hp sched Hw) as (_ & _ & _ & _ & H). exact H. Qed.

(** the properties that mention the length of the source (no loss in C01 and C12, "a chunk is short only at
    the end" in C03), for the wrapped iterator whose first premature None is the answer to call number [g] *)
Theorem iter_C01_after_gap : forall e, iter_env e -> forall g, first_gap e g -> forall progs, wf_progs progs -> forall sched,
  nowrap (c_labels (exec e (init progs) sched)) ->
  check_prop 1 (cut e g) (c_trace (exec e (init progs) sched)) (c_labels (exec e (init progs) sched)) = true.
Proof. intros e Hie g Hfg progs Hp sched Hw. destruct (iter_after_first_gap e Hie g Hfg progs Hp sched Hw) as (H & _). exact H. Qed.

Theorem iter_C03_after_gap : forall e, iter_env e -> forall g, first_gap e g -> forall progs, wf_progs progs -> forall sched,
  nowrap (c_labels (exec e (init progs) sched)) ->
  check_prop 3 (cut e g) (c_trace (exec e (init progs) sched)) (c_labels (exec e (init progs) sched)) = true.
Proof. intros e Hie g Hfg progs Hp sched Hw. destruct (iter_after_first_gap e Hie g Hfg progs Hp sched Hw) as (_ & _ & H & _). exact H. Qed.

Theorem iter_C12_after_gap : forall e, iter_env e -> forall g, first_gap e g -> forall progs, wf_progs progs -> forall sched,
  nowrap (c_labels (exec e (init progs) sched)) ->
  check_prop 12 (cut e g) (c_trace (exec e (init progs) sched)) (c_labels (exec e (init progs) sched)) = true.
Proof. intros e Hie g Hfg progs Hp sched Hw. destruct (iter_after_first_gap e Hie g Hfg progs Hp sched Hw) as (_ & _ & _ & _ & _ & H). exact H. Qed.

(** ** for ANY wrapped iterator, the run is the run of a fused one

    the environment [e'] differs from [e] in the number of elements of the source (it is not larger) and in
    [e_gap] only; the two runs go through the same states, with the same label streams, and the same
    histories up to the numbers the length queries answer *)
Definition same_but_len (e e' : env) : Prop :=
  e_kind e' = e_kind e /\ e_adaptor e' = e_adaptor e /\ e_start e' = e_start e /\ e_end e' = e_end e /\
  e_hint e' = e_hint e /\ e_owning e' = e_owning e /\ e_mode e' = e_mode e /\ e_crash e' = e_crash e /\
  e_len e' <= e_len e.

Theorem iter_runs_as_fused : forall e, iter_env e -> forall progs, wf_progs progs -> forall sched,
  nowrap (c_labels (exec e (init progs) sched)) ->
  exists e', iter_env e' /\ fused e' /\ same_but_len e e' /\
    sim (exec e (init progs) sched) (exec e' (init progs) sched) /\
    let tr := c_trace (exec e (init progs) sched) in
    let ls := c_labels (exec e (init progs) sched) in
    check_prop 1 e' tr ls = true /\ check_prop 2 e' tr ls = true /\ check_prop 3 e' tr ls = true /\
    check_prop 4 e' tr ls = true /\ check_prop 6 e' tr ls = true /\ check_prop 12 e' tr ls = true.
Proof.
  intros e Hie progs Hp sched Hw.
  destruct (first_gap_dec e (s_calls (c_sh (exec e (init progs) sched)))) as [Hgf|(g & _ & Hfg)].
  - exists (defuse e).
    assert (Hie' : iter_env (defuse e)) by (destruct Hie as [H1 H2]; split; [exact H1|exact H2]).
    split; [exact Hie'|]. split; [apply defuse_fused|].
    split; [repeat split; try reflexivity; cbn [defuse e_len]; lia|].
    pose proof (exec_defuse e sched (init progs) Hgf) as Ex.
    split; [rewrite Ex; apply sim_refl|].
    pose proof (defuse_fused e) as Hfu.
    assert (Hw' : nowrap (c_labels (exec (defuse e) (init progs) sched))) by (rewrite Ex; exact Hw).
    pose proof (iter_C01 (defuse e) Hie' Hfu progs Hp sched Hw') as H1.
    pose proof (iter_C02 (defuse e) Hie' Hfu progs Hp sched Hw') as H2.
    pose proof (iter_C03 (defuse e) Hie' Hfu progs Hp sched Hw') as H3.
    pose proof (iter_C04 (defuse e) Hie' Hfu progs Hp sched Hw') as H4.
    pose proof (iter_C06 (defuse e) Hie' Hfu progs Hp sched Hw') as H6.
    pose proof (iter_C12 (defuse e) Hie' Hfu progs Hp sched Hw') as H12.
    rewrite Ex in *. cbv zeta. cbn [check_prop]. repeat split; assumption.
  - exists (cut e g). split; [apply cut_iter_env; exact Hie|]. split; [apply cut_fused|].
    split; [repeat split; try reflexivity; apply cut_len_le|].
    split; [apply exec_cut; assumption|].
    apply iter_after_first_gap; assumption.
Qed.

Print Assumptions iter_runs_as_fused.

(** a size hint that is not exact (inexact or unbounded): the run of a wrapped iterator whose first premature
    None is the answer to call number [g] IS the run of [cut e g], configuration for configuration *)
Theorem iter_cut_same_run : forall e, iter_env e -> e_hint e <> HExact -> forall g, first_gap e g ->
  forall progs, wf_progs progs -> forall sched,
  nowrap (c_labels (exec e (init progs) sched)) ->
  exec (cut e g) (init progs) sched = exec e (init progs) sched.
Proof. intros e Hie Hh g Hfg progs Hp sched Hw. apply exec_cut_eq; assumption. Qed.

Print Assumptions iter_cut_same_run.
