(** * C14, clause "no sequence of safe public calls produces two owners": the public surface of the crate.

    The internal protocols (the pull of a buffered chunk at a given begin index, the owning chunk cursor,
    the default loops) move elements out of a consuming iterator without consulting the position counter;
    what keeps safe clients away from them is module privacy.  [gen/Surface.v] is regenerated from the
    source on every run; the lemmas below pin the set of modules a client can name and the re-exports of
    the crate root to the reviewed ones, so that a module or item that becomes reachable breaks a proof.
    (The public low-level trait [iter::atomic_iter] is part of this surface: known findings F11, F15.) *)
From Coq Require Import List String.
From OCI.gen Require Import Surface.
Import ListNotations.
Open Scope string_scope.

Lemma known_public_modules : public_modules = ["iter"; "iter::atomic_iter"].
Proof. reflexivity. Qed.

Lemma known_root_reexports : root_reexports =
  ["has_more::HasMore"; "iter::atomic_counter::AtomicCounter"; "iter::cloned::{Cloned,IntoCloned}";
   "iter::con_iter::ConcurrentIter"; "iter::constructors::con_iterable::ConcurrentIterable";
   "iter::constructors::into_con_iter::{IntoConcurrentIter,IterIntoConcurrentIter}";
   "iter::copied::{Copied,IntoCopied}";
   "iter::implementors::{array::ConIterOfArray,iter::ConIterOfIter,range::ConIterOfRange,slice::ConIterOfSlice,vec::ConIterOfVec,}";
   "iter::wrappers::{ids_and_values::ConIterIdsAndValues,values::ConIterValues}"; "next::{Next,NextChunk}"].
Proof. reflexivity. Qed.

(** the modules that hold the internal protocols are not nameable *)
Lemma internal_modules_private :
  forallb (fun m => existsb (String.eqb m) private_modules)
          ["iter::buffered"; "iter::buffered::buffered_chunk"; "iter::buffered::buffered_iter"; "iter::implementors";
           "iter::implementors::taken_slice"; "iter::default_fns"; "iter::constructors::implementors"] = true.
Proof. reflexivity. Qed.
