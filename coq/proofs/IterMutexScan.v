(** * C07 (a) on the label stream: the mutual-exclusion scan [chk_C07_mutex] is true on the labels of
      every run of the wrapper over an arbitrary iterator.  (The scan is what judges the crate's label
      streams; this theorem says it never objects to the model.) *)
From Coq Require Import Lia ZArith Permutation.
From OCI Require Import Machine Checkers.
From OCI.proofs Require Import Base Trace ArithOk InvKnown ChkKnown IterBase IterProt InvIterA InvIterH Progress IterFair.
Open Scope N_scope.

(** the scan as a left fold with an accumulated verdict *)
Fixpoint cs_final (s : cs_state) (ls : list label) : cs_state :=
  match ls with [] => s | l :: tl => cs_final (fst (cs_step s l)) tl end.

Lemma cs_scan_snoc s ls x : cs_scan s (ls ++ [x]) = cs_scan s ls && snd (cs_step (cs_final s ls) x).
Proof.
  revert s. induction ls as [|l ls IH]; intros s; cbn [app cs_scan cs_final].
  - destruct (cs_step s x) as [s' ok]. cbn [snd cs_scan]. rewrite andb_true_r. reflexivity.
  - destruct (cs_step s l) as [s' ok] eqn:E. cbn [fst]. rewrite IH. rewrite andb_assoc. reflexivity.
Qed.

Lemma cs_final_snoc s ls x : cs_final s (ls ++ [x]) = fst (cs_step (cs_final s ls) x).
Proof. revert s. induction ls as [|l ls IH]; intros s; cbn [app cs_final]; [reflexivity|apply IH]. Qed.

Definition cs0 : cs_state := {| cs_ticket := []; cs_in := [] |}.

(** association lists and thread lists *)
Lemma assoc_get_set t v u l : assoc_get u (assoc_set t v l) = if Nat.eqb u t then Some v else assoc_get u l.
Proof.
  unfold assoc_set. cbn [assoc_get]. rewrite (Nat.eqb_sym t u). destruct (Nat.eqb_spec u t) as [->|Hne]; [reflexivity|].
  induction l as [|[w x] l IH]; cbn [filter assoc_get fst]; [reflexivity|].
  destruct (Nat.eqb_spec w t) as [->|Hw]; cbn [negb].
  - destruct (Nat.eqb_spec t u); [congruence|exact IH].
  - cbn [assoc_get]. destruct (Nat.eqb w u); [reflexivity|exact IH].
Qed.

Lemma assoc_get_filter t u l : u <> t -> assoc_get u (filter (fun p => negb (Nat.eqb (fst p) t)) l) = assoc_get u l.
Proof.
  intros Hne. induction l as [|[w x] l IH]; cbn [filter assoc_get fst]; [reflexivity|].
  destruct (Nat.eqb_spec w t) as [->|Hw]; cbn [negb].
  - destruct (Nat.eqb_spec t u); [congruence|exact IH].
  - cbn [assoc_get]. destruct (Nat.eqb w u); [reflexivity|exact IH].
Qed.

Lemma tid_mem_del t u l : tid_mem u (tid_del t l) = tid_mem u l && negb (Nat.eqb u t).
Proof.
  unfold tid_mem, tid_del. induction l as [|w l IH]; cbn [filter existsb]; [reflexivity|].
  destruct (Nat.eqb_spec w t) as [->|Hw]; cbn [negb existsb].
  - rewrite IH. destruct (Nat.eqb_spec u t) as [->|]; cbn [negb]; [rewrite andb_false_r, andb_false_r; reflexivity|].
    rewrite andb_true_r. destruct (existsb (Nat.eqb u) l); reflexivity.
  - rewrite IH. destruct (Nat.eqb_spec u w) as [->|]; cbn [orb]; [|reflexivity].
    destruct (Nat.eqb_spec w t); [contradiction|reflexivity].
Qed.

Lemma no_member_nil l : (forall u, tid_mem u l = false) -> l = [].
Proof. destruct l as [|w l]; [reflexivity|]. intros H. specialize (H w). unfold tid_mem in H. cbn [existsb] in H. rewrite Nat.eqb_refl in H. discriminate. Qed.

Section Scan.

Variable e : env.
Hypothesis Hk : e_kind e = KIter.
Variable L : list tid.
Hypothesis NDL : NoDup L.

(** the thread has found its ticket at the yielded counter and has neither stored nor published since *)
Definition at_src (p : pc) : bool := match p with PChkT _ _ | PSrc _ _ _ => true | _ => false end.

Lemma at_src_crit p : at_src p = true -> in_crit p = true.
Proof. destruct p; try discriminate; reflexivity. Qed.

(** how the state of the scan relates to the state of the machine.  A thread that the scan counts as
    inside is inside its critical section, or it has left it at the second look at the completed flag
    (which performs no store, so the scan keeps it until its next call): in that case the ticket at the
    yielded counter has been given up for good ([dead]) and nobody will ever enter again *)
Record R (c : cfg) (st : cs_state) : Prop := {
  r_src  : forall t, at_src (t_pc (c_pool c t)) = true -> tid_mem t (cs_in st) = true;
  r_in   : forall u, tid_mem u (cs_in st) = true -> in_crit (t_pc (c_pool c u)) = true \/ dead c;
  r_tk   : forall t b n, ticket (t_pc (c_pool c t)) = Some (b, n) -> assoc_get t (cs_ticket st) = Some b
}.

Definition st_of (c : cfg) : cs_state := cs_final cs0 (rev (c_labels c)).

Record S (c : cfg) : Prop := { s_ok : chk_C07_mutex (c_labels c) = true; s_r : R c (st_of c) }.

(** one commit: the new label is judged in the state reached so far *)
Lemma s_commit c t sh' ts' l evs :
  S c -> snd (cs_step (st_of c) l) = true ->
  R (commit c t sh' ts' l evs) (fst (cs_step (st_of c) l)) ->
  S (commit c t sh' ts' l evs).
Proof.
  intros I Hok Hr. split.
  - unfold chk_C07_mutex. cbn [commit c_labels rev]. rewrite cs_scan_snoc. change (cs_final {| cs_ticket := []; cs_in := [] |} (rev (c_labels c))) with (st_of c).
    rewrite Hok, andb_true_r. apply (s_ok c I).
  - unfold st_of. cbn [commit c_labels rev]. rewrite cs_final_snoc. exact Hr.
Qed.

(** a label the scan does not look at, by a thread whose ticket and side of the critical section stay *)
Lemma r_same c t sh' ts' l evs st :
  R c st ->
  (dead c -> dead (commit c t sh' ts' l evs)) ->
  ticket (t_pc ts') = ticket (t_pc (c_pool c t)) \/ ticket (t_pc ts') = None ->
  (in_crit (t_pc (c_pool c t)) = true -> in_crit (t_pc ts') = true \/ dead (commit c t sh' ts' l evs)) ->
  (at_src (t_pc ts') = true -> at_src (t_pc (c_pool c t)) = true) ->
  R (commit c t sh' ts' l evs) st.
Proof.
  intros I Hd Ht Hc Hs. split.
  - intros u. cbn [commit c_pool]. destruct (Nat.eq_dec u t) as [->|Hn]; [rewrite upd_same|rewrite upd_other by assumption; apply (r_src c st I)].
    intros E. apply (r_src c st I t (Hs E)).
  - intros u Hu. destruct (r_in c st I u Hu) as [H|H]; [|right; apply Hd; exact H].
    cbn [commit c_pool]. destruct (Nat.eq_dec u t) as [->|Hn]; [rewrite upd_same; apply Hc; exact H|rewrite upd_other by assumption; left; exact H].
  - intros u b n. cbn [commit c_pool]. destruct (Nat.eq_dec u t) as [->|Hn]; [rewrite upd_same|rewrite upd_other by assumption; apply (r_tk c st I)].
    intros E. destruct Ht as [Ht|Ht]; [rewrite Ht in E; apply (r_tk c st I t b n E)|rewrite Ht in E; discriminate].
Qed.

(** the general frame lemma: thread [t] moves to [ts'], the scan to [st'] *)
Lemma r_upd c t sh' ts' l evs st st' :
  R c st ->
  (dead c -> dead (commit c t sh' ts' l evs)) ->
  (forall u, u <> t -> tid_mem u (cs_in st') = tid_mem u (cs_in st) /\ assoc_get u (cs_ticket st') = assoc_get u (cs_ticket st)) ->
  (at_src (t_pc ts') = true -> tid_mem t (cs_in st') = true) ->
  (tid_mem t (cs_in st') = true -> in_crit (t_pc ts') = true \/ dead (commit c t sh' ts' l evs)) ->
  (forall b n, ticket (t_pc ts') = Some (b, n) -> assoc_get t (cs_ticket st') = Some b) ->
  R (commit c t sh' ts' l evs) st'.
Proof.
  intros I Hd Ho H1 H2 H3. split.
  - intros u. cbn [commit c_pool]. destruct (Nat.eq_dec u t) as [->|Hn]; [rewrite upd_same; apply H1|rewrite upd_other by assumption].
    intros E. rewrite (proj1 (Ho u Hn)). apply (r_src c st I u E).
  - intros u. destruct (Nat.eq_dec u t) as [->|Hn]; [cbn [commit c_pool]; rewrite upd_same; exact H2|].
    rewrite (proj1 (Ho u Hn)). intros Hu. destruct (r_in c st I u Hu) as [H|H]; [|right; apply Hd; exact H].
    left. cbn [commit c_pool]. rewrite upd_other by assumption. exact H.
  - intros u b n. cbn [commit c_pool]. destruct (Nat.eq_dec u t) as [->|Hn]; [rewrite upd_same; apply H3|rewrite upd_other by assumption].
    rewrite (proj2 (Ho u Hn)). apply (r_tk c st I).
Qed.

(** the thread leaves the critical section, or was never in it: the scan drops it from its set *)
Lemma r_leave c t sh' ts' l evs st :
  R c st ->
  (dead c -> dead (commit c t sh' ts' l evs)) ->
  at_src (t_pc ts') = false ->
  ticket (t_pc ts') = ticket (t_pc (c_pool c t)) \/ ticket (t_pc ts') = None ->
  R (commit c t sh' ts' l evs) {| cs_ticket := cs_ticket st; cs_in := tid_del t (cs_in st) |}.
Proof.
  intros I Hd Hs Ht. apply r_upd with st; try assumption; cbn [cs_in cs_ticket].
  - intros u Hn. rewrite tid_mem_del. destruct (Nat.eqb_spec u t); [contradiction|]. rewrite andb_true_r. auto.
  - rewrite Hs. discriminate.
  - rewrite tid_mem_del, Nat.eqb_refl, andb_false_r. discriminate.
  - intros b n E. destruct Ht as [Ht|Ht]; [rewrite Ht in E; apply (r_tk c st I t b n E)|rewrite Ht in E; discriminate].
Qed.

Lemma finish_scan c t sh l q pr :
  exists ts' evs, finish e c t sh (c_pool c t) l q pr = commit c t sh ts' l evs /\
                  ticket (t_pc ts') = None /\ in_crit (t_pc ts') = false /\ at_src (t_pc ts') = false.
Proof.
  unfold finish. destruct (deliver e (c_pool c t) q pr) as [ts' o] eqn:E. exists ts', (ret_ev t o). split; [reflexivity|].
  destruct (deliver_w _ _ _ _ _ _ E) as (_ & [->|(-> & _)]); repeat split; reflexivity.
Qed.

(** every goal below has the form [(dead c -> dead c') -> S c'] where [c'] is the configuration after
    the step: [dead_step] is carried along while [step e c t] is rewritten into its [commit] form *)
Lemma s_step c t : IInvA e L c -> S c -> In t L -> istep_nowrap c t -> S (step e c t).
Proof.
  intros A I Hin Hw. pose proof (a_prot e L c A) as P. pose proof (s_r c I) as Rc.
  pose proof (dead_step e Hk L c t A Hw) as Hd0. revert Hd0. clear Hw.
  destruct (t_pc (c_pool c t)) as [|q|q b|q b|q b|q b got|q b got|q b got|q b got| |hm|hm] eqn:Hpc.
  - (* call point *)
    destruct (t_todo (c_pool c t)) as [|o rest] eqn:Htodo.
    + rewrite (istep_idle_nil e c t) by assumption. intros _. exact I.
    + rewrite (istep_idle_call e c t o rest) by assumption. unfold call.
      destruct (a_wf e L c A t) as (_ & Hops & Hbuf). rewrite Htodo in Hops. inversion Hops as [|? ? Hwo _]; subst.
      assert (Hg : forall ts' evs, ticket (t_pc ts') = None -> in_crit (t_pc ts') = false ->
                (dead c -> dead (commit c t (c_sh c) ts' (LCall t) evs)) ->
                S (commit c t (c_sh c) ts' (LCall t) evs)).
      { intros ts' evs Tn Cn Hd. apply s_commit; [exact I|reflexivity|]. cbn [cs_step fst].
        apply r_upd with (st_of c); try assumption; cbn [cs_in cs_ticket].
        - intros u Hn. rewrite tid_mem_del. destruct (Nat.eqb_spec u t); [contradiction|]. rewrite andb_true_r.
          rewrite assoc_get_filter by assumption. auto.
        - intros E. rewrite (at_src_crit _ E) in Cn. discriminate.
        - rewrite tid_mem_del, Nat.eqb_refl, andb_false_r. discriminate.
        - intros b n E. rewrite Tn in E. discriminate. }
      destruct (call_res e (c_pool c t) o) as [p|bf r d] eqn:E.
      * destruct (call_go_iter e Hk _ _ _ E Hwo Hbuf) as (Tp & Cp & _). intros Hd. apply Hg; assumption.
      * intros Hd. apply Hg; [reflexivity|reflexivity|exact Hd].
  - (* reservation *)
    rewrite (istep_res e Hk c t q Hpc). intros Hd. apply s_commit; [exact I|reflexivity|]. cbn [cs_step fst].
    apply r_upd with (st_of c); try assumption; cbn [cs_in cs_ticket set_pc t_pc].
    + intros u Hn. rewrite assoc_get_set. destruct (Nat.eqb_spec u t); [contradiction|]. auto.
    + discriminate.
    + intros Hm. destruct (r_in c _ Rc t Hm) as [Hc|Hc]; [rewrite Hpc in Hc; discriminate|right; apply Hd; exact Hc].
    + intros b n E. cbn [ticket] in E. injection E as <- _. rewrite assoc_get_set, Nat.eqb_refl. reflexivity.
  - (* completed flag *)
    rewrite (istep_chkf e c t q b Hpc). destruct (s_f (c_sh c)).
    + destruct (finish_scan c t (c_sh c) (LAtom t SF ALoad 0 (bN true) (o_chkf q)) q (Ok PREnd)) as (ts' & evs & -> & Tn & Cn & Sn).
      intros Hd. apply s_commit; [exact I|reflexivity|]. cbn [cs_step fst].
      apply r_same; try assumption; [right; exact Tn|rewrite Hpc; discriminate|rewrite Sn; discriminate].
    + intros Hd. apply s_commit; [exact I|reflexivity|]. cbn [cs_step fst].
      apply r_same; try assumption; cbn [set_pc t_pc]; rewrite Hpc; [left; reflexivity|discriminate|discriminate].
  - (* yielded counter *)
    assert (Tt : ticket (pcs_of c t) = Some (b, pub_incr q)) by (unfold pcs_of; rewrite Hpc; reflexivity).
    assert (Ha : assoc_get t (cs_ticket (st_of c)) = Some b) by (apply (r_tk c _ Rc t b (pub_incr q)); rewrite Hpc; reflexivity).
    rewrite (istep_ldy e c t q b Hpc). destruct (N.eqb_spec b (s_y (c_sh c))) as [Eb|Nb].
    + (* enters *)
      assert (Hempty : cs_in (st_of c) = []).
      { apply no_member_nil. intros u. destruct (tid_mem u (cs_in (st_of c))) eqn:Hm; [exfalso|reflexivity].
        destruct (r_in c _ Rc u Hm) as [Cu|[_ D2]].
        - destruct (Nat.eq_dec u t) as [->|Hne]; [rewrite Hpc in Cu; discriminate|].
          assert (exists b' n', ticket (pcs_of c u) = Some (b', n')) as (b' & n' & Tu)
            by (unfold pcs_of; destruct (t_pc (c_pool c u)); cbn in *; try discriminate; eauto).
          pose proof (p_crit _ _ _ _ _ P u b' n' Cu Tu). pose proof (p_tk _ _ _ _ _ P u b' n' Tu). pose proof (p_tk _ _ _ _ _ P t _ _ Tt).
          pose proof (p_disj _ _ _ _ _ P u t b' n' _ _ Hne Tu Tt). lia.
        - apply (D2 t b (pub_incr q)); [rewrite Hpc; reflexivity|exact Eb]. }
      intros Hd. apply s_commit; [exact I| |]; cbn [cs_step]; rewrite Ha; subst b; rewrite N.eqb_refl; cbn [fst snd].
      * rewrite Hempty. reflexivity.
      * apply r_upd with (st_of c); try assumption; cbn [cs_in cs_ticket set_pc t_pc].
        -- intros u Hn. unfold tid_mem. cbn [existsb]. destruct (Nat.eqb_spec u t); [contradiction|]. auto.
        -- intros _. unfold tid_mem. cbn [existsb]. rewrite Nat.eqb_refl. reflexivity.
        -- intros _. left. reflexivity.
        -- intros b n E. cbn [ticket] in E. injection E as <- _. exact Ha.
    + assert (Hst : cs_step (st_of c) (LAtom t SY ALoad 0 (s_y (c_sh c)) (o_ldy q)) = (st_of c, true)).
      { cbn [cs_step]. rewrite Ha. destruct (N.eqb_spec b (s_y (c_sh c))); [contradiction|reflexivity]. }
      destruct (b <? s_y (c_sh c)).
      * destruct (finish_scan c t (c_sh c) (LAtom t SY ALoad 0 (s_y (c_sh c)) (o_ldy q)) q (Ok PREnd)) as (ts' & evs & -> & Tn & Cn & Sn).
        intros Hd. apply s_commit; [exact I|rewrite Hst; reflexivity|]. rewrite Hst. cbn [fst].
        apply r_same; try assumption; [right; exact Tn|rewrite Hpc; discriminate|rewrite Sn; discriminate].
      * intros Hd. apply s_commit; [exact I|rewrite Hst; reflexivity|]. rewrite Hst. cbn [fst].
        apply r_same; try assumption; cbn [set_pc t_pc]; rewrite Hpc; [left; reflexivity|discriminate|discriminate].
  - (* its turn: the completed flag once more.  When the flag is up the thread leaves without a store or
       an add: the scan keeps it inside until its next call, and nobody enters any more *)
    assert (Ct : in_crit (t_pc (c_pool c t)) = true) by (rewrite Hpc; reflexivity).
    rewrite (istep_chkt e c t q b Hpc). destruct (s_f (c_sh c)).
    + destruct (finish_scan c t (c_sh c) (LAtom t SF ALoad 0 (bN true) (o_chkt q)) q (Ok PREnd)) as (ts' & evs & -> & Tn & Cn & Sn).
      intros _.
      assert (Hdead : dead (commit c t (c_sh c) ts' (LAtom t SF ALoad 0 (bN true) (o_chkt q)) evs))
        by (eapply dead_abandon; try eassumption; reflexivity).
      apply s_commit; [exact I|reflexivity|]. cbn [cs_step fst].
      apply r_same; try assumption; [intros _; exact Hdead|right; exact Tn|intros _; right; exact Hdead|rewrite Sn; discriminate].
    + intros Hd. apply s_commit; [exact I|reflexivity|]. cbn [cs_step fst].
      apply r_same; try assumption; cbn [set_pc t_pc]; rewrite Hpc; [left; reflexivity|intros _; left; reflexivity|intros _; reflexivity].
  - (* a use of the wrapped iterator *)
    assert (Hm : tid_mem t (cs_in (st_of c)) = true) by (apply (r_src c _ Rc t); rewrite Hpc; reflexivity).
    assert (Hg : forall sh' p' l, (l = LSrcPanic t \/ exists r, l = LSrc t r) -> ticket p' = Some (b, pub_incr q) -> in_crit p' = true ->
               (dead c -> dead (commit c t sh' (set_pc (c_pool c t) p') l [])) ->
               S (commit c t sh' (set_pc (c_pool c t) p') l [])).
    { intros sh' p' l Hl Tp Cp Hd. assert (Hst : cs_step (st_of c) l = (st_of c, true)) by (destruct Hl as [->|(r & ->)]; cbn [cs_step]; rewrite Hm; reflexivity).
      apply s_commit; [exact I|rewrite Hst; reflexivity|]. rewrite Hst. cbn [fst].
      apply r_same; try assumption; cbn [set_pc t_pc]; rewrite Hpc; [left; exact Tp|intros _; left; exact Cp|intros _; reflexivity]. }
    unfold step. rewrite Hpc.
    destruct (crashes_now e (c_sh c)); [intros Hd; apply Hg; [left; reflexivity|reflexivity|reflexivity|exact Hd]|].
    destruct (q_mode q); destruct (src_next e (c_sh c)) as [xv|].
    all: try (intros Hd; apply Hg; [right; eauto|reflexivity|reflexivity|exact Hd]).
    all: try (destruct (N.of_nat (length (xv :: got)) =? q_n q); intros Hd; (apply Hg; [right; eauto|reflexivity|reflexivity|exact Hd])).
  - (* raising the flag at the end of the source *)
    rewrite (istep_setf e c t q b got Hpc).
    assert (Hg : forall ts' evs, at_src (t_pc ts') = false ->
               (ticket (t_pc ts') = ticket (t_pc (c_pool c t)) \/ ticket (t_pc ts') = None) ->
               (dead c -> dead (commit c t (with_f (c_sh c) true) ts' (LAtom t SF AStore 1 0 (o_setf q)) evs)) ->
               S (commit c t (with_f (c_sh c) true) ts' (LAtom t SF AStore 1 0 (o_setf q)) evs)).
    { intros ts' evs Sn Tn Hd. apply s_commit; [exact I|reflexivity|]. cbn [cs_step fst]. apply r_leave; assumption. }
    destruct (q_mode q).
    + destruct (finish_scan c t (with_f (c_sh c) true) (LAtom t SF AStore 1 0 (o_setf q)) q (Ok PREnd)) as (ts' & evs & -> & Tn & Cn & Sn).
      intros Hd. apply Hg; [exact Sn|right; exact Tn|exact Hd].
    + intros Hd. apply Hg; cbn [set_pc t_pc]; [reflexivity|left; rewrite Hpc; reflexivity|exact Hd].
    + intros Hd. apply Hg; cbn [set_pc t_pc]; [reflexivity|left; rewrite Hpc; reflexivity|exact Hd].
  - (* publishing *)
    unfold step. rewrite Hpc.
    assert (Hf : forall sh pr, (dead c -> dead (finish e c t sh (c_pool c t) (LAtom t SY AAdd (pub_incr q) (s_y (c_sh c)) (o_pub q)) q pr)) ->
                 S (finish e c t sh (c_pool c t) (LAtom t SY AAdd (pub_incr q) (s_y (c_sh c)) (o_pub q)) q pr)).
    { intros sh pr. destruct (finish_scan c t sh (LAtom t SY AAdd (pub_incr q) (s_y (c_sh c)) (o_pub q)) q pr) as (ts' & evs & -> & Tn & Cn & Sn).
      intros Hd. apply s_commit; [exact I|reflexivity|]. cbn [cs_step fst]. apply r_leave; [exact Rc|exact Hd|exact Sn|right; exact Tn]. }
    destruct (q_mode q); [apply Hf| |].
    + destruct (s_y (c_sh c) =? b); [destruct (rev got)|]; apply Hf.
    + destruct (s_y (c_sh c) =? b); [destruct (rev got)|]; apply Hf.
  - (* unwinding *)
    unfold step. rewrite Hpc.
    assert (Hg : forall ts' evs, t_pc ts' = PIdle ->
               (dead c -> dead (commit c t (with_f (c_sh c) true) ts' (LAtom t SF AStore 1 0 ord_completed_store_unwind) evs)) ->
               S (commit c t (with_f (c_sh c) true) ts' (LAtom t SF AStore 1 0 ord_completed_store_unwind) evs)).
    { intros ts' evs Hp' Hd. apply s_commit; [exact I|reflexivity|]. cbn [cs_step fst].
      apply r_leave; [exact Rc|exact Hd|rewrite Hp'; reflexivity|right; rewrite Hp'; reflexivity]. }
    destruct (q_ctx q); [|intros Hd; apply Hg; [reflexivity|exact Hd]].
    destruct (q_mode q); try (intros Hd; apply Hg; [reflexivity|exact Hd]).
    rewrite Hk. destruct (t_buf (c_pool c t)) as [bf|]; [|intros Hd; apply Hg; [reflexivity|exact Hd]].
    destruct (write_slots (bf_slots bf) (rev got)). intros Hd. apply Hg; [reflexivity|exact Hd].
  - (* skip_to_end *)
    rewrite (istep_skip e Hk c t Hpc). intros Hd. apply s_commit; [exact I|reflexivity|]. cbn [cs_step fst].
    apply r_leave; [exact Rc|exact Hd|cbn [set_pc t_pc]; reflexivity|right; reflexivity].
  - (* length queries *)
    rewrite (istep_len e Hk c t hm Hpc).
    assert (Hg : forall p' l evs, cs_step (st_of c) l = (st_of c, true) -> ticket p' = None -> in_crit p' = false ->
               (dead c -> dead (commit c t (c_sh c) (set_pc (c_pool c t) p') l evs)) ->
               S (commit c t (c_sh c) (set_pc (c_pool c t) p') l evs)).
    { intros p' l evs Hst Tp Cp Hd. apply s_commit; [exact I|rewrite Hst; reflexivity|]. rewrite Hst. cbn [fst].
      apply r_same; try assumption; cbn [set_pc t_pc]; [right; exact Tp|rewrite Hpc; discriminate|].
      intros E. rewrite (at_src_crit _ E) in Cp. discriminate. }
    destruct (s_f (c_sh c)); [intros Hd; apply Hg; [reflexivity|reflexivity|reflexivity|exact Hd]|].
    destruct (e_hint e); intros Hd; (apply Hg; [reflexivity|reflexivity|reflexivity|exact Hd]).
  - rewrite (istep_len2 e c t hm Hpc). intros Hd. apply s_commit; [exact I|reflexivity|]. cbn [cs_step fst].
    apply r_same; try assumption; cbn [set_pc t_pc]; [right; reflexivity|rewrite Hpc; discriminate|discriminate].
Qed.

Lemma s_init progs : S (init progs).
Proof.
  split; [reflexivity|]. unfold st_of. cbn [init c_labels rev cs_final]. split; cbn [init c_pool init_ts t_pc cs0 cs_in cs_ticket].
  - discriminate.
  - discriminate.
  - discriminate.
Qed.

Lemma s_exec progs sched :
  (forall t, Forall wf_op (progs t)) -> Forall (fun t => In t L) sched ->
  nowrap (c_labels (exec e (init progs) sched)) -> S (exec e (init progs) sched).
Proof.
  intros Hp. induction sched as [|t sched IH] using rev_ind; intros Hs Hw; [apply s_init|].
  rewrite exec_snoc in *. apply Forall_app in Hs. destruct Hs as [Hs Ht]. inversion Ht as [|? ? Hin _]; subst.
  pose proof (step_labels_suffix e _ _ Hw) as Hw1.
  apply s_step; [apply (iA_exec e Hk L NDL); assumption|apply IH; assumption|exact Hin|apply (istep_labels e Hk _ _ Hw)].
Qed.

End Scan.

From OCI.proofs Require Import ChkIter.

Theorem iter_C07_mutex_scan : forall e, iter_env e -> forall progs, wf_progs progs -> forall sched,
  nowrap (c_labels (exec e (init progs) sched)) ->
  chk_C07_mutex (c_labels (exec e (init progs) sched)) = true.
Proof.
  intros e (He & Hk) progs Hp sched Hw.
  apply (s_ok (exec e (init progs) sched)).
  apply (s_exec e Hk (nodup Nat.eq_dec sched) (NoDup_nodup _ _)); try assumption.
  apply Forall_forall. intros t Ht. apply nodup_In. exact Ht.
Qed.
