(** * C15: at the end of life of a consuming iterator every element has been handed out or destroyed,
      exactly once -- nothing an element owns can leak, nothing is released twice. *)
From Coq Require Import Lia ZArith.
From OCI Require Import Machine Checkers.
From OCI.proofs Require Import Base Trace ArithOk InvKnown ChkKnown.
Open Scope N_scope.

Lemma final_step_trace e c t f : exists r d, c_trace (final_step e c t f) = EFinal f r d :: c_trace c.
Proof.
  unfold final_step.
  destruct f as [|k], (e_kind e); cbn [c_trace];
    repeat first
      [ solve [eexists _, _; reflexivity]
      | match goal with |- context [let '(_, _) := ?x in _] => destruct x end
      | match goal with |- context [match ?x with _ => _ end] => destruct x end ];
    cbn [c_trace]; eexists _, _; reflexivity.
Qed.

(** consumed vectors and arrays: after drop or into_seq_iter (any number taken from the remainder), at
    any quiescent point of any schedule, the positions handed out and the positions destroyed by the
    machinery are pairwise disjoint, inside the collection, and together they are all of it *)
Theorem all_released : forall e, known_env e -> e_owning e = true ->
  forall progs, wf_progs progs -> forall sched,
  nowrap (c_labels (exec e (init progs) sched)) ->
  n_pending (c_trace (exec e (init progs) sched)) = 0%Z ->
  forall t f,
  let tr := c_trace (final_step e (exec e (init progs) sched) t f) in
  pairwise_disj (taken_all e tr ++ dropped_all tr) = true /\
  iv_within (e_len e) (taken_all e tr ++ dropped_all tr) = true /\
  iv_total (taken_all e tr ++ dropped_all tr) = e_len e.
Proof.
  intros e He Hown progs Hp sched Hnw Hq t f tr.
  pose proof (known_C08_final e He progs Hp sched Hnw t f Hq) as H. fold tr in H.
  unfold chk_C08 in H. rewrite Hown in H.
  destruct (final_step_trace e (exec e (init progs) sched) t f) as (r & d & Etr). fold tr in Etr.
  assert (has_final tr = true) as Hf by (rewrite Etr; reflexivity).
  assert (n_pending tr = 0%Z) as Hn by (rewrite Etr; cbn [n_pending]; exact Hq).
  rewrite Hf, Hn in H. cbn [andb Z.eqb] in H.
  apply andb_true_iff in H. destruct H as [H H3]. apply andb_true_iff in H. destruct H as [H1 H2].
  repeat split; try assumption. apply N.eqb_eq. exact H3.
Qed.
