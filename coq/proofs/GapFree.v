(** * As long as the wrapped iterator has not answered a premature None, it is as good as fused.

    A run on which no call of the wrapped next() executed so far is a gap ([e_gap] is false below the
    number of calls made) is, step for step, the run of the fused iterator [defuse e].  Everything that
    is proved for fused wrapped iterators therefore holds on every run of an arbitrary wrapped iterator
    up to (and including) the state in which it first answers None although elements remain. *)
From Coq Require Import Lia ZArith List.
From OCI Require Import Machine Checkers.
From OCI.proofs Require Import Base Trace ArithOk InvKnown ChkKnown Progress IterBase ChkIter ChkAll IterC11 IterQuiet.
Import ListNotations.
Open Scope N_scope.

Definition defuse (e : env) : env :=
  {| e_kind := e_kind e; e_adaptor := e_adaptor e; e_len := e_len e; e_start := e_start e; e_end := e_end e;
     e_hint := e_hint e; e_owning := e_owning e; e_mode := e_mode e; e_crash := e_crash e; e_gap := fun _ => false |}.

Lemma defuse_fused e : fused (defuse e).
Proof. intros k. reflexivity. Qed.

(** no call of the wrapped next() among the first [n] is a gap *)
Definition gap_free (e : env) (n : N) : Prop := forall k, k < n -> e_gap e k = false.

(** ** the machine *)

Lemma drops_after_defuse e k rs : drops_after (defuse e) k rs = drops_after e k rs.
Proof.
  revert k. induction rs as [|r tl IH]; intros k; cbn [drops_after]; [reflexivity|].
  rewrite !IH. reflexivity.
Qed.

Lemma deliver_defuse e ts q pr : deliver (defuse e) ts q pr = deliver e ts q pr.
Proof.
  unfold deliver, deliver_top, deliver_loop. rewrite ?drops_after_defuse.
  destruct (q_ctx q); destruct pr as [[|b rs cnt]|k]; try reflexivity.
  - destruct (q_mode q); rewrite ?drops_after_defuse; reflexivity.
  - destruct (loop_invoke l crash (total_cnt (t_acc ts)) rs cnt) as [inv [used|]]; rewrite ?drops_after_defuse; reflexivity.
Qed.

Lemma finish_defuse e c t sh ts l q pr : finish (defuse e) c t sh ts l q pr = finish e c t sh ts l q pr.
Proof. unfold finish. rewrite deliver_defuse. reflexivity. Qed.

Lemma finish_sh e c t sh ts l q pr : c_sh (finish e c t sh ts l q pr) = sh.
Proof. unfold finish. destruct (deliver e ts q pr) as [ts' o]. reflexivity. Qed.

(** the number of calls of the wrapped next() never decreases *)
Lemma step_calls_mono e c t : s_calls (c_sh c) <= s_calls (c_sh (step e c t)).
Proof.
  unfold step.
  repeat first
    [ rewrite finish_sh
    | progress unfold call
    | match goal with |- context [match ?x with _ => _ end] => destruct x end
    | match goal with |- context [let '(_, _) := ?x in _] => destruct x end ];
  cbn [commit c_sh with_c with_y with_f with_src s_calls]; lia.
Qed.

Lemma exec_calls_mono e sched : forall c, s_calls (c_sh c) <= s_calls (c_sh (exec e c sched)).
Proof.
  induction sched as [|t s IH]; intros c; [apply N.le_refl|]. rewrite exec_cons.
  pose proof (step_calls_mono e c t). pose proof (IH (step e c t)). lia.
Qed.

(** a step that makes no call of the wrapped next(), or whose call is not a gap, is the step of the
    fused iterator *)
Lemma step_defuse e c t :
  (s_calls (c_sh c) < s_calls (c_sh (step e c t)) -> e_gap e (s_calls (c_sh c)) = false) ->
  step (defuse e) c t = step e c t.
Proof.
  intros H. unfold step in *.
  change (e_kind (defuse e)) with (e_kind e).
  change (e_len (defuse e)) with (e_len e).
  change (e_hint (defuse e)) with (e_hint e).
  change (k_fetch_n (defuse e)) with (k_fetch_n e).
  change (crashes_now (defuse e)) with (crashes_now e).
  destruct (t_pc (c_pool c t)) eqn:Hpc.
  6: { (* one call of the wrapped next() *)
    destruct (crashes_now e (c_sh c)); [reflexivity|].
    assert (Hs : src_next (defuse e) (c_sh c) = src_next e (c_sh c)).
    { unfold src_next. cbn [defuse e_gap e_len].
      assert (Hg : e_gap e (s_calls (c_sh c)) = false).
      { apply H. destruct (q_mode q), (src_next e (c_sh c));
          repeat match goal with |- context [if ?x then _ else _] => destruct x end;
          cbn [commit c_sh with_src s_calls]; lia. }
      rewrite Hg. reflexivity. }
    rewrite Hs. reflexivity. }
  all: clear H;
    repeat first
    [ reflexivity
    | rewrite finish_defuse
    | rewrite drops_after_defuse
    | match goal with |- match ?x with _ => _ end = _ => destruct x end
    | match goal with |- (if ?x then _ else _) = _ => destruct x end ].
Qed.

Lemma exec_defuse e sched : forall c,
  gap_free e (s_calls (c_sh (exec e c sched))) -> exec (defuse e) c sched = exec e c sched.
Proof.
  induction sched as [|t s IH]; intros c H; [reflexivity|]. rewrite !exec_cons in *.
  rewrite step_defuse; [apply IH; exact H|].
  intros Hlt. apply H. pose proof (exec_calls_mono e s (step e c t)). lia.
Qed.

(** ** the checkers do not look at [e_gap] *)

Lemma cov_defuse e tr : cov (defuse e) tr = cov e tr.
Proof. induction tr as [|ev tr IH]; [reflexivity|]. destruct ev; cbn [cov]; rewrite ?IH; reflexivity. Qed.

Lemma cov_of_defuse e t tr : cov_of (defuse e) t tr = cov_of e t tr.
Proof. induction tr as [|ev tr IH]; [reflexivity|]. destruct ev; cbn [cov_of]; rewrite ?IH; reflexivity. Qed.

Lemma all_rets_ext (P Q : tid -> res -> list drops -> list event -> bool) tr :
  (forall t r d tl, P t r d tl = Q t r d tl) -> all_rets P tr = all_rets Q tr.
Proof.
  intros H. induction tr as [|ev tr IH]; [reflexivity|]. destruct ev; cbn [all_rets]; rewrite ?H, ?IH; reflexivity.
Qed.

Lemma nodup_defuse e tr : chk_C01_nodup (defuse e) tr = chk_C01_nodup e tr.
Proof. unfold chk_C01_nodup. rewrite cov_defuse. reflexivity. Qed.

Lemma noloss_defuse e tr : chk_C01_noloss (defuse e) tr = chk_C01_noloss e tr.
Proof. unfold chk_C01_noloss. rewrite cov_defuse. reflexivity. Qed.

Lemma C02_defuse e tr : chk_C02 (defuse e) tr = chk_C02 e tr.
Proof. unfold chk_C02. apply all_rets_ext. intros t r d tl. reflexivity. Qed.

Lemma C03_defuse e tr : chk_C03 (defuse e) tr = chk_C03 e tr.
Proof. unfold chk_C03. apply all_rets_ext. intros t r d tl. reflexivity. Qed.

Lemma C04_order_defuse e tr : chk_C04_order (defuse e) tr = chk_C04_order e tr.
Proof.
  unfold chk_C04_order. apply all_rets_ext. intros t r d tl. unfold ev_C04. rewrite cov_of_defuse.
  destruct (split_call t tl) as [[o older]|]; [rewrite cov_defuse|]; reflexivity.
Qed.

Lemma C04_prefix_defuse e tr : chk_C04_prefix (defuse e) tr = chk_C04_prefix e tr.
Proof.
  induction tr as [|ev tr IH]; [reflexivity|]. cbn [chk_C04_prefix]. rewrite IH, cov_defuse. reflexivity.
Qed.

Lemma C05_defuse e tr : chk_C05 (defuse e) tr = chk_C05 e tr.
Proof. unfold chk_C05. apply all_rets_ext. intros t r d tl. reflexivity. Qed.

Lemma C06_stop_defuse e tr : chk_C06_stop (defuse e) tr = chk_C06_stop e tr.
Proof. unfold chk_C06_stop. apply all_rets_ext. intros t r d tl. reflexivity. Qed.

Lemma C12_src_defuse e tr : chk_C12_src (defuse e) tr = chk_C12_src e tr.
Proof. unfold chk_C12_src. apply all_rets_ext. intros t r d tl. reflexivity. Qed.

Lemma C11_defuse e tr : chk_C11 (defuse e) tr = chk_C11 e tr.
Proof.
  unfold chk_C11. apply all_rets_ext. intros t r d tl. unfold ev_C11.
  destruct (split_call t tl) as [[o older]|]; [rewrite cov_defuse|]; reflexivity.
Qed.

(** ** every property of the fused wrapped iterators, until the first premature None *)

Theorem iter_until_first_gap : forall e, iter_env e -> forall progs, wf_progs progs -> forall sched,
  nowrap (c_labels (exec e (init progs) sched)) ->
  gap_free e (s_calls (c_sh (exec e (init progs) sched))) ->
  let tr := c_trace (exec e (init progs) sched) in
  let ls := c_labels (exec e (init progs) sched) in
  check_prop 1 e tr ls = true /\ check_prop 2 e tr ls = true /\ check_prop 3 e tr ls = true /\
  check_prop 4 e tr ls = true /\ check_prop 6 e tr ls = true /\ check_prop 11 e tr ls = true /\
  check_prop 12 e tr ls = true.
Proof.
  intros e Hie progs Hp sched Hw Hg tr ls. subst tr ls.
  assert (Hie' : iter_env (defuse e)) by (destruct Hie as [H1 H2]; split; [exact H1|exact H2]).
  pose proof (defuse_fused e) as Hfu.
  rewrite <- (exec_defuse e sched (init progs) Hg) in *.
  pose proof (iter_C01 (defuse e) Hie' Hfu progs Hp sched Hw) as H1.
  pose proof (iter_C02 (defuse e) Hie' Hfu progs Hp sched Hw) as H2.
  pose proof (iter_C03 (defuse e) Hie' Hfu progs Hp sched Hw) as H3.
  pose proof (iter_C04 (defuse e) Hie' Hfu progs Hp sched Hw) as H4.
  pose proof (iter_C06 (defuse e) Hie' Hfu progs Hp sched Hw) as H6.
  pose proof (iter_C11 (defuse e) Hie' Hfu progs Hp sched Hw) as H11.
  pose proof (iter_C12 (defuse e) Hie' Hfu progs Hp sched Hw) as H12.
  cbn [check_prop] in *. unfold chk_C06 in *.
  rewrite ?nodup_defuse, ?noloss_defuse, ?C02_defuse, ?C03_defuse, ?C04_order_defuse, ?C04_prefix_defuse,
          ?C05_defuse, ?C06_stop_defuse, ?C11_defuse, ?C12_src_defuse in *.
  repeat split; assumption.
Qed.

Print Assumptions iter_until_first_gap.

Theorem iter_C01_until_gap : forall e, iter_env e -> forall progs, wf_progs progs -> forall sched,
  nowrap (c_labels (exec e (init progs) sched)) ->
  gap_free e (s_calls (c_sh (exec e (init progs) sched))) ->
  check_prop 1 e (c_trace (exec e (init progs) sched)) (c_labels (exec e (init progs) sched)) = true.
Proof. intros e Hie progs Hp sched Hw Hg. destruct (iter_until_first_gap e Hie progs Hp sched Hw Hg) as (H & _). exact H. Qed.

Theorem iter_C02_until_gap : forall e, iter_env e -> forall progs, wf_progs progs -> forall sched,
  nowrap (c_labels (exec e (init progs) sched)) ->
  gap_free e (s_calls (c_sh (exec e (init progs) sched))) ->
  check_prop 2 e (c_trace (exec e (init progs) sched)) (c_labels (exec e (init progs) sched)) = true.
Proof. intros e Hie progs Hp sched Hw Hg. destruct (iter_until_first_gap e Hie progs Hp sched Hw Hg) as (_ & H & _). exact H. Qed.

Theorem iter_C03_until_gap : forall e, iter_env e -> forall progs, wf_progs progs -> forall sched,
  nowrap (c_labels (exec e (init progs) sched)) ->
  gap_free e (s_calls (c_sh (exec e (init progs) sched))) ->
  check_prop 3 e (c_trace (exec e (init progs) sched)) (c_labels (exec e (init progs) sched)) = true.
Proof. intros e Hie progs Hp sched Hw Hg. destruct (iter_until_first_gap e Hie progs Hp sched Hw Hg) as (_ & _ & H & _). exact H. Qed.

Theorem iter_C04_until_gap : forall e, iter_env e -> forall progs, wf_progs progs -> forall sched,
  nowrap (c_labels (exec e (init progs) sched)) ->
  gap_free e (s_calls (c_sh (exec e (init progs) sched))) ->
  check_prop 4 e (c_trace (exec e (init progs) sched)) (c_labels (exec e (init progs) sched)) = true.
Proof. intros e Hie progs Hp sched Hw Hg. destruct (iter_until_first_gap e Hie progs Hp sched Hw Hg) as (_ & _ & _ & H & _). exact H. Qed.

Theorem iter_C06_until_gap : forall e, iter_env e -> forall progs, wf_progs progs -> forall sched,
  nowrap (c_labels (exec e (init progs) sched)) ->
  gap_free e (s_calls (c_sh (exec e (init progs) sched))) ->
  check_prop 6 e (c_trace (exec e (init progs) sched)) (c_labels (exec e (init progs) sched)) = true.
Proof. intros e Hie progs Hp sched Hw Hg. destruct (iter_until_first_gap e Hie progs Hp sched Hw Hg) as (_ & _ & _ & _ & H & _). exact H. Qed.

Theorem iter_C11_until_gap : forall e, iter_env e -> forall progs, wf_progs progs -> forall sched,
  nowrap (c_labels (exec e (init progs) sched)) ->
  gap_free e (s_calls (c_sh (exec e (init progs) sched))) ->
  check_prop 11 e (c_trace (exec e (init progs) sched)) (c_labels (exec e (init progs) sched)) = true.
Proof. intros e Hie progs Hp sched Hw Hg. destruct (iter_until_first_gap e Hie progs Hp sched Hw Hg) as (_ & _ & _ & _ & _ & H & _). exact H. Qed.

Theorem iter_C12_until_gap : forall e, iter_env e -> forall progs, wf_progs progs -> forall sched,
  nowrap (c_labels (exec e (init progs) sched)) ->
  gap_free e (s_calls (c_sh (exec e (init progs) sched))) ->
  check_prop 12 e (c_trace (exec e (init progs) sched)) (c_labels (exec e (init progs) sched)) = true.
Proof. intros e Hie progs Hp sched Hw Hg. destruct (iter_until_first_gap e Hie progs Hp sched Hw Hg) as (_ & _ & _ & _ & _ & _ & H). exact H. Qed.

