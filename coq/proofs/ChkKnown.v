(** * The checkers on every trace of the known-size kinds (slice, vector, array, range). *)
From Coq Require Import Lia ZArith Permutation.
From OCI Require Import Machine Checkers.
From OCI.proofs Require Import Base Trace ArithOk InvKnown.
Open Scope N_scope.

(** a source of known size: any length below 2^64; for a range any bounds below 2^64; the elements
    have a destructor exactly for the consuming kinds *)
Definition known_env (e : env) : Prop :=
  wf_env e /\ is_known (e_kind e) = true /\
  e_owning e = match e_kind e with KVec | KArray => true | _ => false end.

(** the programs use chunk sizes that are [usize] values *)
Definition wf_progs (progs : tid -> list op) : Prop := forall t, Forall wf_op (progs t).

Section Known.

Variable e : env.
Hypothesis Hke : known_env e.
Variable progs : tid -> list op.
Hypothesis Hp : wf_progs progs.
Variable sched : list tid.

Let c := exec e (init progs) sched.
Let L := nodup Nat.eq_dec sched.

Hypothesis Hnw : nowrap (c_labels c).

Lemma known_inv : KInv e L c.
Proof.
  destruct Hke as (He & Hk & Hown).
  apply kinv_exec; try assumption.
  - apply NoDup_nodup.
  - apply Forall_forall. intros t Ht. apply nodup_In. exact Ht.
Qed.

Lemma ev_part (P : tid -> res -> list drops -> list event -> bool) :
  (forall t r d tl, ev_all e t r d tl = true -> P t r d tl = true) -> all_rets P (c_trace c) = true.
Proof. intros H. eapply all_rets_impl; [exact H|]. apply (k_evs e L c known_inv). Qed.

Ltac ev_split H :=
  unfold ev_all in H; repeat (apply andb_true_iff in H; let H' := fresh in destruct H as [H H']).

Theorem known_C02 : chk_C02 e (c_trace c) = true.
Proof. apply ev_part. intros t r d tl H. ev_split H. assumption. Qed.

Theorem known_C03 : chk_C03 e (c_trace c) = true.
Proof. apply ev_part. intros t r d tl H. ev_split H. assumption. Qed.

Theorem known_C04_order : chk_C04_order e (c_trace c) = true.
Proof. apply ev_part. intros t r d tl H. ev_split H. assumption. Qed.

Theorem known_C05 : chk_C05 e (c_trace c) = true.
Proof. apply ev_part. intros t r d tl H. ev_split H. assumption. Qed.

Theorem known_C06_stop : chk_C06_stop e (c_trace c) = true.
Proof. apply ev_part. intros t r d tl H. ev_split H. assumption. Qed.

Theorem known_C11 : chk_C11 e (c_trace c) = true.
Proof. apply ev_part. intros t r d tl H. ev_split H. assumption. Qed.

Theorem known_C12_shape : chk_C12_shape (c_trace c) = true.
Proof. apply ev_part. intros t r d tl H. ev_split H. assumption. Qed.

Theorem known_nodup : chk_C01_nodup e (c_trace c) = true.
Proof.
  unfold chk_C01_nodup. pose proof (tl_disj _ _ _ (k_til e L c known_inv)) as H.
  unfold hist in H. rewrite pairwise_disj_app in H.
  apply andb_true_iff in H. destruct H as [H _]. apply andb_true_iff in H. destruct H as [H _]. rewrite H. cbn [andb].
  pose proof (tl_within _ _ _ (k_til e L c known_inv)) as Hw. unfold hist in Hw.
  rewrite iv_within_app in Hw. apply andb_true_iff in Hw. destruct Hw as [Hw _].
  apply iv_within_mono with (frontier e (c_sh c)); [unfold frontier; lia|exact Hw].
Qed.

(** at a quiescent point nothing is held by a running loop *)
Lemma quiescent_accs : n_pending (c_trace c) = 0%Z -> accs e L (c_pool c) = [].
Proof.
  intros Hq. pose proof known_inv as I. rewrite (k_pend e L c I) in Hq.
  unfold accs. apply gather_nil. intros t Ht. unfold acc_iv.
  assert (pendZ (c_pool c t) = 0%Z) as Hz.
  { apply (sumZ_zero (fun u => pendZ (c_pool c u)) L); [|exact Hq|exact Ht].
    intros u _. unfold pendZ. destruct (is_idle (c_pool c u)); lia. }
  unfold pendZ in Hz. destruct (is_idle (c_pool c t)) eqn:Ei; [|discriminate].
  destruct Hke as (He & Hk & Hown).
  rewrite (acc_idle e L c t I Ei). reflexivity.
Qed.

Theorem known_noloss : clean (c_trace c) = true -> chk_C01_noloss e (c_trace c) = true.
Proof.
  intros Hcl. unfold chk_C01_noloss.
  destruct (end_reported (c_trace c)) eqn:Ee; [|reflexivity].
  destruct ((n_pending (c_trace c) =? 0)%Z) eqn:Eq; [|reflexivity]. cbn [andb].
  apply Z.eqb_eq in Eq. pose proof known_inv as I.
  pose proof (k_til e L c I) as T. unfold hist in T. rewrite (quiescent_accs Eq), app_nil_r in T.
  pose proof (k_end e L c I Ee) as Hlen.
  assert (Hf : frontier e (c_sh c) = e_len e) by (unfold frontier; lia).
  rewrite Hf in T. unfold tiles.
  rewrite (tl_disj _ _ _ T), (tl_within _ _ _ T), (tl_total _ _ _ T Hcl), N.eqb_refl. reflexivity.
Qed.

Theorem known_C01 : check_prop 1 e (c_trace c) (c_labels c) = true.
Proof.
  cbn [check_prop]. rewrite known_nodup. cbn [andb].
  destruct (has_skip (c_trace c) || has_panic (c_trace c)) eqn:E; [reflexivity|].
  apply known_noloss. unfold clean. rewrite E. reflexivity.
Qed.

Theorem known_C06 : check_prop 6 e (c_trace c) (c_labels c) = true.
Proof.
  cbn [check_prop]. unfold chk_C06. rewrite known_C06_stop, known_nodup, known_C02, known_C04_order. reflexivity.
Qed.

Theorem known_C12 : check_prop 12 e (c_trace c) (c_labels c) = true.
Proof.
  cbn [check_prop]. unfold c at 2. rewrite known_C12_shape, src_panic_ok, known_nodup, known_C02, known_C05. cbn [andb].
  destruct (has_skip (c_trace c) || has_panic (c_trace c)) eqn:E; [reflexivity|].
  apply known_noloss. unfold clean. rewrite E. reflexivity.
Qed.

Lemma sched_in_L : Forall (fun t => In t L) sched.
Proof. apply Forall_forall. intros t Ht. apply nodup_In. exact Ht. Qed.

Theorem known_C04 : check_prop 4 e (c_trace c) (c_labels c) = true.
Proof.
  cbn [check_prop]. rewrite known_nodup, known_C04_order. cbn [andb].
  destruct (has_panic (c_trace c)) eqn:Hnp; [reflexivity|].
  destruct Hke as (He & Hk & Hown).
  apply prefix_exec with (L := L); try assumption; try apply NoDup_nodup; try apply sched_in_L.
Qed.

(** the ledger of the consuming kinds, during the run and after the end of life by the owner [t] *)
Theorem known_C08_run : chk_C08 e (c_trace c) = true.
Proof. destruct Hke as (He & Hk & Hown). apply run_C08 with (L := L); try assumption; try apply NoDup_nodup; try apply known_inv. Qed.

Theorem known_C08_final t f : n_pending (c_trace c) = 0%Z -> chk_C08 e (c_trace (final_step e c t f)) = true.
Proof. intros Hq. destruct Hke as (He & Hk & Hown). apply final_C08 with (L := L); try assumption; try apply NoDup_nodup; try apply known_inv. Qed.

Theorem known_C10_final t k : n_pending (c_trace c) = 0%Z -> chk_C10 e (c_trace (final_step e c t (FIntoSeq k))) = true.
Proof. intros Hq. destruct Hke as (He & Hk & Hown). apply final_C10 with (L := L); try assumption; try apply NoDup_nodup; try apply known_inv. Qed.

End Known.
