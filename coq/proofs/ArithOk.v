(** * The index arithmetic of the known-size kinds, for the whole machine word and in both build modes.

    Every pull of a known-size iterator computes, from the value [b] that its [fetch_add] returned and
    the requested size [n], the interval of positions it delivers.  These lemmas show that for *all*
    [b, n < 2^64] and all well-formed sources (any length, any range bounds below 2^64) the result is
    the mathematical one, [ [b, b + min n (len - b)) ] when [b < len] and the end otherwise; that it
    never panics; and that it is the same in the checked and in the wrapping build mode. *)
From Coq Require Import Lia.
From OCI Require Import Machine.
Open Scope N_scope.

Definition wf_env (e : env) : Prop :=
  e_len e < W /\
  match e_kind e with
  | KRange => e_start e < W /\ e_end e < W /\ e_len e = e_end e - e_start e
  | _ => True
  end.

Definition got (e : env) (b cnt : N) : pullres := PRGot b [mk_run (Some b) (val_of e b) cnt] cnt.

(** what a pull delivers, mathematically *)
Definition pull_spec (e : env) (n b : N) : pullres :=
  if (b <? e_len e) && (0 <? n) then got e b (N.min n (e_len e - b)) else PREnd.

Lemma W_val : W = 18446744073709551616. Proof. reflexivity. Qed.
Lemma UMAX_val : UMAX = 18446744073709551615. Proof. reflexivity. Qed.

Ltac arith_pre :=
  unfold add_u, sub_u, sat_add, bind in *; rewrite ?UMAX_val, ?W_val in *.

Lemma add_u_ok m a b : a + b < W -> add_u m a b = Ok (a + b).
Proof. intros H. unfold add_u. destruct (N.ltb_spec (a + b) W); [reflexivity|lia]. Qed.

Lemma sub_u_ok m a b : b <= a -> sub_u m a b = Ok (a - b).
Proof. intros H. unfold sub_u. destruct (N.leb_spec b a); [reflexivity|lia]. Qed.

Lemma k_get_spec e b : wf_env e -> k_get e b = Ok (pull_spec e 1 b).
Proof.
  intros [Hl Hk]. unfold k_get, pull_spec, got, val_of.
  destruct (N.ltb_spec b (e_len e)) as [Hb|Hb]; cbn [andb]; [|reflexivity].
  change (0 <? 1) with true. cbn [andb].
  replace (N.min 1 (e_len e - b)) with 1 by lia.
  destruct (e_kind e); try reflexivity.
  destruct Hk as (Hs & He & Hlen).
  rewrite add_u_ok by lia. reflexivity.
Qed.

Lemma k_fetch_n_spec e n b : wf_env e -> n < W -> k_fetch_n e n b = Ok (pull_spec e n b).
Proof.
  intros [Hl Hk] Hn. unfold k_fetch_n, pull_spec, got, val_of.
  destruct (N.ltb_spec b (e_len e)) as [Hb|Hb]; cbn [andb].
  - destruct (e_kind e) eqn:K.
    + (* slice *)
      unfold sat_add. rewrite UMAX_val. rewrite W_val in *.
      destruct (N.eqb_spec b (N.max (N.min (N.min (b + n) 18446744073709551615) (e_len e)) b)) as [E|E];
        destruct (N.ltb_spec 0 n) as [Hp|Hp]; try reflexivity; try lia.
      replace (N.max (N.min (N.min (b + n) 18446744073709551615) (e_len e)) b - b) with (N.min n (e_len e - b)) by lia.
      reflexivity.
    + (* vec *)
      unfold sat_add. rewrite UMAX_val. rewrite W_val in *.
      destruct (N.eqb_spec b (N.max (N.min (N.min (b + n) 18446744073709551615) (e_len e)) b)) as [E|E];
        destruct (N.ltb_spec 0 n) as [Hp|Hp]; try reflexivity; try lia.
      rewrite sub_u_ok by lia. cbn [bind].
      replace (N.min (N.min (b + n) 18446744073709551615) (e_len e) - b) with (N.min n (e_len e - b)) by lia.
      reflexivity.
    + (* array *)
      unfold sat_add. rewrite UMAX_val. rewrite W_val in *.
      destruct (N.eqb_spec b (N.max (N.min (N.min (b + n) 18446744073709551615) (e_len e)) b)) as [E|E];
        destruct (N.ltb_spec 0 n) as [Hp|Hp]; try reflexivity; try lia.
      rewrite sub_u_ok by lia. cbn [bind].
      replace (N.min (N.min (b + n) 18446744073709551615) (e_len e) - b) with (N.min n (e_len e - b)) by lia.
      reflexivity.
    + (* range *)
      destruct Hk as (Hs & He & Hlen).
      rewrite add_u_ok by lia. cbn [bind].
      destruct (N.ltb_spec (b + e_start e) (e_end e)) as [Hv|Hv]; [|lia].
      unfold sat_add. rewrite UMAX_val. rewrite W_val in *.
      rewrite sub_u_ok by lia. cbn [bind].
      destruct (N.eqb_spec b (N.min (N.min (b + e_start e + n) 18446744073709551615) (e_end e) - e_start e)) as [E|E];
        destruct (N.ltb_spec 0 n) as [Hp|Hp]; try reflexivity; try lia.
      rewrite sub_u_ok by lia. cbn [bind].
      replace (N.min (N.min (b + e_start e + n) 18446744073709551615) (e_end e) - (b + e_start e)) with (N.min n (e_len e - b)) by lia.
      replace (b + e_start e) with (e_start e + b) by lia.
      reflexivity.
    + (* iter: the generic branch *)
      unfold sat_add. rewrite UMAX_val. rewrite W_val in *.
      destruct (N.eqb_spec b (N.max (N.min (N.min (b + n) 18446744073709551615) (e_len e)) b)) as [E|E];
        destruct (N.ltb_spec 0 n) as [Hp|Hp]; try reflexivity; try lia.
      rewrite sub_u_ok by lia. cbn [bind].
      replace (N.min (N.min (b + n) 18446744073709551615) (e_len e) - b) with (N.min n (e_len e - b)) by lia.
      reflexivity.
  - (* b >= len: b' = len *)
    destruct (e_kind e) eqn:K.
    1-3,5: unfold sat_add; rewrite UMAX_val; rewrite W_val in *;
      destruct (N.eqb_spec (e_len e) (N.max (N.min (N.min (e_len e + n) 18446744073709551615) (e_len e)) (e_len e))); [reflexivity|lia].
    destruct Hk as (Hs & He & Hlen).
    assert (e_len e + e_start e < W) by lia.
    rewrite add_u_ok by lia. cbn [bind].
    destruct (N.ltb_spec (e_len e + e_start e) (e_end e)) as [Hv|Hv].
    + (* start > end is impossible here: len + start < end means len < end - start *) lia.
    + rewrite sub_u_ok by lia. cbn [bind].
      destruct (N.eqb_spec (e_len e) (e_len e + e_start e - e_start e)); [reflexivity|lia].
Qed.

Lemma k_buf_pull_spec e c b : wf_env e -> 0 < c -> c < W -> k_buf_pull e c b = Ok (pull_spec e c b).
Proof.
  intros [Hl Hk] Hc0 Hc. unfold k_buf_pull, pull_spec, got, val_of.
  destruct (N.ltb_spec b (e_len e)) as [Hb|Hb]; cbn [andb]; [|reflexivity].
  destruct (N.ltb_spec 0 c) as [_|]; [|lia].
  destruct (e_kind e) eqn:K.
  - unfold sat_add. rewrite UMAX_val. rewrite W_val in *.
    replace (N.max (N.min (N.min (b + c) 18446744073709551615) (e_len e)) b - b) with (N.min c (e_len e - b)) by lia.
    reflexivity.
  - unfold sat_add. rewrite UMAX_val. rewrite W_val in *.
    rewrite sub_u_ok by lia. cbn [bind].
    replace (N.min (N.min (b + c) 18446744073709551615) (e_len e) - b) with (N.min c (e_len e - b)) by lia.
    reflexivity.
  - unfold sat_add. rewrite UMAX_val. rewrite W_val in *.
    rewrite sub_u_ok by lia. cbn [bind].
    replace (N.min (N.min (b + c) 18446744073709551615) (e_len e) - b) with (N.min c (e_len e - b)) by lia.
    reflexivity.
  - destruct Hk as (Hs & He & Hlen).
    rewrite add_u_ok by lia. cbn [bind].
    destruct (N.ltb_spec (b + e_start e) (e_end e)) as [Hv|Hv]; [|lia].
    unfold sat_add. rewrite UMAX_val. rewrite W_val in *.
    rewrite sub_u_ok by lia. cbn [bind].
    replace (N.min (N.min (b + e_start e + c) 18446744073709551615) (e_end e) - (b + e_start e)) with (N.min c (e_len e - b)) by lia.
    replace (b + e_start e) with (e_start e + b) by lia.
    reflexivity.
  - unfold sat_add. rewrite UMAX_val. rewrite W_val in *.
    rewrite sub_u_ok by lia. cbn [bind].
    replace (N.min (N.min (b + c) 18446744073709551615) (e_len e) - b) with (N.min c (e_len e - b)) by lia.
    reflexivity.
Qed.

(** the request of a pull as the machine forms it *)
Definition wf_req (q : req) : Prop :=
  q_n q < W /\
  match q_mode q with
  | MSingle _ => q_n q = 1
  | MChunk _ => True
  | MBuf _ => 0 < q_n q
  end.

Lemma k_pull_spec e q b : wf_env e -> wf_req q -> k_pull e q b = Ok (pull_spec e (q_n q) b).
Proof.
  intros He [Hn Hm]. unfold k_pull. destruct (q_mode q).
  - rewrite Hm. apply k_get_spec; assumption.
  - apply k_fetch_n_spec; assumption.
  - apply k_buf_pull_spec; assumption.
Qed.

(** the same in both build modes, and never a panic: the result does not mention the mode *)
Definition with_mode (e : env) (m : mode) : env :=
  {| e_kind := e_kind e; e_adaptor := e_adaptor e; e_len := e_len e; e_start := e_start e; e_end := e_end e;
     e_hint := e_hint e; e_owning := e_owning e; e_mode := m; e_crash := e_crash e; e_gap := e_gap e |}.

Lemma k_pull_modes e q b : wf_env e -> wf_req q ->
  k_pull (with_mode e Checked) q b = k_pull (with_mode e Wrapping) q b.
Proof.
  intros He Hq. rewrite !k_pull_spec; try assumption; reflexivity.
Qed.

(** the delivered interval lies inside the source, is not empty, is not longer than requested, and is
    shorter than requested only when it ends at the end of the source *)
Lemma pull_spec_got e n b b' rs cnt :
  pull_spec e n b = PRGot b' rs cnt ->
  b' = b /\ rs = [mk_run (Some b) (val_of e b) cnt] /\ 1 <= cnt /\ cnt <= n /\ b + cnt <= e_len e /\
  (cnt < n -> b + cnt = e_len e).
Proof.
  unfold pull_spec, got. destruct (N.ltb_spec b (e_len e)) as [Hb|Hb]; cbn [andb]; [|discriminate].
  destruct (N.ltb_spec 0 n) as [Hn|Hn]; [|discriminate].
  intros E. injection E as <- <- <-. repeat split; try lia.
Qed.

Lemma pull_spec_end e n b : pull_spec e n b = PREnd -> e_len e <= b \/ n = 0.
Proof.
  unfold pull_spec, got. destruct (N.ltb_spec b (e_len e)); cbn [andb]; [|lia].
  destruct (N.ltb_spec 0 n); [discriminate|lia].
Qed.
