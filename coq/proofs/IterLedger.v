(** * The ownership ledger (C08) of the owning wrapper over an arbitrary iterator (ConIterOfIter).

    On every run every element the wrapped iterator has yielded is in exactly one place: moved out to
    a caller, destroyed by the machinery, sitting in a slot of a thread's buffered iterator, or held
    by a thread that has not returned yet.  The invariant is stated on lists of POSITIONS up to
    permutation: the positions of these four places are a permutation of [0, cursor).

    The wrapped iterator need not be fused: what a thread holds inside its critical section are the
    positions the wrapped iterator really yielded to it ([got_of]), whatever the index of its ticket. *)
From Coq Require Import Lia ZArith List Permutation.
From OCI Require Import Machine Checkers.
From OCI.proofs Require Import Base Trace ArithOk InvKnown ChkKnown IterBase IterProt InvIterA ChkIter Borrowed Fold.
Import ListNotations.
Open Scope N_scope.

(** ** permutations of lists of positions by counting *)

Lemma count_nil x : count_occ N.eq_dec [] x = 0%nat.
Proof. reflexivity. Qed.
Lemma count_cons_app a l1 l2 x :
  count_occ N.eq_dec (a :: l1 ++ l2) x = (count_occ N.eq_dec [a] x + count_occ N.eq_dec (l1 ++ l2) x)%nat.
Proof. change (a :: l1 ++ l2) with ([a] ++ l1 ++ l2). apply count_occ_app. Qed.
Lemma count_cons_cons a b l x :
  count_occ N.eq_dec (a :: b :: l) x = (count_occ N.eq_dec [a] x + count_occ N.eq_dec (b :: l) x)%nat.
Proof. change (a :: b :: l) with ([a] ++ b :: l). apply count_occ_app. Qed.

Ltac perm_count :=
  apply (Permutation_count_occ N.eq_dec);
  let x := fresh "x" in intros x;
  repeat match goal with
         | H : Permutation _ _ |- _ =>
             let H' := fresh "Hc" in
             pose proof (proj1 (Permutation_count_occ N.eq_dec _ _) H x) as H'; clear H
         end;
  rewrite ?count_cons_app, ?count_cons_cons, ?count_occ_app, ?count_nil in *; lia.

(** ** positions of intervals *)

Lemma iv_positions_zero a : snd a = 0 -> iv_positions a = [].
Proof. unfold iv_positions. intros ->. reflexivity. Qed.

Lemma iv_positions_asc b k : iv_positions (b, N.of_nat k) = ascN b k.
Proof.
  unfold iv_positions. cbn [fst snd]. rewrite Nat2N.id.
  revert b. induction k as [|k IH]; intros b; [reflexivity|].
  cbn [seq map ascN]. rewrite N.add_0_r. f_equal.
  rewrite <- seq_shift, map_map. rewrite <- IH. apply map_ext. intros j. lia.
Qed.

Lemma iv_positions_ascN a : iv_positions a = ascN (fst a) (N.to_nat (snd a)).
Proof. destruct a as [b k]. cbn [fst snd]. rewrite <- iv_positions_asc, N2Nat.id. reflexivity. Qed.

Lemma ascN_app b j k : ascN b (j + k) = ascN b j ++ ascN (b + N.of_nat j) k.
Proof.
  revert b. induction j as [|j IH]; intros b.
  - cbn [Nat.add ascN app N.of_nat]. rewrite N.add_0_r. reflexivity.
  - cbn [Nat.add ascN app]. f_equal. rewrite IH. f_equal. f_equal. lia.
Qed.

Lemma iv_positions_split b x y : iv_positions (b, x + y) = iv_positions (b, x) ++ iv_positions (b + x, y).
Proof.
  rewrite !iv_positions_ascN. cbn [fst snd]. rewrite N2Nat.inj_add, ascN_app, N2Nat.id. reflexivity.
Qed.

Lemma iv_positions_one v : iv_positions (v, 1) = [v].
Proof. unfold iv_positions. cbn [fst snd]. change (N.to_nat 1) with 1%nat. cbn [seq map N.of_nat]. rewrite N.add_0_r. reflexivity. Qed.

Lemma iv_positions_snoc b k : iv_positions (b, k + 1) = iv_positions (b, k) ++ [b + k].
Proof. rewrite iv_positions_split, iv_positions_one. reflexivity. Qed.

Lemma positions_singles vs : positions_of (map (fun v => (v, 1)) vs) = vs.
Proof.
  induction vs as [|v vs IH]; [reflexivity|]. unfold positions_of in *. cbn [map flat_map].
  rewrite IH, iv_positions_one. reflexivity.
Qed.

Lemma positions_of_cons a l : positions_of (a :: l) = iv_positions a ++ positions_of l.
Proof. reflexivity. Qed.

Lemma positions_of_rev l : Permutation (positions_of (rev l)) (positions_of l).
Proof. apply positions_of_perm. symmetry. apply Permutation_rev. Qed.

Lemma firstn_ascN b k n : (k <= n)%nat -> firstn k (ascN b n) = ascN b k.
Proof.
  revert b n. induction k as [|k IH]; intros b n H; [reflexivity|].
  destruct n as [|n]; [lia|]. cbn [ascN firstn]. f_equal. apply IH. lia.
Qed.

(** ** from positions back to intervals *)

Lemma nodup_app_inv {A} (a b : list A) : NoDup (a ++ b) -> NoDup a /\ NoDup b /\ (forall x, In x a -> In x b -> False).
Proof.
  induction a as [|x a IH]; cbn [app]; intros H.
  - split; [constructor|]. split; [exact H|]. intros x [].
  - inversion H as [|? ? Hx H']; subst. destruct (IH H') as (Ha & Hb & Hd). split; [|split].
    + constructor; [|exact Ha]. intros Hin. apply Hx. apply in_or_app. left. exact Hin.
    + exact Hb.
    + intros y [<-|Hy] Hyb; [apply Hx; apply in_or_app; right; exact Hyb|apply (Hd y); assumption].
Qed.

Lemma pairwise_disj_positions l : NoDup (positions_of l) -> pairwise_disj l = true.
Proof.
  induction l as [|a l IH]; intros H; [reflexivity|].
  rewrite positions_of_cons in H. destruct (nodup_app_inv _ _ H) as (_ & Hl & Hd).
  cbn [pairwise_disj]. rewrite (IH Hl), andb_true_r.
  apply disj_from_forall. intros b Hb. unfold iv_disj, iv_hi.
  destruct (N.eqb_spec (snd a) 0) as [|Ha]; [reflexivity|]. cbn [orb].
  destruct (N.eqb_spec (snd b) 0) as [|Hb0]; [reflexivity|]. cbn [orb].
  destruct (N.leb_spec (fst a + snd a) (fst b)) as [|H1]; [reflexivity|]. cbn [orb].
  apply N.leb_le. destruct (N.le_gt_cases (fst b + snd b) (fst a)) as [|H2]; [assumption|exfalso].
  apply (Hd (N.max (fst a) (fst b))).
  - apply in_iv_positions. lia.
  - apply in_positions_of. exists b. split; [exact Hb|lia].
Qed.

Lemma iv_within_positions n l : (forall p, In p (positions_of l) -> p < n) -> iv_within n l = true.
Proof.
  intros H. unfold iv_within. apply forallb_forall. intros a Ha. unfold iv_hi.
  destruct (N.eqb_spec (snd a) 0) as [|Hz]; [reflexivity|]. cbn [orb]. apply N.leb_le.
  assert (fst a + snd a - 1 < n); [|lia]. apply H. apply in_positions_of. exists a. split; [exact Ha|lia].
Qed.

Lemma iv_total_positions l : iv_total l = N.of_nat (length (positions_of l)).
Proof. rewrite length_positions_of, N2Nat.id. reflexivity. Qed.

(** a list of intervals whose positions, together with some others, are exactly [0, n) *)
Lemma positions_tile l rest n :
  Permutation (positions_of l ++ rest) (iv_positions (0, n)) ->
  pairwise_disj l = true /\ iv_within n l = true /\ iv_total l + N.of_nat (length rest) = n.
Proof.
  intros P.
  assert (ND : NoDup (positions_of l ++ rest)).
  { eapply Permutation_NoDup; [symmetry; exact P|]. apply nodup_iv_positions. }
  split; [|split].
  - apply pairwise_disj_positions. apply (nodup_app_inv _ _ ND).
  - apply iv_within_positions. intros p Hp.
    assert (In p (iv_positions (0, n))) as Hin by (eapply Permutation_in; [exact P|]; apply in_or_app; left; exact Hp).
    apply in_iv_positions in Hin. cbn [fst snd] in Hin. lia.
  - rewrite iv_total_positions, <- Nat2N.inj_add, <- app_length, (Permutation_length P), length_iv_positions.
    cbn [snd]. apply N2Nat.id.
Qed.

(** ** the slots of a buffered iterator *)

Lemma slot_vals_app a b : slot_vals (a ++ b) = slot_vals a ++ slot_vals b.
Proof.
  induction a as [|[v|] a IH]; cbn [app slot_vals]; [reflexivity| |exact IH]. rewrite IH. reflexivity.
Qed.

Lemma slot_vals_some vs : slot_vals (map Some vs) = vs.
Proof. induction vs as [|v vs IH]; cbn [map slot_vals]; [reflexivity|]. rewrite IH. reflexivity. Qed.

Lemma slot_vals_none k : slot_vals (repeat None k) = [].
Proof. induction k as [|k IH]; [reflexivity|exact IH]. Qed.

Lemma write_slots_eq vs : forall slots, (length vs <= length slots)%nat ->
  write_slots slots vs = (map Some vs ++ skipn (length vs) slots, slot_vals (firstn (length vs) slots)).
Proof.
  induction vs as [|v vs IH]; intros slots H.
  - destruct slots; reflexivity.
  - destruct slots as [|s slots]; [cbn [length] in H; lia|].
    cbn [write_slots length skipn firstn map app]. rewrite IH by (cbn [length] in H; lia).
    destruct s; reflexivity.
Qed.

Lemma take_slots_length k : forall l, length (take_slots k l) = length l.
Proof.
  induction k as [|k IH]; intros l; [destruct l; reflexivity|].
  destruct l as [|x l]; [reflexivity|]. cbn [take_slots length]. rewrite IH. reflexivity.
Qed.

Lemma take_slots_vals k : forall vs rest, (k <= length vs)%nat ->
  slot_vals (take_slots k (map Some vs ++ rest)) = skipn k vs ++ slot_vals rest.
Proof.
  induction k as [|k IH]; intros vs rest H.
  - cbn [skipn]. assert (forall l, take_slots 0 l = l) as -> by (intros l; destruct l; reflexivity).
    rewrite slot_vals_app, slot_vals_some. reflexivity.
  - destruct vs as [|v vs]; [cbn [length] in H; lia|].
    cbn [map app take_slots slot_vals skipn]. apply IH. cbn [length] in H. lia.
Qed.

Lemma run_vals_asc v k : run_vals v k = ascN v k.
Proof. revert v. induction k as [|k IH]; intros v; [reflexivity|]. cbn [run_vals ascN]. rewrite IH. reflexivity. Qed.

(** ** events *)

Lemma taken_all_app e a b : taken_all e (a ++ b) = taken_all e a ++ taken_all e b.
Proof.
  induction a as [|ev a IH]; [reflexivity|]. destruct ev; cbn [app taken_all]; rewrite ?IH, ?app_assoc; reflexivity.
Qed.

Lemma dropped_all_app a b : dropped_all (a ++ b) = dropped_all a ++ dropped_all b.
Proof.
  induction a as [|ev a IH]; [reflexivity|]. destruct ev; cbn [app dropped_all]; rewrite ?IH, ?app_assoc; reflexivity.
Qed.

(** ** the ledger invariant *)

Section Ledger.

Variable e : env.
Hypothesis Hk : e_kind e = KIter.
Hypothesis Hown : e_owning e = true.
Variable L : list tid.
Hypothesis NDL : NoDup L.

Lemma pos_of_iter v : pos_of e v = v.
Proof. unfold pos_of. rewrite Hk. reflexivity. Qed.

Lemma drops_list_pos vs : positions_of (drops_iv (drops_of_list e vs)) = vs.
Proof.
  unfold drops_of_list. rewrite Hown. unfold drops_iv. rewrite map_map. cbn [d_lo d_cnt].
  erewrite map_ext; [apply positions_singles|]. intros v. cbn beta. rewrite pos_of_iter. reflexivity.
Qed.

Lemma drops_run_pos v cnt : positions_of (drops_iv (drops_of_run e v cnt)) = iv_positions (v, cnt).
Proof.
  unfold drops_of_run. rewrite Hown. cbn [andb]. destruct (N.ltb_spec 0 cnt) as [H|H].
  - cbn [drops_iv map d_lo d_cnt]. rewrite positions_of_cons, pos_of_iter. apply app_nil_r.
  - cbn [drops_iv map]. symmetry. apply iv_positions_zero. cbn [snd]. lia.
Qed.

(** the elements sitting in the slots of the thread's buffered iterator *)
Definition slots_pos (ts : tstate) : list N :=
  match t_buf ts with Some bf => slot_vals (bf_slots bf) | None => [] end.

(** what a thread holds: the closure invocations of its running loop and the positions it has taken
    from the wrapped iterator in its current critical section *)
Definition hpos (ts : tstate) : list N := positions_of (acc_iv e ts) ++ got_of (t_pc ts).

(** what a thread owns: what it holds and the contents of the slots *)
Definition own (ts : tstate) : list N := hpos ts ++ slots_pos ts.

Definition owns (pool : tid -> tstate) : list N := gather (fun t => own (pool t)) L.

(** what the events say: moved out to callers, destroyed by the machinery *)
Definition evs_pos (evs : list event) : list N := positions_of (taken_all e evs ++ dropped_all evs).

Definition slots_ok (ts : tstate) : Prop :=
  forall bf, t_buf ts = Some bf -> length (bf_slots bf) = N.to_nat (bf_c bf).

Record Led (c : cfg) : Prop := {
  l_perm  : Permutation (evs_pos (c_trace c) ++ owns (c_pool c)) (iv_positions (0, s_cur (c_sh c)));
  l_slots : forall t, slots_ok (c_pool c t)
}.

Lemma evs_pos_app a b : Permutation (evs_pos (a ++ b)) (evs_pos a ++ evs_pos b).
Proof. unfold evs_pos. rewrite taken_all_app, dropped_all_app, !positions_of_app. perm_count. Qed.

Lemma evs_pos_ret t r d : evs_pos [ERet t r d] = positions_of (res_taken e r) ++ positions_of (drops_iv d).
Proof. unfold evs_pos. cbn [taken_all dropped_all]. rewrite !app_nil_r, positions_of_app. reflexivity. Qed.

Lemma evs_pos_ret_call t r d o : evs_pos [ERet t r d; ECall t o] = positions_of (res_taken e r) ++ positions_of (drops_iv d).
Proof. unfold evs_pos. cbn [taken_all dropped_all]. rewrite !app_nil_r, positions_of_app. reflexivity. Qed.

Lemma stale_pos ts : positions_of (drops_iv (stale_drops e ts)) = slots_pos ts.
Proof. unfold stale_drops, slots_pos. destruct (t_buf ts); [apply drops_list_pos|reflexivity]. Qed.

Lemma owns_upd pool t ts' : In t L ->
  exists rest, Permutation (owns pool) (own (pool t) ++ rest) /\
               Permutation (owns (upd pool t ts')) (own ts' ++ rest).
Proof.
  intros Hin. unfold owns.
  destruct (gather_upd (fun u => own (pool u)) L t (own ts') NDL Hin) as (rest & P1 & P2).
  exists rest. split; [exact P1|].
  rewrite <- P2. erewrite gather_ext; [apply Permutation_refl|].
  intros u _. unfold upd. destruct (Nat.eqb u t); reflexivity.
Qed.

(** one step of thread [t]: [delta] are the positions the wrapped iterator yields in this step *)
Lemma led_commit c t sh' ts' l evs delta :
  Led c -> In t L ->
  Permutation (evs_pos evs ++ own ts') (delta ++ own (c_pool c t)) ->
  Permutation (delta ++ iv_positions (0, s_cur (c_sh c))) (iv_positions (0, s_cur sh')) ->
  slots_ok ts' ->
  Led (commit c t sh' ts' l evs).
Proof.
  intros I Hin P Pd Hs. split; cbn [commit c_pool c_trace c_sh].
  - destruct (owns_upd (c_pool c) t ts' Hin) as (rest & P1 & P2).
    pose proof (l_perm c I) as P0. pose proof (evs_pos_app evs (c_trace c)) as Pe.
    rewrite <- Pd. clear Pd. perm_count.
  - intros u. destruct (Nat.eq_dec u t) as [->|Hn]; [rewrite upd_same; exact Hs|].
    rewrite upd_other by assumption. apply (l_slots c I).
Qed.

Lemma led_commit0 c t sh' ts' l evs :
  Led c -> In t L ->
  Permutation (evs_pos evs ++ own ts') (own (c_pool c t)) ->
  s_cur sh' = s_cur (c_sh c) ->
  slots_ok ts' ->
  Led (commit c t sh' ts' l evs).
Proof.
  intros I Hin P E Hs. apply led_commit with (delta := []); try assumption.
  cbn [app]. rewrite E. apply Permutation_refl.
Qed.

(** a step that only moves the program counter, the holdings being the same positions *)
Lemma led_silent c t sh' p' l :
  Led c -> In t L ->
  got_of p' = got_of (t_pc (c_pool c t)) ->
  s_cur sh' = s_cur (c_sh c) ->
  Led (commit c t sh' (set_pc (c_pool c t) p') l []).
Proof.
  intros I Hin E Ec. apply led_commit0; try assumption.
  - unfold own, hpos, slots_pos, acc_iv. cbn [set_pc t_buf t_pc t_acc evs_pos app]. rewrite E. apply Permutation_refl.
  - unfold slots_ok. cbn [set_pc t_buf]. apply (l_slots c I).
Qed.

(** ** delivering a finished pull *)

Lemma deliver_end_led t ts q ts' o :
  deliver e ts q (Ok PREnd) = (ts', o) ->
  got_of (t_pc ts) = [] ->
  (q_ctx q = CTop -> t_acc ts = []) ->
  Permutation (evs_pos (ret_ev t o) ++ own ts') (own ts) /\ t_buf ts' = t_buf ts.
Proof.
  unfold deliver. intros E Hg Hacc. destruct (q_ctx q) as [|lk crash].
  - injection E as <- <-. split; [|reflexivity]. cbn [ret_ev]. rewrite evs_pos_ret. cbn [res_taken drops_iv map].
    unfold own, hpos, slots_pos, acc_iv. cbn [set_pc t_buf t_pc t_acc got_of]. rewrite Hg. apply Permutation_refl.
  - injection E as <- <-. split; [|reflexivity]. cbn [ret_ev]. rewrite evs_pos_ret. cbn [res_taken drops_iv map].
    unfold own, hpos, slots_pos, acc_iv. cbn [t_buf t_pc t_acc got_of map]. rewrite Hg. rewrite map_rev.
    pose proof (positions_of_rev (map (run_iv e) (t_acc ts))) as Pr.
    cbn [positions_of flat_map app]. rewrite !app_nil_r. rewrite Pr. apply Permutation_refl.
Qed.

Lemma chunk_pos b took cnt : took <= cnt ->
  positions_of (if took =? 0 then [] else [(b, took)]) ++
  positions_of (if 0 <? cnt - took then [(b + took, cnt - took)] else []) = iv_positions (b, cnt).
Proof.
  intros H. replace cnt with (took + (cnt - took)) at 3 by lia. rewrite iv_positions_split. f_equal.
  - destruct (N.eqb_spec took 0) as [->|]; [reflexivity|]. rewrite positions_of_cons. apply app_nil_r.
  - destruct (N.ltb_spec 0 (cnt - took)); [rewrite positions_of_cons; apply app_nil_r|].
    symmetry. apply iv_positions_zero. cbn [snd]. lia.
Qed.

(** invoking the closure of a loop on the run of positions [p, p + cnt) delivered under index [i] *)
Lemma loop_invoke_pos l crash done i p cnt :
  p < e_len e -> 1 <= cnt ->
  exists inv pan, loop_invoke l crash done [mk_run (Some i) (val_of e p) cnt] cnt = (inv, pan) /\
    match pan with
    | None => map (run_iv e) inv = [(p, cnt)]
    | Some used => 1 <= used /\ used <= cnt /\ map (run_iv e) inv = [(p, used)]
    end.
Proof.
  intros Hb Hc. unfold loop_invoke.
  set (shape := match l with LEnum => fun r => r | _ => strip_idx end).
  assert (Hshape : forall r, run_iv e (shape r) = run_iv e r) by (intros r; unfold shape; destruct l; reflexivity).
  destruct crash as [k|].
  - destruct (N.leb_spec done k) as [H1|H1]; cbn [andb].
    + destruct (N.ltb_spec k (done + cnt)) as [H2|H2].
      * eexists _, _. split; [reflexivity|]. rewrite runs_take_one by lia. split; [lia|]. split; [lia|].
        cbn [map]. rewrite Hshape, run_iv_at by assumption. reflexivity.
      * eexists _, _. split; [reflexivity|]. cbn [map]. rewrite Hshape, run_iv_at by assumption. reflexivity.
    + eexists _, _. split; [reflexivity|]. cbn [map]. rewrite Hshape, run_iv_at by assumption. reflexivity.
  - eexists _, _. split; [reflexivity|]. cbn [map]. rewrite Hshape, run_iv_at by assumption. reflexivity.
Qed.

(** a pull returns the positions [p, p + cnt) it took from the wrapped iterator (under the index [b]
    of its ticket, which is [p] when the wrapped iterator is fused) *)
Lemma deliver_got_led t ts q b p cnt ts' o :
  deliver e ts q (Ok (PRGot b [mk_run (Some b) (val_of e p) cnt] cnt)) = (ts', o) ->
  Permutation (got_of (t_pc ts)) (iv_positions (p, cnt)) ->
  (q_ctx q = CTop -> t_acc ts = []) ->
  1 <= cnt -> p < e_len e ->
  (forall k bf, q_ctx q = CTop -> q_mode q = MBuf k -> t_buf ts = Some bf -> cnt <= bf_c bf) ->
  slots_ok ts ->
  Permutation (evs_pos (ret_ev t o) ++ own ts') (own ts) /\ slots_ok ts'.
Proof.
  unfold deliver. intros E Pg Hacc Hc Hb Hbuf Hs.
  assert (Hchunk : forall k,
    Permutation (evs_pos [ERet t (chunk_res b [mk_run (Some b) (val_of e p) cnt] cnt (N.min k cnt))
                              (drops_after e (N.min k cnt) [mk_run (Some b) (val_of e p) cnt])] ++ own (set_pc ts PIdle)) (own ts)).
  { intros k. rewrite evs_pos_ret. unfold chunk_res. cbn [res_taken].
    rewrite runs_take_map by (assumption || lia). rewrite drops_after_one by (assumption || lia). rewrite Hown.
    rewrite chunk_pos by lia. unfold own, hpos, slots_pos, acc_iv. cbn [set_pc t_buf t_pc t_acc got_of]. perm_count. }
  destruct (q_ctx q) as [|lk crash] eqn:Ctx.
  - specialize (Hacc eq_refl).
    destruct (deliver_top e ts q b [mk_run (Some b) (val_of e p) cnt] cnt) as [ts1 [r d]] eqn:Ed.
    injection E as <- <-. cbn [ret_ev]. unfold deliver_top in Ed.
    destruct (q_mode q) as [v|k|k] eqn:M.
    + injection Ed as <- <- <-. split; [|exact Hs]. rewrite evs_pos_ret.
      assert (res_taken e (one_res (if reports_idx v then [mk_run (Some b) (val_of e p) cnt] else [strip_idx (mk_run (Some b) (val_of e p) cnt)])) = [(p, cnt)]) as ->.
      { destruct (reports_idx v); cbn [map one_res res_taken]; rewrite ?run_iv_strip, run_iv_at by assumption; reflexivity. }
      unfold own, hpos, slots_pos, acc_iv. cbn [set_pc t_buf t_pc t_acc got_of drops_iv map].
      rewrite positions_of_cons. cbn [positions_of flat_map]. rewrite !app_nil_r. perm_count.
    + injection Ed as <- <- <-. split; [apply Hchunk|exact Hs].
    + rewrite Hk in Ed. destruct (t_buf ts) as [bf|] eqn:Ebf.
      * (* the values go to the slots; the stale ones are destroyed; the caller takes the first ones *)
        pose proof (Hbuf k bf eq_refl eq_refl eq_refl) as Hcb. pose proof (Hs bf Ebf) as Hlen.
        assert (Hvs : runs_vals [mk_run (Some b) (val_of e p) cnt] = ascN p (N.to_nat cnt)).
        { unfold runs_vals. cbn [flat_map mk_run r_val r_cnt]. rewrite app_nil_r, run_vals_asc, (val_of_iter e Hk). reflexivity. }
        rewrite Hvs in Ed. set (vs := ascN p (N.to_nat cnt)) in *.
        assert (Hlv : length vs = N.to_nat cnt) by (unfold vs; apply ascN_length).
        rewrite write_slots_eq in Ed by (rewrite Hlv, Hlen; lia).
        injection Ed as <- <- <-. split.
        -- rewrite evs_pos_ret. unfold chunk_res. cbn [res_taken].
           rewrite runs_take_map by (assumption || lia). rewrite drops_list_pos.
           unfold own, hpos, slots_pos, acc_iv. cbn [t_buf bf_slots t_pc t_acc got_of]. rewrite Ebf, Hacc.
           cbn [map positions_of flat_map app].
           rewrite take_slots_vals by (rewrite Hlv; lia).
           assert (E1 : positions_of (if N.min k cnt =? 0 then [] else [(p, N.min k cnt)]) = firstn (N.to_nat (N.min k cnt)) vs).
           { unfold vs. rewrite firstn_ascN by lia. rewrite <- iv_positions_asc, N2Nat.id.
             destruct (N.eqb_spec (N.min k cnt) 0) as [->|]; [reflexivity|]. rewrite positions_of_cons. apply app_nil_r. }
           assert (E2 : iv_positions (p, cnt) = vs) by (unfold vs; rewrite iv_positions_ascN; reflexivity).
           rewrite E1, Hlv. rewrite E2 in Pg.
           pose proof (firstn_skipn (N.to_nat (N.min k cnt)) vs) as F1.
           pose proof (firstn_skipn (N.to_nat cnt) (bf_slots bf)) as F2.
           assert (F3 : slot_vals (bf_slots bf) = slot_vals (firstn (N.to_nat cnt) (bf_slots bf)) ++ slot_vals (skipn (N.to_nat cnt) (bf_slots bf)))
             by (rewrite <- slot_vals_app, F2; reflexivity).
           rewrite F3. clear F2 F3.
           set (f1 := firstn (N.to_nat (N.min k cnt)) vs) in *. set (s1 := skipn (N.to_nat (N.min k cnt)) vs) in *.
           rewrite <- F1 in Pg. perm_count.
        -- unfold slots_ok. cbn [t_buf]. intros bf' Ebf'. injection Ebf' as <-. cbn [bf_slots bf_c].
           rewrite take_slots_length, app_length, map_length, skipn_length, Hlv, Hlen. lia.
      * injection Ed as <- <- <-. split; [apply Hchunk|exact Hs].
  - (* inside a loop: the closure is invoked *)
    unfold deliver_loop in E.
    destruct (loop_invoke_pos lk crash (total_cnt (t_acc ts)) b p cnt Hb Hc) as (inv & pan & Ei & Hinv).
    rewrite Ei in E. destruct pan as [used|].
    + destruct Hinv as (Hu1 & Hu2 & Hinv). injection E as <- <-. split; [|exact Hs].
      cbn [ret_ev]. rewrite evs_pos_ret. cbn [res_taken].
      pose proof (drops_after_one e used (Some b) p cnt Hb Hu2) as Hd. cbn [drops_after mk_run r_cnt r_val] in Hd.
      rewrite Hd, Hown. clear Hd.
      unfold own, hpos, slots_pos, acc_iv. cbn [t_buf t_pc t_acc got_of map].
      assert (Pa : Permutation (positions_of (map (run_iv e) (rev (rev inv ++ t_acc ts)))) (iv_positions (p, used) ++ positions_of (map (run_iv e) (t_acc ts)))).
      { rewrite map_rev, positions_of_rev, map_app, positions_of_app, map_rev, positions_of_rev, Hinv.
        rewrite positions_of_cons. cbn [positions_of flat_map]. rewrite app_nil_r. reflexivity. }
      pose proof (chunk_pos p used cnt Hu2) as Ec. destruct (N.eqb_spec used 0) as [|_]; [lia|].
      rewrite (positions_of_cons (p, used)) in Ec. cbn [positions_of flat_map] in Ec. rewrite app_nil_r in Ec.
      cbn [positions_of flat_map app]. rewrite <- Ec in Pg. perm_count.
    + injection E as <- <-. split; [|exact Hs]. cbn [ret_ev]. unfold evs_pos. cbn [taken_all dropped_all app positions_of flat_map].
      unfold own, hpos, slots_pos, acc_iv. cbn [t_buf t_pc t_acc got_of]. rewrite map_app, map_rev.
      rewrite !positions_of_app. pose proof (positions_of_rev (map (run_iv e) inv)) as Pr. rewrite Hinv in Pr.
      rewrite (positions_of_cons (p, cnt)) in Pr. cbn [positions_of flat_map] in Pr. rewrite app_nil_r in Pr.
      rewrite Hinv. perm_count.
Qed.

(** ** every step preserves the ledger *)

Lemma led_finish c t sh' l q pr :
  Led c -> In t L -> s_cur sh' = s_cur (c_sh c) ->
  (forall ts' o, deliver e (c_pool c t) q pr = (ts', o) ->
     Permutation (evs_pos (ret_ev t o) ++ own ts') (own (c_pool c t)) /\ slots_ok ts') ->
  Led (finish e c t sh' (c_pool c t) l q pr).
Proof.
  intros I Hin Ec H. unfold finish. destruct (deliver e (c_pool c t) q pr) as [ts' o] eqn:E.
  destruct (H _ _ eq_refl) as [P S]. apply led_commit0; assumption.
Qed.

Lemma led_finish_end c t sh' l q :
  IInvA e L c -> Led c -> In t L -> s_cur sh' = s_cur (c_sh c) ->
  req_of (t_pc (c_pool c t)) = Some q ->
  got_of (t_pc (c_pool c t)) = [] ->
  Led (finish e c t sh' (c_pool c t) l q (Ok PREnd)).
Proof.
  intros A I Hin Ec Hreq Hg. destruct (ipc_req e L c t q A Hreq) as [_ Hacc].
  apply led_finish; try assumption. intros ts' o E.
  destruct (deliver_end_led t _ _ _ _ E Hg Hacc) as [P Eb]. split; [exact P|].
  unfold slots_ok. rewrite Eb. apply (l_slots c I).
Qed.

Lemma led_ret_plain c t sh' r l :
  Led c -> In t L -> in_crit (t_pc (c_pool c t)) = false -> res_taken e r = [] ->
  s_cur sh' = s_cur (c_sh c) ->
  Led (commit c t sh' (set_pc (c_pool c t) PIdle) l [ERet t r []]).
Proof.
  intros I Hin Cn Hr Ec. apply led_commit0; try assumption.
  - rewrite evs_pos_ret, Hr. cbn [drops_iv map positions_of flat_map app].
    unfold own, hpos, slots_pos, acc_iv. cbn [set_pc t_buf t_pc t_acc got_of].
    assert (got_of (t_pc (c_pool c t)) = []) as -> by (destruct (t_pc (c_pool c t)); try reflexivity; discriminate Cn).
    apply Permutation_refl.
  - unfold slots_ok. cbn [set_pc t_buf]. apply (l_slots c I).
Qed.

Lemma call_res_mbuf ts o q k bf :
  call_res e ts o = CGo (PRes q) -> q_ctx q = CTop -> q_mode q = MBuf k -> t_buf ts = Some bf -> q_n q = bf_c bf.
Proof.
  unfold call_res. destruct o as [v|n k0|n|k0| |lk n cr| | |]; try discriminate.
  - intros E _ M. injection E as <-. discriminate M.
  - rewrite Hk. destruct (n =? 0); [discriminate|]. intros E _ M. injection E as <-. discriminate M.
  - destruct (n =? 0); discriminate.
  - destruct (t_buf ts) as [bf0|]; [|discriminate]. intros E _ _ Eb. injection E as <-. injection Eb as <-. reflexivity.
  - destruct (n =? 0); [discriminate|]. destruct (n =? 1); intros E C; injection E as <-; discriminate C.
Qed.

Lemma led_call c t o rest :
  IInvA e L c -> Led c -> In t L -> t_pc (c_pool c t) = PIdle -> t_todo (c_pool c t) = o :: rest ->
  Led (call e c t (c_pool c t) o rest).
Proof.
  intros A I Hin Hpc Htodo.
  assert (Hacc : t_acc (c_pool c t) = []) by (apply (iacc_idle e L c t A); unfold is_idle; rewrite Hpc; reflexivity).
  assert (Hheld : hpos (c_pool c t) = []) by (unfold hpos, acc_iv; rewrite Hacc, Hpc; reflexivity).
  pose proof (l_slots c I t) as Hs.
  unfold call. destruct (call_res e (c_pool c t) o) as [p|b r d] eqn:E.
  - assert (Cp : in_crit p = false).
    { unfold call_res in E. destruct o as [v|n k0|n|k0| |lk n cr| | |]; try discriminate E; try (injection E as <-; reflexivity).
      - destruct (e_kind e); try (injection E as <-; reflexivity). destruct (n =? 0); [discriminate E|]. injection E as <-; reflexivity.
      - destruct (n =? 0); discriminate E.
      - destruct (t_buf (c_pool c t)); [|discriminate E]. injection E as <-; reflexivity.
      - destruct (n =? 0); [discriminate E|]. destruct (n =? 1); injection E as <-; reflexivity. }
    apply led_commit0; try assumption; try reflexivity.
    unfold own, slots_pos, evs_pos. cbn [t_buf taken_all dropped_all app positions_of flat_map]. rewrite Hheld.
    assert (hpos {| t_pc := p; t_todo := rest; t_buf := t_buf (c_pool c t); t_acc := [] |} = []) as ->.
    { unfold hpos, acc_iv. cbn [t_pc t_acc map app positions_of flat_map]. destruct p; try reflexivity; discriminate Cp. }
    apply Permutation_refl.
  - assert (Hr : Permutation (positions_of (res_taken e r) ++ positions_of (drops_iv d) ++
                              match b with Some bf => slot_vals (bf_slots bf) | None => [] end) (slots_pos (c_pool c t))
                 /\ (forall bf, b = Some bf -> length (bf_slots bf) = N.to_nat (bf_c bf))).
    { unfold call_res in E. destruct o as [v|n k0|n|k0| |lk n cr| | |]; try discriminate E.
      - rewrite Hk in E. destruct (n =? 0); [|discriminate E]. injection E as <- <- <-. split; [apply Permutation_refl|exact Hs].
      - destruct (n =? 0).
        + injection E as <- <- <-. split; [apply Permutation_refl|exact Hs].
        + injection E as <- <- <-. rewrite stale_pos. unfold empty_slots. rewrite Hk. cbn [res_taken positions_of flat_map app bf_slots bf_c].
          rewrite slot_vals_none, app_nil_r. split; [apply Permutation_refl|].
          intros bf Eb. injection Eb as <-. cbn [bf_slots bf_c]. apply repeat_length.
      - destruct (t_buf (c_pool c t)) eqn:Eb; [discriminate E|]. injection E as <- <- <-.
        unfold slots_pos. rewrite Eb. split; [apply Permutation_refl|discriminate].
      - injection E as <- <- <-. rewrite stale_pos. cbn [res_taken positions_of flat_map app]. rewrite app_nil_r.
        split; [apply Permutation_refl|discriminate].
      - destruct (n =? 0); [|destruct (n =? 1); discriminate E]. injection E as <- <- <-. split; [apply Permutation_refl|exact Hs]. }
    destruct Hr as [Pr Hb]. apply led_commit0; try assumption; try reflexivity; try exact Hb.
    rewrite evs_pos_ret_call. unfold own at 1. unfold slots_pos at 1. cbn [t_buf].
    assert (hpos {| t_pc := PIdle; t_todo := rest; t_buf := b; t_acc := [] |} = []) as -> by reflexivity.
    unfold own. rewrite Hheld. cbn [positions_of flat_map app]. rewrite <- Pr. rewrite <- app_assoc. apply Permutation_refl.
Qed.

Definition crit_at (x : pc) (b : N) (g : list N) : Prop :=
  match x with PSrc _ b' g' | PSetF _ b' g' | PPub _ b' g' | PUnw _ b' g' => b' = b /\ g' = g | _ => False end.

Lemma got_crit x b g : crit_at x b g -> got_of x = g.
Proof. intros H. destruct x; try contradiction; destruct H as [_ ->]; reflexivity. Qed.

Lemma led_step c t : IInvA e L c -> Led c -> In t L -> istep_nowrap c t -> Led (step e c t).
Proof.
  intros A I Hin Hw. unfold istep_nowrap in Hw.
  pose proof (a_prot e L c A) as P.
  destruct (t_pc (c_pool c t)) as [|q|q b|q b|q b|q b g|q b g|q b g|q b g| |hm|hm] eqn:Hpc.
  - (* the call point *)
    destruct (t_todo (c_pool c t)) as [|o rest] eqn:Htodo.
    + rewrite (istep_idle_nil e c t) by assumption. exact I.
    + rewrite (istep_idle_call e c t o rest) by assumption. apply led_call; assumption.
  - (* reserving *)
    rewrite (istep_res e Hk c t q Hpc). apply led_silent; try assumption; [|reflexivity]. rewrite Hpc. reflexivity.
  - (* the completed flag *)
    rewrite (istep_chkf e c t q b Hpc). destruct (s_f (c_sh c)).
    + apply led_finish_end; try assumption; try reflexivity; rewrite Hpc; reflexivity.
    + apply led_silent; try assumption; [|reflexivity]. rewrite Hpc. reflexivity.
  - (* the yielded counter *)
    rewrite (istep_ldy e c t q b Hpc). destruct (b =? s_y (c_sh c)).
    + apply led_silent; try assumption; [|reflexivity]. rewrite Hpc. reflexivity.
    + destruct (b <? s_y (c_sh c)).
      * apply led_finish_end; try assumption; try reflexivity; rewrite Hpc; reflexivity.
      * apply led_silent; try assumption; [|reflexivity]. rewrite Hpc. reflexivity.
  - (* its turn: the completed flag once more *)
    rewrite (istep_chkt e c t q b Hpc). destruct (s_f (c_sh c)).
    + apply led_finish_end; try assumption; try reflexivity; rewrite Hpc; reflexivity.
    + apply led_silent; try assumption; [|reflexivity]. rewrite Hpc. reflexivity.
  - (* one call of the wrapped iterator *)
    assert (Hsame : forall x sh' l, crit_at x b g -> s_cur sh' = s_cur (c_sh c) -> Led (commit c t sh' (set_pc (c_pool c t) x) l [])).
    { intros x sh' l Hx Ec. apply led_silent; try assumption. rewrite (got_crit _ _ _ Hx), Hpc. reflexivity. }
    assert (Hsingle : forall v, q_mode q = MSingle v -> g = []).
    { intros v Mv. destruct (a_wf e L c A t) as (Hok & _ & _). unfold ipc_ok in Hok. rewrite Hpc in Hok. destruct Hok as (Hq & _ & Hlt).
      destruct Hq as (_ & _ & H1). rewrite (H1 _ Mv) in Hlt. destruct g; [reflexivity|cbn [length] in Hlt; lia]. }
    unfold step. rewrite Hpc.
    destruct (crashes_now e (c_sh c)); [apply Hsame; [split; reflexivity|reflexivity]|].
    destruct (src_next_cases e (c_sh c)) as [[Es Hsl]|[Es _]]; rewrite Es.
    + assert (Hgo : forall x, crit_at x b (s_cur (c_sh c) :: g) ->
                Led (commit c t (with_src (c_sh c) (s_cur (c_sh c) + 1) (s_calls (c_sh c) + 1)) (set_pc (c_pool c t) x)
                            (LSrc t (Some (s_cur (c_sh c)))) [])).
      { intros x Hx. apply led_commit with (delta := [s_cur (c_sh c)]); try assumption.
        - unfold own, hpos, slots_pos, evs_pos, acc_iv. cbn [set_pc t_buf t_pc t_acc taken_all dropped_all app positions_of flat_map].
          rewrite (got_crit _ _ _ Hx), Hpc. cbn [got_of]. change (s_cur (c_sh c) :: g) with ([s_cur (c_sh c)] ++ g). perm_count.
        - cbn [with_src s_cur]. rewrite iv_positions_snoc. cbn [N.add]. perm_count.
        - unfold slots_ok. cbn [set_pc t_buf]. apply (l_slots c I). }
      destruct (q_mode q) eqn:M.
      * rewrite (Hsingle _ eq_refl) in *. apply Hgo. split; reflexivity.
      * destruct (N.of_nat (length (s_cur (c_sh c) :: g)) =? q_n q); apply Hgo; split; reflexivity.
      * destruct (N.of_nat (length (s_cur (c_sh c) :: g)) =? q_n q); apply Hgo; split; reflexivity.
    + destruct (q_mode q) eqn:M.
      * rewrite (Hsingle _ eq_refl) in *. apply Hsame; [split; reflexivity|reflexivity].
      * apply Hsame; [split; reflexivity|reflexivity].
      * apply Hsame; [split; reflexivity|reflexivity].
  - (* the wrapped iterator answered None: raising the completed flag *)
    rewrite (istep_setf e c t q b g Hpc).
    destruct (a_wf e L c A t) as (Hok & _ & _). unfold ipc_ok in Hok. rewrite Hpc in Hok. destruct Hok as (Hq & _ & Hlt).
    destruct (q_mode q) eqn:M.
    + assert (g = []) as Hg0.
      { destruct Hq as (_ & _ & H1). rewrite (H1 _ M) in Hlt. destruct g; [reflexivity|cbn [length] in Hlt; lia]. }
      subst g.
      apply led_finish_end; try assumption; try reflexivity; rewrite Hpc; reflexivity.
    + apply led_silent; try assumption; [|reflexivity]. rewrite Hpc. reflexivity.
    + apply led_silent; try assumption; [|reflexivity]. rewrite Hpc. reflexivity.
  - (* publishing: the pull returns *)
    destruct (pub_gen e Hk L c t q b g A Hpc Hw) as (Hb & Hq & Hcases).
    destruct Hcases as [(-> & ->)|(cnt & p & Ecnt & H1 & H2 & H3 & H4 & Hasc & H6 & ->)].
    + apply led_finish_end; try assumption; try reflexivity; rewrite Hpc; reflexivity.
    + destruct (ipc_req e L c t q A) as [_ Hacc]; [rewrite Hpc; reflexivity|].
      apply led_finish; try assumption; [reflexivity|]. intros ts' o E.
      apply (deliver_got_led t _ _ _ _ _ _ _ E); try assumption.
      * rewrite Hpc. cbn [got_of]. rewrite Ecnt, iv_positions_asc, <- Hasc. apply Permutation_rev.
      * intros k bf Ctx M Ebf.
        pose proof (a_call e L c A t) as Hc. unfold icall_ok in Hc.
        assert (Hni : is_idle (c_pool c t) = false) by (unfold is_idle; rewrite Hpc; reflexivity).
        rewrite Hni in Hc. destruct Hc as (o0 & older & _ & Hres). rewrite Hpc in Hres. unfold entry_of in Hres. cbn [req_of] in Hres.
        rewrite <- (call_res_mbuf _ _ _ _ _ Hres Ctx M Ebf). exact H2.
      * apply (l_slots c I).
  - (* unwinding from a panic of the wrapped iterator *)
    destruct (ipc_req e L c t q A) as [Hq Hacc]; [rewrite Hpc; reflexivity|].
    destruct (a_wf e L c A t) as (Hok & _ & _). unfold ipc_ok in Hok. rewrite Hpc in Hok. destruct Hok as (_ & _ & Hlt).
    pose proof (Permutation_rev g) as Prg.
    unfold step. rewrite Hpc.
    assert (Hgen : Led (commit c t (with_f (c_sh c) true)
              {| t_pc := PIdle; t_todo := t_todo (c_pool c t); t_buf := t_buf (c_pool c t); t_acc := [] |}
              (LAtom t SF AStore 1 0 ord_completed_store_unwind)
              [ERet t (RPanic PkSource (rev (t_acc (c_pool c t)))) (drops_of_list e (rev g))])).
    { apply led_commit0; try assumption; [|reflexivity|exact (l_slots c I t)].
      rewrite evs_pos_ret, drops_list_pos. cbn [res_taken]. rewrite map_rev.
      pose proof (positions_of_rev (map (run_iv e) (t_acc (c_pool c t)))) as Pa.
      unfold own, hpos, slots_pos, acc_iv. cbn [t_buf t_pc t_acc got_of map positions_of flat_map app]. rewrite Hpc. cbn [got_of].
      perm_count. }
    destruct (q_ctx q) eqn:Ctx; [|exact Hgen].
    destruct (q_mode q) eqn:M; try exact Hgen.
    rewrite Hk. destruct (t_buf (c_pool c t)) as [bf|] eqn:Ebf; [|exact Hgen].
    specialize (Hacc eq_refl).
    pose proof (l_slots c I t bf Ebf) as Hlen.
    assert (Hqn : q_n q = bf_c bf).
    { pose proof (a_call e L c A t) as Hc. unfold icall_ok in Hc.
      assert (Hni : is_idle (c_pool c t) = false) by (unfold is_idle; rewrite Hpc; reflexivity).
      rewrite Hni in Hc. destruct Hc as (o0 & older & _ & Hres). rewrite Hpc in Hres. unfold entry_of in Hres. cbn [req_of] in Hres.
      apply (call_res_mbuf _ _ _ _ _ Hres Ctx M Ebf). }
    rewrite write_slots_eq by (rewrite rev_length, Hlen; lia).
    apply led_commit0; try assumption; [|reflexivity|].
    + rewrite evs_pos_ret, drops_list_pos. rewrite Hacc. cbn [rev res_taken map positions_of flat_map app].
      unfold own, hpos, slots_pos, acc_iv. cbn [t_buf bf_slots t_pc t_acc got_of map positions_of flat_map app]. rewrite Ebf, Hpc, Hacc.
      cbn [got_of map positions_of flat_map app]. rewrite slot_vals_app, slot_vals_some, rev_length.
      pose proof (firstn_skipn (length g) (bf_slots bf)) as F2.
      assert (F3 : slot_vals (bf_slots bf) = slot_vals (firstn (length g) (bf_slots bf)) ++ slot_vals (skipn (length g) (bf_slots bf)))
        by (rewrite <- slot_vals_app, F2; reflexivity).
      rewrite F3. perm_count.
    + unfold slots_ok. cbn [t_buf]. intros bf' Eb'. injection Eb' as <-. cbn [bf_slots bf_c].
      rewrite app_length, map_length, skipn_length, rev_length, Hlen. lia.
  - (* skip_to_end *)
    rewrite (istep_skip e Hk c t Hpc). apply led_ret_plain; try assumption; try reflexivity. rewrite Hpc. reflexivity.
  - (* the length queries *)
    rewrite (istep_len e Hk c t hm Hpc).
    assert (Hplain : forall r l, res_taken e r = [] -> Led (commit c t (c_sh c) (set_pc (c_pool c t) PIdle) l [ERet t r []])).
    { intros r l Hr. apply led_ret_plain; try assumption; try reflexivity. rewrite Hpc. reflexivity. }
    destruct (s_f (c_sh c)); [apply Hplain; destruct hm; reflexivity|].
    destruct (e_hint e); try (apply Hplain; destruct hm; reflexivity).
    apply led_silent; try assumption; [|reflexivity]. rewrite Hpc. reflexivity.
  - rewrite (istep_len2 e c t hm Hpc). apply led_ret_plain; try assumption; try reflexivity; [rewrite Hpc; reflexivity|destruct hm; reflexivity].
Qed.

(** ** every run *)

Lemma led_init progs : Led (init progs).
Proof.
  split; cbn [init c_pool c_trace c_sh s_cur].
  - unfold owns. rewrite gather_nil by reflexivity. apply Permutation_refl.
  - intros t bf H. discriminate H.
Qed.

Lemma led_exec progs sched :
  (forall t, Forall wf_op (progs t)) -> Forall (fun t => In t L) sched ->
  nowrap (c_labels (exec e (init progs) sched)) -> Led (exec e (init progs) sched).
Proof.
  intros Hp. induction sched as [|t sched IH] using rev_ind; intros Hs Hw; [apply led_init|].
  rewrite exec_snoc in *. apply Forall_app in Hs. destruct Hs as [Hs Ht]. inversion Ht as [|? ? Hin _]; subst.
  pose proof (step_labels_suffix e _ _ Hw) as Hw1.
  apply led_step; [apply (iA_exec e Hk L NDL); assumption|apply IH; assumption|exact Hin|apply (istep_labels e Hk); exact Hw].
Qed.

(** during the run: nothing is moved out or destroyed twice, and everything lies inside the source *)
Lemma run_led c : IInvA e L c -> Led c -> chk_C08 e (c_trace c) = true.
Proof.
  intros A I. unfold chk_C08. rewrite Hown.
  destruct (positions_tile _ _ _ (l_perm c I)) as (Hd & Hw & _).
  pose proof (p_cur _ _ _ _ _ (a_prot e L c A)) as Hcur.
  rewrite Hd, (iv_within_mono _ _ _ Hcur Hw), (a_nofin e L c A). reflexivity.
Qed.

(** at a quiescent point, once every buffered iterator has been dropped, no thread owns anything *)
Lemma quiescent_owns c : IInvA e L c -> n_pending (c_trace c) = 0%Z ->
  (forall t, In t L -> t_buf (c_pool c t) = None) -> owns (c_pool c) = [].
Proof.
  intros A Hq Hb. rewrite (a_pend e L c A) in Hq.
  unfold owns. apply gather_nil. intros t Ht.
  assert (pendZ (c_pool c t) = 0%Z) as Hz.
  { apply (sumZ_zero (fun u => pendZ (c_pool c u)) L); [|exact Hq|exact Ht].
    intros u _. unfold pendZ. destruct (is_idle (c_pool c u)); lia. }
  unfold pendZ in Hz. destruct (is_idle (c_pool c t)) eqn:Ei; [|discriminate].
  unfold own, hpos, slots_pos, acc_iv. rewrite (Hb t Ht), (iacc_idle e L c t A Ei).
  unfold is_idle in Ei. destruct (t_pc (c_pool c t)); try discriminate. reflexivity.
Qed.

(** at such a point every element the wrapped iterator has yielded so far -- the positions [0, cursor),
    whatever the wrapped iterator answered in between -- has been moved out or destroyed exactly once *)
Lemma quiescent_tiles c : IInvA e L c -> Led c -> n_pending (c_trace c) = 0%Z ->
  (forall t, In t L -> t_buf (c_pool c t) = None) ->
  tiles (s_cur (c_sh c)) (taken_all e (c_trace c) ++ dropped_all (c_trace c)) = true.
Proof.
  intros A I Hq Hb. pose proof (l_perm c I) as P. rewrite (quiescent_owns c A Hq Hb) in P.
  destruct (positions_tile _ _ _ P) as (Hd & Hw & Ht). cbn [length N.of_nat] in Ht. rewrite N.add_0_r in Ht.
  unfold tiles. rewrite Hd, Hw, Ht, N.eqb_refl. reflexivity.
Qed.

(** the end of life: what the owner takes and what is destroyed is exactly the rest of the source *)
Lemma final_led c f r d :
  Permutation (evs_pos (c_trace c)) (iv_positions (0, s_cur (c_sh c))) -> s_cur (c_sh c) <= e_len e ->
  n_pending (c_trace c) = 0%Z ->
  positions_of (res_taken e r) ++ positions_of (drops_iv d) = iv_positions (s_cur (c_sh c), e_len e - s_cur (c_sh c)) ->
  chk_C08 e (EFinal f r d :: c_trace c) = true.
Proof.
  intros P Hcur Hq Hrd. unfold chk_C08. rewrite Hown.
  assert (Pt : Permutation (positions_of (taken_all e (EFinal f r d :: c_trace c) ++ dropped_all (EFinal f r d :: c_trace c)) ++ [])
                           (iv_positions (0, e_len e))).
  { cbn [taken_all dropped_all]. unfold evs_pos in P. rewrite !positions_of_app in *.
    replace (e_len e) with (s_cur (c_sh c) + (e_len e - s_cur (c_sh c))) at 1 by lia.
    rewrite iv_positions_split. cbn [N.add]. rewrite <- Hrd. perm_count. }
  destruct (positions_tile _ _ _ Pt) as (Hd & Hw & Ht). cbn [length N.of_nat] in Ht. rewrite N.add_0_r in Ht.
  rewrite Hd, Hw. cbn [has_final n_pending andb]. rewrite Hq. cbn [Z.eqb]. rewrite Ht. apply N.eqb_refl.
Qed.

Lemma final_C08_iter c t f : IInvA e L c -> Led c -> n_pending (c_trace c) = 0%Z ->
  (forall u, In u L -> t_buf (c_pool c u) = None) ->
  chk_C08 e (c_trace (final_step e c t f)) = true.
Proof.
  intros A I Hq Hb.
  pose proof (l_perm c I) as P. rewrite (quiescent_owns c A Hq Hb), app_nil_r in P.
  pose proof (p_cur _ _ _ _ _ (a_prot e L c A)) as Hcur.
  unfold final_step. rewrite Hk. destruct f as [|k].
  - cbn [c_trace]. apply final_led; try assumption. cbn [res_taken positions_of flat_map app]. apply drops_run_pos.
  - rewrite N.min_l by exact Hcur. unfold seq_res. cbn [c_trace]. apply final_led; try assumption.
    set (m := s_cur (c_sh c)) in *. set (cnt := e_len e - m). cbn [res_taken].
    rewrite drops_run_pos, !(val_of_iter e Hk).
    assert (positions_of (map (run_iv e) (nz_run None m (N.min k cnt))) = iv_positions (m, N.min k cnt)) as ->.
    { unfold nz_run. destruct (N.eqb_spec (N.min k cnt) 0) as [->|]; [reflexivity|].
      cbn [map]. unfold run_iv, mk_run. cbn [r_val r_cnt]. rewrite pos_of_iter, positions_of_cons. apply app_nil_r. }
    rewrite <- iv_positions_split. f_equal. f_equal. lia.
Qed.

End Ledger.

(** ** the theorems *)

Theorem iter_C08_run : forall e, iter_env e -> forall progs, wf_progs progs -> forall sched,
  nowrap (c_labels (exec e (init progs) sched)) ->
  chk_C08 e (c_trace (exec e (init progs) sched)) = true.
Proof.
  intros e (He & Hk) progs Hp sched Hw.
  destruct (e_owning e) eqn:Ho.
  - assert (HL : Forall (fun t => In t (nodup Nat.eq_dec sched)) sched) by (apply Forall_forall; intros t Ht; apply nodup_In; exact Ht).
    apply (run_led e Ho (nodup Nat.eq_dec sched)).
    + apply (iA_exec e Hk _ (NoDup_nodup _ _)); assumption.
    + apply (led_exec e Hk Ho _ (NoDup_nodup _ _)); assumption.
  - unfold chk_C08. rewrite Ho. destruct (borrowed_source_untouched e Ho progs sched) as [H _]. rewrite H. reflexivity.
Qed.

Theorem iter_C08_final : forall e, iter_env e -> forall progs, wf_progs progs -> forall sched,
  nowrap (c_labels (exec e (init progs) sched)) ->
  n_pending (c_trace (exec e (init progs) sched)) = 0%Z ->
  (forall t, In t (nodup Nat.eq_dec sched) -> t_buf (c_pool (exec e (init progs) sched) t) = None) ->
  forall t f, chk_C08 e (c_trace (final_step e (exec e (init progs) sched) t f)) = true.
Proof.
  intros e (He & Hk) progs Hp sched Hw Hq Hb t f.
  destruct (e_owning e) eqn:Ho.
  - assert (HL : Forall (fun t => In t (nodup Nat.eq_dec sched)) sched) by (apply Forall_forall; intros u Hu; apply nodup_In; exact Hu).
    apply (final_C08_iter e Hk Ho (nodup Nat.eq_dec sched)); try assumption.
    + apply (iA_exec e Hk _ (NoDup_nodup _ _)); assumption.
    + apply (led_exec e Hk Ho _ (NoDup_nodup _ _)); assumption.
  - unfold chk_C08. rewrite Ho. destruct (borrowed_source_untouched e Ho progs sched) as [_ H]. rewrite (H t f). reflexivity.
Qed.

(** every element the wrapped iterator has yielded is moved out or destroyed exactly once: at every
    quiescent point at which no thread keeps a buffered iterator, the positions moved out to callers and the
    positions destroyed tile [0, cursor) -- every wrapped iterator that owns its elements, fused or not *)
Theorem iter_yielded_exactly_once : forall e, iter_env e -> e_owning e = true -> forall progs, wf_progs progs -> forall sched,
  nowrap (c_labels (exec e (init progs) sched)) ->
  n_pending (c_trace (exec e (init progs) sched)) = 0%Z ->
  (forall t, In t (nodup Nat.eq_dec sched) -> t_buf (c_pool (exec e (init progs) sched) t) = None) ->
  tiles (s_cur (c_sh (exec e (init progs) sched)))
        (taken_all e (c_trace (exec e (init progs) sched)) ++ dropped_all (c_trace (exec e (init progs) sched))) = true.
Proof.
  intros e (He & Hk) Ho progs Hp sched Hw Hq Hb.
  assert (HL : Forall (fun t => In t (nodup Nat.eq_dec sched)) sched) by (apply Forall_forall; intros u Hu; apply nodup_In; exact Hu).
  apply quiescent_tiles with (L := nodup Nat.eq_dec sched); try assumption.
  - apply (iA_exec e Hk _ (NoDup_nodup _ _)); assumption.
  - apply (led_exec e Hk Ho _ (NoDup_nodup _ _)); assumption.
Qed.

Print Assumptions iter_C08_run.
Print Assumptions iter_yielded_exactly_once.
Print Assumptions iter_C08_final.
