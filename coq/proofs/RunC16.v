(** * C16 / C17 at the level of whole runs (known-size kinds): no operation panics except the documented
      panics for a chunk size of zero, a one-shot chunk pull of size zero reports the end, and the end
      of life never panics -- for every length and range up to 2^64 - 1, in both overflow modes. *)
From Coq Require Import Lia ZArith.
From OCI Require Import Machine Checkers.
From OCI.proofs Require Import Base Trace ArithOk InvKnown ChkKnown Progress.
Open Scope N_scope.

(** a program in which no closure is told to panic *)
Definition op_plain (o : op) : Prop := match o with Loop _ _ (Some _) => False | _ => True end.

(** a program that pulls from its buffered iterator only while it has one ([has]: it has one now) *)
Fixpoint buf_disc (has : bool) (prog : list op) : bool :=
  match prog with
  | [] => true
  | BufNew c :: tl => buf_disc (if c =? 0 then has else true) tl
  | BufNext _ :: tl => has && buf_disc has tl
  | BufDrop :: tl => buf_disc false tl
  | _ :: tl => buf_disc has tl
  end.

Definition has_buf (ts : tstate) : bool := match t_buf ts with Some _ => true | None => false end.

Section Run.

Variable e : env.
Hypothesis He : wf_env e.
Hypothesis Hk : is_known (e_kind e) = true.
Hypothesis Hown : e_owning e = match e_kind e with KVec | KArray => true | _ => false end.
Variable L : list tid.
Hypothesis NDL : NoDup L.

Record Q (c : cfg) : Prop := {
  q_evs   : all_rets ev_C16 (c_trace c) = true;
  q_fin   : finals_no_panic (c_trace c) = true;
  q_todo  : forall t, Forall op_plain (t_todo (c_pool c t));
  q_buf   : forall t, buf_disc (has_buf (c_pool c t)) (t_todo (c_pool c t)) = true;
  q_pend  : forall t o older, pend_call t (c_trace c) = Some (o, older) -> op_plain o
}.

Lemma q_commit c t sh' ts' l evs :
  Q c ->
  all_rets ev_C16 (evs ++ c_trace c) = true ->
  finals_no_panic (evs ++ c_trace c) = true ->
  Forall op_plain (t_todo ts') ->
  buf_disc (has_buf ts') (t_todo ts') = true ->
  (forall u o older, pend_call u (evs ++ c_trace c) = Some (o, older) -> op_plain o) ->
  Q (commit c t sh' ts' l evs).
Proof.
  intros I H1 H2 H3 H4 H5. split; cbn [commit c_trace c_pool]; try assumption.
  - intros u. destruct (Nat.eq_dec u t) as [->|Hn]; [rewrite upd_same; exact H3|rewrite upd_other by assumption; apply (q_todo c I)].
  - intros u. destruct (Nat.eq_dec u t) as [->|Hn]; [rewrite upd_same; exact H4|rewrite upd_other by assumption; apply (q_buf c I)].
Qed.

(** a return of thread [t] whose result is [r]: the pending calls of the others are untouched *)
Lemma pend_after_ret c t r d :
  Q c -> forall u o older, pend_call u (ERet t r d :: c_trace c) = Some (o, older) -> op_plain o.
Proof.
  intros I u o older H. cbn [pend_call] in H. destruct (Nat.eqb t u); [discriminate|]. eapply (q_pend c I); exact H.
Qed.

Lemma q_step c t : KInv e L c -> Q c -> In t L -> Q (step e c t).
Proof.
  intros K I Hin.
  destruct (k_wf e L c K t) as (Hok & Hops & Hbuf). unfold kpc_ok in Hok.
  pose proof (k_call e L c K t) as Hc. unfold call_ok, is_idle in Hc.
  destruct (t_pc (c_pool c t)) as [|q|q b|q b|q b|q b got|q b got|q b got|q b got| |hm|hm] eqn:Hpc; try contradiction.
  - (* the call point *)
    destruct (t_todo (c_pool c t)) as [|o rest] eqn:Htodo.
    + rewrite (step_idle_nil e c t) by assumption. exact I.
    + rewrite (step_idle_call e c t o rest) by assumption. unfold call.
      pose proof (q_todo c I t) as Hpl. rewrite Htodo in Hpl. inversion Hpl as [|? ? Hpo Hprest]; subst.
      pose proof (q_buf c I t) as Hbd. rewrite Htodo in Hbd.
      destruct (call_res e (c_pool c t) o) as [p|bf r d] eqn:E.
      * apply q_commit; [exact I|cbn [app all_rets]; apply (q_evs c I)|cbn [app finals_no_panic]; apply (q_fin c I)|exact Hprest| |].
        -- unfold has_buf. cbn [t_buf t_todo]. fold (has_buf (c_pool c t)).
           unfold call_res in E. destruct o; cbn [buf_disc] in Hbd; try exact Hbd.
           ++ destruct (c0 =? 0); discriminate.
           ++ apply andb_true_iff in Hbd. apply Hbd.
           ++ discriminate.
        -- intros u o' older H. cbn [app pend_call] in H. destruct (Nat.eqb t u) eqn:Eu.
           ++ injection H as <- _. exact Hpo.
           ++ eapply (q_pend c I); exact H.
      * assert (Hev : ev_C16 t r d (ECall t o :: c_trace c) = true /\ buf_disc (match bf with Some _ => true | None => false end) rest = true).
        { unfold ev_C16. cbn [split_call]. rewrite Nat.eqb_refl. unfold call_res in E.
          destruct o; cbn [buf_disc] in Hbd; try discriminate E.
          - destruct (e_kind e); try discriminate Hk; discriminate E.
          - destruct (c0 =? 0) eqn:E0; injection E as <- <- <-.
            + split; [reflexivity|]. exact Hbd.
            + split; [reflexivity|]. exact Hbd.
          - unfold has_buf in Hbd. destruct (t_buf (c_pool c t)); [discriminate E|]. cbn [andb] in Hbd. discriminate Hbd.
          - injection E as <- <- <-. split; [reflexivity|exact Hbd].
          - destruct (c0 =? 0) eqn:E0; [|destruct (c0 =? 1); discriminate E].
            injection E as <- <- <-. split; [reflexivity|exact Hbd]. }
        destruct Hev as [Hev Hbd'].
        apply q_commit; [exact I|cbn [app all_rets]; rewrite Hev; apply (q_evs c I)|cbn [app finals_no_panic]; apply (q_fin c I)|exact Hprest| |].
        -- unfold has_buf. cbn [t_buf t_todo]. exact Hbd'.
        -- intros u o' older H. cbn [app pend_call] in H. destruct (Nat.eqb t u); [discriminate|].
           eapply (q_pend c I); exact H.
  - (* a pull *)
    destruct Hok as (Hq & _). destruct Hc as (o & older & Hpend & Hres).
    pose proof (q_pend c I t o older Hpend) as Hplain.
    rewrite (step_res e Hk Hown c t q Hpc). unfold finish.
    rewrite (k_pull_spec e q (s_c (c_sh c)) He Hq).
    assert (Hsplit : split_call t (c_trace c) = Some (o, older)) by (apply pend_split; exact Hpend).
    (* what the pending operation and the request look like *)
    assert (Hshape : (q_ctx q = CTop /\ ((exists v, o = Next v) \/ (exists n k, o = Chunk n k /\ q_n q = n) \/ (exists k, o = BufNext k))) \/
                     (exists l cz, q_ctx q = CLoop l None /\ o = Loop l cz None /\ cz <> 0)).
    { unfold call_res in Hres. destruct o; try discriminate Hres.
      - injection Hres as <-. left. split; [reflexivity|]. left. eauto.
      - destruct (e_kind e); try discriminate Hk; injection Hres as <-; left; (split; [reflexivity|]); right; left; eauto.
      - destruct (c0 =? 0); discriminate.
      - destruct (t_buf (c_pool c t)); [|discriminate]. injection Hres as <-. left. split; [reflexivity|]. right; right. eauto.
      - destruct crash as [k|]; [contradiction Hplain|].
        destruct (N.eqb_spec c0 0) as [|Hz]; [discriminate|]. right. exists l, c0.
        destruct (c0 =? 1); injection Hres as <-; auto. }
    unfold deliver.
    destruct Hshape as [(Hctx & Hop)|(l & cz & Hctx & Hop & Hcz)]; rewrite Hctx.
    + (* a direct pull returns *)
      assert (Hret : forall ts' r d, negb (is_panic r) = true ->
                (forall n k, o = Chunk n k -> n = 0 -> r = RNone) ->
                t_todo ts' = t_todo (c_pool c t) -> has_buf ts' = has_buf (c_pool c t) ->
                Q (commit c t (with_c (c_sh c) (wadd (s_c (c_sh c)) (k_incr e q))) ts'
                          (LAtom t SC AAdd (k_incr e q) (s_c (c_sh c)) (o_res q)) (ret_ev t (Some (r, d))))).
      { intros ts' r d Hnp Hz Ht Hb. apply q_commit; try assumption; cbn [ret_ev app].
        - cbn [all_rets]. rewrite (q_evs c I), andb_true_r. unfold ev_C16. rewrite Hsplit.
          destruct Hop as [(v & ->)|[(n & k & -> & Hn)|(k & ->)]]; try exact Hnp.
          destruct (N.eqb_spec n 0) as [E0|E0]; [|exact Hnp]. rewrite (Hz n k eq_refl E0). reflexivity.
        - cbn [finals_no_panic]. apply (q_fin c I).
        - rewrite Ht. apply (q_todo c I).
        - rewrite Ht, Hb. apply (q_buf c I).
        - apply pend_after_ret. exact I. }
      unfold pull_spec, got.
      destruct ((s_c (c_sh c) <? e_len e) && (0 <? q_n q)) eqn:Eg.
      * apply andb_true_iff in Eg. destruct Eg as [_ Eg]. apply N.ltb_lt in Eg.
        unfold deliver_top.
        destruct (q_mode q) as [v|k|k].
        -- apply Hret; try reflexivity.
           ++ destruct (reports_idx v); reflexivity.
           ++ intros n k' -> ->. destruct Hop as [(v' & H)|[(n' & k'' & H & Hn)|(k'' & H)]]; try discriminate H. injection H as <- <-. lia.
        -- apply Hret; try reflexivity.
           intros n k' -> ->. destruct Hop as [(v' & H)|[(n' & k'' & H & Hn)|(k'' & H)]]; try discriminate H. injection H as <- <-. lia.
        -- destruct (e_kind e) eqn:Ek; try discriminate Hk; destruct (t_buf (c_pool c t)); apply Hret; try reflexivity;
             intros n k' -> ->; destruct Hop as [(v' & H)|[(n' & k'' & H & Hn)|(k'' & H)]]; try discriminate H; injection H as <- <-; lia.
      * apply Hret; try reflexivity; try (intros; reflexivity).
    + (* a pull of a running loop *)
      assert (Hlp : forall r, is_panic r = false -> Q (commit c t (with_c (c_sh c) (wadd (s_c (c_sh c)) (k_incr e q)))
                {| t_pc := PIdle; t_todo := t_todo (c_pool c t); t_buf := t_buf (c_pool c t); t_acc := [] |}
                (LAtom t SC AAdd (k_incr e q) (s_c (c_sh c)) (o_res q)) [ERet t r []])).
      { intros r Hnp. apply q_commit; try assumption; cbn [app t_todo].
        - cbn [all_rets]. rewrite (q_evs c I), andb_true_r. unfold ev_C16. rewrite Hsplit, Hop.
          destruct (N.eqb_spec cz 0); [contradiction|]. rewrite Hnp. reflexivity.
        - cbn [finals_no_panic]. apply (q_fin c I).
        - apply (q_todo c I).
        - unfold has_buf. cbn [t_buf]. apply (q_buf c I).
        - apply pend_after_ret. exact I. }
      unfold pull_spec, got.
      destruct ((s_c (c_sh c) <? e_len e) && (0 <? q_n q)); [|apply Hlp; reflexivity].
      unfold deliver_loop, loop_invoke.
      apply q_commit; try assumption; cbn [ret_ev app t_todo].
      * apply (q_evs c I).
      * apply (q_fin c I).
      * apply (q_todo c I).
      * unfold has_buf. cbn [t_buf]. apply (q_buf c I).
      * apply (q_pend c I).
  - (* skip_to_end *)
    destruct Hc as (o & older & Hpend & Hres).
    assert (o = Skip) by (unfold call_res in Hres; destruct o; try discriminate Hres; try reflexivity;
                          repeat match type of Hres with context [if ?x then _ else _] => destruct x end;
                          repeat match type of Hres with context [match ?x with _ => _ end] => destruct x end; discriminate Hres). subst o.
    assert (Hsplit : split_call t (c_trace c) = Some (Skip, older)) by (apply pend_split; exact Hpend).
    assert (Hg : forall sh' l d, Q (commit c t sh' (set_pc (c_pool c t) PIdle) l [ERet t RUnit d])).
    { intros sh' l d. apply q_commit; try assumption; cbn [app set_pc t_todo].
      - cbn [all_rets]. rewrite (q_evs c I), andb_true_r. unfold ev_C16. rewrite Hsplit. reflexivity.
      - cbn [finals_no_panic]. apply (q_fin c I).
      - apply (q_todo c I).
      - unfold has_buf. cbn [t_buf]. apply (q_buf c I).
      - apply pend_after_ret. exact I. }
    unfold step. rewrite Hpc. pose proof He as [Hlen _].
    destruct (e_kind e); try discriminate Hk; try apply Hg;
      rewrite (k_fetch_n_spec e (e_len e) (s_c (c_sh c)) He Hlen); destruct (pull_spec e (e_len e) (s_c (c_sh c))); apply Hg.
  - (* length queries *)
    destruct Hc as (o & older & Hpend & Hres).
    assert (Ho : o = TryLen \/ o = HasMore) by (unfold call_res in Hres; destruct o; try discriminate Hres; auto;
                          repeat match type of Hres with context [if ?x then _ else _] => destruct x end;
                          repeat match type of Hres with context [match ?x with _ => _ end] => destruct x end; discriminate Hres).
    assert (Hsplit : split_call t (c_trace c) = Some (o, older)) by (apply pend_split; exact Hpend).
    assert (Hg : forall l v, Q (commit c t (c_sh c) (set_pc (c_pool c t) PIdle) l [ERet t (len_res hm v) []])).
    { intros l v. apply q_commit; try assumption; cbn [app set_pc t_todo].
      - cbn [all_rets]. rewrite (q_evs c I), andb_true_r. unfold ev_C16. rewrite Hsplit.
        destruct Ho as [-> | ->]; unfold len_res; destruct hm; reflexivity.
      - cbn [finals_no_panic]. apply (q_fin c I).
      - apply (q_todo c I).
      - unfold has_buf. cbn [t_buf]. apply (q_buf c I).
      - apply pend_after_ret. exact I. }
    unfold step. rewrite Hpc. destruct (e_kind e); try discriminate Hk; apply Hg.
Qed.

End Run.

(** ** calls come from the programs (every machine) *)

Lemma step_calls e c t u o :
  In (ECall u o) (c_trace (step e c t)) ->
  In (ECall u o) (c_trace c) \/ (u = t /\ exists rest, t_todo (c_pool c t) = o :: rest).
Proof.
  unfold step.
  repeat first
    [ solve [intros H; left; exact H]
    | progress unfold finish, call, ret_ev
    | match goal with |- context [match ?x with _ => _ end] => destruct x eqn:? end ];
  cbn [commit c_trace app In]; intros H;
  repeat match goal with H : _ \/ _ |- _ => destruct H as [H|H] end;
  try discriminate H; try (left; exact H); try contradiction;
  try (injection H as <- <-; right; split; [reflexivity|]; eexists; first [eassumption|reflexivity]).
Qed.

Lemma deliver_todo e ts q pr ts' o : deliver e ts q pr = (ts', o) -> t_todo ts' = t_todo ts.
Proof.
  unfold deliver. intros E. destruct (q_ctx q) as [|l cr].
  - destruct pr as [[|b rs cnt]|k]; try (injection E as <- _; reflexivity).
    unfold deliver_top in E. destruct (q_mode q); try (injection E as <- _; reflexivity).
    destruct (e_kind e), (t_buf ts); try (injection E as <- _; reflexivity).
    destruct (write_slots (bf_slots b0) (runs_vals rs)). injection E as <- _. reflexivity.
  - destruct pr as [[|b rs cnt]|k]; try (injection E as <- _; reflexivity).
    unfold deliver_loop in E. destruct (loop_invoke l cr (total_cnt (t_acc ts)) rs cnt) as [inv [used|]];
      injection E as <- _; reflexivity.
Qed.

Lemma step_todo e c t u o :
  In o (t_todo (c_pool (step e c t) u)) -> In o (t_todo (c_pool c u)).
Proof.
  destruct (Nat.eq_dec u t) as [->|Hne]; [|rewrite (step_pool_other e c t u Hne); auto].
  unfold step.
  repeat first
    [ solve [intros H; exact H]
    | progress unfold call
    | match goal with |- context [finish ?e ?c ?t ?sh ?ts ?l ?q ?pr] =>
        unfold finish; let E := fresh "E" in destruct (deliver e ts q pr) as [? ?] eqn:E; apply deliver_todo in E end
    | match goal with |- context [match ?x with _ => _ end] => destruct x eqn:? end
    | match goal with |- context [let '(_, _) := ?x in _] => destruct x eqn:? end ];
  cbn [commit c_pool]; rewrite ?upd_same; cbn [set_pc t_todo]; intros H; try exact H;
  try (match goal with E : t_todo _ = t_todo _ |- _ => rewrite E in H; exact H end);
  try (match goal with E : t_todo _ = _ :: _ |- _ => rewrite E; right; exact H end);
  try (match goal with E : t_todo _ = [] |- _ => rewrite E in H; exact H end).
  all: try (right; exact H).
  all: repeat match goal with E : deliver _ _ _ _ = _ |- _ => apply deliver_todo in E end.
  all: repeat match goal with E : t_todo _ = t_todo _ |- _ => rewrite E in H; clear E end; exact H.
Qed.

Lemma exec_calls e progs sched : forall u o,
  (In (ECall u o) (c_trace (exec e (init progs) sched)) -> In o (progs u)) /\
  (In o (t_todo (c_pool (exec e (init progs) sched) u)) -> In o (progs u)).
Proof.
  induction sched as [|t sched IH] using rev_ind; intros u o.
  - cbn [exec fold_left init c_trace c_pool init_ts t_todo]. split; [intros []|auto].
  - rewrite exec_snoc. split.
    + intros H. apply step_calls in H. destruct H as [H|(-> & rest & Hr)]; [apply (proj1 (IH u o)); exact H|].
      apply (proj2 (IH t o)). rewrite Hr. left. reflexivity.
    + intros H. apply step_todo in H. apply (proj2 (IH u o)). exact H.
Qed.

(** ** the run-level theorems *)

Definition plain_progs (progs : tid -> list op) : Prop :=
  forall t, Forall op_plain (progs t) /\ buf_disc false (progs t) = true.

Lemma q_init progs : plain_progs progs -> Q (init progs).
Proof.
  intros Hp. split; cbn [init c_trace c_pool init_ts t_todo has_buf t_buf]; try reflexivity.
  - intros t. apply Hp.
  - intros t. apply Hp.
  - intros t o older H. discriminate H.
Qed.

Lemma q_exec e : known_env e -> forall progs, wf_progs progs -> plain_progs progs -> forall sched,
  nowrap (c_labels (exec e (init progs) sched)) -> Q (exec e (init progs) sched).
Proof.
  intros (He & Hk & Hown) progs Hp Hpl sched.
  induction sched as [|t sched IH] using rev_ind; intros Hw; [apply q_init; exact Hpl|].
  rewrite exec_snoc in *. pose proof (step_labels_suffix e _ _ Hw) as Hw1.
  set (L := nodup Nat.eq_dec (sched ++ [t])).
  assert (NDL : NoDup L) by apply NoDup_nodup.
  apply (q_step e He Hk Hown L); [|apply IH; exact Hw1|apply nodup_In; apply in_or_app; right; left; reflexivity].
  apply kinv_exec; try assumption.
  apply Forall_forall. intros u Hu. apply nodup_In. apply in_or_app. left. exact Hu.
Qed.

(** C16 on every run of a known-size kind whose closures do not panic: nothing panics except
    [buffered_iter(0)] and the loops with chunk size zero, which must; [next_chunk(0)] reports the end *)
Theorem known_C16_run : forall e, known_env e -> forall progs, wf_progs progs -> plain_progs progs -> forall sched,
  nowrap (c_labels (exec e (init progs) sched)) ->
  chk_C16 e (c_trace (exec e (init progs) sched)) = true.
Proof.
  intros e He progs Hp Hpl sched Hw. pose proof (q_exec e He progs Hp Hpl sched Hw) as I.
  unfold chk_C16. rewrite (q_evs _ I), (q_fin _ I). reflexivity.
Qed.

Lemma final_no_panic e c t f : wf_env e -> is_known (e_kind e) = true ->
  exists r d, c_trace (final_step e c t f) = EFinal f r d :: c_trace c /\ is_panic r = false.
Proof.
  intros [Hl Hr] Hk. unfold final_step.
  destruct f as [|k]; destruct (e_kind e) eqn:Ek; try discriminate Hk; cbn [c_trace];
    try (eexists _, _; split; reflexivity).
  all: try (match goal with |- context [seq_res ?e0 ?a ?b ?k0] =>
              destruct (seq_res e0 a b k0) as [r d] eqn:E; unfold seq_res in E; injection E as <- _; cbn [c_trace];
              eexists _, _; split; reflexivity end).
  destruct Hr as (H1 & H2 & H3).
  assert (e_start e + N.min (s_c (c_sh c)) (e_len e) < W) by lia.
  unfold add_u. destruct (e_mode e); destruct (e_start e + N.min (s_c (c_sh c)) (e_len e) <? W) eqn:E1;
    try (apply N.ltb_ge in E1; lia); cbn [c_trace]; eexists _, _; split; reflexivity.
Qed.

Theorem known_C16_final : forall e, known_env e -> forall progs, wf_progs progs -> plain_progs progs -> forall sched,
  nowrap (c_labels (exec e (init progs) sched)) -> forall t f,
  chk_C16 e (c_trace (final_step e (exec e (init progs) sched) t f)) = true.
Proof.
  intros e He progs Hp Hpl sched Hw t f. pose proof (q_exec e He progs Hp Hpl sched Hw) as I.
  destruct He as (He & Hk & _).
  destruct (final_no_panic e (exec e (init progs) sched) t f He Hk) as (r & d & -> & Hnp).
  unfold chk_C16. cbn [all_rets finals_no_panic]. rewrite (q_evs _ I), (q_fin _ I), Hnp. reflexivity.
Qed.

(** C17: when no operation asks for a chunk size of zero, nothing panics at all -- and since the model's
    results do not depend on the overflow mode (c17_pull_same_in_both_modes), in both build modes *)
Definition op_nz (o : op) : Prop :=
  match o with BufNew c => c <> 0 | Loop _ c _ => c <> 0 | _ => True end.

Lemma no_panic_from_C16 tr :
  all_rets ev_C16 tr = true -> finals_no_panic tr = true ->
  (forall u o, In (ECall u o) tr -> op_nz o) -> has_panic tr = false.
Proof.
  induction tr as [|ev tr IH]; intros H Hf Hc; [reflexivity|].
  destruct ev as [u o|u r d|f r d]; cbn [all_rets has_panic finals_no_panic] in *.
  - apply IH; [exact H|exact Hf|]. intros v o' Hv. apply (Hc v o'). right. exact Hv.
  - apply andb_true_iff in H. destruct H as [H1 H2].
    rewrite IH; [|exact H2|exact Hf|intros v o' Hv; apply (Hc v o'); right; exact Hv]. rewrite orb_false_r.
    unfold ev_C16 in H1. destruct (split_call u tr) as [[o older]|] eqn:Es; [|discriminate].
    assert (In (ECall u o) tr) as Hin.
    { clear - Es. induction tr as [|ev tr IH]; [discriminate|]. cbn [split_call] in Es.
      destruct ev as [v o'|v r' d'|f r' d']; try (right; apply IH; exact Es).
      destruct (Nat.eqb_spec v u) as [->|]; [injection Es as <- _; left; reflexivity|right; apply IH; exact Es]. }
    pose proof (Hc u o (or_intror Hin)) as Hnz. unfold op_nz in Hnz.
    destruct o; try (apply negb_true_iff in H1; exact H1).
    + destruct (n =? 0); [destruct r; try discriminate H1; reflexivity|apply negb_true_iff in H1; exact H1].
    + destruct (N.eqb_spec c 0); [contradiction|apply negb_true_iff in H1; exact H1].
    + destruct (N.eqb_spec c 0); [contradiction|apply negb_true_iff in H1; exact H1].
  - apply andb_true_iff in Hf. destruct Hf as [Hf1 Hf2]. apply negb_true_iff in Hf1. rewrite Hf1. cbn [orb].
    apply IH; [exact H|exact Hf2|]. intros v o' Hv. apply (Hc v o'). right. exact Hv.
Qed.

Theorem known_C17_no_panic : forall e, known_env e -> forall progs, wf_progs progs -> plain_progs progs ->
  (forall t, Forall op_nz (progs t)) -> forall sched,
  nowrap (c_labels (exec e (init progs) sched)) ->
  chk_no_panic (c_trace (exec e (init progs) sched)) = true.
Proof.
  intros e He progs Hp Hpl Hnz sched Hw. pose proof (q_exec e He progs Hp Hpl sched Hw) as I.
  unfold chk_no_panic. rewrite (no_panic_from_C16 _ (q_evs _ I) (q_fin _ I)); [reflexivity|].
  intros u o Hin. pose proof (proj1 (exec_calls e progs sched u o) Hin) as Ho.
  pose proof (Hnz u) as F. rewrite Forall_forall in F. apply F. exact Ho.
Qed.
