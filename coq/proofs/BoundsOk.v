(** Property C14, clause (a): the thread-safety bounds the crate DECLARES (gen/Bounds.v, generated from the source
    on every run) entail the bounds that are REQUIRED by the way each type is used across threads.

    Self-contained: only Coq's standard library and gen/Bounds.v.

    How [required] is obtained.  For every type with an [unsafe impl Send/Sync] the list of *uses* is written down
    by hand from the code of the type (with the place in the source), in terms of two kinds of cross-thread use:

      [Moves r]   a value of the type playing role [r] is created or owned by one thread and used BY VALUE
                  (moved out, mutated through a unique reference, or dropped) by another thread
                  => that type must be [Send];
      [Shares r]  a shared reference to one value of the type playing role [r] is usable by two threads at the
                  same time => that type must be [Sync].

    [Sync] for the container is about what happens when [&Container] is given to several threads (every method
    taking [&self] may then run on any of them, concurrently); [Send] for the container is about moving the whole
    container, with everything it still owns, to another thread (which then runs its methods and its destructor).

    Declaring more than required is fine (the crate asks [T: Send + Sync] nearly everywhere); declaring less is
    a soundness hole.  Where the entailment is FALSE for the current source, [required] is NOT weakened: the
    refutation [exists f, declared f = true /\ required f = false] is proved instead, under a name ending in
    [_refuted].  A later change of the source then shows up as a proof that does not compile any more:
    a removed bound breaks a positive theorem, a repaired bound breaks the refutation, a new unsafe impl
    (or constructor) breaks the coverage lemmas [known_impls] / [known_ctors] / [known_con_iters]. *)
From Coq Require Import Bool List String.
From OCI.gen Require Import Bounds.
Import ListNotations.
Open Scope string_scope.
Open Scope bool_scope.

(** * coverage: the impls this file knows are exactly the impls the translator found *)

Lemma known_impls : all_impls =
  [("Cloned", "Send"); ("Cloned", "Sync");
   ("ConIterOfArray", "Send"); ("ConIterOfArray", "Sync");
   ("ConIterOfIter", "Send"); ("ConIterOfIter", "Sync");
   ("ConIterOfRange", "Send"); ("ConIterOfRange", "Sync");
   ("ConIterOfSlice", "Send"); ("ConIterOfSlice", "Sync");
   ("ConIterOfVec", "Send"); ("ConIterOfVec", "Sync");
   ("Copied", "Send"); ("Copied", "Sync");
   ("TakenSlice", "Send"); ("TakenSlice", "Sync")].
Proof. reflexivity. Qed.

Lemma known_ctors : all_ctors =
  [("ConcurrentIterable", "Array"); ("ConcurrentIterable", "Range");
   ("ConcurrentIterable", "Slice"); ("ConcurrentIterable", "Vec");
   ("IntoCloned", "Blanket");
   ("IntoConcurrentIter", "Array"); ("IntoConcurrentIter", "Range");
   ("IntoConcurrentIter", "Slice"); ("IntoConcurrentIter", "Vec");
   ("IntoCopied", "Blanket");
   ("IterIntoConcurrentIter", "Blanket")].
Proof. reflexivity. Qed.

Lemma known_con_iters : all_con_iters =
  [("ConcurrentIter", "Cloned"); ("ConcurrentIter", "ConIterOfArray");
   ("ConcurrentIter", "ConIterOfIter"); ("ConcurrentIter", "ConIterOfRange");
   ("ConcurrentIter", "ConIterOfSlice"); ("ConcurrentIter", "ConIterOfVec");
   ("ConcurrentIter", "Copied")].
Proof. reflexivity. Qed.

(** * the vocabulary of cross-thread uses *)

Inductive role : Set := RT | RIter | RInner | RIdx.

Inductive use : Set :=
| Moves (r : role)
| Shares (r : role).

Definition need (f : flags) (u : use) : bool :=
  match u with
  | Moves RT => t_send f
  | Moves RIter => iter_send f
  | Moves RInner => inner_send f
  | Moves RIdx => idx_send f
  | Shares RT => t_sync f
  | Shares RIter => iter_sync f
  | Shares RInner => inner_sync f
  | Shares RIdx => idx_sync f
  end.

Definition required (us : list use) (f : flags) : bool := forallb (need f) us.

(** the proof of every entailment / refutation below is a finite case analysis over the 8 flags *)
Ltac entail :=
  intros [[] [] [] [] [] [] [] []]; cbv; intro; first [reflexivity | discriminate].
Ltac refute w := exists w; split; reflexivity.

(** * TakenSlice<T>  (src/iter/implementors/taken_slice.rs)
    A raw pointer [*mut T] to [len] initialized elements which it owns: [next(&mut self)] moves the next one
    out, [drop] drops the rest -- the same ownership as [std::vec::IntoIter<T>].
    Send: moving it to another thread moves the [T]s it still owns there (they are yielded or dropped there).
    Sync: [&TakenSlice] offers only [len()], but the type stands for [len] values of [T] in place, and the
          structural rule for an owner of [T]s ([Vec<T>], [IntoIter<T>]) is [T: Sync]; kept. *)
Definition uses_TakenSlice_send : list use := [Moves RT].
Definition uses_TakenSlice_sync : list use := [Shares RT].
Definition required_TakenSlice_send := required uses_TakenSlice_send.
Definition required_TakenSlice_sync := required uses_TakenSlice_sync.

Lemma TakenSlice_send_ok : forall f, declared_TakenSlice_send f = true -> required_TakenSlice_send f = true.
Proof. entail. Qed.
Lemma TakenSlice_sync_ok : forall f, declared_TakenSlice_sync f = true -> required_TakenSlice_sync f = true.
Proof. entail. Qed.

(** * ConIterOfVec<T>  (src/iter/implementors/vec.rs)
    Owns the vector ([UnsafeCell<ManuallyDrop<Vec<T>>>]).  Through [&self]: [get]/[fetch_n]/[next]/[next_chunk]
    read element [i] out BY VALUE ([take_one], [take_slice]) and give it to whichever thread won index [i];
    [early_exit]/[skip_to_end] drop the unreserved elements on the calling thread.
    Sync: sharing [&ConIterOfVec] between threads therefore moves [T]s (created by the thread that built the
          vector) to other threads => [Moves RT].  No [&T] to one element is ever handed to two threads (each
          index is delivered once, C01/C08), so [T: Sync] is not required.
    Send: the whole iterator, with the elements not yet yielded, moves; its [Drop] drops them on the new
          thread => [Moves RT]. *)
Definition uses_ConIterOfVec_sync : list use := [Moves RT].
Definition uses_ConIterOfVec_send : list use := [Moves RT].
Definition required_ConIterOfVec_sync := required uses_ConIterOfVec_sync.
Definition required_ConIterOfVec_send := required uses_ConIterOfVec_send.

Lemma ConIterOfVec_sync_ok : forall f, declared_ConIterOfVec_sync f = true -> required_ConIterOfVec_sync f = true.
Proof. entail. Qed.
Lemma ConIterOfVec_send_ok : forall f, declared_ConIterOfVec_send f = true -> required_ConIterOfVec_send f = true.
Proof. entail. Qed.

(** * ConIterOfArray<N, T>  (src/iter/implementors/array.rs)
    Same shape as ConIterOfVec: owns [[T; N]] in an [UnsafeCell<ManuallyDrop<..>>], hands elements out by value
    through [&self] ([take_one], [take_slice]), drops the rest in [early_exit] and in [Drop]. *)
Definition uses_ConIterOfArray_sync : list use := [Moves RT].
Definition uses_ConIterOfArray_send : list use := [Moves RT].
Definition required_ConIterOfArray_sync := required uses_ConIterOfArray_sync.
Definition required_ConIterOfArray_send := required uses_ConIterOfArray_send.

Lemma ConIterOfArray_sync_ok : forall f, declared_ConIterOfArray_sync f = true -> required_ConIterOfArray_sync f = true.
Proof. entail. Qed.
Lemma ConIterOfArray_send_ok : forall f, declared_ConIterOfArray_send f = true -> required_ConIterOfArray_send f = true.
Proof. entail. Qed.

(** * ConIterOfSlice<'a, T>  (src/iter/implementors/slice.rs)
    Holds [&'a [T]] and a counter; every pull returns [&'a T] into the shared slice.
    Sync: threads sharing [&ConIterOfSlice] each obtain [&'a T]s into the same slice, alive at the same time
          (and [clone()]/[as_slice] give the whole slice) => [Shares RT].
    Send: moving the iterator moves a [&'a [T]] to another thread while the owner of the collection keeps its
          own access => two threads hold [&T] to the same elements => [Shares RT]
          (the std rule: [&T: Send] iff [T: Sync]).
    Nothing is ever moved out of the slice, so [T: Send] is not required. *)
Definition uses_ConIterOfSlice_sync : list use := [Shares RT].
Definition uses_ConIterOfSlice_send : list use := [Shares RT].
Definition required_ConIterOfSlice_sync := required uses_ConIterOfSlice_sync.
Definition required_ConIterOfSlice_send := required uses_ConIterOfSlice_send.

Lemma ConIterOfSlice_sync_ok : forall f, declared_ConIterOfSlice_sync f = true -> required_ConIterOfSlice_sync f = true.
Proof. entail. Qed.
Lemma ConIterOfSlice_send_ok : forall f, declared_ConIterOfSlice_send f = true -> required_ConIterOfSlice_send f = true.
Proof. entail. Qed.

(** * ConIterOfRange<Idx>  (src/iter/implementors/range.rs)
    Holds [Range<Idx>] and a counter; a pull computes a fresh [Idx] from [&self.range.start] ([Idx: Copy]).
    Sync: several threads read [self.range] through [&self] at the same time => [Shares RIdx].
    Send: the two [Idx] values of the range move with the iterator => [Moves RIdx]. *)
Definition uses_ConIterOfRange_sync : list use := [Shares RIdx].
Definition uses_ConIterOfRange_send : list use := [Moves RIdx].
Definition required_ConIterOfRange_sync := required uses_ConIterOfRange_sync.
Definition required_ConIterOfRange_send := required uses_ConIterOfRange_send.

Lemma ConIterOfRange_sync_ok : forall f, declared_ConIterOfRange_sync f = true -> required_ConIterOfRange_sync f = true.
Proof. entail. Qed.
Lemma ConIterOfRange_send_ok : forall f, declared_ConIterOfRange_send f = true -> required_ConIterOfRange_send f = true.
Proof. entail. Qed.

(** * ConIterOfIter<T, Iter>  (src/iter/implementors/iter.rs)
    Holds the wrapped sequential iterator in an [UnsafeCell<Iter>].  Through [&self], the thread whose ticket
    (reserved index) equals the yielded counter obtains [&mut Iter] ([mut_iter]) and calls [Iter::next] on it
    ([get], [fetch_n], [BufferIter::pull]); then the next ticket holder does the same, on another thread.  The
    concurrency model exhibits the schedule (two threads, one pull each: both call [next] on the same [Iter]
    value, one after the other).  So the ONE value of type [Iter], with whatever state it owns (a closure's
    captures, a [vec::IntoIter]'s buffer, ...), is mutated through a unique reference by different threads in
    turn: this is the use a [Mutex<Iter>] makes of its content, and [Mutex<Iter>: Sync] needs [Iter: Send].
    Sync: => [Moves RIter].
    Send: the iterator value moves with the container; [into_seq_iter(self)] hands it back, [Drop] drops it
          => [Moves RIter].
    The elements: every [T] is produced by [Iter::next] on the pulling thread and returned to that same thread
    (the per-thread buffer of [BufferedIter] is not shared), so the type itself does not move a [T] between
    threads; elements that [Iter] still owns inside travel with [Iter] and are covered by [Iter: Send].
    [Iter: Sync] is not required: [&Iter] is never used by two threads at once (C07a, mutual exclusion).

    The source demands NOTHING of [Iter] (known finding F10): both entailments are refuted.  Witness: element
    type [usize] (Send + Sync), [Iter] = a [Map] whose closure owns an [Rc] (neither Send nor Sync). *)
Definition uses_ConIterOfIter_sync : list use := [Moves RIter].
Definition uses_ConIterOfIter_send : list use := [Moves RIter].
Definition required_ConIterOfIter_sync := required uses_ConIterOfIter_sync.
Definition required_ConIterOfIter_send := required uses_ConIterOfIter_send.

(** [T] = usize, [Iter] not Send, not Sync; the roles that do not occur are set to true *)
Definition witness_iter_state_not_send : flags :=
  mk_flags true true false false true true true true.

Lemma ConIterOfIter_sync_refuted :
  exists f, declared_ConIterOfIter_sync f = true /\ required_ConIterOfIter_sync f = false.
Proof. refute witness_iter_state_not_send. Qed.
Lemma ConIterOfIter_send_refuted :
  exists f, declared_ConIterOfIter_send f = true /\ required_ConIterOfIter_send f = false.
Proof. refute witness_iter_state_not_send. Qed.

(** * Cloned<'a, T, A> and Copied<'a, T, A>  (src/iter/cloned.rs, src/iter/copied.rs)
    Fields: the inner concurrent iterator [iter: A] (with [A: AtomicIter<&'a T>]) and [PhantomData<&'a T>]; no
    interior mutability and no raw pointer of its own, every method forwards to [A] through [&A] and clones /
    copies the [&'a T] it gets on the calling thread (the clone stays on that thread).  The structural rule
    (what the compiler would derive for these fields) is therefore exact:
    Sync: [&A] is used by all the sharing threads => [Shares RInner]; the [&'a T]s that [A] delivers point into
          a collection that other threads read at the same time => [Shares RT].
    Send: [A] moves => [Moves RInner]; it carries [&'a T]s to another thread => [Shares RT].
    The bound on [A] is declared through the supertraits of [AtomicIter] ([AtomicIter: Send + Sync]); the
    translator expands it, so dropping that supertrait breaks these lemmas. *)
Definition uses_Cloned_sync : list use := [Shares RInner; Shares RT].
Definition uses_Cloned_send : list use := [Moves RInner; Shares RT].
Definition required_Cloned_sync := required uses_Cloned_sync.
Definition required_Cloned_send := required uses_Cloned_send.
Definition uses_Copied_sync : list use := [Shares RInner; Shares RT].
Definition uses_Copied_send : list use := [Moves RInner; Shares RT].
Definition required_Copied_sync := required uses_Copied_sync.
Definition required_Copied_send := required uses_Copied_send.

Lemma Cloned_sync_ok : forall f, declared_Cloned_sync f = true -> required_Cloned_sync f = true.
Proof. entail. Qed.
Lemma Cloned_send_ok : forall f, declared_Cloned_send f = true -> required_Cloned_send f = true.
Proof. entail. Qed.
Lemma Copied_sync_ok : forall f, declared_Copied_sync f = true -> required_Copied_sync f = true.
Proof. entail. Qed.
Lemma Copied_send_ok : forall f, declared_Copied_send f = true -> required_Copied_send f = true.
Proof. entail. Qed.

(** * what a shareable concurrent iterator of each type requires
    [ConcurrentIter: Send + Sync] is a supertrait (gen/Bounds.v: [super_ConcurrentIter_send/sync]), so whoever
    holds a [C: ConcurrentIter] may move it and share it: an impl of [ConcurrentIter] for a type, and every
    constructor that returns that type, must demand what both [Send] and [Sync] of the type require. *)
Definition shareable (send sync : flags -> bool) (f : flags) : bool := send f && sync f.

Definition required_share_ConIterOfVec := shareable required_ConIterOfVec_send required_ConIterOfVec_sync.
Definition required_share_ConIterOfArray := shareable required_ConIterOfArray_send required_ConIterOfArray_sync.
Definition required_share_ConIterOfSlice := shareable required_ConIterOfSlice_send required_ConIterOfSlice_sync.
Definition required_share_ConIterOfRange := shareable required_ConIterOfRange_send required_ConIterOfRange_sync.
Definition required_share_ConIterOfIter := shareable required_ConIterOfIter_send required_ConIterOfIter_sync.
Definition required_share_Cloned := shareable required_Cloned_send required_Cloned_sync.
Definition required_share_Copied := shareable required_Copied_send required_Copied_sync.

Lemma supertraits_promise_send_sync :
  super_ConcurrentIter_send = true /\ super_ConcurrentIter_sync = true /\
  super_AtomicIter_send = true /\ super_AtomicIter_sync = true.
Proof. repeat split; reflexivity. Qed.

(** ** impls of ConcurrentIter *)
Lemma impl_ConIterOfVec_ok : forall f, impl_ConcurrentIter_ConIterOfVec f = true -> required_share_ConIterOfVec f = true.
Proof. entail. Qed.
Lemma impl_ConIterOfArray_ok : forall f, impl_ConcurrentIter_ConIterOfArray f = true -> required_share_ConIterOfArray f = true.
Proof. entail. Qed.
Lemma impl_ConIterOfSlice_ok : forall f, impl_ConcurrentIter_ConIterOfSlice f = true -> required_share_ConIterOfSlice f = true.
Proof. entail. Qed.
Lemma impl_ConIterOfRange_ok : forall f, impl_ConcurrentIter_ConIterOfRange f = true -> required_share_ConIterOfRange f = true.
Proof. entail. Qed.
Lemma impl_Cloned_ok : forall f, impl_ConcurrentIter_Cloned f = true -> required_share_Cloned f = true.
Proof. entail. Qed.
Lemma impl_Copied_ok : forall f, impl_ConcurrentIter_Copied f = true -> required_share_Copied f = true.
Proof. entail. Qed.
Lemma impl_ConIterOfIter_refuted :
  exists f, impl_ConcurrentIter_ConIterOfIter f = true /\ required_share_ConIterOfIter f = false.
Proof. refute witness_iter_state_not_send. Qed.

(** ** constructors and adaptors
    [vec.into_con_iter()] -> ConIterOfVec, [array.into_con_iter()] -> ConIterOfArray,
    [slice.into_con_iter()], [vec/array/slice.con_iter()] -> ConIterOfSlice, [range.con_iter()/into_con_iter()]
    -> ConIterOfRange, [iterator.into_con_iter()] -> ConIterOfIter, [.cloned()] -> Cloned, [.copied()] -> Copied
    (the associated type [ConIter] of each impl in src/iter/constructors/implementors/). *)
Lemma ctor_into_Vec_ok : forall f, ctor_IntoConcurrentIter_Vec f = true -> required_share_ConIterOfVec f = true.
Proof. entail. Qed.
Lemma ctor_into_Array_ok : forall f, ctor_IntoConcurrentIter_Array f = true -> required_share_ConIterOfArray f = true.
Proof. entail. Qed.
Lemma ctor_into_Slice_ok : forall f, ctor_IntoConcurrentIter_Slice f = true -> required_share_ConIterOfSlice f = true.
Proof. entail. Qed.
Lemma ctor_into_Range_ok : forall f, ctor_IntoConcurrentIter_Range f = true -> required_share_ConIterOfRange f = true.
Proof. entail. Qed.
Lemma ctor_iterable_Vec_ok : forall f, ctor_ConcurrentIterable_Vec f = true -> required_share_ConIterOfSlice f = true.
Proof. entail. Qed.
Lemma ctor_iterable_Array_ok : forall f, ctor_ConcurrentIterable_Array f = true -> required_share_ConIterOfSlice f = true.
Proof. entail. Qed.
Lemma ctor_iterable_Slice_ok : forall f, ctor_ConcurrentIterable_Slice f = true -> required_share_ConIterOfSlice f = true.
Proof. entail. Qed.
Lemma ctor_iterable_Range_ok : forall f, ctor_ConcurrentIterable_Range f = true -> required_share_ConIterOfRange f = true.
Proof. entail. Qed.
Lemma ctor_cloned_ok : forall f, ctor_IntoCloned_Blanket f = true -> required_share_Cloned f = true.
Proof. entail. Qed.
Lemma ctor_copied_ok : forall f, ctor_IntoCopied_Blanket f = true -> required_share_Copied f = true.
Proof. entail. Qed.
Lemma ctor_iter_refuted :
  exists f, ctor_IterIntoConcurrentIter_Blanket f = true /\ required_share_ConIterOfIter f = false.
Proof. refute witness_iter_state_not_send. Qed.
