(** * The wrapper over an arbitrary iterator: the completed flag, the end of the iteration, and the
      per-event checks (layer B, on top of layer A). *)
From Coq Require Import Lia ZArith Permutation.
From OCI Require Import Machine Checkers.
From OCI.proofs Require Import Base Trace ArithOk InvKnown IterBase IterProt InvIterA.
Open Scope N_scope.

(** the per-event parts of the checkers C02--C06 and C12 *)
Definition ev6 (e : env) : tid -> res -> list drops -> list event -> bool :=
  fun t r d tl => ev_C02 e t r d tl && ev_C03 e t r d tl && ev_C04 e t r d tl && ev_C05 e t r d tl
                  && ev_C06 e t r d tl && ev_C12 t r d tl.

(** the part of them that does not depend on positions and indices coinciding: it holds for every
    wrapped iterator, fused or not *)
Definition ev5 (e : env) : tid -> res -> list drops -> list event -> bool :=
  fun t r d tl => ev_C05 e t r d tl && ev_C06 e t r d tl && ev_C12 t r d tl.

(** the part that needs a fused wrapped iterator *)
Definition ev234 (e : env) : tid -> res -> list drops -> list event -> bool :=
  fun t r d tl => ev_C02 e t r d tl && ev_C03 e t r d tl && ev_C04 e t r d tl.

Lemma ev6_split e t r d tl : ev6 e t r d tl = ev234 e t r d tl && ev5 e t r d tl.
Proof.
  unfold ev6, ev234, ev5.
  destruct (ev_C02 e t r d tl), (ev_C03 e t r d tl), (ev_C04 e t r d tl), (ev_C05 e t r d tl), (ev_C06 e t r d tl), (ev_C12 t r d tl); reflexivity.
Qed.

Lemma all_rets_ev6 e tr : all_rets (ev234 e) tr = true -> all_rets (ev5 e) tr = true -> all_rets (ev6 e) tr = true.
Proof.
  intros H1 H2. induction tr as [|ev tr IH]; [reflexivity|].
  destruct ev as [u o|u r d|f r d]; cbn [all_rets] in *; try (apply IH; assumption).
  apply andb_true_iff in H1. destruct H1 as [H1 H1']. apply andb_true_iff in H2. destruct H2 as [H2 H2'].
  rewrite ev6_split, H1, H2, (IH H1' H2'). reflexivity.
Qed.

(** the iteration has been stopped: an end report or a returned skip_to_end *)
Definition stopped2 (tr : list event) : bool := end_reported tr || skip_returned tr.

Lemma stopped2_cons ev tr : stopped2 tr = true -> stopped2 (ev :: tr) = true.
Proof.
  unfold stopped2. rewrite !orb_true_iff. intros [H|H]; [left; apply end_reported_cons|right; apply skip_returned_cons]; assumption.
Qed.

Lemma stopped2_suffix s tr : suffix s tr -> stopped2 s = true -> stopped2 tr = true.
Proof. intros [p ->] H. induction p as [|ev p IH]; [assumption|]. apply stopped2_cons, IH. Qed.

(** the thread has not yet tested the completed flag for its current reservation, or (at its turn, [PChkT])
    it is about to test it once more *)
Definition before_gate (p : pc) : bool :=
  match p with PLdY _ _ | PSrc _ _ _ | PSetF _ _ _ | PPub _ _ _ | PUnw _ _ _ | PLen2 _ => false | _ => true end.

Section IterB.

Variable e : env.
Hypothesis He : wf_env e.
Hypothesis Hk : e_kind e = KIter.
Variable L : list tid.
Hypothesis NDL : NoDup L.

(** the thread will not take an element any more: the completed flag is up and the thread has still
    to test it *)
Definition NT (sh : shared) (ts : tstate) : Prop :=
  s_f sh = true /\ before_gate (t_pc ts) = true.

Definition nt_ok (tr : list event) (sh : shared) (t : tid) (ts : tstate) : Prop :=
  match pend_call t tr with
  | Some (o, older) => stopped2 older = true -> NT sh ts /\ got_of (t_pc ts) = [] /\ t_acc ts = []
  | None => True
  end.

(** the part that needs a fused wrapped iterator *)
Record IInvBF (c : cfg) : Prop := {
  bf_f    : s_f (c_sh c) = true -> s_cur (c_sh c) = e_len e \/ has_skip (c_trace c) = true \/ has_panic (c_trace c) = true;
  bf_evs  : all_rets (ev234 e) (c_trace c) = true;
  bf_cs   : s_cur (c_sh c) <= s_c (c_sh c)
}.

(** the invariant of every wrapped iterator, fused or not: an end report or a returned skip_to_end
    means that the completed flag is up, and a call made after that never passes the test of the flag *)
Record IInvB (c : cfg) : Prop := {
  b_endf : end_reported (c_trace c) = true -> s_f (c_sh c) = true;
  b_skip : skip_returned (c_trace c) = true -> s_f (c_sh c) = true;
  b_nt   : forall t, nt_ok (c_trace c) (c_sh c) t (c_pool c t);
  b_pubf : forall t q b g, t_pc (c_pool c t) = PPub q b g -> N.of_nat (length g) < q_n q -> s_f (c_sh c) = true;
  b_evs5 : all_rets (ev5 e) (c_trace c) = true;
  b_len2 : forall t hm o older, t_pc (c_pool c t) = PLen2 hm -> pend_call t (c_trace c) = Some (o, older) ->
             skip_returned older = false;
  b_fu   : fused e -> IInvBF c
}.

Lemma b_f c : IInvB c -> fused e -> s_f (c_sh c) = true ->
  s_cur (c_sh c) = e_len e \/ has_skip (c_trace c) = true \/ has_panic (c_trace c) = true.
Proof. intros I Hfu. apply (bf_f c (b_fu c I Hfu)). Qed.

Lemma b_end c : IInvB c -> end_reported (c_trace c) = true -> s_f (c_sh c) = true \/ s_cur (c_sh c) = e_len e.
Proof. intros I H. left. apply (b_endf c I H). Qed.

Lemma b_evs c : IInvB c -> fused e -> all_rets (ev6 e) (c_trace c) = true.
Proof. intros I Hfu. apply all_rets_ev6; [apply (bf_evs c (b_fu c I Hfu))|apply (b_evs5 c I)]. Qed.

Lemma b_cs c : IInvB c -> fused e -> s_cur (c_sh c) <= s_c (c_sh c).
Proof. intros I Hfu. apply (bf_cs c (b_fu c I Hfu)). Qed.

Lemma iB_commit c t sh' ts' l evs :
  IInvB c -> In t L -> Forall (ev_of t) evs ->
  (s_f (c_sh c) = true -> s_f sh' = true) ->
  (end_reported (evs ++ c_trace c) = true -> s_f sh' = true) ->
  (skip_returned (evs ++ c_trace c) = true -> s_f sh' = true) ->
  nt_ok (evs ++ c_trace c) sh' t ts' ->
  (forall q b g, t_pc ts' = PPub q b g -> N.of_nat (length g) < q_n q -> s_f sh' = true) ->
  all_rets (ev5 e) (evs ++ c_trace c) = true ->
  (forall hm o older, t_pc ts' = PLen2 hm -> pend_call t (evs ++ c_trace c) = Some (o, older) -> skip_returned older = false) ->
  (fused e -> IInvBF c ->
     (s_f sh' = true -> s_cur sh' = e_len e \/ has_skip (evs ++ c_trace c) = true \/ has_panic (evs ++ c_trace c) = true) /\
     all_rets (ev234 e) (evs ++ c_trace c) = true /\ s_cur sh' <= s_c sh') ->
  IInvB (commit c t sh' ts' l evs).
Proof.
  intros I Hin Fev Sf Hend Hskip Hnt Hpubf Hevs Hl2 HF. split; cbn [commit c_pool c_trace c_sh]; try assumption.
  - intros u. destruct (Nat.eq_dec u t) as [->|Hn].
    + rewrite upd_same. exact Hnt.
    + rewrite upd_other by assumption. pose proof (b_nt c I u) as H. unfold nt_ok in *.
      rewrite (pend_call_others t u evs _ Hn Fev).
      destruct (pend_call u (c_trace c)) as [[o older]|]; [|exact I0].
      intros Hs. destruct (H Hs) as ((Hn1 & Hn1') & Hn2 & Hn3). split; [|split; assumption].
      unfold NT. split; [apply Sf; exact Hn1|exact Hn1'].
  - intros u q b g. destruct (Nat.eq_dec u t) as [->|Hn].
    + rewrite upd_same. apply Hpubf.
    + rewrite upd_other by assumption. intros H1 H2. apply Sf. apply (b_pubf c I u q b g H1 H2).
  - intros u hm o older. destruct (Nat.eq_dec u t) as [->|Hn].
    + rewrite upd_same. apply Hl2.
    + rewrite upd_other by assumption. rewrite (pend_call_others t u evs _ Hn Fev). apply (b_len2 c I).
  - intros Hfu. destruct (HF Hfu (b_fu c I Hfu)) as (H1 & H2 & H3). split; assumption.
Qed.

(** ** the per-event checks *)

Lemma ev234_intro t r d tl o older :
  split_call t tl = Some (o, older) ->
  forallb (run_idx_ok e) (res_runs r) = true ->
  match o with
  | Chunk n k => (n =? 0) || chunk_ok e n k r
  | BufNext k => match buf_size t older with Some c => chunk_ok e c k r | None => true end
  | _ => true
  end = true ->
  increasing (res_cover e r) = true ->
  all_above (iv_maxhi (cov_of e t tl)) (res_cover e r) = true ->
  all_above (iv_maxhi (cov e older)) (res_cover e r) = true ->
  ev234 e t r d tl = true.
Proof.
  intros Hs H2 H3 H4a H4b H4c.
  unfold ev234, ev_C02, ev_C03, ev_C04. rewrite Hs, H2, H4a, H4b, H4c. cbn [andb].
  replace (match o with
           | Chunk n k => (n =? 0) || chunk_ok e n k r
           | BufNext k => match buf_size t older with Some c => chunk_ok e c k r | None => true end
           | _ => true end) with true by (symmetry; exact H3).
  reflexivity.
Qed.

Lemma ev5_intro t r d tl o older :
  split_call t tl = Some (o, older) ->
  (end_reported older = true ->
     (if can_end o then is_end r || is_panic r else true) && delivers_nothing e r && no_positive r = true) ->
  (skip_returned older = true ->
     (if can_end o then is_end r || is_panic r else true) && delivers_nothing e r
     && match o, r with
        | HasMore, RMore HNo => true
        | HasMore, _ => false
        | TryLen, RLen (Some n) => n =? 0
        | TryLen, _ => false
        | _, _ => true
        end = true) ->
  match o with Loop l c cr => if c =? 0 then is_chunkzero r else loop_shape_ok l r && loop_panic_ok cr r | _ => true end = true ->
  ev5 e t r d tl = true.
Proof.
  intros Hs H5 H6 H12.
  unfold ev5, ev_C05, ev_C06, ev_C12. rewrite Hs.
  destruct (end_reported older); [rewrite (H5 eq_refl)|]; cbn [andb];
  (destruct (skip_returned older); [rewrite (H6 eq_refl)|]); cbn [andb]; exact H12.
Qed.

Lemma null_shapes o r : null_pair o r = true ->
  res_cover e r = [] /\ res_runs r = [] /\ no_positive r = true.
Proof.
  intros Hp. destruct o, r; cbn [null_pair] in Hp; try discriminate; try (destruct rs; try discriminate); repeat split; reflexivity.
Qed.

Lemma ev234_null t r d tl o older :
  split_call t tl = Some (o, older) -> null_pair o r = true -> ev234 e t r d tl = true.
Proof.
  intros Hs Hp. destruct (null_shapes o r Hp) as (Hc & Hr & Hn).
  apply ev234_intro with o older; try assumption.
  - rewrite Hr. reflexivity.
  - destruct o, r; cbn [null_pair] in Hp; try discriminate; try reflexivity;
      cbn [chunk_ok]; rewrite ?orb_true_r; try reflexivity; destruct (buf_size t older); reflexivity.
  - rewrite Hc. reflexivity.
  - rewrite Hc. reflexivity.
  - rewrite Hc. reflexivity.
Qed.

Lemma ev5_null t r d tl o older :
  split_call t tl = Some (o, older) -> null_pair o r = true -> ev5 e t r d tl = true.
Proof.
  intros Hs Hp. destruct (null_shapes o r Hp) as (Hc & Hr & Hn).
  apply ev5_intro with o older; try assumption.
  - intros _. unfold delivers_nothing. rewrite Hc, Hn. cbn [iv_total N.eqb andb].
    destruct o, r; cbn [null_pair] in Hp; try discriminate; try (destruct rs; try discriminate);
      cbn [can_end is_pull is_end is_panic negb orb andb]; try reflexivity; destruct (n =? 0); reflexivity.
  - intros _. unfold delivers_nothing. rewrite Hc. cbn [iv_total N.eqb andb].
    destruct o, r; cbn [null_pair] in Hp; try discriminate; try (destruct rs; try discriminate);
      cbn [can_end is_pull is_end is_panic negb orb andb]; try reflexivity; destruct (n =? 0); reflexivity.
  - destruct o, r; cbn [null_pair] in Hp; try discriminate; try reflexivity;
      try (destruct rs; try discriminate).
    + destruct (c =? 0); [discriminate Hp|reflexivity].
    + destruct (c =? 0); [exact Hp|discriminate Hp].
Qed.

(** ** helpers *)

Lemma stop_state c older : IInvB c -> suffix older (c_trace c) -> stopped2 older = true ->
  s_f (c_sh c) = true.
Proof.
  intros I Hsuf Hs. unfold stopped2 in Hs. apply orb_true_iff in Hs. destruct Hs as [H|H].
  - apply (b_endf c I). eapply end_reported_suffix; eassumption.
  - apply (b_skip c I). eapply skip_returned_suffix; eassumption.
Qed.

Lemma f_mono_app (sh : shared) tr evs :
  (s_f sh = true -> s_cur sh = e_len e \/ has_skip tr = true \/ has_panic tr = true) ->
  s_f sh = true -> s_cur sh = e_len e \/ has_skip (evs ++ tr) = true \/ has_panic (evs ++ tr) = true.
Proof.
  intros H Hf. induction evs as [|ev evs IH]; [exact (H Hf)|]. cbn [app].
  destruct IH as [H1|[H1|H1]]; [left; exact H1|right; left; apply has_skip_cons; exact H1|right; right; apply has_panic_cons; exact H1].
Qed.

(** ** the call point *)

Lemma iB_call c t o rest :
  IInvA e L c -> IInvB c -> In t L -> t_pc (c_pool c t) = PIdle -> t_todo (c_pool c t) = o :: rest ->
  IInvB (call e c t (c_pool c t) o rest).
Proof.
  intros A I Hin Hpc Htodo.
  destruct (a_wf e L c A t) as (Hok & Hops & Hbuf). rewrite Htodo in Hops.
  inversion Hops as [|? ? Hwo Hrest]; subst.
  unfold call. destruct (call_res e (c_pool c t) o) as [p|b r d] eqn:E.
  - destruct (call_go_iter e Hk _ _ _ E Hwo Hbuf) as (Tp & Cp & Np1 & Np2 & Nidle & Nbuf & Hreq & Hrq).
    apply iB_commit; [exact I|exact Hin|..].
    + repeat constructor.
    + auto.
    + cbn [app end_reported]. apply (b_endf c I).
    + cbn [app skip_returned]. apply (b_skip c I).
    + unfold nt_ok. cbn [app]. rewrite pend_call_self_call. cbn [t_pc t_acc]. intros Hs.
      assert (Hg : got_of p = []) by (destruct p; try reflexivity; discriminate Cp).
      split; [|split; [exact Hg|reflexivity]].
      split; [exact (stop_state c (c_trace c) I (suffix_refl _) Hs)|].
      destruct p; try reflexivity; try discriminate Cp; contradiction.
    + cbn [t_pc]. intros q b g Hp. contradiction (Np1 q b g).
    + cbn [app]. rewrite all_rets_call. apply (b_evs5 c I).
    + cbn [t_pc]. intros hm o' older Hp _. subst p. contradiction.
    + intros Hfu BF. split; [|split].
      * intros Hf. apply f_mono_app; [apply (bf_f c BF)|exact Hf].
      * cbn [app]. rewrite all_rets_call. apply (bf_evs c BF).
      * apply (bf_cs c BF).
  - assert (Hall : null_pair o r = true /\ is_end r && can_end o = false /\ o <> Skip).
    { unfold call_res in E. destruct o; cbn [wf_op] in Hwo; try discriminate.
      - rewrite Hk in E. destruct (N.eqb_spec n 0) as [->|]; [|discriminate]. injection E as <- <- <-.
        repeat split; try reflexivity; discriminate.
      - destruct (N.eqb_spec c0 0).
        + injection E as <- <- <-. repeat split; try reflexivity; try discriminate. cbn [null_pair]. apply N.eqb_eq; assumption.
        + injection E as <- <- <-. repeat split; try reflexivity; discriminate.
      - destruct (t_buf (c_pool c t)); [discriminate|]. injection E as <- <- <-. repeat split; try reflexivity; discriminate.
      - injection E as <- <- <-. repeat split; try reflexivity; discriminate.
      - destruct (N.eqb_spec c0 0); [|destruct (c0 =? 1); discriminate].
        injection E as <- <- <-. repeat split; try reflexivity; try discriminate. cbn [null_pair is_chunkzero]. rewrite andb_true_r. apply N.eqb_eq; assumption. }
    destruct Hall as (Hnull & Hne & Hns).
    assert (Hsp : split_call t (ECall t o :: c_trace c) = Some (o, c_trace c)) by (cbn [split_call]; rewrite Nat.eqb_refl; reflexivity).
    apply iB_commit; [exact I|exact Hin|..].
    + repeat constructor.
    + auto.
    + cbn [app end_reported split_call]. rewrite Nat.eqb_refl, Hne. cbn [orb]. apply (b_endf c I).
    + cbn [app skip_returned split_call]. rewrite Nat.eqb_refl.
      destruct o; try (apply (b_skip c I)). contradiction Hns; reflexivity.
    + unfold nt_ok. cbn [app]. rewrite pend_call_self_ret. exact I0.
    + cbn [t_pc]. intros q b0 g Hp. discriminate Hp.
    + cbn [app]. rewrite all_rets_ret, all_rets_call, (b_evs5 c I), andb_true_r.
      apply ev5_null with o (c_trace c); [exact Hsp|exact Hnull].
    + cbn [t_pc]. intros hm o' older Hp. discriminate Hp.
    + intros Hfu BF. split; [|split].
      * intros Hf. apply f_mono_app; [apply (bf_f c BF)|exact Hf].
      * cbn [app]. rewrite all_rets_ret, all_rets_call, (bf_evs c BF), andb_true_r.
        apply ev234_null with o (c_trace c); [exact Hsp|exact Hnull].
      * apply (bf_cs c BF).
Qed.

(** ** steps that only move the program counter *)

Lemma iB_silent c t sh' p' l :
  IInvB c -> In t L ->
  (s_f (c_sh c) = true -> s_f sh' = true) ->
  nt_ok (c_trace c) sh' t (set_pc (c_pool c t) p') ->
  (forall q b g, p' = PPub q b g -> N.of_nat (length g) < q_n q -> s_f sh' = true) ->
  (forall hm o older, p' = PLen2 hm -> pend_call t (c_trace c) = Some (o, older) -> skip_returned older = false) ->
  (fused e -> IInvBF c ->
     (s_cur (c_sh c) = e_len e -> s_cur sh' = e_len e) /\
     (s_f sh' = true -> s_f (c_sh c) = true \/ s_cur sh' = e_len e) /\ s_cur sh' <= s_c sh') ->
  IInvB (commit c t sh' (set_pc (c_pool c t) p') l []).
Proof.
  intros I Hin Sf Hnt Hpubf Hl2 HF.
  apply iB_commit; [exact I|exact Hin|..]; cbn [app].
  - constructor.
  - exact Sf.
  - intros He'. apply Sf. apply (b_endf c I He').
  - intros Hs. apply Sf. apply (b_skip c I Hs).
  - exact Hnt.
  - cbn [set_pc t_pc]. exact Hpubf.
  - apply (b_evs5 c I).
  - cbn [set_pc t_pc]. exact Hl2.
  - intros Hfu BF. destruct (HF Hfu BF) as (Sc & Hf' & Hcs). split; [|split; [apply (bf_evs c BF)|exact Hcs]].
    intros Hf. destruct (Hf' Hf) as [H|H]; [|left; exact H].
    destruct (bf_f c BF H) as [H1|H1]; [left; auto|right; exact H1].
Qed.

Lemma nt_keep c t sh' p' :
  IInvB c ->
  (s_f (c_sh c) = true -> s_f sh' = true) ->
  got_of p' = [] \/ got_of p' = got_of (t_pc (c_pool c t)) ->
  (before_gate (t_pc (c_pool c t)) = true -> before_gate p' = true \/ s_f (c_sh c) = false) ->
  nt_ok (c_trace c) sh' t (set_pc (c_pool c t) p').
Proof.
  intros I Sf Hg Hbg. pose proof (b_nt c I t) as H. unfold nt_ok in *.
  destruct (pend_call t (c_trace c)) as [[o older]|]; [|exact I0].
  intros Hs. destruct (H Hs) as (Hn1 & Hn2 & Hn3). cbn [set_pc t_pc t_acc].
  split; [|split; [destruct Hg as [Hg|Hg]; rewrite Hg; [reflexivity|exact Hn2]|exact Hn3]].
  unfold NT in *. cbn [set_pc t_pc]. destruct Hn1 as [H1 H2].
  destruct (Hbg H2) as [H3|H3]; [split; auto|congruence].
Qed.

Lemma iB_res c t q :
  IInvA e L c -> IInvB c -> In t L -> t_pc (c_pool c t) = PRes q ->
  s_c (c_sh c) + pub_incr q < W -> IInvB (step e c t).
Proof.
  intros A I Hin Hpc Hw. rewrite (istep_res e Hk c t q Hpc). rewrite wadd_nowrap by assumption.
  apply iB_silent; try assumption; cbn [with_c s_f s_cur s_c]; auto.
  - apply nt_keep; try assumption; cbn [with_c s_f s_cur]; auto; rewrite Hpc; auto.
  - intros q0 b g H. discriminate H.
  - intros hm o older H. discriminate H.
  - intros Hfu BF. split; [auto|split; [auto|]]. pose proof (bf_cs c BF). lia.
Qed.

Lemma iB_chkf_go c t q b :
  IInvA e L c -> IInvB c -> In t L -> t_pc (c_pool c t) = PChkF q b -> s_f (c_sh c) = false ->
  IInvB (commit c t (c_sh c) (set_pc (c_pool c t) (PLdY q b)) (LAtom t SF ALoad 0 (bN (s_f (c_sh c))) (o_chkf q)) []).
Proof.
  intros A I Hin Hpc Hf.
  apply iB_silent; try assumption; auto.
  - apply nt_keep; try assumption; auto; rewrite Hpc; auto.
  - intros q0 b0 g H. discriminate H.
  - intros hm o older H. discriminate H.
  - intros Hfu BF. split; [auto|split; [auto|apply (bf_cs c BF)]].
Qed.

Lemma iB_ldy c t q b :
  IInvA e L c -> IInvB c -> In t L -> t_pc (c_pool c t) = PLdY q b -> IInvB (step e c t).
Proof.
  intros A I Hin Hpc. rewrite (istep_ldy e c t q b Hpc).
  assert (Tt : ticket (pcs_of c t) = Some (b, pub_incr q)) by (unfold pcs_of; rewrite Hpc; reflexivity).
  pose proof (p_tk _ _ _ _ _ (a_prot e L c A) t _ _ Tt) as (Hn & Hyb & Hbc).
  destruct (N.eqb_spec b (s_y (c_sh c))) as [Eb|Nb].
  - apply iB_silent; try assumption; auto.
    + apply nt_keep; try assumption; auto; rewrite Hpc; cbn [before_gate]; discriminate.
    + intros q0 b0 g H. discriminate H.
    + intros hm o older H. discriminate H.
    + intros Hfu BF. split; [auto|split; [auto|apply (bf_cs c BF)]].
  - destruct (N.ltb_spec b (s_y (c_sh c))) as [Hlt|Hge]; [lia|].
    apply iB_silent; try assumption; auto.
    + apply nt_keep; try assumption; auto; rewrite Hpc; cbn [before_gate]; discriminate.
    + intros q0 b0 g H. discriminate H.
    + intros hm o older H. discriminate H.
    + intros Hfu BF. split; [auto|split; [auto|apply (bf_cs c BF)]].
Qed.

Lemma iB_src c t q b g :
  IInvA e L c -> IInvB c -> In t L -> t_pc (c_pool c t) = PSrc q b g -> IInvB (step e c t).
Proof.
  intros A I Hin Hpc.
  destruct (a_wf e L c A t) as (Hok & _ & _). unfold ipc_ok in Hok. rewrite Hpc in Hok. destruct Hok as (Hq & _ & Hlt).
  assert (Tt : ticket (pcs_of c t) = Some (b, pub_incr q)) by (unfold pcs_of; rewrite Hpc; reflexivity).
  assert (Ct : in_crit (pcs_of c t) = true) by (unfold pcs_of; rewrite Hpc; reflexivity).
  pose proof (a_prot e L c A) as P.
  pose proof (p_tk _ _ _ _ _ P t _ _ Tt) as (Hn & Hyb & Hbc). rewrite (pub_incr_n q Hq) in Hbc.
  pose proof (p_cur _ _ _ _ _ P) as Hcl.
  assert (Hsame : forall x calls l, got_of x = g \/ got_of x = [] -> (forall hm, x <> PLen2 hm) -> (forall q0 b0 g0, x <> PPub q0 b0 g0) ->
            IInvB (commit c t (with_src (c_sh c) (s_cur (c_sh c)) calls) (set_pc (c_pool c t) x) l [])).
  { intros x calls l Hg Hx Hxp. apply iB_silent; try assumption; cbn [with_src s_f s_cur s_c]; auto.
    - apply nt_keep; try assumption; cbn [with_src s_f s_cur]; auto.
      + rewrite Hpc. cbn [got_of]. destruct Hg as [Hg|Hg]; auto.
      + rewrite Hpc. cbn [before_gate]. discriminate.
    - intros q0 b0 g0 H. contradiction (Hxp q0 b0 g0).
    - intros hm o older H. contradiction (Hx hm).
    - intros Hfu BF. split; [auto|split; [auto|apply (bf_cs c BF)]]. }
  unfold step. rewrite Hpc.
  destruct (crashes_now e (c_sh c)).
  - apply Hsame; [left; reflexivity|discriminate|discriminate].
  - destruct (src_next_cases e (c_sh c)) as [[Es Hsl]|[Es Hsl]]; rewrite Es.
    + assert (Hgo : forall x, (forall hm, x <> PLen2 hm) -> (forall q0 b0 g0, x = PPub q0 b0 g0 -> N.of_nat (length g0) = q_n q0) ->
                IInvB (commit c t (with_src (c_sh c) (s_cur (c_sh c) + 1) (s_calls (c_sh c) + 1)) (set_pc (c_pool c t) x)
                              (LSrc t (Some (s_cur (c_sh c)))) [])).
      { intros x Hx Hxp. apply iB_silent; try assumption; cbn [with_src s_f s_cur s_c]; auto.
        - pose proof (b_nt c I t) as H. unfold nt_ok in *.
          destruct (pend_call t (c_trace c)) as [[o older]|]; [|exact I0].
          intros Hs. destruct (H Hs) as (Hn1 & _ & _). unfold NT in Hn1. rewrite Hpc in Hn1. cbn [before_gate] in Hn1.
          destruct Hn1 as [_ H1]. discriminate.
        - intros q0 b0 g0 H Hl. rewrite (Hxp _ _ _ H) in Hl. lia.
        - intros hm o older H. contradiction (Hx hm).
        - intros Hfu BF. split; [intros H; lia|split; [auto|]].
          pose proof (p_got _ _ _ _ _ (a_protF e L c A Hfu) t _ _ Ct Tt) as [_ Hcur]. unfold pcs_of in Hcur. rewrite Hpc in Hcur. cbn [got_of] in Hcur.
          assert (Hc : s_cur (c_sh c) = b + N.of_nat (length g)) by (destruct Hcur as [H|[_ H]]; [exact H|lia]).
          lia. }
      destruct (q_mode q) eqn:M.
      * apply Hgo; [discriminate|]. intros q0 b0 g0 H. injection H as <- _ <-.
        destruct Hq as (_ & _ & H1). rewrite (H1 _ M) in *.
        destruct g; [reflexivity|cbn [length] in Hlt; rewrite Nat2N.inj_succ in Hlt; lia].
      * destruct (N.eqb_spec (N.of_nat (length (s_cur (c_sh c) :: g))) (q_n q)) as [El|El]; apply Hgo; try discriminate.
        intros q0 b0 g0 H. injection H as <- _ <-. exact El.
      * destruct (N.eqb_spec (N.of_nat (length (s_cur (c_sh c) :: g))) (q_n q)) as [El|El]; apply Hgo; try discriminate.
        intros q0 b0 g0 H. injection H as <- _ <-. exact El.
    + destruct (q_mode q) eqn:M.
      * apply Hsame; [right; reflexivity|discriminate|discriminate].
      * apply Hsame; [left; reflexivity|discriminate|discriminate].
      * apply Hsame; [left; reflexivity|discriminate|discriminate].
Qed.

Lemma iB_setf_go c t q b g :
  IInvA e L c -> IInvB c -> In t L -> t_pc (c_pool c t) = PSetF q b g ->
  IInvB (commit c t (with_f (c_sh c) true) (set_pc (c_pool c t) (PPub q b g)) (LAtom t SF AStore 1 0 (o_setf q)) []).
Proof.
  intros A I Hin Hpc.
  apply iB_silent; try assumption; cbn [with_f s_f s_cur s_c]; auto.
  - apply nt_keep; try assumption; cbn [with_f s_f s_cur]; auto; rewrite Hpc; cbn [before_gate got_of]; auto; discriminate.
  - intros hm o older H. discriminate H.
  - intros Hfu BF. split; [auto|split; [|apply (bf_cs c BF)]]. intros _. right.
    exact (p_setf _ _ _ _ _ (a_protF e L c A Hfu) t q b g ltac:(unfold pcs_of; exact Hpc)).
Qed.

(** ** a pull reports the end *)

Lemma top_ops_iter ts o q : call_res e ts o = CGo (PRes q) -> q_ctx q = CTop ->
  null_pair o RNone = true /\ (forall l c cr, o <> Loop l c cr) /\ o <> HasMore /\ o <> TryLen /\ o <> Skip /\ can_end o = true /\
  match o with
  | Chunk n k => q_n q = n /\ q_mode q = MChunk k
  | BufNext k => exists bf, t_buf ts = Some bf /\ q_n q = bf_c bf /\ q_mode q = MBuf k
  | Next v => q_mode q = MSingle v
  | _ => False
  end.
Proof.
  unfold call_res. destruct o; try discriminate.
  - intros E C. injection E as <-. repeat split; try discriminate; reflexivity.
  - rewrite Hk. destruct (N.eqb_spec n 0); [discriminate|]. intros E C; injection E as <-. repeat split; try discriminate; try reflexivity.
    cbn [can_end]. destruct (N.eqb_spec n 0); [contradiction|reflexivity].
  - destruct (c =? 0); discriminate.
  - destruct (t_buf ts) as [bf|]; [|discriminate]. intros E C. injection E as <-.
    repeat split; try discriminate; try reflexivity. exists bf. repeat split; reflexivity.
  - destruct (c =? 0); [discriminate|]. destruct (c =? 1); intros E C; injection E as <-; discriminate C.
Qed.

Lemma pull_ctx c t q : IInvA e L c -> req_of (t_pc (c_pool c t)) = Some q ->
  exists o older, pend_call t (c_trace c) = Some (o, older) /\ call_res e (c_pool c t) o = CGo (PRes q) /\
                  split_call t (c_trace c) = Some (o, older) /\ suffix older (c_trace c) /\ o <> Skip.
Proof.
  intros A Hreq.
  assert (Hni : is_idle (c_pool c t) = false) by (unfold is_idle; destruct (t_pc (c_pool c t)); try reflexivity; discriminate Hreq).
  pose proof (a_call e L c A t) as Hc. unfold icall_ok in Hc. rewrite Hni in Hc. destruct Hc as (o & older & Hp & Hres).
  unfold entry_of in Hres. rewrite Hreq in Hres.
  exists o, older. split; [exact Hp|]. split; [exact Hres|]. split; [apply pend_split; exact Hp|]. split; [eapply pend_suffix; exact Hp|].
  intros ->. discriminate Hres.
Qed.

Lemma iB_finish_end c t sh' q l :
  IInvA e L c -> IInvB c -> In t L ->
  req_of (t_pc (c_pool c t)) = Some q ->
  (s_f (c_sh c) = true -> s_f sh' = true) ->
  s_f sh' = true ->
  (fused e -> IInvBF c -> (s_cur (c_sh c) = e_len e -> s_cur sh' = e_len e) /\
                          (s_f (c_sh c) = true \/ s_cur sh' = e_len e) /\ s_cur sh' <= s_c sh') ->
  IInvB (finish e c t sh' (c_pool c t) l q (Ok PREnd)).
Proof.
  intros A I Hin Hreq Sf Hstop HF.
  destruct (pull_ctx c t q A Hreq) as (o & older & Hpend & Hres & Hsplit & Hsuf & Hns).
  destruct (ipc_req e L c t q A Hreq) as [Hq Hacc].
  pose proof (a_shape e L c A t) as Hsh. unfold ishape_ok in Hsh. rewrite Hpend in Hsh.
  pose proof (b_nt c I t) as Hnt. unfold nt_ok in Hnt. rewrite Hpend in Hnt.
  assert (Hfm : fused e -> IInvBF c -> s_f sh' = true -> s_cur sh' = e_len e \/ has_skip (c_trace c) = true \/ has_panic (c_trace c) = true).
  { intros Hfu BF Hf. destruct (HF Hfu BF) as (Sc & [H|H] & _); [|left; exact H].
    destruct (bf_f c BF H) as [H1|H1]; [left; auto|right; exact H1]. }
  unfold finish, deliver. destruct (q_ctx q) as [|lk crash] eqn:Ctx.
  - destruct (top_ops_iter _ _ _ Hres Ctx) as (Hnull & _).
    cbn [ret_ev]. apply iB_commit; [exact I|exact Hin|..].
    + repeat constructor.
    + exact Sf.
    + intros _. exact Hstop.
    + intros _. exact Hstop.
    + unfold nt_ok. cbn [app]. rewrite pend_call_self_ret. exact I0.
    + cbn [set_pc t_pc]. intros q0 b0 g0 H. discriminate H.
    + cbn [app]. rewrite all_rets_ret, (b_evs5 c I), andb_true_r. apply ev5_null with o older; assumption.
    + cbn [set_pc t_pc]. intros hm o' older' H. discriminate H.
    + intros Hfu BF. split; [|split].
      * intros Hf. apply (f_mono_app sh' (c_trace c) [_]); [apply (Hfm Hfu BF)|exact Hf].
      * cbn [app]. rewrite all_rets_ret, (bf_evs c BF), andb_true_r. apply ev234_null with o older; assumption.
      * apply (HF Hfu BF).
  - destruct (loop_ops_iter e Hk _ _ _ _ _ Hres Ctx) as (cc & -> & Hcc).
    assert (Hcovr : res_cover e (RLoop (rev (t_acc (c_pool c t)))) = rev (acc_iv e (c_pool c t))).
    { cbn [res_cover res_taken]. unfold acc_iv. apply map_rev. }
    assert (Hnil : stopped2 older = true -> res_cover e (RLoop (rev (t_acc (c_pool c t)))) = []).
    { intros H. destruct (Hnt H) as (_ & _ & H3). rewrite H3. reflexivity. }
    cbn [ret_ev]. apply iB_commit; [exact I|exact Hin|..].
    + repeat constructor.
    + exact Sf.
    + intros _. exact Hstop.
    + intros _. exact Hstop.
    + unfold nt_ok. cbn [app]. rewrite pend_call_self_ret. exact I0.
    + cbn [t_pc]. intros q0 b0 g0 H. discriminate H.
    + cbn [app]. rewrite all_rets_ret, (b_evs5 c I), andb_true_r.
      apply ev5_intro with (Loop lk cc crash) older; try assumption.
      * intros H. unfold delivers_nothing. rewrite Hnil by (unfold stopped2; rewrite H; reflexivity). reflexivity.
      * intros H. unfold delivers_nothing. rewrite Hnil by (unfold stopped2; rewrite H; now rewrite orb_true_r). reflexivity.
      * destruct (N.eqb_spec cc 0); [contradiction|]. cbn [loop_shape_ok loop_panic_ok]. rewrite andb_true_r, forallb_rev.
        apply (Hsh lk cc crash eq_refl).
    + cbn [t_pc]. intros hm o' older' H. discriminate H.
    + intros Hfu BF.
      pose proof (a_acc e L c A Hfu t) as Ha. unfold iacc_ok in Ha. rewrite Hpend in Ha. destruct Ha as (Ha1 & Ha2 & Ha3 & Ha4).
      split; [|split].
      * intros Hf. apply (f_mono_app sh' (c_trace c) [_]); [apply (Hfm Hfu BF)|exact Hf].
      * cbn [app]. rewrite all_rets_ret, (bf_evs c BF), andb_true_r.
        apply ev234_intro with (Loop lk cc crash) older; try assumption.
        -- cbn [res_runs]. rewrite forallb_rev. assumption.
        -- reflexivity.
        -- rewrite Hcovr. assumption.
        -- rewrite Hcovr, all_above_rev. rewrite (cov_of_pend _ _ _ _ _ Hpend).
           eapply all_above_mono; [apply cov_of_maxhi|assumption].
        -- rewrite Hcovr, all_above_rev. assumption.
      * apply (HF Hfu BF).
Qed.

Lemma iB_chkf c t q b :
  IInvA e L c -> IInvB c -> In t L -> t_pc (c_pool c t) = PChkF q b -> IInvB (step e c t).
Proof.
  intros A I Hin Hpc. rewrite (istep_chkf e c t q b Hpc).
  destruct (s_f (c_sh c)) eqn:Ef.
  - apply iB_finish_end; try assumption; auto.
    + rewrite Hpc. reflexivity.
    + intros Hfu BF. split; [auto|split; [left; exact Ef|apply (bf_cs c BF)]].
  - rewrite <- Ef. apply iB_chkf_go; assumption.
Qed.

(** its turn: the second look at the completed flag *)
Lemma iB_chkt c t q b :
  IInvA e L c -> IInvB c -> In t L -> t_pc (c_pool c t) = PChkT q b -> IInvB (step e c t).
Proof.
  intros A I Hin Hpc. rewrite (istep_chkt e c t q b Hpc).
  destruct (s_f (c_sh c)) eqn:Ef.
  - apply iB_finish_end; try assumption; auto.
    + rewrite Hpc. reflexivity.
    + intros Hfu BF. split; [auto|split; [left; exact Ef|apply (bf_cs c BF)]].
  - apply iB_silent; try assumption; auto.
    + apply nt_keep; try assumption; auto; rewrite Hpc; auto.
    + intros q0 b0 g H. discriminate H.
    + intros hm o older H. discriminate H.
    + intros Hfu BF. split; [auto|split; [auto|apply (bf_cs c BF)]].
Qed.

Lemma iB_setf c t q b g :
  IInvA e L c -> IInvB c -> In t L -> t_pc (c_pool c t) = PSetF q b g -> IInvB (step e c t).
Proof.
  intros A I Hin Hpc. rewrite (istep_setf e c t q b g Hpc).
  destruct (q_mode q) eqn:M.
  - apply iB_finish_end; try assumption; cbn [with_f s_f s_cur s_c]; auto.
    + rewrite Hpc. reflexivity.
    + intros Hfu BF. split; [auto|split; [|apply (bf_cs c BF)]]. right.
      exact (p_setf _ _ _ _ _ (a_protF e L c A Hfu) t q b g ltac:(unfold pcs_of; exact Hpc)).
  - apply iB_setf_go; assumption.
  - apply iB_setf_go; assumption.
Qed.

(** ** a pull returns elements *)

Lemma iB_finish_got c t q b g l :
  IInvA e L c -> IInvB c -> In t L -> t_pc (c_pool c t) = PPub q b g -> g <> [] ->
  b = s_y (c_sh c) ->
  IInvB (finish e c t (with_y (c_sh c) (b + q_n q)) (c_pool c t) l q
                (Ok (PRGot b (runs_of b (rev g)) (N.of_nat (length g))))).
Proof.
  intros A I Hin Hpc Hgne Hb.
  assert (Hreq : req_of (t_pc (c_pool c t)) = Some q) by (rewrite Hpc; reflexivity).
  destruct (pull_ctx c t q A Hreq) as (o & older & Hpend & Hres & Hsplit & Hsuf & Hns).
  destruct (ipc_req e L c t q A Hreq) as [Hq Hacc].
  destruct (a_wf e L c A t) as (Hok & Hops & Hbuf). unfold ipc_ok in Hok. rewrite Hpc in Hok. destruct Hok as (_ & _ & Hgn & Hg1).
  pose proof (a_shape e L c A t) as Hsh. unfold ishape_ok in Hsh. rewrite Hpend in Hsh.
  pose proof (b_nt c I t) as Hnt. unfold nt_ok in Hnt. rewrite Hpend in Hnt.
  pose proof (p_cur _ _ _ _ _ (a_prot e L c A)) as Hcl.
  assert (Hnst : stopped2 older = false).
  { destruct (stopped2 older); [|reflexivity]. destruct (Hnt eq_refl) as (_ & H2 & _). rewrite Hpc in H2. cbn [got_of] in H2. contradiction. }
  assert (Hns_e : end_reported older = false) by (unfold stopped2 in Hnst; destruct (end_reported older); [discriminate|reflexivity]).
  assert (Hns_s : skip_returned older = false) by (unfold stopped2 in Hnst; destruct (skip_returned older); [rewrite orb_true_r in Hnst; discriminate|reflexivity]).
  set (rs := runs_of b (rev g)). set (cnt := N.of_nat (length g)).
  assert (Hk1 : 1 <= cnt) by (unfold cnt; destruct g; [contradiction Hgne; reflexivity|cbn [length]; lia]).
  assert (Hrsn : rs <> []).
  { unfold rs. destruct (rev g) as [|v vs] eqn:Er; [|apply runs_of_nonnil].
    exfalso. apply Hgne. rewrite <- (rev_involutive g), Er. reflexivity. }
  assert (Hidx : forall r, In r rs -> r_idx r <> None) by (intros r; apply runs_of_idx).
  assert (Hheld : held e (c_pool c t) = acc_iv e (c_pool c t) ++ [(b, cnt)]) by (unfold held; rewrite Hpc; reflexivity).
  (* the facts of the fused case *)
  assert (HFu : fused e -> rs = [mk_run (Some b) (val_of e b) cnt] /\ b + cnt = s_cur (c_sh c) /\ b < e_len e /\
                 (cnt < q_n q -> b + cnt = e_len e) /\
                 iv_maxhi (cov e (c_trace c)) <= b /\ iv_maxhi (acc_iv e (c_pool c t)) <= b).
  { intros Hfu. destruct (pub_fused e Hk L c t q b g A Hfu Hpc Hgne) as (H1 & H2 & H3 & H4).
    fold rs cnt in H1, H2, H4. split; [exact H1|]. split; [lia|]. split; [exact H3|]. split; [exact H4|].
    apply (top_below e L NDL c t b cnt A Hfu Hin Hheld); [lia|exact Hk1]. }
  unfold finish, deliver. destruct (q_ctx q) as [|lk crash] eqn:Ctx.
  - (* directly *)
    specialize (Hacc eq_refl).
    destruct (top_ops_iter _ _ _ Hres Ctx) as (_ & Hnl & Hnh & Hnt' & _ & _ & Hop).
    destruct (deliver_top_gen e Hk (c_pool c t) q b rs cnt Hrsn) as (ts' & r & d & Ed & Hp' & Ha' & Ht' & Hb' & Hbc' & Hne & Hnp & Hla).
    rewrite Ed. cbn [ret_ev]. apply iB_commit; [exact I|exact Hin|..]; cbn [with_y s_f s_cur s_c].
    + repeat constructor.
    + auto.
    + cbn [app]. rewrite (end_reported_ret _ _ _ _ _ _ Hsplit), Hne. cbn [andb orb]. apply (b_endf c I).
    + cbn [app]. rewrite (skip_returned_ret_other _ _ _ _ _ _ Hsplit Hns). apply (b_skip c I).
    + unfold nt_ok. cbn [app]. rewrite pend_call_self_ret. exact I0.
    + rewrite Hp'. intros q0 b0 g0 H. discriminate H.
    + cbn [app]. rewrite all_rets_ret, (b_evs5 c I), andb_true_r.
      apply ev5_intro with o older; try assumption.
      * rewrite Hns_e. discriminate.
      * rewrite Hns_s. discriminate.
      * destruct o; try reflexivity. contradiction (Hnl l0 c0 crash); reflexivity.
    + rewrite Hp'. intros hm o' older' H. discriminate H.
    + intros Hfu BF. destruct (HFu Hfu) as (Hrs & Hbc & Hbl & Hshort & Hcb & Hab).
      assert (Hcof : iv_maxhi (cov_of e t (c_trace c)) <= b) by (pose proof (cov_of_maxhi e t (c_trace c)); lia).
      assert (Hcold : iv_maxhi (cov e older) <= b) by (pose proof (cov_suffix_maxhi e _ _ Hsuf); lia).
      assert (Hone : forall v, q_mode q = MSingle v -> cnt = 1) by (intros v Mv; specialize (Hg1 v Mv); unfold cnt; rewrite Hg1; reflexivity).
      destruct (deliver_top_iter e Hk (c_pool c t) q b cnt Hbl Hk1 Hq Hone Hgn ltac:(lia) Hshort)
        as (ts2 & r2 & d2 & E2 & _ & _ & _ & _ & _ & _ & Hnp2 & _ & Hidx2 & Hchk & took & Htk & Hcov).
      rewrite Hrs in Ed. rewrite Ed in E2. injection E2 as <- <- <-.
      split; [|split].
      * intros Hf. destruct (bf_f c BF Hf) as [H|[H|H]]; [left; exact H|right; left; exact H|right; right; cbn [app has_panic]; rewrite H; apply orb_true_r].
      * cbn [app]. rewrite all_rets_ret, (bf_evs c BF), andb_true_r.
        apply ev234_intro with o older; try assumption.
        -- destruct o; try reflexivity.
           ++ destruct Hop as [Hn Hm]. rewrite <- Hn. rewrite (Hchk k (or_introl Hm)). apply orb_true_r.
           ++ destruct Hop as (bf & Hbf & Hn & Hm).
              rewrite <- (buf_size_pend _ _ _ _ Hpend) by discriminate.
              rewrite (a_buf e L c A t bf Hbf). rewrite <- Hn. apply (Hchk k (or_intror Hm)).
        -- rewrite Hcov. apply increasing_split. assumption.
        -- rewrite Hcov. apply all_above_split. lia.
        -- rewrite Hcov. apply all_above_split. lia.
      * pose proof (bf_cs c BF). lia.
  - (* inside a loop *)
    destruct (loop_ops_iter e Hk _ _ _ _ _ Hres Ctx) as (cc & -> & Hcc).
    unfold deliver_loop.
    pose proof (loop_invoke_shape lk crash (total_cnt (t_acc (c_pool c t))) rs cnt Hidx) as Hi2g.
    destruct (loop_invoke lk crash (total_cnt (t_acc (c_pool c t))) rs cnt) as [inv pan] eqn:Eli. cbn [fst] in Hi2g.
    assert (HFl : fused e -> forallb (run_idx_ok e) inv = true /\
              match pan with
              | None => map (run_iv e) inv = [(b, cnt)]
              | Some used => 1 <= used /\ used <= cnt /\ map (run_iv e) inv = [(b, used)]
              end).
    { intros Hfu. destruct (HFu Hfu) as (Hrs & Hbc & Hbl & _).
      destruct (loop_invoke_cases e lk crash (total_cnt (t_acc (c_pool c t))) b cnt Hbl Hk1 ltac:(lia)) as (inv2 & pan2 & E2 & Hi1 & _ & Hinv).
      rewrite Hrs in Eli. rewrite Eli in E2. injection E2 as <- <-. split; assumption. }
    destruct pan as [used|].
    + cbn [ret_ev]. apply iB_commit; [exact I|exact Hin|..]; cbn [with_y s_f s_cur s_c].
      * repeat constructor.
      * auto.
      * cbn [app]. rewrite (end_reported_ret _ _ _ _ _ _ Hsplit). cbn [is_end andb orb]. apply (b_endf c I).
      * cbn [app]. rewrite (skip_returned_ret_other _ _ _ _ _ _ Hsplit Hns). apply (b_skip c I).
      * unfold nt_ok. cbn [app]. rewrite pend_call_self_ret. exact I0.
      * cbn [t_pc]. intros q0 b0 g0 H. discriminate H.
      * cbn [app]. rewrite all_rets_ret, (b_evs5 c I), andb_true_r.
        apply ev5_intro with (Loop lk cc crash) older; try assumption.
        -- rewrite Hns_e. discriminate.
        -- rewrite Hns_s. discriminate.
        -- destruct (N.eqb_spec cc 0); [contradiction|].
           rewrite (loop_panic_user _ _ _ _ _ _ _ _ Eli), andb_true_r.
           change (forallb (shape_ok lk) (rev (rev inv ++ t_acc (c_pool c t))) = true).
           rewrite forallb_rev, forallb_app, forallb_rev, Hi2g. cbn [andb]. apply (Hsh lk cc crash eq_refl).
      * cbn [t_pc]. intros hm o' older' H. discriminate H.
      * intros Hfu BF. destruct (HFu Hfu) as (Hrs & Hbc & Hbl & Hshort & Hcb & Hab).
        destruct (HFl Hfu) as (Hi1 & Hu1 & Hu2 & Hinv).
        pose proof (a_acc e L c A Hfu t) as Ha. unfold iacc_ok in Ha. rewrite Hpend in Ha. destruct Ha as (Ha1 & Ha2 & Ha3 & Ha4).
        assert (Hcof : iv_maxhi (cov_of e t (c_trace c)) <= b) by (pose proof (cov_of_maxhi e t (c_trace c)); lia).
        assert (Hcold : iv_maxhi (cov e older) <= b) by (pose proof (cov_suffix_maxhi e _ _ Hsuf); lia).
        assert (Hcovr : res_cover e (RPanic PkUser (rev (rev inv ++ t_acc (c_pool c t)))) = rev (acc_iv e (c_pool c t)) ++ [(b, used)]).
        { cbn [res_cover res_taken]. rewrite rev_app_distr, rev_involutive, map_app, Hinv. unfold acc_iv. rewrite map_rev. reflexivity. }
        split; [|split].
        -- intros Hf. destruct (bf_f c BF Hf) as [H|[H|H]]; [left; exact H|right; left; exact H|right; right; reflexivity].
        -- cbn [app]. rewrite all_rets_ret, (bf_evs c BF), andb_true_r.
           apply ev234_intro with (Loop lk cc crash) older; try assumption.
           ++ cbn [res_runs]. rewrite forallb_rev, forallb_app, forallb_rev, Hi1, Ha1. reflexivity.
           ++ reflexivity.
           ++ rewrite Hcovr. apply increasing_snoc; [assumption|]. cbn [fst].
              rewrite (iv_maxhi_perm _ _ (Permutation_sym (Permutation_rev _))). lia.
           ++ rewrite Hcovr, all_above_app, all_above_rev. rewrite (cov_of_pend _ _ _ _ _ Hpend).
              apply andb_true_iff. split.
              ** eapply all_above_mono; [apply cov_of_maxhi|assumption].
              ** apply all_above_forall. intros a [<-|[]]. right. cbn [fst].
                 pose proof (cov_of_maxhi e t older). lia.
           ++ rewrite Hcovr, all_above_app, all_above_rev, Ha4. cbn [andb].
              apply all_above_forall. intros a [<-|[]]. right. cbn [fst]. lia.
        -- pose proof (bf_cs c BF). lia.
    + (* the loop goes on *)
      cbn [ret_ev]. apply iB_commit; [exact I|exact Hin|..]; cbn [with_y s_f s_cur s_c app].
      * constructor.
      * auto.
      * apply (b_endf c I).
      * apply (b_skip c I).
      * unfold nt_ok. rewrite Hpend, Hnst. discriminate.
      * cbn [t_pc]. intros q0 b0 g0 H. discriminate H.
      * apply (b_evs5 c I).
      * cbn [t_pc]. intros hm o' older' H. discriminate H.
      * intros Hfu BF. split; [apply (bf_f c BF)|split; [apply (bf_evs c BF)|pose proof (bf_cs c BF); lia]].
Qed.

Lemma iB_pub c t q b g :
  IInvA e L c -> IInvB c -> In t L -> t_pc (c_pool c t) = PPub q b g ->
  s_y (c_sh c) + pub_incr q < W -> IInvB (step e c t).
Proof.
  intros A I Hin Hpc Hw.
  destruct (pub_step e L c t q b g A Hpc Hw) as (Hb & Hq & ->).
  destruct g as [|g0 g'].
  - assert (Hf : s_f (c_sh c) = true).
    { apply (b_pubf c I t q b [] Hpc). cbn [length]. destruct Hq. lia. }
    apply iB_finish_end; try assumption; cbn [with_y s_f s_cur s_c]; auto.
    + rewrite Hpc. reflexivity.
    + intros Hfu BF. split; [auto|split; [left; exact Hf|pose proof (bf_cs c BF); lia]].
  - apply iB_finish_got; try assumption. discriminate.
Qed.

(** ** unwinding from a panic of the wrapped iterator *)

Lemma iB_unw_gen c t q b g ts' d l :
  IInvA e L c -> IInvB c -> In t L -> t_pc (c_pool c t) = PUnw q b g -> t_pc ts' = PIdle ->
  IInvB (commit c t (with_f (c_sh c) true) ts' l [ERet t (RPanic PkSource (rev (t_acc (c_pool c t)))) d]).
Proof.
  intros A I Hin Hpc Hp'.
  assert (Hreq : req_of (t_pc (c_pool c t)) = Some q) by (rewrite Hpc; reflexivity).
  destruct (pull_ctx c t q A Hreq) as (o & older & Hpend & Hres & Hsplit & Hsuf & Hns).
  destruct (ipc_req e L c t q A Hreq) as [Hq Hacc].
  pose proof (a_shape e L c A t) as Hsh. unfold ishape_ok in Hsh. rewrite Hpend in Hsh.
  pose proof (b_nt c I t) as Hnt. unfold nt_ok in Hnt. rewrite Hpend in Hnt.
  assert (Hcovr : res_cover e (RPanic PkSource (rev (t_acc (c_pool c t)))) = rev (acc_iv e (c_pool c t))).
  { cbn [res_cover res_taken]. unfold acc_iv. apply map_rev. }
  assert (Hnil : stopped2 older = true -> res_cover e (RPanic PkSource (rev (t_acc (c_pool c t)))) = []).
  { intros H. destruct (Hnt H) as (_ & _ & H3). rewrite H3. reflexivity. }
  apply iB_commit; [exact I|exact Hin|..]; cbn [with_f s_f s_cur s_c].
  - repeat constructor.
  - auto.
  - auto.
  - auto.
  - unfold nt_ok. cbn [app]. rewrite pend_call_self_ret. exact I0.
  - auto.
  - cbn [app]. rewrite all_rets_ret, (b_evs5 c I), andb_true_r.
    apply ev5_intro with o older; try assumption.
    + intros H. unfold delivers_nothing. rewrite Hnil by (unfold stopped2; rewrite H; reflexivity).
      cbn [is_end is_panic orb iv_total N.eqb no_positive andb]. destruct (can_end o); reflexivity.
    + intros H. unfold delivers_nothing. rewrite Hnil by (unfold stopped2; rewrite H; now rewrite orb_true_r).
      cbn [is_end is_panic orb iv_total N.eqb andb]. destruct (can_end o); destruct o; try reflexivity; discriminate Hres.
    + destruct o; try reflexivity. unfold call_res in Hres. destruct (N.eqb_spec c0 0); [discriminate Hres|].
      cbn [loop_panic_ok]. rewrite andb_true_r.
      change (forallb (shape_ok l0) (rev (t_acc (c_pool c t))) = true). rewrite forallb_rev. apply (Hsh l0 c0 crash eq_refl).
  - rewrite Hp'. intros hm o' older' H. discriminate H.
  - intros Hfu BF.
    pose proof (a_acc e L c A Hfu t) as Ha. unfold iacc_ok in Ha. rewrite Hpend in Ha. destruct Ha as (Ha1 & Ha2 & Ha3 & Ha4).
    split; [|split].
    + intros _. right. right. reflexivity.
    + cbn [app]. rewrite all_rets_ret, (bf_evs c BF), andb_true_r.
      apply ev234_intro with o older; try assumption.
      * cbn [res_runs]. rewrite forallb_rev. assumption.
      * destruct o; try reflexivity; cbn [chunk_ok]; rewrite ?orb_true_r; try reflexivity. destruct (buf_size t older); reflexivity.
      * rewrite Hcovr. assumption.
      * rewrite Hcovr, all_above_rev. rewrite (cov_of_pend _ _ _ _ _ Hpend).
        eapply all_above_mono; [apply cov_of_maxhi|assumption].
      * rewrite Hcovr, all_above_rev. assumption.
    + apply (bf_cs c BF).
Qed.

Lemma iB_unw c t q b g :
  IInvA e L c -> IInvB c -> In t L -> t_pc (c_pool c t) = PUnw q b g -> IInvB (step e c t).
Proof.
  intros A I Hin Hpc. unfold step. rewrite Hpc.
  destruct (q_ctx q); [|apply iB_unw_gen with q b g; auto].
  destruct (q_mode q); try (apply iB_unw_gen with q b g; auto).
  rewrite Hk. destruct (t_buf (c_pool c t)) as [bf|]; [|apply iB_unw_gen with q b g; auto].
  destruct (write_slots (bf_slots bf) (rev g)) as [sl stale]. apply iB_unw_gen with q b g; auto.
Qed.

(** ** skip_to_end and the length queries *)

Lemma call_ctx c t : IInvA e L c -> is_idle (c_pool c t) = false ->
  exists o older, pend_call t (c_trace c) = Some (o, older) /\ call_res e (c_pool c t) o = CGo (entry_of (t_pc (c_pool c t))) /\
                  split_call t (c_trace c) = Some (o, older) /\ suffix older (c_trace c).
Proof.
  intros A Hni. pose proof (a_call e L c A t) as Hc. unfold icall_ok in Hc. rewrite Hni in Hc. destruct Hc as (o & older & Hp & Hres).
  exists o, older. split; [exact Hp|]. split; [exact Hres|]. split; [apply pend_split; exact Hp|eapply pend_suffix; exact Hp].
Qed.

Lemma call_res_skip_iter ts o : call_res e ts o = CGo PSkip -> o = Skip.
Proof.
  unfold call_res. destruct o; try discriminate; try reflexivity.
  - rewrite Hk. destruct (n =? 0); discriminate.
  - destruct (c =? 0); discriminate.
  - destruct (t_buf ts); discriminate.
  - destruct (c =? 0); [discriminate|]. destruct (c =? 1); discriminate.
Qed.

Lemma call_res_len_iter ts o hm : call_res e ts o = CGo (PLen hm) ->
  (o = TryLen /\ hm = false) \/ (o = HasMore /\ hm = true).
Proof.
  unfold call_res. destruct o; try discriminate.
  - rewrite Hk. destruct (n =? 0); discriminate.
  - destruct (c =? 0); discriminate.
  - destruct (t_buf ts); discriminate.
  - destruct (c =? 0); [discriminate|]. destruct (c =? 1); discriminate.
  - intros E. injection E as <-. auto.
  - intros E. injection E as <-. auto.
Qed.

Lemma iB_skip c t : IInvA e L c -> IInvB c -> In t L -> t_pc (c_pool c t) = PSkip -> IInvB (step e c t).
Proof.
  intros A I Hin Hpc. rewrite (istep_skip e Hk c t Hpc).
  assert (Hni : is_idle (c_pool c t) = false) by (unfold is_idle; rewrite Hpc; reflexivity).
  destruct (call_ctx c t A Hni) as (o & older & Hpend & Hres & Hsplit & Hsuf). rewrite Hpc in Hres. cbn [entry_of req_of] in Hres.
  apply call_res_skip_iter in Hres. subst o.
  apply iB_commit; [exact I|exact Hin|..]; cbn [with_f s_f s_cur s_c].
  - repeat constructor.
  - auto.
  - auto.
  - auto.
  - unfold nt_ok. cbn [app]. rewrite pend_call_self_ret. exact I0.
  - auto.
  - cbn [app]. rewrite all_rets_ret, (b_evs5 c I), andb_true_r. apply ev5_null with Skip older; [assumption|reflexivity].
  - cbn [set_pc t_pc]. intros hm o' older' H. discriminate H.
  - intros Hfu BF. split; [|split].
    + intros _. right. left. cbn [app has_skip]. apply (has_skip_pend _ _ _ Hpend).
    + cbn [app]. rewrite all_rets_ret, (bf_evs c BF), andb_true_r. apply ev234_null with Skip older; [assumption|reflexivity].
    + apply (bf_cs c BF).
Qed.

(** a length answer [a] (zero, or unknown, or the length computed from the reserved counter by a query
    that was called before the iteration was stopped) returned by a query *)
Lemma iB_len_ret c t hm (a : option N) l :
  IInvA e L c -> IInvB c -> In t L ->
  is_idle (c_pool c t) = false -> entry_of (t_pc (c_pool c t)) = PLen hm ->
  (forall n, a = Some n -> n = 0 \/ (forall o older, pend_call t (c_trace c) = Some (o, older) -> stopped2 older = false)) ->
  (a = None -> s_f (c_sh c) = false) ->
  IInvB (commit c t (c_sh c) (set_pc (c_pool c t) PIdle) l [ERet t (len_res hm a) []]).
Proof.
  intros A I Hin Hni Hent Hsome Hnone.
  destruct (call_ctx c t A Hni) as (o & older & Hpend & Hres & Hsplit & Hsuf). rewrite Hent in Hres.
  assert (Hos : o <> Skip) by (intros ->; discriminate Hres).
  assert (Hcov0 : res_cover e (len_res hm a) = []) by (destruct hm; reflexivity).
  assert (Hruns0 : res_runs (len_res hm a) = []) by (destruct hm; reflexivity).
  assert (Hstop : stopped2 older = true -> s_f (c_sh c) = true) by (apply stop_state; assumption).
  assert (Hzero : stopped2 older = true -> a = Some 0).
  { intros Hs. destruct a as [n|]; [|rewrite (Hnone eq_refl) in Hstop; specialize (Hstop Hs); discriminate].
    destruct (Hsome n eq_refl) as [->|Hno]; [reflexivity|]. rewrite (Hno _ _ Hpend) in Hs. discriminate. }
  apply iB_commit; [exact I|exact Hin|..].
  - repeat constructor.
  - auto.
  - cbn [app]. rewrite (end_reported_ret _ _ _ _ _ _ Hsplit).
    assert (is_end (len_res hm a) = false) as -> by (destruct hm, a as [[|]|]; reflexivity). cbn [andb orb]. apply (b_endf c I).
  - cbn [app]. rewrite (skip_returned_ret_other _ _ _ _ _ _ Hsplit Hos). apply (b_skip c I).
  - unfold nt_ok. cbn [app]. rewrite pend_call_self_ret. exact I0.
  - cbn [set_pc t_pc]. intros q0 b0 g0 H. discriminate H.
  - cbn [app]. rewrite all_rets_ret, (b_evs5 c I), andb_true_r.
    apply ev5_intro with o older; try assumption.
    + intros H. unfold delivers_nothing. rewrite Hcov0. cbn [iv_total N.eqb andb].
      rewrite (Hzero ltac:(unfold stopped2; rewrite H; reflexivity)).
      destruct (call_res_len_iter _ _ _ Hres) as [[-> ->]|[-> ->]]; reflexivity.
    + intros H. unfold delivers_nothing. rewrite Hcov0. cbn [iv_total N.eqb andb].
      rewrite (Hzero ltac:(unfold stopped2; rewrite H; apply orb_true_r)).
      destruct (call_res_len_iter _ _ _ Hres) as [[-> ->]|[-> ->]]; reflexivity.
    + destruct (call_res_len_iter _ _ _ Hres) as [[-> _]|[-> _]]; reflexivity.
  - cbn [set_pc t_pc]. intros hm' o' older' H. discriminate H.
  - intros Hfu BF. split; [|split].
    + cbn [app]. intros Hf. destruct (bf_f c BF Hf) as [H|[H|H]]; [left; exact H|right; left; exact H|right; right].
      cbn [has_panic]. rewrite H. apply orb_true_r.
    + cbn [app]. rewrite all_rets_ret, (bf_evs c BF), andb_true_r.
      apply ev234_intro with o older; try assumption.
      * rewrite Hruns0. reflexivity.
      * destruct (call_res_len_iter _ _ _ Hres) as [[-> _]|[-> _]]; reflexivity.
      * rewrite Hcov0. reflexivity.
      * rewrite Hcov0. reflexivity.
      * rewrite Hcov0. reflexivity.
    + apply (bf_cs c BF).
Qed.

Lemma iB_len c t hm : IInvA e L c -> IInvB c -> In t L -> t_pc (c_pool c t) = PLen hm -> IInvB (step e c t).
Proof.
  intros A I Hin Hpc. rewrite (istep_len e Hk c t hm Hpc).
  assert (Hni : is_idle (c_pool c t) = false) by (unfold is_idle; rewrite Hpc; reflexivity).
  assert (Hent : entry_of (t_pc (c_pool c t)) = PLen hm) by (rewrite Hpc; reflexivity).
  destruct (s_f (c_sh c)) eqn:Ef.
  - apply (iB_len_ret c t hm (Some 0)); try assumption.
    + intros n E. injection E as <-. left. reflexivity.
    + discriminate.
  - destruct (e_hint e).
    + (* exact hint: the reserved counter is read next *)
      apply iB_silent; try assumption; auto.
      * apply nt_keep; try assumption; auto; rewrite Hpc; cbn [before_gate]; auto.
      * intros q0 b0 g0 H. discriminate H.
      * intros hm' o older _ Hp.
        destruct (skip_returned older) eqn:Es; [|reflexivity].
        pose proof (pend_suffix _ _ _ _ Hp) as Hsuf.
        pose proof (b_skip c I (skip_returned_suffix _ _ Hsuf Es)). congruence.
      * intros Hfu BF. split; [auto|split; [auto|apply (bf_cs c BF)]].
    + apply (iB_len_ret c t hm None); try assumption; [discriminate|auto].
    + apply (iB_len_ret c t hm None); try assumption; [discriminate|auto].
Qed.

Lemma iB_len2 c t hm : IInvA e L c -> IInvB c -> In t L -> t_pc (c_pool c t) = PLen2 hm -> IInvB (step e c t).
Proof.
  intros A I Hin Hpc. rewrite (istep_len2 e c t hm Hpc).
  assert (Hni : is_idle (c_pool c t) = false) by (unfold is_idle; rewrite Hpc; reflexivity).
  assert (Hent : entry_of (t_pc (c_pool c t)) = PLen hm) by (rewrite Hpc; reflexivity).
  apply (iB_len_ret c t hm (Some (k_len e (s_c (c_sh c))))); try assumption.
  - intros n E. injection E as <-. right.
    intros o older Hp. pose proof (b_nt c I t) as Hnt. unfold nt_ok in Hnt. rewrite Hp in Hnt.
    destruct (stopped2 older); [|reflexivity].
    destruct (Hnt eq_refl) as ((_ & Hn1) & _ & _). rewrite Hpc in Hn1. cbn [before_gate] in Hn1. discriminate.
  - discriminate.
Qed.

(** ** every step preserves the invariant *)

Lemma iB_step c t : IInvA e L c -> IInvB c -> In t L -> istep_nowrap c t -> IInvB (step e c t).
Proof.
  intros A I Hin Hw. unfold istep_nowrap in Hw.
  destruct (t_pc (c_pool c t)) as [|q|q b|q b|q b|q b got|q b got|q b got|q b got| |hm|hm] eqn:Hpc.
  - destruct (t_todo (c_pool c t)) as [|o rest] eqn:Htodo.
    + rewrite (istep_idle_nil e) by assumption. exact I.
    + rewrite (istep_idle_call e c t o rest) by assumption. apply iB_call; assumption.
  - apply iB_res with q; assumption.
  - apply iB_chkf with q b; assumption.
  - apply iB_ldy with q b; assumption.
  - apply iB_chkt with q b; assumption.
  - apply iB_src with q b got; assumption.
  - apply iB_setf with q b got; assumption.
  - apply iB_pub with q b got; assumption.
  - apply iB_unw with q b got; assumption.
  - apply iB_skip; assumption.
  - apply iB_len with hm; assumption.
  - apply iB_len2 with hm; assumption.
Qed.

Lemma iB_init progs : IInvB (init progs).
Proof.
  split.
  - cbn [init c_trace end_reported]. discriminate.
  - cbn [init c_trace skip_returned]. discriminate.
  - intros t. unfold nt_ok. cbn [init c_trace pend_call]. exact I0.
  - intros t q b g H. cbn [init c_pool init_ts t_pc] in H. discriminate H.
  - reflexivity.
  - intros t hm o older H. cbn [init c_pool init_ts t_pc] in H. discriminate H.
  - intros _. split; cbn [init c_pool c_trace c_sh s_f s_cur s_c]; try discriminate; try reflexivity; try lia.
Qed.

Theorem iAB_exec progs sched :
  (forall t, Forall wf_op (progs t)) ->
  Forall (fun t => In t L) sched ->
  nowrap (c_labels (exec e (init progs) sched)) ->
  IInvA e L (exec e (init progs) sched) /\ IInvB (exec e (init progs) sched).
Proof.
  intros Hp. induction sched as [|t sched IH] using rev_ind; intros Hs Hw.
  - split; [apply iA_init; assumption|apply iB_init].
  - rewrite exec_snoc in *. apply Forall_app in Hs. destruct Hs as [Hs Ht]. inversion Ht as [|? ? Hin _]; subst.
    destruct (IH Hs (step_labels_suffix e _ _ Hw)) as [A B].
    pose proof (istep_labels e Hk _ _ Hw) as Hn.
    split; [apply iA_step; assumption|apply iB_step; assumption].
Qed.

End IterB.
