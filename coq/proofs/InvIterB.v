(** * The wrapper over an arbitrary iterator: the completed flag, the end of the iteration, and the
      per-event checks (layer B, on top of layer A). *)
From Coq Require Import Lia ZArith Permutation.
From OCI Require Import Machine Checkers.
From OCI.proofs Require Import Base Trace ArithOk InvKnown IterBase IterProt InvIterA.
Open Scope N_scope.

(** the per-event parts of the checkers C02--C06 and C12 *)
Definition ev6 (e : env) : tid -> res -> list drops -> list event -> bool :=
  fun t r d tl => ev_C02 e t r d tl && ev_C03 e t r d tl && ev_C04 e t r d tl && ev_C05 e t r d tl
                  && ev_C06 e t r d tl && ev_C12 t r d tl.

(** the iteration has been stopped: an end report or a returned skip_to_end *)
Definition stopped2 (tr : list event) : bool := end_reported tr || skip_returned tr.

Lemma stopped2_cons ev tr : stopped2 tr = true -> stopped2 (ev :: tr) = true.
Proof.
  unfold stopped2. rewrite !orb_true_iff. intros [H|H]; [left; apply end_reported_cons|right; apply skip_returned_cons]; assumption.
Qed.

Lemma stopped2_suffix s tr : suffix s tr -> stopped2 s = true -> stopped2 tr = true.
Proof. intros [p ->] H. induction p as [|ev p IH]; [assumption|]. apply stopped2_cons, IH. Qed.

(** the thread has not yet tested the completed flag for its current reservation *)
Definition before_gate (p : pc) : bool :=
  match p with PLdY _ _ | PSrc _ _ _ | PSetF _ _ _ | PPub _ _ _ | PUnw _ _ _ | PLen2 _ => false | _ => true end.

Section IterB.

Variable e : env.
Hypothesis He : wf_env e.
Hypothesis Hk : e_kind e = KIter.
Variable L : list tid.
Hypothesis NDL : NoDup L.

(** the thread will not take an element any more *)
Definition NT (sh : shared) (ts : tstate) : Prop :=
  s_cur sh = e_len e \/ (s_f sh = true /\ before_gate (t_pc ts) = true).

Definition nt_ok (tr : list event) (sh : shared) (t : tid) (ts : tstate) : Prop :=
  match pend_call t tr with
  | Some (o, older) => stopped2 older = true -> NT sh ts /\ got_of (t_pc ts) = [] /\ t_acc ts = []
  | None => True
  end.

Record IInvB (c : cfg) : Prop := {
  b_f    : s_f (c_sh c) = true -> s_cur (c_sh c) = e_len e \/ has_skip (c_trace c) = true \/ has_panic (c_trace c) = true;
  b_end  : end_reported (c_trace c) = true -> s_f (c_sh c) = true \/ s_cur (c_sh c) = e_len e;
  b_skip : skip_returned (c_trace c) = true -> s_f (c_sh c) = true;
  b_nt   : forall t, nt_ok (c_trace c) (c_sh c) t (c_pool c t);
  b_evs  : all_rets (ev6 e) (c_trace c) = true;
  b_cs   : s_cur (c_sh c) <= s_c (c_sh c);
  b_len2 : forall t hm o older, t_pc (c_pool c t) = PLen2 hm -> pend_call t (c_trace c) = Some (o, older) ->
             skip_returned older = false
}.

Lemma iB_commit c t sh' ts' l evs :
  IInvB c -> In t L -> Forall (ev_of t) evs ->
  (s_f (c_sh c) = true -> s_f sh' = true) -> (s_cur (c_sh c) = e_len e -> s_cur sh' = e_len e) ->
  (s_f sh' = true -> s_cur sh' = e_len e \/ has_skip (evs ++ c_trace c) = true \/ has_panic (evs ++ c_trace c) = true) ->
  (end_reported (evs ++ c_trace c) = true -> s_f sh' = true \/ s_cur sh' = e_len e) ->
  (skip_returned (evs ++ c_trace c) = true -> s_f sh' = true) ->
  nt_ok (evs ++ c_trace c) sh' t ts' ->
  all_rets (ev6 e) (evs ++ c_trace c) = true ->
  s_cur sh' <= s_c sh' ->
  (forall hm o older, t_pc ts' = PLen2 hm -> pend_call t (evs ++ c_trace c) = Some (o, older) -> skip_returned older = false) ->
  IInvB (commit c t sh' ts' l evs).
Proof.
  intros I Hin Fev Sf Sc Hf Hend Hskip Hnt Hevs Hcs Hl2. split; cbn [commit c_pool c_trace c_sh]; try assumption.
  - intros u. destruct (Nat.eq_dec u t) as [->|Hn].
    + rewrite upd_same. exact Hnt.
    + rewrite upd_other by assumption. pose proof (b_nt c I u) as H. unfold nt_ok in *.
      rewrite (pend_call_others t u evs _ Hn Fev).
      destruct (pend_call u (c_trace c)) as [[o older]|]; [|exact I0].
      intros Hs. destruct (H Hs) as (Hn1 & Hn2 & Hn3). split; [|split; assumption].
      unfold NT in *. destruct Hn1 as [H1|[H1 H2]]; [left; auto|right; split; auto].
  - intros u hm o older. destruct (Nat.eq_dec u t) as [->|Hn].
    + rewrite upd_same. apply Hl2.
    + rewrite upd_other by assumption. rewrite (pend_call_others t u evs _ Hn Fev). apply (b_len2 c I).
Qed.

(** ** the per-event checks *)

Lemma ev6_intro t r d tl o older :
  split_call t tl = Some (o, older) ->
  forallb (run_idx_ok e) (res_runs r) = true ->
  match o with
  | Chunk n k => (n =? 0) || chunk_ok e n k r
  | BufNext k => match buf_size t older with Some c => chunk_ok e c k r | None => true end
  | _ => true
  end = true ->
  increasing (res_cover e r) = true ->
  all_above (iv_maxhi (cov_of e t tl)) (res_cover e r) = true ->
  all_above (iv_maxhi (cov e older)) (res_cover e r) = true ->
  (end_reported older = true ->
     (if can_end o then is_end r || is_panic r else true) && delivers_nothing e r && no_positive r = true) ->
  (skip_returned older = true ->
     (if can_end o then is_end r || is_panic r else true) && delivers_nothing e r
     && match o, r with
        | HasMore, RMore HNo => true
        | HasMore, _ => false
        | TryLen, RLen (Some n) => n =? 0
        | TryLen, _ => false
        | _, _ => true
        end = true) ->
  match o with Loop l c _ => if c =? 0 then is_panic r else loop_shape_ok l r | _ => true end = true ->
  ev6 e t r d tl = true.
Proof.
  intros Hs H2 H3 H4a H4b H4c H5 H6 H12.
  unfold ev6, ev_C02, ev_C03, ev_C04, ev_C05, ev_C06, ev_C12. rewrite Hs, H2, H4a, H4b, H4c. cbn [andb].
  replace (match o with
           | Chunk n k => (n =? 0) || chunk_ok e n k r
           | BufNext k => match buf_size t older with Some c => chunk_ok e c k r | None => true end
           | _ => true end) with true by (symmetry; exact H3).
  cbn [andb].
  destruct (end_reported older); [rewrite (H5 eq_refl)|]; cbn [andb];
  (destruct (skip_returned older); [rewrite (H6 eq_refl)|]); cbn [andb]; exact H12.
Qed.

Lemma ev6_null t r d tl o older :
  split_call t tl = Some (o, older) -> null_pair o r = true -> ev6 e t r d tl = true.
Proof.
  intros Hs Hp.
  assert (res_cover e r = [] /\ res_runs r = [] /\ no_positive r = true) as (Hc & Hr & Hn).
  { destruct o, r; cbn [null_pair] in Hp; try discriminate; try (destruct rs; try discriminate); repeat split; reflexivity. }
  apply ev6_intro with o older; try assumption.
  - rewrite Hr. reflexivity.
  - destruct o, r; cbn [null_pair] in Hp; try discriminate; try reflexivity;
      cbn [chunk_ok]; rewrite ?orb_true_r; try reflexivity; destruct (buf_size t older); reflexivity.
  - rewrite Hc. reflexivity.
  - rewrite Hc. reflexivity.
  - rewrite Hc. reflexivity.
  - intros _. unfold delivers_nothing. rewrite Hc, Hn. cbn [iv_total N.eqb andb].
    destruct o, r; cbn [null_pair] in Hp; try discriminate; try (destruct rs; try discriminate);
      cbn [can_end is_pull is_end is_panic negb orb andb]; try reflexivity; destruct (n =? 0); reflexivity.
  - intros _. unfold delivers_nothing. rewrite Hc. cbn [iv_total N.eqb andb].
    destruct o, r; cbn [null_pair] in Hp; try discriminate; try (destruct rs; try discriminate);
      cbn [can_end is_pull is_end is_panic negb orb andb]; try reflexivity; destruct (n =? 0); reflexivity.
  - destruct o, r; cbn [null_pair] in Hp; try discriminate; try reflexivity;
      try (destruct rs; try discriminate).
    + destruct (c =? 0); [discriminate Hp|reflexivity].
    + destruct (c =? 0); [reflexivity|discriminate Hp].
Qed.

(** ** helpers *)

Lemma stop_state c older : IInvB c -> suffix older (c_trace c) -> stopped2 older = true ->
  s_f (c_sh c) = true \/ s_cur (c_sh c) = e_len e.
Proof.
  intros I Hsuf Hs. unfold stopped2 in Hs. apply orb_true_iff in Hs. destruct Hs as [H|H].
  - apply (b_end c I). eapply end_reported_suffix; eassumption.
  - left. apply (b_skip c I). eapply skip_returned_suffix; eassumption.
Qed.

Lemma f_mono_app (sh : shared) tr evs :
  (s_f sh = true -> s_cur sh = e_len e \/ has_skip tr = true \/ has_panic tr = true) ->
  s_f sh = true -> s_cur sh = e_len e \/ has_skip (evs ++ tr) = true \/ has_panic (evs ++ tr) = true.
Proof.
  intros H Hf. induction evs as [|ev evs IH]; [exact (H Hf)|]. cbn [app].
  destruct IH as [H1|[H1|H1]]; [left; exact H1|right; left; apply has_skip_cons; exact H1|right; right; apply has_panic_cons; exact H1].
Qed.

(** ** the call point *)

Lemma iB_call c t o rest :
  IInvA e L c -> IInvB c -> In t L -> t_pc (c_pool c t) = PIdle -> t_todo (c_pool c t) = o :: rest ->
  IInvB (call e c t (c_pool c t) o rest).
Proof.
  intros A I Hin Hpc Htodo.
  destruct (a_wf e L c A t) as (Hok & Hops & Hbuf). rewrite Htodo in Hops.
  inversion Hops as [|? ? Hwo Hrest]; subst.
  unfold call. destruct (call_res e (c_pool c t) o) as [p|b r d] eqn:E.
  - destruct (call_go_iter e Hk _ _ _ E Hwo Hbuf) as (Tp & Cp & Np1 & Np2 & Nidle & Nbuf & Hreq & Hrq).
    apply iB_commit; try assumption; auto.
    + repeat constructor.
    + intros Hf. apply f_mono_app; [apply (b_f c I)|exact Hf].
    + cbn [app end_reported]. apply (b_end c I).
    + cbn [app skip_returned]. apply (b_skip c I).
    + unfold nt_ok. cbn [app]. rewrite pend_call_self_call. cbn [t_pc t_acc]. intros Hs.
      assert (Hg : got_of p = []) by (destruct p; try reflexivity; discriminate Cp).
      split; [|split; [exact Hg|reflexivity]].
      destruct (stop_state c (c_trace c) I (suffix_refl _) Hs) as [Hf|Hc]; [right|left; exact Hc].
      split; [exact Hf|]. destruct p; try reflexivity; try discriminate Cp; contradiction.
    + cbn [app]. rewrite all_rets_call. apply (b_evs c I).
    + apply (b_cs c I).
    + cbn [t_pc]. intros hm o' older Hp _. subst p. contradiction.
  - assert (Hall : null_pair o r = true /\ is_end r && can_end o = false /\ o <> Skip).
    { unfold call_res in E. destruct o; cbn [wf_op] in Hwo; try discriminate.
      - rewrite Hk in E. destruct (N.eqb_spec n 0) as [->|]; [|discriminate]. injection E as <- <- <-.
        repeat split; try reflexivity; discriminate.
      - destruct (N.eqb_spec c0 0).
        + injection E as <- <- <-. repeat split; try reflexivity; try discriminate. cbn [null_pair]. apply N.eqb_eq; assumption.
        + injection E as <- <- <-. repeat split; try reflexivity; discriminate.
      - destruct (t_buf (c_pool c t)); [discriminate|]. injection E as <- <- <-. repeat split; try reflexivity; discriminate.
      - injection E as <- <- <-. repeat split; try reflexivity; discriminate.
      - destruct (N.eqb_spec c0 0); [|destruct (c0 =? 1); discriminate].
        injection E as <- <- <-. repeat split; try reflexivity; try discriminate. cbn [null_pair]. apply N.eqb_eq; assumption. }
    destruct Hall as (Hnull & Hne & Hns).
    apply iB_commit; try assumption; auto.
    + repeat constructor.
    + intros Hf. apply f_mono_app; [apply (b_f c I)|exact Hf].
    + cbn [app end_reported split_call]. rewrite Nat.eqb_refl, Hne. cbn [orb]. apply (b_end c I).
    + cbn [app skip_returned split_call]. rewrite Nat.eqb_refl.
      destruct o; try (apply (b_skip c I)). contradiction Hns; reflexivity.
    + unfold nt_ok. cbn [app]. rewrite pend_call_self_ret. exact I0.
    + cbn [app]. rewrite all_rets_ret, all_rets_call, (b_evs c I), andb_true_r.
      apply ev6_null with o (c_trace c); [|exact Hnull]. cbn [split_call]. rewrite Nat.eqb_refl. reflexivity.
    + apply (b_cs c I).
    + cbn [t_pc]. intros hm o' older Hp. discriminate Hp.
Qed.

(** ** steps that only move the program counter *)

Lemma iB_silent c t sh' p' l :
  IInvB c -> In t L ->
  (s_f (c_sh c) = true -> s_f sh' = true) -> (s_cur (c_sh c) = e_len e -> s_cur sh' = e_len e) ->
  (s_f sh' = true -> s_f (c_sh c) = true \/ s_cur sh' = e_len e) ->
  s_cur sh' <= s_c sh' ->
  nt_ok (c_trace c) sh' t (set_pc (c_pool c t) p') ->
  (forall hm o older, p' = PLen2 hm -> pend_call t (c_trace c) = Some (o, older) -> skip_returned older = false) ->
  IInvB (commit c t sh' (set_pc (c_pool c t) p') l []).
Proof.
  intros I Hin Sf Sc Hf' Hcs Hnt Hl2.
  apply iB_commit; try assumption; cbn [app].
  - constructor.
  - intros Hf. destruct (Hf' Hf) as [H|H]; [|left; exact H].
    destruct (b_f c I H) as [H1|H1]; [left; auto|right; exact H1].
  - intros He'. destruct (b_end c I He') as [H|H]; [left; auto|right; auto].
  - intros Hs. apply Sf. apply (b_skip c I Hs).
  - apply (b_evs c I).
Qed.

Lemma nt_keep c t sh' p' :
  IInvB c ->
  (s_f (c_sh c) = true -> s_f sh' = true) -> (s_cur (c_sh c) = e_len e -> s_cur sh' = e_len e) ->
  got_of p' = [] \/ got_of p' = got_of (t_pc (c_pool c t)) ->
  (before_gate (t_pc (c_pool c t)) = true -> before_gate p' = true \/ s_f (c_sh c) = false) ->
  nt_ok (c_trace c) sh' t (set_pc (c_pool c t) p').
Proof.
  intros I Sf Sc Hg Hbg. pose proof (b_nt c I t) as H. unfold nt_ok in *.
  destruct (pend_call t (c_trace c)) as [[o older]|]; [|exact I0].
  intros Hs. destruct (H Hs) as (Hn1 & Hn2 & Hn3). cbn [set_pc t_pc t_acc].
  split; [|split; [destruct Hg as [Hg|Hg]; rewrite Hg; [reflexivity|exact Hn2]|exact Hn3]].
  unfold NT in *. cbn [set_pc t_pc]. destruct Hn1 as [H1|[H1 H2]]; [left; auto|].
  destruct (Hbg H2) as [H3|H3]; [right; split; auto|congruence].
Qed.

Lemma iB_res c t q :
  IInvA e L c -> IInvB c -> In t L -> t_pc (c_pool c t) = PRes q ->
  s_c (c_sh c) + pub_incr q < W -> IInvB (step e c t).
Proof.
  intros A I Hin Hpc Hw. rewrite (istep_res e Hk c t q Hpc). rewrite wadd_nowrap by assumption.
  apply iB_silent; try assumption; cbn [with_c s_f s_cur s_c]; auto.
  - pose proof (b_cs c I). lia.
  - apply nt_keep; try assumption; cbn [with_c s_f s_cur]; auto; rewrite Hpc; auto.
  - intros hm o older H. discriminate H.
Qed.

Lemma iB_chkf_go c t q b :
  IInvA e L c -> IInvB c -> In t L -> t_pc (c_pool c t) = PChkF q b -> s_f (c_sh c) = false ->
  IInvB (commit c t (c_sh c) (set_pc (c_pool c t) (PLdY q b)) (LAtom t SF ALoad 0 (bN (s_f (c_sh c)))) []).
Proof.
  intros A I Hin Hpc Hf.
  apply iB_silent; try assumption; auto.
  - apply (b_cs c I).
  - apply nt_keep; try assumption; auto; rewrite Hpc; auto.
  - intros hm o older H. discriminate H.
Qed.

Lemma iB_ldy c t q b :
  IInvA e L c -> IInvB c -> In t L -> t_pc (c_pool c t) = PLdY q b -> IInvB (step e c t).
Proof.
  intros A I Hin Hpc. rewrite (istep_ldy e c t q b Hpc).
  assert (Tt : ticket (pcs_of c t) = Some (b, pub_incr q)) by (unfold pcs_of; rewrite Hpc; reflexivity).
  pose proof (p_tk _ _ _ _ _ (a_prot e L c A) t _ _ Tt) as (Hn & Hyb & Hbc).
  destruct (N.eqb_spec b (s_y (c_sh c))) as [Eb|Nb].
  - apply iB_silent; try assumption; auto.
    + apply (b_cs c I).
    + apply nt_keep; try assumption; auto; rewrite Hpc; cbn [before_gate]; discriminate.
    + intros hm o older H. discriminate H.
  - destruct (N.ltb_spec b (s_y (c_sh c))) as [Hlt|Hge]; [lia|].
    apply iB_silent; try assumption; auto.
    + apply (b_cs c I).
    + apply nt_keep; try assumption; auto; rewrite Hpc; cbn [before_gate]; discriminate.
    + intros hm o older H. discriminate H.
Qed.

Lemma iB_src c t q b g :
  IInvA e L c -> IInvB c -> In t L -> t_pc (c_pool c t) = PSrc q b g -> IInvB (step e c t).
Proof.
  intros A I Hin Hpc.
  destruct (a_wf e L c A t) as (Hok & _ & _). unfold ipc_ok in Hok. rewrite Hpc in Hok. destruct Hok as (Hq & _ & Hlt).
  assert (Tt : ticket (pcs_of c t) = Some (b, pub_incr q)) by (unfold pcs_of; rewrite Hpc; reflexivity).
  assert (Ct : in_crit (pcs_of c t) = true) by (unfold pcs_of; rewrite Hpc; reflexivity).
  pose proof (a_prot e L c A) as P.
  pose proof (p_got _ _ _ _ _ P t _ _ Ct Tt) as [_ Hcur]. unfold pcs_of in Hcur. rewrite Hpc in Hcur. cbn [got_of] in Hcur.
  pose proof (p_tk _ _ _ _ _ P t _ _ Tt) as (Hn & Hyb & Hbc). rewrite (pub_incr_n q Hq) in Hbc.
  pose proof (p_cur _ _ _ _ _ P) as Hcl.
  assert (Hsame : forall x calls l, got_of x = g \/ got_of x = [] -> (forall hm, x <> PLen2 hm) ->
            IInvB (commit c t (with_src (c_sh c) (s_cur (c_sh c)) calls) (set_pc (c_pool c t) x) l [])).
  { intros x calls l Hg Hx. apply iB_silent; try assumption; cbn [with_src s_f s_cur s_c]; auto.
    - apply (b_cs c I).
    - apply nt_keep; try assumption; cbn [with_src s_f s_cur]; auto.
      + rewrite Hpc. cbn [got_of]. destruct Hg as [Hg|Hg]; auto.
      + rewrite Hpc. cbn [before_gate]. discriminate.
    - intros hm o older H. contradiction (Hx hm). }
  unfold step. rewrite Hpc.
  destruct (crashes_now e (c_sh c)).
  - apply Hsame; [left; reflexivity|discriminate].
  - unfold src_next. destruct (N.ltb_spec (s_cur (c_sh c)) (e_len e)) as [Hsl|Hsl].
    + assert (Hc : s_cur (c_sh c) = b + N.of_nat (length g)) by (destruct Hcur as [H|[_ H]]; [exact H|lia]).
      assert (Hgo : forall x, (forall hm, x <> PLen2 hm) ->
                IInvB (commit c t (with_src (c_sh c) (s_cur (c_sh c) + 1) (s_calls (c_sh c) + 1)) (set_pc (c_pool c t) x)
                              (LSrc t (Some (s_cur (c_sh c)))) [])).
      { intros x Hx. apply iB_silent; try assumption; cbn [with_src s_f s_cur s_c]; auto.
        - intros H. lia.
        - lia.
        - pose proof (b_nt c I t) as H. unfold nt_ok in *.
          destruct (pend_call t (c_trace c)) as [[o older]|]; [|exact I0].
          intros Hs. destruct (H Hs) as (Hn1 & _ & _). unfold NT in Hn1. rewrite Hpc in Hn1. cbn [before_gate] in Hn1.
          destruct Hn1 as [H1|[_ H1]]; [lia|discriminate].
        - intros hm o older H. contradiction (Hx hm). }
      destruct (q_mode q).
      * apply Hgo. discriminate.
      * destruct (N.of_nat (length (s_cur (c_sh c) :: g)) =? q_n q); apply Hgo; discriminate.
      * destruct (N.of_nat (length (s_cur (c_sh c) :: g)) =? q_n q); apply Hgo; discriminate.
    + destruct (q_mode q) eqn:M.
      * apply Hsame; [right; reflexivity|discriminate].
      * destruct g; apply Hsame; try discriminate; [right; reflexivity|left; reflexivity].
      * apply Hsame; [left; reflexivity|discriminate].
Qed.

Lemma iB_setf_go c t q b g :
  IInvA e L c -> IInvB c -> In t L -> t_pc (c_pool c t) = PSetF q b g ->
  IInvB (commit c t (with_f (c_sh c) true) (set_pc (c_pool c t) (PPub q b g)) (LAtom t SF AStore 1 0) []).
Proof.
  intros A I Hin Hpc.
  pose proof (p_setf _ _ _ _ _ (a_prot e L c A) t q b g ltac:(unfold pcs_of; exact Hpc)) as Hex.
  apply iB_silent; try assumption; cbn [with_f s_f s_cur s_c]; auto.
  - apply (b_cs c I).
  - apply nt_keep; try assumption; cbn [with_f s_f s_cur]; auto; rewrite Hpc; cbn [before_gate got_of]; auto; discriminate.
  - intros hm o older H. discriminate H.
Qed.

End IterB.
