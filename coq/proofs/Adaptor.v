(** * C13: the adaptors cloned() / copied() in the model.

    The model gives the adaptor no behaviour of its own: the field [e_adaptor] of the environment is
    not read by [step] nor by [final_step] (the crate's [Cloned] / [Copied] forward every method of the
    inner iterator and clone / copy what it delivers).  The theorems below state this as an equality of
    whole configurations for every schedule; they are what makes every other theorem of the
    development a theorem about the adaptors as well.  What ties the crate's adaptors to this model is
    the correspondence check: the crate's [cloned()] / [copied()] iterators are replayed against this
    model and, operation by operation, against the crate's own underlying iterator. *)
From Coq Require Import List.
From OCI Require Import Machine Checkers.
Import ListNotations.
Open Scope N_scope.

Definition with_adaptor (e : env) (a : adaptor) : env :=
  {| e_kind := e_kind e; e_adaptor := a; e_len := e_len e; e_start := e_start e; e_end := e_end e;
     e_hint := e_hint e; e_owning := e_owning e; e_mode := e_mode e; e_crash := e_crash e; e_gap := e_gap e |}.

Lemma drops_after_adaptor e a k rs : drops_after (with_adaptor e a) k rs = drops_after e k rs.
Proof.
  revert k. induction rs as [|r tl IH]; intros k; cbn [drops_after]; [reflexivity|].
  rewrite !IH. reflexivity.
Qed.

Lemma deliver_adaptor e a ts q pr : deliver (with_adaptor e a) ts q pr = deliver e ts q pr.
Proof.
  unfold deliver, deliver_top, deliver_loop. rewrite ?drops_after_adaptor.
  destruct (q_ctx q); destruct pr as [[|b rs cnt]|k]; try reflexivity.
  - destruct (q_mode q); rewrite ?drops_after_adaptor; reflexivity.
  - destruct (loop_invoke l crash (total_cnt (t_acc ts)) rs cnt) as [inv [used|]]; rewrite ?drops_after_adaptor; reflexivity.
Qed.

Lemma finish_adaptor e a c t sh ts l q pr : finish (with_adaptor e a) c t sh ts l q pr = finish e c t sh ts l q pr.
Proof. unfold finish. rewrite deliver_adaptor. reflexivity. Qed.

Lemma step_adaptor e a c t : step (with_adaptor e a) c t = step e c t.
Proof.
  unfold step.
  change (e_kind (with_adaptor e a)) with (e_kind e).
  change (e_len (with_adaptor e a)) with (e_len e).
  change (e_hint (with_adaptor e a)) with (e_hint e).
  change (k_fetch_n (with_adaptor e a)) with (k_fetch_n e).
  change (crashes_now (with_adaptor e a)) with (crashes_now e).
  change (src_next (with_adaptor e a)) with (src_next e).
  repeat first
    [ reflexivity
    | rewrite finish_adaptor
    | rewrite drops_after_adaptor
    | match goal with |- match ?x with _ => _ end = _ => destruct x end
    | match goal with |- (if ?x then _ else _) = _ => destruct x end ].
Qed.

Lemma exec_adaptor e a c sched : exec (with_adaptor e a) c sched = exec e c sched.
Proof.
  unfold exec. revert c. induction sched as [|t s IH]; intros c; cbn [fold_left]; [reflexivity|].
  rewrite step_adaptor. apply IH.
Qed.

Lemma final_adaptor e a c t f : final_step (with_adaptor e a) c t f = final_step e c t f.
Proof. reflexivity. Qed.

Theorem adaptor_transparent : forall e a progs sched t f,
  exec (with_adaptor e a) (init progs) sched = exec e (init progs) sched /\
  final_step (with_adaptor e a) (exec (with_adaptor e a) (init progs) sched) t f =
  final_step e (exec e (init progs) sched) t f.
Proof. intros. rewrite exec_adaptor, final_adaptor. split; reflexivity. Qed.

(** the source of a reference-yielding iterator (known-size kinds, under any adaptor) is never touched:
    no element of it is destroyed by the iterator machinery, during the run and at the end of life *)
From Coq Require Import ZArith.
From OCI.proofs Require Import ArithOk Trace InvKnown ChkKnown.

Theorem source_untouched : forall e, known_env e -> e_owning e = false ->
  forall progs, wf_progs progs -> forall sched,
  nowrap (c_labels (exec e (init progs) sched)) ->
  iv_total (dropped_all (c_trace (exec e (init progs) sched))) = 0 /\
  forall t f, n_pending (c_trace (exec e (init progs) sched)) = 0%Z ->
              iv_total (dropped_all (c_trace (final_step e (exec e (init progs) sched) t f))) = 0.
Proof.
  intros e He Hown progs Hp sched Hnw. split.
  - pose proof (known_C08_run e He progs Hp sched Hnw) as H. unfold chk_C08 in H. rewrite Hown in H.
    apply N.eqb_eq. exact H.
  - intros t f Hq. pose proof (known_C08_final e He progs Hp sched Hnw t f Hq) as H. unfold chk_C08 in H. rewrite Hown in H.
    apply N.eqb_eq. exact H.
Qed.
