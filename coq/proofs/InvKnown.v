(** * The known-size kinds (slice, vector, array, range): the inductive invariant of the machine.

    Every pull of these kinds is one step: the [fetch_add] on the position counter together with the
    local computation that follows it.  The invariant says that the intervals delivered so far --
    those in the trace and those a running [for_each]/[fold] loop has handed to its closure -- tile
    the prefix [0, min counter len) of the source. *)
From Coq Require Import Lia ZArith Permutation.
From OCI Require Import Machine Checkers.
From OCI.proofs Require Import Base Trace ArithOk.
Open Scope N_scope.

Definition wf_op (o : op) : Prop :=
  match o with Chunk n _ => n < W | BufNew c => c < W | Loop _ c _ => c < W | _ => True end.

Definition wf_buf (ob : option bufst) : Prop :=
  match ob with Some bf => 0 < bf_c bf /\ bf_c bf < W | None => True end.

Definition is_idle (ts : tstate) : bool := match t_pc ts with PIdle => true | _ => false end.
Definition pendZ (ts : tstate) : Z := if is_idle ts then 0%Z else 1%Z.

(** the atomic read-modify-writes of a run do not wrap the counters around: the hypothesis
    "cumulative requested count below the largest usize" of the properties, stated on the run *)
Definition label_nowrap (l : label) : Prop :=
  match l with LAtom _ _ AAdd n old => old + n < W | _ => True end.
Definition nowrap (ls : list label) : Prop := Forall label_nowrap ls.

Lemma call_res_buf e ts ts' o : t_buf ts = t_buf ts' ->
  forall p, call_res e ts o = CGo p -> call_res e ts' o = CGo p.
Proof.
  intros Hb p. unfold call_res. destruct o; try (intros H; exact H).
  - destruct (e_kind e); try (intros H; exact H). destruct (n =? 0); [discriminate|intros H; exact H].
  - destruct (c =? 0); discriminate.
  - rewrite <- Hb. destruct (t_buf ts); [intros H; exact H|discriminate].
  - discriminate.
  - destruct (c =? 0); [discriminate|]. destruct (c =? 1); intros H; exact H.
Qed.

Lemma has_skip_pend t tr older : pend_call t tr = Some (Skip, older) -> has_skip tr = true.
Proof.
  induction tr as [|ev tr IH]; cbn [pend_call]; [discriminate|].
  destruct ev as [u o|u r d|f r d]; cbn [has_skip].
  - destruct (Nat.eqb u t).
    + intros E. injection E as -> _. reflexivity.
    + intros E. destruct o; try (apply IH; exact E). reflexivity.
  - destruct (Nat.eqb u t); [discriminate|]. exact IH.
  - exact IH.
Qed.

Section Known.

Variable e : env.
Hypothesis He : wf_env e.
Hypothesis Hk : is_known (e_kind e) = true.
Variable L : list tid.
Hypothesis NDL : NoDup L.

Definition frontier (sh : shared) : N := N.min (s_c sh) (e_len e).
Definition acc_iv (ts : tstate) : list iv := map (run_iv e) (t_acc ts).
Definition accs (pool : tid -> tstate) : list iv := gather (fun t => acc_iv (pool t)) L.
Definition hist (c : cfg) : list iv := cov e (c_trace c) ++ accs (c_pool c).

Definition kpc_ok (ts : tstate) : Prop :=
  match t_pc ts with
  | PIdle | PSkip | PLen _ => t_acc ts = []
  | PRes q => wf_req q /\ (q_ctx q = CTop -> t_acc ts = [])
  | _ => False
  end.

Definition call_ok (tr : list event) (t : tid) (ts : tstate) : Prop :=
  if is_idle ts then pend_call t tr = None
  else exists o older, pend_call t tr = Some (o, older) /\ call_res e ts o = CGo (t_pc ts).

Record KInv (c : cfg) : Prop := {
  k_wf   : forall t, kpc_ok (c_pool c t) /\ Forall wf_op (t_todo (c_pool c t)) /\ wf_buf (t_buf (c_pool c t));
  k_out  : forall t, ~ In t L -> is_idle (c_pool c t) = true;
  k_call : forall t, call_ok (c_trace c) t (c_pool c t);
  k_pend : n_pending (c_trace c) = sumZ (fun t => pendZ (c_pool c t)) L;
  k_til  : tiling (clean (c_trace c)) (frontier (c_sh c)) (hist c);
  k_end  : end_reported (c_trace c) = true -> e_len e <= s_c (c_sh c);
  k_skip : skip_returned (c_trace c) = true -> e_len e <= s_c (c_sh c)
}.

(** events of thread [t] *)
Definition ev_of (t : tid) (ev : event) : Prop :=
  match ev with ECall u _ | ERet u _ _ => u = t | EFinal _ _ _ => False end.

Lemma pend_call_others t u evs tr : u <> t -> Forall (ev_of t) evs -> pend_call u (evs ++ tr) = pend_call u tr.
Proof.
  intros Hn. induction evs as [|ev evs IH]; intros F; [reflexivity|].
  inversion F as [|? ? H1 H2]; subst. cbn [app].
  destruct ev as [v o|v r d|f r d]; cbn [ev_of] in H1; subst.
  - rewrite pend_call_other_call by (intros ->; contradiction Hn; reflexivity). apply IH; assumption.
  - rewrite pend_call_other_ret by (intros ->; contradiction Hn; reflexivity). apply IH; assumption.
  - contradiction.
Qed.

Lemma tiling_weaken cl cl' n h : (cl' = true -> cl = true) -> tiling cl n h -> tiling cl' n h.
Proof. intros Hc [H1 H2 H3 H4]. split; auto. Qed.

Lemma accs_upd pool t ts' : In t L ->
  exists rest, Permutation (accs pool) (acc_iv (pool t) ++ rest) /\
               Permutation (accs (upd pool t ts')) (acc_iv ts' ++ rest).
Proof.
  intros Hin. unfold accs.
  destruct (gather_upd (fun u => acc_iv (pool u)) L t (acc_iv ts') NDL Hin) as (rest & P1 & P2).
  exists rest. split; [exact P1|].
  rewrite <- P2. erewrite gather_ext; [apply Permutation_refl|].
  intros u _. unfold upd. destruct (Nat.eqb u t); reflexivity.
Qed.

(** the new history is, up to permutation, the old one plus the intervals [delta] acquired in this step *)
Lemma til_move cl n pool t (tr : list event) newcov ts' delta :
  In t L ->
  Permutation (newcov ++ acc_iv ts') (delta ++ acc_iv (pool t)) ->
  tiling cl n (delta ++ (cov e tr ++ accs pool)) ->
  tiling cl n ((newcov ++ cov e tr) ++ accs (upd pool t ts')).
Proof.
  intros Hin P T. destruct (accs_upd pool t ts' Hin) as (rest & P1 & P2).
  eapply tiling_perm; [|exact T].
  rewrite P1, P2.
  (* delta ++ cov ++ acc_t ++ rest  ~  (newcov ++ cov) ++ acc' ++ rest *)
  transitivity ((delta ++ acc_iv (pool t)) ++ cov e tr ++ rest).
  - rewrite <- !app_assoc. apply Permutation_app_head.
    rewrite !app_assoc. apply Permutation_app_tail. apply Permutation_app_comm.
  - rewrite <- P. rewrite <- !app_assoc. apply Permutation_app_head.
    rewrite !app_assoc. apply Permutation_app_tail. apply Permutation_app_comm.
Qed.

Lemma not_iter : e_kind e <> KIter.
Proof. intros E. rewrite E in Hk. discriminate Hk. Qed.

(** ** how a commit changes the invariant's ingredients *)

Lemma kinv_commit c t sh' ts' l evs :
  KInv c -> In t L ->
  Forall (ev_of t) evs ->
  kpc_ok ts' -> Forall wf_op (t_todo ts') -> wf_buf (t_buf ts') ->
  call_ok (evs ++ c_trace c) t ts' ->
  n_pending (evs ++ c_trace c) = (n_pending (c_trace c) - pendZ (c_pool c t) + pendZ ts')%Z ->
  tiling (clean (evs ++ c_trace c)) (frontier sh') (cov e (evs ++ c_trace c) ++ accs (upd (c_pool c) t ts')) ->
  (end_reported (evs ++ c_trace c) = true -> e_len e <= s_c sh') ->
  (skip_returned (evs ++ c_trace c) = true -> e_len e <= s_c sh') ->
  KInv (commit c t sh' ts' l evs).
Proof.
  intros I Hin Fev Hpc Htodo Hbuf Hcall Hpend Htil Hend Hskip.
  split; cbn [commit c_pool c_trace c_sh].
  - intros u. destruct (Nat.eq_dec u t) as [->|Hn].
    + rewrite upd_same. auto.
    + rewrite upd_other by assumption. apply (k_wf c I).
  - intros u Hu. assert (u <> t) by (intros ->; contradiction).
    rewrite upd_other by assumption. apply (k_out c I); assumption.
  - intros u. destruct (Nat.eq_dec u t) as [->|Hn].
    + rewrite upd_same. assumption.
    + rewrite upd_other by assumption. unfold call_ok.
      rewrite (pend_call_others t u evs _ Hn Fev). apply (k_call c I).
  - rewrite Hpend, (k_pend c I).
    transitivity (sumZ (upd (fun u => pendZ (c_pool c u)) t (pendZ ts')) L).
    + rewrite sumZ_upd by assumption. lia.
    + apply sumZ_ext. intros u _. unfold upd. destruct (Nat.eqb u t); reflexivity.
  - exact Htil.
  - exact Hend.
  - exact Hskip.
Qed.

(** ** the equations of [step] for the known-size kinds *)

Lemma step_idle_nil c t : t_pc (c_pool c t) = PIdle -> t_todo (c_pool c t) = [] -> step e c t = c.
Proof. intros H1 H2. unfold step. rewrite H1, H2. reflexivity. Qed.

Lemma step_idle_call c t o rest : t_pc (c_pool c t) = PIdle -> t_todo (c_pool c t) = o :: rest ->
  step e c t = call e c t (c_pool c t) o rest.
Proof. intros H1 H2. unfold step. rewrite H1, H2. reflexivity. Qed.

Lemma step_res c t q : t_pc (c_pool c t) = PRes q ->
  step e c t = finish e c t (with_c (c_sh c) (wadd (s_c (c_sh c)) (k_incr e q))) (c_pool c t)
                      (LAtom t SC AAdd (k_incr e q) (s_c (c_sh c))) q (k_pull e q (s_c (c_sh c))).
Proof. intros H1. unfold step. rewrite H1. destruct (e_kind e); try reflexivity. discriminate Hk. Qed.

Lemma wadd_nowrap a b : a + b < W -> wadd a b = a + b.
Proof. intros H. unfold wadd. apply N.mod_small. exact H. Qed.

(** ** the call point *)

Lemma acc_idle c t : KInv c -> is_idle (c_pool c t) = true -> t_acc (c_pool c t) = [].
Proof.
  intros I H. destruct (k_wf c I t) as (Hpc & _ & _). unfold kpc_ok in Hpc. unfold is_idle in H.
  destruct (t_pc (c_pool c t)); try discriminate. exact Hpc.
Qed.

Lemma til_same cl cl' c t ts' (newcov : list iv) :
  KInv c -> In t L -> (cl' = true -> cl = true) ->
  tiling cl (frontier (c_sh c)) (hist c) ->
  Permutation (newcov ++ acc_iv ts') (acc_iv (c_pool c t)) ->
  tiling cl' (frontier (c_sh c)) ((newcov ++ cov e (c_trace c)) ++ accs (upd (c_pool c) t ts')).
Proof.
  intros I Hin Hcl T P. apply til_move with (delta := []); [assumption|exact P|].
  cbn [app]. eapply tiling_weaken; eassumption.
Qed.

Lemma kinv_call c t o rest :
  KInv c -> In t L -> t_pc (c_pool c t) = PIdle -> t_todo (c_pool c t) = o :: rest ->
  KInv (call e c t (c_pool c t) o rest).
Proof.
  intros I Hin Hpc Htodo.
  destruct (k_wf c I t) as (Hok & Hops & Hbuf). rewrite Htodo in Hops.
  inversion Hops as [|? ? Hwo Hrest]; subst.
  assert (Hidle : is_idle (c_pool c t) = true) by (unfold is_idle; now rewrite Hpc).
  assert (Hacc : t_acc (c_pool c t) = []) by (apply acc_idle; assumption).
  unfold call. destruct (call_res e (c_pool c t) o) as [p|b r d] eqn:E.
  - (* the operation starts *)
    assert (Hp : kpc_ok {| t_pc := p; t_todo := rest; t_buf := t_buf (c_pool c t); t_acc := [] |}
                 /\ is_idle {| t_pc := p; t_todo := rest; t_buf := t_buf (c_pool c t); t_acc := [] |} = false).
    { unfold kpc_ok, is_idle, call_res in *. cbn [t_pc t_acc].
      destruct o; cbn [wf_op] in Hwo.
      - injection E as <-. repeat split; cbn; try reflexivity; lia.
      - destruct (e_kind e); try discriminate Hk; injection E as <-; repeat split; cbn; try reflexivity; try assumption.
      - destruct (c0 =? 0); discriminate.
      - destruct (t_buf (c_pool c t)) as [bf|]; [|discriminate]. injection E as <-. cbn [wf_buf] in Hbuf.
        repeat split; cbn; try reflexivity; lia.
      - discriminate.
      - destruct (N.eqb_spec c0 0); [discriminate|]. destruct (N.eqb_spec c0 1).
        + injection E as <-. repeat split; cbn; try reflexivity; try lia.
        + injection E as <-. repeat split; cbn; try reflexivity; try lia.
      - injection E as <-. split; reflexivity.
      - injection E as <-. split; reflexivity.
      - injection E as <-. split; reflexivity. }
    destruct Hp as [Hp Hni].
    apply kinv_commit; try assumption.
    + repeat constructor.
    + unfold call_ok. rewrite Hni. exists o, (c_trace c). split.
      * cbn [app]. apply pend_call_self_call.
      * cbn [t_pc]. eapply call_res_buf; [|exact E]. reflexivity.
    + cbn [app]. rewrite n_pending_call. unfold pendZ. rewrite Hidle, Hni. lia.
    + cbn [app cov]. change (cov e (c_trace c)) with ([] ++ cov e (c_trace c)).
      eapply til_same; try eassumption; [|apply (k_til c I)|].
      * intros C. eapply clean_cons. exact C.
      * unfold acc_iv. cbn [t_acc]. rewrite Hacc. apply Permutation_refl.
    + cbn [app end_reported]. apply (k_end c I).
    + cbn [app skip_returned]. apply (k_skip c I).
  - (* the operation returns at once *)
    assert (Hr : wf_buf b /\ res_cover e r = [] /\ is_end r = false /\ o <> Skip).
    { unfold call_res in E. destruct o; cbn [wf_op] in Hwo; try discriminate.
      - destruct (e_kind e); try discriminate Hk; discriminate.
      - destruct (N.eqb_spec c0 0).
        + injection E as <- <- <-. repeat split; try assumption; discriminate.
        + injection E as <- <- <-. repeat split; cbn; try lia; discriminate.
      - destruct (t_buf (c_pool c t)); [discriminate|]. injection E as <- <- <-. repeat split; discriminate.
      - injection E as <- <- <-. repeat split; discriminate.
      - destruct (N.eqb_spec c0 0); [|destruct (c0 =? 1); discriminate].
        injection E as <- <- <-. repeat split; try assumption; discriminate. }
    destruct Hr as (Hb & Hcov & Hne & Hns).
    apply kinv_commit; try assumption.
    + repeat constructor.
    + reflexivity.
    + unfold call_ok, is_idle. cbn [t_pc app]. apply pend_call_self_ret.
    + cbn [app]. rewrite n_pending_ret, n_pending_call. unfold pendZ, is_idle. cbn [t_pc]. rewrite Hpc. lia.
    + cbn [app cov]. rewrite Hcov.
      eapply til_same; try eassumption; [|apply (k_til c I)|].
      * intros C. eapply clean_cons, clean_cons. exact C.
      * unfold acc_iv. cbn [t_acc]. rewrite Hacc. apply Permutation_refl.
    + cbn [app end_reported]. rewrite Hne. cbn [andb orb]. apply (k_end c I).
    + cbn [app skip_returned split_call]. rewrite Nat.eqb_refl.
      destruct o; try (apply (k_skip c I)). contradiction Hns; reflexivity.
Qed.

(** ** a pull: the fetch_add on the position counter and what follows it *)

Lemma run_iv_at b cnt oi : b < e_len e -> run_iv e (mk_run oi (val_of e b) cnt) = (b, cnt).
Proof using.
  clear Hk. intros Hb. unfold run_iv, pos_of, val_of, mk_run. cbn [r_val r_cnt].
  destruct (e_kind e); try reflexivity. f_equal. lia.
Qed.

Lemma frontier_got sh q b' rs cnt :
  wf_req q -> pull_spec e (q_n q) (s_c sh) = PRGot b' rs cnt ->
  s_c sh + k_incr e q < W ->
  frontier sh = s_c sh /\ frontier (with_c sh (wadd (s_c sh) (k_incr e q))) = s_c sh + cnt /\ s_c sh < e_len e.
Proof.
  intros [Hn Hm] PS Hw. apply pull_spec_got in PS. destruct PS as (-> & -> & H1 & H2 & H3 & H4).
  rewrite wadd_nowrap by assumption.
  unfold frontier, with_c, k_incr in *. cbn [s_c].
  destruct (q_mode q); lia.
Qed.

Lemma frontier_end sh q :
  wf_req q -> pull_spec e (q_n q) (s_c sh) = PREnd ->
  s_c sh + k_incr e q < W ->
  frontier (with_c sh (wadd (s_c sh) (k_incr e q))) = frontier sh /\ (q_n q <> 0 -> e_len e <= s_c sh).
Proof.
  intros [Hn Hm] PS Hw. apply pull_spec_end in PS.
  rewrite wadd_nowrap by assumption.
  unfold frontier, with_c, k_incr in *. cbn [s_c].
  destruct (q_mode q); lia.
Qed.

(** a chunk of [cnt] elements of which the caller takes [took]: the part taken and the rest *)
Lemma cover_chunk b cnt took oi :
  b < e_len e -> took <= cnt ->
  map (run_iv e) (runs_take took [mk_run oi (val_of e b) cnt]) ++ [(b + took, cnt - took)]
  = (if took =? 0 then [] else [(b, took)]) ++ [(b + took, cnt - took)].
Proof using.
  intros Hb Ht. cbn [runs_take]. destruct (N.eqb_spec took 0) as [->|Hz]; [reflexivity|].
  cbn [mk_run r_cnt r_idx r_val]. destruct (N.leb_spec cnt took).
  - assert (took = cnt) as -> by lia. cbn [runs_take map app].
    rewrite run_iv_at by assumption. reflexivity.
  - cbn [map app]. rewrite run_iv_at by assumption. reflexivity.
Qed.

Lemma tiling_extend_split cl n h cnt took :
  took <= cnt -> tiling cl n h ->
  tiling cl (n + cnt) (((if took =? 0 then [] else [(n, took)]) ++ [(n + took, cnt - took)]) ++ h).
Proof.
  intros Ht T. destruct (N.eqb_spec took 0) as [->|Hz].
  - cbn [app]. rewrite N.add_0_r, N.sub_0_r. apply tiling_extend. exact T.
  - cbn [app]. replace (n + cnt) with ((n + took) + (cnt - took)) by lia.
    eapply tiling_perm; [apply perm_swap|].
    apply tiling_extend with (n := n + took).
    apply tiling_extend. exact T.
Qed.

Lemma not_skip_call ts o q : call_res e ts o = CGo (PRes q) -> o <> Skip.
Proof. intros E ->. discriminate E. Qed.

Lemma can_end_zero ts o q : call_res e ts o = CGo (PRes q) -> q_n q = 0 -> wf_req q -> can_end o = false.
Proof.
  intros E Hz [_ Hm]. unfold call_res in E. destruct o; try discriminate.
  - injection E as <-. discriminate Hz.
  - destruct (e_kind e); try discriminate Hk; injection E as <-; cbn [q_n] in Hz; subst; reflexivity.
  - destruct (c =? 0); discriminate.
  - destruct (t_buf ts); [|discriminate]. injection E as <-. cbn [q_mode q_n] in *. lia.
  - destruct (N.eqb_spec c 0); [discriminate|]. destruct (c =? 1); injection E as <-; cbn [q_n] in Hz; lia.
Qed.

Lemma skip_returned_ret_other t r d tr o older :
  split_call t tr = Some (o, older) -> o <> Skip -> skip_returned (ERet t r d :: tr) = skip_returned tr.
Proof. intros E Hn. cbn [skip_returned]. rewrite E. destruct o; try reflexivity. contradiction Hn; reflexivity. Qed.

Lemma run_iv_strip r : run_iv e (strip_idx r) = run_iv e r.
Proof. reflexivity. Qed.

Lemma pendZ_res ts q : t_pc ts = PRes q -> pendZ ts = 1%Z.
Proof. intros H. unfold pendZ, is_idle. now rewrite H. Qed.

Lemma end_reported_ret t r d tr o older :
  split_call t tr = Some (o, older) ->
  end_reported (ERet t r d :: tr) = (is_end r && can_end o) || end_reported tr.
Proof. intros E. cbn [end_reported]. rewrite E. reflexivity. Qed.

Lemma deliver_top_known ts q b cnt :
  b < e_len e -> 1 <= cnt -> wf_req q -> (forall v, q_mode q = MSingle v -> cnt = 1) ->
  exists r d, deliver_top e ts q b [mk_run (Some b) (val_of e b) cnt] cnt = (set_pc ts PIdle, (r, d))
    /\ is_end r = false /\ is_panic r = false
    /\ exists took, took <= cnt /\
         res_cover e r = (if took =? 0 then [] else [(b, took)]) ++ [(b + took, cnt - took)].
Proof.
  intros Hb Hc Hq Hone. unfold deliver_top. destruct (q_mode q) as [v|k|k] eqn:M.
  - rewrite (Hone v eq_refl). eexists _, _. split; [reflexivity|].
    destruct (reports_idx v); cbn [map one_res is_end is_panic res_cover res_taken];
      (split; [reflexivity|split; [reflexivity|]]); exists 0; (split; [lia|]);
      rewrite ?run_iv_strip, run_iv_at by assumption; cbn [N.eqb app]; f_equal; f_equal; lia.
  - eexists _, _. split; [reflexivity|]. unfold chunk_res. cbn [is_end is_panic res_cover].
    split; [reflexivity|split; [reflexivity|]]. exists (N.min k cnt). split; [lia|].
    apply cover_chunk; [assumption|lia].
  - pose proof not_iter as Hni. remember (e_kind e) as kd eqn:K. destruct kd; try (contradiction Hni; reflexivity);
      (eexists _, _; split; [reflexivity|]; unfold chunk_res; cbn [is_end is_panic res_cover];
       split; [reflexivity|split; [reflexivity|]]; exists (N.min k cnt); split; [lia|];
       apply cover_chunk; [assumption|lia]).
Qed.

Lemma loop_invoke_cases l crash done b cnt :
  b < e_len e -> 1 <= cnt ->
  exists inv pan, loop_invoke l crash done [mk_run (Some b) (val_of e b) cnt] cnt = (inv, pan) /\
    match pan with
    | None => map (run_iv e) inv = [(b, cnt)]
    | Some used => 1 <= used /\ used <= cnt /\ map (run_iv e) inv = [(b, used)]
    end.
Proof using.
  intros Hb Hc. unfold loop_invoke.
  set (shape := match l with LEnum => fun r => r | _ => strip_idx end).
  assert (Hshape : forall r, run_iv e (shape r) = run_iv e r) by (intros r; unfold shape; destruct l; reflexivity).
  destruct crash as [k|].
  - destruct (N.leb_spec done k) as [H1|H1]; cbn [andb].
    + destruct (N.ltb_spec k (done + cnt)) as [H2|H2].
      * eexists _, _. split; [reflexivity|]. split; [lia|]. split; [lia|].
        cbn [runs_take mk_run r_cnt r_idx r_val]. destruct (N.eqb_spec (k - done + 1) 0); [lia|].
        destruct (N.leb_spec cnt (k - done + 1)).
        -- assert (k - done + 1 = cnt) as -> by lia. cbn [runs_take map]. rewrite Hshape, run_iv_at by assumption. reflexivity.
        -- cbn [map]. rewrite Hshape, run_iv_at by assumption. reflexivity.
      * eexists _, _. split; [reflexivity|]. cbn [map]. rewrite Hshape, run_iv_at by assumption. reflexivity.
    + eexists _, _. split; [reflexivity|]. cbn [map]. rewrite Hshape, run_iv_at by assumption. reflexivity.
  - eexists _, _. split; [reflexivity|]. cbn [map]. rewrite Hshape, run_iv_at by assumption. reflexivity.
Qed.

Lemma kinv_pull c t q :
  KInv c -> In t L -> t_pc (c_pool c t) = PRes q ->
  s_c (c_sh c) + k_incr e q < W ->
  KInv (step e c t).
Proof.
  intros I Hin Hpc Hw. rewrite (step_res c t q Hpc).
  destruct (k_wf c I t) as (Hok & Hops & Hbuf).
  unfold kpc_ok in Hok. rewrite Hpc in Hok. destruct Hok as [Hq Hacc].
  pose proof (k_call c I t) as Hc. unfold call_ok, is_idle in Hc. rewrite Hpc in Hc.
  destruct Hc as (o & older & Hpend & Hres).
  pose proof (pend_split _ _ _ Hpend) as Hsplit.
  pose proof (not_skip_call _ _ _ Hres) as Hnskip.
  rewrite (k_pull_spec e q _ He Hq).
  assert (Hmono : s_c (c_sh c) <= s_c (with_c (c_sh c) (wadd (s_c (c_sh c)) (k_incr e q)))).
  { rewrite wadd_nowrap by assumption. cbn [with_c s_c]. lia. }
  unfold finish.
  destruct (pull_spec e (q_n q) (s_c (c_sh c))) as [|b' rs cnt] eqn:PS.
  - (* the pull reports the end *)
    destruct (frontier_end (c_sh c) q Hq PS Hw) as [Hf Hlen].
    unfold deliver. destruct (q_ctx q) as [|l crash] eqn:Ctx.
    + (* directly *)
      cbn [ret_ev]. apply kinv_commit; try assumption.
      * repeat constructor.
      * unfold kpc_ok. cbn [set_pc t_pc t_acc]. auto.
      * unfold call_ok, is_idle. cbn [set_pc t_pc app]. apply pend_call_self_ret.
      * cbn [app]. rewrite n_pending_ret. rewrite (pendZ_res _ _ Hpc). unfold pendZ, is_idle. cbn [set_pc t_pc]. lia.
      * cbn [app cov res_cover res_taken]. rewrite Hf.
        change (cov e (c_trace c)) with ([] ++ cov e (c_trace c)).
        eapply til_same; try eassumption; [|apply (k_til c I)|].
        -- intros C. eapply clean_cons. exact C.
        -- unfold acc_iv. cbn [set_pc t_acc]. apply Permutation_refl.
      * cbn [app]. rewrite (end_reported_ret _ _ _ _ _ _ Hsplit). cbn [is_end andb].
        intros H. apply orb_true_iff in H. destruct H as [H|H]; [|pose proof (k_end c I H); lia].
        destruct (N.eq_dec (q_n q) 0) as [Hz|Hz].
        -- rewrite (can_end_zero _ _ _ Hres Hz Hq) in H. discriminate.
        -- specialize (Hlen Hz). lia.
      * cbn [app]. rewrite (skip_returned_ret_other _ _ _ _ _ _ Hsplit Hnskip).
        intros H. pose proof (k_skip c I H). lia.
    + (* inside a loop: the loop returns *)
      cbn [ret_ev]. apply kinv_commit; try assumption.
      * repeat constructor.
      * unfold kpc_ok. cbn [t_pc t_acc]. reflexivity.
      * unfold call_ok, is_idle. cbn [t_pc app]. apply pend_call_self_ret.
      * cbn [app]. rewrite n_pending_ret. rewrite (pendZ_res _ _ Hpc). unfold pendZ, is_idle. cbn [t_pc]. lia.
      * cbn [app cov res_cover res_taken]. rewrite Hf.
        eapply til_same; try eassumption; [|apply (k_til c I)|].
        -- intros C. eapply clean_cons. exact C.
        -- unfold acc_iv. cbn [t_acc app]. rewrite app_nil_r, map_rev. symmetry. apply Permutation_rev.
      * cbn [app]. rewrite (end_reported_ret _ _ _ _ _ _ Hsplit). cbn [is_end andb].
        intros H. apply orb_true_iff in H. destruct H as [H|H]; [|pose proof (k_end c I H); lia].
        destruct (N.eq_dec (q_n q) 0) as [Hz|Hz].
        -- rewrite (can_end_zero _ _ _ Hres Hz Hq) in H. discriminate.
        -- specialize (Hlen Hz). lia.
      * cbn [app]. rewrite (skip_returned_ret_other _ _ _ _ _ _ Hsplit Hnskip).
        intros H. pose proof (k_skip c I H). lia.
  - (* the pull delivers [s_c, s_c + cnt) *)
    destruct (frontier_got (c_sh c) q b' rs cnt Hq PS Hw) as (Hf0 & Hf1 & Hlt).
    apply pull_spec_got in PS. destruct PS as (-> & -> & Hc1 & Hcn & Hcl & Hshort).
    set (b := s_c (c_sh c)) in *.
    unfold deliver. destruct (q_ctx q) as [|l crash] eqn:Ctx.
    + (* directly *)
      specialize (Hacc eq_refl).
      destruct (deliver_top_known (c_pool c t) q b cnt Hlt Hc1 Hq) as (r & d & -> & Hne & Hnp & took & Htk & Hcov).
      { intros v Hv. destruct Hq as [_ Hm]. rewrite Hv in Hm. lia. }
      cbn [ret_ev]. apply kinv_commit; try assumption.
      * repeat constructor.
      * unfold call_ok, is_idle. cbn [set_pc t_pc app]. apply pend_call_self_ret.
      * cbn [app]. rewrite n_pending_ret. rewrite (pendZ_res _ _ Hpc). unfold pendZ, is_idle. cbn [set_pc t_pc]. lia.
      * cbn [app cov]. rewrite Hf1, Hcov, clean_ret, Hnp. cbn [negb andb].
        apply til_move with (delta := (if took =? 0 then [] else [(b, took)]) ++ [(b + took, cnt - took)]); [assumption| |].
        -- unfold acc_iv. cbn [set_pc t_acc]. rewrite Hacc. cbn [map]. rewrite !app_nil_r. apply Permutation_refl.
        -- apply tiling_extend_split; [assumption|]. fold (hist c). rewrite <- Hf0. apply (k_til c I).
      * cbn [app]. rewrite (end_reported_ret _ _ _ _ _ _ Hsplit). rewrite Hne. cbn [andb orb].
        intros H. pose proof (k_end c I H). lia.
      * cbn [app]. rewrite (skip_returned_ret_other _ _ _ _ _ _ Hsplit Hnskip).
        intros H. pose proof (k_skip c I H). lia.
    + (* inside a loop *)
      unfold deliver_loop.
      destruct (loop_invoke_cases l crash (total_cnt (t_acc (c_pool c t))) b cnt Hlt Hc1) as (inv & pan & -> & Hinv).
      destruct pan as [used|].
      * (* the closure panics: the loop returns *)
        destruct Hinv as (Hu1 & Hu2 & Hinv).
        cbn [ret_ev]. apply kinv_commit; try assumption.
        -- repeat constructor.
        -- unfold kpc_ok. cbn [t_pc t_acc]. reflexivity.
        -- unfold call_ok, is_idle. cbn [t_pc app]. apply pend_call_self_ret.
        -- cbn [app]. rewrite n_pending_ret. rewrite (pendZ_res _ _ Hpc). unfold pendZ, is_idle. cbn [t_pc]. lia.
        -- cbn [app cov res_cover res_taken]. rewrite Hf1, clean_ret. cbn [is_panic negb andb].
           apply til_move with (delta := [(b, used)]); [assumption| |].
           ++ unfold acc_iv. cbn [t_acc app]. rewrite app_nil_r, rev_app_distr, rev_involutive, map_app, Hinv.
              rewrite map_rev. rewrite <- Permutation_rev. apply Permutation_app_comm.
           ++ apply tiling_jump with (n := b + used); [lia|].
              cbn [app]. apply tiling_extend. fold (hist c). rewrite <- Hf0.
              eapply tiling_unclean. apply (k_til c I).
        -- cbn [app]. rewrite (end_reported_ret _ _ _ _ _ _ Hsplit). cbn [is_end andb orb].
           intros H. pose proof (k_end c I H). lia.
        -- cbn [app]. rewrite (skip_returned_ret_other _ _ _ _ _ _ Hsplit Hnskip).
           intros H. pose proof (k_skip c I H). lia.
      * (* the loop goes on *)
        cbn [ret_ev]. apply kinv_commit; try assumption.
        -- constructor.
        -- unfold kpc_ok. cbn [t_pc t_acc]. split; [assumption|]. rewrite Ctx. discriminate.
        -- unfold call_ok, is_idle. cbn [t_pc app]. exists o, older. split; [assumption|].
           eapply call_res_buf; [|exact Hres]. reflexivity.
        -- cbn [app]. rewrite (pendZ_res _ _ Hpc). unfold pendZ, is_idle. cbn [t_pc]. lia.
        -- cbn [app]. rewrite Hf1.
           change (cov e (c_trace c)) with ([] ++ cov e (c_trace c)).
           apply til_move with (delta := [(b, cnt)]); [assumption| |].
           ++ unfold acc_iv. cbn [t_acc app]. rewrite map_app, map_rev.
              destruct inv as [|i0 [|]]; try discriminate Hinv. cbn [map rev app] in *. assert (run_iv e i0 = (b, cnt)) as -> by congruence.
              apply Permutation_refl.
           ++ cbn [app]. apply tiling_extend. fold (hist c). rewrite <- Hf0. apply (k_til c I).
        -- cbn [app]. intros H. pose proof (k_end c I H). lia.
        -- cbn [app]. intros H. pose proof (k_skip c I H). lia.
Qed.

(** ** skip_to_end and the length queries *)

Lemma call_res_skip ts o : call_res e ts o = CGo PSkip -> o = Skip.
Proof.
  unfold call_res. destruct o; try discriminate; try reflexivity.
  - destruct (e_kind e); discriminate.
  - destruct (c =? 0); discriminate.
  - destruct (t_buf ts); discriminate.
  - destruct (c =? 0); [discriminate|]. destruct (c =? 1); discriminate.
Qed.

Lemma call_res_len ts o hm : call_res e ts o = CGo (PLen hm) -> o <> Skip.
Proof. intros E ->. discriminate E. Qed.

(** a step that returns a result delivering nothing, with the counter moved to [v] *)
Lemma kinv_ret_plain c t r d v l :
  KInv c -> In t L ->
  is_idle (c_pool c t) = false -> t_acc (c_pool c t) = [] ->
  res_cover e r = [] -> is_end r = false -> is_panic r = false ->
  (forall o older, pend_call t (c_trace c) = Some (o, older) ->
     (o <> Skip /\ v = s_c (c_sh c)) \/ (o = Skip /\ e_len e <= v)) ->
  KInv (commit c t (with_c (c_sh c) v) (set_pc (c_pool c t) PIdle) l [ERet t r d]).
Proof.
  intros I Hin Hni Hacc Hcov Hne Hnp Hctx.
  destruct (k_wf c I t) as (Hok & Hops & Hbuf).
  pose proof (k_call c I t) as Hc. unfold call_ok in Hc. rewrite Hni in Hc.
  destruct Hc as (o & older & Hpend & Hres).
  pose proof (pend_split _ _ _ Hpend) as Hsplit.
  specialize (Hctx o older Hpend).
  apply kinv_commit; try assumption.
  - repeat constructor.
  - unfold call_ok, is_idle. cbn [set_pc t_pc app]. apply pend_call_self_ret.
  - cbn [app]. rewrite n_pending_ret. unfold pendZ. rewrite Hni. unfold is_idle. cbn [set_pc t_pc]. lia.
  - cbn [app cov]. rewrite Hcov, clean_ret, Hnp. cbn [negb andb].
    destruct Hctx as [[Hns ->]|(-> & Hv1)].
    + replace (with_c (c_sh c) (s_c (c_sh c))) with (c_sh c) by (destruct (c_sh c); reflexivity).
      change (cov e (c_trace c)) with ([] ++ cov e (c_trace c)).
      apply til_same with (cl := clean (c_trace c)); try assumption; [auto|apply (k_til c I)|].
      unfold acc_iv. cbn [set_pc t_acc app]. rewrite Hacc. apply Permutation_refl.
    + assert (Hcl : clean (c_trace c) = false).
      { unfold clean. rewrite (has_skip_pend _ _ _ Hpend). reflexivity. }
      rewrite Hcl. apply til_move with (delta := []); [assumption| |].
      * unfold acc_iv. cbn [set_pc t_acc app]. rewrite Hacc. apply Permutation_refl.
      * cbn [app]. fold (hist c). apply tiling_jump with (n := frontier (c_sh c)).
        -- unfold frontier, with_c. cbn [s_c]. lia.
        -- rewrite <- Hcl. apply (k_til c I).
  - cbn [app]. rewrite (end_reported_ret _ _ _ _ _ _ Hsplit). rewrite Hne. cbn [andb orb with_c s_c].
    intros H. pose proof (k_end c I H). destruct Hctx as [[_ ->]|(_ & Hv1)]; lia.
  - cbn [app skip_returned with_c s_c]. rewrite Hsplit.
    destruct Hctx as [[Hns ->]|(-> & Hv1)].
    + destruct o; try (apply (k_skip c I)). contradiction Hns; reflexivity.
    + intros _. exact Hv1.
Qed.

Lemma kinv_skip c t :
  KInv c -> In t L -> t_pc (c_pool c t) = PSkip ->
  s_c (c_sh c) + e_len e < W ->
  KInv (step e c t).
Proof.
  intros I Hin Hpc Hw.
  destruct (k_wf c I t) as (Hok & _ & _). unfold kpc_ok in Hok. rewrite Hpc in Hok.
  assert (Hni : is_idle (c_pool c t) = false) by (unfold is_idle; now rewrite Hpc).
  assert (Hctx : forall v, e_len e <= v ->
            forall o older, pend_call t (c_trace c) = Some (o, older) ->
     (o <> Skip /\ v = s_c (c_sh c)) \/ (o = Skip /\ e_len e <= v)).
  { intros v Hv1 o older Hp. right.
    pose proof (k_call c I t) as Hc. unfold call_ok in Hc. rewrite Hni in Hc.
    destruct Hc as (o' & older' & Hp' & Hres). rewrite Hp in Hp'. injection Hp' as <- <-.
    rewrite Hpc in Hres. split; [eapply call_res_skip; eassumption|assumption]. }
  unfold step. rewrite Hpc.
  pose proof not_iter as Hni'. destruct He as [Hlen _].
  remember (e_kind e) as kd eqn:K. destruct kd; try (contradiction Hni'; reflexivity).
  - apply kinv_ret_plain; try assumption; try reflexivity. apply Hctx; lia.
  - rewrite (k_fetch_n_spec e (e_len e) (s_c (c_sh c)) He Hlen).
    replace (N.min (e_len e) (e_len e)) with (e_len e) by lia. rewrite wadd_nowrap by assumption.
    destruct (pull_spec e (e_len e) (s_c (c_sh c))) as [|b' rs cnt];
      (apply kinv_ret_plain; try assumption; try reflexivity; apply Hctx; lia).
  - rewrite (k_fetch_n_spec e (e_len e) (s_c (c_sh c)) He Hlen).
    replace (N.min (e_len e) (e_len e)) with (e_len e) by lia. rewrite wadd_nowrap by assumption.
    destruct (pull_spec e (e_len e) (s_c (c_sh c))) as [|b' rs cnt];
      (apply kinv_ret_plain; try assumption; try reflexivity; apply Hctx; lia).
  - apply kinv_ret_plain; try assumption; try reflexivity. apply Hctx; lia.
Qed.

Lemma kinv_skip_store c t :
  KInv c -> In t L -> t_pc (c_pool c t) = PSkip ->
  e_kind e = KSlice \/ e_kind e = KRange ->
  KInv (step e c t).
Proof.
  intros I Hin Hpc Hkk.
  destruct (k_wf c I t) as (Hok & _ & _). unfold kpc_ok in Hok. rewrite Hpc in Hok.
  assert (Hni : is_idle (c_pool c t) = false) by (unfold is_idle; now rewrite Hpc).
  assert (Hgoal : KInv (commit c t (with_c (c_sh c) (e_len e)) (set_pc (c_pool c t) PIdle)
                          (LAtom t SC AStore (e_len e) 0) [ERet t RUnit []])).
  { apply kinv_ret_plain; try assumption; try reflexivity.
    intros o older Hp. right.
    pose proof (k_call c I t) as Hc. unfold call_ok in Hc. rewrite Hni in Hc.
    destruct Hc as (o' & older' & Hp' & Hres). rewrite Hp in Hp'. injection Hp' as <- <-.
    rewrite Hpc in Hres. split; [eapply call_res_skip; eassumption|lia]. }
  unfold step. rewrite Hpc. destruct Hkk as [K|K]; rewrite K; exact Hgoal.
Qed.

Lemma kinv_len c t hm :
  KInv c -> In t L -> t_pc (c_pool c t) = PLen hm -> KInv (step e c t).
Proof.
  intros I Hin Hpc.
  destruct (k_wf c I t) as (Hok & _ & _). unfold kpc_ok in Hok. rewrite Hpc in Hok.
  assert (Hni : is_idle (c_pool c t) = false) by (unfold is_idle; now rewrite Hpc).
  unfold step. rewrite Hpc.
  pose proof not_iter as Hni'.
  assert (Hgoal : KInv (commit c t (c_sh c) (set_pc (c_pool c t) PIdle) (LAtom t SC ALoad 0 (s_c (c_sh c)))
                          [ERet t (len_res hm (Some (k_len e (s_c (c_sh c))))) []])).
  { replace (c_sh c) with (with_c (c_sh c) (s_c (c_sh c))) at 1 by (destruct (c_sh c); reflexivity).
    apply kinv_ret_plain; try assumption.
    - destruct hm; reflexivity.
    - destruct hm; reflexivity.
    - destruct hm; reflexivity.
    - intros o older Hp. left.
      pose proof (k_call c I t) as Hc. unfold call_ok in Hc. rewrite Hni in Hc.
      destruct Hc as (o' & older' & Hp' & Hres). rewrite Hp in Hp'. injection Hp' as <- <-.
      rewrite Hpc in Hres. split; [eapply call_res_len; eassumption|reflexivity]. }
  remember (e_kind e) as kd eqn:K. destruct kd; try (contradiction Hni'; reflexivity); exact Hgoal.
Qed.

(** ** every step preserves the invariant *)

Definition known_pc (p : pc) : bool :=
  match p with PIdle | PRes _ | PSkip | PLen _ => true | _ => false end.

(** the step of thread [t] does not wrap the position counter around *)
Definition step_nowrap (c : cfg) (t : tid) : Prop :=
  match t_pc (c_pool c t) with
  | PRes q => s_c (c_sh c) + k_incr e q < W
  | PSkip => match e_kind e with KVec | KArray => s_c (c_sh c) + e_len e < W | _ => True end
  | _ => True
  end.

Lemma kinv_step c t : KInv c -> In t L -> step_nowrap c t -> KInv (step e c t).
Proof.
  intros I Hin Hw. unfold step_nowrap in Hw.
  destruct (t_pc (c_pool c t)) as [|q|q b|q b|q b got|q b got|q b got|q b got| |hm|hm] eqn:Hpc;
    try (destruct (k_wf c I t) as (Hok & _ & _); unfold kpc_ok in Hok; rewrite Hpc in Hok; contradiction).
  - destruct (t_todo (c_pool c t)) as [|o rest] eqn:Htodo.
    + rewrite step_idle_nil by assumption. exact I.
    + rewrite (step_idle_call c t o rest) by assumption. apply kinv_call; assumption.
  - apply kinv_pull with q; assumption.
  - destruct (N.lt_ge_cases (s_c (c_sh c) + e_len e) W) as [Hlt|Hge].
    + apply kinv_skip; assumption.
    + (* the slice and the range store the length: no addition *)
      pose proof not_iter as Hni'. destruct He as [Hlen _].
      assert (e_kind e = KSlice \/ e_kind e = KRange) as Hkk.
      { destruct (e_kind e); try lia; auto. contradiction Hni'; reflexivity. }
      clear Hw. apply kinv_skip_store; assumption.
  - apply kinv_len with hm; assumption.
Qed.

(** ** the labels of a run: the no-wrap hypothesis of a run implies that of each of its steps *)

Lemma finish_labels c t sh ts l q pr : c_labels (finish e c t sh ts l q pr) = l :: c_labels c.
Proof. unfold finish. destruct (deliver e ts q pr) as [ts' o]. reflexivity. Qed.

Lemma step_labels c t :
  KInv c -> nowrap (c_labels (step e c t)) -> nowrap (c_labels c) /\ step_nowrap c t.
Proof.
  intros I. unfold step_nowrap.
  destruct (t_pc (c_pool c t)) as [|q|q b|q b|q b got|q b got|q b got|q b got| |hm|hm] eqn:Hpc;
    try (destruct (k_wf c I t) as (Hok & _ & _); unfold kpc_ok in Hok; rewrite Hpc in Hok; contradiction).
  - destruct (t_todo (c_pool c t)) as [|o rest] eqn:Htodo.
    + rewrite step_idle_nil by assumption. auto.
    + rewrite (step_idle_call c t o rest) by assumption. unfold call.
      destruct (call_res e (c_pool c t) o); cbn [commit c_labels]; intros H; inversion H; auto.
  - rewrite (step_res c t q Hpc), finish_labels. intros H. inversion H as [|? ? H1 H2]; subst. split; assumption.
  - unfold step. rewrite Hpc. pose proof not_iter as Hni'.
    remember (e_kind e) as kd eqn:K. destruct kd; try (contradiction Hni'; reflexivity).
    + cbn [commit c_labels]. intros H; inversion H; auto.
    + destruct (k_fetch_n e (e_len e) (s_c (c_sh c))) as [[|]|]; cbn [commit c_labels];
        intros H; inversion H as [|? ? H1 H2]; subst; cbn [label_nowrap] in H1; (split; [assumption|lia]).
    + destruct (k_fetch_n e (e_len e) (s_c (c_sh c))) as [[|]|]; cbn [commit c_labels];
        intros H; inversion H as [|? ? H1 H2]; subst; cbn [label_nowrap] in H1; (split; [assumption|lia]).
    + cbn [commit c_labels]. intros H; inversion H; auto.
  - unfold step. rewrite Hpc. pose proof not_iter as Hni'.
    remember (e_kind e) as kd eqn:K. destruct kd; try (contradiction Hni'; reflexivity);
      cbn [commit c_labels]; intros H; inversion H; auto.
Qed.

(** labels only grow, whatever the state *)
Lemma step_labels_suffix c t : nowrap (c_labels (step e c t)) -> nowrap (c_labels c).
Proof.
  assert (forall c' l evs sh ts, nowrap (c_labels (commit c' t sh ts l evs)) -> nowrap (c_labels c')) as Hcm.
  { intros c' l evs sh ts H. cbn [commit c_labels] in H. inversion H; assumption. }
  assert (forall c' sh ts l q pr, nowrap (c_labels (finish e c' t sh ts l q pr)) -> nowrap (c_labels c')) as Hfin.
  { intros c' sh ts l q pr. rewrite finish_labels. intros H. inversion H; assumption. }
  unfold step.
  destruct (t_pc (c_pool c t)) as [|q|q b|q b|q b got|q b got|q b got|q b got| |hm|hm].
  - destruct (t_todo (c_pool c t)); [auto|]. unfold call. destruct (call_res e (c_pool c t) o); apply Hcm.
  - destruct (e_kind e); first [apply Hfin|apply Hcm].
  - destruct (s_f (c_sh c)); first [apply Hfin|apply Hcm].
  - destruct (b =? s_y (c_sh c)); [apply Hcm|]. destruct (b <? s_y (c_sh c)); first [apply Hfin|apply Hcm].
  - destruct (crashes_now e (c_sh c)); [apply Hcm|].
    destruct (q_mode q), (src_next e (c_sh c)); try apply Hcm;
      try (destruct (N.of_nat (length (n :: got)) =? q_n q); apply Hcm);
      try (destruct (N.of_nat (length (n0 :: got)) =? q_n q); apply Hcm);
      destruct got; apply Hcm.
  - destruct (q_mode q); first [apply Hfin|apply Hcm].
  - destruct (q_mode q); try apply Hfin.
    + destruct (s_y (c_sh c) =? b); [destruct (rev got)|]; apply Hfin.
    + destruct (s_y (c_sh c) =? b); [destruct (rev got)|]; apply Hfin.
  - destruct (q_ctx q), (q_mode q), (e_kind e), (t_buf (c_pool c t)); try apply Hcm;
      destruct (write_slots (bf_slots b0) (rev got)); apply Hcm.
  - destruct (e_kind e); try apply Hcm;
      destruct (k_fetch_n e (e_len e) (s_c (c_sh c))) as [[|]|]; apply Hcm.
  - destruct (e_kind e); try apply Hcm. destruct (s_f (c_sh c)); [apply Hcm|]. destruct (e_hint e); apply Hcm.
  - apply Hcm.
Qed.

(** ** the initial state, and every state a schedule leads to *)

Lemma kinv_init progs :
  (forall t, Forall wf_op (progs t)) -> KInv (init progs).
Proof.
  intros Hp. split; cbn [init c_pool c_trace c_sh init_ts].
  - intros t. unfold kpc_ok. cbn [init_ts t_pc t_acc t_todo t_buf wf_buf]. auto.
  - intros t _. reflexivity.
  - intros t. unfold call_ok, is_idle. cbn [t_pc pend_call]. reflexivity.
  - cbn [n_pending]. symmetry. clear. induction L as [|a l IH]; cbn [sumZ]; [reflexivity|]. rewrite IH. reflexivity.
  - unfold hist, accs, frontier. cbn [init c_trace c_pool c_sh cov app s_c].
    rewrite gather_nil by reflexivity. replace (N.min 0 (e_len e)) with 0 by lia. apply tiling_empty.
  - discriminate.
  - discriminate.
Qed.

Lemma exec_snoc c sched t : exec e c (sched ++ [t]) = step e (exec e c sched) t.
Proof. unfold exec. rewrite fold_left_app. reflexivity. Qed.

Theorem kinv_exec progs sched :
  (forall t, Forall wf_op (progs t)) ->
  Forall (fun t => In t L) sched ->
  nowrap (c_labels (exec e (init progs) sched)) ->
  KInv (exec e (init progs) sched).
Proof.
  intros Hp. induction sched as [|t sched IH] using rev_ind; intros Hs Hw.
  - apply kinv_init. exact Hp.
  - rewrite exec_snoc in *. apply Forall_app in Hs. destruct Hs as [Hs Ht]. inversion Ht as [|? ? Hin _]; subst.
    (* the invariant of the state before is needed to read the labels of this step: a small detour *)
    assert (forall c, KInv c -> nowrap (c_labels (step e c t)) -> KInv (step e c t)) as Hstep.
    { intros c I Hn. destruct (step_labels c t I Hn) as [_ Hsw]. apply kinv_step; assumption. }
    assert (Hprev : nowrap (c_labels (exec e (init progs) sched)) -> KInv (exec e (init progs) sched)) by (intros; apply IH; assumption).
    (* labels only grow: whatever the state before, its labels are a suffix of the labels after *)
    assert (Hsuf : nowrap (c_labels (exec e (init progs) sched))).
    { apply (step_labels_suffix (exec e (init progs) sched) t). exact Hw. }
    apply Hstep; [apply Hprev; exact Hsuf|exact Hw].
Qed.

End Known.
