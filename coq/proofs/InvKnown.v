(** * The known-size kinds (slice, vector, array, range): the inductive invariant of the machine.

    Every pull of these kinds is one step: the [fetch_add] on the position counter together with the
    local computation that follows it.  The invariant says that the intervals delivered so far --
    those in the trace and those a running [for_each]/[fold] loop has handed to its closure -- tile
    the prefix [0, min counter len) of the source. *)
From Coq Require Import Lia ZArith Permutation.
From OCI Require Import Machine Checkers.
From OCI.proofs Require Import Base Trace ArithOk.
Open Scope N_scope.

Definition wf_op (o : op) : Prop :=
  match o with Chunk n _ => n < W | BufNew c => c < W | Loop _ c _ => c < W | _ => True end.

Definition wf_buf (ob : option bufst) : Prop :=
  match ob with Some bf => 0 < bf_c bf /\ bf_c bf < W | None => True end.

Definition is_idle (ts : tstate) : bool := match t_pc ts with PIdle => true | _ => false end.
Definition pendZ (ts : tstate) : Z := if is_idle ts then 0%Z else 1%Z.

(** the atomic read-modify-writes of a run do not wrap the counters around: the hypothesis
    "cumulative requested count below the largest usize" of the properties, stated on the run *)
Definition label_nowrap (l : label) : Prop :=
  match l with LAtom _ _ AAdd n old _ => old + n < W | _ => True end.
Definition nowrap (ls : list label) : Prop := Forall label_nowrap ls.

Lemma call_res_buf e ts ts' o : t_buf ts = t_buf ts' ->
  forall p, call_res e ts o = CGo p -> call_res e ts' o = CGo p.
Proof.
  intros Hb p. unfold call_res. destruct o; try (intros H; exact H).
  - destruct (e_kind e); try (intros H; exact H). destruct (n =? 0); [discriminate|intros H; exact H].
  - destruct (c =? 0); discriminate.
  - rewrite <- Hb. destruct (t_buf ts); [intros H; exact H|discriminate].
  - discriminate.
  - destruct (c =? 0); [discriminate|]. destruct (c =? 1); intros H; exact H.
Qed.

Lemma has_skip_pend t tr older : pend_call t tr = Some (Skip, older) -> has_skip tr = true.
Proof.
  induction tr as [|ev tr IH]; cbn [pend_call]; [discriminate|].
  destruct ev as [u o|u r d|f r d]; cbn [has_skip].
  - destruct (Nat.eqb u t).
    + intros E. injection E as -> _. reflexivity.
    + intros E. destruct o; try (apply IH; exact E). reflexivity.
  - destruct (Nat.eqb u t); [discriminate|]. exact IH.
  - exact IH.
Qed.

Section Known.

Variable e : env.
Hypothesis He : wf_env e.
Hypothesis Hk : is_known (e_kind e) = true.
Hypothesis Hown : e_owning e = match e_kind e with KVec | KArray => true | _ => false end.
Variable L : list tid.
Hypothesis NDL : NoDup L.

Definition frontier (sh : shared) : N := N.min (s_c sh) (e_len e).
Definition acc_iv (ts : tstate) : list iv := map (run_iv e) (t_acc ts).
Definition accs (pool : tid -> tstate) : list iv := gather (fun t => acc_iv (pool t)) L.
Definition hist (c : cfg) : list iv := cov e (c_trace c) ++ accs (c_pool c).

(** the ledger of the consuming kinds: what was moved to callers and what the machinery destroyed *)
Definition led (c : cfg) : list iv :=
  (taken_all e (c_trace c) ++ dropped_all (c_trace c)) ++ accs (c_pool c).

(** the delivered intervals are a gap-free prefix, and it reaches the counter while the counter is inside the source *)
Definition gap_ok (sh : shared) (h : list iv) : Prop :=
  iv_total h = iv_maxhi h /\ (s_c sh < e_len e -> iv_total h = s_c sh).

Definition kpc_ok (ts : tstate) : Prop :=
  match t_pc ts with
  | PIdle | PSkip | PLen _ => t_acc ts = []
  | PRes q => wf_req q /\ (q_ctx q = CTop -> t_acc ts = [])
  | _ => False
  end.

Definition call_ok (tr : list event) (t : tid) (ts : tstate) : Prop :=
  if is_idle ts then pend_call t tr = None
  else exists o older, pend_call t tr = Some (o, older) /\ call_res e ts o = CGo (t_pc ts).

Definition shape_ok (l : loopk) (x : run) : bool :=
  match l, r_idx x with LEnum, Some _ => true | LEnum, None => false | _, None => true | _, Some _ => false end.

(** the per-event parts of the checkers C02--C06, C11, C12 *)
Definition ev_all : tid -> res -> list drops -> list event -> bool :=
  fun t r d tl => ev_C02 e t r d tl && ev_C03 e t r d tl && ev_C04 e t r d tl && ev_C05 e t r d tl
                  && ev_C06 e t r d tl && ev_C11 e t r d tl && ev_C12 t r d tl.

(** what a running loop has handed to its closure so far *)
Definition acc_ok (tr : list event) (t : tid) (ts : tstate) : Prop :=
  match pend_call t tr with
  | Some (o, older) =>
      forallb (run_idx_ok e) (t_acc ts) = true
      /\ (forall l c cr, o = Loop l c cr -> forallb (shape_ok l) (t_acc ts) = true)
      /\ increasing (rev (acc_iv ts)) = true
      /\ all_above (iv_maxhi (cov e older)) (acc_iv ts) = true
      /\ (stopped older = true -> t_acc ts = [])
  | None => True
  end.

Record KInv (c : cfg) : Prop := {
  k_wf   : forall t, kpc_ok (c_pool c t) /\ Forall wf_op (t_todo (c_pool c t)) /\ wf_buf (t_buf (c_pool c t));
  k_out  : forall t, ~ In t L -> is_idle (c_pool c t) = true;
  k_call : forall t, call_ok (c_trace c) t (c_pool c t);
  k_pend : n_pending (c_trace c) = sumZ (fun t => pendZ (c_pool c t)) L;
  k_til  : tiling (clean (c_trace c)) (frontier (c_sh c)) (hist c);
  k_end  : end_reported (c_trace c) = true -> e_len e <= s_c (c_sh c);
  k_skip : skip_returned (c_trace c) = true -> e_len e <= s_c (c_sh c);
  k_buf  : forall t bf, t_buf (c_pool c t) = Some bf -> buf_size t (c_trace c) = Some (bf_c bf);
  k_acc  : forall t, acc_ok (c_trace c) t (c_pool c t);
  k_rep  : forall m, min_reported (c_trace c) = Some m -> e_len e - frontier (c_sh c) <= m;
  k_sk   : has_skip (c_trace c) = true ->
           skip_returned (c_trace c) = true \/ exists u, In u L /\ t_pc (c_pool c u) = PSkip;
  k_evs  : all_rets ev_all (c_trace c) = true;
  k_gap  : has_panic (c_trace c) = false -> gap_ok (c_sh c) (hist c);
  k_led  : if e_owning e then tiling true (frontier (c_sh c)) (led c) else dropped_all (c_trace c) = [];
  k_slots : forall t bf, t_buf (c_pool c t) = Some bf -> bf_slots bf = [];
  k_nofin : has_final (c_trace c) = false
}.

(** events of thread [t] *)
Definition ev_of (t : tid) (ev : event) : Prop :=
  match ev with ECall u _ | ERet u _ _ => u = t | EFinal _ _ _ => False end.

Lemma pend_call_others t u evs tr : u <> t -> Forall (ev_of t) evs -> pend_call u (evs ++ tr) = pend_call u tr.
Proof.
  intros Hn. induction evs as [|ev evs IH]; intros F; [reflexivity|].
  inversion F as [|? ? H1 H2]; subst. cbn [app].
  destruct ev as [v o|v r d|f r d]; cbn [ev_of] in H1; subst.
  - rewrite pend_call_other_call by (intros ->; contradiction Hn; reflexivity). apply IH; assumption.
  - rewrite pend_call_other_ret by (intros ->; contradiction Hn; reflexivity). apply IH; assumption.
  - contradiction.
Qed.

Lemma tiling_weaken cl cl' n h : (cl' = true -> cl = true) -> tiling cl n h -> tiling cl' n h.
Proof. intros Hc [H1 H2 H3 H4]. split; auto. Qed.

Lemma accs_upd pool t ts' : In t L ->
  exists rest, Permutation (accs pool) (acc_iv (pool t) ++ rest) /\
               Permutation (accs (upd pool t ts')) (acc_iv ts' ++ rest).
Proof.
  intros Hin. unfold accs.
  destruct (gather_upd (fun u => acc_iv (pool u)) L t (acc_iv ts') NDL Hin) as (rest & P1 & P2).
  exists rest. split; [exact P1|].
  rewrite <- P2. erewrite gather_ext; [apply Permutation_refl|].
  intros u _. unfold upd. destruct (Nat.eqb u t); reflexivity.
Qed.

(** the new history is, up to permutation, the old one plus the intervals [delta] acquired in this step *)
Lemma til_move cl n pool t (tr : list event) newcov ts' delta :
  In t L ->
  Permutation (newcov ++ acc_iv ts') (delta ++ acc_iv (pool t)) ->
  tiling cl n (delta ++ (cov e tr ++ accs pool)) ->
  tiling cl n ((newcov ++ cov e tr) ++ accs (upd pool t ts')).
Proof.
  intros Hin P T. destruct (accs_upd pool t ts' Hin) as (rest & P1 & P2).
  eapply tiling_perm; [|exact T].
  rewrite P1, P2.
  (* delta ++ cov ++ acc_t ++ rest  ~  (newcov ++ cov) ++ acc' ++ rest *)
  transitivity ((delta ++ acc_iv (pool t)) ++ cov e tr ++ rest).
  - rewrite <- !app_assoc. apply Permutation_app_head.
    rewrite !app_assoc. apply Permutation_app_tail. apply Permutation_app_comm.
  - rewrite <- P. rewrite <- !app_assoc. apply Permutation_app_head.
    rewrite !app_assoc. apply Permutation_app_tail. apply Permutation_app_comm.
Qed.

(** the multiset of delivered intervals after a step: [delta] is what the step acquired *)
Lemma move_perm pool t ts' (base base' newp delta : list iv) :
  In t L ->
  Permutation (newp ++ acc_iv ts') (delta ++ acc_iv (pool t)) ->
  Permutation base' (newp ++ base) ->
  Permutation (base' ++ accs (upd pool t ts')) (delta ++ (base ++ accs pool)).
Proof.
  intros Hin P Pb. destruct (accs_upd pool t ts' Hin) as (rest & P1 & P2).
  rewrite P1, P2, Pb.
  transitivity ((newp ++ acc_iv ts') ++ base ++ rest).
  - rewrite <- !app_assoc. apply Permutation_app_head.
    rewrite !app_assoc. apply Permutation_app_tail. apply Permutation_app_comm.
  - rewrite P. rewrite <- !app_assoc. apply Permutation_app_head.
    rewrite !app_assoc. apply Permutation_app_tail. apply Permutation_app_comm.
Qed.

Lemma gap_perm sh h h' : Permutation h h' -> gap_ok sh h -> gap_ok sh h'.
Proof.
  intros P [H1 H2]. unfold gap_ok. rewrite <- (iv_total_perm _ _ P), <- (iv_maxhi_perm _ _ P). auto.
Qed.

Lemma gap_keep sh sh' h :
  (s_c sh' < e_len e -> s_c sh < e_len e /\ s_c sh' = s_c sh) -> gap_ok sh h -> gap_ok sh' h.
Proof. intros Hs [H1 H2]. split; [assumption|]. intros H. destruct (Hs H) as [Ha Hb]. rewrite Hb. auto. Qed.

Lemma gap_extend sh sh' h delta cnt :
  gap_ok sh h -> s_c sh < e_len e -> 1 <= cnt ->
  iv_total delta = cnt -> iv_maxhi delta = s_c sh + cnt ->
  (s_c sh' < e_len e -> s_c sh' = s_c sh + cnt) ->
  gap_ok sh' (delta ++ h).
Proof.
  intros [H1 H2] Hlt Hc Ht Hm Hs. specialize (H2 Hlt). unfold gap_ok.
  rewrite iv_total_app, iv_maxhi_app, Ht, Hm. split; [lia|]. intros H. rewrite (Hs H). lia.
Qed.

Lemma iv_maxhi_split b took cnt :
  took <= cnt -> 1 <= cnt -> iv_maxhi ((if took =? 0 then [] else [(b, took)]) ++ [(b + took, cnt - took)]) = b + cnt.
Proof.
  intros H1 H2. destruct (N.eqb_spec took 0) as [->|Hz]; cbn [app iv_maxhi snd fst iv_hi]; unfold iv_hi; cbn [fst snd].
  - destruct (N.eqb_spec (cnt - 0) 0); lia.
  - destruct (N.eqb_spec took 0); [contradiction|]. destruct (N.eqb_spec (cnt - took) 0); lia.
Qed.

Lemma has_panic_app_false evs tr : has_panic (evs ++ tr) = false -> has_panic tr = false.
Proof.
  induction evs as [|ev evs IH]; [auto|]. cbn [app]. intros H.
  destruct (has_panic (evs ++ tr)) eqn:E; [rewrite (has_panic_cons ev _ E) in H; discriminate|]. apply IH. reflexivity.
Qed.

Lemma not_iter : e_kind e <> KIter.
Proof. intros E. rewrite E in Hk. discriminate Hk. Qed.

Lemma kind_cases : e_kind e = KSlice \/ e_kind e = KVec \/ e_kind e = KArray \/ e_kind e = KRange.
Proof. pose proof not_iter as H. destruct (e_kind e); auto. contradiction H; reflexivity. Qed.

(** ** how a commit changes the invariant's ingredients *)

Lemma buf_size_others t u evs tr : u <> t -> Forall (ev_of t) evs -> buf_size u (evs ++ tr) = buf_size u tr.
Proof.
  intros Hn. induction evs as [|ev evs IH]; intros F; [reflexivity|].
  inversion F as [|? ? H1 H2]; subst. cbn [app].
  destruct ev as [v o|v r d|f r d]; cbn [ev_of] in H1; subst.
  - rewrite buf_size_other_call by (intros ->; contradiction Hn; reflexivity). apply IH; assumption.
  - rewrite buf_size_ret. apply IH; assumption.
  - contradiction.
Qed.

Lemma kinv_commit c t sh' ts' l evs :
  KInv c -> In t L ->
  Forall (ev_of t) evs ->
  kpc_ok ts' -> Forall wf_op (t_todo ts') -> wf_buf (t_buf ts') ->
  call_ok (evs ++ c_trace c) t ts' ->
  n_pending (evs ++ c_trace c) = (n_pending (c_trace c) - pendZ (c_pool c t) + pendZ ts')%Z ->
  tiling (clean (evs ++ c_trace c)) (frontier sh') (cov e (evs ++ c_trace c) ++ accs (upd (c_pool c) t ts')) ->
  (end_reported (evs ++ c_trace c) = true -> e_len e <= s_c sh') ->
  (skip_returned (evs ++ c_trace c) = true -> e_len e <= s_c sh') ->
  (forall bf, t_buf ts' = Some bf -> buf_size t (evs ++ c_trace c) = Some (bf_c bf)) ->
  acc_ok (evs ++ c_trace c) t ts' ->
  (forall m, min_reported (evs ++ c_trace c) = Some m -> e_len e - frontier sh' <= m) ->
  (has_skip (evs ++ c_trace c) = true ->
     skip_returned (evs ++ c_trace c) = true \/ exists u, In u L /\ t_pc (upd (c_pool c) t ts' u) = PSkip) ->
  all_rets ev_all (evs ++ c_trace c) = true ->
  (has_panic (evs ++ c_trace c) = false ->
     gap_ok sh' (cov e (evs ++ c_trace c) ++ accs (upd (c_pool c) t ts'))) ->
  (if e_owning e
   then tiling true (frontier sh') ((taken_all e (evs ++ c_trace c) ++ dropped_all (evs ++ c_trace c)) ++ accs (upd (c_pool c) t ts'))
   else dropped_all (evs ++ c_trace c) = []) ->
  (forall bf, t_buf ts' = Some bf -> bf_slots bf = []) ->
  KInv (commit c t sh' ts' l evs).
Proof.
  intros I Hin Fev Hpc Htodo Hbuf Hcall Hpend Htil Hend Hskip Hbs Hacc Hrep Hsk Hevs Hgap Hled Hslots.
  split; cbn [commit c_pool c_trace c_sh].
  - intros u. destruct (Nat.eq_dec u t) as [->|Hn].
    + rewrite upd_same. auto.
    + rewrite upd_other by assumption. apply (k_wf c I).
  - intros u Hu. assert (u <> t) by (intros ->; contradiction).
    rewrite upd_other by assumption. apply (k_out c I); assumption.
  - intros u. destruct (Nat.eq_dec u t) as [->|Hn].
    + rewrite upd_same. assumption.
    + rewrite upd_other by assumption. unfold call_ok.
      rewrite (pend_call_others t u evs _ Hn Fev). apply (k_call c I).
  - rewrite Hpend, (k_pend c I).
    transitivity (sumZ (upd (fun u => pendZ (c_pool c u)) t (pendZ ts')) L).
    + rewrite sumZ_upd by assumption. lia.
    + apply sumZ_ext. intros u _. unfold upd. destruct (Nat.eqb u t); reflexivity.
  - exact Htil.
  - exact Hend.
  - exact Hskip.
  - intros u bf. destruct (Nat.eq_dec u t) as [->|Hn].
    + rewrite upd_same. apply Hbs.
    + rewrite upd_other by assumption. rewrite (buf_size_others t u evs _ Hn Fev). apply (k_buf c I).
  - intros u. destruct (Nat.eq_dec u t) as [->|Hn].
    + rewrite upd_same. assumption.
    + rewrite upd_other by assumption. unfold acc_ok.
      rewrite (pend_call_others t u evs _ Hn Fev). apply (k_acc c I).
  - exact Hrep.
  - exact Hsk.
  - exact Hevs.
  - exact Hgap.
  - exact Hled.
  - intros u bf. destruct (Nat.eq_dec u t) as [->|Hn].
    + rewrite upd_same. apply Hslots.
    + rewrite upd_other by assumption. apply (k_slots c I).
  - pose proof (k_nofin c I) as Hn. clear - Fev Hn. induction evs as [|ev evs IH]; [exact Hn|].
    inversion Fev as [|? ? H1 H2]; subst. cbn [app]. destruct ev; cbn [ev_of] in H1; try contradiction; cbn [has_final]; auto.
Qed.

(** the skip bookkeeping is kept by a step of a thread that neither starts nor finishes a skip *)
Lemma sk_keep c t ts' evs :
  KInv c -> t_pc (c_pool c t) <> PSkip ->
  has_skip (evs ++ c_trace c) = has_skip (c_trace c) ->
  (skip_returned (c_trace c) = true -> skip_returned (evs ++ c_trace c) = true) ->
  has_skip (evs ++ c_trace c) = true ->
  skip_returned (evs ++ c_trace c) = true \/ exists u, In u L /\ t_pc (upd (c_pool c) t ts' u) = PSkip.
Proof.
  intros I Hnp Hhs Hsr H. rewrite Hhs in H. destruct (k_sk c I H) as [Hr|(u & Hu & Hpu)].
  - left. auto.
  - right. exists u. split; [assumption|]. rewrite upd_other; [assumption|]. intros ->. contradiction.
Qed.

(** ** the equations of [step] for the known-size kinds *)

Lemma step_idle_nil c t : t_pc (c_pool c t) = PIdle -> t_todo (c_pool c t) = [] -> step e c t = c.
Proof. intros H1 H2. unfold step. rewrite H1, H2. reflexivity. Qed.

Lemma step_idle_call c t o rest : t_pc (c_pool c t) = PIdle -> t_todo (c_pool c t) = o :: rest ->
  step e c t = call e c t (c_pool c t) o rest.
Proof. intros H1 H2. unfold step. rewrite H1, H2. reflexivity. Qed.

Lemma step_res c t q : t_pc (c_pool c t) = PRes q ->
  step e c t = finish e c t (with_c (c_sh c) (wadd (s_c (c_sh c)) (k_incr e q))) (c_pool c t)
                      (LAtom t SC AAdd (k_incr e q) (s_c (c_sh c)) (o_res q)) q (k_pull e q (s_c (c_sh c))).
Proof. intros H1. unfold step. rewrite H1. destruct (e_kind e); try reflexivity. discriminate Hk. Qed.

Lemma wadd_nowrap a b : a + b < W -> wadd a b = a + b.
Proof using. intros H. unfold wadd. apply N.mod_small. exact H. Qed.

(** ** the gap-free prefix and the ledger across a step *)

Lemma same_gap c t ts' sh' tr' newcov :
  KInv c -> In t L ->
  cov e tr' = newcov ++ cov e (c_trace c) ->
  Permutation (newcov ++ acc_iv ts') (acc_iv (c_pool c t)) ->
  (s_c sh' < e_len e -> s_c (c_sh c) < e_len e /\ s_c sh' = s_c (c_sh c)) ->
  has_panic (c_trace c) = false ->
  gap_ok sh' (cov e tr' ++ accs (upd (c_pool c) t ts')).
Proof.
  intros I Hin Ec P Hs Hnp. rewrite Ec.
  eapply gap_perm; [apply Permutation_sym; apply (move_perm (c_pool c) t ts' (cov e (c_trace c)) _ newcov []);
                    [assumption|exact P|apply Permutation_refl]|].
  cbn [app]. eapply gap_keep; [exact Hs|]. apply (k_gap c I Hnp).
Qed.

Lemma ext_gap c t ts' sh' tr' newcov delta cnt :
  KInv c -> In t L ->
  cov e tr' = newcov ++ cov e (c_trace c) ->
  Permutation (newcov ++ acc_iv ts') (delta ++ acc_iv (c_pool c t)) ->
  s_c (c_sh c) < e_len e -> 1 <= cnt ->
  iv_total delta = cnt -> iv_maxhi delta = s_c (c_sh c) + cnt ->
  (s_c sh' < e_len e -> s_c sh' = s_c (c_sh c) + cnt) ->
  has_panic (c_trace c) = false ->
  gap_ok sh' (cov e tr' ++ accs (upd (c_pool c) t ts')).
Proof.
  intros I Hin Ec P Hlt Hc Ht Hm Hs Hnp. rewrite Ec.
  eapply gap_perm; [apply Permutation_sym; apply (move_perm (c_pool c) t ts' (cov e (c_trace c)) _ newcov delta);
                    [assumption|exact P|apply Permutation_refl]|].
  eapply gap_extend; try eassumption. apply (k_gap c I Hnp).
Qed.

Lemma led_base_perm (tk dr newtk newdr : list iv) :
  Permutation ((newtk ++ tk) ++ (newdr ++ dr)) ((newtk ++ newdr) ++ (tk ++ dr)).
Proof.
  rewrite <- !app_assoc. apply Permutation_app_head. rewrite !app_assoc. apply Permutation_app_tail.
  apply Permutation_app_comm.
Qed.

Lemma same_led c t ts' sh' tr' newtk newdr :
  KInv c -> In t L ->
  taken_all e tr' = newtk ++ taken_all e (c_trace c) -> dropped_all tr' = newdr ++ dropped_all (c_trace c) ->
  Permutation ((newtk ++ newdr) ++ acc_iv ts') (acc_iv (c_pool c t)) ->
  (e_owning e = false -> newdr = []) ->
  (e_owning e = true -> frontier sh' = frontier (c_sh c)) ->
  if e_owning e
  then tiling true (frontier sh') ((taken_all e tr' ++ dropped_all tr') ++ accs (upd (c_pool c) t ts'))
  else dropped_all tr' = [].
Proof.
  intros I Hin Et Ed P Hno Hf. pose proof (k_led c I) as Hl.
  destruct (e_owning e).
  - rewrite (Hf eq_refl), Et, Ed.
    eapply tiling_perm; [apply Permutation_sym;
       apply (move_perm (c_pool c) t ts' (taken_all e (c_trace c) ++ dropped_all (c_trace c)) _ (newtk ++ newdr) []);
       [assumption|exact P|apply led_base_perm]|].
    exact Hl.
  - rewrite Ed, (Hno eq_refl), Hl. reflexivity.
Qed.

Lemma ext_led c t ts' sh' tr' newtk newdr took cnt :
  KInv c -> In t L ->
  taken_all e tr' = newtk ++ taken_all e (c_trace c) -> dropped_all tr' = newdr ++ dropped_all (c_trace c) ->
  (e_owning e = true ->
   Permutation ((newtk ++ newdr) ++ acc_iv ts') (led_split (frontier (c_sh c)) took cnt ++ acc_iv (c_pool c t))) ->
  took <= cnt -> frontier sh' = frontier (c_sh c) + cnt ->
  (e_owning e = false -> newdr = []) ->
  if e_owning e
  then tiling true (frontier sh') ((taken_all e tr' ++ dropped_all tr') ++ accs (upd (c_pool c) t ts'))
  else dropped_all tr' = [].
Proof.
  intros I Hin Et Ed P Htk Hf Hno. pose proof (k_led c I) as Hl.
  destruct (e_owning e).
  - specialize (P eq_refl). rewrite Hf, Et, Ed.
    eapply tiling_perm; [apply Permutation_sym;
       apply (move_perm (c_pool c) t ts' (taken_all e (c_trace c) ++ dropped_all (c_trace c)) _ (newtk ++ newdr)
                        (led_split (frontier (c_sh c)) took cnt));
       [assumption|exact P|apply led_base_perm]|].
    apply tiling_extend_led; assumption.
  - rewrite Ed, (Hno eq_refl), Hl. reflexivity.
Qed.

Lemma not_owning_drops_run v cnt : e_owning e = false -> drops_of_run e v cnt = [].
Proof using. intros H. unfold drops_of_run. rewrite H. reflexivity. Qed.

Lemma not_owning_drops_after k rs : e_owning e = false -> drops_after e k rs = [].
Proof using.
  intros H. revert k. induction rs as [|r rs IH]; intros k; cbn [drops_after]; [reflexivity|].
  destruct (r_cnt r <=? k); [apply IH|]. rewrite not_owning_drops_run by assumption. cbn [app]. apply IH.
Qed.

Lemma not_owning_stale ts : e_owning e = false -> stale_drops e ts = [].
Proof using. intros H. unfold stale_drops, drops_of_list. rewrite H. destruct (t_buf ts); reflexivity. Qed.

(** ** the per-event checks *)

Lemma ev_all_intro t r d tl o older :
  split_call t tl = Some (o, older) ->
  forallb (run_idx_ok e) (res_runs r) = true ->
  match o with
  | Chunk n k => (n =? 0) || chunk_ok e n k r
  | BufNext k => match buf_size t older with Some c => chunk_ok e c k r | None => true end
  | _ => true
  end = true ->
  increasing (res_cover e r) = true ->
  all_above (iv_maxhi (cov_of e t tl)) (res_cover e r) = true ->
  all_above (iv_maxhi (cov e older)) (res_cover e r) = true ->
  (end_reported older = true ->
     (if can_end o then is_end r || is_panic r else true) && delivers_nothing e r && no_positive r = true) ->
  (skip_returned older = true ->
     (if can_end o then is_end r || is_panic r else true) && delivers_nothing e r
     && match o, r with
        | HasMore, RMore HNo => true
        | HasMore, _ => false
        | TryLen, RLen (Some n) => n =? 0
        | TryLen, _ => false
        | _, _ => true
        end = true) ->
  ev_C11 e t r d tl = true ->
  match o with Loop l c cr => if c =? 0 then is_chunkzero r else loop_shape_ok l r && loop_panic_ok cr r | _ => true end = true ->
  ev_all t r d tl = true.
Proof.
  intros Hs H2 H3 H4a H4b H4c H5 H6 H11 H12.
  unfold ev_all, ev_C02, ev_C03, ev_C04, ev_C05, ev_C06, ev_C12. rewrite Hs, H2, H4a, H4b, H4c, H11. cbn [andb].
  assert (match o with
          | Chunk n k => (n =? 0) || chunk_ok e n k r
          | BufNext k => match buf_size t older with Some c => chunk_ok e c k r | None => true end
          | _ => true end = true) as X3 by exact H3.
  replace (match o with
           | Chunk n k => (n =? 0) || chunk_ok e n k r
           | BufNext k => match buf_size t older with Some c => chunk_ok e c k r | None => true end
           | _ => true end) with true by (symmetry; exact X3).
  cbn [andb].
  destruct (end_reported older); [rewrite (H5 eq_refl)|]; cbn [andb];
  (destruct (skip_returned older); [rewrite (H6 eq_refl)|]); cbn [andb]; exact H12.
Qed.

(** the second half of C11's per-event check, for results that are not length answers *)
Lemma ev_C11_nolen t r d tl o older :
  split_call t tl = Some (o, older) -> len_answer r = None ->
  (zero_reported older = true -> delivers_nothing e r = true) ->
  ev_C11 e t r d tl = true.
Proof.
  intros Hs Hl Hz. unfold ev_C11. rewrite (yes_zero_nolen r Hl), Hs, Hl. cbn [negb andb].
  unfold zero_reported in Hz. destruct (min_reported older) as [[|]|]; auto.
Qed.

(** results that deliver nothing and are not length answers *)
Definition null_pair (o : op) (r : res) : bool :=
  match o, r with
  | (Next _ | Chunk _ _ | BufNext _), RNone => true
  | BufNext _, RPanic _ [] => true
  | BufNew c, RPanic _ [] => c =? 0
  | BufNew c, RUnit => true
  | (BufDrop | Skip), RUnit => true
  | Loop _ c _, RPanic k [] => (c =? 0) && is_chunkzero (RPanic k [])
  | Loop _ c _, RLoop [] => negb (c =? 0)
  | _, _ => false
  end.

Lemma ev_all_null t r d tl o older :
  split_call t tl = Some (o, older) -> null_pair o r = true -> ev_all t r d tl = true.
Proof.
  intros Hs Hp.
  assert (res_cover e r = [] /\ res_runs r = [] /\ len_answer r = None /\ no_positive r = true) as (Hc & Hr & Hl & Hn).
  { destruct o, r; cbn [null_pair] in Hp; try discriminate; try (destruct rs; try discriminate); repeat split; reflexivity. }
  apply ev_all_intro with o older; try assumption.
  - rewrite Hr. reflexivity.
  - destruct o, r; cbn [null_pair] in Hp; try discriminate; try reflexivity;
      cbn [chunk_ok]; rewrite ?orb_true_r; try reflexivity; destruct (buf_size t older); reflexivity.
  - rewrite Hc. reflexivity.
  - rewrite Hc. reflexivity.
  - rewrite Hc. reflexivity.
  - intros _. unfold delivers_nothing. rewrite Hc, Hn. cbn [iv_total N.eqb andb].
    destruct o, r; cbn [null_pair] in Hp; try discriminate; try (destruct rs; try discriminate);
      cbn [can_end is_pull is_end is_panic negb orb andb]; try reflexivity; destruct (n =? 0); reflexivity.
  - intros _. unfold delivers_nothing. rewrite Hc. cbn [iv_total N.eqb andb].
    destruct o, r; cbn [null_pair] in Hp; try discriminate; try (destruct rs; try discriminate);
      cbn [can_end is_pull is_end is_panic negb orb andb]; try reflexivity; destruct (n =? 0); reflexivity.
  - apply ev_C11_nolen with o older; try assumption. intros _. unfold delivers_nothing. rewrite Hc. reflexivity.
  - destruct o, r; cbn [null_pair] in Hp; try discriminate; try reflexivity;
      try (destruct rs; try discriminate).
    + destruct (c =? 0); [discriminate Hp|reflexivity].
    + destruct (c =? 0); [exact Hp|discriminate Hp].
Qed.

(** ** the call point *)

Lemma acc_idle c t : KInv c -> is_idle (c_pool c t) = true -> t_acc (c_pool c t) = [].
Proof.
  intros I H. destruct (k_wf c I t) as (Hpc & _ & _). unfold kpc_ok in Hpc. unfold is_idle in H.
  destruct (t_pc (c_pool c t)); try discriminate. exact Hpc.
Qed.

Lemma til_same cl cl' c t ts' (newcov : list iv) :
  KInv c -> In t L -> (cl' = true -> cl = true) ->
  tiling cl (frontier (c_sh c)) (hist c) ->
  Permutation (newcov ++ acc_iv ts') (acc_iv (c_pool c t)) ->
  tiling cl' (frontier (c_sh c)) ((newcov ++ cov e (c_trace c)) ++ accs (upd (c_pool c) t ts')).
Proof.
  intros I Hin Hcl T P. apply til_move with (delta := []); [assumption|exact P|].
  cbn [app]. eapply tiling_weaken; eassumption.
Qed.

Lemma op_eq_skip o : o = Skip \/ o <> Skip.
Proof. destruct o; try (right; discriminate). left; reflexivity. Qed.

Lemma null_facts o r : null_pair o r = true ->
  res_cover e r = [] /\ len_answer r = None /\ is_end r || is_panic r || negb (can_end o) = true.
Proof.
  intros Hp. destruct o, r; cbn [null_pair] in Hp; try discriminate; try (destruct rs; try discriminate);
    repeat split; try reflexivity.
Qed.

Definition I0 : True := I.

Lemma kinv_call c t o rest :
  KInv c -> In t L -> t_pc (c_pool c t) = PIdle -> t_todo (c_pool c t) = o :: rest ->
  KInv (call e c t (c_pool c t) o rest).
Proof.
  intros I Hin Hpc Htodo.
  destruct (k_wf c I t) as (Hok & Hops & Hbuf). rewrite Htodo in Hops.
  inversion Hops as [|? ? Hwo Hrest]; subst.
  assert (Hidle : is_idle (c_pool c t) = true) by (unfold is_idle; now rewrite Hpc).
  assert (Hacc : t_acc (c_pool c t) = []) by (apply acc_idle; assumption).
  unfold call. destruct (call_res e (c_pool c t) o) as [p|b r d] eqn:E.
  - (* the operation starts *)
    assert (Hp : kpc_ok {| t_pc := p; t_todo := rest; t_buf := t_buf (c_pool c t); t_acc := [] |}
                 /\ is_idle {| t_pc := p; t_todo := rest; t_buf := t_buf (c_pool c t); t_acc := [] |} = false).
    { unfold kpc_ok, is_idle, call_res in *. cbn [t_pc t_acc].
      destruct o; cbn [wf_op] in Hwo.
      - injection E as <-. repeat split; cbn; try reflexivity; lia.
      - destruct (e_kind e); try discriminate Hk; injection E as <-; repeat split; cbn; try reflexivity; try assumption.
      - destruct (c0 =? 0); discriminate.
      - destruct (t_buf (c_pool c t)) as [bf|]; [|discriminate]. injection E as <-. cbn [wf_buf] in Hbuf.
        repeat split; cbn; try reflexivity; lia.
      - discriminate.
      - destruct (N.eqb_spec c0 0); [discriminate|]. destruct (N.eqb_spec c0 1).
        + injection E as <-. repeat split; cbn; try reflexivity; try lia.
        + injection E as <-. repeat split; cbn; try reflexivity; try lia.
      - injection E as <-. split; reflexivity.
      - injection E as <-. split; reflexivity.
      - injection E as <-. split; reflexivity. }
    destruct Hp as [Hp Hni].
    apply kinv_commit; try assumption.
    + repeat constructor.
    + unfold call_ok. rewrite Hni. exists o, (c_trace c). split.
      * cbn [app]. apply pend_call_self_call.
      * cbn [t_pc]. eapply call_res_buf; [|exact E]. reflexivity.
    + cbn [app]. rewrite n_pending_call. unfold pendZ. rewrite Hidle, Hni. lia.
    + cbn [app cov]. change (cov e (c_trace c)) with ([] ++ cov e (c_trace c)).
      eapply til_same; try eassumption; [|apply (k_til c I)|].
      * intros C. eapply clean_cons. exact C.
      * unfold acc_iv. cbn [t_acc]. rewrite Hacc. apply Permutation_refl.
    + cbn [app end_reported]. apply (k_end c I).
    + cbn [app skip_returned]. apply (k_skip c I).
    + cbn [t_buf app]. intros bf Hbf. rewrite buf_size_call_nonbuf; [apply (k_buf c I); assumption|].
      intros c0 ->. unfold call_res in E. destruct (c0 =? 0); discriminate.
    + unfold acc_ok. cbn [app]. rewrite pend_call_self_call. unfold acc_iv. cbn [t_acc map rev forallb increasing all_above].
      repeat split; auto.
    + cbn [app min_reported]. apply (k_rep c I).
    + cbn [app]. destruct (op_eq_skip o) as [->|Hns].
      * intros _. right. exists t. split; [assumption|]. rewrite upd_same. cbn [t_pc].
        unfold call_res in E. injection E as <-. reflexivity.
      * apply (sk_keep c t _ [ECall t o]); try assumption.
        -- rewrite Hpc. discriminate.
        -- cbn [app has_skip]. destruct o; try reflexivity. contradiction Hns; reflexivity.
        -- cbn [app skip_returned]. auto.
    + cbn [app]. rewrite all_rets_call. apply (k_evs c I).
    + intros Hnp. apply (same_gap c t _ _ _ []); try assumption; try reflexivity; auto;
        try exact (has_panic_app_false [ECall t o] _ Hnp).
      unfold acc_iv. cbn [t_acc map app]. rewrite Hacc. apply Permutation_refl.
    + apply (same_led c t _ _ _ [] []); try assumption; try reflexivity.
      unfold acc_iv. cbn [t_acc map app]. rewrite Hacc. apply Permutation_refl.
    + cbn [t_buf]. apply (k_slots c I).
  - (* the operation returns at once *)
    assert (Hnull : null_pair o r = true).
    { unfold call_res in E. destruct o; cbn [wf_op] in Hwo; try discriminate.
      - destruct (e_kind e); try discriminate Hk; discriminate.
      - destruct (N.eqb_spec c0 0).
        + injection E as <- <- <-. cbn [null_pair]. apply N.eqb_eq; assumption.
        + injection E as <- <- <-. reflexivity.
      - destruct (t_buf (c_pool c t)); [discriminate|]. injection E as <- <- <-. reflexivity.
      - injection E as <- <- <-. reflexivity.
      - destruct (N.eqb_spec c0 0); [|destruct (c0 =? 1); discriminate].
        injection E as <- <- <-. cbn [null_pair is_chunkzero]. rewrite andb_true_r. apply N.eqb_eq; assumption. }
    assert (Hr : wf_buf b /\ res_cover e r = [] /\ is_end r = false /\ o <> Skip).
    { unfold call_res in E. destruct o; cbn [wf_op] in Hwo; try discriminate.
      - destruct (e_kind e); try discriminate Hk; discriminate.
      - destruct (N.eqb_spec c0 0).
        + injection E as <- <- <-. repeat split; try assumption; discriminate.
        + injection E as <- <- <-. repeat split; cbn; try lia; discriminate.
      - destruct (t_buf (c_pool c t)); [discriminate|]. injection E as <- <- <-. repeat split; discriminate.
      - injection E as <- <- <-. repeat split; discriminate.
      - destruct (N.eqb_spec c0 0); [|destruct (c0 =? 1); discriminate].
        injection E as <- <- <-. repeat split; try assumption; discriminate. }
    destruct Hr as (Hb & Hcov & Hne & Hns).
    assert (Hstale : stale_drops e (c_pool c t) = []).
    { unfold stale_drops. destruct (t_buf (c_pool c t)) as [bf|] eqn:Ebf; [|reflexivity].
      rewrite (k_slots c I t bf Ebf). unfold drops_of_list. destruct (e_owning e); reflexivity. }
    assert (Hr2 : res_taken e r = [] /\ d = [] /\ (forall bf, b = Some bf -> bf_slots bf = [])).
    { unfold call_res in E. destruct o; try discriminate.
      - destruct (e_kind e); try discriminate Hk; discriminate.
      - destruct (N.eqb_spec c0 0).
        + injection E as <- <- <-. repeat split; try reflexivity. apply (k_slots c I).
        + injection E as <- <- <-. rewrite Hstale. repeat split; try reflexivity. intros bf Hbf. injection Hbf as <-.
          cbn [bf_slots]. unfold empty_slots. destruct kind_cases as [K|[K|[K|K]]]; rewrite K; reflexivity.
      - destruct (t_buf (c_pool c t)); [discriminate|]. injection E as <- <- <-. repeat split; try reflexivity. discriminate.
      - injection E as <- <- <-. rewrite Hstale. repeat split; try reflexivity. discriminate.
      - destruct (N.eqb_spec c0 0); [|destruct (c0 =? 1); discriminate].
        injection E as <- <- <-. repeat split; try reflexivity. apply (k_slots c I). }
    destruct Hr2 as (Htk & Hd & Hsl).
    apply kinv_commit; try assumption.
    + repeat constructor.
    + reflexivity.
    + unfold call_ok, is_idle. cbn [t_pc app]. apply pend_call_self_ret.
    + cbn [app]. rewrite n_pending_ret, n_pending_call. unfold pendZ, is_idle. cbn [t_pc]. rewrite Hpc. lia.
    + cbn [app cov]. rewrite Hcov.
      eapply til_same; try eassumption; [|apply (k_til c I)|].
      * intros C. eapply clean_cons, clean_cons. exact C.
      * unfold acc_iv. cbn [t_acc]. rewrite Hacc. apply Permutation_refl.
    + cbn [app end_reported]. rewrite Hne. cbn [andb orb]. apply (k_end c I).
    + cbn [app skip_returned split_call]. rewrite Nat.eqb_refl.
      destruct o; try (apply (k_skip c I)). contradiction Hns; reflexivity.
    + cbn [app]. intros bf Hbf. rewrite buf_size_ret. unfold call_res in E.
      destruct o; try discriminate.
      * destruct (e_kind e); try discriminate Hk; discriminate.
      * cbn [buf_size]. rewrite Nat.eqb_refl. destruct (N.eqb_spec c0 0).
        -- injection E as <- <- <-. cbn [andb negb]. apply (k_buf c I). assumption.
        -- injection E as <- <- <-. cbn [andb negb]. injection Hbf as <-. reflexivity.
      * destruct (t_buf (c_pool c t)); [discriminate|]. injection E as <- <- <-. discriminate.
      * injection E as <- <- <-. discriminate.
      * destruct (N.eqb_spec c0 0); [|destruct (c0 =? 1); discriminate].
        injection E as <- <- <-. rewrite buf_size_call_nonbuf by discriminate. apply (k_buf c I). assumption.
    + unfold acc_ok. cbn [app]. rewrite pend_call_self_ret. exact I0.
    + cbn [app]. rewrite min_reported_ret_none by (apply (proj1 (proj2 (null_facts _ _ Hnull)))).
      cbn [min_reported]. apply (k_rep c I).
    + apply (sk_keep c t _ [ERet t r d; ECall t o]); try assumption.
      * rewrite Hpc. discriminate.
      * cbn [app has_skip]. destruct o; try reflexivity. contradiction Hns; reflexivity.
      * intros H. cbn [app]. apply skip_returned_cons, skip_returned_cons. exact H.
    + cbn [app]. rewrite all_rets_ret, all_rets_call, (k_evs c I), andb_true_r.
      apply ev_all_null with o (c_trace c); [|exact Hnull].
      cbn [split_call]. rewrite Nat.eqb_refl. reflexivity.
    + intros Hnp. apply (same_gap c t _ _ _ []); try assumption; auto;
        try exact (has_panic_app_false [ERet t r d; ECall t o] _ Hnp).
      * cbn [app cov]; rewrite Hcov; reflexivity.
      * unfold acc_iv. cbn [t_acc map app]. rewrite Hacc. apply Permutation_refl.
    + apply (same_led c t _ _ _ [] []); try assumption; try reflexivity.
      * cbn [app taken_all]. rewrite Htk. reflexivity.
      * cbn [app dropped_all]. rewrite Hd. reflexivity.
      * unfold acc_iv. cbn [t_acc map app]. rewrite Hacc. apply Permutation_refl.
Qed.

(** ** a pull: the fetch_add on the position counter and what follows it *)

Lemma run_iv_at b cnt oi : b < e_len e -> run_iv e (mk_run oi (val_of e b) cnt) = (b, cnt).
Proof using.
  clear Hk Hown. intros Hb. unfold run_iv, pos_of, val_of, mk_run. cbn [r_val r_cnt].
  destruct (e_kind e); try reflexivity. f_equal. lia.
Qed.

Lemma frontier_got sh q b' rs cnt :
  wf_req q -> pull_spec e (q_n q) (s_c sh) = PRGot b' rs cnt ->
  s_c sh + k_incr e q < W ->
  frontier sh = s_c sh /\ frontier (with_c sh (wadd (s_c sh) (k_incr e q))) = s_c sh + cnt /\ s_c sh < e_len e.
Proof.
  intros [Hn Hm] PS Hw. apply pull_spec_got in PS. destruct PS as (-> & -> & H1 & H2 & H3 & H4).
  rewrite wadd_nowrap by assumption.
  unfold frontier, with_c, k_incr in *. cbn [s_c].
  destruct (q_mode q); lia.
Qed.

Lemma frontier_end sh q :
  wf_req q -> pull_spec e (q_n q) (s_c sh) = PREnd ->
  s_c sh + k_incr e q < W ->
  frontier (with_c sh (wadd (s_c sh) (k_incr e q))) = frontier sh /\ (q_n q <> 0 -> e_len e <= s_c sh) /\
  (s_c (with_c sh (wadd (s_c sh) (k_incr e q))) < e_len e ->
     s_c sh < e_len e /\ s_c (with_c sh (wadd (s_c sh) (k_incr e q))) = s_c sh).
Proof.
  intros [Hn Hm] PS Hw. apply pull_spec_end in PS.
  rewrite wadd_nowrap by assumption.
  unfold frontier, with_c, k_incr in *. cbn [s_c].
  destruct (q_mode q); lia.
Qed.

(** a chunk of [cnt] elements of which the caller takes [took]: the part taken and the rest *)
Lemma cover_chunk b cnt took oi :
  b < e_len e -> took <= cnt ->
  map (run_iv e) (runs_take took [mk_run oi (val_of e b) cnt]) ++ [(b + took, cnt - took)]
  = (if took =? 0 then [] else [(b, took)]) ++ [(b + took, cnt - took)].
Proof using.
  intros Hb Ht. cbn [runs_take]. destruct (N.eqb_spec took 0) as [->|Hz]; [reflexivity|].
  cbn [mk_run r_cnt r_idx r_val]. destruct (N.leb_spec cnt took).
  - assert (took = cnt) as -> by lia. cbn [runs_take map app].
    rewrite run_iv_at by assumption. reflexivity.
  - cbn [map app]. rewrite run_iv_at by assumption. reflexivity.
Qed.

Lemma not_skip_call ts o q : call_res e ts o = CGo (PRes q) -> o <> Skip.
Proof. intros E ->. discriminate E. Qed.

Lemma can_end_zero ts o q : call_res e ts o = CGo (PRes q) -> q_n q = 0 -> wf_req q -> can_end o = false.
Proof.
  intros E Hz [_ Hm]. unfold call_res in E. destruct o; try discriminate.
  - injection E as <-. discriminate Hz.
  - destruct (e_kind e); try discriminate Hk; injection E as <-; cbn [q_n] in Hz; subst; reflexivity.
  - destruct (c =? 0); discriminate.
  - destruct (t_buf ts); [|discriminate]. injection E as <-. cbn [q_mode q_n] in *. lia.
  - destruct (N.eqb_spec c 0); [discriminate|]. destruct (c =? 1); injection E as <-; cbn [q_n] in Hz; lia.
Qed.

Lemma skip_returned_ret_other t r d tr o older :
  split_call t tr = Some (o, older) -> o <> Skip -> skip_returned (ERet t r d :: tr) = skip_returned tr.
Proof. intros E Hn. cbn [skip_returned]. rewrite E. destruct o; try reflexivity. contradiction Hn; reflexivity. Qed.

Lemma run_iv_strip r : run_iv e (strip_idx r) = run_iv e r.
Proof. reflexivity. Qed.

Lemma pendZ_res ts q : t_pc ts = PRes q -> pendZ ts = 1%Z.
Proof. intros H. unfold pendZ, is_idle. now rewrite H. Qed.

Lemma end_reported_ret t r d tr o older :
  split_call t tr = Some (o, older) ->
  end_reported (ERet t r d :: tr) = (is_end r && can_end o) || end_reported tr.
Proof. intros E. cbn [end_reported]. rewrite E. reflexivity. Qed.

Lemma stopped_len c : KInv c -> stopped (c_trace c) = true -> e_len e <= s_c (c_sh c).
Proof.
  intros I. unfold stopped. rewrite !orb_true_iff. intros [[H|H]|H].
  - apply (k_end c I H).
  - apply (k_skip c I H).
  - unfold zero_reported in H. destruct (min_reported (c_trace c)) as [[|]|] eqn:E; try discriminate.
    pose proof (k_rep c I 0 E). unfold frontier in *. lia.
Qed.

Lemma cov_below c : KInv c -> iv_maxhi (cov e (c_trace c)) <= frontier (c_sh c).
Proof.
  intros I. pose proof (tl_within _ _ _ (k_til c I)) as H. unfold hist in H.
  rewrite iv_within_app in H. apply andb_true_iff in H. destruct H as [H _]. apply iv_within_maxhi. exact H.
Qed.

Lemma acc_below c t : KInv c -> In t L -> iv_maxhi (acc_iv (c_pool c t)) <= frontier (c_sh c).
Proof.
  intros I Hin. pose proof (tl_within _ _ _ (k_til c I)) as H. unfold hist in H.
  rewrite iv_within_app in H. apply andb_true_iff in H. destruct H as [_ H].
  apply iv_within_maxhi. unfold iv_within in *. rewrite forallb_forall in *. intros a Ha. apply H.
  unfold accs. apply gather_in. exists t. split; assumption.
Qed.

Lemma top_ops ts o q : call_res e ts o = CGo (PRes q) -> q_ctx q = CTop ->
  null_pair o RNone = true /\ (forall l c cr, o <> Loop l c cr) /\ o <> HasMore /\ o <> TryLen /\
  match o with
  | Chunk n k => q_n q = n /\ q_mode q = MChunk k
  | BufNext k => exists bf, t_buf ts = Some bf /\ q_n q = bf_c bf /\ q_mode q = MBuf k
  | Next v => q_mode q = MSingle v
  | _ => False
  end.
Proof.
  unfold call_res. destruct o; try discriminate.
  - intros E C. injection E as <-. repeat split; try discriminate; reflexivity.
  - destruct (e_kind e); try discriminate Hk; intros E C; injection E as <-; repeat split; try discriminate; reflexivity.
  - destruct (c =? 0); discriminate.
  - destruct (t_buf ts) as [bf|]; [|discriminate]. intros E C. injection E as <-.
    repeat split; try discriminate. exists bf. repeat split; reflexivity.
  - destruct (c =? 0); [discriminate|]. destruct (c =? 1); intros E C; injection E as <-; discriminate C.
Qed.

Lemma loop_ops ts o q l crash : call_res e ts o = CGo (PRes q) -> q_ctx q = CLoop l crash ->
  exists c, o = Loop l c crash /\ c <> 0.
Proof.
  unfold call_res. destruct o; try discriminate.
  - intros E C. injection E as <-. discriminate C.
  - destruct (e_kind e); try discriminate Hk; intros E C; injection E as <-; discriminate C.
  - destruct (c =? 0); discriminate.
  - destruct (t_buf ts) as [bf|]; [|discriminate]. intros E C. injection E as <-. discriminate C.
  - destruct (N.eqb_spec c 0); [discriminate|]. destruct (c =? 1); intros E C; injection E as <-; cbn [q_ctx] in C;
      injection C as <- <-; exists c; (split; [reflexivity|assumption]).
Qed.

Lemma drops_after_one u oi b cnt :
  b < e_len e -> u <= cnt ->
  drops_iv (drops_after e u [mk_run oi (val_of e b) cnt])
  = if e_owning e then (if 0 <? cnt - u then [(b + u, cnt - u)] else []) else [].
Proof using.
  clear Hk Hown. intros Hb Hu. cbn [drops_after]. unfold mk_run. cbn [r_cnt r_val].
  destruct (N.leb_spec cnt u) as [H|H].
  - assert (cnt - u = 0) as -> by lia. destruct (e_owning e); reflexivity.
  - rewrite app_nil_r. unfold drops_of_run. destruct (e_owning e); [|reflexivity]. cbn [andb].
    destruct (N.ltb_spec 0 (cnt - u)); [|lia]. cbn [drops_iv map d_lo d_cnt]. f_equal. f_equal.
    unfold pos_of, val_of. destruct (e_kind e); lia.
Qed.

Lemma runs_take_one u oi v cnt : 1 <= u -> u <= cnt -> runs_take u [mk_run oi v cnt] = [mk_run oi v u].
Proof using.
  intros H1 H2. cbn [runs_take]. destruct (N.eqb_spec u 0); [lia|]. unfold mk_run. cbn [r_cnt r_idx r_val].
  destruct (N.leb_spec cnt u); [|reflexivity]. assert (u = cnt) as -> by lia. reflexivity.
Qed.

Lemma runs_take_map took oi b cnt :
  b < e_len e -> took <= cnt ->
  map (run_iv e) (runs_take took [mk_run oi (val_of e b) cnt]) = (if took =? 0 then [] else [(b, took)]).
Proof using.
  clear Hk Hown. intros Hb Ht. destruct (N.eqb_spec took 0) as [->|Hz]; [reflexivity|].
  rewrite runs_take_one by lia. cbn [map]. rewrite run_iv_at by assumption. reflexivity.
Qed.

Lemma chunk_ok_at n k b cnt :
  b < e_len e -> 1 <= cnt -> cnt <= n -> b + cnt <= e_len e -> (cnt < n -> b + cnt = e_len e) ->
  chunk_ok e n k (chunk_res b [mk_run (Some b) (val_of e b) cnt] cnt (N.min k cnt)) = true.
Proof using.
  intros Hb H1 H2 H3 H4. unfold chunk_res, chunk_ok.
  assert (1 <=? cnt = true) as -> by (apply N.leb_le; lia).
  assert (cnt <=? n = true) as -> by (apply N.leb_le; lia).
  rewrite N.eqb_refl. assert (cnt - N.min k cnt =? cnt - N.min k cnt = true) as -> by (apply N.eqb_refl).
  assert (b + cnt <=? e_len e = true) as -> by (apply N.leb_le; lia).
  assert ((cnt =? n) || (b + cnt =? e_len e) = true) as ->.
  { destruct (N.eqb_spec cnt n); [reflexivity|]. cbn [orb]. apply N.eqb_eq. apply H4. lia. }
  cbn [andb runs_take]. destruct (N.eqb_spec (N.min k cnt) 0) as [Hz|Hz]; [reflexivity|].
  unfold mk_run. cbn [r_cnt r_idx r_val]. destruct (N.leb_spec cnt (N.min k cnt)) as [Hle|Hle]; cbn [r_cnt r_idx r_val].
  - assert (cnt =? N.min k cnt = true) as -> by (apply N.eqb_eq; lia). rewrite !N.eqb_refl. reflexivity.
  - rewrite !N.eqb_refl. reflexivity.
Qed.

Lemma deliver_top_known ts q b cnt :
  b < e_len e -> 1 <= cnt -> wf_req q -> (forall v, q_mode q = MSingle v -> cnt = 1) ->
  cnt <= q_n q -> b + cnt <= e_len e -> (cnt < q_n q -> b + cnt = e_len e) ->
  exists r d, deliver_top e ts q b [mk_run (Some b) (val_of e b) cnt] cnt = (set_pc ts PIdle, (r, d))
    /\ is_end r = false /\ is_panic r = false /\ len_answer r = None
    /\ forallb (run_idx_ok e) (res_runs r) = true
    /\ (forall k, q_mode q = MChunk k \/ q_mode q = MBuf k -> chunk_ok e (q_n q) k r = true)
    /\ exists took, took <= cnt /\
         res_cover e r = (if took =? 0 then [] else [(b, took)]) ++ [(b + took, cnt - took)]
         /\ (e_owning e = false -> d = [])
         /\ (e_owning e = true -> res_taken e r ++ drops_iv d = led_split b took cnt).
Proof.
  intros Hb Hc Hq Hone Hcn Hcl Hsh. unfold deliver_top.
  destruct (q_mode q) as [v|k|k] eqn:M.
  - rewrite (Hone v eq_refl). eexists _, _. split; [reflexivity|].
    destruct (reports_idx v); cbn [map one_res is_end is_panic res_cover res_taken len_answer res_runs forallb];
      (split; [reflexivity|split; [reflexivity|split; [reflexivity|]]]);
      (split; [rewrite andb_true_r; try apply run_idx_ok_strip; apply run_idx_ok_at; [reflexivity|intros _; pose proof (Hone v eq_refl); lia]|]);
      (split; [intros k [X|X]; discriminate X|]); exists 0; (split; [lia|]);
      rewrite ?run_iv_strip, run_iv_at by assumption; unfold led_split; cbn [N.eqb N.ltb N.compare N.sub app drops_iv map];
      (split; [f_equal; f_equal; lia|]); (split; [reflexivity|]); intros _; f_equal; f_equal; lia.
  - eexists _, _. split; [reflexivity|]. unfold chunk_res at 1 2 3 4. cbn [is_end is_panic len_answer res_runs].
    split; [reflexivity|split; [reflexivity|split; [reflexivity|]]].
    split; [|split].
    + apply runs_take_idx_ok. apply idx_ok_one. intros _. exact Hcl.
    + intros k' [X|X]; [|discriminate X]. injection X as <-. apply chunk_ok_at; assumption.
    + exists (N.min k cnt). split; [lia|]. unfold chunk_res. cbn [res_cover res_taken]. split; [apply cover_chunk; [assumption|lia]|].
      split; [intros Ho; apply not_owning_drops_after; assumption|].
      intros Ho. rewrite drops_after_one by (assumption || lia). rewrite Ho. unfold led_split. f_equal.
      rewrite runs_take_map by (assumption || lia). reflexivity.
  - pose proof not_iter as Hni. remember (e_kind e) as kd eqn:K. destruct kd; try (contradiction Hni; reflexivity);
      (eexists _, _; split; [reflexivity|]; unfold chunk_res at 1 2 3 4; cbn [is_end is_panic len_answer res_runs];
       split; [reflexivity|split; [reflexivity|split; [reflexivity|]]];
       split; [|split];
       [ apply runs_take_idx_ok; apply idx_ok_one; intros _; exact Hcl
       | intros k' [X|X]; [discriminate X|]; injection X as <-; apply chunk_ok_at; assumption
       | exists (N.min k cnt); split; [lia|]; unfold chunk_res; cbn [res_cover res_taken]; split; [apply cover_chunk; [assumption|lia]|];
         split; [intros Ho; apply not_owning_drops_after; assumption|];
         intros Ho; rewrite drops_after_one by (assumption || lia); rewrite Ho; unfold led_split; f_equal;
         rewrite runs_take_map by (assumption || lia); reflexivity ]).
Qed.

Lemma loop_invoke_cases l crash done b cnt :
  b < e_len e -> 1 <= cnt -> b + cnt <= e_len e ->
  exists inv pan, loop_invoke l crash done [mk_run (Some b) (val_of e b) cnt] cnt = (inv, pan) /\
    forallb (run_idx_ok e) inv = true /\ forallb (shape_ok l) inv = true /\
    match pan with
    | None => map (run_iv e) inv = [(b, cnt)]
    | Some used => 1 <= used /\ used <= cnt /\ map (run_iv e) inv = [(b, used)]
    end.
Proof using.
  intros Hb Hc Hcl. unfold loop_invoke.
  set (shape := match l with LEnum => fun r => r | _ => strip_idx end).
  assert (Hshape : forall r, run_iv e (shape r) = run_iv e r) by (intros r; unfold shape; destruct l; reflexivity).
  assert (Hok : forall c', c' <= cnt -> run_idx_ok e (shape (mk_run (Some b) (val_of e b) c')) = true
                        /\ shape_ok l (shape (mk_run (Some b) (val_of e b) c')) = true).
  { intros c' Hc'. split.
    - assert (Hr : run_idx_ok e (mk_run (Some b) (val_of e b) c') = true) by (apply run_idx_ok_at; [reflexivity|intros _; lia]).
      unfold shape. destruct l; try exact Hr; apply run_idx_ok_strip; exact Hr.
    - unfold shape, shape_ok, strip_idx, mk_run. destruct l; reflexivity. }
  assert (Hone : forall c', c' <= cnt -> forallb (run_idx_ok e) (map shape [mk_run (Some b) (val_of e b) c']) = true
                         /\ forallb (shape_ok l) (map shape [mk_run (Some b) (val_of e b) c']) = true).
  { intros c' Hc'. cbn [map forallb]. destruct (Hok c' Hc') as [-> ->]. split; reflexivity. }
  destruct crash as [k|].
  - destruct (N.leb_spec done k) as [H1|H1]; cbn [andb].
    + destruct (N.ltb_spec k (done + cnt)) as [H2|H2].
      * eexists _, _. split; [reflexivity|].
        rewrite runs_take_one by lia.
        destruct (Hone (k - done + 1)) as [-> ->]; [lia|]. split; [reflexivity|split; [reflexivity|]]. split; [lia|]. split; [lia|].
        cbn [map]. rewrite Hshape, run_iv_at by assumption. reflexivity.
      * eexists _, _. split; [reflexivity|]. destruct (Hone cnt) as [-> ->]; [lia|]. split; [reflexivity|split; [reflexivity|]].
        cbn [map]. rewrite Hshape, run_iv_at by assumption. reflexivity.
    + eexists _, _. split; [reflexivity|]. destruct (Hone cnt) as [-> ->]; [lia|]. split; [reflexivity|split; [reflexivity|]].
      cbn [map]. rewrite Hshape, run_iv_at by assumption. reflexivity.
  - eexists _, _. split; [reflexivity|]. destruct (Hone cnt) as [-> ->]; [lia|]. split; [reflexivity|split; [reflexivity|]].
    cbn [map]. rewrite Hshape, run_iv_at by assumption. reflexivity.
Qed.

Lemma has_skip_ret t r d tr : has_skip (ERet t r d :: tr) = has_skip tr.
Proof. reflexivity. Qed.

Lemma forallb_rev {A} (f : A -> bool) l : forallb f (rev l) = forallb f l.
Proof.
  induction l as [|a l IH]; [reflexivity|]. cbn [rev forallb]. rewrite forallb_app, IH. cbn [forallb].
  rewrite andb_true_r. apply andb_comm.
Qed.

Lemma kinv_pull c t q :
  KInv c -> In t L -> t_pc (c_pool c t) = PRes q ->
  s_c (c_sh c) + k_incr e q < W ->
  KInv (step e c t).
Proof.
  intros I Hin Hpc Hw. rewrite (step_res c t q Hpc).
  destruct (k_wf c I t) as (Hok & Hops & Hbuf).
  unfold kpc_ok in Hok. rewrite Hpc in Hok. destruct Hok as [Hq Hacc].
  pose proof (k_call c I t) as Hc. unfold call_ok, is_idle in Hc. rewrite Hpc in Hc.
  destruct Hc as (o & older & Hpend & Hres).
  pose proof (pend_split _ _ _ Hpend) as Hsplit.
  pose proof (not_skip_call _ _ _ Hres) as Hnskip.
  pose proof (k_acc c I t) as Ha. unfold acc_ok in Ha. rewrite Hpend in Ha.
  destruct Ha as (Ha1 & Ha2 & Ha3 & Ha4 & Ha5).
  pose proof (pend_suffix _ _ _ _ Hpend) as Hsuf.
  assert (Hstop : stopped older = true -> e_len e <= s_c (c_sh c)).
  { intros H. apply (stopped_len c I). eapply stopped_suffix; eassumption. }
  assert (Hstop_e : end_reported older = true -> e_len e <= s_c (c_sh c)).
  { intros H. apply Hstop. unfold stopped. rewrite H. reflexivity. }
  assert (Hstop_s : skip_returned older = true -> e_len e <= s_c (c_sh c)).
  { intros H. apply Hstop. unfold stopped. rewrite H. now rewrite orb_true_r. }
  assert (Hstop_z : zero_reported older = true -> e_len e <= s_c (c_sh c)).
  { intros H. apply Hstop. unfold stopped. rewrite H. now rewrite !orb_true_r. }
  pose proof (cov_below c I) as Hcb.
  pose proof (acc_below c t I Hin) as Hab.
  assert (Hcof : iv_maxhi (cov_of e t (c_trace c)) <= frontier (c_sh c)).
  { pose proof (cov_of_maxhi e t (c_trace c)). lia. }
  assert (Hcold : iv_maxhi (cov e older) <= frontier (c_sh c)).
  { pose proof (cov_suffix_maxhi e _ _ Hsuf). lia. }
  assert (Hpcn : t_pc (c_pool c t) <> PSkip) by (rewrite Hpc; discriminate).
  rewrite (k_pull_spec e q _ He Hq).
  assert (Hmono : s_c (c_sh c) <= s_c (with_c (c_sh c) (wadd (s_c (c_sh c)) (k_incr e q)))).
  { rewrite wadd_nowrap by assumption. cbn [with_c s_c]. lia. }
  assert (Hfm : frontier (c_sh c) <= frontier (with_c (c_sh c) (wadd (s_c (c_sh c)) (k_incr e q)))).
  { unfold frontier. lia. }
  unfold finish.
  destruct (pull_spec e (q_n q) (s_c (c_sh c))) as [|b' rs cnt] eqn:PS.
  - (* the pull reports the end *)
    destruct (frontier_end (c_sh c) q Hq PS Hw) as (Hf & Hlen & Hcs).
    unfold deliver. destruct (q_ctx q) as [|l crash] eqn:Ctx.
    + (* directly *)
      destruct (top_ops _ _ _ Hres Ctx) as (Hnull & _).
      cbn [ret_ev]. apply kinv_commit; try assumption.
      * repeat constructor.
      * unfold kpc_ok. cbn [set_pc t_pc t_acc]. auto.
      * unfold call_ok, is_idle. cbn [set_pc t_pc app]. apply pend_call_self_ret.
      * cbn [app]. rewrite n_pending_ret. rewrite (pendZ_res _ _ Hpc). unfold pendZ, is_idle. cbn [set_pc t_pc]. lia.
      * cbn [app cov res_cover res_taken]. rewrite Hf.
        change (cov e (c_trace c)) with ([] ++ cov e (c_trace c)).
        eapply til_same; try eassumption; [|apply (k_til c I)|].
        -- intros C. eapply clean_cons. exact C.
        -- unfold acc_iv. cbn [set_pc t_acc]. apply Permutation_refl.
      * cbn [app]. rewrite (end_reported_ret _ _ _ _ _ _ Hsplit). cbn [is_end andb].
        intros H. apply orb_true_iff in H. destruct H as [H|H]; [|pose proof (k_end c I H); lia].
        destruct (N.eq_dec (q_n q) 0) as [Hz|Hz].
        -- rewrite (can_end_zero _ _ _ Hres Hz Hq) in H. discriminate.
        -- specialize (Hlen Hz). lia.
      * cbn [app]. rewrite (skip_returned_ret_other _ _ _ _ _ _ Hsplit Hnskip).
        intros H. pose proof (k_skip c I H). lia.
      * cbn [app set_pc t_buf]. intros bf Hbf. rewrite buf_size_ret. apply (k_buf c I). assumption.
      * unfold acc_ok. cbn [app]. rewrite pend_call_self_ret. exact I0.
      * cbn [app]. rewrite min_reported_ret_none by reflexivity. rewrite Hf. apply (k_rep c I).
      * apply (sk_keep c t _ [ERet t RNone []]); try assumption; [reflexivity|].
        intros H. cbn [app]. apply skip_returned_cons. exact H.
      * cbn [app]. rewrite all_rets_ret, (k_evs c I), andb_true_r.
        apply ev_all_null with o older; assumption.
      * intros Hnp. apply (same_gap c t _ _ _ []); try assumption; try reflexivity;
          try exact (has_panic_app_false [ERet t RNone []] _ Hnp).
      * apply (same_led c t _ _ _ [] []); try assumption; try reflexivity; auto.
      * cbn [set_pc t_buf]. apply (k_slots c I).
    + (* inside a loop: the loop returns *)
      destruct (loop_ops _ _ _ _ _ Hres Ctx) as (cc & -> & Hcc).
      cbn [ret_ev]. apply kinv_commit; try assumption.
      * repeat constructor.
      * unfold kpc_ok. cbn [t_pc t_acc]. reflexivity.
      * unfold call_ok, is_idle. cbn [t_pc app]. apply pend_call_self_ret.
      * cbn [app]. rewrite n_pending_ret. rewrite (pendZ_res _ _ Hpc). unfold pendZ, is_idle. cbn [t_pc]. lia.
      * cbn [app cov res_cover res_taken]. rewrite Hf.
        eapply til_same; try eassumption; [|apply (k_til c I)|].
        -- intros C. eapply clean_cons. exact C.
        -- unfold acc_iv. cbn [t_acc app]. rewrite app_nil_r, map_rev. symmetry. apply Permutation_rev.
      * cbn [app]. rewrite (end_reported_ret _ _ _ _ _ _ Hsplit). cbn [is_end andb].
        intros H. apply orb_true_iff in H. destruct H as [H|H]; [|pose proof (k_end c I H); lia].
        destruct (N.eq_dec (q_n q) 0) as [Hz|Hz].
        -- rewrite (can_end_zero _ _ _ Hres Hz Hq) in H. discriminate.
        -- specialize (Hlen Hz). lia.
      * cbn [app]. rewrite (skip_returned_ret_other _ _ _ _ _ _ Hsplit Hnskip).
        intros H. pose proof (k_skip c I H). lia.
      * cbn [app t_buf]. intros bf Hbf. rewrite buf_size_ret. apply (k_buf c I). assumption.
      * unfold acc_ok. cbn [app]. rewrite pend_call_self_ret. exact I0.
      * cbn [app]. rewrite min_reported_ret_none by reflexivity. rewrite Hf. apply (k_rep c I).
      * apply (sk_keep c t _ [ERet t (RLoop (rev (t_acc (c_pool c t)))) []]); try assumption; [reflexivity|].
        intros H. cbn [app]. apply skip_returned_cons. exact H.
      * cbn [app]. rewrite all_rets_ret, (k_evs c I), andb_true_r.
        assert (Hcovr : res_cover e (RLoop (rev (t_acc (c_pool c t)))) = rev (acc_iv (c_pool c t))).
        { cbn [res_cover res_taken]. unfold acc_iv. apply map_rev. }
        assert (Hnil : stopped older = true -> res_cover e (RLoop (rev (t_acc (c_pool c t)))) = []).
        { intros H. rewrite (Ha5 H). reflexivity. }
        apply ev_all_intro with (Loop l cc crash) older; try assumption.
        -- cbn [res_runs]. rewrite forallb_rev. assumption.
        -- reflexivity.
        -- rewrite Hcovr. assumption.
        -- rewrite Hcovr, all_above_rev. rewrite (cov_of_pend _ _ _ _ _ Hpend).
           eapply all_above_mono; [apply cov_of_maxhi|assumption].
        -- rewrite Hcovr, all_above_rev. assumption.
        -- intros H. unfold delivers_nothing. rewrite Hnil by (unfold stopped; rewrite H; reflexivity). reflexivity.
        -- intros H. unfold delivers_nothing. rewrite Hnil by (unfold stopped; rewrite H; now rewrite orb_true_r). reflexivity.
        -- apply ev_C11_nolen with (Loop l cc crash) older; try assumption; [reflexivity|].
           intros H. unfold delivers_nothing. rewrite Hnil by (unfold stopped; rewrite H; now rewrite !orb_true_r). reflexivity.
        -- destruct (N.eqb_spec cc 0); [contradiction|]. cbn [loop_shape_ok loop_panic_ok]. rewrite andb_true_r, forallb_rev.
           apply (Ha2 l cc crash eq_refl).
      * intros Hnp. apply (same_gap c t _ _ _ (rev (acc_iv (c_pool c t)))); try assumption;
          try exact (has_panic_app_false [ERet t (RLoop (rev (t_acc (c_pool c t)))) []] _ Hnp).
        -- cbn [app cov res_cover res_taken]. unfold acc_iv. rewrite map_rev. reflexivity.
        -- unfold acc_iv at 2. cbn [t_acc map]. rewrite app_nil_r. symmetry. apply Permutation_rev.
      * apply (same_led c t _ _ _ (rev (acc_iv (c_pool c t))) []); try assumption; try reflexivity; auto.
        -- cbn [app taken_all res_taken]. unfold acc_iv. rewrite map_rev. reflexivity.
        -- unfold acc_iv at 2. cbn [t_acc map]. rewrite !app_nil_r. symmetry. apply Permutation_rev.
      * cbn [t_buf]. apply (k_slots c I).
  - (* the pull delivers [s_c, s_c + cnt) *)
    destruct (frontier_got (c_sh c) q b' rs cnt Hq PS Hw) as (Hf0 & Hf1 & Hlt).
    apply pull_spec_got in PS. destruct PS as (-> & -> & Hc1 & Hcn & Hcl & Hshort).
    set (b := s_c (c_sh c)) in *.
    assert (Hnst : stopped older = false).
    { destruct (stopped older); [|reflexivity]. specialize (Hstop eq_refl). lia. }
    assert (Hns_e : end_reported older = false) by (unfold stopped in Hnst; destruct (end_reported older); [discriminate|reflexivity]).
    assert (Hns_s : skip_returned older = false) by (unfold stopped in Hnst; destruct (skip_returned older); [rewrite orb_true_r in Hnst; discriminate|reflexivity]).
    assert (Hns_z : zero_reported older = false) by (unfold stopped in Hnst; destruct (zero_reported older); [rewrite !orb_true_r in Hnst; discriminate|reflexivity]).
    unfold deliver. destruct (q_ctx q) as [|l crash] eqn:Ctx.
    + (* directly *)
      specialize (Hacc eq_refl).
      destruct (top_ops _ _ _ Hres Ctx) as (_ & Hnl & Hnh & Hnt & Hop).
      destruct (deliver_top_known (c_pool c t) q b cnt Hlt Hc1 Hq) as (r & d & -> & Hne & Hnp & Hla & Hidx & Hchk & took & Htk & Hcov & Hdno & Hdled); try assumption.
      { intros v Hv. destruct Hq as [_ Hm]. rewrite Hv in Hm. lia. }
      cbn [ret_ev]. apply kinv_commit; try assumption.
      * repeat constructor.
      * unfold call_ok, is_idle. cbn [set_pc t_pc app]. apply pend_call_self_ret.
      * cbn [app]. rewrite n_pending_ret. rewrite (pendZ_res _ _ Hpc). unfold pendZ, is_idle. cbn [set_pc t_pc]. lia.
      * cbn [app cov]. rewrite Hf1, Hcov, clean_ret, Hnp. cbn [negb andb].
        apply til_move with (delta := (if took =? 0 then [] else [(b, took)]) ++ [(b + took, cnt - took)]); [assumption| |].
        -- unfold acc_iv. cbn [set_pc t_acc]. rewrite Hacc. cbn [map]. rewrite !app_nil_r. apply Permutation_refl.
        -- apply tiling_extend_split; [assumption|]. fold (hist c). rewrite <- Hf0. apply (k_til c I).
      * cbn [app]. rewrite (end_reported_ret _ _ _ _ _ _ Hsplit). rewrite Hne. cbn [andb orb].
        intros H. pose proof (k_end c I H). lia.
      * cbn [app]. rewrite (skip_returned_ret_other _ _ _ _ _ _ Hsplit Hnskip).
        intros H. pose proof (k_skip c I H). lia.
      * cbn [app set_pc t_buf]. intros bf Hbf. rewrite buf_size_ret. apply (k_buf c I). assumption.
      * unfold acc_ok. cbn [app]. rewrite pend_call_self_ret. exact I0.
      * cbn [app]. rewrite min_reported_ret_none by assumption. intros m Hm. pose proof (k_rep c I m Hm). lia.
      * apply (sk_keep c t _ [ERet t r d]); try assumption; [reflexivity|].
        intros H. cbn [app]. apply skip_returned_cons. exact H.
      * cbn [app]. rewrite all_rets_ret, (k_evs c I), andb_true_r.
        apply ev_all_intro with o older; try assumption.
        -- destruct o; try reflexivity.
           ++ destruct Hop as [Hn Hm]. rewrite <- Hn. rewrite (Hchk k (or_introl Hm)). apply orb_true_r.
           ++ destruct Hop as (bf & Hbf & Hn & Hm).
              rewrite <- (buf_size_pend _ _ _ _ Hpend) by discriminate.
              rewrite (k_buf c I t bf Hbf). rewrite <- Hn. apply (Hchk k (or_intror Hm)).
        -- rewrite Hcov. apply increasing_split. assumption.
        -- rewrite Hcov. apply all_above_split. lia.
        -- rewrite Hcov. apply all_above_split. lia.
        -- rewrite Hns_e. discriminate.
        -- rewrite Hns_s. discriminate.
        -- apply ev_C11_nolen with o older; try assumption. rewrite Hns_z. discriminate.
        -- destruct o; try reflexivity. contradiction (Hnl l c0 crash); reflexivity.
      * intros Hnpp. pose proof (has_panic_app_false [ERet t r d] _ Hnpp) as Hnp0.
        apply (ext_gap c t _ _ _ ((if took =? 0 then [] else [(b, took)]) ++ [(b + took, cnt - took)]) ((if took =? 0 then [] else [(b, took)]) ++ [(b + took, cnt - took)]) cnt); try assumption.
        -- cbn [app cov]. rewrite Hcov. reflexivity.
        -- unfold acc_iv. cbn [set_pc t_acc]. rewrite Hacc. cbn [map]. rewrite !app_nil_r. apply Permutation_refl.
        -- apply iv_total_split. assumption.
        -- apply iv_maxhi_split; assumption.
        -- unfold frontier in Hf1. fold b. intros Hlt'. lia.
      * apply (ext_led c t _ _ _ (res_taken e r) (drops_iv d) took cnt); try assumption; try reflexivity.
        -- intros Ho. unfold acc_iv. cbn [set_pc t_acc]. rewrite Hacc. cbn [map]. rewrite !app_nil_r. rewrite Hf0.
           rewrite (Hdled Ho). apply Permutation_refl.
        -- rewrite Hf0. exact Hf1.
        -- intros Ho. rewrite (Hdno Ho). reflexivity.
      * cbn [set_pc t_buf]. apply (k_slots c I).
    + (* inside a loop *)
      destruct (loop_ops _ _ _ _ _ Hres Ctx) as (cc & -> & Hcc).
      unfold deliver_loop.
      destruct (loop_invoke_cases l crash (total_cnt (t_acc (c_pool c t))) b cnt Hlt Hc1 Hcl) as (inv & pan & Eli & Hi1 & Hi2 & Hinv). rewrite Eli.
      destruct pan as [used|].
      * (* the closure panics: the loop returns *)
        destruct Hinv as (Hu1 & Hu2 & Hinv).
        assert (Hcovr : res_cover e (RPanic PkUser (rev (rev inv ++ t_acc (c_pool c t)))) = rev (acc_iv (c_pool c t)) ++ [(b, used)]).
        { cbn [res_cover res_taken]. rewrite rev_app_distr, rev_involutive, map_app, Hinv. unfold acc_iv. rewrite map_rev. reflexivity. }
        cbn [ret_ev]. apply kinv_commit; try assumption.
        -- repeat constructor.
        -- unfold kpc_ok. cbn [t_pc t_acc]. reflexivity.
        -- unfold call_ok, is_idle. cbn [t_pc app]. apply pend_call_self_ret.
        -- cbn [app]. rewrite n_pending_ret. rewrite (pendZ_res _ _ Hpc). unfold pendZ, is_idle. cbn [t_pc]. lia.
        -- cbn [app cov]. rewrite Hcovr. rewrite Hf1, clean_ret. cbn [is_panic negb andb].
           apply til_move with (delta := [(b, used)]); [assumption| |].
           ++ unfold acc_iv at 1. cbn [t_acc map]. rewrite app_nil_r.
              rewrite <- Permutation_rev. apply Permutation_app_comm.
           ++ apply tiling_jump with (n := b + used); [lia|].
              cbn [app]. apply tiling_extend. fold (hist c). rewrite <- Hf0.
              eapply tiling_unclean. apply (k_til c I).
        -- cbn [app]. rewrite (end_reported_ret _ _ _ _ _ _ Hsplit). cbn [is_end andb orb].
           intros H. pose proof (k_end c I H). lia.
        -- cbn [app]. rewrite (skip_returned_ret_other _ _ _ _ _ _ Hsplit Hnskip).
           intros H. pose proof (k_skip c I H). lia.
        -- cbn [app t_buf]. intros bf Hbf. rewrite buf_size_ret. apply (k_buf c I). assumption.
        -- unfold acc_ok. cbn [app]. rewrite pend_call_self_ret. exact I0.
        -- cbn [app]. rewrite min_reported_ret_none by reflexivity. intros m Hm. pose proof (k_rep c I m Hm). lia.
        -- apply (sk_keep c t _ [ERet t (RPanic PkUser (rev (rev inv ++ t_acc (c_pool c t)))) (drops_after e used [mk_run (Some b) (val_of e b) cnt])]); try assumption; [reflexivity|].
           intros H. cbn [app]. apply skip_returned_cons. exact H.
        -- cbn [app]. rewrite all_rets_ret, (k_evs c I), andb_true_r.
           apply ev_all_intro with (Loop l cc crash) older; try assumption.
           ++ cbn [res_runs]. rewrite forallb_rev, forallb_app, forallb_rev, Hi1, Ha1. reflexivity.
           ++ reflexivity.
           ++ rewrite Hcovr. apply increasing_snoc; [assumption|]. cbn [fst].
              rewrite (iv_maxhi_perm _ _ (Permutation_sym (Permutation_rev _))). lia.
           ++ rewrite Hcovr, all_above_app, all_above_rev. rewrite (cov_of_pend _ _ _ _ _ Hpend).
              apply andb_true_iff. split.
              ** eapply all_above_mono; [apply cov_of_maxhi|assumption].
              ** apply all_above_forall. intros a [<-|[]]. right. cbn [fst].
                 pose proof (cov_of_maxhi e t older). lia.
           ++ rewrite Hcovr, all_above_app, all_above_rev, Ha4. cbn [andb].
              apply all_above_forall. intros a [<-|[]]. right. cbn [fst]. lia.
           ++ rewrite Hns_e. discriminate.
           ++ rewrite Hns_s. discriminate.
           ++ apply ev_C11_nolen with (Loop l cc crash) older; try assumption; [reflexivity|]. rewrite Hns_z. discriminate.
           ++ destruct (N.eqb_spec cc 0); [contradiction|].
              rewrite (loop_panic_user _ _ _ _ _ _ _ _ Eli), andb_true_r.
              change (forallb (shape_ok l) (rev (rev inv ++ t_acc (c_pool c t))) = true).
              rewrite forallb_rev, forallb_app, forallb_rev, Hi2. cbn [andb]. apply (Ha2 l cc crash eq_refl).
        -- intros Hnpp. cbn [app has_panic is_panic orb] in Hnpp. discriminate Hnpp.
        -- apply (ext_led c t _ _ _ (rev (acc_iv (c_pool c t)) ++ [(b, used)])
                          (drops_iv (drops_after e used [mk_run (Some b) (val_of e b) cnt])) used cnt); try assumption; try reflexivity.
           ++ cbn [app taken_all]. rewrite <- Hcovr. reflexivity.
           ++ intros Ho. unfold acc_iv at 2. cbn [t_acc map]. rewrite app_nil_r.
              rewrite drops_after_one by (assumption || lia). rewrite Ho, Hf0. unfold led_split.
              destruct (N.eqb_spec used 0); [lia|]. rewrite <- Permutation_rev.
              transitivity (acc_iv (c_pool c t) ++ ([(b, used)] ++ (if 0 <? cnt - used then [(b + used, cnt - used)] else []))).
              ** rewrite !app_assoc. apply Permutation_refl.
              ** apply Permutation_app_comm.
           ++ rewrite Hf0. exact Hf1.
           ++ intros Ho. rewrite not_owning_drops_after by assumption. reflexivity.
        -- cbn [t_buf]. apply (k_slots c I).
      * (* the loop goes on *)
        assert (Hinv1 : exists i0, inv = [i0] /\ run_iv e i0 = (b, cnt)).
        { destruct inv as [|i0 [|]]; try discriminate Hinv. exists i0. split; [reflexivity|]. cbn [map] in Hinv. congruence. }
        destruct Hinv1 as (i0 & -> & Hi0).
        cbn [ret_ev]. apply kinv_commit; try assumption.
        -- constructor.
        -- unfold kpc_ok. cbn [t_pc t_acc]. split; [assumption|]. rewrite Ctx. discriminate.
        -- unfold call_ok, is_idle. cbn [t_pc app]. exists (Loop l cc crash), older. split; [assumption|].
           eapply call_res_buf; [|exact Hres]. reflexivity.
        -- cbn [app]. rewrite (pendZ_res _ _ Hpc). unfold pendZ, is_idle. cbn [t_pc]. lia.
        -- cbn [app]. rewrite Hf1.
           change (cov e (c_trace c)) with ([] ++ cov e (c_trace c)).
           apply til_move with (delta := [(b, cnt)]); [assumption| |].
           ++ unfold acc_iv. cbn [t_acc app rev map]. rewrite Hi0. apply Permutation_refl.
           ++ cbn [app]. apply tiling_extend. fold (hist c). rewrite <- Hf0. apply (k_til c I).
        -- cbn [app]. intros H. pose proof (k_end c I H). lia.
        -- cbn [app]. intros H. pose proof (k_skip c I H). lia.
        -- cbn [app t_buf]. apply (k_buf c I).
        -- unfold acc_ok. cbn [app]. rewrite Hpend. cbn [t_acc rev app]. unfold acc_iv. cbn [t_acc map rev app forallb].
           cbn [forallb] in Hi1, Hi2. rewrite andb_true_r in Hi1, Hi2. rewrite Hi0.
           split; [rewrite Hi1; assumption|]. split.
           { intros l0 c0 cr0 E. injection E as <- <- <-. rewrite Hi2. apply (Ha2 l cc crash eq_refl). }
           split; [apply increasing_snoc; [assumption|]; cbn [fst];
                   rewrite (iv_maxhi_perm _ _ (Permutation_sym (Permutation_rev _))); unfold acc_iv in Hab; lia|].
           split.
           { cbn [all_above forallb fst snd]. fold (all_above (iv_maxhi (cov e older)) (map (run_iv e) (t_acc (c_pool c t)))).
             unfold acc_iv in Ha4. rewrite Ha4, andb_true_r. apply orb_true_iff. right. apply N.leb_le. lia. }
           rewrite Hnst. discriminate.
        -- cbn [app]. intros m Hm. pose proof (k_rep c I m Hm). lia.
        -- apply (sk_keep c t _ []); try assumption; [reflexivity|auto].
        -- cbn [app]. apply (k_evs c I).
        -- intros Hnp0. cbn [app] in Hnp0. apply (ext_gap c t _ _ _ [] [(b, cnt)] cnt); try assumption; try reflexivity.
           ++ unfold acc_iv. cbn [t_acc app rev map]. rewrite Hi0. apply Permutation_refl.
           ++ cbn [iv_total snd]. lia.
           ++ cbn [iv_maxhi snd fst]. unfold iv_hi. cbn [fst snd]. fold b. destruct (N.eqb_spec cnt 0); lia.
           ++ unfold frontier in Hf1. fold b. intros; lia.
        -- apply (ext_led c t _ _ _ [] [] cnt cnt); try assumption; try reflexivity; try lia.
           ++ intros Ho. unfold acc_iv. cbn [t_acc app rev map]. rewrite Hi0, Hf0. unfold led_split.
              destruct (N.eqb_spec cnt 0); [lia|]. replace (cnt - cnt) with 0 by lia. cbn [N.ltb N.compare app]. apply Permutation_refl.
        -- cbn [t_buf]. apply (k_slots c I).
Qed.

(** ** skip_to_end and the length queries *)

Lemma call_res_skip ts o : call_res e ts o = CGo PSkip -> o = Skip.
Proof.
  unfold call_res. destruct o; try discriminate; try reflexivity.
  - destruct (e_kind e); discriminate.
  - destruct (c =? 0); discriminate.
  - destruct (t_buf ts); discriminate.
  - destruct (c =? 0); [discriminate|]. destruct (c =? 1); discriminate.
Qed.

Lemma call_res_len ts o hm : call_res e ts o = CGo (PLen hm) -> o <> Skip.
Proof. intros E ->. discriminate E. Qed.

(** a step that returns a result delivering nothing, with the counter moved to [v] *)
Lemma kinv_ret_plain c t r d v l :
  KInv c -> In t L ->
  is_idle (c_pool c t) = false -> t_acc (c_pool c t) = [] ->
  res_cover e r = [] -> is_end r = false -> is_panic r = false ->
  (forall o older, pend_call t (c_trace c) = Some (o, older) ->
     (o <> Skip /\ v = s_c (c_sh c)) \/ (o = Skip /\ e_len e <= v)) ->
  (forall m, min_reported (ERet t r d :: c_trace c) = Some m -> e_len e - frontier (with_c (c_sh c) v) <= m) ->
  ev_all t r d (c_trace c) = true ->
  (if e_owning e
   then tiling true (frontier (with_c (c_sh c) v))
          ((taken_all e (ERet t r d :: c_trace c) ++ dropped_all (ERet t r d :: c_trace c))
           ++ accs (upd (c_pool c) t (set_pc (c_pool c t) PIdle)))
   else dropped_all (ERet t r d :: c_trace c) = []) ->
  KInv (commit c t (with_c (c_sh c) v) (set_pc (c_pool c t) PIdle) l [ERet t r d]).
Proof.
  intros I Hin Hni Hacc Hcov Hne Hnp Hctx Hrep Hev Hledp.
  destruct (k_wf c I t) as (Hok & Hops & Hbuf).
  pose proof (k_call c I t) as Hc. unfold call_ok in Hc. rewrite Hni in Hc.
  destruct Hc as (o & older & Hpend & Hres).
  pose proof (pend_split _ _ _ Hpend) as Hsplit.
  specialize (Hctx o older Hpend).
  apply kinv_commit; try assumption.
  - repeat constructor.
  - unfold call_ok, is_idle. cbn [set_pc t_pc app]. apply pend_call_self_ret.
  - cbn [app]. rewrite n_pending_ret. unfold pendZ. rewrite Hni. unfold is_idle. cbn [set_pc t_pc]. lia.
  - cbn [app cov]. rewrite Hcov, clean_ret, Hnp. cbn [negb andb].
    destruct Hctx as [[Hns ->]|(-> & Hv1)].
    + replace (with_c (c_sh c) (s_c (c_sh c))) with (c_sh c) by (destruct (c_sh c); reflexivity).
      change (cov e (c_trace c)) with ([] ++ cov e (c_trace c)).
      apply til_same with (cl := clean (c_trace c)); try assumption; [auto|apply (k_til c I)|].
      unfold acc_iv. cbn [set_pc t_acc app]. rewrite Hacc. apply Permutation_refl.
    + assert (Hcl : clean (c_trace c) = false).
      { unfold clean. rewrite (has_skip_pend _ _ _ Hpend). reflexivity. }
      rewrite Hcl. apply til_move with (delta := []); [assumption| |].
      * unfold acc_iv. cbn [set_pc t_acc app]. rewrite Hacc. apply Permutation_refl.
      * cbn [app]. fold (hist c). apply tiling_jump with (n := frontier (c_sh c)).
        -- unfold frontier, with_c. cbn [s_c]. lia.
        -- rewrite <- Hcl. apply (k_til c I).
  - cbn [app]. rewrite (end_reported_ret _ _ _ _ _ _ Hsplit). rewrite Hne. cbn [andb orb with_c s_c].
    intros H. pose proof (k_end c I H). destruct Hctx as [[_ ->]|(_ & Hv1)]; lia.
  - cbn [app skip_returned with_c s_c]. rewrite Hsplit.
    destruct Hctx as [[Hns ->]|(-> & Hv1)].
    + destruct o; try (apply (k_skip c I)). contradiction Hns; reflexivity.
    + intros _. exact Hv1.
  - cbn [app set_pc t_buf]. intros bf Hbf. rewrite buf_size_ret. apply (k_buf c I). assumption.
  - unfold acc_ok. cbn [app]. rewrite pend_call_self_ret. exact I0.
  - destruct Hctx as [[Hns _]|(-> & _)].
    + apply (sk_keep c t _ [ERet t r d]); try assumption.
      * intros Hp. unfold call_res in Hres. rewrite Hp in Hres. apply call_res_skip in Hres. contradiction.
      * reflexivity.
      * intros H. cbn [app]. apply skip_returned_cons. exact H.
    + intros _. left. cbn [app skip_returned]. rewrite Hsplit. reflexivity.
  - cbn [app]. rewrite all_rets_ret, (k_evs c I), andb_true_r. exact Hev.
  - intros Hnpp. pose proof (has_panic_app_false [ERet t r d] _ Hnpp) as Hnp0.
    apply (same_gap c t _ _ _ []); try assumption.
    + cbn [app cov]. rewrite Hcov. reflexivity.
    + unfold acc_iv. cbn [set_pc t_acc app]. apply Permutation_refl.
    + cbn [with_c s_c]. intros Hv. destruct Hctx as [[_ ->]|(_ & Hv1)]; [auto|lia].
  - cbn [set_pc t_buf]. apply (k_slots c I).
Qed.

Lemma kinv_skip_gen c t v l d :
  KInv c -> In t L -> t_pc (c_pool c t) = PSkip -> e_len e <= v ->
  (if e_owning e
   then tiling true (frontier (with_c (c_sh c) v))
          ((taken_all e (ERet t RUnit d :: c_trace c) ++ dropped_all (ERet t RUnit d :: c_trace c))
           ++ accs (upd (c_pool c) t (set_pc (c_pool c t) PIdle)))
   else dropped_all (ERet t RUnit d :: c_trace c) = []) ->
  KInv (commit c t (with_c (c_sh c) v) (set_pc (c_pool c t) PIdle) l [ERet t RUnit d]).
Proof.
  intros I Hin Hpc Hv Hledp.
  destruct (k_wf c I t) as (Hok & _ & _). unfold kpc_ok in Hok. rewrite Hpc in Hok.
  assert (Hni : is_idle (c_pool c t) = false) by (unfold is_idle; now rewrite Hpc).
  pose proof (k_call c I t) as Hc. unfold call_ok in Hc. rewrite Hni in Hc.
  destruct Hc as (o & older & Hpend & Hres). rewrite Hpc in Hres. apply call_res_skip in Hres. subst o.
  apply kinv_ret_plain; try assumption; try reflexivity.
  - intros o' older' Hp. rewrite Hpend in Hp. injection Hp as <- <-. right. split; [reflexivity|assumption].
  - rewrite min_reported_ret_none by reflexivity. intros m Hm. unfold frontier, with_c. cbn [s_c]. lia.
  - apply ev_all_null with Skip older; [apply pend_split; assumption|reflexivity].
Qed.

Lemma not_owning_kind : (e_kind e = KSlice \/ e_kind e = KRange) -> e_owning e = false.
Proof using Hown. intros [K|K]; rewrite Hown, K; reflexivity. Qed.

Lemma skip_led_store c t :
  KInv c -> In t L -> t_pc (c_pool c t) = PSkip -> (e_kind e = KSlice \/ e_kind e = KRange) ->
  if e_owning e
   then tiling true (frontier (with_c (c_sh c) (e_len e)))
          ((taken_all e (ERet t RUnit [] :: c_trace c) ++ dropped_all (ERet t RUnit [] :: c_trace c))
           ++ accs (upd (c_pool c) t (set_pc (c_pool c t) PIdle)))
   else dropped_all (ERet t RUnit [] :: c_trace c) = [].
Proof.
  intros I Hin Hpc Hkk. pose proof (not_owning_kind Hkk) as Ho.
  pose proof (k_led c I) as Hl. rewrite Ho in *. cbn [dropped_all drops_iv map app]. exact Hl.
Qed.

Lemma kinv_skip c t :
  KInv c -> In t L -> t_pc (c_pool c t) = PSkip ->
  s_c (c_sh c) + e_len e < W ->
  KInv (step e c t).
Proof.
  intros I Hin Hpc Hw.
  destruct (k_wf c I t) as (Hok & _ & _). unfold kpc_ok in Hok. rewrite Hpc in Hok.
  unfold step. rewrite Hpc.
  pose proof He as [Hlen _].
  assert (Hva : e_kind e = KVec \/ e_kind e = KArray ->
     KInv match k_fetch_n e (e_len e) (s_c (c_sh c)) with
       | Ok PREnd =>
           commit c t (with_c (c_sh c) (wadd (s_c (c_sh c)) (N.min (e_len e) (e_len e)))) (set_pc (c_pool c t) PIdle)
             (LAtom t SC AAdd (N.min (e_len e) (e_len e)) (s_c (c_sh c)) ord_counter_fetch_and_add) [ERet t RUnit []]
       | Ok (PRGot _ rs _) =>
           commit c t (with_c (c_sh c) (wadd (s_c (c_sh c)) (N.min (e_len e) (e_len e)))) (set_pc (c_pool c t) PIdle)
             (LAtom t SC AAdd (N.min (e_len e) (e_len e)) (s_c (c_sh c)) ord_counter_fetch_and_add) [ERet t RUnit (drops_after e 0 rs)]
       | Panic k =>
           commit c t (with_c (c_sh c) (wadd (s_c (c_sh c)) (N.min (e_len e) (e_len e)))) (set_pc (c_pool c t) PIdle)
             (LAtom t SC AAdd (N.min (e_len e) (e_len e)) (s_c (c_sh c)) ord_counter_fetch_and_add) [ERet t (RPanic k []) []]
       end).
  { intros Hkk.
    rewrite (k_fetch_n_spec e (e_len e) (s_c (c_sh c)) He Hlen).
    replace (N.min (e_len e) (e_len e)) with (e_len e) by lia. rewrite wadd_nowrap by assumption.
    destruct (pull_spec e (e_len e) (s_c (c_sh c))) as [|b' rs cnt] eqn:PS.
    - apply kinv_skip_gen; try assumption; [lia|].
      apply pull_spec_end in PS.
      apply (same_led c t _ _ _ [] []); try assumption; try reflexivity.
      intros _. unfold frontier, with_c. cbn [s_c]. lia.
    - apply pull_spec_got in PS. destruct PS as (-> & -> & Hc1 & Hcn & Hcl & Hsh).
      apply kinv_skip_gen; try assumption; [lia|].
      apply (ext_led c t _ _ _ [] (drops_iv (drops_after e 0 [mk_run (Some (s_c (c_sh c))) (val_of e (s_c (c_sh c))) cnt])) 0 cnt);
        try assumption; try reflexivity; try lia.
      + intros Ho. unfold acc_iv. cbn [set_pc t_acc app]. rewrite Hok. cbn [map]. rewrite !app_nil_r.
        rewrite drops_after_one by lia. rewrite Ho. unfold led_split. cbn [N.eqb app].
        replace (frontier (c_sh c)) with (s_c (c_sh c)) by (unfold frontier; lia). apply Permutation_refl.
      + unfold frontier, with_c. cbn [s_c]. lia.
      + intros Ho. rewrite not_owning_drops_after by assumption. reflexivity. }
  destruct kind_cases as [K|[K|[K|K]]]; rewrite K.
  - apply kinv_skip_gen; try assumption; [lia|]. apply skip_led_store; auto.
  - apply Hva; auto.
  - apply Hva; auto.
  - apply kinv_skip_gen; try assumption; [lia|]. apply skip_led_store; auto.
Qed.

Lemma kinv_skip_store c t :
  KInv c -> In t L -> t_pc (c_pool c t) = PSkip ->
  e_kind e = KSlice \/ e_kind e = KRange ->
  KInv (step e c t).
Proof.
  intros I Hin Hpc Hkk.
  unfold step. rewrite Hpc. destruct Hkk as [K|K]; rewrite K; (apply kinv_skip_gen; try assumption; [lia|]);
    apply skip_led_store; auto.
Qed.

(** the length queries *)

Lemma others_idle c t : KInv c -> In t L -> is_idle (c_pool c t) = false -> n_pending (c_trace c) = 1%Z ->
  forall u, u <> t -> is_idle (c_pool c u) = true.
Proof.
  intros I Hin Hni Hp u Hu. destruct (in_dec Nat.eq_dec u L) as [HuL|HuL]; [|apply (k_out c I); assumption].
  rewrite (k_pend c I) in Hp.
  assert (Hs : sumZ (upd (fun v => pendZ (c_pool c v)) t 0%Z) L = 0%Z).
  { rewrite sumZ_upd by assumption. unfold pendZ at 2. rewrite Hni. lia. }
  assert (H0 : upd (fun v => pendZ (c_pool c v)) t 0%Z u = 0%Z).
  { apply (sumZ_zero _ L); [|exact Hs|exact HuL].
    intros v _. unfold upd, pendZ. destruct (Nat.eqb v t); [lia|]. destruct (is_idle (c_pool c v)); lia. }
  rewrite upd_other in H0 by assumption. unfold pendZ in H0. destruct (is_idle (c_pool c u)); [reflexivity|discriminate].
Qed.

Lemma call_res_len_op ts o hm : call_res e ts o = CGo (PLen hm) ->
  (o = TryLen /\ hm = false) \/ (o = HasMore /\ hm = true).
Proof.
  unfold call_res. destruct o; try discriminate.
  - destruct (e_kind e); discriminate.
  - destruct (c =? 0); discriminate.
  - destruct (t_buf ts); discriminate.
  - destruct (c =? 0); [discriminate|]. destruct (c =? 1); discriminate.
  - intros E. injection E as <-. auto.
  - intros E. injection E as <-. auto.
Qed.

Lemma knows_len_known : knows_len e = true.
Proof using Hk. clear Hown. unfold knows_len. pose proof not_iter as H. destruct (e_kind e); try reflexivity. contradiction H; reflexivity. Qed.

Lemma kinv_len c t hm :
  KInv c -> In t L -> t_pc (c_pool c t) = PLen hm -> KInv (step e c t).
Proof.
  intros I Hin Hpc.
  destruct (k_wf c I t) as (Hok & _ & _). unfold kpc_ok in Hok. rewrite Hpc in Hok.
  assert (Hni : is_idle (c_pool c t) = false) by (unfold is_idle; now rewrite Hpc).
  pose proof (k_call c I t) as Hc. unfold call_ok in Hc. rewrite Hni in Hc.
  destruct Hc as (o & older & Hpend & Hres). rewrite Hpc in Hres.
  pose proof (pend_split _ _ _ Hpend) as Hsplit.
  pose proof (pend_suffix _ _ _ _ Hpend) as Hsuf.
  set (n := k_len e (s_c (c_sh c))).
  assert (Hn : n = e_len e - frontier (c_sh c)).
  { unfold n, k_len, frontier. destruct (N.ltb_spec (s_c (c_sh c)) (e_len e)); lia. }
  assert (Hstop : stopped older = true -> n = 0).
  { intros H. pose proof (stopped_len c I (stopped_suffix _ _ Hsuf H)). unfold frontier in Hn. lia. }
  assert (Hla : len_answer (len_res hm (Some n)) = Some (Some n)).
  { destruct hm; cbn [len_res len_answer more_of]; [|reflexivity]. destruct n; reflexivity. }
  assert (Hnp0 : n = 0 -> no_positive (len_res hm (Some n)) = true /\
                 match o, len_res hm (Some n) with
                 | HasMore, RMore HNo => true
                 | HasMore, _ => false
                 | TryLen, RLen (Some n) => n =? 0
                 | TryLen, _ => false
                 | _, _ => true
                 end = true).
  { intros ->. destruct (call_res_len_op _ _ _ Hres) as [[-> ->]|[-> ->]]; split; reflexivity. }
  unfold step. rewrite Hpc.
  pose proof not_iter as Hni'.
  assert (Hgoal : KInv (commit c t (c_sh c) (set_pc (c_pool c t) PIdle) (LAtom t SC ALoad 0 (s_c (c_sh c)) ord_counter_current)
                          [ERet t (len_res hm (Some n)) []])).
  { replace (c_sh c) with (with_c (c_sh c) (s_c (c_sh c))) at 1 by (destruct (c_sh c); reflexivity).
    apply kinv_ret_plain; try assumption.
    - destruct hm; reflexivity.
    - destruct hm; reflexivity.
    - destruct hm; reflexivity.
    - intros o' older' Hp. left. rewrite Hpend in Hp. injection Hp as <- <-.
      split; [eapply call_res_len; eassumption|reflexivity].
    - replace (with_c (c_sh c) (s_c (c_sh c))) with (c_sh c) by (destruct (c_sh c); reflexivity).
      cbn [min_reported]. rewrite Hla. intros m Hm.
      destruct (min_reported (c_trace c)) as [m0|] eqn:Em.
      + injection Hm as <-. pose proof (k_rep c I m0 Em). lia.
      + injection Hm as <-. lia.
    - assert (Hcov0 : res_cover e (len_res hm (Some n)) = []) by (destruct hm; reflexivity).
      apply ev_all_intro with o older; try assumption.
      + destruct hm; reflexivity.
      + destruct (call_res_len_op _ _ _ Hres) as [[-> _]|[-> _]]; reflexivity.
      + rewrite Hcov0. reflexivity.
      + rewrite Hcov0. reflexivity.
      + rewrite Hcov0. reflexivity.
      + intros H. assert (n = 0) as Hz by (apply Hstop; unfold stopped; rewrite H; reflexivity).
        destruct (Hnp0 Hz) as [-> _]. unfold delivers_nothing. rewrite Hcov0.
        destruct (call_res_len_op _ _ _ Hres) as [[-> _]|[-> _]]; reflexivity.
      + intros H. assert (n = 0) as Hz by (apply Hstop; unfold stopped; rewrite H; now rewrite orb_true_r).
        destruct (Hnp0 Hz) as [_ ->]. unfold delivers_nothing. rewrite Hcov0.
        destruct (call_res_len_op _ _ _ Hres) as [[-> _]|[-> _]]; reflexivity.
      + (* C11 *)
        unfold ev_C11. rewrite yes_zero_len_res, Hsplit, Hla. cbn [negb andb].
        assert (HB : match min_reported older with Some 0 => delivers_nothing e (len_res hm (Some n)) | _ => true end = true).
        { unfold delivers_nothing. rewrite Hcov0. destruct (min_reported older) as [[|]|]; reflexivity. }
        rewrite HB, andb_true_r.
        assert (HA2 : match min_reported older with Some m => n <=? m | None => true end = true).
        { destruct (min_reported older) as [m|] eqn:Em; [|reflexivity].
          destruct (min_reported_suffix _ _ _ Hsuf Em) as (m' & Em' & Hle).
          pose proof (k_rep c I m' Em'). apply N.leb_le. lia. }
        rewrite HA2, andb_true_r.
        destruct ((n_pending older =? 0)%Z && called_last t (c_trace c) && negb (has_panic older)) eqn:G; [|reflexivity].
        apply andb_true_iff in G. destruct G as [G Gp]. apply andb_true_iff in G. destruct G as [Gn Gc].
        apply Z.eqb_eq in Gn. apply negb_true_iff in Gp.
        (* nothing has happened since the call: the trace is the call on top of [older] *)
        assert (Htr : c_trace c = ECall t o :: older).
        { unfold called_last in Gc. destruct (c_trace c) as [|[u o'|u r' d'|f r' d'] tr'] eqn:Et; try discriminate.
          apply Nat.eqb_eq in Gc. subst u. rewrite pend_call_self_call in Hpend. injection Hpend as -> ->. reflexivity. }
        assert (Hone : n_pending (c_trace c) = 1%Z) by (rewrite Htr, n_pending_call; lia).
        pose proof (others_idle c t I Hin Hni Hone) as Hoth.
        assert (Haccs : accs (c_pool c) = []).
        { unfold accs. apply gather_nil. intros u _. unfold acc_iv.
          destruct (Nat.eq_dec u t) as [->|Hu]; [rewrite Hok; reflexivity|].
          rewrite (acc_idle c u I (Hoth u Hu)). reflexivity. }
        assert (Hcovt : cov e (c_trace c) = cov e older) by (rewrite Htr; reflexivity).
        assert (Hos : o <> Skip) by (eapply call_res_len; eassumption).
        assert (Hhs : has_skip (c_trace c) = has_skip older).
        { rewrite Htr. cbn [has_skip]. destruct o; try reflexivity. contradiction Hos; reflexivity. }
        assert (Hhp : has_panic (c_trace c) = has_panic older) by (rewrite Htr; reflexivity).
        assert (Hsr : skip_returned (c_trace c) = skip_returned older) by (rewrite Htr; reflexivity).
        rewrite knows_len_known.
        assert (Hrem : n =? (if skip_returned older then 0 else e_len e - iv_total (cov e older)) = true).
        { apply N.eqb_eq. destruct (has_skip older) eqn:Ehs.
          - (* a skip has been called: it has returned, since nothing else is pending *)
            assert (skip_returned older = true) as Hsro.
            { rewrite <- Hsr. destruct (k_sk c I Hhs) as [H|(u & Hu & Hpu)]; [exact H|].
              destruct (Nat.eq_dec u t) as [->|Hut]; [rewrite Hpc in Hpu; discriminate|].
              pose proof (Hoth u Hut) as Hi. unfold is_idle in Hi. rewrite Hpu in Hi. discriminate. }
            rewrite Hsro. apply Hstop. unfold stopped. rewrite Hsro. now rewrite orb_true_r.
          - assert (skip_returned older = false) as Hsro.
            { destruct (skip_returned older) eqn:E; [|reflexivity]. rewrite (skip_returned_has_skip _ E) in Ehs. discriminate. }
            rewrite Hsro.
            assert (Hcl : clean (c_trace c) = true) by (unfold clean; rewrite Hhs, Hhp, Gp; reflexivity).
            pose proof (tl_total _ _ _ (k_til c I) Hcl) as Ht. unfold hist in Ht. rewrite Haccs, app_nil_r, Hcovt in Ht.
            rewrite Ht. exact Hn. }
        rewrite Hrem. cbn [andb].
        destruct (end_reported_strong older) eqn:Es; [|reflexivity].
        assert (n = 0) as -> by (apply Hstop; unfold stopped; rewrite (end_strong_end _ Es); reflexivity).
        reflexivity.
      + destruct (call_res_len_op _ _ _ Hres) as [[-> _]|[-> _]]; reflexivity.
    - replace (with_c (c_sh c) (s_c (c_sh c))) with (c_sh c) by (destruct (c_sh c); reflexivity).
      apply (same_led c t _ _ _ [] []); try assumption; try reflexivity.
      cbn [taken_all app]. destruct hm; reflexivity. }
  destruct kind_cases as [K|[K|[K|K]]]; rewrite K; exact Hgoal.
Qed.

(** ** every step preserves the invariant *)

Definition known_pc (p : pc) : bool :=
  match p with PIdle | PRes _ | PSkip | PLen _ => true | _ => false end.

(** the step of thread [t] does not wrap the position counter around *)
Definition step_nowrap (c : cfg) (t : tid) : Prop :=
  match t_pc (c_pool c t) with
  | PRes q => s_c (c_sh c) + k_incr e q < W
  | PSkip => match e_kind e with KVec | KArray => s_c (c_sh c) + e_len e < W | _ => True end
  | _ => True
  end.

Lemma kinv_step c t : KInv c -> In t L -> step_nowrap c t -> KInv (step e c t).
Proof.
  intros I Hin Hw. unfold step_nowrap in Hw.
  destruct (t_pc (c_pool c t)) as [|q|q b|q b|q b|q b got|q b got|q b got|q b got| |hm|hm] eqn:Hpc;
    try (destruct (k_wf c I t) as (Hok & _ & _); unfold kpc_ok in Hok; rewrite Hpc in Hok; contradiction).
  - destruct (t_todo (c_pool c t)) as [|o rest] eqn:Htodo.
    + rewrite step_idle_nil by assumption. exact I.
    + rewrite (step_idle_call c t o rest) by assumption. apply kinv_call; assumption.
  - apply kinv_pull with q; assumption.
  - destruct (N.lt_ge_cases (s_c (c_sh c) + e_len e) W) as [Hlt|Hge].
    + apply kinv_skip; assumption.
    + (* the slice and the range store the length: no addition *)
      pose proof not_iter as Hni'. destruct He as [Hlen _].
      assert (e_kind e = KSlice \/ e_kind e = KRange) as Hkk.
      { destruct (e_kind e); try lia; auto. contradiction Hni'; reflexivity. }
      clear Hw. apply kinv_skip_store; assumption.
  - apply kinv_len with hm; assumption.
Qed.

(** ** the labels of a run: the no-wrap hypothesis of a run implies that of each of its steps *)

Lemma finish_labels c t sh ts l q pr : c_labels (finish e c t sh ts l q pr) = l :: c_labels c.
Proof using. unfold finish. destruct (deliver e ts q pr) as [ts' o]. reflexivity. Qed.

Lemma step_labels c t :
  KInv c -> nowrap (c_labels (step e c t)) -> nowrap (c_labels c) /\ step_nowrap c t.
Proof.
  intros I. unfold step_nowrap.
  destruct (t_pc (c_pool c t)) as [|q|q b|q b|q b|q b got|q b got|q b got|q b got| |hm|hm] eqn:Hpc;
    try (destruct (k_wf c I t) as (Hok & _ & _); unfold kpc_ok in Hok; rewrite Hpc in Hok; contradiction).
  - destruct (t_todo (c_pool c t)) as [|o rest] eqn:Htodo.
    + rewrite step_idle_nil by assumption. auto.
    + rewrite (step_idle_call c t o rest) by assumption. unfold call.
      destruct (call_res e (c_pool c t) o); cbn [commit c_labels]; intros H; inversion H; auto.
  - rewrite (step_res c t q Hpc), finish_labels. intros H. inversion H as [|? ? H1 H2]; subst. split; assumption.
  - unfold step. rewrite Hpc. pose proof not_iter as Hni'.
    remember (e_kind e) as kd eqn:K. destruct kd; try (contradiction Hni'; reflexivity).
    + cbn [commit c_labels]. intros H; inversion H; auto.
    + destruct (k_fetch_n e (e_len e) (s_c (c_sh c))) as [[|]|]; cbn [commit c_labels];
        intros H; inversion H as [|? ? H1 H2]; subst; cbn [label_nowrap] in H1; (split; [assumption|lia]).
    + destruct (k_fetch_n e (e_len e) (s_c (c_sh c))) as [[|]|]; cbn [commit c_labels];
        intros H; inversion H as [|? ? H1 H2]; subst; cbn [label_nowrap] in H1; (split; [assumption|lia]).
    + cbn [commit c_labels]. intros H; inversion H; auto.
  - unfold step. rewrite Hpc. pose proof not_iter as Hni'.
    remember (e_kind e) as kd eqn:K. destruct kd; try (contradiction Hni'; reflexivity);
      cbn [commit c_labels]; intros H; inversion H; auto.
Qed.

(** labels only grow, whatever the state *)
Lemma step_labels_suffix c t : nowrap (c_labels (step e c t)) -> nowrap (c_labels c).
Proof using.
  clear Hk Hown He.
  assert (forall c' l evs sh ts, nowrap (c_labels (commit c' t sh ts l evs)) -> nowrap (c_labels c')) as Hcm.
  { intros c' l evs sh ts H. cbn [commit c_labels] in H. inversion H; assumption. }
  assert (forall c' sh ts l q pr, nowrap (c_labels (finish e c' t sh ts l q pr)) -> nowrap (c_labels c')) as Hfin.
  { intros c' sh ts l q pr. rewrite finish_labels. intros H. inversion H; assumption. }
  unfold step.
  destruct (t_pc (c_pool c t)) as [|q|q b|q b|q b|q b got|q b got|q b got|q b got| |hm|hm].
  - destruct (t_todo (c_pool c t)); [auto|]. unfold call. destruct (call_res e (c_pool c t) o); apply Hcm.
  - destruct (e_kind e); first [apply Hfin|apply Hcm].
  - destruct (s_f (c_sh c)); first [apply Hfin|apply Hcm].
  - destruct (b =? s_y (c_sh c)); [apply Hcm|]. destruct (b <? s_y (c_sh c)); first [apply Hfin|apply Hcm].
  - destruct (s_f (c_sh c)); first [apply Hfin|apply Hcm].
  - destruct (crashes_now e (c_sh c)); [apply Hcm|].
    destruct (q_mode q), (src_next e (c_sh c)); try apply Hcm;
      try (destruct (N.of_nat (length (n :: got)) =? q_n q); apply Hcm);
      try (destruct (N.of_nat (length (n0 :: got)) =? q_n q); apply Hcm).
  - destruct (q_mode q); first [apply Hfin|apply Hcm].
  - destruct (q_mode q); try apply Hfin.
    + destruct (s_y (c_sh c) =? b); [destruct (rev got)|]; apply Hfin.
    + destruct (s_y (c_sh c) =? b); [destruct (rev got)|]; apply Hfin.
  - destruct (q_ctx q), (q_mode q), (e_kind e), (t_buf (c_pool c t)); try apply Hcm;
      destruct (write_slots (bf_slots b0) (rev got)); apply Hcm.
  - destruct (e_kind e); try apply Hcm;
      destruct (k_fetch_n e (e_len e) (s_c (c_sh c))) as [[|]|]; apply Hcm.
  - destruct (e_kind e); try apply Hcm. destruct (s_f (c_sh c)); [apply Hcm|]. destruct (e_hint e); apply Hcm.
  - apply Hcm.
Qed.

(** ** the events one step appends to the trace *)

Lemma step_trace_shape c t :
  KInv c ->
  exists evs, c_trace (step e c t) = evs ++ c_trace c /\
    (evs = [] \/ (exists ev, evs = [ev]) \/ (exists r d o, evs = [ERet t r d; ECall t o])).
Proof.
  intros I.
  destruct (t_pc (c_pool c t)) as [|q|q b|q b|q b|q b got|q b got|q b got|q b got| |hm|hm] eqn:Hpc;
    try (destruct (k_wf c I t) as (Hok & _ & _); unfold kpc_ok in Hok; rewrite Hpc in Hok; contradiction).
  - destruct (t_todo (c_pool c t)) as [|o rest] eqn:Htodo.
    + rewrite step_idle_nil by assumption. exists []. auto.
    + rewrite (step_idle_call c t o rest) by assumption. unfold call.
      destruct (call_res e (c_pool c t) o) as [p|b r d]; cbn [commit c_trace].
      * exists [ECall t o]. split; [reflexivity|]. right; left. eauto.
      * exists [ERet t r d; ECall t o]. split; [reflexivity|]. right; right. eauto.
  - rewrite (step_res c t q Hpc). unfold finish.
    destruct (deliver e (c_pool c t) q (k_pull e q (s_c (c_sh c)))) as [ts' [[r d]|]]; cbn [commit c_trace ret_ev].
    + exists [ERet t r d]. split; [reflexivity|]. right; left. eauto.
    + exists []. auto.
  - unfold step. rewrite Hpc.
    destruct kind_cases as [K|[K|[K|K]]]; rewrite K; try (cbn [commit c_trace]; eexists [_]; split; [reflexivity|]; right; left; eauto);
      destruct (k_fetch_n e (e_len e) (s_c (c_sh c))) as [[|]|]; cbn [commit c_trace]; eexists [_]; (split; [reflexivity|]); right; left; eauto.
  - unfold step. rewrite Hpc.
    destruct kind_cases as [K|[K|[K|K]]]; rewrite K; cbn [commit c_trace]; eexists [_]; (split; [reflexivity|]); right; left; eauto.
Qed.

Lemma n_pending_nonneg c : KInv c -> (0 <= n_pending (c_trace c))%Z.
Proof.
  intros I. rewrite (k_pend c I). apply sumZ_nonneg. intros t _. unfold pendZ. destruct (is_idle (c_pool c t)); lia.
Qed.

(** at a quiescent point nothing is held by a running loop *)
Lemma quiescent_accs c : KInv c -> n_pending (c_trace c) = 0%Z -> accs (c_pool c) = [].
Proof.
  intros I Hq. rewrite (k_pend c I) in Hq.
  unfold accs. apply gather_nil. intros t Ht. unfold acc_iv.
  assert (pendZ (c_pool c t) = 0%Z) as Hz.
  { apply (sumZ_zero (fun u => pendZ (c_pool c u)) L); [|exact Hq|exact Ht].
    intros u _. unfold pendZ. destruct (is_idle (c_pool c u)); lia. }
  unfold pendZ in Hz. destruct (is_idle (c_pool c t)) eqn:Ei; [|discriminate].
  rewrite (acc_idle c t I Ei). reflexivity.
Qed.

Lemma quiescent_gap c : KInv c -> n_pending (c_trace c) = 0%Z -> has_panic (c_trace c) = false ->
  iv_total (cov e (c_trace c)) = iv_maxhi (cov e (c_trace c)).
Proof.
  intros I Hq Hnp. destruct (k_gap c I Hnp) as [H _]. unfold hist in H.
  rewrite (quiescent_accs c I Hq), app_nil_r in H. exact H.
Qed.

Lemma prefix_step c t :
  KInv c -> KInv (step e c t) -> has_panic (c_trace (step e c t)) = false ->
  chk_C04_prefix e (c_trace c) = true -> chk_C04_prefix e (c_trace (step e c t)) = true.
Proof.
  intros I I' Hnp Hc. destruct (step_trace_shape c t I) as (evs & Et & Hshape).
  assert (Hq : forall tr', tr' = c_trace (step e c t) ->
     (if (n_pending tr' =? 0)%Z then iv_total (cov e tr') =? iv_maxhi (cov e tr') else true) = true).
  { intros tr' ->. destruct (Z.eqb_spec (n_pending (c_trace (step e c t))) 0) as [Hz|Hz]; [|reflexivity].
    apply N.eqb_eq. apply quiescent_gap; assumption. }
  destruct Hshape as [->|[(ev & ->)|(r & d & o & ->)]].
  - cbn [app] in Et. rewrite Et. exact Hc.
  - cbn [app] in Et. specialize (Hq _ eq_refl). rewrite Et in *. cbn [chk_C04_prefix]. rewrite Hq, Hc. reflexivity.
  - cbn [app] in Et. specialize (Hq _ eq_refl). rewrite Et in *. cbn [chk_C04_prefix]. rewrite Hq, Hc.
    rewrite n_pending_call. pose proof (n_pending_nonneg c I).
    destruct (Z.eqb_spec (n_pending (c_trace c) + 1) 0); [lia|]. reflexivity.
Qed.

(** ** the initial state, and every state a schedule leads to *)

Lemma kinv_init progs :
  (forall t, Forall wf_op (progs t)) -> KInv (init progs).
Proof.
  intros Hp. split; cbn [init c_pool c_trace c_sh init_ts].
  - intros t. unfold kpc_ok. cbn [init_ts t_pc t_acc t_todo t_buf wf_buf]. auto.
  - intros t _. reflexivity.
  - intros t. unfold call_ok, is_idle. cbn [t_pc pend_call]. reflexivity.
  - cbn [n_pending]. symmetry. clear. induction L as [|a l IH]; cbn [sumZ]; [reflexivity|]. rewrite IH. reflexivity.
  - unfold hist, accs, frontier. cbn [init c_trace c_pool c_sh cov app s_c].
    rewrite gather_nil by reflexivity. replace (N.min 0 (e_len e)) with 0 by lia. apply tiling_empty.
  - discriminate.
  - discriminate.
  - discriminate.
  - intros t. exact I0.
  - discriminate.
  - discriminate.
  - reflexivity.
  - intros _. unfold gap_ok, hist, accs. cbn [init c_trace c_pool c_sh cov app s_c].
    rewrite gather_nil by reflexivity. cbn [iv_total iv_maxhi]. split; reflexivity.
  - unfold led, accs, frontier. cbn [init c_trace c_pool c_sh taken_all dropped_all app s_c].
    rewrite gather_nil by reflexivity. replace (N.min 0 (e_len e)) with 0 by lia.
    destruct (e_owning e); [apply tiling_empty|reflexivity].
  - discriminate.
  - reflexivity.
Qed.

Lemma exec_snoc c sched t : exec e c (sched ++ [t]) = step e (exec e c sched) t.
Proof using. unfold exec. rewrite fold_left_app. reflexivity. Qed.

Theorem kinv_exec progs sched :
  (forall t, Forall wf_op (progs t)) ->
  Forall (fun t => In t L) sched ->
  nowrap (c_labels (exec e (init progs) sched)) ->
  KInv (exec e (init progs) sched).
Proof.
  intros Hp. induction sched as [|t sched IH] using rev_ind; intros Hs Hw.
  - apply kinv_init. exact Hp.
  - rewrite exec_snoc in *. apply Forall_app in Hs. destruct Hs as [Hs Ht]. inversion Ht as [|? ? Hin _]; subst.
    (* the invariant of the state before is needed to read the labels of this step: a small detour *)
    assert (forall c, KInv c -> nowrap (c_labels (step e c t)) -> KInv (step e c t)) as Hstep.
    { intros c I Hn. destruct (step_labels c t I Hn) as [_ Hsw]. apply kinv_step; assumption. }
    assert (Hprev : nowrap (c_labels (exec e (init progs) sched)) -> KInv (exec e (init progs) sched)) by (intros; apply IH; assumption).
    (* labels only grow: whatever the state before, its labels are a suffix of the labels after *)
    assert (Hsuf : nowrap (c_labels (exec e (init progs) sched))).
    { apply (step_labels_suffix (exec e (init progs) sched) t). exact Hw. }
    apply Hstep; [apply Hprev; exact Hsuf|exact Hw].
Qed.

Theorem prefix_exec progs sched :
  (forall t, Forall wf_op (progs t)) ->
  Forall (fun t => In t L) sched ->
  nowrap (c_labels (exec e (init progs) sched)) ->
  has_panic (c_trace (exec e (init progs) sched)) = false ->
  chk_C04_prefix e (c_trace (exec e (init progs) sched)) = true.
Proof.
  intros Hp. induction sched as [|t sched IH] using rev_ind; intros Hs Hw Hnp.
  - reflexivity.
  - pose proof (kinv_exec progs (sched ++ [t]) Hp Hs Hw) as I'.
    rewrite exec_snoc in *. apply Forall_app in Hs. destruct Hs as [Hs Ht].
    pose proof (step_labels_suffix _ _ Hw) as Hw0.
    pose proof (kinv_exec progs sched Hp Hs Hw0) as I.
    apply prefix_step; try assumption. apply IH; try assumption.
    destruct (step_trace_shape _ t I) as (evs & Et & _). rewrite Et in Hnp. eapply has_panic_app_false. exact Hnp.
Qed.

(** ** the end of life of the iterator: into_seq_iter and drop, by the exclusive owner *)

Lemma cov_final f r d tr : cov e (EFinal f r d :: tr) = cov e tr.
Proof. reflexivity. Qed.

Lemma pos_val m : pos_of e (val_of e m) = m.
Proof using. clear Hk Hown. unfold pos_of, val_of. destruct (e_kind e); lia. Qed.

(** the result of into_seq_iter at a quiescent point: the elements from the frontier on *)
Lemma seq_ok c k rs took dd :
  KInv c -> n_pending (c_trace c) = 0%Z ->
  took = N.min k (e_len e - frontier (c_sh c)) ->
  rs = nz_run None (val_of e (frontier (c_sh c))) took ->
  chk_C10 e (EFinal (FIntoSeq k) (RSeq rs took) dd :: c_trace c) = true.
Proof.
  intros I Hq -> ->. cbn [chk_C10].
  destruct (has_panic (c_trace c)) eqn:Hnp; [reflexivity|].
  pose proof (k_gap c I Hnp) as [Hg1 Hg2]. unfold hist in Hg1, Hg2.
  rewrite (quiescent_accs c I Hq), app_nil_r in Hg1, Hg2.
  pose proof (cov_below c I) as Hcb.
  set (m := frontier (c_sh c)) in *.
  assert (Hm : m <= e_len e) by (unfold m, frontier; lia).
  destruct (has_skip (c_trace c)) eqn:Hs.
  - unfold nz_run. destruct (N.eqb_spec (N.min k (e_len e - m)) 0) as [Hz|Hz].
    + reflexivity.
    + unfold mk_run. cbn [r_cnt r_val]. rewrite N.eqb_refl, pos_val. cbn [andb].
      assert (iv_total (cov e (c_trace c)) <=? m = true) as -> by (apply N.leb_le; lia). cbn [andb].
      destruct (N.ltb_spec (N.min k (e_len e - m)) k).
      * apply N.eqb_eq. lia.
      * apply N.leb_le. lia.
  - assert (Hcl : clean (c_trace c) = true) by (unfold clean; rewrite Hs, Hnp; reflexivity).
    pose proof (tl_total _ _ _ (k_til c I) Hcl) as Ht. unfold hist in Ht.
    rewrite (quiescent_accs c I Hq), app_nil_r in Ht. fold m in Ht. rewrite Ht.
    rewrite N.eqb_refl. cbn [andb]. unfold nz_run. destruct (N.eqb_spec (N.min k (e_len e - m)) 0) as [Hz|Hz].
    + reflexivity.
    + unfold mk_run. cbn [r_cnt r_val]. rewrite !N.eqb_refl. reflexivity.
Qed.

Theorem final_C10 c t k :
  KInv c -> n_pending (c_trace c) = 0%Z ->
  chk_C10 e (c_trace (final_step e c t (FIntoSeq k))) = true.
Proof.
  intros I Hq. unfold final_step.
  assert (Hfr : N.min (s_c (c_sh c)) (e_len e) = frontier (c_sh c)) by reflexivity.
  destruct kind_cases as [K|[K|[K|K]]]; rewrite K.
  - unfold seq_res. cbn [c_trace]. rewrite Hfr. apply seq_ok; try assumption; reflexivity.
  - unfold seq_res. cbn [c_trace]. rewrite Hfr. apply seq_ok; try assumption; reflexivity.
  - unfold seq_res. cbn [c_trace]. rewrite Hfr. apply seq_ok; try assumption; reflexivity.
  - rewrite Hfr. pose proof He as [Hlen Hr]. rewrite K in Hr. destruct Hr as (Hs & He' & Hl).
    assert (Hm : frontier (c_sh c) <= e_len e) by (unfold frontier; lia).
    rewrite add_u_ok by lia. cbn [c_trace].
    apply seq_ok; try assumption.
    + destruct (N.ltb_spec (e_start e + frontier (c_sh c)) (e_end e)); lia.
    + unfold val_of. rewrite K. reflexivity.
Qed.

(** the ledger of the consuming kinds *)
Theorem run_C08 c : KInv c -> chk_C08 e (c_trace c) = true.
Proof.
  intros I. unfold chk_C08. pose proof (k_led c I) as Hl.
  destruct (e_owning e).
  - unfold led in Hl. pose proof (tl_disj _ _ _ Hl) as Hd. pose proof (tl_within _ _ _ Hl) as Hw.
    rewrite pairwise_disj_app in Hd. apply andb_true_iff in Hd. destruct Hd as [Hd _]. apply andb_true_iff in Hd. destruct Hd as [Hd _].
    rewrite iv_within_app in Hw. apply andb_true_iff in Hw. destruct Hw as [Hw _].
    rewrite Hd. cbn [andb].
    rewrite (iv_within_mono (frontier (c_sh c)) (e_len e)); [|unfold frontier; lia|exact Hw]. cbn [andb].
    assert (has_final (c_trace c) = false) as ->; [|reflexivity].
    (* no end-of-life event is ever emitted by a step *) apply (k_nofin c I).
  - rewrite Hl. reflexivity.
Qed.

Lemma owning_kind : e_owning e = true -> e_kind e = KVec \/ e_kind e = KArray.
Proof using Hown Hk. intros H. rewrite Hown in H. destruct (e_kind e); try discriminate; auto. Qed.

Lemma drops_run_iv v cnt : e_owning e = true ->
  drops_iv (drops_of_run e v cnt) = if 0 <? cnt then [(pos_of e v, cnt)] else [].
Proof using. intros Ho. unfold drops_of_run. rewrite Ho. cbn [andb]. destruct (0 <? cnt); reflexivity. Qed.

(** after the end of life every element was moved out or destroyed exactly once *)
Lemma final_led c f r d took cnt :
  KInv c -> n_pending (c_trace c) = 0%Z -> e_owning e = true ->
  cnt = e_len e - frontier (c_sh c) -> took <= cnt ->
  res_taken e r ++ drops_iv d = led_split (frontier (c_sh c)) took cnt ->
  chk_C08 e (EFinal f r d :: c_trace c) = true.
Proof.
  intros I Hq Ho -> Htk Hrd. unfold chk_C08. rewrite Ho.
  pose proof (k_led c I) as Hl. rewrite Ho in Hl. unfold led in Hl.
  rewrite (quiescent_accs c I Hq), app_nil_r in Hl.
  assert (Hm : frontier (c_sh c) <= e_len e) by (unfold frontier; lia).
  pose proof (tiling_extend_led _ _ (e_len e - frontier (c_sh c)) took Htk Hl) as T.
  replace (frontier (c_sh c) + (e_len e - frontier (c_sh c))) with (e_len e) in T by lia.
  rewrite <- Hrd in T.
  assert (P : Permutation (taken_all e (EFinal f r d :: c_trace c) ++ dropped_all (EFinal f r d :: c_trace c))
                          ((res_taken e r ++ drops_iv d) ++ taken_all e (c_trace c) ++ dropped_all (c_trace c))).
  { cbn [taken_all dropped_all]. apply led_base_perm. }
  pose proof (tiling_perm _ _ _ _ (Permutation_sym P) T) as T'.
  rewrite (tl_disj _ _ _ T'), (tl_within _ _ _ T'). cbn [andb has_final n_pending].
  rewrite Hq. cbn [Z.eqb]. rewrite (tl_total _ _ _ T' eq_refl). apply N.eqb_refl.
Qed.

Theorem final_C08 c t f :
  KInv c -> n_pending (c_trace c) = 0%Z ->
  chk_C08 e (c_trace (final_step e c t f)) = true.
Proof.
  intros I Hq.
  assert (Hcases : e_owning e = true \/ e_owning e = false) by (clear; destruct (e_owning e); auto).
  destruct Hcases as [Ho|Ho].
  - assert (Hfr : N.min (s_c (c_sh c)) (e_len e) = frontier (c_sh c)) by reflexivity.
    assert (Hm : frontier (c_sh c) <= e_len e) by (unfold frontier; lia).
    assert (Hgoal_drop : chk_C08 e (EFinal FDrop RUnit
              (if s_c (c_sh c) <? e_len e then drops_of_run e (s_c (c_sh c)) (e_len e - s_c (c_sh c)) else []) :: c_trace c) = true).
    { apply final_led with (took := 0) (cnt := e_len e - frontier (c_sh c)); try assumption; try reflexivity; try lia.
      cbn [res_taken app]. unfold led_split. cbn [N.eqb app]. rewrite N.add_0_r, N.sub_0_r.
      destruct (N.ltb_spec (s_c (c_sh c)) (e_len e)) as [Hlt|Hge].
      - rewrite drops_run_iv by assumption. replace (frontier (c_sh c)) with (s_c (c_sh c)) by (unfold frontier; lia).
        destruct (owning_kind Ho) as [K|K]; unfold pos_of; rewrite K; reflexivity.
      - replace (e_len e - frontier (c_sh c)) with 0 by (unfold frontier; lia). reflexivity. }
    assert (Hgoal_seq : forall k, chk_C08 e (EFinal (FIntoSeq k)
              (fst (seq_res e (frontier (c_sh c)) (e_len e - frontier (c_sh c)) k))
              (snd (seq_res e (frontier (c_sh c)) (e_len e - frontier (c_sh c)) k)) :: c_trace c) = true).
    { intros k. unfold seq_res. cbn [fst snd].
      apply final_led with (took := N.min k (e_len e - frontier (c_sh c))) (cnt := e_len e - frontier (c_sh c));
        try assumption; try reflexivity; try lia.
      cbn [res_taken]. unfold led_split, nz_run. rewrite drops_run_iv by assumption. rewrite pos_val.
      destruct (N.min k (e_len e - frontier (c_sh c)) =? 0); [reflexivity|].
      cbn [map]. unfold run_iv, mk_run. cbn [r_val r_cnt]. rewrite pos_val. reflexivity. }
    unfold final_step. destruct (owning_kind Ho) as [K|K]; rewrite K; destruct f as [|k].
    + cbn [c_trace]. exact Hgoal_drop.
    + rewrite Hfr. specialize (Hgoal_seq k). destruct (seq_res e (frontier (c_sh c)) (e_len e - frontier (c_sh c)) k) as [r d].
      cbn [c_trace]. exact Hgoal_seq.
    + cbn [c_trace]. exact Hgoal_drop.
    + rewrite Hfr. specialize (Hgoal_seq k). destruct (seq_res e (frontier (c_sh c)) (e_len e - frontier (c_sh c)) k) as [r d].
      cbn [c_trace]. exact Hgoal_seq.
  - (* not owning: nothing is ever destroyed by the machinery *)
    pose proof (k_led c I) as Hl. rewrite Ho in Hl.
    assert (Hkk : e_kind e = KSlice \/ e_kind e = KRange).
    { destruct kind_cases as [K|[K|[K|K]]]; auto; rewrite Hown, K in Ho; discriminate. }
    unfold chk_C08. rewrite Ho. unfold final_step.
    destruct Hkk as [K|K]; rewrite K; destruct f as [|k]; cbn [c_trace dropped_all].
    + rewrite Hl. reflexivity.
    + destruct (seq_res e (N.min (s_c (c_sh c)) (e_len e)) (e_len e - N.min (s_c (c_sh c)) (e_len e)) k) as [r d].
      cbn [c_trace dropped_all drops_iv map app]. rewrite Hl. reflexivity.
    + rewrite Hl. reflexivity.
    + destruct (add_u (e_mode e) (e_start e) (N.min (s_c (c_sh c)) (e_len e))); cbn [c_trace dropped_all drops_iv map app]; rewrite Hl; reflexivity.
Qed.

End Known.
