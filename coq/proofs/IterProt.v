(** * The ticket protocol of ConIterOfIter, without traces: the invariant [Prot] over the three shared
      numbers (reserved counter, yielded counter, cursor of the wrapped iterator) and the program
      counters, and its preservation by every kind of transition. *)
From Coq Require Import Lia ZArith.
From OCI Require Import Machine Checkers.
From OCI.proofs Require Import Base IterBase.
Open Scope N_scope.

Section Prot.

Variable len : N.

Definition pcs := tid -> pc.

(** the part of the protocol that holds for every wrapped iterator, fused or not: disjoint tickets,
    the ticket at the yielded counter is the one inside the critical section, the elements taken in
    the critical section are the latest positions the wrapped iterator yielded *)
Record Prot (sc sy cur : N) (p : pcs) : Prop := {
  p_le   : sy <= sc;
  p_cur  : cur <= len;
  p_tk   : forall t b n, ticket (p t) = Some (b, n) -> 1 <= n /\ sy <= b /\ b + n <= sc;
  p_disj : forall t u b n b' n', t <> u -> ticket (p t) = Some (b, n) -> ticket (p u) = Some (b', n') ->
             b + n <= b' \/ b' + n' <= b;
  p_crit : forall t b n, in_crit (p t) = true -> ticket (p t) = Some (b, n) -> b = sy;
  p_gotv : forall t, in_crit (p t) = true ->
             rev (got_of (p t)) = ascN (cur - N.of_nat (length (got_of (p t)))) (length (got_of (p t))) /\
             N.of_nat (length (got_of (p t))) <= cur
}.

(** the part that holds when the wrapped iterator is fused (it answers None only when it is exhausted):
    positions and indices coincide *)
Record ProtF (sc sy cur : N) (p : pcs) : Prop := {
  p_got  : forall t b n, in_crit (p t) = true -> ticket (p t) = Some (b, n) ->
             rev (got_of (p t)) = ascN b (length (got_of (p t))) /\
             (cur = b + N.of_nat (length (got_of (p t))) \/ (got_of (p t) = [] /\ cur = len));
  p_pub  : forall t q b g, p t = PPub q b g -> N.of_nat (length g) = pub_incr q \/ cur = len;
  p_setf : forall t q b g, p t = PSetF q b g -> cur = len;
  p_pos  : (forall t, in_crit (p t) = false) ->
             cur = sy \/ cur = len \/ (sy < sc /\ forall t b n, ticket (p t) = Some (b, n) -> b <> sy)
}.

Lemma prot_mutex sc sy cur p : Prot sc sy cur p -> forall t u,
  in_crit (p t) = true -> in_crit (p u) = true -> t = u.
Proof.
  intros I t u Ht Hu. destruct (Nat.eq_dec t u) as [|ne]; [assumption|exfalso].
  assert (exists b n, ticket (p t) = Some (b, n)) as (b & n & Tt)
    by (destruct (p t); cbn in *; try discriminate; eauto).
  assert (exists b n, ticket (p u) = Some (b, n)) as (b' & n' & Tu)
    by (destruct (p u); cbn in *; try discriminate; eauto).
  pose proof (p_crit _ _ _ _ I t b n Ht Tt). pose proof (p_crit _ _ _ _ I u b' n' Hu Tu).
  pose proof (p_tk _ _ _ _ I t b n Tt). pose proof (p_tk _ _ _ _ I u b' n' Tu).
  pose proof (p_disj _ _ _ _ I t u b n b' n' ne Tt Tu). lia.
Qed.

Ltac spl u t := destruct (Nat.eq_dec u t) as [->|?]; [rewrite ?upd_same in *|rewrite ?upd_other in * by assumption].

(** a reservation: the reserved counter advances by [n >= 1] and the thread holds [sc, sc + n) *)
Lemma prot_reserve sc sy cur p t x n :
  Prot sc sy cur p -> ticket (p t) = None -> in_crit (p t) = false ->
  ticket x = Some (sc, n) -> in_crit x = false -> 1 <= n ->
  (forall q b g, x <> PPub q b g) -> (forall q b g, x <> PSetF q b g) ->
  Prot (sc + n) sy cur (upd p t x).
Proof.
  intros I Tn Cn Tx Cx Hn Npub Nsetf. pose proof (p_le _ _ _ _ I) as Hle. split.
  - lia.
  - apply (p_cur _ _ _ _ I).
  - intros u b m. spl u t.
    + rewrite Tx. intros E. injection E as <- <-. lia.
    + intros E. pose proof (p_tk _ _ _ _ I u b m E). lia.
  - intros u v b m b' m' Hne. spl u t; spl v t; try congruence.
    + rewrite Tx. intros E E'. injection E as <- <-. pose proof (p_tk _ _ _ _ I v b' m' E'). lia.
    + rewrite Tx. intros E E'. injection E' as <- <-. pose proof (p_tk _ _ _ _ I u b m E). lia.
    + apply (p_disj _ _ _ _ I); assumption.
  - intros u b m. spl u t; [rewrite Cx; discriminate|apply (p_crit _ _ _ _ I)].
  - intros u. spl u t; [rewrite Cx; discriminate|apply (p_gotv _ _ _ _ I)].
Qed.

Lemma protF_reserve sc sy cur p t x n :
  Prot sc sy cur p -> ProtF sc sy cur p -> ticket (p t) = None -> in_crit (p t) = false ->
  ticket x = Some (sc, n) -> in_crit x = false -> 1 <= n ->
  (forall q b g, x <> PPub q b g) -> (forall q b g, x <> PSetF q b g) ->
  ProtF (sc + n) sy cur (upd p t x).
Proof.
  intros I F Tn Cn Tx Cx Hn Npub Nsetf. pose proof (p_le _ _ _ _ I) as Hle. split.
  - intros u b m. spl u t; [rewrite Cx; discriminate|apply (p_got _ _ _ _ F)].
  - intros u q b g. spl u t; [intros E; contradiction (Npub q b g)|apply (p_pub _ _ _ _ F)].
  - intros u q b g. spl u t; [intros E; contradiction (Nsetf q b g)|apply (p_setf _ _ _ _ F)].
  - intros Ho. assert (Ho' : forall u, in_crit (p u) = false).
    { intros u. specialize (Ho u). spl u t; [exact Cn|exact Ho]. }
    destruct (p_pos _ _ _ _ F Ho') as [H|[H|[H1 H2]]]; auto. right; right. split; [lia|].
    intros u b m. spl u t; [rewrite Tx; intros E; injection E as <- <-; lia|apply H2].
Qed.

(** nobody else is inside the critical section when the ticket at the yielded counter is outside *)
Lemma prot_open sc sy cur p t n :
  Prot sc sy cur p -> ticket (p t) = Some (sy, n) -> in_crit (p t) = false ->
  forall u, in_crit (p u) = false.
Proof.
  intros I Tt Ct u. destruct (in_crit (p u)) eqn:E; [|reflexivity]. exfalso.
  destruct (Nat.eq_dec u t) as [->|Hne]; [congruence|].
  assert (exists b n, ticket (p u) = Some (b, n)) as (b & m & Tu) by (destruct (p u); cbn in *; try discriminate; eauto).
  pose proof (p_crit _ _ _ _ I u b m E Tu). pose proof (p_tk _ _ _ _ I u b m Tu). pose proof (p_tk _ _ _ _ I t _ _ Tt).
  pose proof (p_disj _ _ _ _ I u t b m _ _ Hne Tu Tt). lia.
Qed.

(** entering the critical section: the ticket begins at the yielded counter (the thread is about to
    look at the completed flag once more) *)
Lemma prot_enter sc sy cur p t q :
  Prot sc sy cur p -> ticket (p t) = Some (sy, pub_incr q) -> in_crit (p t) = false ->
  Prot sc sy cur (upd p t (PChkT q sy)).
Proof.
  intros I Tt Ct.
  pose proof (prot_open _ _ _ _ _ _ I Tt Ct) as Hopen.
  split.
  - apply (p_le _ _ _ _ I).
  - apply (p_cur _ _ _ _ I).
  - intros u b n. spl u t; [cbn [ticket]; intros E; injection E as <- <-; apply (p_tk _ _ _ _ I t); exact Tt|apply (p_tk _ _ _ _ I)].
  - intros u v b n b' n' Hne. spl u t; spl v t; try congruence; cbn [ticket].
    + intros E E'. injection E as <- <-. apply (p_disj _ _ _ _ I t v); assumption.
    + intros E E'. injection E' as <- <-. apply (p_disj _ _ _ _ I u t); assumption.
    + apply (p_disj _ _ _ _ I); assumption.
  - intros u b n. spl u t; [cbn [ticket]; intros _ E; injection E as <- _; reflexivity|rewrite Hopen; discriminate].
  - intros u. spl u t; [|rewrite Hopen; discriminate].
    cbn [got_of length rev ascN N.of_nat]. intros _. split; [reflexivity|lia].
Qed.

Lemma protF_enter sc sy cur p t q :
  Prot sc sy cur p -> ProtF sc sy cur p -> ticket (p t) = Some (sy, pub_incr q) -> in_crit (p t) = false ->
  ProtF sc sy cur (upd p t (PChkT q sy)).
Proof.
  intros I F Tt Ct.
  pose proof (prot_open _ _ _ _ _ _ I Tt Ct) as Hopen.
  split.
  - intros u b n. spl u t; [|rewrite Hopen; discriminate].
    cbn [ticket in_crit got_of]. intros _ E. injection E as <- _. cbn [rev length ascN]. split; [reflexivity|].
    rewrite N.add_0_r.
    destruct (p_pos _ _ _ _ F Hopen) as [H|[H|[H1 H2]]]; [left; exact H|right; split; [reflexivity|exact H]|].
    exfalso. apply (H2 t _ _ Tt). reflexivity.
  - intros u q' b g. spl u t; [discriminate|apply (p_pub _ _ _ _ F)].
  - intros u q' b g. spl u t; [discriminate|apply (p_setf _ _ _ _ F)].
  - intros Ho. specialize (Ho t). rewrite upd_same in Ho. discriminate.
Qed.

(** the same ticket, side and elements under another program counter *)
Lemma prot_retag sc sy cur p t x :
  Prot sc sy cur p ->
  ticket (p t) = ticket x -> in_crit (p t) = in_crit x -> got_of (p t) = got_of x ->
  Prot sc sy cur (upd p t x).
Proof.
  intros I Et Ec Eg. split.
  - apply (p_le _ _ _ _ I).
  - apply (p_cur _ _ _ _ I).
  - intros u b n. spl u t; [rewrite <- Et|]; apply (p_tk _ _ _ _ I).
  - intros u v b n b' n' Hne. spl u t; spl v t; try congruence; rewrite <- ?Et; apply (p_disj _ _ _ _ I); assumption.
  - intros u b n. spl u t; [rewrite <- Et, <- Ec|]; apply (p_crit _ _ _ _ I).
  - intros u. spl u t; [rewrite <- Ec, <- Eg|]; apply (p_gotv _ _ _ _ I).
Qed.

Lemma protF_retag sc sy cur p t x :
  ProtF sc sy cur p ->
  ticket (p t) = ticket x -> in_crit (p t) = in_crit x -> got_of (p t) = got_of x ->
  (forall q b g, x = PPub q b g -> N.of_nat (length g) = pub_incr q \/ cur = len) ->
  (forall q b g, x = PSetF q b g -> cur = len) ->
  ProtF sc sy cur (upd p t x).
Proof.
  intros F Et Ec Eg Ep Es. split.
  - intros u b n. spl u t; [rewrite <- Et, <- Ec, <- Eg|]; apply (p_got _ _ _ _ F).
  - intros u q b g. spl u t; [apply Ep|apply (p_pub _ _ _ _ F)].
  - intros u q b g. spl u t; [apply Es|apply (p_setf _ _ _ _ F)].
  - intros Ho. assert (Ho' : forall u, in_crit (p u) = false).
    { intros u. specialize (Ho u). spl u t; [rewrite Ec|]; exact Ho. }
    destruct (p_pos _ _ _ _ F Ho') as [H|[H|[H1 H2]]]; auto. right; right. split; [exact H1|].
    intros u b n. spl u t; [rewrite <- Et|]; apply H2.
Qed.

(** a thread outside the critical section gives its ticket up (it saw the completed flag) or has none *)
Lemma prot_leave sc sy cur p t x :
  Prot sc sy cur p -> in_crit (p t) = false -> ticket x = None -> in_crit x = false ->
  (forall q b g, x <> PPub q b g) -> (forall q b g, x <> PSetF q b g) ->
  Prot sc sy cur (upd p t x).
Proof.
  intros I Ct Tx Cx Npub Nsetf. split.
  - apply (p_le _ _ _ _ I).
  - apply (p_cur _ _ _ _ I).
  - intros u b n. spl u t; [rewrite Tx; discriminate|apply (p_tk _ _ _ _ I)].
  - intros u v b n b' n' Hne. spl u t; spl v t; try congruence; rewrite ?Tx; try discriminate;
      try (intros _ E; discriminate E); try (apply (p_disj _ _ _ _ I); assumption).
  - intros u b n. spl u t; [rewrite Cx; discriminate|apply (p_crit _ _ _ _ I)].
  - intros u. spl u t; [rewrite Cx; discriminate|apply (p_gotv _ _ _ _ I)].
Qed.

Lemma protF_leave sc sy cur p t x :
  ProtF sc sy cur p -> in_crit (p t) = false -> ticket x = None -> in_crit x = false ->
  (forall q b g, x <> PPub q b g) -> (forall q b g, x <> PSetF q b g) ->
  ProtF sc sy cur (upd p t x).
Proof.
  intros F Ct Tx Cx Npub Nsetf. split.
  - intros u b n. spl u t; [rewrite Cx; discriminate|apply (p_got _ _ _ _ F)].
  - intros u q b g. spl u t; [intros E; contradiction (Npub q b g)|apply (p_pub _ _ _ _ F)].
  - intros u q b g. spl u t; [intros E; contradiction (Nsetf q b g)|apply (p_setf _ _ _ _ F)].
  - intros Ho. assert (Ho' : forall u, in_crit (p u) = false).
    { intros u. specialize (Ho u). spl u t; [exact Ct|exact Ho]. }
    destruct (p_pos _ _ _ _ F Ho') as [H|[H|[H1 H2]]]; auto. right; right. split; [exact H1|].
    intros u b n. spl u t; [rewrite Tx; discriminate|apply H2].
Qed.

(** the thread inside the critical section takes the next element of the wrapped iterator *)
Lemma prot_take sc sy cur p t q b g x :
  Prot sc sy cur p -> p t = PSrc q b g -> cur < len ->
  (x = PSrc q b (cur :: g) \/ (x = PPub q b (cur :: g) /\ N.of_nat (length (cur :: g)) = pub_incr q)) ->
  Prot sc sy (cur + 1) (upd p t x).
Proof.
  intros I Ept Hlt Hx.
  assert (Tt : ticket (p t) = Some (b, pub_incr q)) by (rewrite Ept; reflexivity).
  assert (Ct : in_crit (p t) = true) by (rewrite Ept; reflexivity).
  assert (Tx : ticket x = Some (b, pub_incr q)) by (destruct Hx as [->|[-> _]]; reflexivity).
  assert (Cx : in_crit x = true) by (destruct Hx as [->|[-> _]]; reflexivity).
  assert (Gx : got_of x = cur :: g) by (destruct Hx as [->|[-> _]]; reflexivity).
  pose proof (p_gotv _ _ _ _ I t Ct) as [Hasc Hle]. rewrite Ept in Hasc, Hle. cbn [got_of] in Hasc, Hle.
  assert (Hoth : forall u, u <> t -> in_crit (p u) = false).
  { intros u Hne. destruct (in_crit (p u)) eqn:E; [|reflexivity]. exfalso. apply Hne. eapply prot_mutex; eassumption. }
  split.
  - apply (p_le _ _ _ _ I).
  - lia.
  - intros u b' n. spl u t; [rewrite Tx, <- Tt|]; apply (p_tk _ _ _ _ I).
  - intros u v b1 n1 b2 n2 Hne. spl u t; spl v t; try congruence; rewrite ?Tx, <- ?Tt; apply (p_disj _ _ _ _ I); assumption.
  - intros u b' n. spl u t; [rewrite Tx, <- Tt; intros _; apply (p_crit _ _ _ _ I); exact Ct|rewrite Hoth by assumption; discriminate].
  - intros u. spl u t; [|rewrite Hoth by assumption; discriminate].
    rewrite Gx. intros _. cbn [rev length]. rewrite Hasc. rewrite Nat2N.inj_succ. split; [|lia].
    replace (cur + 1 - N.succ (N.of_nat (length g))) with (cur - N.of_nat (length g)) by lia.
    rewrite <- ascN_snoc. f_equal. f_equal. lia.
Qed.

Lemma protF_take sc sy cur p t q b g x :
  Prot sc sy cur p -> ProtF sc sy cur p -> p t = PSrc q b g -> cur < len ->
  (x = PSrc q b (cur :: g) \/ (x = PPub q b (cur :: g) /\ N.of_nat (length (cur :: g)) = pub_incr q)) ->
  ProtF sc sy (cur + 1) (upd p t x).
Proof.
  intros I F Ept Hlt Hx.
  assert (Tt : ticket (p t) = Some (b, pub_incr q)) by (rewrite Ept; reflexivity).
  assert (Ct : in_crit (p t) = true) by (rewrite Ept; reflexivity).
  assert (Tx : ticket x = Some (b, pub_incr q)) by (destruct Hx as [->|[-> _]]; reflexivity).
  assert (Cx : in_crit x = true) by (destruct Hx as [->|[-> _]]; reflexivity).
  assert (Gx : got_of x = cur :: g) by (destruct Hx as [->|[-> _]]; reflexivity).
  pose proof (p_got _ _ _ _ F t _ _ Ct Tt) as [Hasc Hcur]. rewrite Ept in Hasc, Hcur. cbn [got_of] in Hasc, Hcur.
  assert (Hc : cur = b + N.of_nat (length g)) by (destruct Hcur as [H|[_ H]]; [exact H|lia]).
  assert (Hoth : forall u, u <> t -> in_crit (p u) = false).
  { intros u Hne. destruct (in_crit (p u)) eqn:E; [|reflexivity]. exfalso. apply Hne. eapply prot_mutex; eassumption. }
  split.
  - intros u b' n. spl u t; [|rewrite Hoth by assumption; discriminate].
    rewrite Tx, Gx. intros _ E. injection E as <- _. cbn [rev length]. rewrite Hasc. split.
    + rewrite Hc. apply ascN_snoc.
    + left. rewrite Nat2N.inj_succ. lia.
  - intros u q' b' g'. spl u t.
    + destruct Hx as [->|[-> Hn]]; [discriminate|]. intros E. injection E as <- <- <-. left. exact Hn.
    + intros E. pose proof (Hoth u ltac:(assumption)) as Hc'. rewrite E in Hc'. discriminate.
  - intros u q' b' g'. spl u t.
    + destruct Hx as [->|[-> _]]; discriminate.
    + intros E. pose proof (Hoth u ltac:(assumption)) as Hc'. rewrite E in Hc'. discriminate.
  - intros Ho. specialize (Ho t). rewrite upd_same, Cx in Ho. discriminate.
Qed.

(** the thread inside the critical section publishes its whole reservation and leaves *)
Lemma prot_publish sc sy cur p t q b g x :
  Prot sc sy cur p -> p t = PPub q b g -> ticket x = None -> in_crit x = false ->
  (forall q b g, x <> PPub q b g) -> (forall q b g, x <> PSetF q b g) ->
  Prot sc (sy + pub_incr q) cur (upd p t x).
Proof.
  intros I Ept Tx Cx Npub Nsetf.
  assert (Tt : ticket (p t) = Some (b, pub_incr q)) by (rewrite Ept; reflexivity).
  assert (Ct : in_crit (p t) = true) by (rewrite Ept; reflexivity).
  pose proof (p_crit _ _ _ _ I t _ _ Ct Tt) as Hb. subst b.
  pose proof (p_tk _ _ _ _ I t _ _ Tt) as (Hn & _ & Hsc).
  assert (Hoth : forall u, u <> t -> in_crit (p u) = false).
  { intros u Hne. destruct (in_crit (p u)) eqn:E; [|reflexivity]. exfalso. apply Hne. eapply prot_mutex; eassumption. }
  split.
  - lia.
  - apply (p_cur _ _ _ _ I).
  - intros u b' n. spl u t; [rewrite Tx; discriminate|].
    intros E. pose proof (p_tk _ _ _ _ I u b' n E) as (H1 & H2 & H3).
    pose proof (p_disj _ _ _ _ I u t b' n _ _ ltac:(assumption) E Tt). lia.
  - intros u v b1 n1 b2 n2 Hne. spl u t; spl v t; try congruence; rewrite ?Tx; try discriminate;
      try (intros _ E; discriminate E); try (apply (p_disj _ _ _ _ I); assumption).
  - intros u b' n. spl u t; [rewrite Cx; discriminate|rewrite Hoth by assumption; discriminate].
  - intros u. spl u t; [rewrite Cx; discriminate|rewrite Hoth by assumption; discriminate].
Qed.

Lemma protF_publish sc sy cur p t q b g x :
  Prot sc sy cur p -> ProtF sc sy cur p -> p t = PPub q b g -> ticket x = None -> in_crit x = false ->
  (forall q b g, x <> PPub q b g) -> (forall q b g, x <> PSetF q b g) ->
  ProtF sc (sy + pub_incr q) cur (upd p t x).
Proof.
  intros I F Ept Tx Cx Npub Nsetf.
  assert (Tt : ticket (p t) = Some (b, pub_incr q)) by (rewrite Ept; reflexivity).
  assert (Ct : in_crit (p t) = true) by (rewrite Ept; reflexivity).
  pose proof (p_crit _ _ _ _ I t _ _ Ct Tt) as Hb. subst b.
  pose proof (p_tk _ _ _ _ I t _ _ Tt) as (Hn & _ & Hsc).
  assert (Hoth : forall u, u <> t -> in_crit (p u) = false).
  { intros u Hne. destruct (in_crit (p u)) eqn:E; [|reflexivity]. exfalso. apply Hne. eapply prot_mutex; eassumption. }
  split.
  - intros u b' n. spl u t; [rewrite Cx; discriminate|rewrite Hoth by assumption; discriminate].
  - intros u q' b' g'. spl u t; [intros E; contradiction (Npub q' b' g')|].
    intros E. pose proof (Hoth u ltac:(assumption)) as Hc'. rewrite E in Hc'. discriminate.
  - intros u q' b' g'. spl u t; [intros E; contradiction (Nsetf q' b' g')|].
    intros E. pose proof (Hoth u ltac:(assumption)) as Hc'. rewrite E in Hc'. discriminate.
  - intros _. pose proof (p_got _ _ _ _ F t _ _ Ct Tt) as [_ Hcur]. rewrite Ept in Hcur. cbn [got_of] in Hcur.
    destruct (p_pub _ _ _ _ F t q sy g Ept) as [Hfull|Hex]; [|right; left; exact Hex].
    destruct Hcur as [Hc|[_ Hc]]; [left; lia|right; left; exact Hc].
Qed.

(** the thread inside the critical section leaves without publishing: the ticket at the yielded
    counter is abandoned and nobody will ever be served again (unless the source is exhausted) *)
Lemma prot_abandon sc sy cur p t x :
  Prot sc sy cur p -> in_crit (p t) = true -> ticket x = None -> in_crit x = false ->
  (forall q b g, x <> PPub q b g) -> (forall q b g, x <> PSetF q b g) ->
  Prot sc sy cur (upd p t x).
Proof.
  intros I Ct Tx Cx Npub Nsetf.
  assert (Hoth : forall u, u <> t -> in_crit (p u) = false).
  { intros u Hne. destruct (in_crit (p u)) eqn:E; [|reflexivity]. exfalso. apply Hne. eapply prot_mutex; eassumption. }
  split.
  - apply (p_le _ _ _ _ I).
  - apply (p_cur _ _ _ _ I).
  - intros u b' m. spl u t; [rewrite Tx; discriminate|apply (p_tk _ _ _ _ I)].
  - intros u v b1 n1 b2 n2 Hne. spl u t; spl v t; try congruence; rewrite ?Tx; try discriminate;
      try (intros _ E; discriminate E); try (apply (p_disj _ _ _ _ I); assumption).
  - intros u b' m. spl u t; [rewrite Cx; discriminate|rewrite Hoth by assumption; discriminate].
  - intros u. spl u t; [rewrite Cx; discriminate|rewrite Hoth by assumption; discriminate].
Qed.

Lemma protF_abandon sc sy cur p t x :
  Prot sc sy cur p -> ProtF sc sy cur p -> in_crit (p t) = true -> ticket x = None -> in_crit x = false ->
  (forall q b g, x <> PPub q b g) -> (forall q b g, x <> PSetF q b g) ->
  ProtF sc sy cur (upd p t x).
Proof.
  intros I F Ct Tx Cx Npub Nsetf.
  assert (exists b n, ticket (p t) = Some (b, n)) as (b & n & Tt) by (destruct (p t); cbn in *; try discriminate; eauto).
  pose proof (p_crit _ _ _ _ I t _ _ Ct Tt) as Hb. subst b.
  pose proof (p_tk _ _ _ _ I t _ _ Tt) as (Hn & _ & Hsc).
  assert (Hoth : forall u, u <> t -> in_crit (p u) = false).
  { intros u Hne. destruct (in_crit (p u)) eqn:E; [|reflexivity]. exfalso. apply Hne. eapply prot_mutex; eassumption. }
  split.
  - intros u b' m. spl u t; [rewrite Cx; discriminate|rewrite Hoth by assumption; discriminate].
  - intros u q' b' g'. spl u t; [intros E; contradiction (Npub q' b' g')|].
    intros E. pose proof (Hoth u ltac:(assumption)) as Hc'. rewrite E in Hc'. discriminate.
  - intros u q' b' g'. spl u t; [intros E; contradiction (Nsetf q' b' g')|].
    intros E. pose proof (Hoth u ltac:(assumption)) as Hc'. rewrite E in Hc'. discriminate.
  - intros _. right; right. split; [lia|].
    intros u b' m. spl u t; [rewrite Tx; discriminate|].
    intros E. pose proof (p_tk _ _ _ _ I u b' m E) as (H1 & H2 & H3).
    pose proof (p_disj _ _ _ _ I u t b' m _ _ ltac:(assumption) E Tt). lia.
Qed.

(** a thread without a ticket changes its program counter to another one without a ticket *)
Lemma prot_idle sc sy cur p t x :
  Prot sc sy cur p -> ticket (p t) = None -> ticket x = None -> in_crit x = false ->
  (forall q b g, x <> PPub q b g) -> (forall q b g, x <> PSetF q b g) ->
  Prot sc sy cur (upd p t x).
Proof.
  intros I Tt Tx Cx Npub Nsetf. apply prot_leave; try assumption.
  destruct (p t); cbn in *; try reflexivity; discriminate.
Qed.

Lemma protF_idle sc sy cur p t x :
  ProtF sc sy cur p -> ticket (p t) = None -> ticket x = None -> in_crit x = false ->
  (forall q b g, x <> PPub q b g) -> (forall q b g, x <> PSetF q b g) ->
  ProtF sc sy cur (upd p t x).
Proof.
  intros F Tt Tx Cx Npub Nsetf. apply protF_leave; try assumption.
  destruct (p t); cbn in *; try reflexivity; discriminate.
Qed.

End Prot.

Lemma prot_ext len sc sy cur (p p' : pcs) : (forall t, p t = p' t) -> Prot len sc sy cur p -> Prot len sc sy cur p'.
Proof.
  intros E I. split.
  - apply (p_le _ _ _ _ _ I).
  - apply (p_cur _ _ _ _ _ I).
  - intros t. rewrite <- E. apply (p_tk _ _ _ _ _ I).
  - intros t u. rewrite <- !E. apply (p_disj _ _ _ _ _ I).
  - intros t. rewrite <- E. apply (p_crit _ _ _ _ _ I).
  - intros t. rewrite <- E. apply (p_gotv _ _ _ _ _ I).
Qed.

Lemma protF_ext len sc sy cur (p p' : pcs) : (forall t, p t = p' t) -> ProtF len sc sy cur p -> ProtF len sc sy cur p'.
Proof.
  intros E I. split.
  - intros t. rewrite <- E. apply (p_got _ _ _ _ _ I).
  - intros t. rewrite <- E. apply (p_pub _ _ _ _ _ I).
  - intros t. rewrite <- E. apply (p_setf _ _ _ _ _ I).
  - intros Ho. assert (Ho' : forall t, in_crit (p t) = false) by (intros t; rewrite E; apply Ho).
    destruct (p_pos _ _ _ _ _ I Ho') as [H|[H|[H1 H2]]]; auto. right; right. split; [exact H1|].
    intros t. rewrite <- E. apply H2.
Qed.
