(** * C11 for the wrapper over an arbitrary iterator (ConIterOfIter): try_get_len / has_more are
      truthful, zero is definitive, a reported length never increases (layer D, on top of the layers
      A, B and the coverage invariant C). *)
From Coq Require Import Lia ZArith Permutation.
From OCI Require Import Machine Checkers.
From OCI.proofs Require Import Base Trace ArithOk InvKnown ChkKnown IterBase IterProt InvIterA InvIterB ChkIter Progress IterFair.
Open Scope N_scope.

(** ** lemmas about the trace functions *)

Lemma esr_cons ev tr : end_reported_strong tr = true -> end_reported_strong (ev :: tr) = true.
Proof.
  intros H. destruct ev as [u o|u r d|f r d]; cbn [end_reported_strong]; try exact H.
  destruct r; destruct (split_call u tr) as [[[] ?]|]; try exact H; try reflexivity; rewrite H; apply orb_true_r.
Qed.

Lemma esr_suffix s tr : suffix s tr -> end_reported_strong s = true -> end_reported_strong tr = true.
Proof. intros [p ->] H. induction p as [|ev p IH]; [assumption|]. apply esr_cons, IH. Qed.

Lemma esr_ret_noend t r d tr : is_end r = false -> end_reported_strong (ERet t r d :: tr) = end_reported_strong tr.
Proof.
  intros H. cbn [end_reported_strong].
  destruct r; try discriminate H; destruct (split_call t tr) as [[[] ?]|]; reflexivity.
Qed.

Lemma zero_reported_min tr : zero_reported tr = true <-> min_reported tr = Some 0.
Proof.
  unfold zero_reported. destruct (min_reported tr) as [[|p]|]; split; intros H; try reflexivity; try discriminate.
Qed.

Lemma zero_reported_suffix s tr : suffix s tr -> zero_reported s = true -> zero_reported tr = true.
Proof. intros [p ->] H. induction p as [|ev p IH]; [assumption|]. apply zero_reported_cons, IH. Qed.

Lemma len_answer_len_res hm n : len_answer (len_res hm (Some n)) = Some (Some n).
Proof. destruct hm; cbn [len_res len_answer more_of]; [|reflexivity]. destruct n; reflexivity. Qed.

Lemma len_answer_len_none hm : len_answer (len_res hm None) = Some None.
Proof. destruct hm; reflexivity. Qed.

Lemma is_end_len_res hm a : is_end (len_res hm a) = false.
Proof. destruct hm, a as [[|]|]; reflexivity. Qed.

Lemma res_cover_len_res e hm a : res_cover e (len_res hm a) = [].
Proof. destruct hm; reflexivity. Qed.

Lemma k_len_mono e a b : a <= b -> k_len e b <= k_len e a.
Proof. intros H. unfold k_len. destruct (N.ltb_spec b (e_len e)), (N.ltb_spec a (e_len e)); lia. Qed.

Lemma k_len_zero e a : k_len e a <= 0 -> e_len e <= a.
Proof. unfold k_len. destruct (N.ltb_spec a (e_len e)); lia. Qed.

Section IterD.

Variable e : env.
Hypothesis He : wf_env e.
Hypothesis Hk : e_kind e = KIter.
(** the wrapped iterator is fused, or its size hint is not exact (the length queries then never read the
    reserved counter: they answer zero when the completed flag is up and "unknown" otherwise) *)
Hypothesis Hgen : fused e \/ e_hint e <> HExact.
Variable L : list tid.
Hypothesis NDL : NoDup L.

(** the thread will not take an element any more: the source is exhausted, or the completed flag is up
    and the thread has still to test it, or its reservation lies beyond the end of the source *)
Definition NT2 (sh : shared) (p : pc) : Prop :=
  s_cur sh = e_len e \/ (s_f sh = true /\ before_gate p = true) \/
  (e_hint e = HExact /\ e_len e <= s_c sh /\ forall b n, ticket p = Some (b, n) -> e_len e <= b).

Definition zr_ok (tr : list event) (sh : shared) (t : tid) (ts : tstate) : Prop :=
  match pend_call t tr with
  | Some (o, older) => zero_reported older = true -> NT2 sh (t_pc ts) /\ got_of (t_pc ts) = [] /\ t_acc ts = []
  | None => True
  end.

Record IInvD (c : cfg) : Prop := {
  d_sk   : has_skip (c_trace c) = true ->
           skip_returned (c_trace c) = true \/ exists u, In u L /\ t_pc (c_pool c u) = PSkip;
  d_es   : end_reported_strong (c_trace c) = true -> s_f (c_sh c) = true;
  d_rep  : forall m, min_reported (c_trace c) = Some m ->
             s_f (c_sh c) = true \/ (e_hint e = HExact /\ k_len e (s_c (c_sh c)) <= m);
  d_len2 : forall t hm, t_pc (c_pool c t) = PLen2 hm ->
             e_hint e = HExact /\
             forall o older m, pend_call t (c_trace c) = Some (o, older) -> min_reported older = Some m ->
                               k_len e (s_c (c_sh c)) <= m;
  d_pub  : forall t q b k, t_pc (c_pool c t) = PPub q b [] -> q_mode q = MChunk k -> s_f (c_sh c) = true;
  d_zr   : forall t, zr_ok (c_trace c) (c_sh c) t (c_pool c t);
  d_evs  : all_rets (ev_C11 e) (c_trace c) = true
}.

Lemma NT2_mono sh sh' p :
  (s_f sh = true -> s_f sh' = true) -> (s_cur sh = e_len e -> s_cur sh' = e_len e) -> s_c sh <= s_c sh' ->
  NT2 sh p -> NT2 sh' p.
Proof.
  intros Sf Sc Sm [H|[[H1 H2]|(H0 & H1 & H2)]]; [left; auto|right; left; auto|right; right]. split; [exact H0|split; [lia|exact H2]].
Qed.

Lemma iD_commit c t sh' ts' l evs :
  IInvD c -> In t L -> Forall (ev_of t) evs ->
  (s_f (c_sh c) = true -> s_f sh' = true) -> (s_cur (c_sh c) = e_len e -> s_cur sh' = e_len e) ->
  s_c (c_sh c) <= s_c sh' ->
  (has_skip (evs ++ c_trace c) = true ->
     skip_returned (evs ++ c_trace c) = true \/ exists u, In u L /\ t_pc (upd (c_pool c) t ts' u) = PSkip) ->
  (end_reported_strong (evs ++ c_trace c) = true -> s_f sh' = true) ->
  (forall m, min_reported (evs ++ c_trace c) = Some m -> s_f sh' = true \/ (e_hint e = HExact /\ k_len e (s_c sh') <= m)) ->
  (forall hm, t_pc ts' = PLen2 hm ->
     e_hint e = HExact /\
     forall o older m, pend_call t (evs ++ c_trace c) = Some (o, older) -> min_reported older = Some m ->
                       k_len e (s_c sh') <= m) ->
  (forall q b k, t_pc ts' = PPub q b [] -> q_mode q = MChunk k -> s_f sh' = true) ->
  zr_ok (evs ++ c_trace c) sh' t ts' ->
  all_rets (ev_C11 e) (evs ++ c_trace c) = true ->
  IInvD (commit c t sh' ts' l evs).
Proof.
  intros I Hin Fev Sf Sc Sm Hsk Hes Hrep Hl2 Hpub Hzr Hevs.
  split; cbn [commit c_pool c_trace c_sh]; try assumption.
  - intros u hm. destruct (Nat.eq_dec u t) as [->|Hn].
    + rewrite upd_same. apply Hl2.
    + rewrite upd_other by assumption. intros Hp. destruct (d_len2 c I u hm Hp) as [Hh Hm]. split; [exact Hh|].
      intros o older m. rewrite (pend_call_others t u evs _ Hn Fev). intros Hpc Hmin.
      pose proof (Hm o older m Hpc Hmin). pose proof (k_len_mono e _ _ Sm). lia.
  - intros u q b k. destruct (Nat.eq_dec u t) as [->|Hn].
    + rewrite upd_same. apply Hpub.
    + rewrite upd_other by assumption. intros H1 H2. apply Sf. apply (d_pub c I u q b k H1 H2).
  - intros u. destruct (Nat.eq_dec u t) as [->|Hn].
    + rewrite upd_same. exact Hzr.
    + rewrite upd_other by assumption. pose proof (d_zr c I u) as H. unfold zr_ok in *.
      rewrite (pend_call_others t u evs _ Hn Fev).
      destruct (pend_call u (c_trace c)) as [[o older]|]; [|exact I0].
      intros Hz. destruct (H Hz) as (Hn1 & Hn2 & Hn3). split; [|split; assumption].
      eapply NT2_mono; eassumption.
Qed.

(** the skip bookkeeping is kept by a step of a thread that neither starts nor finishes a skip *)
Lemma dsk_keep c t ts' evs :
  IInvD c -> t_pc (c_pool c t) <> PSkip ->
  has_skip (evs ++ c_trace c) = has_skip (c_trace c) ->
  (skip_returned (c_trace c) = true -> skip_returned (evs ++ c_trace c) = true) ->
  has_skip (evs ++ c_trace c) = true ->
  skip_returned (evs ++ c_trace c) = true \/ exists u, In u L /\ t_pc (upd (c_pool c) t ts' u) = PSkip.
Proof.
  intros I Hnp Hhs Hsr H. rewrite Hhs in H. destruct (d_sk c I H) as [Hr|(u & Hu & Hpu)].
  - left. auto.
  - right. exists u. split; [assumption|]. rewrite upd_other; [assumption|]. intros ->. contradiction.
Qed.

Lemma drep_keep c sh' :
  IInvD c -> (s_f (c_sh c) = true -> s_f sh' = true) -> s_c (c_sh c) <= s_c sh' ->
  forall m, min_reported (c_trace c) = Some m -> s_f sh' = true \/ (e_hint e = HExact /\ k_len e (s_c sh') <= m).
Proof.
  intros I Sf Sm m Hm. destruct (d_rep c I m Hm) as [H|[H0 H]]; [left; auto|right]. split; [exact H0|].
  pose proof (k_len_mono e _ _ Sm). lia.
Qed.

(** ** steps that only move the program counter *)

Lemma iD_silent c t sh' p' l :
  IInvD c -> In t L -> t_pc (c_pool c t) <> PSkip ->
  (s_f (c_sh c) = true -> s_f sh' = true) -> (s_cur (c_sh c) = e_len e -> s_cur sh' = e_len e) ->
  s_c (c_sh c) <= s_c sh' ->
  (forall hm, p' = PLen2 hm ->
     e_hint e = HExact /\
     forall o older m, pend_call t (c_trace c) = Some (o, older) -> min_reported older = Some m ->
                       k_len e (s_c sh') <= m) ->
  (forall q b k, p' = PPub q b [] -> q_mode q = MChunk k -> s_f sh' = true) ->
  zr_ok (c_trace c) sh' t (set_pc (c_pool c t) p') ->
  IInvD (commit c t sh' (set_pc (c_pool c t) p') l []).
Proof.
  intros I Hin Hns Sf Sc Sm Hl2 Hpub Hzr.
  apply iD_commit; try assumption; cbn [app].
  - constructor.
  - apply dsk_keep with (evs := []); auto.
  - intros H. apply Sf. apply (d_es c I H).
  - apply drep_keep; assumption.
  - apply (d_evs c I).
Qed.

Lemma zr_keep c t sh' p' :
  IInvD c ->
  (s_f (c_sh c) = true -> s_f sh' = true) -> (s_cur (c_sh c) = e_len e -> s_cur sh' = e_len e) ->
  s_c (c_sh c) <= s_c sh' ->
  got_of p' = [] \/ got_of p' = got_of (t_pc (c_pool c t)) ->
  (before_gate (t_pc (c_pool c t)) = true -> before_gate p' = true \/ s_f (c_sh c) = false) ->
  (forall b n, ticket p' = Some (b, n) ->
     ticket (t_pc (c_pool c t)) = Some (b, n) \/ b = s_c (c_sh c)) ->
  zr_ok (c_trace c) sh' t (set_pc (c_pool c t) p').
Proof.
  intros I Sf Sc Sm Hg Hbg Htk. pose proof (d_zr c I t) as H. unfold zr_ok in *.
  destruct (pend_call t (c_trace c)) as [[o older]|]; [|exact I0].
  intros Hz. destruct (H Hz) as (Hn1 & Hn2 & Hn3). cbn [set_pc t_pc t_acc].
  split; [|split; [destruct Hg as [Hg|Hg]; rewrite Hg; [reflexivity|exact Hn2]|exact Hn3]].
  unfold NT2 in *. destruct Hn1 as [H1|[[H1 H2]|(H0 & H1 & H2)]]; [left; auto| |].
  - destruct (Hbg H2) as [H3|H3]; [right; left; split; auto|congruence].
  - right; right. split; [exact H0|]. split; [lia|]. intros b n Hb. destruct (Htk b n Hb) as [H3|H3]; [eapply H2; exact H3|lia].
Qed.


(** ** the call point *)

Lemma iD_call c t o rest :
  IInvA e L c -> IInvD c -> In t L -> t_pc (c_pool c t) = PIdle -> t_todo (c_pool c t) = o :: rest ->
  IInvD (call e c t (c_pool c t) o rest).
Proof.
  intros A I Hin Hpc Htodo.
  destruct (a_wf e L c A t) as (Hok & Hops & Hbuf). rewrite Htodo in Hops.
  inversion Hops as [|? ? Hwo Hrest]; subst.
  assert (Hnsk : t_pc (c_pool c t) <> PSkip) by (rewrite Hpc; discriminate).
  unfold call. destruct (call_res e (c_pool c t) o) as [p|b r d] eqn:E.
  - destruct (call_go_iter e Hk _ _ _ E Hwo Hbuf) as (Tp & Cp & Np1 & Np2 & Nidle & Nbuf & Hreq & Hrq).
    apply iD_commit; try assumption; auto.
    + repeat constructor.
    + lia.
    + cbn [app]. destruct (op_eq_skip o) as [->|Hos].
      * intros _. right. exists t. split; [exact Hin|]. rewrite upd_same. cbn [t_pc].
        unfold call_res in E. injection E as <-. reflexivity.
      * apply (dsk_keep c t _ [ECall t o]); try assumption.
        -- cbn [app has_skip]. destruct o; try reflexivity. contradiction Hos; reflexivity.
        -- cbn [app skip_returned]. auto.
    + cbn [app end_reported_strong]. apply (d_es c I).
    + cbn [app min_reported]. apply (d_rep c I).
    + cbn [t_pc]. intros hm Hp. subst p. contradiction.
    + cbn [t_pc]. intros q b k Hp. subst p. contradiction.
    + unfold zr_ok. cbn [app]. rewrite pend_call_self_call. cbn [t_pc t_acc]. intros Hz.
      assert (Hg : got_of p = []) by (destruct p; try reflexivity; discriminate Cp).
      split; [|split; [exact Hg|reflexivity]].
      apply zero_reported_min in Hz. destruct (d_rep c I 0 Hz) as [Hf|[Hx Hl]].
      * right; left. split; [exact Hf|]. destruct p; try reflexivity; try discriminate Cp; contradiction.
      * right; right. split; [exact Hx|]. split; [apply k_len_zero; exact Hl|]. intros b0 n0 Hb. rewrite Tp in Hb. discriminate.
    + cbn [app]. rewrite all_rets_call. apply (d_evs c I).
  - assert (Hall : null_pair o r = true /\ o <> Skip /\
                   end_reported_strong (ERet t r d :: ECall t o :: c_trace c) = end_reported_strong (c_trace c)).
    { unfold call_res in E. destruct o; cbn [wf_op] in Hwo; try discriminate.
      - rewrite Hk in E. destruct (N.eqb_spec n 0) as [->|]; [|discriminate]. injection E as <- <- <-.
        repeat split; try reflexivity; try discriminate.
        cbn [end_reported_strong split_call]. rewrite Nat.eqb_refl. reflexivity.
      - destruct (N.eqb_spec c0 0).
        + injection E as <- <- <-. repeat split; try reflexivity; try discriminate. cbn [null_pair]. apply N.eqb_eq; assumption.
        + injection E as <- <- <-. repeat split; try reflexivity; discriminate.
      - destruct (t_buf (c_pool c t)); [discriminate|]. injection E as <- <- <-. repeat split; try reflexivity; discriminate.
      - injection E as <- <- <-. repeat split; try reflexivity; discriminate.
      - destruct (N.eqb_spec c0 0); [|destruct (c0 =? 1); discriminate].
        injection E as <- <- <-. repeat split; try reflexivity; try discriminate. cbn [null_pair is_chunkzero]. rewrite andb_true_r. apply N.eqb_eq; assumption. }
    destruct Hall as (Hnull & Hns & Hesr).
    destruct (null_facts e o r Hnull) as (Hcov & Hla & _).
    apply iD_commit; try assumption; auto.
    + repeat constructor.
    + lia.
    + apply (dsk_keep c t _ [ERet t r d; ECall t o]); try assumption.
      * cbn [app has_skip]. destruct o; try reflexivity. contradiction Hns; reflexivity.
      * intros H. cbn [app]. apply skip_returned_cons, skip_returned_cons. exact H.
    + cbn [app]. rewrite Hesr. apply (d_es c I).
    + cbn [app]. rewrite min_reported_ret_none by exact Hla. cbn [min_reported]. apply (d_rep c I).
    + cbn [t_pc]. intros hm H. discriminate H.
    + cbn [t_pc]. intros q b' k H. discriminate H.
    + unfold zr_ok. cbn [app]. rewrite pend_call_self_ret. exact I0.
    + cbn [app]. rewrite all_rets_ret, all_rets_call, (d_evs c I), andb_true_r.
      apply ev_C11_nolen with o (c_trace c); [cbn [split_call]; rewrite Nat.eqb_refl; reflexivity|exact Hla|].
      intros _. unfold delivers_nothing. rewrite Hcov. reflexivity.
Qed.

(** ** reserving, testing the flag, waiting for the turn *)

Lemma iD_res c t q :
  IInvA e L c -> IInvD c -> In t L -> t_pc (c_pool c t) = PRes q ->
  s_c (c_sh c) + pub_incr q < W -> IInvD (step e c t).
Proof.
  intros A I Hin Hpc Hw. rewrite (istep_res e Hk c t q Hpc). rewrite wadd_nowrap by assumption.
  apply iD_silent; try assumption; cbn [with_c s_f s_cur s_c]; auto.
  - rewrite Hpc; discriminate.
  - lia.
  - intros hm H; discriminate H.
  - intros q' b k H; discriminate H.
  - apply zr_keep; try assumption; cbn [with_c s_f s_cur s_c]; auto; try lia.
    intros b n Hb. cbn [ticket] in Hb. injection Hb as <- <-. right. reflexivity.
Qed.

(** ** a result that is not a length answer *)

Lemma iD_ret c t sh' ts' l r d o older :
  IInvD c -> In t L ->
  pend_call t (c_trace c) = Some (o, older) ->
  t_pc (c_pool c t) <> PSkip ->
  (s_f (c_sh c) = true -> s_f sh' = true) -> (s_cur (c_sh c) = e_len e -> s_cur sh' = e_len e) ->
  s_c (c_sh c) <= s_c sh' ->
  t_pc ts' = PIdle ->
  len_answer r = None ->
  (zero_reported older = true -> delivers_nothing e r = true) ->
  (end_reported_strong (ERet t r d :: c_trace c) = true -> s_f sh' = true) ->
  IInvD (commit c t sh' ts' l [ERet t r d]).
Proof.
  intros I Hin Hpend Hns Sf Sc Sm Hp' Hla Hdn Hes.
  apply iD_commit; try assumption.
  - repeat constructor.
  - apply (dsk_keep c t ts' [ERet t r d]); try assumption; [reflexivity|].
    intros H. cbn [app]. apply skip_returned_cons. exact H.
  - cbn [app]. rewrite min_reported_ret_none by exact Hla. apply drep_keep; assumption.
  - rewrite Hp'. intros hm H. discriminate H.
  - rewrite Hp'. intros q b k H. discriminate H.
  - unfold zr_ok. cbn [app]. rewrite pend_call_self_ret. exact I0.
  - cbn [app]. rewrite all_rets_ret, (d_evs c I), andb_true_r.
    apply ev_C11_nolen with o older; [apply pend_split; exact Hpend|exact Hla|exact Hdn].
Qed.

Lemma loop_mode ts l c cr q : call_res e ts (Loop l c cr) = CGo (PRes q) ->
  (c = 1 -> exists v, q_mode q = MSingle v) /\ (c <> 1 -> exists k, q_mode q = MBuf k).
Proof.
  unfold call_res. destruct (N.eqb_spec c 0); [discriminate|].
  destruct (N.eqb_spec c 1); intros E; injection E as <-; cbn [q_mode]; split; intros; try contradiction; eauto.
Qed.

(** ** a pull reports the end *)

Lemma iD_finish_end c t sh' q l :
  IInvA e L c -> IInvD c -> In t L ->
  req_of (t_pc (c_pool c t)) = Some q ->
  (s_f (c_sh c) = true -> s_f sh' = true) -> (s_cur (c_sh c) = e_len e -> s_cur sh' = e_len e) ->
  s_c (c_sh c) <= s_c sh' ->
  (s_f sh' = true \/ exists k, q_mode q = MBuf k) ->
  IInvD (finish e c t sh' (c_pool c t) l q (Ok PREnd)).
Proof.
  intros A I Hin Hreq Sf Sc Sm Hcond.
  destruct (pull_ctx e L c t q A Hreq) as (o & older & Hpend & Hres & Hsplit & Hsuf & Hns).
  assert (Hnsk : t_pc (c_pool c t) <> PSkip) by (intros H; rewrite H in Hreq; discriminate Hreq).
  pose proof (d_zr c I t) as Hzr. unfold zr_ok in Hzr. rewrite Hpend in Hzr.
  unfold finish, deliver. destruct (q_ctx q) as [|lk crash] eqn:Ctx.
  - destruct (top_ops_iter e Hk _ _ _ Hres Ctx) as (_ & _ & _ & _ & _ & Hce & Hop).
    cbn [ret_ev]. apply iD_ret with o older; try assumption; try reflexivity.
    intros Hes. destruct Hcond as [Hf|(k & Hm)]; [exact Hf|].
      cbn [end_reported_strong] in Hes. rewrite Hsplit in Hes.
      destruct o; try contradiction.
    + rewrite Hop in Hm; discriminate.
    + destruct Hop as [_ Hop]. rewrite Hop in Hm. discriminate.
    + apply Sf. apply (d_es c I). exact Hes.
  - destruct (loop_ops_iter e Hk _ _ _ _ _ Hres Ctx) as (cc & -> & Hcc).
    cbn [ret_ev]. apply iD_ret with (Loop lk cc crash) older; try assumption; try reflexivity.
    + intros Hz. destruct (Hzr Hz) as (_ & _ & H3). rewrite H3. reflexivity.
    + intros Hes. destruct Hcond as [Hf|(k & Hm)]; [exact Hf|].
      cbn [end_reported_strong] in Hes. rewrite Hsplit in Hes.
      destruct (loop_mode _ _ _ _ _ Hres) as [H1 _].
      destruct (N.eqb_spec cc 1) as [E1|E1]; [destruct (H1 E1) as (v & Hv); rewrite Hv in Hm; discriminate|].
      cbn [orb] in Hes. apply Sf. apply (d_es c I). exact Hes.
Qed.

Lemma iD_chkf c t q b :
  IInvA e L c -> IInvD c -> In t L -> t_pc (c_pool c t) = PChkF q b -> IInvD (step e c t).
Proof.
  intros A I Hin Hpc. rewrite (istep_chkf e c t q b Hpc).
  destruct (s_f (c_sh c)) eqn:Ef.
  - apply iD_finish_end; try assumption; auto.
    + rewrite Hpc. reflexivity.
    + lia.
  - apply iD_silent; try assumption; auto.
    + rewrite Hpc; discriminate.
    + lia.
    + intros hm H; discriminate H.
    + intros q' b' k H; discriminate H.
    + apply zr_keep; try assumption; auto; try lia.
      intros b' n Hb. left. rewrite Hpc. exact Hb.
Qed.

Lemma iD_ldy c t q b :
  IInvA e L c -> IInvD c -> In t L -> t_pc (c_pool c t) = PLdY q b -> IInvD (step e c t).
Proof.
  intros A I Hin Hpc. rewrite (istep_ldy e c t q b Hpc).
  assert (Tt : ticket (pcs_of c t) = Some (b, pub_incr q)) by (unfold pcs_of; rewrite Hpc; reflexivity).
  pose proof (p_tk _ _ _ _ _ (a_prot e L c A) t _ _ Tt) as (Hn & Hyb & Hbc).
  assert (Hgo : forall p' l, ticket p' = Some (b, pub_incr q) -> got_of p' = [] -> (forall hm, p' <> PLen2 hm) ->
     (forall q' b' g, p' <> PPub q' b' g) ->
     IInvD (commit c t (c_sh c) (set_pc (c_pool c t) p') l [])).
  { intros p' l Tp Gp N1 N2. apply iD_silent; try assumption; auto.
    - rewrite Hpc; discriminate.
    - lia.
    - intros hm H. contradiction (N1 hm).
    - intros q' b' k H. contradiction (N2 q' b' []).
    - apply zr_keep; try assumption; auto; try lia.
      + rewrite Hpc. cbn [before_gate]. discriminate.
      + intros b' n Hb. left. rewrite Hpc. cbn [ticket]. congruence. }
  destruct (N.eqb_spec b (s_y (c_sh c))) as [Eb|Nb].
  - apply Hgo; try reflexivity; discriminate.
  - destruct (N.ltb_spec b (s_y (c_sh c))) as [Hlt|Hge]; [lia|].
    apply Hgo; try reflexivity; discriminate.
Qed.


(** its turn: the second look at the completed flag *)
Lemma iD_chkt c t q b :
  IInvA e L c -> IInvD c -> In t L -> t_pc (c_pool c t) = PChkT q b -> IInvD (step e c t).
Proof.
  intros A I Hin Hpc. rewrite (istep_chkt e c t q b Hpc).
  destruct (s_f (c_sh c)) eqn:Ef.
  - apply iD_finish_end; try assumption; auto.
    + rewrite Hpc. reflexivity.
    + lia.
  - apply iD_silent; try assumption; auto.
    + rewrite Hpc; discriminate.
    + lia.
    + intros hm H; discriminate H.
    + intros q' b' k H; discriminate H.
    + apply zr_keep; try assumption; auto; try lia.
      intros b' n Hb. left. rewrite Hpc. exact Hb.
Qed.

(** ** inside the critical section *)

Lemma iD_src c t q b g :
  IInvA e L c -> IInvD c -> In t L -> t_pc (c_pool c t) = PSrc q b g -> IInvD (step e c t).
Proof.
  intros A I Hin Hpc.
  destruct (a_wf e L c A t) as (Hok & _ & _). unfold ipc_ok in Hok. rewrite Hpc in Hok. destruct Hok as (Hq & _ & Hlt).
  assert (Tt : ticket (pcs_of c t) = Some (b, pub_incr q)) by (unfold pcs_of; rewrite Hpc; reflexivity).
  assert (Ct : in_crit (pcs_of c t) = true) by (unfold pcs_of; rewrite Hpc; reflexivity).
  pose proof (a_prot e L c A) as P.
  pose proof (p_cur _ _ _ _ _ P) as Hcl.
  assert (Hnsk : t_pc (c_pool c t) <> PSkip) by (rewrite Hpc; discriminate).
  assert (Hsame : forall x calls l, got_of x = g \/ got_of x = [] -> ticket x = Some (b, pub_incr q) -> (forall hm, x <> PLen2 hm) ->
            (forall q' b' k, x = PPub q' b' [] -> q_mode q' = MChunk k -> False) ->
            IInvD (commit c t (with_src (c_sh c) (s_cur (c_sh c)) calls) (set_pc (c_pool c t) x) l [])).
  { intros x calls l Hg Tx Hx Hpb. apply iD_silent; try assumption; cbn [with_src s_f s_cur s_c]; auto.
    - lia.
    - intros hm H. contradiction (Hx hm).
    - intros q' b' k H1 H2. exfalso. eapply Hpb; eassumption.
    - apply zr_keep; try assumption; cbn [with_src s_f s_cur s_c]; auto; try lia.
      + rewrite Hpc. cbn [got_of]. destruct Hg as [Hg|Hg]; auto.
      + rewrite Hpc. cbn [before_gate]. discriminate.
      + intros b' n Hb. left. rewrite Hpc. cbn [ticket]. congruence. }
  unfold step. rewrite Hpc.
  destruct (crashes_now e (c_sh c)).
  - apply Hsame; [left; reflexivity|reflexivity|discriminate|discriminate].
  - destruct (src_next_cases e (c_sh c)) as [[Es Hsl]|[Es _]]; rewrite Es.
    + assert (Hgo : forall x, (forall hm, x <> PLen2 hm) -> (forall q' b' k, x = PPub q' b' [] -> q_mode q' = MChunk k -> False) ->
                IInvD (commit c t (with_src (c_sh c) (s_cur (c_sh c) + 1) (s_calls (c_sh c) + 1)) (set_pc (c_pool c t) x)
                              (LSrc t (Some (s_cur (c_sh c)))) [])).
      { intros x Hx Hpb. apply iD_silent; try assumption; cbn [with_src s_f s_cur s_c]; auto.
        - intros H. lia.
        - lia.
        - intros hm H. contradiction (Hx hm).
        - intros q' b' k H1 H2. exfalso. eapply Hpb; eassumption.
        - pose proof (d_zr c I t) as H. unfold zr_ok in *.
          destruct (pend_call t (c_trace c)) as [[o older]|]; [|exact I0].
          intros Hz. exfalso. destruct (H Hz) as (Hn1 & _ & _). unfold NT2 in Hn1. rewrite Hpc in Hn1. cbn [before_gate ticket] in Hn1.
          destruct Hn1 as [H1|[[_ H1]|(Hxe & _ & H1)]]; [lia|discriminate|]. specialize (H1 _ _ eq_refl).
          destruct Hgen as [Hfu|Hne]; [|contradiction].
          pose proof (p_got _ _ _ _ _ (a_protF e L c A Hfu) t _ _ Ct Tt) as [_ Hcur]. unfold pcs_of in Hcur. rewrite Hpc in Hcur. cbn [got_of] in Hcur.
          destruct Hcur as [Hcu|[_ Hcu]]; lia. }
      destruct (q_mode q).
      * apply Hgo; discriminate.
      * destruct (N.of_nat (length (s_cur (c_sh c) :: g)) =? q_n q); apply Hgo; discriminate.
      * destruct (N.of_nat (length (s_cur (c_sh c) :: g)) =? q_n q); apply Hgo; discriminate.
    + destruct (q_mode q) eqn:M.
      * apply Hsame; [right; reflexivity|reflexivity|discriminate|discriminate].
      * apply Hsame; [left; reflexivity|reflexivity|discriminate|discriminate].
      * apply Hsame; [left; reflexivity|reflexivity|discriminate|discriminate].
Qed.

Lemma iD_setf c t q b g :
  IInvA e L c -> IInvD c -> In t L -> t_pc (c_pool c t) = PSetF q b g -> IInvD (step e c t).
Proof.
  intros A I Hin Hpc. rewrite (istep_setf e c t q b g Hpc).
  assert (Hgo : IInvD (commit c t (with_f (c_sh c) true) (set_pc (c_pool c t) (PPub q b g)) (LAtom t SF AStore 1 0 (o_setf q)) [])).
  { apply iD_silent; try assumption; cbn [with_f s_f s_cur s_c]; auto.
    - rewrite Hpc; discriminate.
    - lia.
    - intros hm H; discriminate H.
    - apply zr_keep; try assumption; cbn [with_f s_f s_cur s_c]; auto; try lia.
      + right. rewrite Hpc. reflexivity.
      + rewrite Hpc. cbn [before_gate]. discriminate.
      + intros b' n Hb. left. rewrite Hpc. exact Hb. }
  destruct (q_mode q) eqn:M.
  - apply iD_finish_end; try assumption; cbn [with_f s_f s_cur s_c]; auto.
    + rewrite Hpc; reflexivity.
    + lia.
  - exact Hgo.
  - exact Hgo.
Qed.

(** ** a pull returns elements *)

Lemma iD_finish_got c t q b g l :
  IInvA e L c -> IInvD c -> In t L -> t_pc (c_pool c t) = PPub q b g -> g <> [] ->
  IInvD (finish e c t (with_y (c_sh c) (b + q_n q)) (c_pool c t) l q
                (Ok (PRGot b (runs_of b (rev g)) (N.of_nat (length g))))).
Proof.
  intros A I Hin Hpc Hgne.
  assert (Hreq : req_of (t_pc (c_pool c t)) = Some q) by (rewrite Hpc; reflexivity).
  destruct (pull_ctx e L c t q A Hreq) as (o & older & Hpend & Hres & Hsplit & Hsuf & Hns).
  destruct (ipc_req e L c t q A Hreq) as [Hq Hacc].
  assert (Hnsk : t_pc (c_pool c t) <> PSkip) by (rewrite Hpc; discriminate).
  pose proof (d_zr c I t) as Hzr. unfold zr_ok in Hzr. rewrite Hpend in Hzr.
  assert (Hnz : zero_reported older = false).
  { destruct (zero_reported older); [|reflexivity]. destruct (Hzr eq_refl) as (_ & H2 & _). rewrite Hpc in H2. cbn [got_of] in H2. contradiction. }
  assert (Hrsn : runs_of b (rev g) <> []).
  { destruct (rev g) as [|v vs] eqn:Er; [|apply runs_of_nonnil].
    exfalso. apply Hgne. rewrite <- (rev_involutive g), Er. reflexivity. }
  unfold finish, deliver. destruct (q_ctx q) as [|lk crash] eqn:Ctx.
  - destruct (deliver_top_gen e Hk (c_pool c t) q b _ (N.of_nat (length g)) Hrsn)
      as (ts' & r & d & -> & Hp' & Ha' & Ht' & Hb' & Hbc' & Hne & Hnp & Hla).
    cbn [ret_ev]. apply iD_ret with o older; try assumption; cbn [with_y s_f s_cur s_c]; auto.
    + lia.
    + rewrite Hnz. discriminate.
    + rewrite (esr_ret_noend _ _ _ _ Hne). apply (d_es c I).
  - destruct (loop_ops_iter e Hk _ _ _ _ _ Hres Ctx) as (cc & -> & Hcc).
    unfold deliver_loop.
    destruct (loop_invoke lk crash (total_cnt (t_acc (c_pool c t))) (runs_of b (rev g)) (N.of_nat (length g))) as [inv pan].
    destruct pan as [used|].
    + cbn [ret_ev]. apply iD_ret with (Loop lk cc crash) older; try assumption; cbn [with_y s_f s_cur s_c]; auto.
      * lia.
      * rewrite Hnz. discriminate.
      * rewrite esr_ret_noend by reflexivity. apply (d_es c I).
    + cbn [ret_ev]. apply iD_commit; try assumption; cbn [with_y s_f s_cur s_c app]; auto.
      all: first [ lia | apply (d_es c I) | apply (d_rep c I) | apply (d_evs c I)
                 | (apply (dsk_keep c t _ []); auto; fail)
                 | (cbn [t_pc]; intros; discriminate)
                 | (unfold zr_ok; rewrite Hpend, Hnz; discriminate)
                 | constructor ].
Qed.

Lemma iD_pub c t q b g :
  IInvA e L c -> IInvD c -> In t L -> t_pc (c_pool c t) = PPub q b g ->
  s_y (c_sh c) + pub_incr q < W -> IInvD (step e c t).
Proof.
  intros A I Hin Hpc Hw.
  destruct (pub_step e L c t q b g A Hpc Hw) as (Hb & Hq & ->).
  destruct g as [|g0 g'].
  - apply iD_finish_end; try assumption; cbn [with_y s_f s_cur s_c]; auto.
    + rewrite Hpc. reflexivity.
    + lia.
    + destruct (q_mode q) eqn:M.
      * exfalso. destruct (a_wf e L c A t) as (Hok & _). unfold ipc_ok in Hok. rewrite Hpc in Hok.
        destruct Hok as (_ & _ & _ & Hg1). specialize (Hg1 v M). discriminate Hg1.
      * left. apply (d_pub c I t q b k Hpc M).
      * right. eauto.
  - apply iD_finish_got; try assumption. discriminate.
Qed.

(** ** unwinding from a panic of the wrapped iterator *)

Lemma iD_unw_gen c t q b g ts' d l :
  IInvA e L c -> IInvD c -> In t L -> t_pc (c_pool c t) = PUnw q b g -> t_pc ts' = PIdle ->
  IInvD (commit c t (with_f (c_sh c) true) ts' l [ERet t (RPanic PkSource (rev (t_acc (c_pool c t)))) d]).
Proof.
  intros A I Hin Hpc Hp'.
  assert (Hreq : req_of (t_pc (c_pool c t)) = Some q) by (rewrite Hpc; reflexivity).
  destruct (pull_ctx e L c t q A Hreq) as (o & older & Hpend & Hres & Hsplit & Hsuf & Hns).
  pose proof (d_zr c I t) as Hzr. unfold zr_ok in Hzr. rewrite Hpend in Hzr.
  apply iD_ret with o older; try assumption; cbn [with_f s_f s_cur s_c]; auto.
  - rewrite Hpc; discriminate.
  - lia.
  - intros Hz. destruct (Hzr Hz) as (_ & _ & H3). rewrite H3. reflexivity.
Qed.

Lemma iD_unw c t q b g :
  IInvA e L c -> IInvD c -> In t L -> t_pc (c_pool c t) = PUnw q b g -> IInvD (step e c t).
Proof.
  intros A I Hin Hpc. unfold step. rewrite Hpc.
  destruct (q_ctx q); [|apply iD_unw_gen with q b g; auto].
  destruct (q_mode q); try (apply iD_unw_gen with q b g; auto).
  rewrite Hk. destruct (t_buf (c_pool c t)) as [bf|]; [|apply iD_unw_gen with q b g; auto].
  destruct (write_slots (bf_slots bf) (rev g)) as [sl stale]. apply iD_unw_gen with q b g; auto.
Qed.

(** ** skip_to_end *)

Lemma iD_skip c t : IInvA e L c -> IInvD c -> In t L -> t_pc (c_pool c t) = PSkip -> IInvD (step e c t).
Proof.
  intros A I Hin Hpc. rewrite (istep_skip e Hk c t Hpc).
  assert (Hni : is_idle (c_pool c t) = false) by (unfold is_idle; rewrite Hpc; reflexivity).
  destruct (call_ctx e L c t A Hni) as (o & older & Hpend & Hres & Hsplit & Hsuf). rewrite Hpc in Hres. cbn [entry_of req_of] in Hres.
  apply (call_res_skip_iter e Hk) in Hres. subst o.
  apply iD_commit; try assumption; cbn [with_f s_f s_cur s_c]; auto.
  all: first [ lia | (repeat constructor; fail)
             | (intros _; left; cbn [app skip_returned]; rewrite Hsplit; reflexivity)
             | (cbn [set_pc t_pc]; intros; discriminate)
             | (unfold zr_ok; cbn [app]; rewrite pend_call_self_ret; exact I0)
             | (cbn [app]; rewrite all_rets_ret, (d_evs c I), andb_true_r;
                apply ev_C11_nolen with Skip older; [assumption|reflexivity|intros _; reflexivity]) ].
Qed.


(** ** the length queries *)

Lemma others_idleI c t : IInvA e L c -> In t L -> is_idle (c_pool c t) = false -> n_pending (c_trace c) = 1%Z ->
  forall u, u <> t -> is_idle (c_pool c u) = true.
Proof.
  intros A Hin Hni Hp u Hu. destruct (in_dec Nat.eq_dec u L) as [HuL|HuL]; [|apply (a_out e L c A); assumption].
  rewrite (a_pend e L c A) in Hp.
  assert (Hs : sumZ (upd (fun v => pendZ (c_pool c v)) t 0%Z) L = 0%Z).
  { rewrite sumZ_upd by assumption. unfold pendZ at 2. rewrite Hni. lia. }
  assert (H0 : upd (fun v => pendZ (c_pool c v)) t 0%Z u = 0%Z).
  { apply (sumZ_zero _ L); [|exact Hs|exact HuL].
    intros v _. unfold upd, pendZ. destruct (Nat.eqb v t); [lia|]. destruct (is_idle (c_pool c v)); lia. }
  rewrite upd_other in H0 by assumption. unfold pendZ in H0. destruct (is_idle (c_pool c u)); [reflexivity|discriminate].
Qed.

(** the state in which a quiescent query runs: nothing is held, no ticket is alive *)
Lemma quiet_facts c t hm o older :
  IInvA e L c -> IInvB e c -> IInvC c -> IInvD c -> In t L ->
  t_pc (c_pool c t) = PLen hm \/ t_pc (c_pool c t) = PLen2 hm ->
  pend_call t (c_trace c) = Some (o, older) ->
  (n_pending older =? 0)%Z && called_last t (c_trace c) && negb (has_panic older) = true ->
  iv_total (cov e older) = s_cur (c_sh c) /\
  (fused e -> s_f (c_sh c) = true -> skip_returned older = true \/ s_cur (c_sh c) = e_len e) /\
  (fused e -> s_f (c_sh c) = false -> s_cur (c_sh c) = s_c (c_sh c) \/ s_cur (c_sh c) = e_len e).
Proof.
  intros A B C I Hin Hpcs Hpend G.
  apply andb_true_iff in G. destruct G as [G Gp]. apply andb_true_iff in G. destruct G as [Gn Gc].
  apply Z.eqb_eq in Gn. apply negb_true_iff in Gp.
  assert (Hni : is_idle (c_pool c t) = false) by (unfold is_idle; destruct Hpcs as [-> | ->]; reflexivity).
  assert (Hacc : t_acc (c_pool c t) = []).
  { destruct (a_wf e L c A t) as (Hok & _). unfold ipc_ok in Hok. destruct Hpcs as [H|H]; rewrite H in Hok; exact Hok. }
  assert (Htr : c_trace c = ECall t o :: older).
  { unfold called_last in Gc. destruct (c_trace c) as [|[u o'|u r' d'|f r' d'] tr'] eqn:Et; try discriminate.
    apply Nat.eqb_eq in Gc. subst u. rewrite pend_call_self_call in Hpend. injection Hpend as -> ->. reflexivity. }
  assert (Hone : n_pending (c_trace c) = 1%Z) by (rewrite Htr, n_pending_call; lia).
  pose proof (others_idleI c t A Hin Hni Hone) as Hoth.
  assert (Hpcu : forall u, u <> t -> t_pc (c_pool c u) = PIdle).
  { intros u Hu. specialize (Hoth u Hu). unfold is_idle in Hoth. destruct (t_pc (c_pool c u)); try discriminate. reflexivity. }
  assert (Hhelds : helds e L (c_pool c) = []).
  { unfold helds. apply gather_nil. intros u _. destruct (Nat.eq_dec u t) as [->|Hu].
    - unfold held, acc_iv. rewrite Hacc. destruct Hpcs as [-> | ->]; reflexivity.
    - apply held_idle; [apply Hpcu; exact Hu|apply (iacc_idle e L c u A (Hoth u Hu))]. }
  assert (Hcovt : cov e (c_trace c) = cov e older) by (rewrite Htr; reflexivity).
  assert (Hhp : has_panic (c_trace c) = has_panic older) by (rewrite Htr; reflexivity).
  assert (Hsr : skip_returned (c_trace c) = skip_returned older) by (rewrite Htr; reflexivity).
  assert (Htk : forall u, ticket (pcs_of c u) = None).
  { intros u. unfold pcs_of. destruct (Nat.eq_dec u t) as [->|Hu]; [destruct Hpcs as [-> | ->]; reflexivity|rewrite (Hpcu u Hu); reflexivity]. }
  assert (Hcr : forall u, in_crit (pcs_of c u) = false).
  { intros u. unfold pcs_of. destruct (Nat.eq_dec u t) as [->|Hu]; [destruct Hpcs as [-> | ->]; reflexivity|rewrite (Hpcu u Hu); reflexivity]. }
  split; [|split].
  - pose proof (a_cnt e L c A) as T. rewrite Hhelds, app_nil_r, Hcovt in T. apply T.
    unfold npanic. rewrite Hhp, Gp. reflexivity.
  - intros Hfu Hf. destruct (b_f e c B Hfu Hf) as [H|[H|H]]; [right; exact H| |rewrite Hhp, Gp in H; discriminate].
    left. rewrite <- Hsr. destruct (d_sk c I H) as [H'|(u & Hu & Hpu)]; [exact H'|exfalso].
    destruct (Nat.eq_dec u t) as [->|Hut]; [destruct Hpcs as [H1|H1]; rewrite H1 in Hpu; discriminate|].
    rewrite (Hpcu u Hut) in Hpu. discriminate.
  - intros Hfu Hf. pose proof (a_prot e L c A) as P. pose proof (p_le _ _ _ _ _ P) as Hle.
    assert (Hyc : s_y (c_sh c) = s_c (c_sh c)).
    { destruct (N.lt_ge_cases (s_y (c_sh c)) (s_c (c_sh c))) as [Hlt|Hge]; [exfalso|lia].
      destruct (C Hf (s_y (c_sh c)) ltac:(lia)) as (u & b0 & n0 & Tu & _).
      pose proof (Htk u) as Hn. unfold pcs_of in Hn. rewrite Hn in Tu. discriminate. }
    destruct (p_pos _ _ _ _ _ (a_protF e L c A Hfu) Hcr) as [H|[H|[H1 _]]]; [left; lia|right; exact H|lia].
Qed.

(** the per-event check of a length answer *)
Lemma ev_C11_len t hm a tl o older :
  split_call t tl = Some (o, older) ->
  ((n_pending older =? 0)%Z && called_last t tl && negb (has_panic older) = true ->
     (match a with
      | Some n => if knows_len e then n =? (if skip_returned older then 0 else e_len e - iv_total (cov e older)) else n =? 0
      | None => negb (knows_len e) && negb (end_reported_strong older) && negb (skip_returned older)
      end = true) /\
     (end_reported_strong older = true -> a = Some 0)) ->
  (forall n m, a = Some n -> min_reported older = Some m -> n <= m) ->
  ev_C11 e t (len_res hm a) [] tl = true.
Proof.
  intros Hs Hq Hm.
  assert (Hla : len_answer (len_res hm a) = Some a) by (destruct a; [apply len_answer_len_res|apply len_answer_len_none]).
  assert (HB : match min_reported older with Some 0 => delivers_nothing e (len_res hm a) | _ => true end = true).
  { unfold delivers_nothing. rewrite res_cover_len_res. destruct (min_reported older) as [[|]|]; reflexivity. }
  assert (HA2 : match a, min_reported older with Some n, Some m => n <=? m | _, _ => true end = true).
  { destruct a as [n|]; [|reflexivity]. destruct (min_reported older) as [m|] eqn:Em; [|reflexivity].
    apply N.leb_le. eapply Hm; reflexivity. }
  unfold ev_C11. rewrite yes_zero_len_res, Hs, Hla. cbn [negb andb]. cbv beta iota zeta.
  apply andb_true_iff. split; [|exact HB].
  apply andb_true_iff. split; [|exact HA2].
  destruct ((n_pending older =? 0)%Z && called_last t tl && negb (has_panic older)) eqn:G; [|reflexivity].
  destruct (Hq eq_refl) as [H1 H2].
  apply andb_true_iff. split; [exact H1|].
  destruct (end_reported_strong older) eqn:Es; [|reflexivity]. rewrite (H2 eq_refl). reflexivity.
Qed.

Lemma iD_len_ret c t hm (a : option N) l :
  IInvA e L c -> IInvD c -> In t L ->
  is_idle (c_pool c t) = false -> entry_of (t_pc (c_pool c t)) = PLen hm ->
  (forall n, a = Some n -> s_f (c_sh c) = true \/ (e_hint e = HExact /\ k_len e (s_c (c_sh c)) <= n)) ->
  ev_C11 e t (len_res hm a) [] (c_trace c) = true ->
  IInvD (commit c t (c_sh c) (set_pc (c_pool c t) PIdle) l [ERet t (len_res hm a) []]).
Proof.
  intros A I Hin Hni Hent Hrep Hev.
  assert (Hnsk : t_pc (c_pool c t) <> PSkip) by (intros H; rewrite H in Hent; discriminate Hent).
  apply iD_commit; try assumption; auto.
  all: first [ lia | (repeat constructor; fail)
             | (apply (dsk_keep c t _ [ERet t (len_res hm a) []]); try assumption; [reflexivity|];
                intros H; cbn [app]; apply skip_returned_cons; exact H)
             | (cbn [app]; rewrite esr_ret_noend by apply is_end_len_res; apply (d_es c I))
             | (cbn [set_pc t_pc]; intros; discriminate)
             | (unfold zr_ok; cbn [app]; rewrite pend_call_self_ret; exact I0)
             | (cbn [app]; rewrite all_rets_ret, (d_evs c I), andb_true_r; exact Hev)
             | idtac ].
  cbn [app min_reported]. destruct a as [n|].
  - rewrite len_answer_len_res. intros m Hm. destruct (min_reported (c_trace c)) as [m0|] eqn:Em.
    + injection Hm as <-. destruct (Hrep n eq_refl) as [H|[H0 H]]; [left; exact H|].
      destruct (d_rep c I m0 Em) as [H'|[_ H']]; [left; exact H'|right; split; [exact H0|lia]].
    + injection Hm as <-. apply Hrep. reflexivity.
  - rewrite len_answer_len_none. apply (d_rep c I).
Qed.

Lemma iD_len c t hm :
  IInvA e L c -> IInvB e c -> IInvC c -> IInvD c -> In t L -> t_pc (c_pool c t) = PLen hm -> IInvD (step e c t).
Proof.
  intros A B C I Hin Hpc. rewrite (istep_len e Hk c t hm Hpc).
  assert (Hni : is_idle (c_pool c t) = false) by (unfold is_idle; rewrite Hpc; reflexivity).
  assert (Hent : entry_of (t_pc (c_pool c t)) = PLen hm) by (rewrite Hpc; reflexivity).
  destruct (call_ctx e L c t A Hni) as (o & older & Hpend & Hres & Hsplit & Hsuf).
  assert (Hnone : s_f (c_sh c) = false -> e_hint e <> HExact ->
            IInvD (commit c t (c_sh c) (set_pc (c_pool c t) PIdle) (LAtom t SF ALoad 0 (bN false) ord_completed_load_try_get_len)
                          [ERet t (len_res hm None) []])).
  { intros Ef Eh. apply (iD_len_ret c t hm None); try assumption.
    - intros n H; discriminate H.
    - apply ev_C11_len with o older; [exact Hsplit| |intros n m H; discriminate H].
      intros _.
      assert (Hes : end_reported_strong older = false).
      { destruct (end_reported_strong older) eqn:E; [|reflexivity]. pose proof (d_es c I (esr_suffix _ _ Hsuf E)). congruence. }
      assert (Hsk : skip_returned older = false).
      { destruct (skip_returned older) eqn:E; [|reflexivity]. pose proof (b_skip e c B (skip_returned_suffix _ _ Hsuf E)). congruence. }
      split; [|rewrite Hes; discriminate].
      rewrite Hes, Hsk. unfold knows_len. rewrite Hk. destruct (e_hint e); [contradiction Eh; reflexivity|reflexivity|reflexivity]. }
  destruct (s_f (c_sh c)) eqn:Ef.
  - apply (iD_len_ret c t hm (Some 0)); try assumption.
    + intros n _. left. exact Ef.
    + apply ev_C11_len with o older; [exact Hsplit| |].
      * intros G. destruct (quiet_facts c t hm o older A B C I Hin (or_introl Hpc) Hpend G) as (Q1 & Q2 & Q3).
        split; [|reflexivity].
        destruct (knows_len e) eqn:Ekn; [|reflexivity]. apply N.eqb_eq.
        assert (Hfu : fused e).
        { destruct Hgen as [H|H]; [exact H|exfalso]. unfold knows_len in Ekn. rewrite Hk in Ekn.
          destruct (e_hint e); [contradiction H; reflexivity|discriminate Ekn|discriminate Ekn]. }
        destruct (Q2 Hfu Ef) as [H|H]; [rewrite H; reflexivity|]. destruct (skip_returned older); [reflexivity|]. rewrite Q1. lia.
      * intros n m E _. injection E as <-. lia.
  - destruct (e_hint e) eqn:Eh.
    + apply iD_silent; try assumption; auto.
      * rewrite Hpc; discriminate.
      * lia.
      * intros hm' _. split; [exact Eh|]. intros o' older' m Hp Hm. rewrite Hpend in Hp. injection Hp as <- <-.
        destruct (min_reported_suffix _ _ _ Hsuf Hm) as (m' & Em' & Hle).
        destruct (d_rep c I m' Em') as [H|[_ H]]; [congruence|lia].
      * intros q b k H; discriminate H.
      * apply zr_keep; try assumption; auto; try lia.
        intros b n H. discriminate H.
    + apply Hnone; [reflexivity|discriminate].
    + apply Hnone; [reflexivity|discriminate].
Qed.

Lemma iD_len2 c t hm :
  IInvA e L c -> IInvB e c -> IInvC c -> IInvD c -> In t L -> t_pc (c_pool c t) = PLen2 hm -> IInvD (step e c t).
Proof.
  intros A B C I Hin Hpc. rewrite (istep_len2 e c t hm Hpc).
  assert (Hni : is_idle (c_pool c t) = false) by (unfold is_idle; rewrite Hpc; reflexivity).
  assert (Hent : entry_of (t_pc (c_pool c t)) = PLen hm) by (rewrite Hpc; reflexivity).
  destruct (call_ctx e L c t A Hni) as (o & older & Hpend & Hres & Hsplit & Hsuf).
  destruct (d_len2 c I t hm Hpc) as [Eh Hm2].
  pose proof (b_len2 e c B t hm o older Hpc Hpend) as Hsk0.
  assert (Hfu : fused e) by (destruct Hgen as [H|H]; [exact H|contradiction]).
  pose proof (b_cs e c B Hfu) as Hcs.
  assert (Hkn : knows_len e = true) by (unfold knows_len; rewrite Hk, Eh; reflexivity).
  apply (iD_len_ret c t hm (Some (k_len e (s_c (c_sh c))))); try assumption.
  - intros n' E. injection E as <-. right. split; [exact Eh|lia].
  - apply ev_C11_len with o older; [exact Hsplit| |].
    + intros G. destruct (quiet_facts c t hm o older A B C I Hin (or_intror Hpc) Hpend G) as (Q1 & Q2 & Q3).
      assert (Hrem : k_len e (s_c (c_sh c)) = e_len e - s_cur (c_sh c)).
      { unfold k_len. destruct (s_f (c_sh c)) eqn:Ef.
        - destruct (Q2 Hfu eq_refl) as [H|H]; [congruence|]. destruct (N.ltb_spec (s_c (c_sh c)) (e_len e)); lia.
        - destruct (Q3 Hfu eq_refl) as [H|H]; destruct (N.ltb_spec (s_c (c_sh c)) (e_len e)); lia. }
      split.
      * rewrite Hkn, Hsk0, Q1. apply N.eqb_eq. exact Hrem.
      * intros Es. pose proof (d_es c I (esr_suffix _ _ Hsuf Es)) as Hf.
        destruct (Q2 Hfu Hf) as [H|H]; [congruence|]. f_equal. lia.
    + intros n' m E Hmin. injection E as <-. apply (Hm2 o older m Hpend Hmin).
Qed.

(** ** every step preserves the invariant *)

Lemma iD_step c t :
  IInvA e L c -> IInvB e c -> IInvC c -> IInvD c -> In t L -> istep_nowrap c t -> IInvD (step e c t).
Proof.
  intros A B C I Hin Hw. unfold istep_nowrap in Hw.
  destruct (t_pc (c_pool c t)) as [|q|q b|q b|q b|q b got|q b got|q b got|q b got| |hm|hm] eqn:Hpc.
  - destruct (t_todo (c_pool c t)) as [|o rest] eqn:Htodo.
    + rewrite (istep_idle_nil e) by assumption. exact I.
    + rewrite (istep_idle_call e c t o rest) by assumption. apply iD_call; assumption.
  - apply iD_res with q; assumption.
  - apply iD_chkf with q b; assumption.
  - apply iD_ldy with q b; assumption.
  - apply iD_chkt with q b; assumption.
  - apply iD_src with q b got; assumption.
  - apply iD_setf with q b got; assumption.
  - apply iD_pub with q b got; assumption.
  - apply iD_unw with q b got; assumption.
  - apply iD_skip; assumption.
  - apply iD_len with hm; assumption.
  - apply iD_len2 with hm; assumption.
Qed.

Lemma iD_init progs : IInvD (init progs).
Proof.
  split; cbn [init c_pool c_trace c_sh init_ts t_pc]; try discriminate; try reflexivity.
Qed.

Theorem iABCD_exec progs sched :
  (forall t, Forall wf_op (progs t)) ->
  Forall (fun t => In t L) sched ->
  nowrap (c_labels (exec e (init progs) sched)) ->
  IInvA e L (exec e (init progs) sched) /\ IInvB e (exec e (init progs) sched) /\
  IInvC (exec e (init progs) sched) /\ IInvD (exec e (init progs) sched).
Proof.
  intros Hp. induction sched as [|t sched IH] using rev_ind; intros Hs Hw.
  - split; [apply iA_init; assumption|]. split; [apply iB_init|]. split; [apply iC_init|apply iD_init].
  - rewrite exec_snoc in *. apply Forall_app in Hs. destruct Hs as [Hs Ht]. inversion Ht as [|? ? Hin _]; subst.
    destruct (IH Hs (step_labels_suffix e _ _ Hw)) as (A & B & C & D).
    pose proof (istep_labels e Hk _ _ Hw) as Hn.
    split; [apply iA_step; assumption|]. split; [apply iB_step with L; assumption|].
    split; [apply (iC_step e Hk L); assumption|apply iD_step; assumption].
Qed.

End IterD.

(** ** C11 on every trace of the wrapper over an arbitrary iterator *)

Theorem iter_C11_gen : forall e, iter_env e -> fused e \/ e_hint e <> HExact -> forall progs, wf_progs progs -> forall sched,
  nowrap (c_labels (exec e (init progs) sched)) ->
  chk_C11 e (c_trace (exec e (init progs) sched)) = true.
Proof.
  intros e (He & Hk) Hfu progs Hp sched Hnw.
  set (L := nodup Nat.eq_dec sched).
  assert (NDL : NoDup L) by apply NoDup_nodup.
  assert (Hs : Forall (fun t => In t L) sched) by (apply Forall_forall; intros t Ht; apply nodup_In; exact Ht).
  destruct (iABCD_exec e Hk Hfu L NDL progs sched Hp Hs Hnw) as (_ & _ & _ & D).
  unfold chk_C11. apply (d_evs e L _ D).
Qed.

(** a fused wrapped iterator with any size hint *)
Theorem iter_C11 : forall e, iter_env e -> fused e -> forall progs, wf_progs progs -> forall sched,
  nowrap (c_labels (exec e (init progs) sched)) ->
  chk_C11 e (c_trace (exec e (init progs) sched)) = true.
Proof. intros e Hie Hfu. apply iter_C11_gen; [exact Hie|left; exact Hfu]. Qed.

(** any wrapped iterator, fused or not, whose size hint is not exact: the length queries answer zero once the
    completed flag is up and "unknown" before, and a zero is definitive *)
Theorem iter_C11_inexact : forall e, iter_env e -> e_hint e <> HExact -> forall progs, wf_progs progs -> forall sched,
  nowrap (c_labels (exec e (init progs) sched)) ->
  chk_C11 e (c_trace (exec e (init progs) sched)) = true.
Proof. intros e Hie Hne. apply iter_C11_gen; [exact Hie|right; exact Hne]. Qed.

Print Assumptions iter_C11.
Print Assumptions iter_C11_inexact.
