(** * The wrapper over an arbitrary iterator: the ticket protocol and the deliveries (layer A).

    The invariant says: the program counters and the three shared numbers satisfy the protocol
    invariant [Prot] (disjoint tickets, the ticket at the yielded counter is the one inside the
    critical section, the elements taken there are the positions [b, b + |got|)), and all the
    intervals delivered or held tile [0, cursor) of the source. *)
From Coq Require Import Lia ZArith Permutation.
From OCI Require Import Machine Checkers.
From OCI.proofs Require Import Base Trace ArithOk InvKnown IterBase IterProt.
Open Scope N_scope.

Section IterA.

Variable e : env.
Hypothesis He : wf_env e.
Hypothesis Hk : e_kind e = KIter.
Variable L : list tid.
Hypothesis NDL : NoDup L.

Definition wf_reqI (q : req) : Prop :=
  1 <= q_n q /\ q_n q < W /\ (forall v, q_mode q = MSingle v -> q_n q = 1).

Lemma pub_incr_n q : wf_reqI q -> pub_incr q = q_n q.
Proof. intros (_ & _ & H). unfold pub_incr. destruct (q_mode q) eqn:M; try reflexivity. symmetry. eapply H. reflexivity. Qed.

Definition ipc_ok (ts : tstate) : Prop :=
  match t_pc ts with
  | PIdle | PSkip | PLen _ | PLen2 _ => t_acc ts = []
  | PRes q | PChkF q _ | PLdY q _ | PChkT q _ => wf_reqI q /\ (q_ctx q = CTop -> t_acc ts = [])
  | PSrc q _ g => wf_reqI q /\ (q_ctx q = CTop -> t_acc ts = []) /\ N.of_nat (length g) < q_n q
  | PSetF q _ g => wf_reqI q /\ (q_ctx q = CTop -> t_acc ts = []) /\ N.of_nat (length g) < q_n q
  | PPub q _ g => wf_reqI q /\ (q_ctx q = CTop -> t_acc ts = []) /\ N.of_nat (length g) <= q_n q /\
                  (forall v, q_mode q = MSingle v -> length g = 1%nat)
  | PUnw q _ g => wf_reqI q /\ (q_ctx q = CTop -> t_acc ts = []) /\ N.of_nat (length g) < q_n q
  end.

(** the program counter at which the operation the thread is executing started *)
Definition entry_of (p : pc) : pc :=
  match req_of p with
  | Some q => PRes q
  | None => match p with PLen2 hm => PLen hm | _ => p end
  end.

(** the pending call of the trace and the request the thread is serving *)
Definition icall_ok (tr : list event) (t : tid) (ts : tstate) : Prop :=
  if is_idle ts then pend_call t tr = None
  else exists o older, pend_call t tr = Some (o, older) /\
       call_res e ts o = CGo (entry_of (t_pc ts)).

(** what a running loop has handed to its closure so far *)
Definition iacc_ok (tr : list event) (t : tid) (ts : tstate) : Prop :=
  match pend_call t tr with
  | Some (o, older) =>
      forallb (run_idx_ok e) (t_acc ts) = true
      /\ (forall l c cr, o = Loop l c cr -> forallb (shape_ok l) (t_acc ts) = true)
      /\ increasing (rev (acc_iv e ts)) = true
      /\ all_above (iv_maxhi (cov e older)) (acc_iv e ts) = true
  | None => True
  end.

(** the closure invocations of a running loop carry the shape of its kind *)
Definition ishape_ok (tr : list event) (t : tid) (ts : tstate) : Prop :=
  match pend_call t tr with
  | Some (o, older) => forall l c cr, o = Loop l c cr -> forallb (shape_ok l) (t_acc ts) = true
  | None => True
  end.

Definition pcs_of (c : cfg) : pcs := fun t => t_pc (c_pool c t).

(** as long as nothing has panicked, the number of elements delivered or held is [n] *)
Definition counting (cl : bool) (n : N) (h : list iv) : Prop := cl = true -> iv_total h = n.

(** the part of the invariant that needs a fused wrapped iterator: positions and indices coincide, so
    that the intervals delivered or held (which mix both) tile [0, cursor) *)
Record IInvAF (c : cfg) : Prop := {
  af_prot : ProtF (e_len e) (s_c (c_sh c)) (s_y (c_sh c)) (s_cur (c_sh c)) (pcs_of c);
  af_til  : tiling (npanic (c_trace c)) (s_cur (c_sh c)) (cov e (c_trace c) ++ helds e L (c_pool c));
  af_acc  : forall t, iacc_ok (c_trace c) t (c_pool c t)
}.

(** the invariant of every wrapped iterator, fused or not; the fused part under the hypothesis *)
Record IInvA (c : cfg) : Prop := {
  a_wf   : forall t, ipc_ok (c_pool c t) /\ Forall wf_op (t_todo (c_pool c t)) /\ wf_buf (t_buf (c_pool c t));
  a_out  : forall t, ~ In t L -> is_idle (c_pool c t) = true;
  a_call : forall t, icall_ok (c_trace c) t (c_pool c t);
  a_pend : n_pending (c_trace c) = sumZ (fun t => pendZ (c_pool c t)) L;
  a_prot : Prot (e_len e) (s_c (c_sh c)) (s_y (c_sh c)) (s_cur (c_sh c)) (pcs_of c);
  a_buf  : forall t bf, t_buf (c_pool c t) = Some bf -> buf_size t (c_trace c) = Some (bf_c bf);
  a_shape : forall t, ishape_ok (c_trace c) t (c_pool c t);
  a_nofin : has_final (c_trace c) = false;
  a_cnt  : counting (npanic (c_trace c)) (s_cur (c_sh c)) (cov e (c_trace c) ++ helds e L (c_pool c));
  a_fu   : fused e -> IInvAF c
}.

Lemma a_protF c : IInvA c -> fused e ->
  ProtF (e_len e) (s_c (c_sh c)) (s_y (c_sh c)) (s_cur (c_sh c)) (pcs_of c).
Proof. intros I Hfu. apply (af_prot c (a_fu c I Hfu)). Qed.

Lemma a_til c : IInvA c -> fused e ->
  tiling (npanic (c_trace c)) (s_cur (c_sh c)) (cov e (c_trace c) ++ helds e L (c_pool c)).
Proof. intros I Hfu. apply (af_til c (a_fu c I Hfu)). Qed.

Lemma a_acc c : IInvA c -> fused e -> forall t, iacc_ok (c_trace c) t (c_pool c t).
Proof. intros I Hfu. apply (af_acc c (a_fu c I Hfu)). Qed.

(** mutual exclusion: at most one thread is inside the critical section *)
Theorem mutex c : IInvA c -> forall t u,
  in_crit (t_pc (c_pool c t)) = true -> in_crit (t_pc (c_pool c u)) = true -> t = u.
Proof. intros I t u. apply (prot_mutex _ _ _ _ _ (a_prot c I)). Qed.

Lemma iA_commit c t sh' ts' l evs :
  IInvA c -> In t L ->
  Forall (ev_of t) evs ->
  ipc_ok ts' -> Forall wf_op (t_todo ts') -> wf_buf (t_buf ts') ->
  icall_ok (evs ++ c_trace c) t ts' ->
  n_pending (evs ++ c_trace c) = (n_pending (c_trace c) - pendZ (c_pool c t) + pendZ ts')%Z ->
  Prot (e_len e) (s_c sh') (s_y sh') (s_cur sh') (upd (pcs_of c) t (t_pc ts')) ->
  (fused e -> ProtF (e_len e) (s_c sh') (s_y sh') (s_cur sh') (upd (pcs_of c) t (t_pc ts'))) ->
  (fused e -> tiling (npanic (evs ++ c_trace c)) (s_cur sh') (cov e (evs ++ c_trace c) ++ helds e L (upd (c_pool c) t ts'))) ->
  (forall bf, t_buf ts' = Some bf -> buf_size t (evs ++ c_trace c) = Some (bf_c bf)) ->
  (fused e -> iacc_ok (evs ++ c_trace c) t ts') ->
  ishape_ok (evs ++ c_trace c) t ts' ->
  counting (npanic (evs ++ c_trace c)) (s_cur sh') (cov e (evs ++ c_trace c) ++ helds e L (upd (c_pool c) t ts')) ->
  IInvA (commit c t sh' ts' l evs).
Proof.
  intros I Hin Fev Hpc Htodo Hbuf Hcall Hpend Hprot HprotF Htil Hbs Hacc Hshape Hcnt.
  assert (Hpe : forall u, (if Nat.eqb u t then t_pc ts' else pcs_of c u) = t_pc (upd (c_pool c) t ts' u)).
  { intros u. unfold pcs_of, upd. destruct (Nat.eqb u t); reflexivity. }
  split; cbn [commit c_pool c_trace c_sh].
  - intros u. destruct (Nat.eq_dec u t) as [->|Hn].
    + rewrite upd_same. auto.
    + rewrite upd_other by assumption. apply (a_wf c I).
  - intros u Hu. assert (u <> t) by (intros ->; contradiction).
    rewrite upd_other by assumption. apply (a_out c I); assumption.
  - intros u. destruct (Nat.eq_dec u t) as [->|Hn].
    + rewrite upd_same. assumption.
    + rewrite upd_other by assumption. unfold icall_ok.
      rewrite (pend_call_others t u evs _ Hn Fev). apply (a_call c I).
  - rewrite Hpend, (a_pend c I).
    transitivity (sumZ (upd (fun u => pendZ (c_pool c u)) t (pendZ ts')) L).
    + rewrite sumZ_upd by assumption. lia.
    + apply sumZ_ext. intros u _. unfold upd. destruct (Nat.eqb u t); reflexivity.
  - eapply prot_ext; [|exact Hprot]. intros u. unfold pcs_of, commit. cbn [c_pool]. unfold upd.
    destruct (Nat.eqb u t); reflexivity.
  - intros u bf. destruct (Nat.eq_dec u t) as [->|Hn].
    + rewrite upd_same. apply Hbs.
    + rewrite upd_other by assumption. rewrite (buf_size_others t u evs _ Hn Fev). apply (a_buf c I).
  - intros u. destruct (Nat.eq_dec u t) as [->|Hn].
    + rewrite upd_same. assumption.
    + rewrite upd_other by assumption. unfold ishape_ok.
      rewrite (pend_call_others t u evs _ Hn Fev). apply (a_shape c I).
  - pose proof (a_nofin c I) as Hn. clear - Fev Hn. induction evs as [|ev evs IH]; [exact Hn|].
    inversion Fev as [|? ? H1 H2]; subst. cbn [app]. destruct ev; cbn [ev_of] in H1; try contradiction; cbn [has_final]; auto.
  - exact Hcnt.
  - intros Hfu. split; cbn [commit c_pool c_trace c_sh].
    + eapply protF_ext; [|exact (HprotF Hfu)]. intros u. unfold pcs_of, commit. cbn [c_pool]. unfold upd.
      destruct (Nat.eqb u t); reflexivity.
    + exact (Htil Hfu).
    + intros u. destruct (Nat.eq_dec u t) as [->|Hn].
      * rewrite upd_same. exact (Hacc Hfu).
      * rewrite upd_other by assumption. unfold iacc_ok.
        rewrite (pend_call_others t u evs _ Hn Fev). apply (a_acc c I Hfu).
Qed.

(** the tiling after a step, from a local statement about what thread [t] holds *)
Lemma htil_gen cl cl' n n' pool t (tr : list event) newcov ts' :
  In t L ->
  (forall rest, tiling cl n (held e (pool t) ++ rest) -> tiling cl' n' ((newcov ++ held e ts') ++ rest)) ->
  tiling cl n (cov e tr ++ helds e L pool) ->
  tiling cl' n' ((newcov ++ cov e tr) ++ helds e L (upd pool t ts')).
Proof.
  intros Hin Hloc T. destruct (helds_upd e L pool t ts' NDL Hin) as (rest & P1 & P2).
  assert (T1 : tiling cl n (held e (pool t) ++ (cov e tr ++ rest))).
  { eapply tiling_perm; [|exact T]. rewrite P1. rewrite !app_assoc. apply Permutation_app_tail. apply Permutation_app_comm. }
  apply Hloc in T1. eapply tiling_perm; [|exact T1].
  rewrite P2. rewrite <- !app_assoc. apply Permutation_app_head.
  rewrite !app_assoc. apply Permutation_app_tail. apply Permutation_app_comm.
Qed.

(** nothing new, the thread holds the same intervals up to permutation, some of them now in the trace *)
Lemma htil_same cl cl' c t ts' (newcov : list iv) :
  IInvA c -> In t L -> (cl' = true -> cl = true) ->
  tiling cl (s_cur (c_sh c)) (cov e (c_trace c) ++ helds e L (c_pool c)) ->
  Permutation (newcov ++ held e ts') (held e (c_pool c t)) ->
  tiling cl' (s_cur (c_sh c)) ((newcov ++ cov e (c_trace c)) ++ helds e L (upd (c_pool c) t ts')).
Proof.
  intros I Hin Hcl T P. eapply htil_gen; [exact Hin| |exact T].
  intros rest T1. eapply tiling_weaken; [exact Hcl|].
  eapply tiling_perm; [|exact T1]. apply Permutation_app_tail. symmetry. exact P.
Qed.

(** the count after a step, from a local statement about what thread [t] holds *)
Lemma iv_total_held ts : iv_total (held e ts) = iv_total (acc_iv e ts) + N.of_nat (length (got_of (t_pc ts))).
Proof. unfold held. rewrite iv_total_app. destruct (t_pc ts); cbn [iv_total got_of length N.of_nat snd]; lia. Qed.

Lemma hcnt_step cl cl' n n' pool t (tr : list event) newcov ts' :
  In t L -> (cl' = true -> cl = true) ->
  (cl' = true -> iv_total newcov + iv_total (held e ts') + n = n' + iv_total (held e (pool t))) ->
  counting cl n (cov e tr ++ helds e L pool) ->
  counting cl' n' ((newcov ++ cov e tr) ++ helds e L (upd pool t ts')).
Proof.
  intros Hin Hcl Hloc C Hc'. specialize (C (Hcl Hc')). specialize (Hloc Hc').
  destruct (helds_upd e L pool t ts' NDL Hin) as (rest & P1 & P2).
  rewrite !iv_total_app in *. rewrite (iv_total_perm _ _ P2), iv_total_app.
  rewrite (iv_total_perm _ _ P1), iv_total_app in C. lia.
Qed.

Lemma iv_total_runs rs : iv_total (map (run_iv e) rs) = total_cnt rs.
Proof. induction rs as [|r rs IH]; [reflexivity|]. cbn [map iv_total total_cnt run_iv snd]. rewrite IH. reflexivity. Qed.

Lemma total_cnt_strip rs : total_cnt (map strip_idx rs) = total_cnt rs.
Proof. induction rs as [|r rs IH]; [reflexivity|]. cbn [map total_cnt strip_idx mk_run r_cnt]. rewrite IH. reflexivity. Qed.

Lemma total_cnt_take : forall rs k, k <= total_cnt rs -> total_cnt (runs_take k rs) = k.
Proof.
  induction rs as [|r rs IH]; intros k Hle; cbn [runs_take total_cnt] in *; [lia|].
  destruct (N.eqb_spec k 0) as [->|Hz]; [reflexivity|]. destruct (N.leb_spec (r_cnt r) k) as [H|H].
  - cbn [total_cnt]. rewrite IH by lia. lia.
  - cbn [total_cnt mk_run r_cnt]. lia.
Qed.

Lemma total_cnt_runs_of vs : forall i, total_cnt (runs_of i vs) = N.of_nat (length vs).
Proof.
  induction vs as [|v vs IH]; intros i; [reflexivity|]. cbn [runs_of length]. specialize (IH (i + 1)).
  destruct (runs_of (i + 1) vs) as [|r rs].
  - cbn [total_cnt mk_run r_cnt] in *. lia.
  - destruct (r_val r =? v + 1); cbn [total_cnt mk_run r_cnt] in *; lia.
Qed.

Lemma loop_invoke_total l crash done rs cnt inv :
  loop_invoke l crash done rs cnt = (inv, None) -> iv_total (map (run_iv e) inv) = total_cnt rs.
Proof.
  unfold loop_invoke.
  assert (Hm : iv_total (map (run_iv e) (map (match l with LEnum => fun r => r | _ => strip_idx end) rs)) = total_cnt rs).
  { rewrite iv_total_runs. destruct l; [apply total_cnt_strip| |apply total_cnt_strip].
    induction rs as [|r rs IH]; [reflexivity|]. cbn [map total_cnt]. rewrite IH. reflexivity. }
  destruct crash as [k|].
  - destruct ((done <=? k) && (k <? done + cnt)); intros E; [discriminate E|]. injection E as <-. exact Hm.
  - intros E. injection E as <-. exact Hm.
Qed.

(** ** the call point *)

Lemma istep_idle_nil c t : t_pc (c_pool c t) = PIdle -> t_todo (c_pool c t) = [] -> step e c t = c.
Proof. intros H1 H2. unfold step. rewrite H1, H2. reflexivity. Qed.

Lemma istep_idle_call c t o rest : t_pc (c_pool c t) = PIdle -> t_todo (c_pool c t) = o :: rest ->
  step e c t = call e c t (c_pool c t) o rest.
Proof. intros H1 H2. unfold step. rewrite H1, H2. reflexivity. Qed.

Lemma call_go_iter ts o p : call_res e ts o = CGo p -> wf_op o -> wf_buf (t_buf ts) ->
  ticket p = None /\ in_crit p = false /\ (forall q b g, p <> PPub q b g) /\ (forall q b g, p <> PSetF q b g) /\
  p <> PIdle /\ (forall c0, o <> BufNew c0) /\
  match p with PRes q => wf_reqI q | PSkip | PLen _ => True | _ => False end /\
  entry_of p = p.
Proof.
  unfold call_res. intros E Hwo Hbuf.
  assert (Hfin : forall q, 1 <= q_n q -> q_n q < W -> (forall v, q_mode q = MSingle v -> q_n q = 1) ->
     ticket (PRes q) = None /\ in_crit (PRes q) = false /\ (forall q0 b g, PRes q <> PPub q0 b g) /\ (forall q0 b g, PRes q <> PSetF q0 b g) /\
     PRes q <> PIdle /\ wf_reqI q /\ entry_of (PRes q) = PRes q).
  { intros q H1 H2 H3. repeat split; try discriminate; assumption. }
  destruct o; cbn [wf_op] in Hwo.
  - injection E as <-. destruct (Hfin {| q_n := 1; q_mode := MSingle v; q_ctx := CTop |}) as (A1 & A2 & A3 & A4 & A5 & A6 & A7);
      cbn [q_n q_mode]; rewrite ?W_val in *; try lia; try (intros; reflexivity); refine (conj A1 (conj A2 (conj A3 (conj A4 (conj A5 (conj _ (conj A6 A7))))))); discriminate.
  - rewrite Hk in E. destruct (N.eqb_spec n 0); [discriminate|]. injection E as <-.
    destruct (Hfin {| q_n := n; q_mode := MChunk k; q_ctx := CTop |}) as (A1 & A2 & A3 & A4 & A5 & A6 & A7);
      cbn [q_n q_mode]; rewrite ?W_val in *; try lia; try (intros; discriminate); refine (conj A1 (conj A2 (conj A3 (conj A4 (conj A5 (conj _ (conj A6 A7))))))); discriminate.
  - destruct (c =? 0); discriminate.
  - destruct (t_buf ts) as [bf|]; [|discriminate]. injection E as <-. cbn [wf_buf] in Hbuf.
    destruct (Hfin {| q_n := bf_c bf; q_mode := MBuf k; q_ctx := CTop |}) as (A1 & A2 & A3 & A4 & A5 & A6 & A7);
      cbn [q_n q_mode]; rewrite ?W_val in *; try lia; try (intros; discriminate); refine (conj A1 (conj A2 (conj A3 (conj A4 (conj A5 (conj _ (conj A6 A7))))))); discriminate.
  - discriminate.
  - destruct (N.eqb_spec c 0); [discriminate|]. destruct (N.eqb_spec c 1).
    + injection E as <-.
      destruct (Hfin {| q_n := 1; q_mode := MSingle match l with LEnum => NIdVal | _ => NVal end; q_ctx := CLoop l crash |}) as (A1 & A2 & A3 & A4 & A5 & A6 & A7);
        cbn [q_n q_mode]; rewrite ?W_val in *; try lia; try (intros; reflexivity); refine (conj A1 (conj A2 (conj A3 (conj A4 (conj A5 (conj _ (conj A6 A7))))))); discriminate.
    + injection E as <-.
      destruct (Hfin {| q_n := c; q_mode := MBuf c; q_ctx := CLoop l crash |}) as (A1 & A2 & A3 & A4 & A5 & A6 & A7);
        cbn [q_n q_mode]; rewrite ?W_val in *; try lia; try (intros; discriminate); refine (conj A1 (conj A2 (conj A3 (conj A4 (conj A5 (conj _ (conj A6 A7))))))); discriminate.
  - injection E as <-. repeat split; discriminate.
  - injection E as <-. repeat split; discriminate.
  - injection E as <-. repeat split; discriminate.
Qed.

Lemma held_idle ts : t_pc ts = PIdle -> t_acc ts = [] -> held e ts = [].
Proof. intros H1 H2. unfold held, acc_iv. rewrite H1, H2. reflexivity. Qed.

Lemma iacc_idle c t : IInvA c -> is_idle (c_pool c t) = true -> t_acc (c_pool c t) = [].
Proof.
  intros I H. destruct (a_wf c I t) as (Hpc & _ & _). unfold ipc_ok in Hpc. unfold is_idle in H.
  destruct (t_pc (c_pool c t)); try discriminate. exact Hpc.
Qed.

Lemma iA_call c t o rest :
  IInvA c -> In t L -> t_pc (c_pool c t) = PIdle -> t_todo (c_pool c t) = o :: rest ->
  IInvA (call e c t (c_pool c t) o rest).
Proof.
  intros I Hin Hpc Htodo.
  destruct (a_wf c I t) as (Hok & Hops & Hbuf). rewrite Htodo in Hops.
  inversion Hops as [|? ? Hwo Hrest]; subst.
  assert (Hidle : is_idle (c_pool c t) = true) by (unfold is_idle; now rewrite Hpc).
  assert (Hacc : t_acc (c_pool c t) = []) by (apply iacc_idle; assumption).
  assert (Hheld : held e (c_pool c t) = []) by (apply held_idle; assumption).
  assert (Htk0 : ticket (pcs_of c t) = None) by (unfold pcs_of; rewrite Hpc; reflexivity).
  unfold call. destruct (call_res e (c_pool c t) o) as [p|b r d] eqn:E.
  - destruct (call_go_iter _ _ _ E Hwo Hbuf) as (Tp & Cp & Np1 & Np2 & Nidle & Nbuf & Hreq & Hrq).
    assert (Hni : is_idle {| t_pc := p; t_todo := rest; t_buf := t_buf (c_pool c t); t_acc := [] |} = false).
    { unfold is_idle. cbn [t_pc]. destruct p; try reflexivity. contradiction Nidle; reflexivity. }
    assert (Hheld' : held e {| t_pc := p; t_todo := rest; t_buf := t_buf (c_pool c t); t_acc := [] |} = []).
    { unfold held, acc_iv. cbn [t_acc t_pc map app]. destruct p; try reflexivity; discriminate Cp. }
    apply iA_commit; try assumption.
    + repeat constructor.
    + unfold ipc_ok. cbn [t_pc t_acc]. destruct p; try contradiction; try reflexivity. split; [assumption|reflexivity].
    + unfold icall_ok. rewrite Hni. exists o, (c_trace c). split.
      * cbn [app]. apply pend_call_self_call.
      * cbn [t_pc]. rewrite Hrq. eapply call_res_buf; [|exact E]. reflexivity.
    + cbn [app]. rewrite n_pending_call. unfold pendZ. rewrite Hidle, Hni. lia.
    + cbn [t_pc]. apply prot_idle; try assumption. apply (a_prot c I).
    + intros Hfu. cbn [t_pc]. apply protF_idle; try assumption. apply (a_protF c I Hfu).
    + intros Hfu. cbn [app cov]. change (cov e (c_trace c)) with ([] ++ cov e (c_trace c)).
      eapply htil_same; try eassumption; [|apply (a_til c I Hfu)|].
      * intros C. exact C.
      * rewrite Hheld, Hheld'. apply Permutation_refl.
    + cbn [t_buf app]. intros bf Hbf. rewrite buf_size_call_nonbuf by assumption. apply (a_buf c I). assumption.
    + intros Hfu. unfold iacc_ok. cbn [app]. rewrite pend_call_self_call. unfold acc_iv. cbn [t_acc map rev forallb increasing all_above].
      repeat split; auto.
    + unfold ishape_ok. cbn [app]. rewrite pend_call_self_call. intros; reflexivity.
    + cbn [app cov]. change (cov e (c_trace c)) with ([] ++ cov e (c_trace c)).
      apply hcnt_step with (cl := npanic (c_trace c)) (n := s_cur (c_sh c)); [exact Hin|intros C; exact C| |apply (a_cnt c I)].
      intros _. rewrite Hheld, Hheld'. cbn [iv_total]. lia.
  - (* the operation returns at once *)
    assert (Hnull : null_pair o r = true /\ wf_buf b /\
                    (forall bf, b = Some bf -> buf_size t (ERet t r d :: ECall t o :: c_trace c) = Some (bf_c bf))).
    { unfold call_res in E. destruct o; cbn [wf_op] in Hwo; try discriminate.
      - rewrite Hk in E. destruct (N.eqb_spec n 0); [|discriminate]. injection E as <- <- <-.
        repeat split; try assumption. intros bf Hbf. rewrite buf_size_ret, buf_size_call_nonbuf by discriminate. apply (a_buf c I). assumption.
      - destruct (N.eqb_spec c0 0).
        + injection E as <- <- <-. split; [cbn [null_pair]; apply N.eqb_eq; assumption|]. split; [assumption|].
          intros bf Hbf. rewrite buf_size_ret. cbn [buf_size]. rewrite Nat.eqb_refl. subst c0. cbn [N.eqb andb negb].
          apply (a_buf c I). assumption.
        + injection E as <- <- <-. split; [reflexivity|]. split; [cbn; lia|].
          intros bf Hbf. injection Hbf as <-. rewrite buf_size_ret. cbn [buf_size bf_c]. rewrite Nat.eqb_refl.
          destruct (N.eqb_spec c0 0); [contradiction|]. reflexivity.
      - destruct (t_buf (c_pool c t)); [discriminate|]. injection E as <- <- <-. repeat split; try reflexivity. discriminate.
      - injection E as <- <- <-. repeat split; try reflexivity. discriminate.
      - destruct (N.eqb_spec c0 0); [|destruct (c0 =? 1); discriminate].
        injection E as <- <- <-. split; [cbn [null_pair is_chunkzero]; rewrite andb_true_r; apply N.eqb_eq; assumption|]. split; [assumption|].
        intros bf Hbf. rewrite buf_size_ret, buf_size_call_nonbuf by discriminate. apply (a_buf c I). assumption. }
    destruct Hnull as (Hnull & Hb & Hbs).
    destruct (null_facts e o r Hnull) as (Hcov & Hla & _).
    assert (Hnp : is_panic r = true -> npanic (c_trace c) = true -> True) by auto.
    apply iA_commit; try assumption.
    + repeat constructor.
    + reflexivity.
    + unfold icall_ok, is_idle. cbn [t_pc app]. apply pend_call_self_ret.
    + cbn [app]. rewrite n_pending_ret, n_pending_call. unfold pendZ, is_idle. cbn [t_pc]. rewrite Hpc. lia.
    + cbn [t_pc]. apply prot_idle; try assumption; try reflexivity; try discriminate. apply (a_prot c I).
    + intros Hfu. cbn [t_pc]. apply protF_idle; try assumption; try reflexivity; try discriminate. apply (a_protF c I Hfu).
    + intros Hfu. cbn [app cov]. rewrite Hcov.
      eapply htil_same; try eassumption; [|apply (a_til c I Hfu)|].
      * intros C. eapply npanic_cons, npanic_cons. exact C.
      * rewrite Hheld. unfold held, acc_iv. cbn [t_acc t_pc map app]. apply Permutation_refl.
    + intros Hfu. unfold iacc_ok. cbn [app]. rewrite pend_call_self_ret. exact I0.
    + unfold ishape_ok. cbn [app]. rewrite pend_call_self_ret. exact I0.
    + cbn [app cov]. rewrite Hcov.
      apply hcnt_step with (cl := npanic (c_trace c)) (n := s_cur (c_sh c)); [exact Hin| | |apply (a_cnt c I)].
      * intros C. eapply npanic_cons, npanic_cons. exact C.
      * intros _. rewrite Hheld. unfold held, acc_iv. cbn [t_acc t_pc map app iv_total]. lia.
Qed.

(** ** steps that only move the program counter *)

Lemma is_idle_set_pc ts p : is_idle (set_pc ts p) = match p with PIdle => true | _ => false end.
Proof. reflexivity. Qed.

Lemma iA_silent c t sh' p' l :
  IInvA c -> In t L ->
  is_idle (c_pool c t) = false -> p' <> PIdle ->
  entry_of p' = entry_of (t_pc (c_pool c t)) ->
  ipc_ok (set_pc (c_pool c t) p') ->
  Prot (e_len e) (s_c sh') (s_y sh') (s_cur sh') (upd (pcs_of c) t p') ->
  (fused e -> ProtF (e_len e) (s_c sh') (s_y sh') (s_cur sh') (upd (pcs_of c) t p')) ->
  (fused e -> forall cl rest, tiling cl (s_cur (c_sh c)) (held e (c_pool c t) ++ rest) ->
                   tiling cl (s_cur sh') (held e (set_pc (c_pool c t) p') ++ rest)) ->
  N.of_nat (length (got_of p')) + s_cur (c_sh c) = s_cur sh' + N.of_nat (length (got_of (t_pc (c_pool c t)))) ->
  IInvA (commit c t sh' (set_pc (c_pool c t) p') l []).
Proof.
  intros I Hin Hni Hp' Hreq Hpc Hprot HprotF Hloc Hcn.
  destruct (a_wf c I t) as (Hok & Hops & Hbuf).
  assert (Hni' : is_idle (set_pc (c_pool c t) p') = false) by (rewrite is_idle_set_pc; destruct p'; try reflexivity; contradiction Hp'; reflexivity).
  apply iA_commit; try assumption.
  - constructor.
  - pose proof (a_call c I t) as Hc. unfold icall_ok in *. rewrite Hni in Hc. rewrite Hni'. cbn [app].
    destruct Hc as (o & older & Hp & Hres). exists o, older. split; [exact Hp|].
    cbn [set_pc t_pc]. rewrite Hreq.
    eapply call_res_buf; [|exact Hres]. reflexivity.
  - cbn [app]. unfold pendZ. rewrite Hni, Hni'. lia.
  - intros Hfu. cbn [app]. change (cov e (c_trace c)) with ([] ++ cov e (c_trace c)).
    eapply htil_gen; [exact Hin| |apply (a_til c I Hfu)]. intros rest T. cbn [app]. apply (Hloc Hfu). exact T.
  - cbn [app set_pc t_buf]. apply (a_buf c I).
  - intros Hfu. pose proof (a_acc c I Hfu t) as Ha. unfold iacc_ok in *. cbn [app]. unfold acc_iv in *. cbn [set_pc t_acc]. exact Ha.
  - pose proof (a_shape c I t) as Ha. unfold ishape_ok in *. cbn [app set_pc t_acc]. exact Ha.
  - cbn [app]. change (cov e (c_trace c)) with ([] ++ cov e (c_trace c)).
    apply hcnt_step with (cl := npanic (c_trace c)) (n := s_cur (c_sh c)); [exact Hin|intros C; exact C| |apply (a_cnt c I)].
    intros _. rewrite !iv_total_held. unfold acc_iv. cbn [set_pc t_pc t_acc iv_total]. lia.
Qed.

Lemma held_set_pc_nocrit ts p : in_crit p = false -> in_crit (t_pc ts) = false -> held e (set_pc ts p) = held e ts.
Proof.
  intros H1 H2. unfold held, acc_iv. cbn [set_pc t_pc t_acc].
  destruct p; try discriminate H1; destruct (t_pc ts); try discriminate H2; reflexivity.
Qed.

(** ** a pull reports the end *)

(** [X]: the empty interval the thread may hold when it is inside the critical section with nothing taken *)
Lemma iA_finish_end c t sh' q l X :
  IInvA c -> In t L ->
  req_of (t_pc (c_pool c t)) = Some q ->
  held e (c_pool c t) = acc_iv e (c_pool c t) ++ X -> (forall a, In a X -> snd a = 0) ->
  s_cur sh' = s_cur (c_sh c) ->
  (forall x, ticket x = None -> in_crit x = false -> (forall q b g, x <> PPub q b g) -> (forall q b g, x <> PSetF q b g) ->
     Prot (e_len e) (s_c sh') (s_y sh') (s_cur sh') (upd (pcs_of c) t x)) ->
  (fused e -> forall x, ticket x = None -> in_crit x = false -> (forall q b g, x <> PPub q b g) -> (forall q b g, x <> PSetF q b g) ->
     ProtF (e_len e) (s_c sh') (s_y sh') (s_cur sh') (upd (pcs_of c) t x)) ->
  IInvA (finish e c t sh' (c_pool c t) l q (Ok PREnd)).
Proof.
  intros I Hin Hreq Hheld HX Hcur Hprot HprotF.
  destruct (a_wf c I t) as (Hok & Hops & Hbuf).
  assert (Hni : is_idle (c_pool c t) = false).
  { unfold is_idle. destruct (t_pc (c_pool c t)); try reflexivity. discriminate Hreq. }
  assert (Hwq : wf_reqI q /\ (q_ctx q = CTop -> t_acc (c_pool c t) = [])).
  { unfold ipc_ok in Hok. destruct (t_pc (c_pool c t)); cbn [req_of] in Hreq; try discriminate; injection Hreq as <-; tauto. }
  destruct Hwq as [Hq Hacc0].
  pose proof (a_call c I t) as Hc. unfold icall_ok in Hc. rewrite Hni in Hc.
  destruct Hc as (o & older & Hpend & Hres).
  assert (HdropX : forall cl n rest, tiling cl n ((acc_iv e (c_pool c t) ++ X) ++ rest) -> tiling cl n (acc_iv e (c_pool c t) ++ rest)).
  { intros cl n rest. clear - HX. induction X as [|a X' IH]; [rewrite app_nil_r; auto|].
    intros T. apply IH; [intros; apply HX; right; assumption|].
    assert (P : Permutation ((acc_iv e (c_pool c t) ++ a :: X') ++ rest) (a :: (acc_iv e (c_pool c t) ++ X') ++ rest)).
    { rewrite <- !app_assoc. cbn [app]. symmetry. apply Permutation_middle. }
    pose proof (tiling_perm cl n _ _ P T) as T'.
    assert (Hz : snd a = 0) by (apply HX; left; reflexivity).
    exact (proj1 (tiling_empty_iv cl n a _ Hz) T'). }
  assert (HX0 : forall Y : list iv, (forall a, In a Y -> snd a = 0) -> iv_total Y = 0).
  { intros Y. induction Y as [|a Y IH]; intros HY; [reflexivity|]. cbn [iv_total].
    rewrite (HY a (or_introl eq_refl)), IH by (intros a' Ha'; apply HY; right; exact Ha'). reflexivity. }
  unfold finish, deliver. destruct (q_ctx q) as [|lk crash] eqn:Ctx.
  - (* directly *)
    specialize (Hacc0 eq_refl).
    cbn [ret_ev]. apply iA_commit; try assumption.
    + repeat constructor.
    + unfold icall_ok. rewrite is_idle_set_pc. cbn [app]. apply pend_call_self_ret.
    + cbn [app]. rewrite n_pending_ret. unfold pendZ. rewrite Hni, is_idle_set_pc. lia.
    + cbn [set_pc t_pc]. apply Hprot; try reflexivity; discriminate.
    + intros Hfu. cbn [set_pc t_pc]. apply (HprotF Hfu); try reflexivity; discriminate.
    + intros Hfu. cbn [app cov res_cover res_taken]. rewrite Hcur.
      change (cov e (c_trace c)) with ([] ++ cov e (c_trace c)).
      eapply htil_gen; [exact Hin| |apply (a_til c I Hfu)]. intros rest T. cbn [app].
      rewrite Hheld in T. apply HdropX in T.
      assert (held e (set_pc (c_pool c t) PIdle) = acc_iv e (c_pool c t)) as -> by (unfold held, acc_iv; cbn [set_pc t_pc t_acc]; apply app_nil_r).
      eapply tiling_weaken; [|exact T]. intros C. eapply npanic_cons. exact C.
    + cbn [app set_pc t_buf]. intros bf Hbf. rewrite buf_size_ret. apply (a_buf c I). assumption.
    + intros Hfu. unfold iacc_ok. cbn [app]. rewrite pend_call_self_ret. exact I0.
    + unfold ishape_ok. cbn [app]. rewrite pend_call_self_ret. exact I0.
    + cbn [app cov res_cover res_taken]. rewrite Hcur.
      change (cov e (c_trace c)) with ([] ++ cov e (c_trace c)).
      apply hcnt_step with (cl := npanic (c_trace c)) (n := s_cur (c_sh c)); [exact Hin| | |apply (a_cnt c I)].
      * intros C. eapply npanic_cons. exact C.
      * intros _. rewrite Hheld, iv_total_app, (HX0 X HX). unfold held, acc_iv. cbn [set_pc t_pc t_acc iv_total].
        rewrite iv_total_app. cbn [iv_total]. lia.
  - (* the loop returns *)
    cbn [ret_ev]. apply iA_commit; try assumption.
    + repeat constructor.
    + unfold ipc_ok. cbn [t_pc t_acc]. reflexivity.
    + unfold icall_ok, is_idle. cbn [t_pc app]. apply pend_call_self_ret.
    + cbn [app]. rewrite n_pending_ret. unfold pendZ. rewrite Hni. unfold is_idle. cbn [t_pc]. lia.
    + cbn [t_pc]. apply Hprot; try reflexivity; discriminate.
    + intros Hfu. cbn [t_pc]. apply (HprotF Hfu); try reflexivity; discriminate.
    + intros Hfu. cbn [app cov res_cover res_taken]. rewrite Hcur.
      eapply htil_gen; [exact Hin| |apply (a_til c I Hfu)]. intros rest T.
      rewrite Hheld in T. apply HdropX in T.
      assert (held e {| t_pc := PIdle; t_todo := t_todo (c_pool c t); t_buf := t_buf (c_pool c t); t_acc := [] |} = []) as -> by reflexivity.
      rewrite app_nil_r. eapply tiling_weaken; [intros C; eapply npanic_cons; exact C|].
      eapply tiling_perm; [|exact T]. apply Permutation_app_tail. unfold acc_iv. rewrite map_rev. apply Permutation_rev.
    + cbn [app t_buf]. intros bf Hbf. rewrite buf_size_ret. apply (a_buf c I). assumption.
    + intros Hfu. unfold iacc_ok. cbn [app]. rewrite pend_call_self_ret. exact I0.
    + unfold ishape_ok. cbn [app]. rewrite pend_call_self_ret. exact I0.
    + cbn [app cov res_cover res_taken]. rewrite Hcur.
      apply hcnt_step with (cl := npanic (c_trace c)) (n := s_cur (c_sh c)); [exact Hin| | |apply (a_cnt c I)].
      * intros C. eapply npanic_cons. exact C.
      * intros _. rewrite Hheld, iv_total_app, (HX0 X HX). unfold held, acc_iv. cbn [t_pc t_acc map iv_total app].
        rewrite map_rev, (iv_total_perm _ _ (Permutation_sym (Permutation_rev _))). lia.
Qed.

(** ** reserving, testing the flag, waiting for the turn *)

Lemma ipc_req c t q : IInvA c -> req_of (t_pc (c_pool c t)) = Some q ->
  wf_reqI q /\ (q_ctx q = CTop -> t_acc (c_pool c t) = []).
Proof.
  intros I Hreq. destruct (a_wf c I t) as (Hok & _ & _). unfold ipc_ok in Hok.
  destruct (t_pc (c_pool c t)); cbn [req_of] in Hreq; try discriminate; injection Hreq as <-; tauto.
Qed.

Lemma iA_res c t q :
  IInvA c -> In t L -> t_pc (c_pool c t) = PRes q ->
  s_c (c_sh c) + pub_incr q < W ->
  IInvA (step e c t).
Proof.
  intros I Hin Hpc Hw. rewrite (istep_res e Hk c t q Hpc).
  destruct (ipc_req c t q I) as [Hq Hacc]; [rewrite Hpc; reflexivity|].
  rewrite wadd_nowrap by assumption.
  apply iA_silent; try assumption.
  - unfold is_idle. rewrite Hpc. reflexivity.
  - discriminate.
  - rewrite Hpc. reflexivity.
  - unfold ipc_ok. cbn [set_pc t_pc t_acc]. split; assumption.
  - cbn [with_c s_c s_y s_cur].
    apply prot_reserve; [apply (a_prot c I) | unfold pcs_of; rewrite Hpc; reflexivity | unfold pcs_of; rewrite Hpc; reflexivity
                        | reflexivity | reflexivity | rewrite (pub_incr_n q Hq); destruct Hq; assumption | discriminate | discriminate].
  - intros Hfu. cbn [with_c s_c s_y s_cur].
    apply protF_reserve; [apply (a_prot c I) | apply (a_protF c I Hfu) | unfold pcs_of; rewrite Hpc; reflexivity | unfold pcs_of; rewrite Hpc; reflexivity
                        | reflexivity | reflexivity | rewrite (pub_incr_n q Hq); destruct Hq; assumption | discriminate | discriminate].
  - intros Hfu cl rest T. cbn [with_c s_cur]. rewrite held_set_pc_nocrit; [exact T|reflexivity|rewrite Hpc; reflexivity].
  - rewrite Hpc. cbn [got_of length N.of_nat with_c with_f with_y with_src s_cur]. lia.
Qed.

Lemma iA_chkf c t q b :
  IInvA c -> In t L -> t_pc (c_pool c t) = PChkF q b -> IInvA (step e c t).
Proof.
  intros I Hin Hpc. rewrite (istep_chkf e c t q b Hpc).
  destruct (ipc_req c t q I) as [Hq Hacc]; [rewrite Hpc; reflexivity|].
  destruct (s_f (c_sh c)) eqn:Ef.
  - (* completed: the pull reports the end and gives its ticket up *)
    apply iA_finish_end with (X := []); try assumption.
    + rewrite Hpc. reflexivity.
    + unfold held. rewrite Hpc. reflexivity.
    + intros a [].
    + reflexivity.
    + intros x Tx Cx N1 N2. apply prot_leave; try assumption; [apply (a_prot c I)|unfold pcs_of; rewrite Hpc; reflexivity].
    + intros Hfu x Tx Cx N1 N2. apply protF_leave; try assumption; [apply (a_protF c I Hfu)|unfold pcs_of; rewrite Hpc; reflexivity].
  - apply iA_silent; try assumption.
    + unfold is_idle. rewrite Hpc. reflexivity.
    + discriminate.
    + rewrite Hpc. reflexivity.
    + unfold ipc_ok. cbn [set_pc t_pc t_acc]. split; assumption.
    + apply prot_retag; try (unfold pcs_of; rewrite Hpc; reflexivity); try discriminate. apply (a_prot c I).
    + intros Hfu. apply protF_retag; try (unfold pcs_of; rewrite Hpc; reflexivity); try discriminate. apply (a_protF c I Hfu).
    + intros Hfu cl rest T. rewrite held_set_pc_nocrit; [exact T|reflexivity|rewrite Hpc; reflexivity].
    + rewrite Hpc. cbn [got_of length N.of_nat with_c with_f with_y with_src s_cur]. lia.
Qed.

Lemma iA_ldy c t q b :
  IInvA c -> In t L -> t_pc (c_pool c t) = PLdY q b -> IInvA (step e c t).
Proof.
  intros I Hin Hpc. rewrite (istep_ldy e c t q b Hpc).
  destruct (ipc_req c t q I) as [Hq Hacc]; [rewrite Hpc; reflexivity|].
  assert (Tt : ticket (pcs_of c t) = Some (b, pub_incr q)) by (unfold pcs_of; rewrite Hpc; reflexivity).
  pose proof (p_tk _ _ _ _ _ (a_prot c I) t _ _ Tt) as (Hn & Hyb & Hbc).
  destruct (N.eqb_spec b (s_y (c_sh c))) as [Eb|Nb].
  - (* its turn: it enters the critical section (where it first looks at the completed flag once more) *)
    subst b. apply iA_silent; try assumption.
    + unfold is_idle. rewrite Hpc. reflexivity.
    + discriminate.
    + rewrite Hpc. reflexivity.
    + unfold ipc_ok. cbn [set_pc t_pc t_acc]. split; assumption.
    + apply prot_enter; [apply (a_prot c I)|exact Tt|unfold pcs_of; rewrite Hpc; reflexivity].
    + intros Hfu. apply protF_enter; [apply (a_prot c I)|apply (a_protF c I Hfu)|exact Tt|unfold pcs_of; rewrite Hpc; reflexivity].
    + intros Hfu cl rest T. unfold held in *. rewrite Hpc in T. cbn [set_pc t_pc t_acc length]. unfold acc_iv in *. cbn [set_pc t_acc].
      rewrite app_nil_r in T. rewrite <- app_assoc. cbn [app].
      eapply tiling_perm; [apply Permutation_middle|].
      apply (proj2 (tiling_empty_iv cl _ (s_y (c_sh c), N.of_nat 0) _ eq_refl)). exact T.
    + rewrite Hpc. cbn [got_of length N.of_nat with_c with_f with_y with_src s_cur]. lia.
  - destruct (N.ltb_spec b (s_y (c_sh c))) as [Hlt|Hge]; [lia|].
    apply iA_silent; try assumption.
    + unfold is_idle. rewrite Hpc. reflexivity.
    + discriminate.
    + rewrite Hpc. reflexivity.
    + unfold ipc_ok. cbn [set_pc t_pc t_acc]. split; assumption.
    + apply prot_retag; try (unfold pcs_of; rewrite Hpc; reflexivity); try discriminate. apply (a_prot c I).
    + intros Hfu. apply protF_retag; try (unfold pcs_of; rewrite Hpc; reflexivity); try discriminate. apply (a_protF c I Hfu).
    + intros Hfu cl rest T. rewrite held_set_pc_nocrit; [exact T|reflexivity|rewrite Hpc; reflexivity].
    + rewrite Hpc. cbn [got_of length N.of_nat with_c with_f with_y with_src s_cur]. lia.
Qed.

(** ** its turn: the thread looks at the completed flag once more *)

Lemma iA_chkt c t q b :
  IInvA c -> In t L -> t_pc (c_pool c t) = PChkT q b -> IInvA (step e c t).
Proof.
  intros I Hin Hpc. rewrite (istep_chkt e c t q b Hpc).
  destruct (ipc_req c t q I) as [Hq Hacc]; [rewrite Hpc; reflexivity|].
  pose proof (a_prot c I) as P.
  destruct (s_f (c_sh c)) eqn:Ef.
  - (* completed in the meantime: the pull reports the end and abandons its ticket *)
    apply iA_finish_end with (X := [(b, 0)]); try assumption.
    + rewrite Hpc. reflexivity.
    + unfold held. rewrite Hpc. reflexivity.
    + intros a [<-|[]]. reflexivity.
    + reflexivity.
    + intros x Tx Cx N1 N2. apply prot_abandon; try assumption. unfold pcs_of. rewrite Hpc. reflexivity.
    + intros Hfu x Tx Cx N1 N2. apply protF_abandon; try assumption; [apply (a_protF c I Hfu)|]. unfold pcs_of. rewrite Hpc. reflexivity.
  - apply iA_silent; try assumption.
    + unfold is_idle. rewrite Hpc. reflexivity.
    + discriminate.
    + rewrite Hpc. reflexivity.
    + unfold ipc_ok. cbn [set_pc t_pc t_acc length]. split; [assumption|]. split; [assumption|]. destruct Hq. cbn. lia.
    + apply prot_retag; try (unfold pcs_of; rewrite Hpc; reflexivity). exact P.
    + intros Hfu. apply protF_retag; try (unfold pcs_of; rewrite Hpc; reflexivity); try discriminate. apply (a_protF c I Hfu).
    + intros Hfu cl rest T. unfold held in *. rewrite Hpc in T. cbn [set_pc t_pc]. unfold acc_iv in *. cbn [set_pc t_acc]. exact T.
    + rewrite Hpc. cbn [got_of length N.of_nat with_c with_f with_y with_src s_cur]. lia.
Qed.

(** ** inside the critical section: one call of the wrapped iterator *)

Lemma perm_snoc_front {A} (l : list A) x rest : Permutation ((l ++ [x]) ++ rest) (x :: l ++ rest).
Proof. rewrite <- app_assoc. cbn [app]. symmetry. apply Permutation_middle. Qed.

Lemma held_grow cl n ts b k rest :
  tiling cl n ((acc_iv e ts ++ [(b, k)]) ++ rest) -> b + k = n ->
  tiling cl (n + 1) ((acc_iv e ts ++ [(b, k + 1)]) ++ rest).
Proof.
  intros T E. pose proof (tiling_perm _ _ _ _ (perm_snoc_front _ _ _) T) as T1.
  apply tiling_grow0 in T1; [|exact E].
  eapply tiling_perm; [|exact T1]. symmetry. apply perm_snoc_front.
Qed.

Lemma iA_src c t q b g :
  IInvA c -> In t L -> t_pc (c_pool c t) = PSrc q b g -> IInvA (step e c t).
Proof.
  intros I Hin Hpc.
  destruct (ipc_req c t q I) as [Hq Hacc]; [rewrite Hpc; reflexivity|].
  destruct (a_wf c I t) as (Hok & _ & _). unfold ipc_ok in Hok. rewrite Hpc in Hok. destruct Hok as (_ & _ & Hlt).
  assert (Hni : is_idle (c_pool c t) = false) by (unfold is_idle; rewrite Hpc; reflexivity).
  assert (Tt : ticket (pcs_of c t) = Some (b, pub_incr q)) by (unfold pcs_of; rewrite Hpc; reflexivity).
  assert (Ct : in_crit (pcs_of c t) = true) by (unfold pcs_of; rewrite Hpc; reflexivity).
  pose proof (a_prot c I) as P.
  pose proof (p_cur _ _ _ _ _ P) as Hcl.
  assert (Hheld : held e (c_pool c t) = acc_iv e (c_pool c t) ++ [(b, N.of_nat (length g))]) by (unfold held; rewrite Hpc; reflexivity).
  assert (Hsame : forall x, in_crit x = true -> ticket x = Some (b, pub_incr q) -> got_of x = g ->
            (match x with PSrc _ b' g' | PSetF _ b' g' | PPub _ b' g' | PUnw _ b' g' => b' = b /\ g' = g | _ => False end) ->
            forall cl rest, tiling cl (s_cur (c_sh c)) (held e (c_pool c t) ++ rest) ->
                            tiling cl (s_cur (c_sh c)) (held e (set_pc (c_pool c t) x) ++ rest)).
  { intros x Cx Tx Gx Hx cl rest T. rewrite Hheld in T. unfold held. cbn [set_pc t_pc]. unfold acc_iv in *. cbn [set_pc t_acc].
    destruct x; try contradiction; destruct Hx as [-> ->]; exact T. }
  unfold step. rewrite Hpc.
  destruct (crashes_now e (c_sh c)).
  - (* the wrapped iterator panics *)
    apply iA_silent; try assumption; try discriminate; try (rewrite Hpc; reflexivity).
    + unfold ipc_ok. cbn [set_pc t_pc t_acc]. refine (conj Hq (conj Hacc _)); first [assumption|reflexivity].
    + cbn [with_src s_c s_y s_cur]. apply prot_retag; try (unfold pcs_of; rewrite Hpc; reflexivity). exact P.
    + intros Hfu. cbn [with_src s_c s_y s_cur]. apply protF_retag; try (unfold pcs_of; rewrite Hpc; reflexivity); try discriminate.
      apply (a_protF c I Hfu).
    + intros Hfu. cbn [with_src s_cur]. apply Hsame; try reflexivity. split; reflexivity.
    + rewrite Hpc. cbn [got_of length N.of_nat with_c with_f with_y with_src s_cur]. lia.
  - destruct (src_next_cases e (c_sh c)) as [[Es Hsl]|[Es Hsl]]; rewrite Es.
    + (* an element *)
      assert (Hgo : forall x, (x = PSrc q b (s_cur (c_sh c) :: g) /\ N.of_nat (length (s_cur (c_sh c) :: g)) < q_n q) \/
                              (x = PPub q b (s_cur (c_sh c) :: g) /\ N.of_nat (length (s_cur (c_sh c) :: g)) = q_n q) ->
                IInvA (commit c t (with_src (c_sh c) (s_cur (c_sh c) + 1) (s_calls (c_sh c) + 1)) (set_pc (c_pool c t) x)
                              (LSrc t (Some (s_cur (c_sh c)))) [])).
      { intros x Hx. apply iA_silent; try assumption.
        - destruct Hx as [[-> _]|[-> _]]; discriminate.
        - rewrite Hpc. destruct Hx as [[-> _]|[-> _]]; reflexivity.
        - unfold ipc_ok. cbn [set_pc t_pc t_acc]. destruct Hx as [[-> Hl]|[-> Hl]]; [refine (conj Hq (conj Hacc _)); lia|].
          refine (conj Hq (conj Hacc (conj _ _))); [lia|]. intros v Mv. destruct Hq as (_ & _ & H1). rewrite (H1 _ Mv) in Hlt.
          destruct g; [reflexivity|cbn [length] in Hlt; rewrite Nat2N.inj_succ in Hlt; lia].
        - cbn [with_src s_c s_y s_cur]. eapply prot_take; [exact P|unfold pcs_of; exact Hpc|exact Hsl|].
          destruct Hx as [[-> _]|[-> Hl]]; [left; reflexivity|right; split; [reflexivity|]]. rewrite (pub_incr_n q Hq). exact Hl.
        - intros Hfu. cbn [with_src s_c s_y s_cur]. eapply protF_take; [exact P|apply (a_protF c I Hfu)|unfold pcs_of; exact Hpc|exact Hsl|].
          destruct Hx as [[-> _]|[-> Hl]]; [left; reflexivity|right; split; [reflexivity|]]. rewrite (pub_incr_n q Hq). exact Hl.
        - intros Hfu cl rest T. cbn [with_src s_cur]. rewrite Hheld in T.
          pose proof (p_got _ _ _ _ _ (a_protF c I Hfu) t _ _ Ct Tt) as [_ Hcur]. unfold pcs_of in Hcur. rewrite Hpc in Hcur. cbn [got_of] in Hcur.
          assert (Hc : s_cur (c_sh c) = b + N.of_nat (length g)) by (destruct Hcur as [H|[_ H]]; [exact H|lia]).
          assert (held e (set_pc (c_pool c t) x) = acc_iv e (c_pool c t) ++ [(b, N.of_nat (length g) + 1)]) as ->.
          { unfold held, acc_iv. cbn [set_pc t_pc t_acc]. destruct Hx as [[-> _]|[-> _]]; cbn [length]; rewrite Nat2N.inj_succ; f_equal; f_equal; f_equal; lia. }
          apply held_grow; [exact T|lia].
        - cbn [with_src s_cur]. rewrite Hpc. destruct Hx as [[-> _]|[-> _]]; cbn [got_of length]; rewrite Nat2N.inj_succ; lia. }
      destruct (q_mode q) eqn:M.
      * assert (g = []) as Hg0.
        { destruct Hq as (_ & _ & H1). rewrite (H1 _ M) in Hlt. destruct g; [reflexivity|cbn [length] in Hlt; rewrite Nat2N.inj_succ in Hlt; lia]. }
        subst g. apply Hgo. right. split; [reflexivity|]. destruct Hq as (_ & _ & H1). rewrite (H1 _ M). reflexivity.
      * destruct (N.eqb_spec (N.of_nat (length (s_cur (c_sh c) :: g))) (q_n q)); apply Hgo; [right; split; [reflexivity|assumption]|left; split; [reflexivity|]].
        cbn [length] in *. rewrite Nat2N.inj_succ in *. lia.
      * destruct (N.eqb_spec (N.of_nat (length (s_cur (c_sh c) :: g))) (q_n q)); apply Hgo; [right; split; [reflexivity|assumption]|left; split; [reflexivity|]].
        cbn [length] in *. rewrite Nat2N.inj_succ in *. lia.
    + (* the wrapped iterator answers None: when it is fused, it is exhausted *)
      assert (Hgo : forall x, in_crit x = true -> ticket x = Some (b, pub_incr q) -> got_of x = g -> x <> PIdle -> req_of x = Some q ->
                (match x with PSrc _ b' g' | PSetF _ b' g' | PPub _ b' g' | PUnw _ b' g' => b' = b /\ g' = g | _ => False end) ->
                ipc_ok (set_pc (c_pool c t) x) ->
                IInvA (commit c t (with_src (c_sh c) (s_cur (c_sh c)) (s_calls (c_sh c) + 1)) (set_pc (c_pool c t) x) (LSrc t None) [])).
      { intros x Cx Tx Gx Nx Rx Hx Hix. apply iA_silent; try assumption.
        - unfold entry_of. rewrite Rx, Hpc. reflexivity.
        - cbn [with_src s_c s_y s_cur]. apply prot_retag; try (unfold pcs_of; rewrite Hpc; cbn; congruence). exact P.
        - intros Hfu. assert (Hex : s_cur (c_sh c) = e_len e) by (specialize (Hsl Hfu); lia).
          cbn [with_src s_c s_y s_cur]. apply protF_retag; try (unfold pcs_of; rewrite Hpc; cbn; congruence).
          + apply (a_protF c I Hfu).
          + intros; right; exact Hex.
          + intros; exact Hex.
        - intros Hfu. cbn [with_src s_cur]. apply Hsame; assumption.
        - cbn [with_src s_cur]. rewrite Hpc, Gx. cbn [got_of]. lia. }
      destruct (q_mode q) eqn:M.
      * assert (g = []) as -> by (destruct Hq as (_ & _ & H1); rewrite (H1 _ M) in Hlt; destruct g; [reflexivity|cbn [length] in Hlt; rewrite Nat2N.inj_succ in Hlt; lia]).
        apply Hgo; try reflexivity; try discriminate; [split; reflexivity|].
        unfold ipc_ok. cbn [set_pc t_pc t_acc]. exact (conj Hq (conj Hacc Hlt)).
      * apply Hgo; try reflexivity; try discriminate; [split; reflexivity|].
        unfold ipc_ok. cbn [set_pc t_pc t_acc]. exact (conj Hq (conj Hacc Hlt)).
      * apply Hgo; try reflexivity; try discriminate; [split; reflexivity|].
        unfold ipc_ok. cbn [set_pc t_pc t_acc]. exact (conj Hq (conj Hacc Hlt)).
Qed.

(** ** the source returned None to a single pull or to a chunk pull (short chunk): the completed flag is raised *)

Lemma iA_setf c t q b g :
  IInvA c -> In t L -> t_pc (c_pool c t) = PSetF q b g -> IInvA (step e c t).
Proof.
  intros I Hin Hpc. rewrite (istep_setf e c t q b g Hpc).
  destruct (ipc_req c t q I) as [Hq Hacc]; [rewrite Hpc; reflexivity|].
  destruct (a_wf c I t) as (Hok & _ & _). unfold ipc_ok in Hok. rewrite Hpc in Hok. destruct Hok as (_ & _ & Hlt).
  pose proof (a_prot c I) as P.
  assert (Hex : fused e -> s_cur (c_sh c) = e_len e).
  { intros Hfu. exact (p_setf _ _ _ _ _ (a_protF c I Hfu) t q b g ltac:(unfold pcs_of; exact Hpc)). }
  destruct (q_mode q) eqn:M.
  - (* a single pull: it reports the end without publishing *)
    assert (g = []) as -> by (destruct Hq as (_ & _ & H1); rewrite (H1 _ M) in Hlt; destruct g; [reflexivity|cbn [length] in Hlt; rewrite Nat2N.inj_succ in Hlt; lia]).
    apply iA_finish_end with (X := [(b, N.of_nat 0)]); try assumption.
    + rewrite Hpc. reflexivity.
    + unfold held. rewrite Hpc. reflexivity.
    + intros a [<-|[]]. reflexivity.
    + reflexivity.
    + intros x Tx Cx N1 N2. cbn [with_f s_c s_y s_cur]. apply prot_abandon; try assumption. unfold pcs_of. rewrite Hpc. reflexivity.
    + intros Hfu x Tx Cx N1 N2. cbn [with_f s_c s_y s_cur]. apply protF_abandon; try assumption; [apply (a_protF c I Hfu)|]. unfold pcs_of. rewrite Hpc. reflexivity.
  - apply iA_silent; try assumption; try discriminate.
    + unfold is_idle. rewrite Hpc. reflexivity.
    + rewrite Hpc. reflexivity.
    + unfold ipc_ok. cbn [set_pc t_pc t_acc]. refine (conj Hq (conj Hacc (conj _ _))); [lia|].
      intros v Mv. rewrite M in Mv. discriminate.
    + cbn [with_f s_c s_y s_cur]. apply prot_retag; try (unfold pcs_of; rewrite Hpc; reflexivity). exact P.
    + intros Hfu. cbn [with_f s_c s_y s_cur]. apply protF_retag; try (unfold pcs_of; rewrite Hpc; reflexivity); [apply (a_protF c I Hfu)| |discriminate].
      intros; right; exact (Hex Hfu).
    + intros Hfu cl rest T. cbn [with_f s_cur]. unfold held in *. rewrite Hpc in T. cbn [set_pc t_pc]. unfold acc_iv in *. cbn [set_pc t_acc]. exact T.
    + rewrite Hpc. cbn [got_of length N.of_nat with_c with_f with_y with_src s_cur]. lia.
  - apply iA_silent; try assumption; try discriminate.
    + unfold is_idle. rewrite Hpc. reflexivity.
    + rewrite Hpc. reflexivity.
    + unfold ipc_ok. cbn [set_pc t_pc t_acc]. refine (conj Hq (conj Hacc (conj _ _))); [lia|].
      intros v Mv. rewrite M in Mv. discriminate.
    + cbn [with_f s_c s_y s_cur]. apply prot_retag; try (unfold pcs_of; rewrite Hpc; reflexivity). exact P.
    + intros Hfu. cbn [with_f s_c s_y s_cur]. apply protF_retag; try (unfold pcs_of; rewrite Hpc; reflexivity); [apply (a_protF c I Hfu)| |discriminate].
      intros; right; exact (Hex Hfu).
    + intros Hfu cl rest T. cbn [with_f s_cur]. unfold held in *. rewrite Hpc in T. cbn [set_pc t_pc]. unfold acc_iv in *. cbn [set_pc t_acc]. exact T.
    + rewrite Hpc. cbn [got_of length N.of_nat with_c with_f with_y with_src s_cur]. lia.
Qed.

(** ** results that deliver nothing, from a thread without a ticket (skip_to_end, the length queries) *)

Lemma iA_ret_plain c t sh' r l :
  IInvA c -> In t L ->
  is_idle (c_pool c t) = false -> ticket (t_pc (c_pool c t)) = None -> in_crit (t_pc (c_pool c t)) = false ->
  t_acc (c_pool c t) = [] ->
  res_cover e r = [] ->
  s_c sh' = s_c (c_sh c) -> s_y sh' = s_y (c_sh c) -> s_cur sh' = s_cur (c_sh c) ->
  IInvA (commit c t sh' (set_pc (c_pool c t) PIdle) l [ERet t r []]).
Proof.
  intros I Hin Hni Tt Ct Hacc Hcov E1 E2 E3.
  destruct (a_wf c I t) as (Hok & Hops & Hbuf).
  assert (Hheld : held e (c_pool c t) = []).
  { unfold held, acc_iv. rewrite Hacc. destruct (t_pc (c_pool c t)); try discriminate Ct; reflexivity. }
  apply iA_commit; try assumption.
  - repeat constructor.
  - unfold icall_ok. rewrite is_idle_set_pc. cbn [app]. apply pend_call_self_ret.
  - cbn [app]. rewrite n_pending_ret. unfold pendZ. rewrite Hni, is_idle_set_pc. lia.
  - rewrite E1, E2, E3. cbn [set_pc t_pc]. apply prot_idle; try reflexivity; try discriminate; [apply (a_prot c I)|exact Tt].
  - intros Hfu. rewrite E1, E2, E3. cbn [set_pc t_pc]. apply protF_idle; try reflexivity; try discriminate; [apply (a_protF c I Hfu)|exact Tt].
  - intros Hfu. cbn [app cov]. rewrite Hcov, E3.
    eapply htil_same; try eassumption; [|apply (a_til c I Hfu)|].
    + intros C. eapply npanic_cons. exact C.
    + rewrite Hheld. unfold held, acc_iv. cbn [set_pc t_pc t_acc]. rewrite Hacc. apply Permutation_refl.
  - cbn [app set_pc t_buf]. intros bf Hbf. rewrite buf_size_ret. apply (a_buf c I). assumption.
  - intros Hfu. unfold iacc_ok. cbn [app]. rewrite pend_call_self_ret. exact I0.
  - unfold ishape_ok. cbn [app]. rewrite pend_call_self_ret. exact I0.
  - cbn [app cov]. rewrite Hcov, E3.
    apply hcnt_step with (cl := npanic (c_trace c)) (n := s_cur (c_sh c)); [exact Hin| | |apply (a_cnt c I)].
    + intros C. eapply npanic_cons. exact C.
    + intros _. rewrite Hheld. unfold held, acc_iv. cbn [set_pc t_pc t_acc]. rewrite Hacc. cbn [map app iv_total]. lia.
Qed.

Lemma iA_skip c t : IInvA c -> In t L -> t_pc (c_pool c t) = PSkip -> IInvA (step e c t).
Proof.
  intros I Hin Hpc. rewrite (istep_skip e Hk c t Hpc).
  destruct (a_wf c I t) as (Hok & _ & _). unfold ipc_ok in Hok. rewrite Hpc in Hok.
  apply iA_ret_plain; try assumption; try reflexivity; try (rewrite Hpc; reflexivity).
  unfold is_idle. rewrite Hpc. reflexivity.
Qed.

Lemma iA_len c t hm : IInvA c -> In t L -> t_pc (c_pool c t) = PLen hm -> IInvA (step e c t).
Proof.
  intros I Hin Hpc. rewrite (istep_len e Hk c t hm Hpc).
  destruct (a_wf c I t) as (Hok & _ & _). unfold ipc_ok in Hok. rewrite Hpc in Hok.
  assert (Hni : is_idle (c_pool c t) = false) by (unfold is_idle; rewrite Hpc; reflexivity).
  assert (Hplain : forall r, res_cover e r = [] ->
            IInvA (commit c t (c_sh c) (set_pc (c_pool c t) PIdle) (LAtom t SF ALoad 0 (bN (s_f (c_sh c))) ord_completed_load_try_get_len) [ERet t r []])).
  { intros r Hr. apply iA_ret_plain; try assumption; try reflexivity; rewrite Hpc; reflexivity. }
  destruct (s_f (c_sh c)).
  - apply Hplain. destruct hm; reflexivity.
  - destruct (e_hint e).
    + apply iA_silent; try assumption; try discriminate.
      * rewrite Hpc. reflexivity.
      * apply prot_idle; try reflexivity; try discriminate; [apply (a_prot c I)|unfold pcs_of; rewrite Hpc; reflexivity].
      * intros Hfu. apply protF_idle; try reflexivity; try discriminate; [apply (a_protF c I Hfu)|unfold pcs_of; rewrite Hpc; reflexivity].
      * intros Hfu cl rest T. unfold held in *. rewrite Hpc in T. cbn [set_pc t_pc]. unfold acc_iv in *. cbn [set_pc t_acc]. exact T.
      * rewrite Hpc. cbn [got_of length N.of_nat with_c with_f with_y with_src s_cur]. lia.
    + apply Hplain. destruct hm; reflexivity.
    + apply Hplain. destruct hm; reflexivity.
Qed.

Lemma iA_len2 c t hm : IInvA c -> In t L -> t_pc (c_pool c t) = PLen2 hm -> IInvA (step e c t).
Proof.
  intros I Hin Hpc. rewrite (istep_len2 e c t hm Hpc).
  destruct (a_wf c I t) as (Hok & _ & _). unfold ipc_ok in Hok. rewrite Hpc in Hok.
  apply iA_ret_plain; try assumption; try reflexivity; try (rewrite Hpc; reflexivity).
  - unfold is_idle. rewrite Hpc. reflexivity.
  - destruct hm; reflexivity.
Qed.

(** ** unwinding from a panic of the wrapped iterator *)

Lemma iA_unw_gen c t q b g ts' d l :
  IInvA c -> In t L -> t_pc (c_pool c t) = PUnw q b g ->
  t_pc ts' = PIdle -> t_acc ts' = [] -> t_todo ts' = t_todo (c_pool c t) -> wf_buf (t_buf ts') ->
  (forall bf', t_buf ts' = Some bf' -> exists bf, t_buf (c_pool c t) = Some bf /\ bf_c bf' = bf_c bf) ->
  IInvA (commit c t (with_f (c_sh c) true) ts' l [ERet t (RPanic PkSource (rev (t_acc (c_pool c t)))) d]).
Proof.
  intros I Hin Hpc Hp' Ha' Ht' Hb' Hbc.
  destruct (a_wf c I t) as (Hok & Hops & Hbuf).
  assert (Hni : is_idle (c_pool c t) = false) by (unfold is_idle; rewrite Hpc; reflexivity).
  apply iA_commit; try assumption.
  - repeat constructor.
  - unfold ipc_ok. rewrite Hp'. exact Ha'.
  - rewrite Ht'. exact Hops.
  - unfold icall_ok, is_idle. rewrite Hp'. cbn [app]. apply pend_call_self_ret.
  - cbn [app]. rewrite n_pending_ret. unfold pendZ. rewrite Hni. unfold is_idle. rewrite Hp'. lia.
  - cbn [with_f s_c s_y s_cur]. rewrite Hp'. apply prot_abandon; try reflexivity; try discriminate; [apply (a_prot c I)|].
    unfold pcs_of. rewrite Hpc. reflexivity.
  - intros Hfu. cbn [with_f s_c s_y s_cur]. rewrite Hp'. apply protF_abandon; try reflexivity; try discriminate; [apply (a_prot c I)|apply (a_protF c I Hfu)|].
    unfold pcs_of. rewrite Hpc. reflexivity.
  - intros Hfu. cbn [app cov res_cover res_taken with_f s_cur]. rewrite npanic_ret. cbn [is_panic negb andb].
    eapply htil_gen; [exact Hin| |apply (a_til c I Hfu)]. intros rest T.
    unfold held in *. rewrite Hpc in T. rewrite Hp'. unfold acc_iv in *. rewrite Ha'. cbn [map app]. rewrite app_nil_r.
    apply tiling_unclean in T.
    pose proof (tiling_perm _ _ _ _ (perm_snoc_front _ _ _) T) as T1. apply tiling_drop_head in T1.
    eapply tiling_perm; [|exact T1]. apply Permutation_app_tail. rewrite map_rev. apply Permutation_rev.
  - cbn [app]. intros bf' Hbf'. rewrite buf_size_ret. destruct (Hbc bf' Hbf') as (bf & Hbf & Ec). rewrite Ec. apply (a_buf c I). assumption.
  - intros Hfu. unfold iacc_ok. cbn [app]. rewrite pend_call_self_ret. exact I0.
  - unfold ishape_ok. cbn [app]. rewrite pend_call_self_ret. exact I0.
  - cbn [app]. unfold counting. rewrite npanic_ret. cbn [is_panic negb andb]. discriminate.
Qed.

Lemma iA_unw c t q b g :
  IInvA c -> In t L -> t_pc (c_pool c t) = PUnw q b g -> IInvA (step e c t).
Proof.
  intros I Hin Hpc. destruct (a_wf c I t) as (Hok & Hops & Hbuf).
  unfold step. rewrite Hpc.
  assert (Hgen : forall d, IInvA (commit c t (with_f (c_sh c) true)
            {| t_pc := PIdle; t_todo := t_todo (c_pool c t); t_buf := t_buf (c_pool c t); t_acc := [] |}
            (LAtom t SF AStore 1 0 ord_completed_store_unwind) [ERet t (RPanic PkSource (rev (t_acc (c_pool c t)))) d])).
  { intros d. apply iA_unw_gen with q b g; try assumption; try reflexivity.
    cbn [t_buf]. intros bf' H. exists bf'. split; [exact H|reflexivity]. }
  destruct (q_ctx q); [|apply Hgen].
  destruct (q_mode q); try apply Hgen.
  rewrite Hk. destruct (t_buf (c_pool c t)) as [bf|] eqn:Ebf; [|apply Hgen].
  destruct (write_slots (bf_slots bf) (rev g)) as [sl stale].
  apply iA_unw_gen with q b g; try assumption; try reflexivity.
  cbn [t_buf]. intros bf' H. injection H as <-. exists bf. split; [exact Ebf|reflexivity].
Qed.

(** ** publishing: the yielded counter advances by the whole reservation and the pull returns *)

Lemma val_of_iter b : val_of e b = b.
Proof. unfold val_of. rewrite Hk. reflexivity. Qed.

Lemma deliver_top_iter ts q b cnt :
  b < e_len e -> 1 <= cnt -> wf_reqI q -> (forall v, q_mode q = MSingle v -> cnt = 1) ->
  cnt <= q_n q -> b + cnt <= e_len e -> (cnt < q_n q -> b + cnt = e_len e) ->
  exists ts' r d, deliver_top e ts q b [mk_run (Some b) (val_of e b) cnt] cnt = (ts', (r, d))
    /\ t_pc ts' = PIdle /\ t_acc ts' = t_acc ts /\ t_todo ts' = t_todo ts
    /\ (wf_buf (t_buf ts) -> wf_buf (t_buf ts'))
    /\ (forall bf', t_buf ts' = Some bf' -> exists bf, t_buf ts = Some bf /\ bf_c bf' = bf_c bf)
    /\ is_end r = false /\ is_panic r = false /\ len_answer r = None
    /\ forallb (run_idx_ok e) (res_runs r) = true
    /\ (forall k, q_mode q = MChunk k \/ q_mode q = MBuf k -> chunk_ok e (q_n q) k r = true)
    /\ exists took, took <= cnt /\
         res_cover e r = (if took =? 0 then [] else [(b, took)]) ++ [(b + took, cnt - took)].
Proof.
  intros Hb Hc Hq Hone Hcn Hcl Hsh. unfold deliver_top.
  assert (Hchunk : forall k, 
    is_end (chunk_res b [mk_run (Some b) (val_of e b) cnt] cnt (N.min k cnt)) = false /\
    is_panic (chunk_res b [mk_run (Some b) (val_of e b) cnt] cnt (N.min k cnt)) = false /\
    len_answer (chunk_res b [mk_run (Some b) (val_of e b) cnt] cnt (N.min k cnt)) = None /\
    forallb (run_idx_ok e) (res_runs (chunk_res b [mk_run (Some b) (val_of e b) cnt] cnt (N.min k cnt))) = true /\
    chunk_ok e (q_n q) k (chunk_res b [mk_run (Some b) (val_of e b) cnt] cnt (N.min k cnt)) = true /\
    exists took, took <= cnt /\
      res_cover e (chunk_res b [mk_run (Some b) (val_of e b) cnt] cnt (N.min k cnt)) = (if took =? 0 then [] else [(b, took)]) ++ [(b + took, cnt - took)]).
  { intros k. split; [reflexivity|]. split; [reflexivity|]. split; [reflexivity|]. split; [|split].
    - unfold chunk_res. cbn [res_runs]. apply runs_take_idx_ok. apply idx_ok_one. intros _. exact Hcl.
    - apply chunk_ok_at; assumption.
    - exists (N.min k cnt). split; [lia|]. unfold chunk_res. cbn [res_cover]. apply cover_chunk; [assumption|lia]. }
  destruct (q_mode q) as [v|k|k] eqn:M.
  - rewrite (Hone v eq_refl). eexists _, _, _. split; [reflexivity|].
    cbn [set_pc t_pc t_acc t_todo t_buf].
    split; [reflexivity|]. split; [reflexivity|]. split; [reflexivity|].
    split; [intros H; exact H|]. split; [intros bf' H; exists bf'; split; [exact H|reflexivity]|].
    destruct (reports_idx v); cbn [map one_res is_end is_panic res_cover res_taken len_answer res_runs forallb];
      (split; [reflexivity|split; [reflexivity|split; [reflexivity|]]]);
      (split; [rewrite andb_true_r; try apply run_idx_ok_strip; apply run_idx_ok_at; [reflexivity|intros _; pose proof (Hone v eq_refl); lia]|]);
      (split; [intros k [X|X]; discriminate X|]); exists 0; (split; [lia|]);
      rewrite ?run_iv_strip, run_iv_at by assumption; cbn [N.eqb app]; f_equal; f_equal; lia.
  - destruct (Hchunk k) as (C1 & C2 & C3 & C4 & C5 & C6).
    eexists _, _, _. split; [reflexivity|].
    cbn [set_pc t_pc t_acc t_todo t_buf].
    split; [reflexivity|]. split; [reflexivity|]. split; [reflexivity|].
    split; [intros H; exact H|]. split; [intros bf' H; exists bf'; split; [exact H|reflexivity]|].
    split; [exact C1|]. split; [exact C2|]. split; [exact C3|]. split; [exact C4|]. split; [|exact C6].
    intros k' [X|X]; [|discriminate X]. injection X as <-. exact C5.
  - destruct (Hchunk k) as (C1 & C2 & C3 & C4 & C5 & C6). rewrite Hk.
    destruct (t_buf ts) as [bf|] eqn:Ebf.
    + destruct (write_slots (bf_slots bf) (runs_vals [mk_run (Some b) (val_of e b) cnt])) as [sl stale].
      eexists _, _, _. split; [reflexivity|]. cbn [t_pc t_acc t_todo t_buf].
      split; [reflexivity|]. split; [reflexivity|]. split; [reflexivity|].
      split; [intros H; exact H|]. split; [intros bf' H; injection H as <-; exists bf; split; reflexivity|].
      split; [exact C1|]. split; [exact C2|]. split; [exact C3|]. split; [exact C4|]. split; [|exact C6].
      intros k' [X|X]; [discriminate X|]. injection X as <-. exact C5.
    + eexists _, _, _. split; [reflexivity|]. cbn [set_pc t_pc t_acc t_todo t_buf].
      split; [reflexivity|]. split; [reflexivity|]. split; [reflexivity|].
      split; [intros _; rewrite Ebf; exact I0|]. split; [intros bf' H; rewrite Ebf in H; discriminate H|].
      split; [exact C1|]. split; [exact C2|]. split; [exact C3|]. split; [exact C4|]. split; [|exact C6].
      intros k' [X|X]; [discriminate X|]. injection X as <-. exact C5.
Qed.

Lemma loop_ops_iter ts o q l crash : call_res e ts o = CGo (PRes q) -> q_ctx q = CLoop l crash ->
  exists c, o = Loop l c crash /\ c <> 0.
Proof.
  unfold call_res. destruct o; try discriminate.
  - intros E C. injection E as <-. discriminate C.
  - rewrite Hk. destruct (n =? 0); [discriminate|]. intros E C; injection E as <-; discriminate C.
  - destruct (c =? 0); discriminate.
  - destruct (t_buf ts) as [bf|]; [|discriminate]. intros E C. injection E as <-. discriminate C.
  - destruct (N.eqb_spec c 0); [discriminate|]. destruct (c =? 1); intros E C; injection E as <-; cbn [q_ctx] in C;
      injection C as <- <-; exists c; (split; [reflexivity|assumption]).
Qed.

(** everything delivered so far, and everything the thread's loop has handled, lies below what the
    thread inside the critical section has taken *)
Lemma top_below c t b k :
  IInvA c -> fused e -> In t L ->
  held e (c_pool c t) = acc_iv e (c_pool c t) ++ [(b, k)] -> b + k = s_cur (c_sh c) -> 1 <= k ->
  iv_maxhi (cov e (c_trace c)) <= b /\ iv_maxhi (acc_iv e (c_pool c t)) <= b.
Proof.
  intros I Hfu Hin Hheld Hbk Hk1.
  destruct (helds_upd e L (c_pool c) t (c_pool c t) NDL Hin) as (rest & P1 & _).
  pose proof (a_til c I Hfu) as T.
  assert (P : Permutation (cov e (c_trace c) ++ helds e L (c_pool c))
                          ((b, k) :: (cov e (c_trace c) ++ acc_iv e (c_pool c t) ++ rest))).
  { rewrite P1, Hheld. rewrite <- !app_assoc. cbn [app].
    transitivity (cov e (c_trace c) ++ (b, k) :: acc_iv e (c_pool c t) ++ rest).
    - apply Permutation_app_head. symmetry. apply Permutation_middle.
    - symmetry. apply Permutation_middle. }
  pose proof (tiling_perm _ _ _ _ P T) as T1.
  pose proof (below_top _ _ _ _ _ T1 Hbk Hk1) as Hb.
  rewrite !iv_maxhi_app in Hb. lia.
Qed.

(** ** what a pull that obtained elements delivers, for every wrapped iterator *)

Lemma runs_of_nonnil i v vs : runs_of i (v :: vs) <> [].
Proof.
  cbn [runs_of]. destruct (runs_of (i + 1) vs) as [|r rs]; [discriminate|]. destruct (r_val r =? v + 1); discriminate.
Qed.

Lemma runs_of_idx vs : forall i r, In r (runs_of i vs) -> r_idx r <> None.
Proof.
  induction vs as [|v vs IH]; intros i r; cbn [runs_of]; [intros []|].
  destruct (runs_of (i + 1) vs) as [|r0 rs] eqn:E.
  - intros [<-|[]]. discriminate.
  - destruct (r_val r0 =? v + 1).
    + intros [<-|H]; [discriminate|]. apply (IH (i + 1)). rewrite E. right. exact H.
    + intros [<-|H]; [discriminate|]. apply (IH (i + 1)). rewrite E. exact H.
Qed.

Lemma runs_take_idx : forall rs k r, In r (runs_take k rs) -> exists r0, In r0 rs /\ r_idx r = r_idx r0.
Proof.
  induction rs as [|a rs IH]; intros k r; cbn [runs_take]; [intros []|].
  destruct (k =? 0); [intros []|]. destruct (r_cnt a <=? k).
  - intros [<-|H]; [exists a; split; [left; reflexivity|reflexivity]|].
    destruct (IH _ _ H) as (r0 & H0 & E). exists r0. split; [right; exact H0|exact E].
  - intros [<-|[]]. exists a. split; [left; reflexivity|reflexivity].
Qed.

Lemma loop_invoke_shape l crash done rs cnt :
  (forall r, In r rs -> r_idx r <> None) ->
  forallb (shape_ok l) (fst (loop_invoke l crash done rs cnt)) = true.
Proof.
  intros H. unfold loop_invoke.
  assert (Hm : forall rs', (forall r, In r rs' -> r_idx r <> None) ->
            forallb (shape_ok l) (map (match l with LEnum => fun r => r | _ => strip_idx end) rs') = true).
  { intros rs' H'. apply forallb_forall. intros x Hx. apply in_map_iff in Hx. destruct Hx as (r & <- & Hr).
    specialize (H' r Hr). unfold shape_ok. destruct l; cbn [strip_idx mk_run r_idx]; try reflexivity.
    destruct (r_idx r); [reflexivity|contradiction]. }
  destruct crash as [k|]; [|apply Hm; exact H].
  destruct ((done <=? k) && (k <? done + cnt)); cbn [fst]; apply Hm; [|exact H].
  intros r Hr. destruct (runs_take_idx _ _ _ Hr) as (r0 & H0 & E). rewrite E. apply H. exact H0.
Qed.

Lemma deliver_top_gen ts q b rs cnt :
  rs <> [] ->
  exists ts' r d, deliver_top e ts q b rs cnt = (ts', (r, d))
    /\ t_pc ts' = PIdle /\ t_acc ts' = t_acc ts /\ t_todo ts' = t_todo ts
    /\ (wf_buf (t_buf ts) -> wf_buf (t_buf ts'))
    /\ (forall bf', t_buf ts' = Some bf' -> exists bf, t_buf ts = Some bf /\ bf_c bf' = bf_c bf)
    /\ is_end r = false /\ is_panic r = false /\ len_answer r = None.
Proof.
  intros Hrs. unfold deliver_top. destruct (q_mode q) as [v|k|k].
  - eexists _, _, _. split; [reflexivity|]. cbn [set_pc t_pc t_acc t_todo t_buf].
    split; [reflexivity|]. split; [reflexivity|]. split; [reflexivity|]. split; [intros H; exact H|].
    split; [intros bf' H; exists bf'; split; [exact H|reflexivity]|].
    destruct rs as [|r0 rs0]; [contradiction Hrs; reflexivity|].
    destruct (reports_idx v); cbn [map one_res is_end is_panic len_answer]; repeat split; reflexivity.
  - eexists _, _, _. split; [reflexivity|]. cbn [set_pc t_pc t_acc t_todo t_buf].
    split; [reflexivity|]. split; [reflexivity|]. split; [reflexivity|]. split; [intros H; exact H|].
    split; [intros bf' H; exists bf'; split; [exact H|reflexivity]|]. repeat split; reflexivity.
  - rewrite Hk. destruct (t_buf ts) as [bf|] eqn:Ebf.
    + destruct (write_slots (bf_slots bf) (runs_vals rs)) as [sl stale].
      eexists _, _, _. split; [reflexivity|]. cbn [t_pc t_acc t_todo t_buf].
      split; [reflexivity|]. split; [reflexivity|]. split; [reflexivity|]. split; [intros H; exact H|].
      split; [intros bf' H; injection H as <-; exists bf; split; reflexivity|]. repeat split; reflexivity.
    + eexists _, _, _. split; [reflexivity|]. cbn [set_pc t_pc t_acc t_todo t_buf].
      split; [reflexivity|]. split; [reflexivity|]. split; [reflexivity|].
      split; [intros _; rewrite Ebf; exact I0|]. split; [intros bf' H; rewrite Ebf in H; discriminate H|].
      repeat split; reflexivity.
Qed.

(** a direct pull delivers (to the caller, or in the chunk it returns) as many elements as it took *)
Lemma deliver_top_total ts q b rs cnt ts' r d :
  deliver_top e ts q b rs cnt = (ts', (r, d)) -> total_cnt rs = cnt ->
  (forall v, q_mode q = MSingle v -> exists r0, rs = [r0]) ->
  iv_total (res_cover e r) = cnt.
Proof.
  unfold deliver_top. intros E Ht H1.
  assert (Hchunk : forall k, iv_total (res_cover e (chunk_res b rs cnt (N.min k cnt))) = cnt).
  { intros k. unfold chunk_res. cbn [res_cover]. rewrite iv_total_app, iv_total_runs, total_cnt_take by lia.
    cbn [iv_total snd]. lia. }
  destruct (q_mode q) as [v|k|k].
  - destruct (H1 v eq_refl) as (r0 & ->). injection E as _ <- _.
    cbn [total_cnt] in Ht. destruct (reports_idx v); cbn [map one_res res_cover res_taken iv_total run_iv strip_idx mk_run r_cnt snd]; lia.
  - injection E as _ <- _. apply Hchunk.
  - rewrite Hk in E. destruct (t_buf ts) as [bf|].
    + destruct (write_slots (bf_slots bf) (runs_vals rs)) as [sl stale]. injection E as _ <- _. apply Hchunk.
    + injection E as _ <- _. apply Hchunk.
Qed.

(** the publishing step of every wrapped iterator: the pull reports the end when it took nothing, and
    returns what it took otherwise *)
Lemma pub_step c t q b g :
  IInvA c -> t_pc (c_pool c t) = PPub q b g -> s_y (c_sh c) + pub_incr q < W ->
  b = s_y (c_sh c) /\ wf_reqI q /\
  step e c t = finish e c t (with_y (c_sh c) (b + q_n q)) (c_pool c t) (LAtom t SY AAdd (q_n q) b (o_pub q)) q
                 (match g with [] => Ok PREnd | _ => Ok (PRGot b (runs_of b (rev g)) (N.of_nat (length g))) end).
Proof.
  intros I Hpc Hw.
  destruct (ipc_req c t q I) as [Hq Hacc]; [rewrite Hpc; reflexivity|].
  destruct (a_wf c I t) as (Hok & Hops & Hbuf). unfold ipc_ok in Hok. rewrite Hpc in Hok. destruct Hok as (_ & _ & Hgn & Hg1).
  assert (Tt : ticket (pcs_of c t) = Some (b, pub_incr q)) by (unfold pcs_of; rewrite Hpc; reflexivity).
  assert (Ct : in_crit (pcs_of c t) = true) by (unfold pcs_of; rewrite Hpc; reflexivity).
  pose proof (p_crit _ _ _ _ _ (a_prot c I) t _ _ Ct Tt) as Hb.
  split; [exact Hb|]. split; [exact Hq|].
  unfold step. rewrite Hpc. rewrite (pub_incr_n q Hq). rewrite wadd_nowrap by (rewrite <- (pub_incr_n q Hq); assumption).
  subst b. rewrite N.eqb_refl. rewrite rev_length.
  destruct g as [|g0 g'].
  - assert (Hm : forall v, q_mode q <> MSingle v) by (intros v Mv; specialize (Hg1 v Mv); discriminate Hg1).
    cbn [rev]. destruct (q_mode q) eqn:M; [contradiction (Hm v); reflexivity|reflexivity|reflexivity].
  - destruct (rev (g0 :: g')) as [|v vs] eqn:Er.
    + exfalso. apply (f_equal (@length N)) in Er. rewrite rev_length in Er. discriminate Er.
    + destruct (q_mode q); reflexivity.
Qed.

(** when the wrapped iterator is fused, what a pull took is the interval of positions that begins at its
    ticket; it is shorter than the reservation only at the end of the source *)
Lemma pub_fused c t q b g :
  IInvA c -> fused e -> t_pc (c_pool c t) = PPub q b g -> g <> [] ->
  runs_of b (rev g) = [mk_run (Some b) (val_of e b) (N.of_nat (length g))] /\
  s_cur (c_sh c) = b + N.of_nat (length g) /\ b < e_len e /\
  (N.of_nat (length g) < q_n q -> b + N.of_nat (length g) = e_len e).
Proof.
  intros I Hfu Hpc Hgne.
  destruct (ipc_req c t q I) as [Hq Hacc]; [rewrite Hpc; reflexivity|].
  assert (Tt : ticket (pcs_of c t) = Some (b, pub_incr q)) by (unfold pcs_of; rewrite Hpc; reflexivity).
  assert (Ct : in_crit (pcs_of c t) = true) by (unfold pcs_of; rewrite Hpc; reflexivity).
  pose proof (p_cur _ _ _ _ _ (a_prot c I)) as Hcl.
  pose proof (a_protF c I Hfu) as PF.
  pose proof (p_got _ _ _ _ _ PF t _ _ Ct Tt) as [Hasc Hcur]. unfold pcs_of in Hasc, Hcur. rewrite Hpc in Hasc, Hcur. cbn [got_of] in Hasc, Hcur.
  pose proof (p_pub _ _ _ _ _ PF t q b g ltac:(unfold pcs_of; exact Hpc)) as Hfull. rewrite (pub_incr_n q Hq) in Hfull.
  assert (exists k', length g = S k') as (k' & El) by (destruct g; [contradiction Hgne; reflexivity|cbn [length]; eauto]).
  assert (Hc : s_cur (c_sh c) = b + N.of_nat (length g)) by (destruct Hcur as [H|[H _]]; [exact H|contradiction]).
  split; [|split; [exact Hc|split; [rewrite El in *; lia|intros Hlt; destruct Hfull as [H|H]; lia]]].
  rewrite Hasc, El. rewrite runs_of_asc, val_of_iter. reflexivity.
Qed.

(** what the publishing step of every wrapped iterator delivers: the positions [p, p + cnt) the wrapped
    iterator yielded to this pull, under the index [b] of its ticket *)
Lemma pub_gen c t q b g :
  IInvA c -> t_pc (c_pool c t) = PPub q b g -> s_y (c_sh c) + pub_incr q < W ->
  b = s_y (c_sh c) /\ wf_reqI q /\
  ((g = [] /\
    step e c t = finish e c t (with_y (c_sh c) (b + q_n q)) (c_pool c t) (LAtom t SY AAdd (q_n q) b (o_pub q)) q (Ok PREnd))
   \/
   (exists cnt p, cnt = N.of_nat (length g) /\ 1 <= cnt /\ cnt <= q_n q /\ p + cnt = s_cur (c_sh c) /\ p < e_len e /\
      rev g = ascN p (length g) /\ (forall v, q_mode q = MSingle v -> cnt = 1) /\
      step e c t = finish e c t (with_y (c_sh c) (b + q_n q)) (c_pool c t) (LAtom t SY AAdd (q_n q) b (o_pub q)) q
                          (Ok (PRGot b [mk_run (Some b) (val_of e p) cnt] cnt)))).
Proof.
  intros I Hpc Hw.
  destruct (pub_step c t q b g I Hpc Hw) as (Hb & Hq & Est).
  destruct (a_wf c I t) as (Hok & Hops & Hbuf). unfold ipc_ok in Hok. rewrite Hpc in Hok. destruct Hok as (_ & _ & Hgn & Hg1).
  assert (Ct : in_crit (pcs_of c t) = true) by (unfold pcs_of; rewrite Hpc; reflexivity).
  pose proof (p_gotv _ _ _ _ _ (a_prot c I) t Ct) as [Hasc Hle]. unfold pcs_of in Hasc, Hle. rewrite Hpc in Hasc, Hle. cbn [got_of] in Hasc, Hle.
  pose proof (p_cur _ _ _ _ _ (a_prot c I)) as Hcl.
  split; [exact Hb|]. split; [exact Hq|].
  destruct g as [|g0 g']; [left; split; [reflexivity|exact Est]|right].
  assert (El : length (g0 :: g') = S (length g')) by reflexivity.
  exists (N.of_nat (length (g0 :: g'))), (s_cur (c_sh c) - N.of_nat (length (g0 :: g'))).
  split; [reflexivity|]. split; [rewrite El; lia|]. split; [exact Hgn|]. split; [lia|]. split; [rewrite El in *; lia|].
  split; [exact Hasc|]. split; [intros v Mv; rewrite (Hg1 v Mv); reflexivity|].
  rewrite Est. cbv iota. rewrite Hasc, El, runs_of_asc, val_of_iter. reflexivity.
Qed.

Lemma iA_got c t q b g l :
  IInvA c -> In t L -> t_pc (c_pool c t) = PPub q b g -> g <> [] ->
  s_y (c_sh c) + pub_incr q < W -> b = s_y (c_sh c) ->
  IInvA (finish e c t (with_y (c_sh c) (b + q_n q)) (c_pool c t) l q
           (Ok (PRGot b (runs_of b (rev g)) (N.of_nat (length g))))).
Proof.
  intros I Hin Hpc Hgne Hw Hb.
  destruct (ipc_req c t q I) as [Hq Hacc]; [rewrite Hpc; reflexivity|].
  destruct (a_wf c I t) as (Hok & Hops & Hbuf). unfold ipc_ok in Hok. rewrite Hpc in Hok. destruct Hok as (_ & _ & Hgn & Hg1).
  assert (Hni : is_idle (c_pool c t) = false) by (unfold is_idle; rewrite Hpc; reflexivity).
  assert (Tt : ticket (pcs_of c t) = Some (b, pub_incr q)) by (unfold pcs_of; rewrite Hpc; reflexivity).
  assert (Ct : in_crit (pcs_of c t) = true) by (unfold pcs_of; rewrite Hpc; reflexivity).
  pose proof (a_prot c I) as P.
  pose proof (p_cur _ _ _ _ _ P) as Hcl.
  rewrite (pub_incr_n q Hq) in *.
  assert (Hheld : held e (c_pool c t) = acc_iv e (c_pool c t) ++ [(b, N.of_nat (length g))]) by (unfold held; rewrite Hpc; reflexivity).
  assert (Hprot : forall x, ticket x = None -> in_crit x = false -> (forall q b g, x <> PPub q b g) -> (forall q b g, x <> PSetF q b g) ->
            Prot (e_len e) (s_c (c_sh c)) (s_y (c_sh c) + q_n q) (s_cur (c_sh c)) (upd (pcs_of c) t x)).
  { intros x Tx Cx N1 N2. rewrite <- (pub_incr_n q Hq). eapply prot_publish; try eassumption; unfold pcs_of; exact Hpc. }
  assert (HprotF : fused e -> forall x, ticket x = None -> in_crit x = false -> (forall q b g, x <> PPub q b g) -> (forall q b g, x <> PSetF q b g) ->
            ProtF (e_len e) (s_c (c_sh c)) (s_y (c_sh c) + q_n q) (s_cur (c_sh c)) (upd (pcs_of c) t x)).
  { intros Hfu x Tx Cx N1 N2. rewrite <- (pub_incr_n q Hq). eapply protF_publish; try eassumption; try (apply (a_protF c I Hfu)); try (unfold pcs_of; exact Hpc). }
  set (rs := runs_of b (rev g)). set (cnt := N.of_nat (length g)).
  assert (Hk1 : 1 <= cnt) by (unfold cnt; destruct g; [contradiction Hgne; reflexivity|cbn [length]; lia]).
  assert (Hrsn : rs <> []).
  { unfold rs. destruct (rev g) as [|v vs] eqn:Er; [|apply runs_of_nonnil].
    exfalso. apply Hgne. rewrite <- (rev_involutive g), Er. reflexivity. }
  assert (Hidx : forall r, In r rs -> r_idx r <> None) by (intros r; apply runs_of_idx).
  assert (Hrst : total_cnt rs = cnt) by (unfold rs, cnt; rewrite total_cnt_runs_of, rev_length; reflexivity).
  (* when the wrapped iterator is fused: the positions are the indices *)
  assert (HF : fused e -> rs = [mk_run (Some b) (val_of e b) cnt] /\ s_cur (c_sh c) = b + cnt /\ b < e_len e /\
                          (cnt < q_n q -> b + cnt = e_len e)).
  { intros Hfu. pose proof (a_protF c I Hfu) as PF.
    pose proof (p_got _ _ _ _ _ PF t _ _ Ct Tt) as [Hasc Hcur]. unfold pcs_of in Hasc, Hcur. rewrite Hpc in Hasc, Hcur. cbn [got_of] in Hasc, Hcur.
    pose proof (p_pub _ _ _ _ _ PF t q b g ltac:(unfold pcs_of; exact Hpc)) as Hfull. rewrite (pub_incr_n q Hq) in Hfull.
    assert (Hc : s_cur (c_sh c) = b + cnt) by (destruct Hcur as [H|[H _]]; [exact H|contradiction]).
    split; [|split; [exact Hc|split; [unfold cnt in *; lia|intros Hlt; destruct Hfull as [H|H]; unfold cnt in *; lia]]].
    unfold rs. rewrite Hasc.
    assert (exists k', length g = S k') as (k' & El) by (destruct g; [contradiction Hgne; reflexivity|cbn [length]; eauto]).
    rewrite El. rewrite runs_of_asc, val_of_iter. unfold cnt. rewrite El. reflexivity. }
  pose proof (a_call c I t) as Hcall. unfold icall_ok in Hcall. rewrite Hni in Hcall. destruct Hcall as (o & older & Hpend & Hres).
  pose proof (a_shape c I t) as Hsh0. unfold ishape_ok in Hsh0. rewrite Hpend in Hsh0.
  pose proof (pend_suffix _ _ _ _ Hpend) as Hsuf.
  unfold finish, deliver. destruct (q_ctx q) as [|lk crash] eqn:Ctx.
  - (* directly *)
    specialize (Hacc eq_refl).
    destruct (deliver_top_gen (c_pool c t) q b rs cnt Hrsn) as (ts' & r & d & Ed & Hp' & Ha' & Ht' & Hb' & Hbc' & Hne & Hnp & Hla).
    rewrite Ed. cbn [ret_ev]. apply iA_commit; try assumption.
    + repeat constructor.
    + unfold ipc_ok. rewrite Hp', Ha'. exact Hacc.
    + rewrite Ht'. exact Hops.
    + apply Hb'. exact Hbuf.
    + unfold icall_ok, is_idle. rewrite Hp'. cbn [app]. apply pend_call_self_ret.
    + cbn [app]. rewrite n_pending_ret. unfold pendZ. rewrite Hni. unfold is_idle. rewrite Hp'. lia.
    + cbn [with_y s_c s_y s_cur]. rewrite Hp', Hb. apply Hprot; try reflexivity; discriminate.
    + intros Hfu. cbn [with_y s_c s_y s_cur]. rewrite Hp', Hb. apply (HprotF Hfu); try reflexivity; discriminate.
    + intros Hfu. destruct (HF Hfu) as (Hrs & Hc & P1 & P7).
      assert (P4 : forall v, q_mode q = MSingle v -> cnt = 1) by (intros v Mv; specialize (Hg1 v Mv); unfold cnt; rewrite Hg1; reflexivity).
      assert (P5 : cnt <= q_n q) by (unfold cnt; exact Hgn).
      assert (P6 : b + cnt <= e_len e) by lia.
      destruct (deliver_top_iter (c_pool c t) q b cnt P1 Hk1 Hq P4 P5 P6 P7)
        as (ts2 & r2 & d2 & E2 & _ & _ & _ & _ & _ & _ & _ & _ & _ & _ & took & Htk & Hcov).
      rewrite Hrs in Ed. rewrite Ed in E2. injection E2 as <- <- <-.
      cbn [app cov with_y s_cur]. rewrite npanic_ret, Hnp, Hcov. cbn [negb andb].
      eapply htil_gen; [exact Hin| |apply (a_til c I Hfu)]. intros rest T.
      rewrite Hheld in T. unfold acc_iv in T. rewrite Hacc in T. cbn [map app] in T.
      assert (held e ts' = []) as -> by (unfold held, acc_iv; rewrite Hp', Ha', Hacc; reflexivity).
      rewrite app_nil_r. apply tiling_split_form; assumption.
    + cbn [app]. intros bf' Hbf'. rewrite buf_size_ret. destruct (Hbc' bf' Hbf') as (bf & Hbf & Ec). rewrite Ec. apply (a_buf c I). assumption.
    + intros Hfu. unfold iacc_ok. cbn [app]. rewrite pend_call_self_ret. exact I0.
    + unfold ishape_ok. cbn [app]. rewrite pend_call_self_ret. exact I0.
    + assert (Htot : iv_total (res_cover e r) = cnt).
      { apply (deliver_top_total _ _ _ _ _ _ _ _ Ed); [exact Hrst|].
        intros v Mv. specialize (Hg1 v Mv). unfold rs. destruct g as [|x [|y g']]; try discriminate Hg1.
        cbn [rev app runs_of]. eexists. reflexivity. }
      cbn [app cov with_y s_cur].
      apply hcnt_step with (cl := npanic (c_trace c)) (n := s_cur (c_sh c)); [exact Hin| | |apply (a_cnt c I)].
      * intros C. eapply npanic_cons. exact C.
      * intros _. rewrite Htot, Hheld, iv_total_app. unfold held, acc_iv. rewrite Hp', Ha', Hacc. cbn [map app iv_total snd]. lia.
  - (* inside a loop *)
    unfold deliver_loop.
    pose proof (loop_invoke_shape lk crash (total_cnt (t_acc (c_pool c t))) rs cnt Hidx) as Hi2g.
    destruct (loop_invoke lk crash (total_cnt (t_acc (c_pool c t))) rs cnt) as [inv pan] eqn:Eli. cbn [fst] in Hi2g.
    (* the same under the fused hypothesis, with the facts of the known-size layer *)
    assert (HFl : fused e -> forallb (run_idx_ok e) inv = true /\
              match pan with
              | None => map (run_iv e) inv = [(b, cnt)]
              | Some used => 1 <= used /\ used <= cnt /\ map (run_iv e) inv = [(b, used)]
              end).
    { intros Hfu. destruct (HF Hfu) as (Hrs & Hc & P1 & P7).
      assert (P6 : b + cnt <= e_len e) by lia.
      destruct (loop_invoke_cases e lk crash (total_cnt (t_acc (c_pool c t))) b cnt P1 Hk1 P6) as (inv2 & pan2 & E2 & Hi1 & _ & Hinv).
      rewrite Hrs in Eli. rewrite Eli in E2. injection E2 as <- <-. split; assumption. }
    destruct pan as [used|].
    + (* the closure panics: the loop returns *)
      cbn [ret_ev]. apply iA_commit; try assumption.
      * repeat constructor.
      * unfold ipc_ok. cbn [t_pc t_acc]. reflexivity.
      * unfold icall_ok, is_idle. cbn [t_pc app]. apply pend_call_self_ret.
      * cbn [app]. rewrite n_pending_ret. unfold pendZ. rewrite Hni. unfold is_idle. cbn [t_pc]. lia.
      * cbn [with_y s_c s_y s_cur t_pc]. rewrite Hb. apply Hprot; try reflexivity; discriminate.
      * intros Hfu. cbn [with_y s_c s_y s_cur t_pc]. rewrite Hb. apply (HprotF Hfu); try reflexivity; discriminate.
      * intros Hfu. destruct (HFl Hfu) as (Hi1 & Hu1 & Hu2 & Hinv).
        cbn [app cov res_cover res_taken with_y s_cur]. rewrite npanic_ret. cbn [is_panic negb andb].
        eapply htil_gen; [exact Hin| |apply (a_til c I Hfu)]. intros rest T.
        rewrite Hheld in T. apply tiling_unclean in T.
        assert (held e {| t_pc := PIdle; t_todo := t_todo (c_pool c t); t_buf := t_buf (c_pool c t); t_acc := [] |} = []) as -> by reflexivity.
        rewrite app_nil_r.
        pose proof (tiling_perm _ _ _ _ (perm_snoc_front _ _ _) T) as T1.
        fold cnt in T1. replace cnt with (used + (cnt - used)) in T1 by lia. apply tiling_split in T1.
        pose proof (tiling_perm _ _ _ _ (perm_swap _ _ _) T1) as T2. apply tiling_drop_head in T2.
        eapply tiling_perm; [|exact T2].
        rewrite rev_app_distr, rev_involutive, map_app, Hinv. unfold acc_iv. rewrite map_rev.
        rewrite <- app_assoc. cbn [app]. rewrite <- Permutation_rev. apply Permutation_middle.
      * cbn [app t_buf]. intros bf Hbf. rewrite buf_size_ret. apply (a_buf c I). assumption.
      * intros Hfu. unfold iacc_ok. cbn [app]. rewrite pend_call_self_ret. exact I0.
      * unfold ishape_ok. cbn [app]. rewrite pend_call_self_ret. exact I0.
      * cbn [app]. unfold counting. rewrite npanic_ret. cbn [is_panic negb andb]. discriminate.
    + (* the loop goes on *)
      cbn [ret_ev]. apply iA_commit; try assumption.
      * constructor.
      * unfold ipc_ok. cbn [t_pc t_acc]. split; [assumption|]. rewrite Ctx. discriminate.
      * unfold icall_ok, is_idle. cbn [t_pc app]. exists o, older. split; [assumption|].
        rewrite Hpc in Hres. unfold entry_of in *. cbn [req_of] in *. eapply call_res_buf; [|exact Hres]. reflexivity.
      * cbn [app]. unfold pendZ. rewrite Hni. unfold is_idle. cbn [t_pc]. lia.
      * cbn [with_y s_c s_y s_cur t_pc]. rewrite Hb. apply Hprot; try reflexivity; discriminate.
      * intros Hfu. cbn [with_y s_c s_y s_cur t_pc]. rewrite Hb. apply (HprotF Hfu); try reflexivity; discriminate.
      * intros Hfu. destruct (HFl Hfu) as (Hi1 & Hinv).
        assert (Hinv1 : exists i0, inv = [i0] /\ run_iv e i0 = (b, cnt)).
        { destruct inv as [|i0 [|]]; try discriminate Hinv. exists i0. split; [reflexivity|]. cbn [map] in Hinv. congruence. }
        destruct Hinv1 as (i0 & -> & Hi0).
        cbn [app with_y s_cur]. change (cov e (c_trace c)) with ([] ++ cov e (c_trace c)).
        eapply htil_gen; [exact Hin| |apply (a_til c I Hfu)]. intros rest T. cbn [app].
        rewrite Hheld in T.
        assert (held e {| t_pc := PRes q; t_todo := t_todo (c_pool c t); t_buf := t_buf (c_pool c t); t_acc := rev [i0] ++ t_acc (c_pool c t) |}
                = (b, cnt) :: acc_iv e (c_pool c t)) as ->.
        { unfold held, acc_iv. cbn [t_pc t_acc rev app map]. rewrite Hi0, app_nil_r. reflexivity. }
        eapply tiling_perm; [|exact T]. apply perm_snoc_front.
      * cbn [app t_buf]. apply (a_buf c I).
      * intros Hfu. destruct (HFl Hfu) as (Hi1 & Hinv). destruct (HF Hfu) as (Hrs & Hc & P1 & P7).
        assert (Hinv1 : exists i0, inv = [i0] /\ run_iv e i0 = (b, cnt)).
        { destruct inv as [|i0 [|]]; try discriminate Hinv. exists i0. split; [reflexivity|]. cbn [map] in Hinv. congruence. }
        destruct Hinv1 as (i0 & -> & Hi0).
        destruct (top_below c t b cnt I Hfu Hin Hheld ltac:(lia) Hk1) as [Hbc Hba].
        pose proof (a_acc c I Hfu t) as Ha. unfold iacc_ok in Ha. rewrite Hpend in Ha. destruct Ha as (Ha1 & Ha2 & Ha3 & Ha4).
        unfold iacc_ok. cbn [app]. rewrite Hpend. cbn [t_acc rev app]. unfold acc_iv. cbn [t_acc map rev app forallb].
        cbn [forallb] in Hi1, Hi2g. rewrite andb_true_r in Hi1, Hi2g. rewrite Hi0.
        split; [rewrite Hi1; assumption|]. split.
        { intros l0 c0 cr0 E. rewrite Hpc in Hres. unfold entry_of in Hres. cbn [req_of] in Hres.
          destruct (loop_ops_iter _ _ _ _ _ Hres Ctx) as (cc & Eo & _). rewrite Eo in E. injection E as <- <- <-.
          rewrite Hi2g. apply (Ha2 lk cc crash Eo). }
        split; [apply increasing_snoc; [assumption|]; cbn [fst];
                rewrite (iv_maxhi_perm _ _ (Permutation_sym (Permutation_rev _))); unfold acc_iv in Hba; lia|].
        cbn [all_above forallb fst snd]. fold (all_above (iv_maxhi (cov e older)) (map (run_iv e) (t_acc (c_pool c t)))).
        unfold acc_iv in Ha4. rewrite Ha4, andb_true_r. apply orb_true_iff. right. apply N.leb_le.
        pose proof (cov_suffix_maxhi e _ _ Hsuf). lia.
      * unfold ishape_ok. cbn [app]. rewrite Hpend. cbn [t_acc]. intros l0 c0 cr0 E.
        rewrite Hpc in Hres. unfold entry_of in Hres. cbn [req_of] in Hres.
        destruct (loop_ops_iter _ _ _ _ _ Hres Ctx) as (cc & Eo & _). rewrite Eo in E. injection E as <- <- <-.
        rewrite forallb_app, forallb_rev, Hi2g. cbn [andb]. apply (Hsh0 lk cc crash Eo).
      * pose proof (loop_invoke_total _ _ _ _ _ _ Eli) as Hti. rewrite Hrst in Hti.
        cbn [app with_y s_cur]. change (cov e (c_trace c)) with ([] ++ cov e (c_trace c)).
        apply hcnt_step with (cl := npanic (c_trace c)) (n := s_cur (c_sh c)); [exact Hin|intros C; exact C| |apply (a_cnt c I)].
        intros _. rewrite Hheld, iv_total_app. unfold held, acc_iv. cbn [t_pc t_acc map app iv_total snd].
        rewrite app_nil_r, map_app, iv_total_app, map_rev, (iv_total_perm _ _ (Permutation_sym (Permutation_rev _))), Hti.
        fold cnt. lia.
Qed.

Lemma iA_pub c t q b g :
  IInvA c -> In t L -> t_pc (c_pool c t) = PPub q b g ->
  s_y (c_sh c) + pub_incr q < W ->
  IInvA (step e c t).
Proof.
  intros I Hin Hpc Hw.
  destruct (pub_step c t q b g I Hpc Hw) as (Hb & Hq & ->).
  destruct g as [|g0 g'].
  - assert (Tt : ticket (pcs_of c t) = Some (b, pub_incr q)) by (unfold pcs_of; rewrite Hpc; reflexivity).
    apply iA_finish_end with (X := [(b, N.of_nat 0)]); try assumption.
    + rewrite Hpc. reflexivity.
    + unfold held. rewrite Hpc. reflexivity.
    + intros a [<-|[]]. reflexivity.
    + reflexivity.
    + intros x Tx Cx N1 N2. cbn [with_y s_c s_y s_cur]. rewrite Hb, <- (pub_incr_n q Hq).
      eapply prot_publish; try eassumption; try (apply (a_prot c I)); try (unfold pcs_of; exact Hpc).
    + intros Hfu x Tx Cx N1 N2. cbn [with_y s_c s_y s_cur]. rewrite Hb, <- (pub_incr_n q Hq).
      eapply protF_publish; try eassumption; try (apply (a_prot c I)); try (apply (a_protF c I Hfu)); try (unfold pcs_of; exact Hpc).
  - apply iA_got; try assumption. discriminate.
Qed.

(** what the publishing step does, for the layers above *)
Lemma pub_eq c t q b g :
  IInvA c -> fused e -> t_pc (c_pool c t) = PPub q b g -> s_y (c_sh c) + pub_incr q < W ->
  b = s_y (c_sh c) /\ wf_reqI q /\
  ((g = [] /\ s_cur (c_sh c) = e_len e /\
    step e c t = finish e c t (with_y (c_sh c) (b + q_n q)) (c_pool c t) (LAtom t SY AAdd (q_n q) b (o_pub q)) q (Ok PREnd))
   \/
   (exists cnt, cnt = N.of_nat (length g) /\ 1 <= cnt /\ cnt <= q_n q /\ b + cnt = s_cur (c_sh c) /\ b < e_len e /\
      (cnt < q_n q -> b + cnt = e_len e) /\ (forall v, q_mode q = MSingle v -> cnt = 1) /\
      step e c t = finish e c t (with_y (c_sh c) (b + q_n q)) (c_pool c t) (LAtom t SY AAdd (q_n q) b (o_pub q)) q
                          (Ok (PRGot b [mk_run (Some b) (val_of e b) cnt] cnt)))).
Proof.
  intros I Hfu Hpc Hw.
  destruct (ipc_req c t q I) as [Hq Hacc]; [rewrite Hpc; reflexivity|].
  destruct (a_wf c I t) as (Hok & Hops & Hbuf). unfold ipc_ok in Hok. rewrite Hpc in Hok. destruct Hok as (_ & _ & Hgn & Hg1).
  assert (Tt : ticket (pcs_of c t) = Some (b, pub_incr q)) by (unfold pcs_of; rewrite Hpc; reflexivity).
  assert (Ct : in_crit (pcs_of c t) = true) by (unfold pcs_of; rewrite Hpc; reflexivity).
  pose proof (a_prot c I) as P.
  pose proof (p_crit _ _ _ _ _ P t _ _ Ct Tt) as Hb.
  pose proof (p_got _ _ _ _ _ (a_protF c I Hfu) t _ _ Ct Tt) as [Hasc Hcur]. unfold pcs_of in Hasc, Hcur. rewrite Hpc in Hasc, Hcur. cbn [got_of] in Hasc, Hcur.
  pose proof (p_cur _ _ _ _ _ P) as Hcl.
  pose proof (p_pub _ _ _ _ _ (a_protF c I Hfu) t q b g ltac:(unfold pcs_of; exact Hpc)) as Hfull.
  rewrite (pub_incr_n q Hq) in *.
  split; [exact Hb|]. split; [exact Hq|].
  unfold step. rewrite Hpc. rewrite (pub_incr_n q Hq). rewrite wadd_nowrap by assumption.
  rewrite Hasc. subst b. rewrite N.eqb_refl.
  destruct g as [|g0 g'].
  - left. split; [reflexivity|]. split; [destruct Hfull as [H|H]; [destruct Hq; cbn [length] in H; lia|exact H]|].
    assert (Hm : forall v, q_mode q <> MSingle v) by (intros v Mv; specialize (Hg1 v Mv); discriminate Hg1).
    cbn [length ascN]. destruct (q_mode q) eqn:M; [contradiction (Hm v); reflexivity|reflexivity|reflexivity].
  - right. set (k := length (g0 :: g')) in *. exists (N.of_nat k).
    assert (Hk1 : 1 <= N.of_nat k) by (unfold k; cbn [length]; lia).
    assert (Hkk : exists k', k = S k') by (unfold k; cbn [length]; eauto). destruct Hkk as (k' & Ek).
    assert (Hc : s_cur (c_sh c) = s_y (c_sh c) + N.of_nat k) by (destruct Hcur as [H|[H _]]; [exact H|discriminate H]).
    split; [reflexivity|]. split; [exact Hk1|]. split; [exact Hgn|]. split; [lia|]. split; [lia|].
    split; [intros Hlt; destruct Hfull as [H|H]; lia|].
    split; [intros v Mv; specialize (Hg1 v Mv); rewrite Hg1; reflexivity|].
    assert (Hruns : runs_of (s_y (c_sh c)) (ascN (s_y (c_sh c)) k) = [mk_run (Some (s_y (c_sh c))) (val_of e (s_y (c_sh c))) (N.of_nat k)]).
    { rewrite Ek. rewrite runs_of_asc, val_of_iter. reflexivity. }
    rewrite Hruns, ascN_length. rewrite Ek. cbn [ascN]. destruct (q_mode q); reflexivity.
Qed.

(** ** every step preserves the invariant *)

Definition istep_nowrap (c : cfg) (t : tid) : Prop :=
  match t_pc (c_pool c t) with
  | PRes q => s_c (c_sh c) + pub_incr q < W
  | PPub q _ _ => s_y (c_sh c) + pub_incr q < W
  | _ => True
  end.

Lemma iA_step c t : IInvA c -> In t L -> istep_nowrap c t -> IInvA (step e c t).
Proof.
  intros I Hin Hw. unfold istep_nowrap in Hw.
  destruct (t_pc (c_pool c t)) as [|q|q b|q b|q b|q b got|q b got|q b got|q b got| |hm|hm] eqn:Hpc.
  - destruct (t_todo (c_pool c t)) as [|o rest] eqn:Htodo.
    + rewrite istep_idle_nil by assumption. exact I.
    + rewrite (istep_idle_call c t o rest) by assumption. apply iA_call; assumption.
  - apply iA_res with q; assumption.
  - apply iA_chkf with q b; assumption.
  - apply iA_ldy with q b; assumption.
  - apply iA_chkt with q b; assumption.
  - apply iA_src with q b got; assumption.
  - apply iA_setf with q b got; assumption.
  - apply iA_pub with q b got; assumption.
  - apply iA_unw with q b got; assumption.
  - apply iA_skip; assumption.
  - apply iA_len with hm; assumption.
  - apply iA_len2 with hm; assumption.
Qed.

Lemma istep_labels c t : nowrap (c_labels (step e c t)) -> istep_nowrap c t.
Proof.
  unfold istep_nowrap.
  destruct (t_pc (c_pool c t)) as [|q|q b|q b|q b|q b got|q b got|q b got|q b got| |hm|hm] eqn:Hpc; auto.
  - rewrite (istep_res e Hk c t q Hpc). cbn [commit c_labels]. intros H. inversion H as [|? ? H1 H2]; subst. exact H1.
  - unfold step. rewrite Hpc.
    assert (forall sh pr, nowrap (c_labels (finish e c t sh (c_pool c t) (LAtom t SY AAdd (pub_incr q) (s_y (c_sh c)) (o_pub q)) q pr)) ->
                          s_y (c_sh c) + pub_incr q < W) as Hf.
    { intros sh pr. rewrite finish_labels. intros H. inversion H as [|? ? H1 H2]; subst. exact H1. }
    destruct (q_mode q); [apply Hf| |].
    + destruct (s_y (c_sh c) =? b); [destruct (rev got)|]; apply Hf.
    + destruct (s_y (c_sh c) =? b); [destruct (rev got)|]; apply Hf.
Qed.

Lemma iA_init progs : (forall t, Forall wf_op (progs t)) -> IInvA (init progs).
Proof.
  intros Hp. split; cbn [init c_pool c_trace c_sh init_ts].
  - intros t. unfold ipc_ok. cbn [init_ts t_pc t_acc t_todo t_buf wf_buf]. auto.
  - intros t _. reflexivity.
  - intros t. unfold icall_ok, is_idle. cbn [t_pc pend_call]. reflexivity.
  - cbn [n_pending]. symmetry. clear. induction L as [|a l IH]; cbn [sumZ]; [reflexivity|]. rewrite IH. reflexivity.
  - cbn [s_c s_y s_cur]. unfold pcs_of. cbn [c_pool init_ts t_pc]. split.
    + lia.
    + lia.
    + intros t b n H. discriminate H.
    + intros t u b n b' n' _ H. discriminate H.
    + intros t b n H. discriminate H.
    + intros t H. discriminate H.
  - discriminate.
  - intros t. exact I0.
  - reflexivity.
  - intros _. unfold helds. cbn [cov app s_cur]. rewrite gather_nil by reflexivity. reflexivity.
  - intros _. split; cbn [init c_pool c_trace c_sh init_ts].
    + cbn [s_c s_y s_cur]. unfold pcs_of. cbn [c_pool init_ts t_pc]. split.
      * intros t b n H. discriminate H.
      * intros t q b g H. discriminate H.
      * intros t q b g H. discriminate H.
      * intros _. left. reflexivity.
    + unfold helds. cbn [cov app s_cur]. rewrite gather_nil by reflexivity. apply tiling_empty.
    + intros t. exact I0.
Qed.

Theorem iA_exec progs sched :
  (forall t, Forall wf_op (progs t)) ->
  Forall (fun t => In t L) sched ->
  nowrap (c_labels (exec e (init progs) sched)) ->
  IInvA (exec e (init progs) sched).
Proof.
  intros Hp. induction sched as [|t sched IH] using rev_ind; intros Hs Hw.
  - apply iA_init. exact Hp.
  - rewrite exec_snoc in *. apply Forall_app in Hs. destruct Hs as [Hs Ht]. inversion Ht as [|? ? Hin _]; subst.
    apply iA_step; [|exact Hin|apply istep_labels; exact Hw].
    apply IH; [exact Hs|]. eapply step_labels_suffix. exact Hw.
Qed.

End IterA.
