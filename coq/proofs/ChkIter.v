(** * The checkers on every trace of the wrapper over an arbitrary iterator (ConIterOfIter). *)
From Coq Require Import Lia ZArith Permutation.
From OCI Require Import Machine Checkers.
From OCI.proofs Require Import Base Trace ArithOk InvKnown ChkKnown IterBase IterProt InvIterA InvIterB.
Open Scope N_scope.

(** a wrapped iterator of any length below 2^64, with any size hint, owning its elements or not *)
Definition iter_env (e : env) : Prop := wf_env e /\ e_kind e = KIter.

(** the events one step appends to the trace, whatever the kind and the state *)
Lemma step_trace_shape_gen e c t :
  exists evs, c_trace (step e c t) = evs ++ c_trace c /\
    (evs = [] \/ (exists ev, evs = [ev]) \/ (exists r d o, evs = [ERet t r d; ECall t o])).
Proof.
  assert (Hcm : forall c' sh ts l evs, (evs = [] \/ (exists ev, evs = [ev]) \/ (exists r d o, evs = [ERet t r d; ECall t o])) ->
     exists evs', c_trace (commit c' t sh ts l evs) = evs' ++ c_trace c' /\
       (evs' = [] \/ (exists ev, evs' = [ev]) \/ (exists r d o, evs' = [ERet t r d; ECall t o]))).
  { intros c' sh ts l evs H. exists evs. split; [reflexivity|exact H]. }
  assert (Hfin : forall c' sh ts l q pr,
     exists evs', c_trace (finish e c' t sh ts l q pr) = evs' ++ c_trace c' /\
       (evs' = [] \/ (exists ev, evs' = [ev]) \/ (exists r d o, evs' = [ERet t r d; ECall t o]))).
  { intros c' sh ts l q pr. unfold finish. destruct (deliver e ts q pr) as [ts' [[r d]|]]; cbn [ret_ev]; apply Hcm; [right; left; eauto|left; reflexivity]. }
  assert (H0 : forall c' sh ts l, exists evs', c_trace (commit c' t sh ts l []) = evs' ++ c_trace c' /\
       (evs' = [] \/ (exists ev, evs' = [ev]) \/ (exists r d o, evs' = [ERet t r d; ECall t o]))) by (intros; apply Hcm; left; reflexivity).
  assert (H1 : forall c' sh ts l ev, exists evs', c_trace (commit c' t sh ts l [ev]) = evs' ++ c_trace c' /\
       (evs' = [] \/ (exists ev, evs' = [ev]) \/ (exists r d o, evs' = [ERet t r d; ECall t o]))) by (intros; apply Hcm; right; left; eauto).
  unfold step.
  destruct (t_pc (c_pool c t)) as [|q|q b|q b|q b|q b got|q b got|q b got|q b got| |hm|hm].
  - destruct (t_todo (c_pool c t)); [exists []; auto|]. unfold call. destruct (call_res e (c_pool c t) o); apply Hcm; [right; left; eauto|right; right; eauto].
  - destruct (e_kind e); first [apply Hfin|apply H0].
  - destruct (s_f (c_sh c)); first [apply Hfin|apply H0].
  - destruct (b =? s_y (c_sh c)); [apply H0|]. destruct (b <? s_y (c_sh c)); first [apply Hfin|apply H0].
  - destruct (s_f (c_sh c)); first [apply Hfin|apply H0].
  - destruct (crashes_now e (c_sh c)); [apply H0|].
    destruct (q_mode q), (src_next e (c_sh c)); try apply H0;
      try (destruct (N.of_nat (length (n :: got)) =? q_n q); apply H0);
      try (destruct (N.of_nat (length (n0 :: got)) =? q_n q); apply H0).
  - destruct (q_mode q); first [apply Hfin|apply H0].
  - destruct (q_mode q); try apply Hfin.
    + destruct (s_y (c_sh c) =? b); [destruct (rev got)|]; apply Hfin.
    + destruct (s_y (c_sh c) =? b); [destruct (rev got)|]; apply Hfin.
  - destruct (q_ctx q), (q_mode q), (e_kind e), (t_buf (c_pool c t)); try apply H1;
      destruct (write_slots (bf_slots b0) (rev got)); apply H1.
  - destruct (e_kind e); try apply H1;
      destruct (k_fetch_n e (e_len e) (s_c (c_sh c))) as [[|]|]; apply H1.
  - destruct (e_kind e); try apply H1. destruct (s_f (c_sh c)); [apply H1|]. destruct (e_hint e); first [apply H0|apply H1].
  - apply H1.
Qed.

(** at a quiescent point no thread holds anything *)
Lemma iter_quiescent_helds e L c0 : IInvA e L c0 -> n_pending (c_trace c0) = 0%Z -> helds e L (c_pool c0) = [].
Proof.
  intros A Hq. rewrite (a_pend e L c0 A) in Hq.
  unfold helds. apply gather_nil. intros t Ht.
  assert (pendZ (c_pool c0 t) = 0%Z) as Hz.
  { apply (sumZ_zero (fun u => pendZ (c_pool c0 u)) L); [|exact Hq|exact Ht].
    intros u _. unfold pendZ. destruct (is_idle (c_pool c0 u)); lia. }
  unfold pendZ in Hz. destruct (is_idle (c_pool c0 t)) eqn:Ei; [|discriminate].
  apply held_idle.
  - unfold is_idle in Ei. destruct (t_pc (c_pool c0 t)); try discriminate. reflexivity.
  - apply (iacc_idle e L c0 t A Ei).
Qed.

Section Iter.

Variable e : env.
Hypothesis Hie : iter_env e.
Hypothesis Hfu : fused e.
Variable progs : tid -> list op.
Hypothesis Hp : wf_progs progs.
Variable sched : list tid.

Let c := exec e (init progs) sched.
Let L := nodup Nat.eq_dec sched.

Hypothesis Hnw : nowrap (c_labels c).

Lemma iter_inv : IInvA e L c /\ IInvB e c.
Proof.
  destruct Hie as (He & Hk).
  apply iAB_exec; try assumption.
  - apply NoDup_nodup.
  - apply Forall_forall. intros t Ht. apply nodup_In. exact Ht.
Qed.

(** C07 (a): at most one thread is inside the critical section, in every reachable state *)
Theorem iter_mutex : forall t u,
  in_crit (t_pc (c_pool c t)) = true -> in_crit (t_pc (c_pool c u)) = true -> t = u.
Proof. destruct iter_inv as [A _]. apply (mutex e L c A). Qed.

Lemma iev_part (P : tid -> res -> list drops -> list event -> bool) :
  (forall t r d tl, ev6 e t r d tl = true -> P t r d tl = true) -> all_rets P (c_trace c) = true.
Proof. intros H. eapply all_rets_impl; [exact H|]. destruct iter_inv as [_ B]. apply (b_evs e c B Hfu). Qed.

(** the per-event checks that hold for every wrapped iterator, fused or not *)
Lemma iev_part5 (P : tid -> res -> list drops -> list event -> bool) :
  (forall t r d tl, ev5 e t r d tl = true -> P t r d tl = true) -> all_rets P (c_trace c) = true.
Proof. intros H. eapply all_rets_impl; [exact H|]. destruct iter_inv as [_ B]. apply (b_evs5 e c B). Qed.

Ltac ev_split H :=
  unfold ev6, ev5 in H; repeat (apply andb_true_iff in H; let H' := fresh in destruct H as [H H']).

Theorem iter_C02 : chk_C02 e (c_trace c) = true.
Proof. apply iev_part. intros t r d tl H. ev_split H. assumption. Qed.
Theorem iter_C03 : chk_C03 e (c_trace c) = true.
Proof. apply iev_part. intros t r d tl H. ev_split H. assumption. Qed.
Theorem iter_C04_order : chk_C04_order e (c_trace c) = true.
Proof. apply iev_part. intros t r d tl H. ev_split H. assumption. Qed.
(** C05, the stopping clause of C06 and the shape clause of C12: every wrapped iterator, fused or not *)
Theorem iter_C05 : chk_C05 e (c_trace c) = true.
Proof. apply iev_part5. intros t r d tl H. ev_split H. assumption. Qed.
Theorem iter_C06_stop : chk_C06_stop e (c_trace c) = true.
Proof. apply iev_part5. intros t r d tl H. ev_split H. assumption. Qed.
Theorem iter_C12_shape : chk_C12_shape (c_trace c) = true.
Proof. apply iev_part5. intros t r d tl H. ev_split H. assumption. Qed.

Theorem iter_nodup : chk_C01_nodup e (c_trace c) = true.
Proof.
  destruct iter_inv as [A _]. unfold chk_C01_nodup. pose proof (tl_disj _ _ _ (a_til e L c A Hfu)) as H.
  rewrite pairwise_disj_app in H.
  apply andb_true_iff in H. destruct H as [H _]. apply andb_true_iff in H. destruct H as [H _]. rewrite H. cbn [andb].
  pose proof (tl_within _ _ _ (a_til e L c A Hfu)) as Hw.
  rewrite iv_within_app in Hw. apply andb_true_iff in Hw. destruct Hw as [Hw _].
  apply iv_within_mono with (s_cur (c_sh c)); [exact (p_cur _ _ _ _ _ (a_prot e L c A))|exact Hw].
Qed.

Theorem iter_noloss : clean (c_trace c) = true -> chk_C01_noloss e (c_trace c) = true.
Proof.
  intros Hcl. unfold chk_C01_noloss. destruct iter_inv as [A B].
  destruct (end_reported (c_trace c)) eqn:Ee; [|reflexivity].
  destruct ((n_pending (c_trace c) =? 0)%Z) eqn:Eq; [|reflexivity]. cbn [andb].
  apply Z.eqb_eq in Eq.
  pose proof (a_til e L c A Hfu) as T. rewrite (iter_quiescent_helds e L c A Eq), app_nil_r in T.
  unfold clean in Hcl. apply negb_true_iff in Hcl. apply orb_false_iff in Hcl. destruct Hcl as [Hs Hpn].
  assert (Hcur : s_cur (c_sh c) = e_len e).
  { destruct (b_end e c B Ee) as [Hf|Hc]; [|exact Hc].
    destruct (b_f e c B Hfu Hf) as [H|[H|H]]; [exact H|congruence|congruence]. }
  rewrite Hcur in T. unfold tiles.
  assert (Hnp : npanic (c_trace c) = true) by (unfold npanic; rewrite Hpn; reflexivity).
  rewrite (tl_disj _ _ _ T), (tl_within _ _ _ T), (tl_total _ _ _ T Hnp), N.eqb_refl. reflexivity.
Qed.

Theorem iter_C01 : check_prop 1 e (c_trace c) (c_labels c) = true.
Proof.
  cbn [check_prop]. rewrite iter_nodup. cbn [andb].
  destruct (has_skip (c_trace c) || has_panic (c_trace c)) eqn:E; [reflexivity|].
  apply iter_noloss. unfold clean. rewrite E. reflexivity.
Qed.

Theorem iter_C06 : check_prop 6 e (c_trace c) (c_labels c) = true.
Proof.
  cbn [check_prop]. unfold chk_C06. rewrite iter_C06_stop, iter_nodup, iter_C02, iter_C04_order. reflexivity.
Qed.

Theorem iter_C12 : check_prop 12 e (c_trace c) (c_labels c) = true.
Proof.
  cbn [check_prop]. unfold c at 2. rewrite iter_C12_shape, src_panic_ok, iter_nodup, iter_C02, iter_C05. cbn [andb].
  destruct (has_skip (c_trace c) || has_panic (c_trace c)) eqn:E; [reflexivity|].
  apply iter_noloss. unfold clean. rewrite E. reflexivity.
Qed.

End Iter.

(** ** the gap-free prefix at every quiescent point of the history (C04), by induction over the schedule *)

Section IterPrefix.

Variable e : env.
Hypothesis Hie : iter_env e.
Hypothesis Hfu : fused e.
Variable progs : tid -> list op.
Hypothesis Hp : wf_progs progs.

Lemma iter_quiescent_gap L c0 : NoDup L -> IInvA e L c0 -> n_pending (c_trace c0) = 0%Z -> has_panic (c_trace c0) = false ->
  iv_total (cov e (c_trace c0)) = iv_maxhi (cov e (c_trace c0)).
Proof.
  intros ND A Hq Hnp. pose proof (a_til e L c0 A Hfu) as T.
  rewrite (iter_quiescent_helds e L c0 A Hq), app_nil_r in T.
  assert (Hn : npanic (c_trace c0) = true) by (unfold npanic; rewrite Hnp; reflexivity).
  rewrite (tl_total _ _ _ T Hn), (tl_maxhi _ _ _ T Hn). reflexivity.
Qed.

Lemma iter_pending_nonneg L c0 : IInvA e L c0 -> (0 <= n_pending (c_trace c0))%Z.
Proof.
  intros A. rewrite (a_pend e L c0 A). apply sumZ_nonneg. intros t _. unfold pendZ. destruct (is_idle (c_pool c0 t)); lia.
Qed.

Theorem iter_prefix sched :
  nowrap (c_labels (exec e (init progs) sched)) ->
  has_panic (c_trace (exec e (init progs) sched)) = false ->
  chk_C04_prefix e (c_trace (exec e (init progs) sched)) = true.
Proof.
  destruct Hie as (He & Hk).
  set (L := nodup Nat.eq_dec sched).
  assert (HL : NoDup L) by apply NoDup_nodup.
  assert (Hgen : forall s, Forall (fun t => In t L) s ->
            nowrap (c_labels (exec e (init progs) s)) -> has_panic (c_trace (exec e (init progs) s)) = false ->
            chk_C04_prefix e (c_trace (exec e (init progs) s)) = true).
  { induction s as [|t s IH] using rev_ind; intros Hs Hw Hnp; [reflexivity|].
    destruct (iAB_exec e Hk L HL progs (s ++ [t]) Hp Hs Hw) as [A' _].
    rewrite exec_snoc in *. apply Forall_app in Hs. destruct Hs as [Hs Ht].
    pose proof (step_labels_suffix e _ _ Hw) as Hw0.
    destruct (iAB_exec e Hk L HL progs s Hp Hs Hw0) as [A _].
    destruct (step_trace_shape_gen e (exec e (init progs) s) t) as (evs & Et & Hshape).
    assert (Hnp0 : has_panic (c_trace (exec e (init progs) s)) = false) by (rewrite Et in Hnp; eapply has_panic_app_false; exact Hnp).
    specialize (IH Hs Hw0 Hnp0).
    assert (Hq : forall tr', tr' = c_trace (step e (exec e (init progs) s) t) ->
       (if (n_pending tr' =? 0)%Z then iv_total (cov e tr') =? iv_maxhi (cov e tr') else true) = true).
    { intros tr' ->. destruct (Z.eqb_spec (n_pending (c_trace (step e (exec e (init progs) s) t))) 0) as [Hz|Hz]; [|reflexivity].
      apply N.eqb_eq. apply (iter_quiescent_gap L _ HL A' Hz Hnp). }
    destruct Hshape as [->|[(ev & ->)|(r & d & o & ->)]].
    - cbn [app] in Et. rewrite Et. exact IH.
    - cbn [app] in Et. specialize (Hq _ eq_refl). rewrite Et in *. cbn [chk_C04_prefix]. rewrite Hq, IH. reflexivity.
    - cbn [app] in Et. specialize (Hq _ eq_refl). rewrite Et in *. cbn [chk_C04_prefix]. rewrite Hq, IH.
      rewrite n_pending_call. pose proof (iter_pending_nonneg L _ A).
      destruct (Z.eqb_spec (n_pending (c_trace (exec e (init progs) s)) + 1) 0); [lia|]. reflexivity. }
  apply Hgen. apply Forall_forall. intros t Ht. apply nodup_In. exact Ht.
Qed.

Theorem iter_C04 sched :
  nowrap (c_labels (exec e (init progs) sched)) ->
  check_prop 4 e (c_trace (exec e (init progs) sched)) (c_labels (exec e (init progs) sched)) = true.
Proof.
  intros Hw. cbn [check_prop]. rewrite (iter_nodup e Hie Hfu progs Hp sched Hw), (iter_C04_order e Hie Hfu progs Hp sched Hw). cbn [andb].
  destruct (has_panic (c_trace (exec e (init progs) sched))) eqn:Hnp; [reflexivity|].
  apply iter_prefix; assumption.
Qed.

End IterPrefix.
