(** * Clones by simulation.

    [ConIterOfSlice] and [ConIterOfRange] are [Clone]: a clone starts at the CURRENT position counter [k]
    of its original ([Multi.clone_of]).  The single-iterator theorems are about runs from [init progs]
    (counter 0).  This file closes the gap by a simulation instead of re-proving the invariants with an
    offset:
    (1) frame lemmas: [step] / [exec] read only the shared state and the states of the scheduled threads,
        and append the same events and labels to whatever traces the configurations carry;
    (2) a prefix run of ONE extra thread [t0] brings a fresh iterator to the counter [k] (for any
        [k < 2^64], also beyond the length);
    (3) the run of the clone is the tail of the combined run "prefix, then the clone's schedule" from
        [init], to which the existing theorems apply; the checkers are transported from the combined
        trace [X ++ T0] to the clone's own trace [X]. *)
From Coq Require Import Lia ZArith List Bool Permutation.
From OCI Require Import Machine Checkers.
From OCI.proofs Require Import Base Trace ArithOk InvKnown ChkKnown Progress Multi.
Import ListNotations.
Open Scope N_scope.

(** * (1) frame lemmas *)

Lemma ret_ev_of t o : Forall (ev_of t) (ret_ev t o).
Proof. destruct o as [[r d]|]; cbn [ret_ev]; repeat constructor. Qed.

Lemma step_frame e c1 c2 t :
  c_sh c1 = c_sh c2 -> c_pool c1 t = c_pool c2 t ->
  (step e c1 t = c1 /\ step e c2 t = c2) \/
  exists sh ts l evs, Forall (ev_of t) evs /\
    step e c1 t = commit c1 t sh ts l evs /\ step e c2 t = commit c2 t sh ts l evs.
Proof.
  intros Hsh Hp. unfold step, finish, call. rewrite <- Hsh, <- Hp.
  generalize (c_sh c1) as sh. generalize (c_pool c1 t) as ts. intros ts sh.
  repeat first
    [ solve [left; split; reflexivity]
    | solve [right; eexists _, _, _, _; split; [|split; reflexivity];
             first [apply ret_ev_of | repeat constructor; cbn [ev_of]; reflexivity]]
    | match goal with |- context [match ?x with _ => _ end] => destruct x end ].
Qed.

Lemma exec_frame_gen e (S : tid -> Prop) s : forall c1 c2,
  (forall t, In t s -> S t) ->
  c_sh c1 = c_sh c2 -> (forall t, S t -> c_pool c1 t = c_pool c2 t) ->
  exists X Y,
    c_trace (exec e c1 s) = X ++ c_trace c1 /\ c_trace (exec e c2 s) = X ++ c_trace c2 /\
    c_labels (exec e c1 s) = Y ++ c_labels c1 /\ c_labels (exec e c2 s) = Y ++ c_labels c2 /\
    c_sh (exec e c1 s) = c_sh (exec e c2 s) /\
    (forall t, S t -> c_pool (exec e c1 s) t = c_pool (exec e c2 s) t) /\
    Forall (fun ev => exists t, In t s /\ ev_of t ev) X.
Proof.
  induction s as [|u s IH]; intros c1 c2 HS Hsh Hp.
  - exists [], []. cbn [exec fold_left app]. repeat split; auto.
  - rewrite !exec_cons.
    assert (HS' : forall t, In t s -> S t) by (intros t Ht; apply HS; right; exact Ht).
    assert (Hmono : forall X : list event, Forall (fun ev => exists t, In t s /\ ev_of t ev) X ->
                      Forall (fun ev => exists t, In t (u :: s) /\ ev_of t ev) X).
    { intros X H. eapply Forall_impl; [|exact H]. intros ev (t & Ht & Hv). exists t. split; [right; exact Ht|exact Hv]. }
    destruct (step_frame e c1 c2 u Hsh (Hp u (HS u (or_introl eq_refl))))
      as [[-> ->]|(sh & ts & l & evs & Hev & -> & ->)].
    + destruct (IH c1 c2 HS' Hsh Hp) as (X & Y & H1 & H2 & H3 & H4 & H5 & H6 & H7).
      exists X, Y. repeat split; auto.
    + destruct (IH (commit c1 u sh ts l evs) (commit c2 u sh ts l evs) HS') as (X & Y & H1 & H2 & H3 & H4 & H5 & H6 & H7).
      * reflexivity.
      * intros t Ht. cbn [commit c_pool]. unfold upd. destruct (Nat.eqb t u); [reflexivity|apply Hp; exact Ht].
      * cbn [commit c_trace c_labels] in *.
        exists (X ++ evs), (Y ++ [l]). rewrite <- !app_assoc. cbn [app].
        repeat split; auto.
        apply Forall_app. split; [apply Hmono; exact H7|].
        eapply Forall_impl; [|exact Hev]. intros ev Hv. exists u. split; [left; reflexivity|exact Hv].
Qed.

Lemma exec_frame e s c1 c2 :
  c_sh c1 = c_sh c2 -> (forall t, In t s -> c_pool c1 t = c_pool c2 t) ->
  exists X Y,
    c_trace (exec e c1 s) = X ++ c_trace c1 /\ c_trace (exec e c2 s) = X ++ c_trace c2 /\
    c_labels (exec e c1 s) = Y ++ c_labels c1 /\ c_labels (exec e c2 s) = Y ++ c_labels c2 /\
    c_sh (exec e c1 s) = c_sh (exec e c2 s) /\
    (forall t, In t s -> c_pool (exec e c1 s) t = c_pool (exec e c2 s) t) /\
    Forall (fun ev => exists t, In t s /\ ev_of t ev) X.
Proof. intros Hsh Hp. apply (exec_frame_gen e (fun t => In t s)); auto. Qed.

(** the two lemmas in their plain form *)
Corollary step_frame_plain e c1 c2 t :
  c_sh c1 = c_sh c2 -> c_pool c1 t = c_pool c2 t ->
  (step e c1 t = c1 /\ step e c2 t = c2) \/
  exists sh ts l evs, step e c1 t = commit c1 t sh ts l evs /\ step e c2 t = commit c2 t sh ts l evs.
Proof.
  intros H1 H2. destruct (step_frame e c1 c2 t H1 H2) as [H|(sh & ts & l & evs & _ & H)]; [left; exact H|right; eauto].
Qed.

Corollary exec_frame_plain e s : forall c1 c2,
  c_sh c1 = c_sh c2 -> (forall t, In t s -> c_pool c1 t = c_pool c2 t) ->
  exists X Y,
    c_trace (exec e c1 s) = X ++ c_trace c1 /\ c_trace (exec e c2 s) = X ++ c_trace c2 /\
    c_labels (exec e c1 s) = Y ++ c_labels c1 /\ c_labels (exec e c2 s) = Y ++ c_labels c2 /\
    c_sh (exec e c1 s) = c_sh (exec e c2 s) /\
    (forall t, In t s -> c_pool (exec e c1 s) t = c_pool (exec e c2 s) t).
Proof.
  intros c1 c2 H1 H2. destruct (exec_frame e s c1 c2 H1 H2) as (X & Y & A & B & C & D & E & F & _).
  exists X, Y. repeat split; assumption.
Qed.

(** * (2) a prefix run that brings a fresh iterator to counter [k] *)

Definition clonable (e : env) : Prop := e_kind e = KSlice \/ e_kind e = KRange.

Lemma next_steps e c t0 rest :
  clonable e -> wf_env e ->
  c_pool c t0 = init_ts (Next NVal :: rest) -> s_c (c_sh c) + 1 < W ->
  let c' := step e (step e c t0) t0 in
  c_sh c' = with_c (c_sh c) (s_c (c_sh c) + 1) /\
  c_pool c' t0 = init_ts rest /\
  (forall t, t <> t0 -> c_pool c' t = c_pool c t) /\
  (exists r d, c_trace c' = ERet t0 r d :: ECall t0 (Next NVal) :: c_trace c) /\
  (exists o, c_labels c' = LAtom t0 SC AAdd 1 (s_c (c_sh c)) o :: LCall t0 :: c_labels c).
Proof.
  intros Hk He Hp Hw.
  assert (E1 : step e c t0 = commit c t0 (c_sh c)
            {| t_pc := PRes {| q_n := 1; q_mode := MSingle NVal; q_ctx := CTop |}; t_todo := rest; t_buf := None; t_acc := [] |}
            (LCall t0) [ECall t0 (Next NVal)]).
  { unfold step. rewrite Hp. cbn [init_ts t_pc t_todo]. unfold call. cbn [call_res init_ts t_buf]. reflexivity. }
  cbv zeta. rewrite E1. clear E1.
  set (q := {| q_n := 1; q_mode := MSingle NVal; q_ctx := CTop |}).
  assert (Hq : wf_req q) by (split; [cbn; rewrite W_val; lia|reflexivity]).
  unfold step. cbn [commit c_pool c_sh]. rewrite upd_same. cbn [t_pc].
  assert (Hgoal : forall cc, cc = finish e (commit c t0 (c_sh c) {| t_pc := PRes q; t_todo := rest; t_buf := None; t_acc := [] |} (LCall t0) [ECall t0 (Next NVal)]) t0
            (with_c (c_sh c) (wadd (s_c (c_sh c)) (k_incr e q)))
            {| t_pc := PRes q; t_todo := rest; t_buf := None; t_acc := [] |}
            (LAtom t0 SC AAdd (k_incr e q) (s_c (c_sh c)) (o_res q)) q (k_pull e q (s_c (c_sh c))) ->
     c_sh cc = with_c (c_sh c) (s_c (c_sh c) + 1) /\
     c_pool cc t0 = init_ts rest /\
     (forall t, t <> t0 -> c_pool cc t = c_pool c t) /\
     (exists r d, c_trace cc = ERet t0 r d :: ECall t0 (Next NVal) :: c_trace c) /\
     (exists o, c_labels cc = LAtom t0 SC AAdd 1 (s_c (c_sh c)) o :: LCall t0 :: c_labels c)).
  { intros cc ->. unfold finish. rewrite (k_pull_spec e q _ He Hq).
    unfold deliver. cbn [q q_ctx]. fold q.
    assert (Hw' : wadd (s_c (c_sh c)) (k_incr e q) = s_c (c_sh c) + 1).
    { unfold k_incr. cbn [q q_mode]. unfold wadd. apply N.mod_small. exact Hw. }
    destruct (pull_spec e (q_n q) (s_c (c_sh c))) as [|b rs cnt].
    - cbn [commit c_sh c_pool c_trace c_labels ret_ev app]. rewrite Hw'.
      split; [reflexivity|]. split; [rewrite upd_same; reflexivity|].
      split; [intros t Ht; rewrite !upd_other by exact Ht; reflexivity|].
      split; [eauto|]. unfold k_incr. cbn [q q_mode]. eauto.
    - unfold deliver_top. cbn [q q_mode]. fold q.
      cbn [commit c_sh c_pool c_trace c_labels ret_ev app]. rewrite Hw'.
      split; [reflexivity|]. split; [rewrite upd_same; reflexivity|].
      split; [intros t Ht; rewrite !upd_other by exact Ht; reflexivity|].
      split; [eauto|]. unfold k_incr. cbn [q q_mode]. eauto. }
  destruct Hk as [K|K]; rewrite K; apply Hgoal; reflexivity.
Qed.

Lemma chunk_steps e c t0 m rest :
  clonable e -> wf_env e ->
  c_pool c t0 = init_ts (Chunk m 0 :: rest) -> s_c (c_sh c) = 0 -> m <= e_len e ->
  let c' := step e (step e c t0) t0 in
  c_sh c' = with_c (c_sh c) m /\
  c_pool c' t0 = init_ts rest /\
  (forall t, t <> t0 -> c_pool c' t = c_pool c t) /\
  (exists r d, c_trace c' = ERet t0 r d :: ECall t0 (Chunk m 0) :: c_trace c /\
               (0 < m -> In (0, m) (res_cover e r))) /\
  (exists o, c_labels c' = LAtom t0 SC AAdd m 0 o :: LCall t0 :: c_labels c).
Proof.
  intros Hk He Hp Hc0 Hm.
  assert (HmW : m < W) by (destruct He as [Hl _]; lia).
  set (q := {| q_n := m; q_mode := MChunk 0; q_ctx := CTop |}).
  assert (E1 : step e c t0 = commit c t0 (c_sh c)
            {| t_pc := PRes q; t_todo := rest; t_buf := None; t_acc := [] |}
            (LCall t0) [ECall t0 (Chunk m 0)]).
  { unfold step. rewrite Hp. cbn [init_ts t_pc t_todo]. unfold call. cbn [call_res init_ts t_buf].
    destruct Hk as [K|K]; rewrite K; reflexivity. }
  cbv zeta. rewrite E1. clear E1.
  assert (Hq : wf_req q) by (split; [exact HmW|exact I]).
  unfold step. cbn [commit c_pool c_sh]. rewrite upd_same. cbn [t_pc].
  assert (Hgoal : forall cc, cc = finish e (commit c t0 (c_sh c) {| t_pc := PRes q; t_todo := rest; t_buf := None; t_acc := [] |} (LCall t0) [ECall t0 (Chunk m 0)]) t0
            (with_c (c_sh c) (wadd (s_c (c_sh c)) (k_incr e q)))
            {| t_pc := PRes q; t_todo := rest; t_buf := None; t_acc := [] |}
            (LAtom t0 SC AAdd (k_incr e q) (s_c (c_sh c)) (o_res q)) q (k_pull e q (s_c (c_sh c))) ->
     c_sh cc = with_c (c_sh c) m /\
     c_pool cc t0 = init_ts rest /\
     (forall t, t <> t0 -> c_pool cc t = c_pool c t) /\
     (exists r d, c_trace cc = ERet t0 r d :: ECall t0 (Chunk m 0) :: c_trace c /\
                  (0 < m -> In (0, m) (res_cover e r))) /\
     (exists o, c_labels cc = LAtom t0 SC AAdd m 0 o :: LCall t0 :: c_labels c)).
  { intros cc ->. unfold finish. rewrite (k_pull_spec e q _ He Hq).
    unfold deliver. cbn [q q_ctx]. fold q.
    assert (Hi : k_incr e q = m) by (unfold k_incr; cbn [q q_mode q_n]; lia).
    rewrite Hi, Hc0.
    assert (Hw' : wadd 0 m = m) by (unfold wadd; apply N.mod_small; lia).
    rewrite Hw'.
    unfold pull_spec, got. cbn [q q_n].
    destruct (N.ltb_spec 0 (e_len e)) as [Hl|Hl]; destruct (N.ltb_spec 0 m) as [Hm0|Hm0]; cbn [andb].
    - unfold deliver_top. cbn [q q_mode].
      cbn [commit c_sh c_pool c_trace c_labels ret_ev app].
      split; [reflexivity|]. split; [rewrite upd_same; reflexivity|].
      split; [intros t Ht; rewrite !upd_other by exact Ht; reflexivity|].
      split; [|eauto]. eexists _, _. split; [reflexivity|]. intros _.
      unfold chunk_res. cbn [res_cover]. apply in_or_app. right. left.
      replace (N.min 0 (N.min m (e_len e - 0))) with 0 by lia.
      f_equal; lia.
    - cbn [commit c_sh c_pool c_trace c_labels ret_ev app].
      split; [reflexivity|]. split; [rewrite upd_same; reflexivity|].
      split; [intros t Ht; rewrite !upd_other by exact Ht; reflexivity|].
      split; [|eauto]. eexists _, _. split; [reflexivity|]. lia.
    - lia.
    - cbn [commit c_sh c_pool c_trace c_labels ret_ev app].
      split; [reflexivity|]. split; [rewrite upd_same; reflexivity|].
      split; [intros t Ht; rewrite !upd_other by exact Ht; reflexivity|].
      split; [|eauto]. eexists _, _. split; [reflexivity|]. lia. }
  destruct Hk as [K|K]; rewrite K; apply Hgoal; reflexivity.
Qed.

Fixpoint pulls_sched (t0 : tid) (n : nat) : list tid :=
  match n with O => [] | S n => t0 :: t0 :: pulls_sched t0 n end.

Lemma pulls_sched_only t0 n : Forall (eq t0) (pulls_sched t0 n).
Proof. induction n; cbn [pulls_sched]; repeat constructor; assumption. Qed.

Lemma pulls_run e t0 : clonable e -> wf_env e -> forall n c,
  c_pool c t0 = init_ts (repeat (Next NVal) n) -> s_c (c_sh c) + N.of_nat n < W ->
  let c' := exec e c (pulls_sched t0 n) in
  c_sh c' = with_c (c_sh c) (s_c (c_sh c) + N.of_nat n) /\
  c_pool c' t0 = init_ts [] /\
  (forall t, t <> t0 -> c_pool c' t = c_pool c t) /\
  (exists P, c_trace c' = P ++ c_trace c /\ Forall (ev_of t0) P) /\
  (exists Q, c_labels c' = Q ++ c_labels c /\ nowrap Q).
Proof.
  intros Hk He. induction n as [|n IH]; intros c Hp Hw; cbv zeta.
  - cbn [pulls_sched exec fold_left]. split; [|split; [exact Hp|split; [reflexivity|split]]].
    + destruct (c_sh c) as [a1 a2 a3 a4 a5]. unfold with_c. cbn [s_c s_y s_f s_cur s_calls N.of_nat]. f_equal. lia.
    + exists []. split; [reflexivity|constructor].
    + exists []. split; [reflexivity|constructor].
  - cbn [pulls_sched]. rewrite !exec_cons. cbn [repeat] in Hp.
    destruct (next_steps e c t0 (repeat (Next NVal) n) Hk He Hp) as (H1 & H2 & H3 & (r & d & H4) & (o & H5)); [lia|].
    set (c1 := step e (step e c t0) t0) in *.
    assert (Hc1 : s_c (c_sh c1) = s_c (c_sh c) + 1) by (rewrite H1; reflexivity).
    destruct (IH c1 H2) as (G1 & G2 & G3 & (P & G4 & G4') & (Q & G5 & G5')); [rewrite Hc1; lia|].
    split; [|split; [exact G2|split; [|split]]].
    + rewrite G1, H1. unfold with_c. cbn [s_c s_y s_f s_cur s_calls]. f_equal. lia.
    + intros t Ht. rewrite G3, H3 by exact Ht. reflexivity.
    + exists (P ++ [ERet t0 r d; ECall t0 (Next NVal)]). rewrite G4, H4, <- app_assoc. split; [reflexivity|].
      apply Forall_app. split; [exact G4'|]. repeat constructor.
    + exists (Q ++ [LAtom t0 SC AAdd 1 (s_c (c_sh c)) o; LCall t0]). rewrite G5, H5, <- app_assoc. split; [reflexivity|].
      apply Forall_app. split; [exact G5'|]. repeat constructor. cbn [label_nowrap]. lia.
Qed.

(** the program and the schedule of the extra thread *)
Definition pre_prog (e : env) (k : N) : list op :=
  Chunk (N.min k (e_len e)) 0 :: repeat (Next NVal) (N.to_nat (k - e_len e)).

Definition pre_sched (e : env) (t0 : tid) (k : N) : list tid :=
  t0 :: t0 :: pulls_sched t0 (N.to_nat (k - e_len e)).

Definition with_prog (progs : tid -> list op) (t0 : tid) (p0 : list op) : tid -> list op :=
  fun t => if Nat.eqb t t0 then p0 else progs t.

Definition sh_at (k : N) : shared := {| s_c := k; s_y := 0; s_f := false; s_cur := 0; s_calls := 0 |}.

Lemma pre_sched_only e t0 k : Forall (eq t0) (pre_sched e t0 k).
Proof. unfold pre_sched. repeat constructor. apply pulls_sched_only. Qed.

Lemma pre_prog_wf e k : wf_env e -> Forall wf_op (pre_prog e k).
Proof.
  intros [Hl _]. unfold pre_prog. constructor; [cbn [wf_op]; lia|].
  apply Forall_forall. intros o Ho. apply repeat_spec in Ho. subst o. exact I.
Qed.

Theorem prefix_run e k progs t0 :
  clonable e -> wf_env e -> k < W ->
  let c0 := exec e (init (with_prog progs t0 (pre_prog e k))) (pre_sched e t0 k) in
  c_sh c0 = sh_at k /\
  c_pool c0 t0 = init_ts [] /\
  (forall t, t <> t0 -> c_pool c0 t = init_ts (progs t)) /\
  Forall (ev_of t0) (c_trace c0) /\
  nowrap (c_labels c0) /\
  (0 < N.min k (e_len e) -> In (0, N.min k (e_len e)) (cov e (c_trace c0))).
Proof.
  intros Hk He HkW. cbv zeta. unfold pre_sched. rewrite !exec_cons.
  set (ci := init (with_prog progs t0 (pre_prog e k))).
  assert (Hp : c_pool ci t0 = init_ts (Chunk (N.min k (e_len e)) 0 :: repeat (Next NVal) (N.to_nat (k - e_len e)))).
  { unfold ci, init, with_prog. cbn [c_pool]. rewrite Nat.eqb_refl. reflexivity. }
  destruct (chunk_steps e ci t0 _ _ Hk He Hp) as (H1 & H2 & H3 & (r & d & H4 & H4') & (o & H5)); [reflexivity|lia|].
  set (c1 := step e (step e ci t0) t0) in *.
  assert (Hc1 : s_c (c_sh c1) = N.min k (e_len e)) by (rewrite H1; reflexivity).
  destruct (pulls_run e t0 Hk He _ c1 H2) as (G1 & G2 & G3 & (P & G4 & G4') & (Q & G5 & G5')).
  { rewrite Hc1, N2Nat.id. lia. }
  split; [|split; [exact G2|split; [|split; [|split]]]].
  - rewrite G1, H1, N2Nat.id. unfold with_c, sh_at, ci, init. cbn [c_sh s_c s_y s_f s_cur s_calls]. f_equal. lia.
  - intros t Ht. rewrite G3, H3 by exact Ht. unfold ci, init, with_prog. cbn [c_pool].
    destruct (Nat.eqb_spec t t0); [contradiction|reflexivity].
  - rewrite G4, H4. apply Forall_app. split; [exact G4'|]. unfold ci, init. cbn [c_trace]. repeat constructor.
  - rewrite G5, H5. apply Forall_app. split; [exact G5'|]. unfold ci, init. cbn [c_labels]. repeat constructor.
    cbn [label_nowrap]. lia.
  - intros Hm. rewrite G4, H4, cov_app. apply in_or_app. right. cbn [cov]. apply in_or_app. left. apply H4'. exact Hm.
Qed.

(** the same, in terms of the clone: the prefix run ends in the shared state of [clone_of c progs] *)
Corollary prefix_run_clone e progs t0 c :
  clonable e -> wf_env e -> s_c (c_sh c) < W ->
  let k := s_c (c_sh c) in
  let c0 := exec e (init (with_prog progs t0 (pre_prog e k))) (pre_sched e t0 k) in
  Forall (eq t0) (pre_sched e t0 k) /\
  c_sh c0 = c_sh (clone_of c progs) /\
  c_pool c0 t0 = init_ts [] /\
  (forall t, t <> t0 -> c_pool c0 t = c_pool (clone_of c progs) t).
Proof.
  intros Hcl He Hk. cbv zeta.
  destruct (prefix_run e (s_c (c_sh c)) progs t0 Hcl He Hk) as (P1 & P2 & P3 & _).
  split; [apply pre_sched_only|]. split; [exact P1|]. split; [exact P2|exact P3].
Qed.

(** * (3) transporting the checkers from the combined trace [X ++ T0] to the clone's trace [X] *)

(** no event of thread [t0] *)
Definition not_ev_of (t0 : tid) (ev : event) : Prop :=
  match ev with ECall u _ | ERet u _ _ => u <> t0 | EFinal _ _ _ => True end.
Definition not_of (t0 : tid) (tr : list event) : Prop := Forall (not_ev_of t0) tr.

Lemma split_call_only t0 T0 : Forall (ev_of t0) T0 -> forall t, t <> t0 -> split_call t T0 = None.
Proof.
  intros H t Hn. induction H as [|ev tl Hev _ IH]; [reflexivity|].
  destruct ev as [u o|u r d|f r d]; cbn [ev_of] in Hev; cbn [split_call]; try exact IH.
  subst u. destruct (Nat.eqb_spec t0 t); [congruence|exact IH].
Qed.

Lemma buf_size_only t0 T0 : Forall (ev_of t0) T0 -> forall t, t <> t0 -> buf_size t T0 = None.
Proof.
  intros H t Hn. induction H as [|ev tl Hev _ IH]; [reflexivity|].
  destruct ev as [u o|u r d|f r d]; cbn [ev_of] in Hev; cbn [buf_size]; try exact IH.
  subst u. destruct o; try exact IH. destruct (Nat.eqb_spec t0 t); [congruence|exact IH].
Qed.

Section Transport.

Variable t0 : tid.
Variable T0 : list event.
Hypothesis HT0 : Forall (ev_of t0) T0.

Lemma split_call_T0 t : t <> t0 -> split_call t T0 = None.
Proof. intros Hn. apply (split_call_only t0 T0 HT0 t Hn). Qed.

Lemma buf_size_T0 t : t <> t0 -> buf_size t T0 = None.
Proof. intros Hn. apply (buf_size_only t0 T0 HT0 t Hn). Qed.

Lemma split_call_app t X : t <> t0 ->
  split_call t (X ++ T0) =
  match split_call t X with Some (o, older) => Some (o, older ++ T0) | None => None end.
Proof.
  intros Hn. induction X as [|ev X IH]; cbn [app split_call].
  - apply split_call_T0. exact Hn.
  - destruct ev as [u o|u r d|f r d]; try exact IH. destruct (Nat.eqb u t); [reflexivity|exact IH].
Qed.

Lemma buf_size_app t X : t <> t0 -> buf_size t (X ++ T0) = buf_size t X.
Proof.
  intros Hn. induction X as [|ev X IH]; cbn [app buf_size].
  - apply buf_size_T0. exact Hn.
  - destruct ev as [u o|u r d|f r d]; try exact IH. destruct o; try exact IH.
    destruct (Nat.eqb u t && negb (c =? 0)); [reflexivity|exact IH].
Qed.

Lemma split_call_not_of t X o older : not_of t0 X -> split_call t X = Some (o, older) -> not_of t0 older.
Proof.
  unfold not_of. induction X as [|ev X IH]; cbn [split_call]; [discriminate|]. intros F H.
  inversion F as [|? ? F1 F2]; subst.
  destruct ev as [u o'|u r d|f r d]; try (apply IH; assumption).
  destruct (Nat.eqb u t); [injection H as <- <-; exact F2|apply IH; assumption].
Qed.

Lemma end_reported_app X : not_of t0 X -> end_reported X = true -> end_reported (X ++ T0) = true.
Proof.
  unfold not_of. induction X as [|ev X IH]; cbn [app end_reported]; [discriminate|]. intros F H.
  inversion F as [|? ? F1 F2]; subst.
  destruct ev as [u o'|u r d|f r d]; try (apply IH; assumption).
  cbn [not_ev_of] in F1. rewrite (split_call_app u X F1).
  apply orb_true_iff in H. apply orb_true_iff. destruct H as [H|H]; [left|right; apply IH; assumption].
  destruct (split_call u X) as [[o older]|]; exact H.
Qed.

Lemma all_rets_transport (P P' : tid -> res -> list drops -> list event -> bool) :
  (forall t r d tl, t <> t0 -> not_of t0 tl -> P t r d (tl ++ T0) = true -> P' t r d tl = true) ->
  forall X, not_of t0 X -> all_rets P (X ++ T0) = true -> all_rets P' X = true.
Proof.
  intros Himp. unfold not_of. induction X as [|ev X IH]; intros F H; [reflexivity|].
  inversion F as [|? ? F1 F2]; subst. cbn [app] in H.
  destruct ev as [u o'|u r d|f r d]; cbn [all_rets] in *; try (apply IH; assumption).
  apply andb_true_iff in H. destruct H as [H1 H2]. apply andb_true_iff. split; [|apply IH; assumption].
  apply Himp; assumption.
Qed.

Variable e : env.

Lemma transport_C02 X : not_of t0 X -> chk_C02 e (X ++ T0) = true -> chk_C02 e X = true.
Proof. apply all_rets_transport. intros t r d tl _ _ H. exact H. Qed.

Lemma transport_C03 X : not_of t0 X -> chk_C03 e (X ++ T0) = true -> chk_C03 e X = true.
Proof.
  apply all_rets_transport. intros t r d tl Hn _. unfold ev_C03. rewrite (split_call_app t tl Hn).
  destruct (split_call t tl) as [[o older]|]; [|reflexivity].
  destruct o; try (intros H; exact H). rewrite (buf_size_app t older Hn). intros H; exact H.
Qed.

Lemma transport_C05 X : not_of t0 X -> chk_C05 e (X ++ T0) = true -> chk_C05 e X = true.
Proof.
  apply all_rets_transport. intros t r d tl Hn Hno. unfold ev_C05. rewrite (split_call_app t tl Hn).
  destruct (split_call t tl) as [[o older]|] eqn:Es; [|discriminate].
  destruct (end_reported older) eqn:Ee; [|reflexivity].
  rewrite (end_reported_app older (split_call_not_of t tl o older Hno Es) Ee). intros H; exact H.
Qed.

Lemma transport_nodup X : chk_C01_nodup e (X ++ T0) = true -> chk_C01_nodup e X = true.
Proof.
  unfold chk_C01_nodup. rewrite cov_app, pairwise_disj_app, iv_within_app. intros H.
  apply andb_true_iff in H. destruct H as [H Hw]. apply andb_true_iff in Hw. destruct Hw as [Hw _].
  apply andb_true_iff in H. destruct H as [H _]. apply andb_true_iff in H. destruct H as [H _].
  rewrite H, Hw. reflexivity.
Qed.

(** what the prefix thread was handed lies below everything the clone delivers *)
Lemma transport_floor X m : 0 < m -> In (0, m) (cov e T0) -> chk_C01_nodup e (X ++ T0) = true ->
  forall lo cnt, In (lo, cnt) (cov e X) -> 0 < cnt -> m <= lo.
Proof.
  unfold chk_C01_nodup. rewrite cov_app, pairwise_disj_app. intros Hm Hin H lo cnt Hx Hc.
  apply andb_true_iff in H. destruct H as [H _].
  apply andb_true_iff in H. destruct H as [_ H]. rewrite forallb_forall in H.
  specialize (H _ Hx). rewrite disj_from_forall in H. specialize (H _ Hin).
  unfold iv_disj, iv_hi in H. cbn [fst snd] in H.
  destruct (N.eqb_spec cnt 0); [lia|]. destruct (N.eqb_spec m 0); [lia|]. cbn [orb] in H.
  apply orb_true_iff in H. destruct H as [H|H]; apply N.leb_le in H; lia.
Qed.

End Transport.

(** * the theorem: the single-iterator properties for a clone, which starts at the counter [k] of its original *)

Lemma fresh_tid (s : list tid) : ~ In (S (list_max s)) s.
Proof.
  intros H. assert (Forall (fun x => (x <= list_max s)%nat) s) as F by (apply list_max_le; lia).
  rewrite Forall_forall in F. specialize (F _ H). lia.
Qed.

(** the combined run: the extra thread [t0] first brings a fresh iterator to the counter [k], then the
    clone's schedule runs; the trace of the combined run is the clone's trace on top of [t0]'s events *)
Lemma clone_combined e k progs s c t0 :
  clonable e -> wf_env e -> k < W -> s_c (c_sh c) = k -> ~ In t0 s ->
  let progs0 := with_prog progs t0 (pre_prog e k) in
  let s0 := pre_sched e t0 k in
  exists T0 L0,
    c_trace (exec e (init progs0) (s0 ++ s)) = c_trace (exec e (clone_of c progs) s) ++ T0 /\
    c_labels (exec e (init progs0) (s0 ++ s)) = c_labels (exec e (clone_of c progs) s) ++ L0 /\
    Forall (ev_of t0) T0 /\ nowrap L0 /\ not_of t0 (c_trace (exec e (clone_of c progs) s)) /\
    (0 < N.min k (e_len e) -> In (0, N.min k (e_len e)) (cov e T0)).
Proof.
  intros Hcl He HkW Hc Hfresh. cbv zeta. rewrite exec_app.
  destruct (prefix_run e k progs t0 Hcl He HkW) as (P1 & P2 & P3 & P4 & P5 & P6).
  set (c0 := exec e (init (with_prog progs t0 (pre_prog e k))) (pre_sched e t0 k)) in *.
  destruct (exec_frame e s c0 (clone_of c progs)) as (X & Y & H1 & H2 & H3 & H4 & _ & _ & H7).
  - rewrite P1. unfold clone_of, sh_at. cbn [c_sh]. rewrite Hc. reflexivity.
  - intros t Ht. rewrite P3 by (intros ->; contradiction). reflexivity.
  - cbn [clone_of c_trace c_labels] in H2, H4. rewrite app_nil_r in H2, H4.
    exists (c_trace c0), (c_labels c0). rewrite H1, H2, H3, H4.
    repeat split; try assumption.
    unfold not_of. eapply Forall_impl; [|exact H7]. intros ev (t & Ht & Hev).
    destruct ev as [u o|u r d|f r d]; cbn [ev_of not_ev_of] in *; try exact I; subst u; intros ->; contradiction.
Qed.

Theorem clone_properties e k progs s c :
  known_env e -> clonable e -> k < W -> wf_progs progs ->
  s_c (c_sh c) = k ->
  nowrap (c_labels (exec e (clone_of c progs) s)) ->
  let tr := c_trace (exec e (clone_of c progs) s) in
  chk_C01_nodup e tr = true /\
  (forall lo cnt, In (lo, cnt) (cov e tr) -> 0 < cnt -> N.min k (e_len e) <= lo) /\
  chk_C02 e tr = true /\
  chk_C03 e tr = true /\
  chk_C05 e tr = true.
Proof.
  intros Hke Hcl HkW Hp Hc Hnw. cbv zeta.
  pose proof Hke as (He & _ & _).
  set (t0 := S (list_max s)).
  destruct (clone_combined e k progs s c t0 Hcl He HkW Hc (fresh_tid s)) as (T0 & L0 & Etr & Elb & HT0 & HL0 & Hno & Hin).
  set (progs0 := with_prog progs t0 (pre_prog e k)) in *.
  set (sched := pre_sched e t0 k ++ s) in *.
  assert (Hp0 : wf_progs progs0).
  { intros t. unfold progs0, with_prog. destruct (Nat.eqb t t0); [apply pre_prog_wf; exact He|apply Hp]. }
  assert (Hnw0 : nowrap (c_labels (exec e (init progs0) sched))).
  { rewrite Elb. apply Forall_app. split; assumption. }
  pose proof (known_nodup e Hke progs0 Hp0 sched Hnw0) as K1.
  pose proof (known_C02 e Hke progs0 Hp0 sched Hnw0) as K2.
  pose proof (known_C03 e Hke progs0 Hp0 sched Hnw0) as K3.
  pose proof (known_C05 e Hke progs0 Hp0 sched Hnw0) as K5.
  rewrite Etr in K1, K2, K3, K5.
  split; [eapply transport_nodup; exact K1|].
  split.
  { intros lo cnt Hx Hcnt. destruct (N.eq_dec (N.min k (e_len e)) 0) as [E|E]; [lia|].
    eapply (transport_floor T0 e); [| |exact K1|exact Hx|exact Hcnt]; [lia|apply Hin; lia]. }
  split; [eapply transport_C02; eassumption|].
  split; [eapply transport_C03; eassumption|].
  eapply transport_C05; eassumption.
Qed.

(** non-vacuity: a clone of a slice of 5 elements taken at counter 2 (inside), and at counter 7 (beyond
    the end: the original was pulled from after its end) *)
Example clone_properties_apply :
  let e := {| e_kind := KSlice; e_adaptor := ANone; e_len := 5; e_start := 0; e_end := 0; e_hint := HExact;
              e_owning := false; e_mode := Checked; e_crash := None; e_gap := fun _ => false |} in
  let progs := fun t => match t with 0%nat => [Next NIdVal; Chunk 2 1] | 1%nat => [Chunk 4 4; Next NVal] | _ => [] end in
  let s := [0; 1; 0; 1; 0; 0; 1; 1]%nat in
  let c2 := exec e (init (fun _ => [Chunk 2 2])) [0; 0]%nat in
  let c7 := exec e (init (fun _ => [Chunk 5 0; Next NVal; Next NVal])) [0; 0; 0; 0; 0; 0]%nat in
  (s_c (c_sh c2) = 2 /\ cov e (c_trace (exec e (clone_of c2 progs) s)) = [(3, 2); (5, 0); (2, 1)]
   /\ chk_C05 e (c_trace (exec e (clone_of c2 progs) s)) = true) /\
  (s_c (c_sh c7) = 7 /\ cov e (c_trace (exec e (clone_of c7 progs) s)) = []
   /\ chk_C05 e (c_trace (exec e (clone_of c7 progs) s)) = true).
Proof.
  cbv zeta. split.
  - split; [reflexivity|].
    match goal with |- context [exec ?e (clone_of ?c ?p) ?s] =>
      pose proof (clone_properties e 2 p s c) as H end.
    split; [vm_compute; reflexivity|]. apply H.
    + repeat split; cbn; rewrite ?W_val; lia.
    + left; reflexivity.
    + rewrite W_val; lia.
    + intros [|[|t]]; repeat constructor; cbn [wf_op]; rewrite W_val; lia.
    + reflexivity.
    + match goal with |- nowrap ?l => let v := eval vm_compute in l in
        replace l with v by (vm_compute; reflexivity) end.
      repeat constructor; cbn [label_nowrap]; rewrite W_val; lia.
  - split; [reflexivity|].
    match goal with |- context [exec ?e (clone_of ?c ?p) ?s] =>
      pose proof (clone_properties e 7 p s c) as H end.
    split; [vm_compute; reflexivity|]. apply H.
    + repeat split; cbn; rewrite ?W_val; lia.
    + left; reflexivity.
    + rewrite W_val; lia.
    + intros [|[|t]]; repeat constructor; cbn [wf_op]; rewrite W_val; lia.
    + reflexivity.
    + match goal with |- nowrap ?l => let v := eval vm_compute in l in
        replace l with v by (vm_compute; reflexivity) end.
      repeat constructor; cbn [label_nowrap]; rewrite W_val; lia.
Qed.

Print Assumptions step_frame.
Print Assumptions exec_frame.
Print Assumptions prefix_run.
Print Assumptions clone_properties.
