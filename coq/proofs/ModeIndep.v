(** * C17: the run of the machine is the same in the two build modes.

    The field [e_mode] of the environment (overflow checks on / off) is read by [add_u] and [sub_u]
    only.  These occur in the index arithmetic of the known-size kinds ([k_get], [k_fetch_n],
    [k_buf_pull]) and in [into_seq_iter] of a range ([final_step]); the wrapper over an arbitrary
    iterator performs no checked arithmetic at all.  On every reachable state the additions and
    subtractions stay inside the machine word ([k_pull_spec], [k_fetch_n_spec] of ArithOk.v), so the
    two modes compute the same thing: the whole configuration reached by a schedule -- shared state,
    thread states, trace of calls and results, labels -- does not depend on the mode, and neither
    does the end of life of the iterator. *)
From Coq Require Import Lia List.
From OCI Require Import Machine Checkers.
From OCI.proofs Require Import ArithOk Trace InvKnown ChkKnown IterBase ChkIter ChkAll.
Import ListNotations.
Open Scope N_scope.

(** ** the parts of a step that take the environment but do not read the mode *)

Lemma drops_after_mode e m k rs : drops_after (with_mode e m) k rs = drops_after e k rs.
Proof.
  revert k. induction rs as [|r tl IH]; intros k; cbn [drops_after]; [reflexivity|].
  rewrite !IH. reflexivity.
Qed.

Lemma deliver_mode e m ts q pr : deliver (with_mode e m) ts q pr = deliver e ts q pr.
Proof.
  unfold deliver, deliver_top, deliver_loop. rewrite ?drops_after_mode.
  destruct (q_ctx q); destruct pr as [[|b rs cnt]|k]; try reflexivity.
  - destruct (q_mode q); rewrite ?drops_after_mode; reflexivity.
  - destruct (loop_invoke l crash (total_cnt (t_acc ts)) rs cnt) as [inv [used|]]; rewrite ?drops_after_mode; reflexivity.
Qed.

Lemma finish_mode e m c t sh ts l q pr : finish (with_mode e m) c t sh ts l q pr = finish e c t sh ts l q pr.
Proof. unfold finish. rewrite deliver_mode. reflexivity. Qed.

Lemma call_mode e m c t ts o rest : call (with_mode e m) c t ts o rest = call e c t ts o rest.
Proof. reflexivity. Qed.

Lemma wf_env_mode e m : wf_env e -> wf_env (with_mode e m).
Proof. intros H. exact H. Qed.

Lemma known_env_mode e m : known_env e -> known_env (with_mode e m).
Proof. intros H. exact H. Qed.

Lemma iter_env_mode e m : iter_env e -> iter_env (with_mode e m).
Proof. intros H. exact H. Qed.

Lemma src_env_mode e m : src_env e -> src_env (with_mode e m).
Proof. intros [H|H]; [left; apply known_env_mode|right; apply iter_env_mode]; exact H. Qed.

(** ** the parts that do read the mode: the same result in every mode, because nothing overflows *)

Lemma k_pull_mode e m q b : wf_env e -> wf_req q -> k_pull (with_mode e m) q b = k_pull e q b.
Proof.
  intros He Hq. rewrite (k_pull_spec (with_mode e m) q b (wf_env_mode e m He) Hq).
  rewrite (k_pull_spec e q b He Hq). reflexivity.
Qed.

Lemma k_fetch_n_mode e m n b : wf_env e -> n < W -> k_fetch_n (with_mode e m) n b = k_fetch_n e n b.
Proof.
  intros He Hn. rewrite (k_fetch_n_spec (with_mode e m) n b (wf_env_mode e m He) Hn).
  rewrite (k_fetch_n_spec e n b He Hn). reflexivity.
Qed.

(** ** one step *)

(** a thread about to pull from a known-size source has a well-formed request (part of [KInv]) *)
Definition req_ok (e : env) (c : cfg) (t : tid) : Prop :=
  forall q, t_pc (c_pool c t) = PRes q -> is_known (e_kind e) = true -> wf_req q.

(** both sides are the same tree of case distinctions, with the same leaves *)
Ltac same_branches :=
  repeat first
    [ reflexivity | rewrite finish_mode | rewrite drops_after_mode
    | match goal with |- match ?x with _ => _ end = _ => destruct x end
    | match goal with |- (if ?x then _ else _) = _ => destruct x end ].

Lemma step_mode e m c t : wf_env e -> req_ok e c t -> step (with_mode e m) c t = step e c t.
Proof.
  intros He Hq. unfold req_ok in Hq. unfold step.
  change (e_kind (with_mode e m)) with (e_kind e).
  change (e_len (with_mode e m)) with (e_len e).
  change (e_hint (with_mode e m)) with (e_hint e).
  change (crashes_now (with_mode e m)) with (crashes_now e).
  change (src_next (with_mode e m)) with (src_next e).
  change (k_incr (with_mode e m)) with (k_incr e).
  change (k_len (with_mode e m)) with (k_len e).
  change (drops_of_list (with_mode e m)) with (drops_of_list e).
  rewrite (k_fetch_n_mode e m (e_len e) (s_c (c_sh c)) He (proj1 He)).
  destruct (t_pc (c_pool c t)) as [|q|q b|q b|q b|q b got|q b got|q b got|q b got| |hm|hm] eqn:Hpc.
  3-12: same_branches.
  - destruct (t_todo (c_pool c t)); [reflexivity|]. apply call_mode.
  - destruct (e_kind e) eqn:K; try reflexivity;
      rewrite finish_mode; rewrite (k_pull_mode e m q (s_c (c_sh c)) He (Hq q eq_refl eq_refl)); reflexivity.
Qed.

(** the wrapper over an arbitrary iterator performs no checked arithmetic: no hypothesis on the state *)
Lemma step_mode_iter e m c t : iter_env e -> step (with_mode e m) c t = step e c t.
Proof.
  intros [He K]. apply step_mode; [exact He|]. intros q _ Hk. rewrite K in Hk. discriminate Hk.
Qed.

Lemma exec_mode_iter e m c sched : iter_env e -> exec (with_mode e m) c sched = exec e c sched.
Proof.
  intros Hie. unfold exec. revert c. induction sched as [|t s IH]; intros c; cbn [fold_left]; [reflexivity|].
  rewrite step_mode_iter by exact Hie. apply IH.
Qed.

(** a known-size source: the invariant of the run gives the well-formed request *)
Lemma kinv_req_ok e L c t : KInv e L c -> req_ok e c t.
Proof.
  intros I q Hpc _. destruct (k_wf e L c I t) as (Hok & _ & _).
  unfold kpc_ok in Hok. rewrite Hpc in Hok. exact (proj1 Hok).
Qed.

Lemma exec_mode_known e m progs sched : known_env e -> wf_progs progs ->
  nowrap (c_labels (exec e (init progs) sched)) ->
  exec (with_mode e m) (init progs) sched = exec e (init progs) sched.
Proof.
  intros Hke Hp. induction sched as [|t s IH] using rev_ind; intros Hnw; [reflexivity|].
  rewrite exec_snoc in Hnw. pose proof (step_labels_suffix _ _ _ Hnw) as Hnw'.
  rewrite !exec_snoc. rewrite (IH Hnw').
  destruct Hke as (He & Hk & Hown).
  apply step_mode; [exact He|].
  apply kinv_req_ok with (L := nodup PeanoNat.Nat.eq_dec s).
  apply kinv_exec; try assumption.
  - apply NoDup_nodup.
  - apply Forall_forall. intros u Hu. apply nodup_In. exact Hu.
Qed.

(** ** the end of life *)

Lemma final_mode e m c t f : wf_env e -> final_step (with_mode e m) c t f = final_step e c t f.
Proof.
  intros [Hl Hr]. unfold final_step.
  change (e_kind (with_mode e m)) with (e_kind e).
  change (e_len (with_mode e m)) with (e_len e).
  change (e_start (with_mode e m)) with (e_start e).
  change (e_end (with_mode e m)) with (e_end e).
  change (e_mode (with_mode e m)) with m.
  destruct f as [|k]; destruct (e_kind e) eqn:K; try reflexivity.
  destruct Hr as (H1 & H2 & H3).
  assert (e_start e + N.min (s_c (c_sh c)) (e_len e) < W) as Hlt by lia.
  rewrite !add_u_ok by exact Hlt. reflexivity.
Qed.

Lemma src_wf_env e : src_env e -> wf_env e.
Proof. intros [(H & _)|(H & _)]; exact H. Qed.

(** ** C17, on every run *)

Theorem exec_mode_independent : forall e, src_env e -> forall progs, wf_progs progs -> forall sched,
  nowrap (c_labels (exec e (init progs) sched)) ->
  forall m, exec (with_mode e m) (init progs) sched = exec e (init progs) sched.
Proof.
  intros e [Hke|Hie] progs Hp sched Hnw m.
  - apply exec_mode_known; assumption.
  - apply exec_mode_iter; assumption.
Qed.

Print Assumptions exec_mode_independent.

Theorem final_mode_independent : forall e, src_env e -> forall progs, wf_progs progs -> forall sched,
  nowrap (c_labels (exec e (init progs) sched)) ->
  forall m t f, final_step (with_mode e m) (exec (with_mode e m) (init progs) sched) t f =
                final_step e (exec e (init progs) sched) t f.
Proof.
  intros e Hsrc progs Hp sched Hnw m t f.
  rewrite (exec_mode_independent e Hsrc progs Hp sched Hnw m).
  apply final_mode. apply src_wf_env. exact Hsrc.
Qed.

Print Assumptions final_mode_independent.
