(** * The wrapper over an arbitrary iterator: every use of the wrapped iterator happens-after the
      previous one (layer H, on top of layer A).

    The happens-before relation is the one of [Checkers.hb_step]: vector clocks computed over the label
    stream from the orderings that the source declares ([gen/Orderings.v], regenerated from the source
    on every run).  The proof obligation about the source is [sufficient = true]: the reads of the
    yielded counter are acquire reads and its read-modify-writes are release writes. *)
From Coq Require Import Lia ZArith Permutation.
From OCI Require Import Machine Checkers.
From OCI.proofs Require Import Base Trace ArithOk InvKnown IterBase IterProt InvIterA.
Open Scope N_scope.

(** what the protocol needs of the declared orderings *)
Definition sufficient : bool :=
  is_acq ord_yielded_read_get && is_acq ord_yielded_read_progress &&
  is_rel ord_yielded_publish_single && is_rel ord_yielded_publish_chunk.

Lemma sufficient_now : sufficient = true.
Proof. reflexivity. Qed.

Lemma suff_ldy q : is_acq (o_ldy q) = true.
Proof. pose proof sufficient_now as H. unfold sufficient in H. unfold o_ldy. destruct (single q);
  repeat (apply andb_true_iff in H; destruct H as [H ?]); assumption. Qed.

Lemma suff_pub q : is_rel (o_pub q) = true.
Proof. pose proof sufficient_now as H. unfold sufficient in H. unfold o_pub. destruct (single q);
  repeat (apply andb_true_iff in H; destruct H as [H ?]); assumption. Qed.

Lemma hb_run_cons l ls : hb_run (l :: ls) = hb_step (hb_run ls) l.
Proof. unfold hb_run. cbn [rev]. rewrite fold_left_app. reflexivity. Qed.

Section IterH.

Variable e : env.
Hypothesis Hk : e_kind e = KIter.
Variable L : list tid.
Hypothesis NDL : NoDup L.

Definition covered (v : vclock) (cell : option (tid * N)) : Prop :=
  match cell with None => True | Some (u, k) => k <= v u end.

(** the ticket at the yielded counter was given up: nobody will ever be served again *)
Definition dead (c : cfg) : Prop :=
  s_y (c_sh c) < s_c (c_sh c) /\ forall t b n, ticket (t_pc (c_pool c t)) = Some (b, n) -> b <> s_y (c_sh c).

Record IInvH (c : cfg) : Prop := {
  h_fine : h_ok (hb_run (c_labels c)) = true;
  h_crit : forall t, in_crit (t_pc (c_pool c t)) = true -> covered (h_vc (hb_run (c_labels c)) t) (h_cell (hb_run (c_labels c)));
  h_open : (forall t, in_crit (t_pc (c_pool c t)) = false) ->
           covered (h_rel (hb_run (c_labels c)) SY) (h_cell (hb_run (c_labels c))) \/ dead c
}.

(** clocks only grow *)
Lemma covered_mono v v' cell : (forall u, v u <= v' u) -> covered v cell -> covered v' cell.
Proof. intros H. destruct cell as [[u k]|]; cbn; [specialize (H u); lia|auto]. Qed.

Lemma join_ge_l a b u : a u <= vc_join a b u.
Proof. unfold vc_join. lia. Qed.
Lemma join_ge_r a b u : b u <= vc_join a b u.
Proof. unfold vc_join. lia. Qed.

Lemma set_vc_same f t v : set_vc f t v t = v.
Proof. unfold set_vc. now rewrite Nat.eqb_refl. Qed.
Lemma set_vc_other f t v u : u <> t -> set_vc f t v u = f u.
Proof. unfold set_vc. intros H. destruct (Nat.eqb_spec u t); congruence. Qed.

(** a step of thread [t] on a location other than the yielded counter, or a load of it by a thread that
    stays outside the critical section: only the clock of [t] may grow *)
Definition grows_only (h h' : hbst) (t : tid) : Prop :=
  h_ok h' = h_ok h /\ h_cell h' = h_cell h /\ h_rel h' SY = h_rel h SY /\
  (forall u, u <> t -> h_vc h' u = h_vc h u) /\ (forall u, h_vc h t u <= h_vc h' t u).

Lemma grows_atom_other h t s k a r o : s <> SY -> grows_only h (hb_step h (LAtom t s k a r o)) t.
Proof.
  intros Hs. unfold grows_only, hb_step. destruct k; cbn [h_ok h_cell h_rel h_vc].
  - repeat split; try reflexivity.
    + intros u Hu. apply set_vc_other. exact Hu.
    + intros u. rewrite set_vc_same. destruct (is_acq o); [apply join_ge_l|lia].
  - repeat split; try reflexivity; try lia.
    unfold set_rel. destruct s; try reflexivity. contradiction Hs; reflexivity.
  - repeat split; try reflexivity.
    + unfold set_rel. destruct s; try reflexivity. contradiction Hs; reflexivity.
    + intros u Hu. apply set_vc_other. exact Hu.
    + intros u. rewrite set_vc_same. destruct (is_acq o); [apply join_ge_l|lia].
Qed.

Lemma grows_yload h t a r o : grows_only h (hb_step h (LAtom t SY ALoad a r o)) t.
Proof.
  unfold grows_only, hb_step. cbn [h_ok h_cell h_rel h_vc]. repeat split; try reflexivity.
  - intros u Hu. apply set_vc_other. exact Hu.
  - intros u. rewrite set_vc_same. destruct (is_acq o); [apply join_ge_l|lia].
Qed.

Lemma grows_call h t : grows_only h (hb_step h (LCall t)) t.
Proof. unfold grows_only, hb_step. repeat split; try reflexivity; lia. Qed.

(** ** classes of steps *)

Lemma iH_commit c t sh' ts' l evs :
  h_ok (hb_step (hb_run (c_labels c)) l) = true ->
  (forall u, in_crit (t_pc (upd (c_pool c) t ts' u)) = true ->
     covered (h_vc (hb_step (hb_run (c_labels c)) l) u) (h_cell (hb_step (hb_run (c_labels c)) l))) ->
  ((forall u, in_crit (t_pc (upd (c_pool c) t ts' u)) = false) ->
     covered (h_rel (hb_step (hb_run (c_labels c)) l) SY) (h_cell (hb_step (hb_run (c_labels c)) l)) \/
     dead (commit c t sh' ts' l evs)) ->
  IInvH (commit c t sh' ts' l evs).
Proof.
  intros H1 H2 H3. split; cbn [commit c_labels c_pool]; rewrite ?hb_run_cons; assumption.
Qed.

Lemma others_not_crit c t : IInvA e L c -> in_crit (t_pc (c_pool c t)) = true ->
  forall u, u <> t -> in_crit (t_pc (c_pool c u)) = false.
Proof.
  intros A Ct u Hne. destruct (in_crit (t_pc (c_pool c u))) eqn:E; [|reflexivity].
  exfalso. apply Hne. apply (mutex e L c A); assumption.
Qed.

(** a thread outside the critical section that stays outside; the label does not touch the cell nor what
    the yielded counter releases *)
Lemma iH_grow c t sh' ts' l evs :
  IInvH c -> IInvA e L c ->
  in_crit (t_pc (c_pool c t)) = false -> in_crit (t_pc ts') = false ->
  grows_only (hb_run (c_labels c)) (hb_step (hb_run (c_labels c)) l) t ->
  (dead c -> dead (commit c t sh' ts' l evs)) ->
  IInvH (commit c t sh' ts' l evs).
Proof.
  intros I A Ct Ct' (G1 & G2 & G3 & G4 & G5) Hd. apply iH_commit.
  - rewrite G1. apply (h_fine c I).
  - intros u. destruct (Nat.eq_dec u t) as [->|Hn]; [rewrite upd_same, Ct'; discriminate|].
    rewrite upd_other by assumption. intros Cu. rewrite G2, (G4 u Hn). apply (h_crit c I u Cu).
  - intros Ho. assert (Ho' : forall u, in_crit (t_pc (c_pool c u)) = false).
    { intros u. destruct (Nat.eq_dec u t) as [->|Hn]; [exact Ct|]. specialize (Ho u). rewrite upd_other in Ho by assumption. exact Ho. }
    destruct (h_open c I Ho') as [H|H]; [left; rewrite G2, G3; exact H|right; apply Hd; exact H].
Qed.

(** the thread inside the critical section stays inside; its clock may grow; the cell is not touched *)
Lemma iH_keep c t sh' ts' l evs :
  IInvH c -> IInvA e L c ->
  in_crit (t_pc (c_pool c t)) = true -> in_crit (t_pc ts') = true ->
  grows_only (hb_run (c_labels c)) (hb_step (hb_run (c_labels c)) l) t ->
  IInvH (commit c t sh' ts' l evs).
Proof.
  intros I A Ct Ct' (G1 & G2 & G3 & G4 & G5). apply iH_commit.
  - rewrite G1. apply (h_fine c I).
  - intros u. destruct (Nat.eq_dec u t) as [->|Hn].
    + intros _. rewrite G2. eapply covered_mono; [apply G5|]. apply (h_crit c I t Ct).
    + rewrite upd_other by assumption. intros Cu. rewrite (others_not_crit c t A Ct u Hn) in Cu. discriminate.
  - intros Ho. specialize (Ho t). rewrite upd_same, Ct' in Ho. discriminate.
Qed.

(** the thread inside the critical section leaves it without publishing *)
Lemma iH_abandon c t sh' ts' l evs :
  IInvH c -> IInvA e L c ->
  in_crit (t_pc (c_pool c t)) = true -> in_crit (t_pc ts') = false -> ticket (t_pc ts') = None ->
  s_c sh' = s_c (c_sh c) -> s_y sh' = s_y (c_sh c) ->
  grows_only (hb_run (c_labels c)) (hb_step (hb_run (c_labels c)) l) t ->
  IInvH (commit c t sh' ts' l evs).
Proof.
  intros I A Ct Ct' Tt' Ec Ey (G1 & G2 & G3 & G4 & G5). apply iH_commit.
  - rewrite G1. apply (h_fine c I).
  - intros u. destruct (Nat.eq_dec u t) as [->|Hn]; [rewrite upd_same, Ct'; discriminate|].
    rewrite upd_other by assumption. intros Cu. rewrite (others_not_crit c t A Ct u Hn) in Cu. discriminate.
  - intros _. right. unfold dead. cbn [commit c_sh c_pool]. rewrite Ec, Ey.
    pose proof (a_prot e L c A) as P.
    assert (exists b n, ticket (pcs_of c t) = Some (b, n)) as (b & n & Tt)
      by (unfold pcs_of; destruct (t_pc (c_pool c t)); cbn in *; try discriminate; eauto).
    pose proof (p_crit _ _ _ _ _ P t _ _ Ct Tt) as Hb. subst b.
    pose proof (p_tk _ _ _ _ _ P t _ _ Tt) as (Hn1 & _ & Hsc).
    split; [lia|]. intros u b' m. destruct (Nat.eq_dec u t) as [->|Hn]; [rewrite upd_same, Tt'; discriminate|].
    rewrite upd_other by assumption. intros E.
    pose proof (p_tk _ _ _ _ _ P u b' m E) as (H1 & H2 & H3).
    pose proof (p_disj _ _ _ _ _ P u t b' m _ _ Hn E Tt). lia.
Qed.

(** the thread whose ticket begins at the yielded counter reads it with an acquire load and enters *)
Lemma iH_enter c t q l :
  IInvH c -> IInvA e L c ->
  t_pc (c_pool c t) = PLdY q (s_y (c_sh c)) ->
  (exists a r, l = LAtom t SY ALoad a r (o_ldy q)) ->
  IInvH (commit c t (c_sh c) (set_pc (c_pool c t) (PChkT q (s_y (c_sh c)))) l []).
Proof.
  intros I A Hpc (a & r & ->).
  pose proof (a_prot e L c A) as P.
  assert (Tt : ticket (pcs_of c t) = Some (s_y (c_sh c), pub_incr q)) by (unfold pcs_of; rewrite Hpc; reflexivity).
  assert (Hopen : forall u, in_crit (t_pc (c_pool c u)) = false).
  { intros u. destruct (in_crit (t_pc (c_pool c u))) eqn:E; [|reflexivity]. exfalso.
    destruct (Nat.eq_dec u t) as [->|Hne]; [rewrite Hpc in E; discriminate|].
    assert (exists b n, ticket (pcs_of c u) = Some (b, n)) as (b & n & Tu)
      by (unfold pcs_of; destruct (t_pc (c_pool c u)); cbn in *; try discriminate; eauto).
    pose proof (p_crit _ _ _ _ _ P u b n E Tu). pose proof (p_tk _ _ _ _ _ P u b n Tu). pose proof (p_tk _ _ _ _ _ P t _ _ Tt).
    pose proof (p_disj _ _ _ _ _ P u t b n _ _ Hne Tu Tt). lia. }
  apply iH_commit; unfold hb_step; cbn [h_ok h_cell h_rel h_vc]; rewrite ?(suff_ldy q).
  - apply (h_fine c I).
  - intros u. destruct (Nat.eq_dec u t) as [->|Hn].
    + intros _. rewrite set_vc_same.
      destruct (h_open c I Hopen) as [H|[_ H]].
      * eapply covered_mono; [|exact H]. intros v. apply join_ge_r.
      * exfalso. apply (H t _ _ Tt). reflexivity.
    + rewrite upd_other by assumption. intros Cu. rewrite Hopen in Cu. discriminate.
  - intros Ho. specialize (Ho t). rewrite upd_same in Ho. discriminate.
Qed.

(** one use of the wrapped iterator by the thread inside the critical section *)
Lemma iH_access c t sh' ts' l :
  IInvH c -> IInvA e L c ->
  in_crit (t_pc (c_pool c t)) = true -> in_crit (t_pc ts') = true ->
  ((exists r, l = LSrc t r) \/ l = LSrcPanic t) ->
  IInvH (commit c t sh' ts' l []).
Proof.
  intros I A Ct Ct' Hl.
  pose proof (h_crit c I t Ct) as Hcov.
  assert (Hstep : hb_step (hb_run (c_labels c)) l =
     let h := hb_run (c_labels c) in
     let v := h_vc h t in
     let v' : vclock := fun u => if Nat.eqb u t then v t + 1 else v u in
     let fine := match h_cell h with Some (u, k) => Nat.eqb u t || (k <=? v u) | None => true end in
     {| h_vc := set_vc (h_vc h) t v'; h_rel := h_rel h; h_cell := Some (t, v t + 1); h_ok := h_ok h && fine |}).
  { destruct Hl as [(r & ->)| ->]; reflexivity. }
  apply iH_commit; rewrite Hstep; cbn [h_ok h_cell h_rel h_vc].
  - rewrite (h_fine c I). cbn [andb]. destruct (h_cell (hb_run (c_labels c))) as [[u k]|]; [|reflexivity].
    cbn [covered] in Hcov. apply orb_true_iff. right. apply N.leb_le. exact Hcov.
  - intros u. destruct (Nat.eq_dec u t) as [->|Hn].
    + intros _. rewrite set_vc_same. cbn [covered]. rewrite Nat.eqb_refl. lia.
    + rewrite upd_other by assumption. intros Cu. rewrite (others_not_crit c t A Ct u Hn) in Cu. discriminate.
  - intros Ho. specialize (Ho t). rewrite upd_same, Ct' in Ho. discriminate.
Qed.

(** the thread inside the critical section publishes with a release read-modify-write and leaves *)
Lemma iH_publish c t q sh' ts' l evs :
  IInvH c -> IInvA e L c ->
  in_crit (t_pc (c_pool c t)) = true -> in_crit (t_pc ts') = false ->
  (exists a r, l = LAtom t SY AAdd a r (o_pub q)) ->
  IInvH (commit c t sh' ts' l evs).
Proof.
  intros I A Ct Ct' (a & r & ->).
  pose proof (h_crit c I t Ct) as Hcov.
  apply iH_commit; unfold hb_step; cbn [h_ok h_cell h_rel h_vc]; rewrite ?(suff_pub q).
  - apply (h_fine c I).
  - intros u. destruct (Nat.eq_dec u t) as [->|Hn]; [rewrite upd_same, Ct'; discriminate|].
    rewrite upd_other by assumption. intros Cu. rewrite (others_not_crit c t A Ct u Hn) in Cu. discriminate.
  - intros _. left. unfold set_rel. cbn [site_eqb].
    eapply covered_mono; [|exact Hcov]. intros v.
    destruct (is_acq (o_pub q)).
    + etransitivity; [apply join_ge_l|apply join_ge_r].
    + apply join_ge_r.
Qed.

(** ** every step preserves the invariant *)

Lemma dead_keep c t sh' ts' l evs :
  s_y sh' = s_y (c_sh c) -> s_c (c_sh c) <= s_c sh' ->
  (forall b n, ticket (t_pc ts') = Some (b, n) -> ticket (t_pc (c_pool c t)) = Some (b, n) \/ b = s_c (c_sh c)) ->
  dead c -> dead (commit c t sh' ts' l evs).
Proof.
  intros Ey Ec Ht [D1 D2]. unfold dead. cbn [commit c_sh c_pool]. rewrite Ey. split; [lia|].
  intros u b n. destruct (Nat.eq_dec u t) as [->|Hn].
  - rewrite upd_same. intros E. destruct (Ht b n E) as [H|H]; [apply (D2 t b n H)|lia].
  - rewrite upd_other by assumption. apply D2.
Qed.

Lemma finish_form c t sh ts l q pr :
  exists ts' evs, finish e c t sh ts l q pr = commit c t sh ts' l evs /\
                  in_crit (t_pc ts') = false /\ ticket (t_pc ts') = None.
Proof.
  unfold finish. destruct (deliver e ts q pr) as [ts' o] eqn:E. exists ts', (ret_ev t o). split; [reflexivity|].
  unfold deliver in E. destruct (q_ctx q).
  - destruct pr as [[|b rs cnt]|k]; try (injection E as <- <-; split; reflexivity).
    unfold deliver_top in E. destruct (q_mode q); try (injection E as <- <-; split; reflexivity).
    destruct (e_kind e), (t_buf ts); try (injection E as <- <-; split; reflexivity).
    destruct (write_slots (bf_slots b0) (runs_vals rs)). injection E as <- <-. split; reflexivity.
  - destruct pr as [[|b rs cnt]|k]; try (injection E as <- <-; split; reflexivity).
    unfold deliver_loop in E. destruct (loop_invoke l0 crash (total_cnt (t_acc ts)) rs cnt) as [inv [used|]];
      injection E as <- <-; split; reflexivity.
Qed.

Lemma iH_finish_grow c t sh' l q pr :
  IInvH c -> IInvA e L c ->
  in_crit (t_pc (c_pool c t)) = false ->
  s_y sh' = s_y (c_sh c) -> s_c (c_sh c) <= s_c sh' ->
  grows_only (hb_run (c_labels c)) (hb_step (hb_run (c_labels c)) l) t ->
  IInvH (finish e c t sh' (c_pool c t) l q pr).
Proof.
  intros I A Ct Ey Ec G. destruct (finish_form c t sh' (c_pool c t) l q pr) as (ts' & evs & -> & Ct' & Tt').
  apply iH_grow; try assumption. apply dead_keep; try assumption. intros b n E. rewrite Tt' in E. discriminate.
Qed.

Lemma iH_step c t : IInvH c -> IInvA e L c -> In t L -> istep_nowrap c t -> IInvH (step e c t).
Proof.
  intros I A Hin Hw. unfold istep_nowrap in Hw.
  destruct (t_pc (c_pool c t)) as [|q|q b|q b|q b|q b got|q b got|q b got|q b got| |hm|hm] eqn:Hpc.
  - destruct (t_todo (c_pool c t)) as [|o rest] eqn:Htodo.
    + rewrite (istep_idle_nil e c t) by assumption. exact I.
    + rewrite (istep_idle_call e c t o rest) by assumption. unfold call.
      destruct (a_wf e L c A t) as (_ & Hops & Hbuf). rewrite Htodo in Hops. inversion Hops as [|? ? Hwo _]; subst.
      destruct (call_res e (c_pool c t) o) as [p|b r d] eqn:E.
      * destruct (call_go_iter e Hk _ _ _ E Hwo Hbuf) as (Tp & Cp & _).
        apply iH_grow; [exact I|exact A|rewrite Hpc; reflexivity|exact Cp|apply grows_call|].
        apply dead_keep; [reflexivity|lia|]. cbn [t_pc]. intros b n H. rewrite Tp in H. discriminate.
      * apply iH_grow; [exact I|exact A|rewrite Hpc; reflexivity|reflexivity|apply grows_call|].
        apply dead_keep; [reflexivity|lia|]. cbn [t_pc ticket]. intros b0 n H. discriminate.
  - rewrite (istep_res e Hk c t q Hpc).
    apply iH_grow; [exact I|exact A|rewrite Hpc; reflexivity|reflexivity|apply grows_atom_other; discriminate|].
    apply dead_keep; cbn [with_c s_y s_c set_pc t_pc ticket].
    + reflexivity.
    + unfold wadd. rewrite N.mod_small by exact Hw. lia.
    + intros b n H. injection H as <- _. right. reflexivity.
  - rewrite (istep_chkf e c t q b Hpc). destruct (s_f (c_sh c)).
    + apply iH_finish_grow; [exact I|exact A|rewrite Hpc; reflexivity|reflexivity|lia|apply grows_atom_other; discriminate].
    + apply iH_grow; [exact I|exact A|rewrite Hpc; reflexivity|reflexivity|apply grows_atom_other; discriminate|].
      apply dead_keep; [reflexivity|lia|]. cbn [set_pc t_pc ticket]. rewrite Hpc. cbn [ticket]. auto.
  - rewrite (istep_ldy e c t q b Hpc). destruct (N.eqb_spec b (s_y (c_sh c))) as [->|Nb].
    + apply iH_enter; [exact I|exact A|exact Hpc|eauto].
    + destruct (b <? s_y (c_sh c)).
      * apply iH_finish_grow; [exact I|exact A|rewrite Hpc; reflexivity|reflexivity|lia|apply grows_yload].
      * apply iH_grow; [exact I|exact A|rewrite Hpc; reflexivity|reflexivity|apply grows_yload|].
        apply dead_keep; [reflexivity|lia|]. cbn [set_pc t_pc ticket]. rewrite Hpc. cbn [ticket]. auto.
  - assert (Ct : in_crit (t_pc (c_pool c t)) = true) by (rewrite Hpc; reflexivity).
    rewrite (istep_chkt e c t q b Hpc). destruct (s_f (c_sh c)).
    + destruct (finish_form c t (c_sh c) (c_pool c t) (LAtom t SF ALoad 0 (bN true) (o_chkt q)) q (Ok PREnd)) as (ts' & evs & -> & Ct' & Tt').
      apply iH_abandon; [exact I|exact A|exact Ct|exact Ct'|exact Tt'|reflexivity|reflexivity|apply grows_atom_other; discriminate].
    + apply iH_keep; [exact I|exact A|exact Ct|reflexivity|apply grows_atom_other; discriminate].
  - assert (Ct : in_crit (t_pc (c_pool c t)) = true) by (rewrite Hpc; reflexivity).
    assert (Hacc : forall sh' p' l, in_crit p' = true -> ((exists r, l = LSrc t r) \/ l = LSrcPanic t) ->
              IInvH (commit c t sh' (set_pc (c_pool c t) p') l [])).
    { intros sh' p' l Cp Hl. apply iH_access; [exact I|exact A|exact Ct|exact Cp|exact Hl]. }
    unfold step. rewrite Hpc.
    destruct (crashes_now e (c_sh c)); [apply Hacc; [reflexivity|right; reflexivity]|].
    destruct (q_mode q); destruct (src_next e (c_sh c)) as [xv|] eqn:Esrc.
    all: try (apply Hacc; [reflexivity|left; eauto]).
    all: try (match goal with |- context [if ?b then _ else _] => destruct b end; apply Hacc; [reflexivity|left; eauto]).
    all: try (destruct (N.of_nat (length (xv :: got)) =? q_n q); (apply Hacc; [reflexivity|left; eauto])).
  - assert (Ct : in_crit (t_pc (c_pool c t)) = true) by (rewrite Hpc; reflexivity).
    rewrite (istep_setf e c t q b got Hpc). destruct (q_mode q).
    + destruct (finish_form c t (with_f (c_sh c) true) (c_pool c t) (LAtom t SF AStore 1 0 (o_setf q)) q (Ok PREnd)) as (ts' & evs & -> & Ct' & Tt').
      apply iH_abandon; [exact I|exact A|exact Ct|exact Ct'|exact Tt'|reflexivity|reflexivity|apply grows_atom_other; discriminate].
    + apply iH_keep; [exact I|exact A|exact Ct|reflexivity|apply grows_atom_other; discriminate].
    + apply iH_keep; [exact I|exact A|exact Ct|reflexivity|apply grows_atom_other; discriminate].
  - assert (Ct : in_crit (t_pc (c_pool c t)) = true) by (rewrite Hpc; reflexivity).
    unfold step. rewrite Hpc.
    assert (Hf : forall sh pr, IInvH (finish e c t sh (c_pool c t) (LAtom t SY AAdd (pub_incr q) (s_y (c_sh c)) (o_pub q)) q pr)).
    { intros sh pr. destruct (finish_form c t sh (c_pool c t) (LAtom t SY AAdd (pub_incr q) (s_y (c_sh c)) (o_pub q)) q pr) as (ts' & evs & -> & Ct' & Tt').
      apply iH_publish with q; [exact I|exact A|exact Ct|exact Ct'|eauto]. }
    destruct (q_mode q); [apply Hf| |].
    + destruct (s_y (c_sh c) =? b); [destruct (rev got)|]; apply Hf.
    + destruct (s_y (c_sh c) =? b); [destruct (rev got)|]; apply Hf.
  - assert (Ct : in_crit (t_pc (c_pool c t)) = true) by (rewrite Hpc; reflexivity).
    unfold step. rewrite Hpc.
    assert (Hg : forall ts' evs, t_pc ts' = PIdle ->
               IInvH (commit c t (with_f (c_sh c) true) ts' (LAtom t SF AStore 1 0 ord_completed_store_unwind) evs)).
    { intros ts' evs Hp'. apply iH_abandon; [exact I|exact A|exact Ct|rewrite Hp'; reflexivity|rewrite Hp'; reflexivity|reflexivity|reflexivity|apply grows_atom_other; discriminate]. }
    destruct (q_ctx q); [|apply Hg; reflexivity].
    destruct (q_mode q); try (apply Hg; reflexivity).
    rewrite Hk. destruct (t_buf (c_pool c t)) as [bf|]; [|apply Hg; reflexivity].
    destruct (write_slots (bf_slots bf) (rev got)). apply Hg. reflexivity.
  - rewrite (istep_skip e Hk c t Hpc).
    apply iH_grow; [exact I|exact A|rewrite Hpc; reflexivity|reflexivity|apply grows_atom_other; discriminate|].
    apply dead_keep; [reflexivity|cbn [with_f s_c]; lia|]. cbn [set_pc t_pc ticket]. intros b n H. discriminate.
  - rewrite (istep_len e Hk c t hm Hpc).
    assert (Hg : forall p' evs, in_crit p' = false -> ticket p' = None ->
               IInvH (commit c t (c_sh c) (set_pc (c_pool c t) p') (LAtom t SF ALoad 0 (bN (s_f (c_sh c))) ord_completed_load_try_get_len) evs)).
    { intros p' evs Cp Tp. apply iH_grow; [exact I|exact A|rewrite Hpc; reflexivity|exact Cp|apply grows_atom_other; discriminate|].
      apply dead_keep; [reflexivity|lia|]. cbn [set_pc t_pc]. intros b n H. rewrite Tp in H. discriminate. }
    destruct (s_f (c_sh c)); [apply Hg; reflexivity|]. destruct (e_hint e); apply Hg; reflexivity.
  - rewrite (istep_len2 e c t hm Hpc).
    apply iH_grow; [exact I|exact A|rewrite Hpc; reflexivity|reflexivity|apply grows_atom_other; discriminate|].
    apply dead_keep; [reflexivity|lia|]. cbn [set_pc t_pc ticket]. intros b n H. discriminate.
Qed.

(** ** the dead state is permanent *)

(** the thread inside the critical section leaves it without publishing: the ticket at the yielded
    counter is given up *)
Lemma dead_abandon c t sh' ts' l evs :
  IInvA e L c -> in_crit (t_pc (c_pool c t)) = true -> ticket (t_pc ts') = None ->
  s_c sh' = s_c (c_sh c) -> s_y sh' = s_y (c_sh c) ->
  dead (commit c t sh' ts' l evs).
Proof.
  intros A Ct Tt' Ec Ey. unfold dead. cbn [commit c_sh c_pool]. rewrite Ec, Ey.
  pose proof (a_prot e L c A) as P.
  assert (exists b n, ticket (pcs_of c t) = Some (b, n)) as (b & n & Tt)
    by (unfold pcs_of; destruct (t_pc (c_pool c t)); cbn in *; try discriminate; eauto).
  pose proof (p_crit _ _ _ _ _ P t _ _ Ct Tt) as Hb. subst b.
  pose proof (p_tk _ _ _ _ _ P t _ _ Tt) as (Hn1 & _ & Hsc).
  split; [lia|]. intros u b' m. destruct (Nat.eq_dec u t) as [->|Hn]; [rewrite upd_same, Tt'; discriminate|].
  rewrite upd_other by assumption. intros E.
  pose proof (p_tk _ _ _ _ _ P u b' m E) as (H1 & H2 & H3).
  pose proof (p_disj _ _ _ _ _ P u t b' m _ _ Hn E Tt). lia.
Qed.

Lemma dead_nocrit c t : IInvA e L c -> dead c -> in_crit (t_pc (c_pool c t)) = false.
Proof.
  intros A [_ D2]. destruct (in_crit (t_pc (c_pool c t))) eqn:Ct; [exfalso|reflexivity].
  assert (exists b n, ticket (pcs_of c t) = Some (b, n)) as (b & n & Tt)
    by (unfold pcs_of; destruct (t_pc (c_pool c t)); cbn in *; try discriminate; eauto).
  pose proof (p_crit _ _ _ _ _ (a_prot e L c A) t _ _ Ct Tt) as Hb. apply (D2 t b n Tt Hb).
Qed.

(** once the ticket at the yielded counter has been given up, it stays so: nobody is inside the critical
    section, the yielded counter does not move, and new tickets begin at the reserved counter *)
Lemma dead_step c t : IInvA e L c -> istep_nowrap c t -> dead c -> dead (step e c t).
Proof.
  intros A Hw D. unfold istep_nowrap in Hw.
  pose proof (dead_nocrit c t A D) as Hnc. revert Hnc.
  assert (Hfin : forall sh' l q pr, s_y sh' = s_y (c_sh c) -> s_c (c_sh c) <= s_c sh' ->
                 dead (finish e c t sh' (c_pool c t) l q pr)).
  { intros sh' l q pr Ey Ec. destruct (finish_form c t sh' (c_pool c t) l q pr) as (ts' & evs & -> & _ & Tt').
    apply dead_keep; [exact Ey|exact Ec| |exact D]. intros b n H. rewrite Tt' in H. discriminate. }
  destruct (t_pc (c_pool c t)) as [|q|q b|q b|q b|q b got|q b got|q b got|q b got| |hm|hm] eqn:Hpc;
    intros Hnc; try discriminate Hnc.
  - destruct (t_todo (c_pool c t)) as [|o rest] eqn:Htodo.
    + rewrite (istep_idle_nil e c t) by assumption. exact D.
    + rewrite (istep_idle_call e c t o rest) by assumption. unfold call.
      destruct (a_wf e L c A t) as (_ & Hops & Hbuf). rewrite Htodo in Hops. inversion Hops as [|? ? Hwo _]; subst.
      destruct (call_res e (c_pool c t) o) as [p|b r d] eqn:E.
      * destruct (call_go_iter e Hk _ _ _ E Hwo Hbuf) as (Tp & _).
        apply dead_keep; [reflexivity|lia| |exact D]. cbn [t_pc]. intros b n H. rewrite Tp in H. discriminate.
      * apply dead_keep; [reflexivity|lia| |exact D]. cbn [t_pc ticket]. intros b0 n H. discriminate.
  - rewrite (istep_res e Hk c t q Hpc).
    apply dead_keep; cbn [with_c s_y s_c set_pc t_pc ticket]; [reflexivity| | |exact D].
    + unfold wadd. rewrite N.mod_small by exact Hw. lia.
    + intros b n H. injection H as <- _. right. reflexivity.
  - rewrite (istep_chkf e c t q b Hpc). destruct (s_f (c_sh c)).
    + apply Hfin; [reflexivity|lia].
    + apply dead_keep; [reflexivity|lia| |exact D]. cbn [set_pc t_pc ticket]. rewrite Hpc. cbn [ticket]. auto.
  - rewrite (istep_ldy e c t q b Hpc). destruct (N.eqb_spec b (s_y (c_sh c))) as [Eb|Nb].
    + exfalso. destruct D as [_ D2]. apply (D2 t b (pub_incr q)); [rewrite Hpc; reflexivity|exact Eb].
    + destruct (b <? s_y (c_sh c)).
      * apply Hfin; [reflexivity|lia].
      * apply dead_keep; [reflexivity|lia| |exact D]. cbn [set_pc t_pc ticket]. rewrite Hpc. cbn [ticket]. auto.
  - rewrite (istep_skip e Hk c t Hpc).
    apply dead_keep; [reflexivity|cbn [with_f s_c]; lia| |exact D]. cbn [set_pc t_pc ticket]. intros b n H. discriminate.
  - rewrite (istep_len e Hk c t hm Hpc).
    assert (Hg : forall p' l evs, ticket p' = None -> dead (commit c t (c_sh c) (set_pc (c_pool c t) p') l evs)).
    { intros p' l evs Tp. apply dead_keep; [reflexivity|lia| |exact D]. cbn [set_pc t_pc]. intros b n H. rewrite Tp in H. discriminate. }
    destruct (s_f (c_sh c)); [apply Hg; reflexivity|]. destruct (e_hint e); apply Hg; reflexivity.
  - rewrite (istep_len2 e c t hm Hpc).
    apply dead_keep; [reflexivity|lia| |exact D]. cbn [set_pc t_pc ticket]. intros b n H. discriminate.
Qed.

Lemma iH_init progs : IInvH (init progs).
Proof.
  split; cbn [init c_labels c_pool hb_run rev fold_left hb_init h_ok h_cell h_vc h_rel init_ts t_pc in_crit].
  - reflexivity.
  - discriminate.
  - intros _. left. exact Logic.I.
Qed.

Theorem iH_exec progs sched :
  (forall t, Forall wf_op (progs t)) ->
  Forall (fun t => In t L) sched ->
  nowrap (c_labels (exec e (init progs) sched)) ->
  IInvH (exec e (init progs) sched).
Proof.
  intros Hp. induction sched as [|t sched IH] using rev_ind; intros Hs Hw.
  - apply iH_init.
  - pose proof Hs as Hs0. pose proof Hw as Hw0.
    rewrite exec_snoc in *. apply Forall_app in Hs. destruct Hs as [Hs Ht]. inversion Ht as [|? ? Hin _]; subst.
    pose proof (step_labels_suffix e _ _ Hw) as Hw1.
    pose proof (iA_exec e Hk L NDL progs sched Hp Hs Hw1) as A.
    apply iH_step; [apply IH; assumption|exact A|exact Hin|apply (istep_labels e Hk _ _ Hw)].
Qed.

End IterH.
