(** * Borrowed sources are never touched (every kind, the wrapper over an iterator of references
      included): when the iterator does not own its elements, no event of any run reports a destroyed
      element. *)
From Coq Require Import Lia ZArith List.
From OCI Require Import Machine Checkers.
From OCI.proofs Require Import Base Trace ArithOk InvKnown Progress.
Import ListNotations.
Open Scope N_scope.

Section Borrowed.

Variable e : env.
Hypothesis Hno : e_owning e = false.

Lemma drops_of_list_nil vs : drops_of_list e vs = [].
Proof. unfold drops_of_list. rewrite Hno. reflexivity. Qed.
Lemma drops_of_run_nil v c : drops_of_run e v c = [].
Proof. unfold drops_of_run. rewrite Hno. reflexivity. Qed.
Lemma drops_after_nil k rs : drops_after e k rs = [].
Proof.
  revert k. induction rs as [|r rs IH]; intros k; cbn [drops_after]; [reflexivity|].
  destruct (r_cnt r <=? k); [apply IH|]. rewrite drops_of_run_nil, IH. reflexivity.
Qed.
Lemma stale_drops_nil ts : stale_drops e ts = [].
Proof. unfold stale_drops. destruct (t_buf ts); [apply drops_of_list_nil|reflexivity]. Qed.

(** every event carries an empty list of destroyed elements *)
Fixpoint no_drops (tr : list event) : Prop :=
  match tr with
  | [] => True
  | ERet _ _ d :: tl => d = [] /\ no_drops tl
  | EFinal _ _ d :: tl => d = [] /\ no_drops tl
  | _ :: tl => no_drops tl
  end.

Lemma no_drops_app a b : no_drops a -> no_drops b -> no_drops (a ++ b).
Proof.
  induction a as [|ev a IH]; intros Ha Hb; [exact Hb|]. destruct ev; cbn [app no_drops] in *; try (apply IH; assumption);
    (split; [apply Ha|apply IH; [apply Ha|exact Hb]]).
Qed.

Lemma no_drops_total tr : no_drops tr -> dropped_all tr = [].
Proof.
  induction tr as [|ev tr IH]; intros H; [reflexivity|]. destruct ev; cbn [no_drops dropped_all] in *; try (apply IH; exact H);
    (destruct H as [-> H]; cbn [drops_iv map app]; apply IH; exact H).
Qed.

Lemma deliver_no_drops ts q pr ts' r d : deliver e ts q pr = (ts', Some (r, d)) -> d = [].
Proof.
  unfold deliver. intros E. destruct (q_ctx q) as [|l cr].
  - destruct pr as [[|b rs cnt]|k]; try (injection E as _ _ <-; reflexivity).
    unfold deliver_top in E. destruct (q_mode q).
    + injection E as _ _ <-. reflexivity.
    + injection E as _ _ <-. apply drops_after_nil.
    + destruct (e_kind e), (t_buf ts); try (injection E as _ _ <-; apply drops_after_nil).
      destruct (write_slots (bf_slots b0) (runs_vals rs)). injection E as _ _ <-. apply drops_of_list_nil.
  - destruct pr as [[|b rs cnt]|k]; try (injection E as _ _ <-; reflexivity).
    unfold deliver_loop in E. destruct (loop_invoke l cr (total_cnt (t_acc ts)) rs cnt) as [inv [used|]]; [|discriminate].
    injection E as _ _ <-. apply drops_after_nil.
Qed.

Lemma call_ret_no_drops ts o bf r d : call_res e ts o = CRet bf r d -> d = [].
Proof.
  unfold call_res.
  repeat first
    [ solve [intros H; injection H as _ _ <-; rewrite ?stale_drops_nil; reflexivity]
    | solve [discriminate]
    | match goal with |- context [match ?x with _ => _ end] => destruct x eqn:? end ].
Qed.

Lemma step_no_drops c t : no_drops (c_trace c) -> no_drops (c_trace (step e c t)).
Proof.
  intros H. unfold step.
  repeat first
    [ solve [exact H]
    | progress unfold call
    | match goal with |- context [finish ?e0 ?c0 ?t0 ?sh ?ts ?l ?q ?pr] =>
        unfold finish; let E := fresh "E" in destruct (deliver e0 ts q pr) as [? [[? ?]|]] eqn:E; [apply deliver_no_drops in E; subst|] end
    | match goal with |- context [match ?x with _ => _ end] => destruct x eqn:? end
    | match goal with |- context [let '(_, _) := ?x in _] => destruct x eqn:? end ];
  cbn [commit c_trace ret_ev app no_drops]; rewrite ?drops_after_nil, ?drops_of_list_nil, ?stale_drops_nil, ?drops_of_run_nil; auto.
  all: try (match goal with E : call_res _ _ _ = CRet _ _ _ |- _ => apply call_ret_no_drops in E; subst; auto end).
  all: match goal with E : deliver _ _ _ _ = (_, ?o) |- _ => destruct o as [[? ?]|]; [apply deliver_no_drops in E; subst|]; cbn [ret_ev app no_drops]; auto end.
Qed.

Lemma exec_no_drops sched : forall c, no_drops (c_trace c) -> no_drops (c_trace (exec e c sched)).
Proof.
  induction sched as [|t s IH]; intros c H; [exact H|]. rewrite exec_cons. apply IH. apply step_no_drops. exact H.
Qed.

Lemma final_no_drops c t f : no_drops (c_trace c) -> no_drops (c_trace (final_step e c t f)).
Proof.
  intros H. unfold final_step, seq_res.
  repeat first
    [ progress cbv beta iota
    | match goal with |- context [match ?x with _ => _ end] => destruct x eqn:? end
    | match goal with |- context [let '(_, _) := ?x in _] => destruct x eqn:? end ];
  cbn [c_trace no_drops]; rewrite ?drops_of_run_nil; auto.
Qed.

End Borrowed.

(** no element of a borrowed source is ever destroyed: every kind, every program, every schedule, also at
    the end of life -- no hypothesis on the run at all *)
Theorem borrowed_source_untouched : forall e, e_owning e = false -> forall progs sched,
  dropped_all (c_trace (exec e (init progs) sched)) = [] /\
  forall t f, dropped_all (c_trace (final_step e (exec e (init progs) sched) t f)) = [].
Proof.
  intros e Hno progs sched.
  assert (H : no_drops (c_trace (exec e (init progs) sched))) by (apply exec_no_drops; [exact Hno|exact I]).
  split; [apply no_drops_total; exact H|].
  intros t f. apply no_drops_total. apply final_no_drops; assumption.
Qed.
