(** * Memory orderings of atomic operations (C11 / Rust). *)
Inductive ord := ORelaxed | OAcquire | ORelease | OAcqRel | OSeqCst.

(** the operation has acquire semantics when it reads / release semantics when it writes *)
Definition is_acq (o : ord) : bool := match o with OAcquire | OAcqRel | OSeqCst => true | _ => false end.
Definition is_rel (o : ord) : bool := match o with ORelease | OAcqRel | OSeqCst => true | _ => false end.
