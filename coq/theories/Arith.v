(** * Machine arithmetic of the crate: [usize] on a 64-bit target, in the two build modes.

    Model file: definitions only, no proofs. *)
From Coq Require Export NArith List Bool.
Export ListNotations.
Open Scope N_scope.

(** [usize::MAX + 1] *)
Definition W : N := 18446744073709551616.
Definition UMAX : N := 18446744073709551615.

(** debug assertions + overflow checks on / both off *)
Inductive mode := Checked | Wrapping.

Inductive pkind :=
| PkOverflow      (* "attempt to add/subtract with overflow" *)
| PkAssert        (* assert!/assert_eq! of the crate failed *)
| PkChunkZero     (* "Chunk size must be positive." *)
| PkSource        (* the wrapped iterator panicked (injected crash) *)
| PkUser          (* a user closure / clone panicked (injected crash) *)
| PkIndex.        (* slice index out of bounds / split_off past the end *)

Inductive outcome (A : Type) :=
| Ok (a : A)
| Panic (k : pkind).
Arguments Ok {A} a.
Arguments Panic {A} k.

Definition bind {A B} (o : outcome A) (f : A -> outcome B) : outcome B :=
  match o with Ok a => f a | Panic k => Panic k end.
Notation "'do' x <- o ; f" := (bind o (fun x => f)) (at level 200, x name, o at level 100, f at level 200).

(** [a + b] as the source writes it: a plain [+] on [usize]. *)
Definition add_u (m : mode) (a b : N) : outcome N :=
  if a + b <? W then Ok (a + b)
  else match m with Checked => Panic PkOverflow | Wrapping => Ok ((a + b) mod W) end.

(** [a - b] as the source writes it. *)
Definition sub_u (m : mode) (a b : N) : outcome N :=
  if b <=? a then Ok (a - b)
  else match m with Checked => Panic PkOverflow | Wrapping => Ok ((W + a - b) mod W) end.

(** [a.saturating_add(b)], [a.saturating_sub(b)] *)
Definition sat_add (a b : N) : N := N.min (a + b) UMAX.
Definition sat_sub (a b : N) : N := a - b.

(** [AtomicUsize::fetch_add] wraps around in both modes. *)
Definition wadd (a b : N) : N := (a + b) mod W.
