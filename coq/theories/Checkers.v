(** * The properties as boolean checkers over traces.

    Model file: definitions only, no proofs.

    Every checker is a function of the environment and of a trace in the representation the machine
    accumulates (latest event first).  It is used three times: the theorems in [props/] state that it
    returns [true] on the trace of every schedule of the model; the extracted checker is evaluated on
    model traces during searches; and the extracted checker is evaluated on the traces of the
    instrumented crate, so that the crate is judged by the very definition the theorems are about. *)
From Coq Require Export ZArith.
From OCI Require Export Machine.
Open Scope N_scope.

(** ** intervals of positions *)

Definition iv := (N * N)%type.      (* (lo, cnt): positions lo .. lo+cnt-1 *)
Definition iv_hi (i : iv) : N := fst i + snd i.

Definition iv_disj (a b : iv) : bool :=
  (snd a =? 0) || (snd b =? 0) || (iv_hi a <=? fst b) || (iv_hi b <=? fst a).

Fixpoint disj_from (a : iv) (l : list iv) : bool :=
  match l with [] => true | b :: tl => iv_disj a b && disj_from a tl end.

Fixpoint pairwise_disj (l : list iv) : bool :=
  match l with [] => true | a :: tl => disj_from a tl && pairwise_disj tl end.

Fixpoint iv_total (l : list iv) : N :=
  match l with [] => 0 | a :: tl => snd a + iv_total tl end.

Fixpoint iv_maxhi (l : list iv) : N :=
  match l with [] => 0 | a :: tl => if snd a =? 0 then iv_maxhi tl else N.max (iv_hi a) (iv_maxhi tl) end.

Definition iv_within (len : N) (l : list iv) : bool :=
  forallb (fun a => (snd a =? 0) || (iv_hi a <=? len)) l.

(** the intervals are pairwise disjoint and their union is exactly [0, n) *)
Definition tiles (n : N) (l : list iv) : bool :=
  pairwise_disj l && iv_within n l && (iv_total l =? n).

(** ** what a result delivers *)

Definition run_iv (e : env) (r : run) : iv := (pos_of e (r_val r), r_cnt r).

(** positions moved to the caller *)
Definition res_taken (e : env) (r : res) : list iv :=
  match r with
  | ROne r => [run_iv e r]
  | RChunk _ rs _ _ _ => map (run_iv e) rs
  | RLoop rs => map (run_iv e) rs
  | RSeq rs _ => map (run_iv e) rs
  | RPanic _ rs => map (run_iv e) rs
  | _ => []
  end.

(** positions delivered by a pull: what the caller took, and the rest of a returned chunk (a chunk
    delivers all its elements when it is returned, consumed or not) *)
Definition res_cover (e : env) (r : res) : list iv :=
  match r with
  | RChunk b rs ann0 took _ => map (run_iv e) rs ++ [(b + took, ann0 - took)]
  | RSeq _ _ => []
  | _ => res_taken e r
  end.

Definition drops_iv (d : list drops) : list iv := map (fun x => (d_lo x, d_cnt x)) d.

(** delivered intervals of a trace (the final operation excluded) *)
Fixpoint cov (e : env) (tr : list event) : list iv :=
  match tr with
  | [] => []
  | ERet _ r _ :: tl => res_cover e r ++ cov e tl
  | _ :: tl => cov e tl
  end.

(** taken intervals and machinery drops of a trace, the final operation included *)
Fixpoint taken_all (e : env) (tr : list event) : list iv :=
  match tr with
  | [] => []
  | ERet _ r _ :: tl => res_taken e r ++ taken_all e tl
  | EFinal _ r _ :: tl => res_taken e r ++ taken_all e tl
  | _ :: tl => taken_all e tl
  end.

Fixpoint dropped_all (tr : list event) : list iv :=
  match tr with
  | [] => []
  | ERet _ _ d :: tl => drops_iv d ++ dropped_all tl
  | EFinal _ _ d :: tl => drops_iv d ++ dropped_all tl
  | _ :: tl => dropped_all tl
  end.

(** ** calls and returns *)

(** the part of the trace that is older than the latest call of thread [t], and that call's operation *)
Fixpoint split_call (t : tid) (tr : list event) : option (op * list event) :=
  match tr with
  | [] => None
  | ECall u o :: tl => if Nat.eqb u t then Some (o, tl) else split_call t tl
  | _ :: tl => split_call t tl
  end.

(** number of calls that have not returned *)
Fixpoint n_pending (tr : list event) : Z :=
  match tr with
  | [] => 0%Z
  | ECall _ _ :: tl => (n_pending tl + 1)%Z
  | ERet _ _ _ :: tl => (n_pending tl - 1)%Z
  | _ :: tl => n_pending tl
  end.

Definition is_pull (o : op) : bool :=
  match o with Next _ | Chunk _ _ | BufNext _ | Loop _ _ _ => true | _ => false end.

(** the operation is a pull that can report the end (a chunk pull of size zero reports nothing) *)
Definition can_end (o : op) : bool :=
  match o with Chunk n _ => negb (n =? 0) | _ => is_pull o end.

Definition is_end (r : res) : bool :=
  match r with RNone | RLoop _ => true | _ => false end.

Definition is_panic (r : res) : bool := match r with RPanic _ _ => true | _ => false end.

Fixpoint has_skip (tr : list event) : bool :=
  match tr with [] => false | ECall _ Skip :: _ => true | _ :: tl => has_skip tl end.

Fixpoint has_panic (tr : list event) : bool :=
  match tr with
  | [] => false
  | ERet _ r _ :: tl => is_panic r || has_panic tl
  | EFinal _ r _ :: tl => is_panic r || has_panic tl
  | _ :: tl => has_panic tl
  end.

(** some pull has reported the end (returned) in [tr] *)
Fixpoint end_reported (tr : list event) : bool :=
  match tr with
  | [] => false
  | ERet t r _ :: tl =>
      (is_end r && match split_call t tl with Some (o, _) => can_end o | None => false end)
      || end_reported tl
  | _ :: tl => end_reported tl
  end.

(** some skip_to_end has returned in [tr] *)
Fixpoint skip_returned (tr : list event) : bool :=
  match tr with
  | [] => false
  | ERet t _ _ :: tl =>
      match split_call t tl with Some (Skip, _) => true | _ => skip_returned tl end
  | _ :: tl => skip_returned tl
  end.

(** ** checkers that judge every return event against the trace before it *)

Fixpoint all_rets (P : tid -> res -> list drops -> list event -> bool) (tr : list event) : bool :=
  match tr with
  | [] => true
  | ERet t r d :: tl => P t r d tl && all_rets P tl
  | _ :: tl => all_rets P tl
  end.

(** the same, with the operation of the call that returns and the trace before that call *)
Definition with_call (P : tid -> op -> list event -> res -> list event -> bool)
  : tid -> res -> list drops -> list event -> bool :=
  fun t r _ tl => match split_call t tl with Some (o, older) => P t o older r tl | None => false end.

(** ** C01: exactly-once delivery *)

(** no position is delivered twice, and every delivered position is a position of the source *)
Definition chk_C01_nodup (e : env) (tr : list event) : bool :=
  pairwise_disj (cov e tr) && iv_within (e_len e) (cov e tr).

(** once the end has been reported and no call is pending, the deliveries tile the source *)
Definition chk_C01_noloss (e : env) (tr : list event) : bool :=
  if end_reported tr && (n_pending tr =? 0)%Z then tiles (e_len e) (cov e tr) else true.

Definition chk_C01 (e : env) (tr : list event) : bool :=
  chk_C01_nodup e tr && chk_C01_noloss e tr.

(** ** C02: index fidelity *)

(** a non-empty run is the values of the positions [i, i + r_cnt) of the source, all of them positions of
    the source: [i] is the index the run reports, or, for a run that reports no index (the value-only
    spellings of a pull, the plain loops), the position of its first value *)
Definition run_idx_ok (e : env) (r : run) : bool :=
  (r_cnt r =? 0) ||
  let i := match r_idx r with Some i => i | None => pos_of e (r_val r) end in
  (r_val r =? val_of e i) && (i + r_cnt r <=? e_len e).

Definition res_runs (r : res) : list run :=
  match r with
  | ROne r => [r]
  | RChunk _ rs _ _ _ => rs
  | RLoop rs => rs
  | RSeq rs _ => rs
  | RPanic _ rs => rs
  | _ => []
  end.

Definition ev_C02 (e : env) : tid -> res -> list drops -> list event -> bool :=
  fun _ r _ _ => forallb (run_idx_ok e) (res_runs r).

Definition chk_C02 (e : env) (tr : list event) : bool := all_rets (ev_C02 e) tr.

(** ** C03: chunk contract *)

(** chunk size of the buffered iterator thread [t] holds after [tr] ([buffered_iter(0)] panics and
    leaves the thread with the one it had) *)
Fixpoint buf_size (t : tid) (tr : list event) : option N :=
  match tr with
  | [] => None
  | ECall u (BufNew c) :: tl => if Nat.eqb u t && negb (c =? 0) then Some c else buf_size t tl
  | _ :: tl => buf_size t tl
  end.

Definition chunk_ok (e : env) (n k : N) (r : res) : bool :=
  match r with
  | RNone => true
  | RChunk b rs ann0 took ann1 =>
      (1 <=? ann0) && (ann0 <=? n) && (took =? N.min k ann0) && (ann1 =? ann0 - took)
      && (b + ann0 <=? e_len e)
      && ((ann0 =? n) || (b + ann0 =? e_len e))
      && match rs with
         | [] => took =? 0
         | [r] => (r_cnt r =? took) && (match r_idx r with Some i => i =? b | None => false end)
                  && (r_val r =? val_of e b)
         | _ => false
         end
  | RPanic _ _ => true        (* judged by C16 / C17 / C18 *)
  | _ => false
  end.

Definition ev_C03 (e : env) : tid -> res -> list drops -> list event -> bool :=
  fun t r _ tl =>
    match split_call t tl with
    | Some (Chunk n k, _) => ((n =? 0) || chunk_ok e n k r)
    | Some (BufNext k, older) =>
        match buf_size t older with Some c => chunk_ok e c k r | None => true end
    | _ => true
    end.

Definition chk_C03 (e : env) (tr : list event) : bool := all_rets (ev_C03 e) tr.

(** ** C04: one linearizable sequential cursor *)

(** (i) whenever no call is pending, the delivered positions are a gap-free prefix *)
Fixpoint chk_C04_prefix (e : env) (tr : list event) : bool :=
  match tr with
  | [] => true
  | ev :: tl =>
      (if (n_pending tr =? 0)%Z then iv_total (cov e tr) =? iv_maxhi (cov e tr) else true)
      && chk_C04_prefix e tl
  end.

(** deliveries of thread [t] in [tr] *)
Fixpoint cov_of (e : env) (t : tid) (tr : list event) : list iv :=
  match tr with
  | [] => []
  | ERet u r _ :: tl => (if Nat.eqb u t then res_cover e r else []) ++ cov_of e t tl
  | _ :: tl => cov_of e t tl
  end.

Definition all_above (floor : N) (l : list iv) : bool :=
  forallb (fun a => (snd a =? 0) || (floor <=? fst a)) l.

(** within one result the runs are in increasing order *)
Fixpoint increasing (l : list iv) : bool :=
  match l with
  | [] => true
  | a :: tl => all_above (if snd a =? 0 then 0 else iv_hi a) tl && increasing tl
  end.

(** (ii) each thread receives strictly increasing positions; (iii) a pull that starts after another
    one returned receives larger positions *)
Definition ev_C04 (e : env) : tid -> res -> list drops -> list event -> bool :=
  fun t r _ tl =>
    increasing (res_cover e r)
    && all_above (iv_maxhi (cov_of e t tl)) (res_cover e r)
    && match split_call t tl with
       | Some (_, older) => all_above (iv_maxhi (cov e older)) (res_cover e r)
       | None => false
       end.

Definition chk_C04_order (e : env) (tr : list event) : bool := all_rets (ev_C04 e) tr.

Definition chk_C04 (e : env) (tr : list event) : bool :=
  chk_C01_nodup e tr && chk_C04_prefix e tr && chk_C04_order e tr.

(** ** C05: the end is permanent *)

Definition no_positive (r : res) : bool :=
  match r with
  | RLen (Some n) => n =? 0
  | RMore (HYes _) => false
  | _ => true
  end.

Definition delivers_nothing (e : env) (r : res) : bool := iv_total (res_cover e r) =? 0.

(** every call made after an end report returns the end / no positive length *)
Definition ev_C05 (e : env) : tid -> res -> list drops -> list event -> bool :=
  fun t r _ tl =>
    match split_call t tl with
    | Some (o, older) =>
        if end_reported older then
          (if can_end o then is_end r || is_panic r else true)
          && delivers_nothing e r && no_positive r
        else true
    | None => false
    end.

Definition chk_C05 (e : env) (tr : list event) : bool := all_rets (ev_C05 e) tr.

(** ** C06: skip_to_end stops the iteration for everyone *)

Definition ev_C06 (e : env) : tid -> res -> list drops -> list event -> bool :=
  fun t r _ tl =>
    match split_call t tl with
    | Some (o, older) =>
        if skip_returned older then
          (if can_end o then is_end r || is_panic r else true)
          && delivers_nothing e r
          && match o, r with
             | HasMore, RMore HNo => true
             | HasMore, _ => false
             | TryLen, RLen (Some n) => n =? 0
             | TryLen, _ => false
             | _, _ => true
             end
        else true
    | None => false
    end.

Definition chk_C06_stop (e : env) (tr : list event) : bool := all_rets (ev_C06 e) tr.

Definition chk_C06 (e : env) (tr : list event) : bool :=
  chk_C06_stop e tr && chk_C01_nodup e tr && chk_C02 e tr && chk_C04_order e tr.

(** ** C08: consumed elements are moved out or dropped exactly once (owning kinds, with the final operation) *)

Fixpoint has_final (tr : list event) : bool :=
  match tr with [] => false | EFinal _ _ _ :: _ => true | _ :: tl => has_final tl end.

Definition chk_C08 (e : env) (tr : list event) : bool :=
  if e_owning e then
    pairwise_disj (taken_all e tr ++ dropped_all tr)
    && iv_within (e_len e) (taken_all e tr ++ dropped_all tr)
    && (if has_final tr && (n_pending tr =? 0)%Z
        then iv_total (taken_all e tr ++ dropped_all tr) =? e_len e else true)
  else (iv_total (dropped_all tr) =? 0).

(** ** C10: into_seq_iter returns exactly the undelivered remainder *)

Definition chk_C10 (e : env) (tr : list event) : bool :=
  match tr with
  | EFinal (FIntoSeq k) r _ :: tl =>
      if has_panic tl then true else
      match r with
      | RSeq rs took =>
          let d := iv_total (cov e tl) in           (* delivered so far: a prefix, by C04 *)
          let rest := e_len e - d in
          if has_skip tl then
            (* a suffix of the undelivered elements, possibly empty *)
            match rs with
            | [] => took =? 0
            | [r] => (r_cnt r =? took) && (d <=? pos_of e (r_val r))
                     && (if took <? k then pos_of e (r_val r) + took =? e_len e
                         else pos_of e (r_val r) + took <=? e_len e)
            | _ => false
            end
          else
            (took =? N.min k rest)
            && match rs with
               | [] => took =? 0
               | [r] => (r_cnt r =? took) && (r_val r =? val_of e d)
               | _ => false
               end
      | _ => false
      end
  | _ => true
  end.

(** ** C11: try_get_len / has_more are truthful *)

Definition knows_len (e : env) : bool :=
  match e_kind e, e_hint e with KIter, HExact => true | KIter, _ => false | _, _ => true end.

(** a single or one-shot chunk pull has reported the end *)
Fixpoint end_reported_strong (tr : list event) : bool :=
  match tr with
  | [] => false
  | ERet t r _ :: tl =>
      match r, split_call t tl with
      | RNone, Some (Next _, _) => true
      | RNone, Some (Chunk n _, _) => negb (n =? 0) || end_reported_strong tl
      | RLoop _, Some (Loop _ c _, _) => (c =? 1) || end_reported_strong tl
      | _, _ => end_reported_strong tl
      end
  | _ :: tl => end_reported_strong tl
  end.

(** the length answers reported so far, latest first, with whether they are definitive zeros *)
Definition len_answer (r : res) : option (option N) :=
  match r with
  | RLen o => Some o
  | RMore (HYes n) => Some (Some n)
  | RMore HNo => Some (Some 0)
  | RMore HMaybe => Some None
  | _ => None
  end.

(** the smallest length reported by a query that returned in [tr] *)
Fixpoint min_reported (tr : list event) : option N :=
  match tr with
  | [] => None
  | ERet _ r _ :: tl =>
      match len_answer r, min_reported tl with
      | Some (Some n), Some m => Some (N.min n m)
      | Some (Some n), None => Some n
      | _, o => o
      end
  | _ :: tl => min_reported tl
  end.

(** the latest event of [tr] is the call of thread [t]: nothing happened since *)
Definition called_last (t : tid) (tr : list event) : bool :=
  match tr with ECall u _ :: _ => Nat.eqb u t | _ => false end.

(** [has_more] answers [No], never [Yes(0)], when nothing remains *)
Definition yes_zero (r : res) : bool :=
  match r with RMore (HYes 0) => true | _ => false end.

Definition ev_C11 (e : env) : tid -> res -> list drops -> list event -> bool :=
  fun t r _ tl =>
    negb (yes_zero r) &&
    match split_call t tl with
    | Some (o, older) =>
        (* quiescent query: nothing else pending when it was called nor when it returned *)
        (match len_answer r with
         | Some a =>
             (if (n_pending older =? 0)%Z && called_last t tl && negb (has_panic older) then
                let remaining := if skip_returned older then 0 else e_len e - iv_total (cov e older) in
                match a with
                | Some n =>
                    (if knows_len e then n =? remaining else n =? 0)
                | None => negb (knows_len e) && negb (end_reported_strong older) && negb (skip_returned older)
                end
                && (if end_reported_strong older then match a with Some 0 => true | _ => false end else true)
              else true)
             (* a reported length never increases *)
             && match a, min_reported older with
                | Some n, Some m => n <=? m
                | _, _ => true
                end
         | None => true
         end)
        (* zero is definitive: a pull that starts after it delivers nothing *)
        && (match min_reported older with
            | Some 0 => delivers_nothing e r
            | _ => true
            end)
    | None => false
    end.

Definition chk_C11 (e : env) (tr : list event) : bool := all_rets (ev_C11 e) tr.

(** ** C12: for_each / enumerate_for_each / fold *)

(** closure invocations carry the right shape (index reported in the enumerated form only) *)
Definition loop_shape_ok (l : loopk) (r : res) : bool :=
  match r with
  | RLoop rs | RPanic _ rs =>
      forallb (fun x => match l, r_idx x with LEnum, Some _ => true | LEnum, None => false | _, None => true | _, Some _ => false end) rs
  | _ => false
  end.

(** a loop with a positive chunk size panics only for a reason: its closure was told to panic (the
    crash argument of the call), or the wrapped iterator panicked; in particular not with "Chunk size
    must be positive", an arithmetic overflow, a failed assertion or an index out of bounds *)
Definition loop_panic_ok (cr : option N) (r : res) : bool :=
  match r with
  | RPanic PkUser _ => match cr with Some _ => true | None => false end
  | RPanic PkSource _ => true
  | RPanic _ _ => false
  | _ => true
  end.

(** the documented panic of a chunk size of zero *)
Definition is_chunkzero (r : res) : bool :=
  match r with RPanic PkChunkZero _ => true | _ => false end.

(** a loop with chunk size zero panics with the documented panic, and only with that one *)
Definition ev_C12 : tid -> res -> list drops -> list event -> bool :=
  fun t r _ tl =>
    match split_call t tl with
    | Some (Loop l c cr, _) => if c =? 0 then is_chunkzero r else loop_shape_ok l r && loop_panic_ok cr r
    | _ => true
    end.

Definition chk_C12_shape (tr : list event) : bool := all_rets ev_C12 tr.

(** the wrapped iterator can panic: there is one, and it was told to panic *)
Definition src_may_panic (e : env) : bool :=
  match e_kind e, e_crash e with KIter, Some _ => true | _, _ => false end.

(** a loop returns with the panic of the wrapped iterator only when the wrapped iterator can panic *)
Definition ev_C12_src (e : env) : tid -> res -> list drops -> list event -> bool :=
  fun t r _ tl =>
    match split_call t tl, r with
    | Some (Loop _ _ _, _), RPanic PkSource _ => src_may_panic e
    | _, _ => true
    end.

Definition chk_C12_src (e : env) (tr : list event) : bool := all_rets (ev_C12_src e) tr.

Definition chk_C12 (e : env) (tr : list event) : bool :=
  chk_C12_shape tr && chk_C12_src e tr && chk_C01 e tr && chk_C02 e tr && chk_C05 e tr.

(** ** C07 (a): mutual exclusion of the critical sections, read off the label stream (latest first) *)

(** state of the scan, oldest label first: per thread its ticket (after the fetch_add on C) and
    whether it is inside its critical section *)
Record cs_state := { cs_ticket : list (tid * N); cs_in : list tid }.

Fixpoint assoc_get (t : tid) (l : list (tid * N)) : option N :=
  match l with [] => None | (u, v) :: tl => if Nat.eqb u t then Some v else assoc_get t tl end.
Definition assoc_set (t : tid) (v : N) (l : list (tid * N)) : list (tid * N) :=
  (t, v) :: filter (fun p => negb (Nat.eqb (fst p) t)) l.
Definition tid_mem (t : tid) (l : list tid) : bool := existsb (Nat.eqb t) l.
Definition tid_del (t : tid) (l : list tid) : list tid := filter (fun u => negb (Nat.eqb u t)) l.

Definition cs_step (s : cs_state) (l : label) : cs_state * bool :=
  match l with
  | LCall t => ({| cs_ticket := filter (fun p => negb (Nat.eqb (fst p) t)) (cs_ticket s); cs_in := tid_del t (cs_in s) |}, true)
  | LAtom t SC AAdd _ ret _ => ({| cs_ticket := assoc_set t ret (cs_ticket s); cs_in := cs_in s |}, true)
  | LAtom t SY ALoad _ ret _ =>
      match assoc_get t (cs_ticket s) with
      | Some b =>
          if b =? ret
          then ({| cs_ticket := cs_ticket s; cs_in := t :: cs_in s |}, match cs_in s with [] => true | _ => false end)
          else (s, true)
      | None => (s, true)
      end
  | LAtom t SY AAdd _ _ _ => ({| cs_ticket := cs_ticket s; cs_in := tid_del t (cs_in s) |}, true)
  | LAtom t SF AStore _ _ _ => ({| cs_ticket := cs_ticket s; cs_in := tid_del t (cs_in s) |}, true)
  | LSrc t _ | LSrcPanic t => (s, tid_mem t (cs_in s))
  | _ => (s, true)
  end.

Fixpoint cs_scan (s : cs_state) (ls : list label) : bool :=
  match ls with
  | [] => true
  | l :: tl => let '(s', ok) := cs_step s l in ok && cs_scan s' tl
  end.

(** [ls] latest first, as accumulated by the machine *)
Definition chk_C07_mutex (ls : list label) : bool :=
  cs_scan {| cs_ticket := []; cs_in := [] |} (rev ls).

(** ** C07 (b): every use of the wrapped iterator happens-after the previous one (C11 release/acquire)

    Vector clocks over the label stream, oldest label first.  The values of the atomics are those of
    the interleaving (every load reads the latest write); what is computed here is the happens-before
    relation that the *declared orderings* of the operations establish: a release write continues or
    heads a release sequence of its location, a read-modify-write continues it whatever its ordering,
    a plain store of another ordering ends it; an acquire read synchronizes with the heads of the
    release sequence it reads from.  The wrapped iterator is one non-atomic location; an access races
    with the previous access of another thread unless that access happens-before it. *)

Definition vclock := tid -> N.
Definition vc_zero : vclock := fun _ => 0.
Definition vc_join (a b : vclock) : vclock := fun u => N.max (a u) (b u).

Record hbst := {
  h_vc   : tid -> vclock;             (* the clock of each thread *)
  h_rel  : site -> vclock;            (* what an acquire read of the location synchronizes with *)
  h_cell : option (tid * N);          (* last access of the wrapped iterator: thread and its epoch *)
  h_ok   : bool
}.

Definition hb_init : hbst := {| h_vc := fun _ => vc_zero; h_rel := fun _ => vc_zero; h_cell := None; h_ok := true |}.

Definition site_eqb (a b : site) : bool :=
  match a, b with SC, SC | SY, SY | SF, SF => true | _, _ => false end.

Definition set_vc (f : tid -> vclock) (t : tid) (v : vclock) : tid -> vclock :=
  fun u => if Nat.eqb u t then v else f u.
Definition set_rel (f : site -> vclock) (s : site) (v : vclock) : site -> vclock :=
  fun x => if site_eqb x s then v else f x.

Definition hb_step (h : hbst) (l : label) : hbst :=
  match l with
  | LCall _ => h
  | LAtom t s ALoad _ _ o =>
      let v := if is_acq o then vc_join (h_vc h t) (h_rel h s) else h_vc h t in
      {| h_vc := set_vc (h_vc h) t v; h_rel := h_rel h; h_cell := h_cell h; h_ok := h_ok h |}
  | LAtom t s AStore _ _ o =>
      let r := if is_rel o then h_vc h t else vc_zero in
      {| h_vc := h_vc h; h_rel := set_rel (h_rel h) s r; h_cell := h_cell h; h_ok := h_ok h |}
  | LAtom t s AAdd _ _ o =>
      let v := if is_acq o then vc_join (h_vc h t) (h_rel h s) else h_vc h t in
      let r := if is_rel o then vc_join (h_rel h s) v else h_rel h s in
      {| h_vc := set_vc (h_vc h) t v; h_rel := set_rel (h_rel h) s r; h_cell := h_cell h; h_ok := h_ok h |}
  | LSrc t _ | LSrcPanic t =>
      let v := h_vc h t in
      let v' : vclock := fun u => if Nat.eqb u t then v t + 1 else v u in
      let fine := match h_cell h with
                  | Some (u, k) => Nat.eqb u t || (k <=? v u)
                  | None => true
                  end in
      {| h_vc := set_vc (h_vc h) t v'; h_rel := h_rel h; h_cell := Some (t, v t + 1); h_ok := h_ok h && fine |}
  end.

(** [ls] latest first, as accumulated by the machine *)
Definition hb_run (ls : list label) : hbst := fold_left hb_step (rev ls) hb_init.

Definition chk_C07_hb (ls : list label) : bool := h_ok (hb_run ls).

Definition chk_C07 (ls : list label) : bool := chk_C07_mutex ls && chk_C07_hb ls.

(** ** no panic at all (C17 domain) *)
Definition chk_no_panic (tr : list event) : bool := negb (has_panic tr).

(** ** C16: no panic except the documented ones (chunk size zero), which must happen; a chunk pull of
    size zero delivers nothing *)
Definition ev_C16 : tid -> res -> list drops -> list event -> bool :=
  fun t r _ tl =>
    match split_call t tl with
    | Some (BufNew c, _) => if c =? 0 then is_chunkzero r else negb (is_panic r)
    | Some (Loop _ c _, _) => if c =? 0 then is_chunkzero r else negb (is_panic r)
    | Some (Chunk n _, _) => if n =? 0 then match r with RNone => true | _ => false end else negb (is_panic r)
    | Some (_, _) => negb (is_panic r)
    | None => false
    end.

Fixpoint finals_no_panic (tr : list event) : bool :=
  match tr with
  | [] => true
  | EFinal _ r _ :: tl => negb (is_panic r) && finals_no_panic tl
  | _ :: tl => finals_no_panic tl
  end.

Definition chk_C16 (e : env) (tr : list event) : bool := all_rets ev_C16 tr && finals_no_panic tr.

(** ** the checkers restricted to the domain each property quantifies over *)

Fixpoint has_loop (tr : list event) : bool :=
  match tr with [] => false | ECall _ (Loop _ _ _) :: _ => true | _ :: tl => has_loop tl end.

(** [n] is the number of the property; [ls] the label stream (latest first) *)
Definition check_prop (n : N) (e : env) (tr : list event) (ls : list label) : bool :=
  match n with
  | 1 => chk_C01_nodup e tr && (if has_skip tr || has_panic tr then true else chk_C01_noloss e tr)
  | 2 => chk_C02 e tr
  | 3 => chk_C03 e tr
  | 4 => chk_C01_nodup e tr && chk_C04_order e tr && (if has_panic tr then true else chk_C04_prefix e tr)
  | 5 => chk_C05 e tr
  | 6 => chk_C06 e tr
  | 7 => chk_C07 ls
  | 8 => chk_C08 e tr
  | 10 => chk_C10 e tr
  | 11 => chk_C11 e tr
  | 12 => chk_C12_shape tr && chk_C12_src e tr && chk_C01_nodup e tr && chk_C02 e tr && chk_C05 e tr
          && (if has_skip tr || has_panic tr then true else chk_C01_noloss e tr)
  | 16 => chk_C16 e tr && chk_C02 e tr && chk_C03 e tr && chk_C01_nodup e tr
  | 17 => chk_no_panic tr
  | _ => true
  end.
